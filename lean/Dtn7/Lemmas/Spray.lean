import Dtn7.Model.Spray

/-!
Helper lemmas for C18 (spray-and-wait copy budget). Core only.
-/
namespace Dtn7.Spray.Lemmas
open Dtn7.Spray

/-! ### Lists -/

theorem sublist_erase_of_not_mem {l s : List Peer} {p : Peer} (h : l.Sublist s) (hp : p ∉ l) :
    l.Sublist (s.erase p) := by
  induction h with
  | slnil => simp
  | @cons l s a h ih =>
    by_cases hap : a = p
    · subst hap; simpa using h
    · rw [List.erase_cons_tail (by simpa using hap)]
      exact (ih hp).cons a
  | @cons_cons l s a h ih =>
    have hap : a ≠ p := fun e => hp (by simp [e])
    rw [List.erase_cons_tail (by simpa using hap)]
    exact (ih (fun hm => hp (List.mem_cons_of_mem _ hm))).cons_cons a

theorem length_erase_add_one {s : List Peer} {p : Peer} (h : p ∈ s) :
    (s.erase p).length + 1 = s.length := by
  have := List.length_erase_of_mem h
  have hpos : 0 < s.length := List.length_pos_of_mem h
  omega

/-! ### giveBack -/

/-- The defaults: the code after the three repairs. -/
abbrev fixed : Params := {}

theorem giveBack_spray_mem {m : Meta} {p : Peer} {g : Nat} (h : p ∈ m.sent) :
    giveBack fixed .spray m p g = ⟨m.sent.erase p, m.remaining + g⟩ := by
  simp [giveBack, h]

theorem giveBack_binary_mem {m : Meta} {p : Peer} {g : Nat} (h : p ∈ m.sent) :
    giveBack fixed .binary m p g = ⟨m.sent.erase p, m.remaining + g⟩ := by
  simp [giveBack, h]

theorem giveBack_not_mem {a : Algo} {m : Meta} {p : Peer} {g : Nat} (h : p ∉ m.sent) :
    giveBack fixed a m p g = m := by
  simp [giveBack, h]

theorem giveBack_fixed (a : Algo) (m : Meta) (p : Peer) (g : Nat) :
    giveBack fixed a m p g = if p ∈ m.sent then ⟨m.sent.erase p, m.remaining + g⟩ else m := by
  cases a <;> simp [giveBack]

/-- Spray-and-wait: a failure report moves one unit from `sent` to `remaining`. -/
theorem giveBack_conserves (a : Algo) (m : Meta) (p : Peer) :
    (giveBack fixed a m p 1).remaining + (giveBack fixed a m p 1).sent.length
      = m.remaining + m.sent.length := by
  rw [giveBack_fixed]
  split
  · next h => have := length_erase_add_one h; simp only; omega
  · rfl

theorem giveBack_remaining_ge (a : Algo) (m : Meta) (p : Peer) (g : Nat) :
    m.remaining ≤ (giveBack fixed a m p g).remaining := by
  rw [giveBack_fixed]; split <;> simp

theorem giveBack_sublist (a : Algo) (m : Meta) (p : Peer) (g : Nat) {l : List Peer}
    (h : l.Sublist m.sent) (hp : p ∉ l) : l.Sublist (giveBack fixed a m p g).sent := by
  rw [giveBack_fixed]; split
  · exact sublist_erase_of_not_mem h hp
  · exact h

theorem giveBack_sent_subset (a : Algo) (m : Meta) (p : Peer) (g : Nat) :
    ∀ x ∈ (giveBack fixed a m p g).sent, x ∈ m.sent := by
  rw [giveBack_fixed]; split
  · intro x hx; exact List.mem_of_mem_erase hx
  · intro x hx; exact hx

/-! ### giveBackAll (sequential reference) -/

theorem giveBackAll_none (P : Params) (a : Algo) (fs : List (Peer × Nat)) :
    giveBackAll P a none fs = none := by
  induction fs with
  | nil => rfl
  | cons f fs ih => simpa [giveBackAll, List.foldl_cons] using ih

theorem giveBackAll_cons (P : Params) (a : Algo) (md : Option Meta) (f : Peer × Nat)
    (fs : List (Peer × Nat)) :
    giveBackAll P a md (f :: fs) = giveBackAll P a (md.map (fun m => giveBack P a m f.1 f.2)) fs := rfl

theorem giveBackAll_append (P : Params) (a : Algo) (md : Option Meta) (fs gs : List (Peer × Nat)) :
    giveBackAll P a md (fs ++ gs) = giveBackAll P a (giveBackAll P a md fs) gs := by
  simp [giveBackAll, List.foldl_append]

theorem giveBackAll_some (P : Params) (a : Algo) (m : Meta) (fs : List (Peer × Nat)) :
    ∃ m', giveBackAll P a (some m) fs = some m' := by
  induction fs generalizing m with
  | nil => exact ⟨m, rfl⟩
  | cons f fs ih => rw [giveBackAll_cons]; exact ih _

/-- An invariant of `giveBack` steps is an invariant of any sequence of reports. -/
theorem giveBackAll_induct (a : Algo) (Q : Meta → Prop) (fs : List (Peer × Nat))
    (R : Peer × Nat → Prop) (hR : ∀ f ∈ fs, R f)
    (hstep : ∀ m f, Q m → R f → Q (giveBack fixed a m f.1 f.2))
    (m : Meta) (hm : Q m) : ∃ m', giveBackAll fixed a (some m) fs = some m' ∧ Q m' := by
  induction fs generalizing m with
  | nil => exact ⟨m, rfl, hm⟩
  | cons f fs ih =>
    rw [giveBackAll_cons]
    exact ih (fun g hg => hR g (List.mem_cons_of_mem _ hg)) _
      (hstep m f hm (hR f (List.mem_cons_self ..)))

/-- Sequential reports for distinct peers that are all in `sent`: every one gives its copies back. -/
theorem giveBackAll_exact (a : Algo) (fs : List (Peer × Nat)) (m : Meta)
    (hnd : (fs.map (·.1)).Nodup) (hin : ∀ f ∈ fs, f.1 ∈ m.sent) :
    ∃ m', giveBackAll fixed a (some m) fs = some m' ∧
      m'.remaining = m.remaining + (fs.map (·.2)).sum ∧
      m'.sent.length + fs.length = m.sent.length ∧
      (∀ x, x ∈ m.sent → x ∉ fs.map (·.1) → x ∈ m'.sent) ∧
      (∀ x ∈ fs.map (·.1), x ∈ m.sent → m.sent.Nodup → x ∉ m'.sent) ∧
      m'.sent.Sublist m.sent := by
  induction fs generalizing m with
  | nil => exact ⟨m, rfl, by simp, by simp, by simp, by simp, List.Sublist.refl _⟩
  | cons f fs ih =>
    rw [giveBackAll_cons]
    have hf : f.1 ∈ m.sent := hin f (List.mem_cons_self ..)
    simp only [List.map_cons, List.nodup_cons] at hnd
    have hstep : giveBack fixed a m f.1 f.2 = ⟨m.sent.erase f.1, m.remaining + f.2⟩ := by
      rw [giveBack_fixed]; simp [hf]
    simp only [Option.map_some, hstep]
    have hin' : ∀ g ∈ fs, g.1 ∈ (⟨m.sent.erase f.1, m.remaining + f.2⟩ : Meta).sent := by
      intro g hg
      have hne : g.1 ≠ f.1 := fun e => hnd.1 (e ▸ List.mem_map_of_mem hg)
      exact (List.mem_erase_of_ne hne).mpr (hin g (List.mem_cons_of_mem _ hg))
    obtain ⟨m', h1, h2, h3, h4, h4', h5⟩ := ih _ hnd.2 hin'
    refine ⟨m', h1, ?_, ?_, ?_, ?_, ?_⟩
    · simp only [List.map_cons, List.sum_cons]; simp only at h2; omega
    · have := length_erase_add_one hf; simp only [List.length_cons]; simp only at h3; omega
    · intro x hx hn
      have hxf : x ≠ f.1 := fun e => hn (by simp [e])
      have hxfs : x ∉ fs.map (·.1) := fun hm => hn (by simp only [List.map_cons]; exact List.mem_cons_of_mem _ hm)
      exact h4 x ((List.mem_erase_of_ne hxf).mpr hx) hxfs
    · intro x hx hxs hnds hxm
      simp only [List.map_cons, List.mem_cons] at hx
      rcases hx with hx | hx
      · subst hx
        have : f.1 ∈ m.sent.erase f.1 := h5.subset hxm
        exact (List.Nodup.mem_erase_iff hnds).mp this |>.1 rfl
      · have hxf : x ≠ f.1 := fun e => hnd.1 (e ▸ hx)
        exact h4' x hx ((List.mem_erase_of_ne hxf).mpr hxs) (hnds.erase _) hxm
    · exact h5.trans (List.erase_sublist ..)

/-! ### SprayAndWait.SenderForBundle -/

theorem sprayPick_spec (cs : List Peer) (m : Meta) :
    (sprayPick cs m).2.sent = m.sent ++ (sprayPick cs m).1 ∧
    (sprayPick cs m).2.remaining + (sprayPick cs m).1.length = m.remaining ∧
    (1 ≤ m.remaining → 1 ≤ (sprayPick cs m).2.remaining) ∧
    (sprayPick cs m).1.Nodup ∧
    (∀ p ∈ (sprayPick cs m).1, p ∉ m.sent ∧ p ∈ cs) := by
  induction cs generalizing m with
  | nil => simp [sprayPick]
  | cons c cs ih =>
    unfold sprayPick
    split
    · simp
    · next h2 =>
      split
      · next hc =>
        obtain ⟨h1, h2', h3, h4, h5⟩ := ih m
        exact ⟨h1, h2', h3, h4, fun p hp => ⟨(h5 p hp).1, List.mem_cons_of_mem _ (h5 p hp).2⟩⟩
      · next hc =>
        obtain ⟨h1, h2', h3, h4, h5⟩ := ih ⟨m.sent ++ [c], m.remaining - 1⟩
        simp only at h1 h2' h3 h5 ⊢
        refine ⟨by rw [h1]; simp, by simp only [List.length_cons]; omega, fun _ => h3 (by omega), ?_, ?_⟩
        · refine List.nodup_cons.mpr ⟨fun hm => ?_, h4⟩
          exact (h5 c hm).1 (by simp)
        · intro p hp
          simp only [List.mem_cons] at hp
          rcases hp with hp | hp
          · subst hp; exact ⟨hc, List.mem_cons_self ..⟩
          · have := h5 p hp
            exact ⟨fun hm => this.1 (List.mem_append_left _ hm), List.mem_cons_of_mem _ this.2⟩

/-! ### The interleaving semantics of concurrent `ReportFailure` calls -/

theorem map_set_same {α β} (f : α → β) (ts : List α) (i : Nat) (t' : α)
    (h : ∀ t, ts[i]? = some t → f t' = f t) : (ts.set i t').map f = ts.map f := by
  induction ts generalizing i with
  | nil => rfl
  | cons x xs ih =>
    cases i with
    | zero => simp [h x (by simp)]
    | succ i => simp only [List.set_cons_succ, List.map_cons]; rw [ih i (fun t ht => h t (by simpa using ht))]

theorem filter_map_set_same {α β} (p : α → Bool) (f : α → β) (ts : List α) (i : Nat) (t' : α)
    (h : ∀ t, ts[i]? = some t → f t' = f t ∧ p t' = p t) :
    ((ts.set i t').filter p).map f = (ts.filter p).map f := by
  induction ts generalizing i with
  | nil => rfl
  | cons x xs ih =>
    cases i with
    | zero =>
      obtain ⟨h1, h2⟩ := h x (by simp)
      simp only [List.set_cons_zero, List.filter_cons, h2]
      split <;> simp [h1]
    | succ i =>
      simp only [List.set_cons_succ, List.filter_cons]
      have := ih i (fun t ht => h t (by simpa using ht))
      split <;> simp [this]

theorem filter_map_set_new {α β} (p : α → Bool) (f : α → β) (ts : List α) (i : Nat) (t t' : α)
    (hi : ts[i]? = some t) (hp : p t = false) (hp' : p t' = true) :
    (((ts.set i t').filter p).map f).Perm (f t' :: (ts.filter p).map f) := by
  induction ts generalizing i with
  | nil => simp at hi
  | cons x xs ih =>
    cases i with
    | zero =>
      simp only [List.getElem?_cons_zero, Option.some.injEq] at hi
      subst hi
      simp [List.filter_cons, hp, hp']
    | succ i =>
      simp only [List.getElem?_cons_succ] at hi
      simp only [List.set_cons_succ, List.filter_cons]
      split
      · simp only [List.map_cons]
        exact ((ih i hi).cons (f x)).trans (List.Perm.swap ..)
      · exact ih i hi

/-- `ReportFailure` of the repaired code: the whole read-modify-write under the write lock. -/
abbrev AP : List Op := [.lock, .read, .write, .unlock]

theorem rfProgram_fixed : rfProgram fixed.atomicRF = AP := rfl

def key (t : Thread) : Peer × Nat := (t.peer, t.give)

/-- Invariant of every reachable state of the atomic program. -/
structure SInv (a : Algo) (md0 : Option Meta) (fs : List (Peer × Nat)) (st : SState) : Prop where
  keys : st.2.map key = fs
  readers : st.1.readers = 0
  holder : ∀ (i : Nat) (t : Thread), st.2[i]? = some t → ((1 ≤ t.pc ∧ t.pc ≤ 3) ↔ st.1.writer = some i)
  loc : ∀ (i : Nat) (t : Thread), st.2[i]? = some t → t.pc = 2 → t.loc = st.1.md
  lin : st.1.md = giveBackAll fixed a md0 st.1.order
  sub : ∀ k ∈ st.1.order, k ∈ fs
  perm : md0.isSome → st.1.order.Perm ((st.2.filter (fun t => decide (3 ≤ t.pc))).map key)

theorem sinv_init (a : Algo) (md0 : Option Meta) (fs : List (Peer × Nat)) :
    SInv a md0 fs ({ md := md0 }, initThreads fs) := by
  refine ⟨?_, rfl, ?_, ?_, rfl, by simp, ?_⟩
  · simp [initThreads, key, Function.comp_def]
  · intro i t ht
    simp only [initThreads, List.getElem?_map, Option.map_eq_some_iff] at ht
    obtain ⟨f, _, rfl⟩ := ht
    simp
  · intro i t ht h2
    simp only [initThreads, List.getElem?_map, Option.map_eq_some_iff] at ht
    obtain ⟨f, _, rfl⟩ := ht
    simp at h2
  · intro _
    have : (initThreads fs).filter (fun t => decide (3 ≤ t.pc)) = [] := by
      apply List.filter_eq_nil_iff.mpr
      intro t ht
      simp only [initThreads, List.mem_map] at ht
      obtain ⟨f, _, rfl⟩ := ht
      simp
    simp [this]

theorem getElem?_set_eq' {α} (ts : List α) (i j : Nat) (t' t : α) (hi : ts[i]? = some t) :
    (ts.set i t')[j]? = if i = j then some t' else ts[j]? := by
  have hlt : i < ts.length := by
    rcases Nat.lt_or_ge i ts.length with h | h
    · exact h
    · rw [List.getElem?_eq_none h] at hi; cases hi
  rw [List.getElem?_set]
  split
  · simp [hlt]
  · rfl

theorem stepThread_inv (a : Algo) (md0 : Option Meta) (fs : List (Peer × Nat)) (st : SState)
    (h : SInv a md0 fs st) (i : Nat) : SInv a md0 fs (stepThread fixed a AP st i) := by
  unfold stepThread
  split
  · exact h
  · next t hti =>
    have hset : ∀ t' j, (st.2.set i t')[j]? = if i = j then some t' else st.2[j]? :=
      fun t' j => getElem?_set_eq' st.2 i j t' t hti
    have hkey : ∀ t' : Thread, key t' = key t → (st.2.set i t').map key = fs := by
      intro t' hk
      rw [map_set_same key st.2 i t' (fun u hu => by rw [hti] at hu; cases hu; exact hk)]
      exact h.keys
    -- the program counter selects the micro-step
    by_cases hpc4 : 4 ≤ t.pc
    · have : AP[t.pc]? = none := by
        apply List.getElem?_eq_none; simpa using hpc4
      simp only [this]; exact h
    have hpcs : t.pc = 0 ∨ t.pc = 1 ∨ t.pc = 2 ∨ t.pc = 3 := by omega
    rcases hpcs with h0 | h1 | h2 | h3
    · -- lock
      have hop : AP[t.pc]? = some .lock := by rw [h0]; rfl
      simp only [hop]
      by_cases hen : (st.1.writer.isNone && st.1.readers == 0) = true
      · have hexec : exec fixed a i .lock st.1 t = some ({ st.1 with writer := some i }, t) := by
          simp [exec, hen]
        simp only [hexec]
        simp only [Bool.and_eq_true, Option.isNone_iff_eq_none, beq_iff_eq] at hen
        refine ⟨hkey _ rfl, h.readers, ?_, ?_, h.lin, h.sub, ?_⟩
        · intro j u hu
          rw [hset] at hu
          split at hu
          · next hij => cases hu; subst hij; simp [h0]
          · next hij =>
            have := h.holder j u hu
            simp only [hen.1] at this
            simp only
            constructor
            · intro hh; exact absurd (this.mp hh) (by simp)
            · intro hh; simp only [Option.some.injEq] at hh; exact absurd hh hij
        · intro j u hu hp2
          rw [hset] at hu
          split at hu
          · cases hu; simp [h0] at hp2
          · exact h.loc j u hu hp2
        · intro hs
          rw [filter_map_set_same _ key st.2 i _ (fun u hu => by
            rw [hti] at hu; cases hu; simp [key, h0])]
          exact h.perm hs
      · have hexec : exec fixed a i .lock st.1 t = none := by simp [exec, hen]
        simp only [hexec]; exact h
    · -- read
      have hop : AP[t.pc]? = some .read := by rw [h1]; rfl
      simp only [hop, exec]
      have hw : st.1.writer = some i := (h.holder i t hti).mp (by omega)
      refine ⟨hkey _ rfl, h.readers, ?_, ?_, h.lin, h.sub, ?_⟩
      · intro j u hu
        rw [hset] at hu
        split at hu
        · next hij => cases hu; subst hij; simp [hw, h1]
        · exact h.holder j u hu
      · intro j u hu hp2
        rw [hset] at hu
        split at hu
        · cases hu; rfl
        · exact h.loc j u hu hp2
      · intro hs
        rw [filter_map_set_same _ key st.2 i _ (fun u hu => by
          rw [hti] at hu; cases hu; simp [key, h1])]
        exact h.perm hs
    · -- write
      have hop : AP[t.pc]? = some .write := by rw [h2]; rfl
      simp only [hop, exec]
      have hw : st.1.writer = some i := (h.holder i t hti).mp (by omega)
      have hloc : t.loc = st.1.md := h.loc i t hti h2
      have hothers : ∀ j u, i ≠ j → st.2[j]? = some u → u.pc ≠ 2 := by
        intro j u hij hu hp
        have := (h.holder j u hu).mp (by omega)
        rw [hw] at this; simp only [Option.some.injEq] at this; exact hij this
      cases hmd : t.loc with
      | none =>
        simp only
        refine ⟨hkey _ rfl, h.readers, ?_, ?_, h.lin, h.sub, ?_⟩
        · intro j u hu
          rw [hset] at hu
          split at hu
          · next hij => cases hu; subst hij; simp [hw, h2]
          · exact h.holder j u hu
        · intro j u hu hp2
          rw [hset] at hu
          split at hu
          · cases hu; simp [h2] at hp2
          · exact h.loc j u hu hp2
        · intro hs
          -- impossible: the metadata exists initially, so it exists now
          obtain ⟨m0, hm0⟩ := Option.isSome_iff_exists.mp hs
          obtain ⟨m', hm'⟩ := giveBackAll_some fixed a m0 st.1.order
          have := h.lin
          rw [hm0, hm', ← hloc, hmd] at this
          cases this
      | some m =>
        simp only
        refine ⟨hkey _ rfl, h.readers, ?_, ?_, ?_, ?_, ?_⟩
        · intro j u hu
          rw [hset] at hu
          split at hu
          · next hij => cases hu; subst hij; simp [hw, h2]
          · exact h.holder j u hu
        · intro j u hu hp2
          rw [hset] at hu
          split at hu
          · cases hu; simp [h2] at hp2
          · next hij => exact absurd hp2 (hothers j u hij hu)
        · simp only
          rw [giveBackAll_append, ← h.lin, ← hloc, hmd]
          rfl
        · intro k hk
          simp only [List.mem_append, List.mem_singleton] at hk
          rcases hk with hk | hk
          · exact h.sub k hk
          · subst hk
            have : key t ∈ st.2.map key := List.mem_map_of_mem (List.mem_of_getElem? hti)
            rw [h.keys] at this; exact this
        · intro hs
          have hp := filter_map_set_new (fun t => decide (3 ≤ t.pc)) key st.2 i t
            { t with pc := t.pc + 1 } hti (by simp [h2]) (by simp [h2])
          refine (List.perm_append_comm.trans ?_).trans hp.symm
          simp only [List.singleton_append]
          exact (h.perm hs).cons _
    · -- unlock
      have hop : AP[t.pc]? = some .unlock := by rw [h3]; rfl
      simp only [hop, exec]
      have hw : st.1.writer = some i := (h.holder i t hti).mp (by omega)
      refine ⟨hkey _ rfl, h.readers, ?_, ?_, h.lin, h.sub, ?_⟩
      · intro j u hu
        rw [hset] at hu
        split at hu
        · next hij => cases hu; subst hij; simp [h3]
        · next hij =>
          have := h.holder j u hu
          rw [hw] at this
          simp only
          constructor
          · intro hh; have := this.mp hh; simp only [Option.some.injEq] at this; exact absurd this hij
          · intro hh; cases hh
      · intro j u hu hp2
        rw [hset] at hu
        split at hu
        · cases hu; simp [h3] at hp2
        · exact h.loc j u hu hp2
      · intro hs
        rw [filter_map_set_same _ key st.2 i _ (fun u hu => by
          rw [hti] at hu; cases hu; simp [key, h3])]
        exact h.perm hs

theorem runSched_inv (a : Algo) (md0 : Option Meta) (fs : List (Peer × Nat)) (σ : List Nat)
    (st : SState) (h : SInv a md0 fs st) : SInv a md0 fs (runSched fixed a AP st σ) := by
  induction σ generalizing st with
  | nil => exact h
  | cons i σ ih => exact ih _ (stepThread_inv a md0 fs st h i)

theorem reportFailures_inv (a : Algo) (md0 : Option Meta) (fs : List (Peer × Nat)) (σ : List Nat) :
    SInv a md0 fs (reportFailures fixed a md0 fs σ) :=
  runSched_inv a md0 fs σ _ (sinv_init a md0 fs)

end Dtn7.Spray.Lemmas
