import Dtn7.Lemmas.StoreCovers

set_option linter.unusedSimpArgs false
set_option linter.unusedSectionVars false

/-!
C08: fragments of one bundle — collected once each, complete exactly when covering, and the two
concurrent pushes.
-/
namespace Dtn7.Store.Lemmas
open Dtn7.Store

section
variable (parse : Bytes → Option Bundle)

/-! ### Each distinct fragment once -/

theorem bundle_fragKey (b : Bundle) (o t : Nat) (h : b.frag = some (o, t)) : fragKey b = (o, t) := by
  simp [fragKey, bOff, bTotal, h]

theorem exec_push_index_same (s : State) (b : Bundle) (it : Item) (hg : get b.id s.index = some it)
    (hc : pushCond b it = false) : (exec parse s (.push b)).index = s.index := by
  cases hk : pushKnown b it with
  | false => simp only [exec, plan_push_ignored parse s b it hg hc hk, runSteps]
  | true =>
    simp only [exec, plan_push_known parse s b it hg hk]
    cases keepsStored parse s b with
    | true => rfl
    | false =>
      show (runSteps s (replaceSteps _ _)).index = s.index
      rw [run_replaceSteps]

theorem fragments_collected {s : State} (h : Inv' parse s) {b : Bundle} (hwf : WF parse b)
    (hfr : b.frag.isSome = true)
    (hrec : ∀ it, get b.id s.index = some it → it.fragmented = true) :
    ∃ it, get b.id (exec parse s (.push b)).index = some it ∧
      (it.parts.map (fun p => (p.off, p.total))).count (fragKey b) = 1 ∧
      ∃ p ∈ it.parts, (p.off, p.total) = fragKey b ∧
        ∃ b', loadPart parse (exec parse s (.push b)) p = some b' ∧ b'.id = b.id ∧ b'.frag = b.frag := by
  have hinv := (exec_refines parse h (.push b) hwf).1
  have key : ∃ it, get b.id (exec parse s (.push b)).index = some it ∧ it.fragmented = true ∧
      ∃ p ∈ it.parts, (p.off, p.total) = fragKey b := by
    cases hg : get b.id s.index with
    | none =>
      rw [exec_push_new parse s b hg]
      exact ⟨newItem b, get_put_self _ _ _, hfr, partOf b, by simp [newItem], rfl⟩
    | some it0 =>
      cases hc : pushCond b it0 with
      | true =>
        rw [exec_push_frag parse s b it0 hg hc]
        exact ⟨_, get_put_self _ _ _, hrec it0 hg, partOf b, by simp, rfl⟩
      | false =>
        rw [exec_push_index_same parse s b it0 hg hc]
        refine ⟨it0, hg, hrec it0 hg, ?_⟩
        simp only [pushCond, hfr, hrec it0 hg, Bool.true_and, Bool.not_eq_false',
          List.any_eq_true] at hc
        obtain ⟨p, hp, hsf⟩ := hc
        exact ⟨p, hp, by simpa [sameFrag] using hsf⟩
  obtain ⟨it, hg, hfrg, p, hp, hk⟩ := key
  have ok := hinv.2 b.id it hg
  refine ⟨it, hg, ?_, p, hp, hk, ?_⟩
  · rw [List.Nodup.count ok.nodup, if_pos]
    exact List.mem_map.mpr ⟨p, hp, hk⟩
  · obtain ⟨b', hb', hid, hfrag⟩ := ok.readable p hp
    refine ⟨b', hb', hid, ?_⟩
    rw [hfrag, ok.names p hp]
    simp only [hfrg, if_true]
    rw [hk, frag_eq b, if_pos hfr]; rfl

/-! ### Complete ⇔ covers, for a stored item -/

theorem loadParts_some (s : State) (id : Id) (ps : List Part)
    (h : ∀ p ∈ ps, ∃ b, loadPart parse s p = some b ∧ b.id = id ∧ b.frag = some (p.off, p.total)) :
    ∃ bs, loadParts parse s ps = some bs ∧ (∀ b ∈ bs, b.id = id ∧ b.frag.isSome = true) ∧
      bs.map fragKey = ps.map (fun p => (p.off, p.total)) := by
  induction ps with
  | nil => exact ⟨[], rfl, by simp, rfl⟩
  | cons p r ih =>
    obtain ⟨b, hb, hid, hfrag⟩ := h p (by simp)
    obtain ⟨bs, hbs, h1, h2⟩ := ih (fun q hq => h q (List.mem_cons_of_mem _ hq))
    refine ⟨b :: bs, by simp [loadParts, hb, hbs], ?_, ?_⟩
    · intro x hx
      rcases List.mem_cons.mp hx with hx | hx
      · subst hx; exact ⟨hid, by simp [hfrag]⟩
      · exact h1 x hx
    · simp only [List.map_cons, h2, bundle_fragKey b _ _ hfrag]

theorem complete_iff_covers {s : State} {id : Id} {it : Item} (ok : ItemOk parse s id it)
    (hf : it.fragmented = true) (T : Nat) (hT : ∀ p ∈ it.parts, p.total = T) :
    ∃ bs, loadParts parse s it.parts = some bs ∧ (∀ b ∈ bs, b.id = id) ∧
      bs.map fragKey = it.parts.map (fun p => (p.off, p.total)) ∧
      (isComplete parse true s it = true ↔ Covers (bs.map ivOf) T) := by
  obtain ⟨bs, hbs, h1, h2⟩ := loadParts_some parse s id it.parts (by
    intro p hp
    obtain ⟨b, hb, hid, hfrag⟩ := ok.readable p hp
    refine ⟨b, hb, hid, ?_⟩
    rw [hfrag, ok.names p hp]; simp [hf])
  refine ⟨bs, hbs, fun b hb => (h1 b hb).1, h2, ?_⟩
  have hne : bs ≠ [] := by
    intro e; subst e
    have := congrArg List.length h2
    simp only [List.map_nil, List.length_nil, List.length_map] at this
    exact ok.nonempty (List.length_eq_zero_iff.mp this.symm)
  have hTb : ∀ b ∈ bs, bTotal b = T := by
    intro b hb
    have : fragKey b ∈ it.parts.map (fun p => (p.off, p.total)) := by
      rw [← h2]; exact List.mem_map.mpr ⟨b, hb, rfl⟩
    obtain ⟨p, hp, he⟩ := List.mem_map.mp this
    have := congrArg Prod.snd he
    simp only [fragKey] at this
    rw [← this]; exact hT p hp
  simp only [isComplete, hf, hbs, Bool.not_true, Bool.false_or]
  exact reassemblable_iff_covers bs T hne (fun b hb => (h1 b hb).2) hTb

/-! ### Two concurrent pushes under the store mutex are serialised -/

def s12 (b1 b2 : Bundle) (s : State) : State := exec parse (exec parse s (.push b1)) (.push b2)
def s21 (b1 b2 : Bundle) (s : State) : State := exec parse (exec parse s (.push b2)) (.push b1)

/-- Invariant of every configuration reachable under the mutex. -/
def SerialInv (b1 b2 : Bundle) (s : State) (c : Conf) : Prop :=
  match c.t1, c.t2 with
  | .idle, .idle => c.st = s
  | .busy r, .idle => runSteps c.st r = exec parse s (.push b1)
  | .done, .idle => c.st = exec parse s (.push b1)
  | .idle, .busy r => runSteps c.st r = exec parse s (.push b2)
  | .idle, .done => c.st = exec parse s (.push b2)
  | .done, .busy r => runSteps c.st r = s12 parse b1 b2 s
  | .busy r, .done => runSteps c.st r = s21 parse b1 b2 s
  | .done, .done => c.st = s12 parse b1 b2 s ∨ c.st = s21 parse b1 b2 s
  | .busy _, .busy _ => False

theorem serialInv_step (b1 b2 : Bundle) (s : State) (c : Conf) (who : Bool)
    (h : SerialInv parse b1 b2 s c) : SerialInv parse b1 b2 s (cstep parse true b1 b2 c who) := by
  obtain ⟨st, t1, t2⟩ := c
  cases who with
  | false =>
    cases t1 with
    | idle => cases t2 <;> simp_all [SerialInv, cstep, tstep, TState.inside, exec, runSteps, s12, s21]
    | busy r1 =>
      cases r1 <;> cases t2 <;>
        simp_all [SerialInv, cstep, tstep, TState.inside, exec, runSteps, s12, s21]
    | done => cases t2 <;> simp_all [SerialInv, cstep, tstep, TState.inside, exec, runSteps, s12, s21]
  | true =>
    cases t2 with
    | idle => cases t1 <;> simp_all [SerialInv, cstep, tstep, TState.inside, exec, runSteps, s12, s21]
    | busy r2 =>
      cases r2 <;> cases t1 <;>
        simp_all [SerialInv, cstep, tstep, TState.inside, exec, runSteps, s12, s21]
    | done => cases t1 <;> simp_all [SerialInv, cstep, tstep, TState.inside, exec, runSteps, s12, s21]

theorem serialInv_run (b1 b2 : Bundle) (s : State) (sched : List Bool) :
    SerialInv parse b1 b2 s (runSched parse true b1 b2 s sched) := by
  have : ∀ c, SerialInv parse b1 b2 s c → SerialInv parse b1 b2 s (sched.foldl (cstep parse true b1 b2) c) := by
    induction sched with
    | nil => intro c h; exact h
    | cons w r ih => intro c h; exact ih _ (serialInv_step parse b1 b2 s c w h)
  exact this _ (by simp [SerialInv])

/-- Under the mutex every schedule in which both pushes return ends in the state of one of the two
sequential orders. -/
theorem locked_serial (b1 b2 : Bundle) (s : State) (sched : List Bool)
    (hfin : (runSched parse true b1 b2 s sched).finished = true) :
    (runSched parse true b1 b2 s sched).st = s12 parse b1 b2 s ∨ (runSched parse true b1 b2 s sched).st = s21 parse b1 b2 s := by
  have h := serialInv_run parse b1 b2 s sched
  generalize runSched parse true b1 b2 s sched = c at h hfin
  obtain ⟨st, t1, t2⟩ := c
  simp only [Conf.finished, Bool.and_eq_true, beq_iff_eq] at hfin
  obtain ⟨h1, h2⟩ := hfin
  subst h1 h2
  exact h

/-! ### Spec level: a fresh fragment is appended, nothing is ever dropped by a push -/

theorem spec_push_fresh (m : SMap) (b : Bundle) (hfr : b.frag.isSome = true)
    (hfresh : ∀ r, get b.id m = some r → r.fragmented = true ∧ ∀ p ∈ r.parts, p.1 ≠ fragKey b) :
    ∃ r', get b.id (specStep m (.op (.push b))) = some r' ∧ r'.fragmented = true ∧
      (∀ r, get b.id m = some r → r'.parts = r.parts ++ [(fragKey b, content b)]) ∧
      (get b.id m = none → r'.parts = [(fragKey b, content b)]) := by
  cases hg : get b.id m with
  | none =>
    refine ⟨⟨b.frag.isSome, [(fragKey b, content b)], false, b.expires, []⟩, ?_, hfr, ?_, ?_⟩
    · simp only [specStep, hg]; exact get_put_self _ _ _
    · intro r hr; cases hr
    · intro _; rfl
  | some r =>
    obtain ⟨h1, h2⟩ := hfresh r hg
    have hany : hasKey (fragKey b) r.parts = false := by
      simp only [hasKey]
      rw [List.any_eq_false]; intro p hp; simpa using h2 p hp
    refine ⟨{ r with parts := r.parts ++ [(fragKey b, content b)] }, ?_, h1, ?_, ?_⟩
    · simp only [specStep, hg, hfr, h1, hany, Bool.and_self, if_true, Bool.false_eq_true, if_false]
      exact get_put_self _ _ _
    · intro r0 hr0; injection hr0 with hr0; subst hr0; rfl
    · intro hn; cases hn

/-- Both fragments are recorded, byte-identical, after the two pushes in this order. -/
theorem spec_two_pushes (m : SMap) (b1 b2 : Bundle) (hid : b1.id = b2.id)
    (hk : fragKey b1 ≠ fragKey b2) (hf1 : b1.frag.isSome = true) (hf2 : b2.frag.isSome = true)
    (hfresh : ∀ r, get b1.id m = some r → r.fragmented = true ∧
      ∀ p ∈ r.parts, p.1 ≠ fragKey b1 ∧ p.1 ≠ fragKey b2) :
    ∃ r, get b1.id (specStep (specStep m (.op (.push b1))) (.op (.push b2))) = some r ∧
      (fragKey b1, content b1) ∈ r.parts ∧ (fragKey b2, content b2) ∈ r.parts := by
  obtain ⟨r1, hg1, hfr1, hp1, hp1'⟩ := spec_push_fresh m b1 hf1
    (fun r hr => ⟨(hfresh r hr).1, fun p hp => ((hfresh r hr).2 p hp).1⟩)
  have hparts1 : ∀ p ∈ r1.parts, p.1 ≠ fragKey b2 := by
    intro p hp
    cases hg : get b1.id m with
    | none =>
      rw [hp1' hg] at hp
      simp only [List.mem_singleton] at hp
      subst hp; exact hk
    | some r =>
      rw [hp1 r hg] at hp
      rcases List.mem_append.mp hp with hp | hp
      · exact ((hfresh r hg).2 p hp).2
      · simp only [List.mem_singleton] at hp
        subst hp; exact hk
  rw [hid] at hg1
  obtain ⟨r2, hg2, _, hp2, _⟩ := spec_push_fresh _ b2 hf2
    (fun r hr => by rw [hg1] at hr; injection hr with hr; subst hr; exact ⟨hfr1, hparts1⟩)
  rw [hid]
  refine ⟨r2, hg2, ?_, ?_⟩
  · rw [hp2 r1 hg1]
    apply List.mem_append_left
    cases hg : get b1.id m with
    | none => rw [hp1' hg]; simp
    | some r => rw [hp1 r hg]; simp
  · rw [hp2 r1 hg1]; simp

/-- **Concurrent fragments.** Two pushes of different fragments of one bundle, run under the store
mutex in any schedule in which both return: both parts are recorded in the bundle's one record and
read back byte-identical. -/
theorem concurrent_fragments {s : State} (h : Inv' parse s) (b1 b2 : Bundle)
    (hw1 : WF parse b1) (hw2 : WF parse b2) (hid : b1.id = b2.id) (hk : fragKey b1 ≠ fragKey b2)
    (hf1 : b1.frag.isSome = true) (hf2 : b2.frag.isSome = true)
    (hfresh : ∀ r, get b1.id (abs parse s) = some r → r.fragmented = true ∧
      ∀ p ∈ r.parts, p.1 ≠ fragKey b1 ∧ p.1 ≠ fragKey b2)
    (sched : List Bool) (hfin : (runSched parse true b1 b2 s sched).finished = true) :
    ∃ r, get b1.id (abs parse (runSched parse true b1 b2 s sched).st) = some r ∧
      (fragKey b1, content b1) ∈ r.parts ∧ (fragKey b2, content b2) ∈ r.parts := by
  rcases locked_serial parse b1 b2 s sched hfin with hs | hs
  · rw [hs]
    obtain ⟨h1, a1⟩ := exec_refines parse h (.push b1) hw1
    obtain ⟨_, a2⟩ := exec_refines parse h1 (.push b2) hw2
    simp only [s12]
    rw [a2, a1]
    exact spec_two_pushes _ b1 b2 hid hk hf1 hf2 hfresh
  · rw [hs]
    obtain ⟨h1, a1⟩ := exec_refines parse h (.push b2) hw2
    obtain ⟨_, a2⟩ := exec_refines parse h1 (.push b1) hw1
    simp only [s21]
    rw [a2, a1]
    obtain ⟨r, hr, hb2, hb1⟩ := spec_two_pushes (abs parse s) b2 b1 hid.symm (fun e => hk e.symm) hf2 hf1
      (fun r hr => by
        rw [← hid] at hr
        exact ⟨(hfresh r hr).1, fun p hp => ⟨((hfresh r hr).2 p hp).2, ((hfresh r hr).2 p hp).1⟩⟩)
    rw [← hid] at hr
    exact ⟨r, hr, hb1, hb2⟩

end
end Dtn7.Store.Lemmas
