/-
C05, full strength: direct delivery, epidemic flooding and restart along EVERY history.
-/
import Dtn7.Lemmas.NodeDirect
import Dtn7.Lemmas.NodeFull
import Dtn7.Lemmas.NodeEpi

namespace Dtn7.Node

/-- The C05 clauses other than `Retained` hold at every step of EVERY history (no domain hypothesis), for
the code as it is: flooding and restart always; direct delivery with the closed gate of epidemic routing as
the only possible failure — and with `gateDirect` (the gate lets a bundle through whose destination is
connected) without any failure. -/
theorem clauses_run (c : Cfg) (hc : Cur c) (env : Env) :
    ∀ (h : List Event) (s : SpecSt) (n : Node) (i : Nat), RInvF c s n → (c.algo = .epidemic → EpiOk n) →
    firstFail (fun c s o => (floodFail c s o).orElse fun _ => restartFail s o) c s i
      ((trace env n h).map obsOf) = none ∧
    (∀ j, firstFail directFail c s i ((trace env n h).map obsOf) ≠ some (j, "direct-not-sent")) ∧
    (c.gateDirect = true → firstFail directFail c s i ((trace env n h).map obsOf) = none)
  | [], _, _, _, _, _ => ⟨rfl, fun _ h => by simp [trace, firstFail] at h, fun _ => rfl⟩
  | e :: h, s, n, i, inv, he => by
    simp only [trace, List.map_cons, firstFail]
    have h2 := (rinvF_step c hc env e s n inv).2
    have he2 : c.algo = .epidemic → EpiOk (step env n e).1 := fun ha =>
      epiOk_step env n e (by rw [inv.v.cfg]; exact ha) (by rw [inv.v.cfg]; exact hc.seq)
        (by rw [inv.v.cfg]; exact hc.skip) (he ha)
    have ih := clauses_run c hc env h _ _ (i + 1) h2 he2
    refine ⟨?_, ?_, ?_⟩
    · rw [flood_step c env e s n inv.v, restart_step c env e s n inv.v]
      simp only [Option.orElse]
      exact ih.1
    · intro j
      cases hdf : directFail c s (obsOf (e, (step env n e).2, (step env n e).1)) with
      | none => simp only; exact ih.2.1 j
      | some cls =>
        simp only
        intro h
        cases h
        have := (direct_step c env e s n inv.v he _ hdf).1
        exact absurd this (by decide)
    · intro hg
      cases hdf : directFail c s (obsOf (e, (step env n e).2, (step env n e).1)) with
      | none => simp only; exact ih.2.2 hg
      | some cls =>
        have := (direct_step c env e s n inv.v he _ hdf).2
        rw [hg] at this
        cases this

end Dtn7.Node
