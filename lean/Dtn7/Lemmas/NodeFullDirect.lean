/-
C05, full strength: direct delivery, epidemic flooding and restart along EVERY history.
-/
import Dtn7.Lemmas.NodeDirect
import Dtn7.Lemmas.NodeFull

namespace Dtn7.Node

/-- The C05 clauses other than `Retained` hold at every step of EVERY history (no domain hypothesis), for
the code as it is. -/
theorem clauses_run (c : Cfg) (hc : Cur c) (env : Env) :
    ∀ (h : List Event) (s : SpecSt) (n : Node) (i : Nat), RInvF c s n →
    firstFail (fun c s o => (floodFail c s o).orElse fun _ => restartFail s o) c s i
      ((trace env n h).map obsOf) = none ∧
    ∀ j, firstFail directFail c s i ((trace env n h).map obsOf) ≠ some (j, "direct-not-sent")
  | [], _, _, _, _ => ⟨rfl, fun _ h => by simp [trace, firstFail] at h⟩
  | e :: h, s, n, i, inv => by
    simp only [trace, List.map_cons, firstFail]
    have h2 := (rinvF_step c hc env e s n inv).2
    have ih := clauses_run c hc env h _ _ (i + 1) h2
    constructor
    · rw [flood_step c env e s n inv.v, restart_step c env e s n inv.v]
      simp only [Option.orElse]
      exact ih.1
    · intro j
      have hd := direct_step c env e s n inv.v
      cases hdf : directFail c s (obsOf (e, (step env n e).2, (step env n e).1)) with
      | none => simp only; exact ih.2 j
      | some cls =>
        simp only
        intro h
        cases h
        exact hd hdf

end Dtn7.Node
