import Dtn7.Model.BbcFrag
import Dtn7.Lemmas.Wire

namespace Dtn7.Bbc.Lemmas
open Dtn7.Cbor (Bytes)
open Dtn7.Wire Dtn7.Wire.Lemmas Dtn7.Bbc

/-- All 256 sequence-number arguments × all 8 flag combinations: the accessors return the low five bits
of the number and exactly the three flags. -/
theorem ident_fields_bv : ∀ (b : BitVec 8) (s e f : Bool),
    let i := mkIdent (UInt8.ofBitVec b) s e f
    ((i >>> 3) &&& 0x1F) = (UInt8.ofBitVec b) &&& 0x1F ∧ (i &&& startBit != 0) = s ∧ (i &&& endBit != 0) = e ∧
      (i &&& failBit != 0) = f := by
  decide +kernel

theorem ident_fields (seq : UInt8) (s e f : Bool) :
    let i := mkIdent seq s e f
    ((i >>> 3) &&& 0x1F) = seq &&& 0x1F ∧ (i &&& startBit != 0) = s ∧ (i &&& endBit != 0) = e ∧
      (i &&& failBit != 0) = f :=
  forall_uint8 (P := fun seq => ∀ s e f, let i := mkIdent seq s e f
    ((i >>> 3) &&& 0x1F) = seq &&& 0x1F ∧ (i &&& startBit != 0) = s ∧ (i &&& endBit != 0) = e ∧
      (i &&& failBit != 0) = f) ident_fields_bv seq s e f

theorem and_1F_of_lt : ∀ b : BitVec 8, (UInt8.ofBitVec b).toNat < 32 → (UInt8.ofBitVec b) &&& 0x1F = UInt8.ofBitVec b := by
  decide +kernel

theorem parse_bytes (f : Frag) : parseFrag f.bytes = .ok f := rfl

/-- Every identifier byte is the identifier of the fragment its accessors describe (the header has no
unused or ambiguous encodings). -/
theorem ident_surjective_bv : ∀ b : BitVec 8,
    let i := UInt8.ofBitVec b
    mkIdent ((i >>> 3) &&& 0x1F) (i &&& startBit != 0) (i &&& endBit != 0) (i &&& failBit != 0) = i := by
  decide +kernel

theorem nextSeq_lt_bv : ∀ b : BitVec 8, (nextSeq (UInt8.ofBitVec b)).toNat < 16 ∧
    (nextSeq (UInt8.ofBitVec b)).toNat = ((UInt8.ofBitVec b).toNat + 1) % 256 % 16 := by
  decide +kernel

end Dtn7.Bbc.Lemmas
