import Dtn7.Lemmas.StoreFrag

set_option linter.unusedSimpArgs false
set_option linter.unusedSectionVars false

/-!
C08: facts about the reference map itself (`specStep`), and their transfer to the store.
-/
namespace Dtn7.Store.Lemmas
open Dtn7.Store

section AList
variable {κ : Type} {α : Type} [DecidableEq κ]

theorem mem_put_weak {k : κ} {v : α} {l : List (κ × α)} {e : κ × α} (h : e ∈ put k v l) :
    e = (k, v) ∨ e ∈ l := by
  induction l with
  | nil => simp only [put, List.mem_singleton] at h; exact Or.inl h
  | cons e' r ih =>
    obtain ⟨k', v'⟩ := e'
    by_cases h' : k' = k
    · simp only [put, h', if_true, List.mem_cons] at h
      rcases h with h | h
      · exact Or.inl h
      · exact Or.inr (List.mem_cons_of_mem _ h)
    · simp only [put, h', if_false, List.mem_cons] at h
      rcases h with h | h
      · exact Or.inr (by simp [h])
      · rcases ih h with h | h
        · exact Or.inl h
        · exact Or.inr (List.mem_cons_of_mem _ h)

end AList

/-- The id an operation works on. -/
def target : Op → Id
  | .push b => b.id
  | .update id _ _ _ => id
  | .delete id => id
  | .replace b => b.id

/-- An operation changes the record of its own id only. -/
theorem spec_frame (m : SMap) (op : Op) (id : Id) (h : id ≠ target op) :
    get id (specStep m (.op op)) = get id m := by
  cases op with
  | push b =>
    have hne : b.id ≠ id := fun e => h e.symm
    simp only [specStep]
    cases hg : get b.id m with
    | none => exact get_put_ne _ _ _ _ hne
    | some r =>
      simp only
      split
      · split
        · split
          · exact get_put_ne _ _ _ _ hne
          · rfl
        · exact get_put_ne _ _ _ _ hne
      · rfl
  | update id' pe ex pr =>
    have hne : id' ≠ id := fun e => h e.symm
    simp only [specStep]
    cases hg : get id' m with
    | none => rfl
    | some r => exact get_put_ne _ _ _ _ hne
  | delete id' =>
    have hne : id' ≠ id := fun e => h e.symm
    simp only [specStep]
    exact get_del_ne _ _ _ hne
  | replace b =>
    have hne : b.id ≠ id := fun e => h e.symm
    simp only [specStep]
    cases hg : get b.id m with
    | none => rfl
    | some r =>
      simp only
      split
      · exact get_put_ne _ _ _ _ hne
      · rfl

/-- Effect of the operations on the reference map, by id (sanity of the Spec). -/
theorem spec_delete_gone (m : SMap) (id : Id) : get id (specStep m (.op (.delete id))) = none :=
  get_del_self id m

theorem spec_sweep_get (m : SMap) (hn : (keys m).Nodup) (now : Nat) (id : Id) :
    get id (specStep m (.sweep now)) = (get id m).filter (fun r => !decide (r.expires < now)) := by
  simp only [specStep]
  induction m with
  | nil => rfl
  | cons e r ih =>
    obtain ⟨k, v⟩ := e
    simp only [keys, List.map_cons, List.nodup_cons] at hn
    have ih' := ih hn.2
    by_cases hk : k = id
    · subst hk
      by_cases hv : v.expires < now
      · have hnone : get k r = none := (get_none_iff k r).mpr hn.1
        simp only [List.filter_cons, hv, decide_true, Bool.not_true, Bool.false_eq_true, if_false,
          get_cons, if_true, Option.filter_some]
        rw [ih', hnone]; rfl
      · simp [List.filter_cons, hv, get_cons, Option.filter_some]
    · by_cases hv : v.expires < now
      · simp only [List.filter_cons, hv, decide_true, Bool.not_true, Bool.false_eq_true, if_false,
          get_cons, hk]
        exact ih'
      · simp only [List.filter_cons, hv, decide_false, Bool.not_false, if_true, get_cons, hk, if_false]
        exact ih'

/-- Bundles handed to the store by the history (`Push` or `ReplaceBundle`). -/
def Given (cs : List Cmd) (b : Bundle) : Prop := Cmd.op (.push b) ∈ cs ∨ Cmd.op (.replace b) ∈ cs

/-- Every part held by the reference map stems from a push or a replacement of the history, with
its bytes. -/
def SpecOk (cs : List Cmd) (m : SMap) : Prop :=
  ∀ e ∈ m, ∀ kv ∈ e.2.parts,
    ∃ b, Given cs b ∧ b.id = e.1 ∧ fragKey b = kv.1 ∧ kv.2 = content b

theorem specOk_mono {cs cs' : List Cmd} {m : SMap} (h : SpecOk cs m) (hs : ∀ c ∈ cs, c ∈ cs') :
    SpecOk cs' m := by
  intro e he kv hkv
  obtain ⟨b, hb, r⟩ := h e he kv hkv
  exact ⟨b, hb.imp (hs _) (hs _), r⟩

theorem mem_setPart {k : Nat × Nat} {v : Option (Nat × Bytes)}
    {ps : List ((Nat × Nat) × Option (Nat × Bytes))} {kv : (Nat × Nat) × Option (Nat × Bytes)}
    (h : kv ∈ setPart k v ps) : kv = (k, v) ∨ kv ∈ ps := by
  simp only [setPart, List.mem_map] at h
  obtain ⟨p, hp, he⟩ := h
  by_cases hk : p.1 = k
  · rw [if_pos hk] at he; exact Or.inl he.symm
  · rw [if_neg hk] at he; exact Or.inr (he ▸ hp)

theorem specOk_step (cs : List Cmd) (m : SMap) (c : Cmd) (h : SpecOk cs m) :
    SpecOk (cs ++ [c]) (specStep m c) := by
  have h' : SpecOk (cs ++ [c]) m := specOk_mono h (fun x hx => List.mem_append_left _ hx)
  -- a record whose parts are old ones or the content of a bundle given by `c`
  have upd : ∀ (b : Bundle) (r r' : Record), Given (cs ++ [c]) b → get b.id m = some r →
      (∀ kv ∈ r'.parts, kv = (fragKey b, content b) ∨ kv ∈ r.parts) →
      SpecOk (cs ++ [c]) (put b.id r' m) := by
    intro b r r' hb hg hparts e he kv hkv
    rcases mem_put_weak he with he | he
    · subst he
      rcases hparts kv hkv with hkv | hkv
      · subst hkv; exact ⟨b, hb, rfl, rfl, rfl⟩
      · exact h' (b.id, r) (get_some_mem hg) kv hkv
    · exact h' e he kv hkv
  cases c with
  | op o =>
    cases o with
    | push b =>
      have hb : Given (cs ++ [Cmd.op (.push b)]) b := Or.inl (by simp)
      simp only [specStep]
      cases hg : get b.id m with
      | none =>
        intro e he kv hkv
        rcases mem_put_weak he with he | he
        · subst he
          simp only [List.mem_singleton] at hkv
          subst hkv
          exact ⟨b, hb, rfl, rfl, rfl⟩
        · exact h' e he kv hkv
      | some r =>
        simp only
        split
        · split
          · split
            · exact upd b r _ hb hg (fun kv hkv => mem_setPart hkv)
            · exact h'
          · refine upd b r _ hb hg (fun kv hkv => ?_)
            simp only [List.mem_append, List.mem_singleton] at hkv
            exact hkv.symm
        · exact h'
    | update id pe ex pr =>
      simp only [specStep]
      cases hg : get id m with
      | none => exact h'
      | some r =>
        intro e he kv hkv
        rcases mem_put_weak he with he | he
        · subst he
          exact h' (id, r) (get_some_mem hg) kv hkv
        · exact h' e he kv hkv
    | delete id =>
      intro e he kv hkv
      simp only [specStep, del] at he
      exact h' e (List.mem_filter.mp he).1 kv hkv
    | replace b =>
      have hb : Given (cs ++ [Cmd.op (.replace b)]) b := Or.inr (by simp)
      simp only [specStep]
      cases hg : get b.id m with
      | none => exact h'
      | some r =>
        simp only
        split
        · exact upd b r _ hb hg (fun kv hkv => mem_setPart hkv)
        · exact h'
  | sweep now =>
    intro e he kv hkv
    simp only [specStep] at he
    exact h' e (List.mem_filter.mp he).1 kv hkv
  | reopen => exact h'

theorem specOk_run (cs : List Cmd) : SpecOk cs (specRun [] cs) := by
  have : ∀ (pre cs : List Cmd) (m : SMap), SpecOk pre m → SpecOk (pre ++ cs) (specRun m cs) := by
    intro pre cs
    induction cs generalizing pre with
    | nil => intro m h; simpa [specRun] using h
    | cons c r ih =>
      intro m h
      have := ih (pre ++ [c]) (specStep m c) (specOk_step pre m c h)
      simpa [specRun, List.append_assoc] using this
  have := this [] cs [] (by intro e he; simp at he)
  simpa using this

end Dtn7.Store.Lemmas
