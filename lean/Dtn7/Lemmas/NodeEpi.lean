/-
`routing/epidemic/destination`: under epidemic routing every stored item carries the property, and it names
the destination of the stored bundle — at every event boundary of every history, for the code as it is
(`SendBundle` assigns a free ID first). The gate of epidemic routing reads this property.
-/
import Dtn7.Lemmas.NodeDirect
import Dtn7.Lemmas.NodeSkip

namespace Dtn7.Node

/-- As `EpiOk`, except that the item of the bundle being accepted right now may still be without the property
(between `Store.Push` and `NotifyNewBundle`). -/
def EpiOk' (b : Bundle) (n : Node) : Prop :=
  ∀ k it, n.store.get k = some it →
    it.rt.epiDst = some it.bundle.dst ∨ (k = b.key ∧ it.bundle = b ∧ it.rt.epiDst = none)

theorem EpiOk.weak {n : Node} (b : Bundle) (h : EpiOk n) : EpiOk' b n := fun k it hg => Or.inl (h k it hg)

theorem present_of_rt {k : Key} {n n' : Node} (h : RtStep k n n') (hp : (n.store.get k).isSome = true) :
    (n'.store.get k).isSome = true := by
  cases h0 : n.store.get k with
  | none => rw [h0] at hp; cases hp
  | some it0 =>
    rcases h.item it0 h0 with ⟨it1, g1, _⟩
    rw [g1]; rfl

/-- Routing bookkeeping never changes a written `routing/epidemic/destination`. -/
theorem rtStep_epiOk {k : Key} {n n' : Node} (h : RtStep k n n') (ho : EpiOk n) : EpiOk n' := by
  intro k' it' hg
  by_cases hk : k' = k
  · subst hk
    cases h0 : n.store.get k' with
    | none => rw [h.absent h0] at hg; cases hg
    | some it0 =>
      rcases h.item it0 h0 with ⟨it1, g1, b1, _, _, _, _, d1⟩
      rw [hg] at g1
      cases g1
      rw [b1]
      exact d1 _ (ho _ _ h0)
  · rw [h.only.other k' hk] at hg
    exact ho _ _ hg

/-! ## Sync -/

theorem sync_epiOk (d : Desc) (n : Node) (ho : EpiOk n)
    (hp : (n.store.get d.key).isSome = true ∨ d.bndl = none) : EpiOk (sync d n) := by
  intro k it hg
  unfold sync at hg
  cases h0 : n.store.get d.key with
  | none =>
    rcases hp with hp | hp
    · rw [h0] at hp; cases hp
    · simp only [h0, hp] at hg
      exact ho k it hg
  | some it0 =>
    simp only [h0] at hg
    split at hg
    · by_cases hk : k = d.key
      · subst hk
        simp only [Store.get_erase_eq] at hg
        cases hg
      · simp only [Store.get_erase_ne _ _ _ hk] at hg
        exact ho k it hg
    · by_cases hk : k = d.key
      · subst hk
        simp only [Node.setItem, Store.get_set_eq] at hg
        cases hg
        exact ho _ it0 h0
      · simp only [Node.setItem, Store.get_set_ne _ _ _ _ hk] at hg
        exact ho k it hg

theorem sync_present (d : Desc) (n : Node) (hc : d.cons.isEmpty = false)
    (hp : (n.store.get d.key).isSome = true) : ((sync d n).store.get d.key).isSome = true := by
  cases h0 : n.store.get d.key with
  | none => rw [h0] at hp; cases hp
  | some it0 => rw [sync_update d n it0 h0 hc]; rfl

theorem sync_present_new (d : Desc) (n : Node) (b : Bundle) (hb : d.bndl = some b) (hk : b.key = d.key)
    (hc : d.cons.isEmpty = false) : ((sync d n).store.get d.key).isSome = true := by
  cases h0 : n.store.get d.key with
  | none =>
    rw [sync_push d n b h0 hb, ← hk, push_get_absent b n (by rw [hk]; exact h0)]
    rfl
  | some it0 => rw [sync_update d n it0 h0 hc]; rfl

theorem sync_epiOk' (b : Bundle) (d : Desc) (n : Node) (hb : d.bndl = some b) (hk : b.key = d.key)
    (ho : EpiOk' b n) : EpiOk' b (sync d n) := by
  intro k it hg
  cases h0 : n.store.get d.key with
  | none =>
    rw [sync_push d n b h0 hb] at hg
    by_cases hkk : k = b.key
    · subst hkk
      rw [push_get_absent b n (by rw [hk]; exact h0)] at hg
      cases hg
      exact Or.inr ⟨rfl, rfl, rfl⟩
    · rw [(push_only b n).other k hkk] at hg
      exact ho k it hg
  | some it0 =>
    unfold sync at hg
    simp only [h0] at hg
    split at hg
    · by_cases hkk : k = d.key
      · subst hkk
        simp only [Store.get_erase_eq] at hg
        cases hg
      · simp only [Store.get_erase_ne _ _ _ hkk] at hg
        exact ho k it hg
    · by_cases hkk : k = d.key
      · subst hkk
        simp only [Node.setItem, Store.get_set_eq] at hg
        cases hg
        exact ho _ it0 h0
      · simp only [Node.setItem, Store.get_set_ne _ _ _ _ hkk] at hg
        exact ho k it hg

/-- Deleting the item of the bundle being accepted leaves only items that carry the property. -/
theorem epiOk_of_erased (b : Bundle) (n n' : Node) (ho : EpiOk' b n) (hk : OnlyKey b.key n n')
    (hn : n'.store.get b.key = none) : EpiOk n' := by
  intro k it hg
  by_cases hkk : k = b.key
  · subst hkk; rw [hn] at hg; cases hg
  · rw [hk.other k hkk] at hg
    rcases ho k it hg with h | ⟨h, _⟩
    · exact h
    · exact absurd h hkk

/-! ## NotifyNewBundle -/

theorem epiNotify_sets (b : Bundle) (r : Routing) (h : r.epiDst = none) : (epiNotify b r).epiDst = some b.dst := by
  unfold epiNotify
  simp only [h, Option.isNone_none, if_true]
  cases b.prev with
  | none => rfl
  | some p => simp only; split <;> rfl

theorem notifyNew_epiOk (b : Bundle) (n : Node) (halgo : n.cfg.algo = .epidemic) (ho : EpiOk' b n) :
    EpiOk (notifyNew b.key b n) := by
  unfold notifyNew
  simp only [halgo]
  intro k it hg
  by_cases hk : k = b.key
  · subst hk
    rw [modRt_get] at hg
    cases h0 : n.store.get b.key with
    | none => rw [h0] at hg; cases hg
    | some it0 =>
      rw [h0] at hg
      simp only [Option.map_some] at hg
      cases hg
      rcases ho _ _ h0 with h | ⟨_, hb, hn⟩
      · exact epiNotify_keeps b _ _ h
      · show (epiNotify b it0.rt).epiDst = some it0.bundle.dst
        rw [hb]
        exact epiNotify_sets b _ hn
  · rw [(modRt_only _ _ n).other k hk] at hg
    rcases ho k it hg with h | ⟨h, _⟩
    · exact h
    · exact absurd h hk

/-! ## forward / dispatching -/

theorem forward_epiOk (env : Env) (d : Desc) (b : Bundle) (n : Node) (ho : EpiOk n)
    (hp : (n.store.get d.key).isSome = true) : EpiOk (forward env d b n).1 := by
  unfold forward
  simp only
  have hne : ({ d.cons with fp := true, dp := false } : Cons).isEmpty = false := by simp [Cons.isEmpty]
  have h1 := sync_epiOk { d with cons := { d.cons with fp := true, dp := false } } n ho (Or.inl hp)
  have p1 := sync_present { d with cons := { d.cons with fp := true, dp := false } } n hne hp
  split
  · exact sync_epiOk _ _ h1 (Or.inl p1)
  · split
    · exact sync_epiOk _ _ h1 (Or.inl p1)
    · split
      · exact sync_epiOk _ _ h1 (Or.inl p1)
      · unfold forwardSend
        simp only
        have hrt := selectSenders_rt env { d with cons := { d.cons with fp := true, dp := false } } b
          (sync { d with cons := { d.cons with fp := true, dp := false } } n)
        have hkey := (selectSenders_desc env { d with cons := { d.cons with fp := true, dp := false } } b
          (sync { d with cons := { d.cons with fp := true, dp := false } } n)).1
        have h2 := rtStep_epiOk hrt h1
        have p2 := present_of_rt hrt p1
        have hs := sendAll_rt env (selectSenders env { d with cons := { d.cons with fp := true, dp := false } } b
          (sync { d with cons := { d.cons with fp := true, dp := false } } n)).2.2.1 b
          (selectSenders env { d with cons := { d.cons with fp := true, dp := false } } b
          (sync { d with cons := { d.cons with fp := true, dp := false } } n)).1
          (selectSenders env { d with cons := { d.cons with fp := true, dp := false } } b
          (sync { d with cons := { d.cons with fp := true, dp := false } } n)).2.2.2
        rw [hkey] at hs
        have h3 := rtStep_epiOk hs h2
        have p3 := present_of_rt hs p2
        split
        · exact sync_epiOk _ _ h3 (Or.inl (by rw [show ({ (selectSenders env { d with cons := { d.cons with fp := true, dp := false } } b
            (sync { d with cons := { d.cons with fp := true, dp := false } } n)).2.2.1 with
            cons := (selectSenders env { d with cons := { d.cons with fp := true, dp := false } } b
            (sync { d with cons := { d.cons with fp := true, dp := false } } n)).2.2.1.cons.purge } : Desc).key = d.key from hkey]; exact p3))
        · unfold bundleContraindicated
          exact sync_epiOk _ _ h3 (Or.inl (by rw [show ({ (selectSenders env { d with cons := { d.cons with fp := true, dp := false } } b
            (sync { d with cons := { d.cons with fp := true, dp := false } } n)).2.2.1 with
            cons := { (selectSenders env { d with cons := { d.cons with fp := true, dp := false } } b
            (sync { d with cons := { d.cons with fp := true, dp := false } } n)).2.2.1.cons with ci := true } } : Desc).key = d.key from hkey]; exact p3))

theorem localDelivery_epiOk (d : Desc) (n : Node) (ho : EpiOk n) (hp : (n.store.get d.key).isSome = true) :
    EpiOk (localDelivery d n) := by
  unfold localDelivery
  simp only
  have hne : ({ d.cons with le := true } : Cons).isEmpty = false := by simp [Cons.isEmpty]
  have h1 := sync_epiOk { d with cons := { d.cons with le := true } } n ho (Or.inl hp)
  have p1 := sync_present { d with cons := { d.cons with le := true } } n hne hp
  exact sync_epiOk _ _ h1 (Or.inl p1)

/-- `dispatching` of a stored bundle (or of a descriptor without in-memory bundle) keeps the invariant. -/
theorem dispatching_epiOk (env : Env) (d : Desc) (n : Node) (ho : EpiOk n)
    (hp : (n.store.get d.key).isSome = true ∨ d.bndl = none) : EpiOk (dispatching env d n).1 := by
  unfold dispatching
  simp only
  have ha := dispatchingAllowed_rt env d n
  have h1 := rtStep_epiOk ha ho
  have hp1 : ((dispatchingAllowed env d n).2.store.get d.key).isSome = true ∨ d.bndl = none := by
    rcases hp with hp | hp
    · exact Or.inl (present_of_rt ha hp)
    · exact Or.inr hp
  split
  · simp only
    split
    · unfold bundleContraindicated
      exact sync_epiOk _ _ h1 hp1
    · exact h1
  · split
    · exact h1
    · rename_i b hb
      have hpres : ((dispatchingAllowed env d n).2.store.get d.key).isSome = true := by
        rcases hp1 with h | h
        · exact h
        · unfold Desc.bundle at hb
          simp only [h] at hb
          cases hg : (dispatchingAllowed env d n).2.store.get d.key with
          | none => simp [hg] at hb
          | some it => rfl
      split
      · exact localDelivery_epiOk _ _ h1 hpres
      · exact forward_epiOk env _ b _ h1 hpres

theorem dispatchKeys_epiOk (env : Env) : ∀ (ks : List Key) (n : Node), EpiOk n → EpiOk (dispatchKeys env ks n).1
  | [], _, ho => ho
  | k :: ks, n, ho => by
    simp only [dispatchKeys]
    exact dispatchKeys_epiOk env ks _ (dispatching_epiOk env (newDesc n k) n ho (Or.inr (newDesc_bndl n k)))

theorem checkPending_epiOk (env : Env) (n : Node) (ho : EpiOk n) : EpiOk (checkPending env n).1 :=
  dispatchKeys_epiOk env _ n ho

theorem deleteExpired_epiOk (n : Node) (ho : EpiOk n) : EpiOk (deleteExpired n) := by
  intro k it hg
  unfold deleteExpired at hg
  simp only [Store.get_foldl_erase] at hg
  split at hg
  · cases hg
  · exact ho k it hg

/-! ## The events that accept a bundle -/

/-- After `NotifyNewBundle` of the bundle being accepted: `dispatching`. -/
theorem accept_tail (env : Env) (b : Bundle) (d : Desc) (n : Node) (hk : d.key = b.key)
    (halgo : n.cfg.algo = .epidemic) (ho : EpiOk' b n) (hp : (n.store.get d.key).isSome = true) :
    EpiOk (dispatching env d (notifyNew d.key b n)).1 := by
  have h1 : EpiOk (notifyNew d.key b n) := by rw [hk]; exact notifyNew_epiOk b n halgo ho
  exact dispatching_epiOk env d _ h1 (Or.inl (present_of_rt (notifyNew_rt d.key b n) hp))

theorem purge_empty (c : Cons) (h : c.isEmpty = true) : ({ c with dp := true } : Cons).purge.isEmpty = true := by
  cases c
  simp_all [Cons.isEmpty, Cons.purge, Cons.empty]

/-- The body of `receive` for any descriptor of the received bundle. -/
theorem recv_core (env : Env) (b : Bundle) (r : Option Eid) (d0 : Desc) (n : Node)
    (hk : d0.key = b.key) (hb : d0.bndl = some b) (halgo : n.cfg.algo = .epidemic) (ho : EpiOk n)
    (hcons : d0.cons.isEmpty = false → (n.store.get d0.key).isSome = true) :
    EpiOk (
      if !({ d0 with receiver := r } : Desc).cons.isEmpty then
        (sync { d0 with receiver := r } (sync d0 n), ([] : List Output))
      else
        if b.delBlock then
          (bundleDeletion { d0 with receiver := r, cons := { d0.cons with dp := true } }
            (sync { d0 with receiver := r, cons := { d0.cons with dp := true } }
              (sync { d0 with receiver := r } (sync d0 n))), [])
        else dispatching env { d0 with receiver := r, cons := { d0.cons with dp := true } }
          (notifyNew d0.key b (sync { d0 with receiver := r, cons := { d0.cons with dp := true } }
              (sync { d0 with receiver := r } (sync d0 n))))).1 := by
  have hne : ({ d0.cons with dp := true } : Cons).isEmpty = false := by simp [Cons.isEmpty]
  by_cases hc : d0.cons.isEmpty = true
  · simp only [hc, Bool.not_true, Bool.false_eq_true, if_false]
    have o1 := sync_epiOk' b d0 n hb hk.symm (ho.weak b)
    have o2 := sync_epiOk' b { d0 with receiver := r } _ hb hk.symm o1
    have o3 := sync_epiOk' b { d0 with receiver := r, cons := { d0.cons with dp := true } } _ hb hk.symm o2
    have p3 := sync_present_new { d0 with receiver := r, cons := { d0.cons with dp := true } }
      (sync { d0 with receiver := r } (sync d0 n)) b hb hk.symm hne
    have hcfg : (sync { d0 with receiver := r, cons := { d0.cons with dp := true } }
        (sync { d0 with receiver := r } (sync d0 n))).cfg.algo = .epidemic := by
      rw [(sync_env _ _).cfg, (sync_env _ _).cfg, (sync_env _ _).cfg]; exact halgo
    split
    · -- deletion block: the fresh item is deleted again
      simp only
      unfold bundleDeletion
      cases hg : (sync { d0 with receiver := r, cons := { d0.cons with dp := true } }
          (sync { d0 with receiver := r } (sync d0 n))).store.get d0.key with
      | none => rw [show ({ d0 with receiver := r, cons := { d0.cons with dp := true } } : Desc).key = d0.key from rfl, hg] at p3; cases p3
      | some it3 =>
        have hdel := sync_delete { d0 with receiver := r, cons := ({ d0.cons with dp := true } : Cons).purge } _ it3 hg
          (purge_empty d0.cons hc)
        have honly := sync_only { d0 with receiver := r, cons := ({ d0.cons with dp := true } : Cons).purge }
          (sync { d0 with receiver := r, cons := { d0.cons with dp := true } }
            (sync { d0 with receiver := r } (sync d0 n)))
          (by intro b' hb'; rw [show ({ d0 with receiver := r, cons := ({ d0.cons with dp := true } : Cons).purge } : Desc).bndl = d0.bndl from rfl, hb] at hb'; cases hb'; exact hk.symm)
        exact epiOk_of_erased b _ _ o3 (by rw [← hk]; exact honly) (by rw [← hk]; exact hdel)
    · exact accept_tail env b _ _ hk hcfg o3 p3
  · have hc' : d0.cons.isEmpty = false := by cases h : d0.cons.isEmpty <;> simp_all
    simp only [hc', Bool.not_false, if_true]
    have p0 := hcons hc'
    have o1 := sync_epiOk d0 n ho (Or.inl p0)
    have p1 := sync_present d0 n hc' p0
    exact sync_epiOk { d0 with receiver := r } _ o1 (Or.inl p1)

theorem receive_epiOk (env : Env) (b : Bundle) (r : Option Eid) (n : Node) (halgo : n.cfg.algo = .epidemic)
    (ho : EpiOk n) : EpiOk (receive env b r n).1 := by
  have := recv_core env b r { newDesc n b.key with bndl := some b } n (newDesc_key n b.key) rfl halgo ho
    (by
      intro hc
      show (n.store.get (newDesc n b.key).key).isSome = true
      rw [newDesc_key]
      cases hg : n.store.get b.key with
      | some it => rfl
      | none =>
        have : (newDesc n b.key).cons = Cons.empty := by unfold newDesc; simp [hg]
        simp [this, Cons.isEmpty, Cons.empty] at hc)
  unfold receive newDescFromBundle
  exact this

theorem transmit_epiOk (env : Env) (d : Desc) (b : Bundle) (n : Node) (hseq : n.cfg.seqFirst = true)
    (ho : EpiOk n) (hp : (n.store.get d.key).isSome = true) : EpiOk (transmit env d b n).1 := by
  unfold transmit
  simp only [hseq, if_true]
  have hne : ({ d.cons with dp := true } : Cons).isEmpty = false := by simp [Cons.isEmpty]
  have o3 := sync_epiOk { d with bndl := some b, cons := { d.cons with dp := true } } n ho (Or.inl hp)
  have p3 := sync_present { d with bndl := some b, cons := { d.cons with dp := true } } n hne hp
  split
  · unfold bundleDeletion
    exact sync_epiOk _ _ o3 (Or.inl p3)
  · exact dispatching_epiOk env _ _ o3 (Or.inl p3)

theorem send_core' (env : Env) (b : Bundle) (d0 : Desc) (n : Node) (hk : d0.key = b.key) (hb : d0.bndl = some b)
    (halgo : n.cfg.algo = .epidemic) (ho : EpiOk n)
    (habs : n.store.get b.key = none) (hseq : n.cfg.seqFirst = true) :
    EpiOk (transmit env d0 b (notifyNew d0.key b (sync d0 n))).1 := by
  have o1 := sync_epiOk' b d0 n hb hk.symm (ho.weak b)
  have p1 : ((sync d0 n).store.get b.key).isSome = true := by
    rw [sync_push d0 n b (by rw [hk]; exact habs) hb, push_get_absent b n habs]
    rfl
  have hcfg1 : (sync d0 n).cfg = n.cfg := (sync_env _ _).cfg
  rw [hk]
  have o2 := notifyNew_epiOk b _ (by rw [hcfg1]; exact halgo) o1
  have hrt := notifyNew_rt b.key b (sync d0 n)
  have p2 := present_of_rt hrt p1
  have hcfg2 : (notifyNew b.key b (sync d0 n)).cfg = n.cfg := by
    rw [hrt.only.env.cfg, hcfg1]
  exact transmit_epiOk env _ b _ (by rw [hcfg2]; exact hseq) o2 (by rw [hk]; exact p2)

/-- `SendBundle` after the ID was assigned: the ID is free, the item is created, notified, dispatched. -/
theorem send_core (env : Env) (b : Bundle) (n : Node) (halgo : n.cfg.algo = .epidemic) (ho : EpiOk n)
    (habs : n.store.get b.key = none) (hseq : n.cfg.seqFirst = true) :
    EpiOk (transmit env (newDescFromBundle b n).1 b
      (notifyNew (newDescFromBundle b n).1.key b (newDescFromBundle b n).2)).1 := by
  unfold newDescFromBundle
  exact send_core' env b { newDesc n b.key with bndl := some b } n (newDesc_key n b.key) rfl halgo ho habs hseq

theorem sendBundle_epiOk (env : Env) (b : Bundle) (n : Node) (halgo : n.cfg.algo = .epidemic)
    (hseq : n.cfg.seqFirst = true) (hskip : n.cfg.skipStored = true) (ho : EpiOk n) :
    EpiOk (sendBundle env b n).1 := by
  unfold sendBundle
  simp only [hseq, if_true]
  rcases assignSeq_free b n hskip with ⟨_, ⟨x, hx⟩, hfree⟩
  have hst : (assignSeq b n).2.store = n.store := by rw [hx]; rfl
  have hcf : (assignSeq b n).2.cfg = n.cfg := by rw [hx]; rfl
  exact send_core env _ _ (by rw [hcf]; exact halgo) (by intro k it hg; rw [hst] at hg; exact ho k it hg)
    (by rw [hst]; exact hfree) (by rw [hcf]; exact hseq)

/-- **The invariant along every event**, for epidemic routing and the code as it is. -/
theorem epiOk_step (env : Env) (n : Node) (e : Event) (halgo : n.cfg.algo = .epidemic)
    (hseq : n.cfg.seqFirst = true) (hskip : n.cfg.skipStored = true) (ho : EpiOk n) :
    EpiOk (step env n e).1 := by
  have key : EpiOk (stepCore env n e).1 := by
    cases e with
    | submit b => exact sendBundle_epiOk env b n halgo hseq hskip ho
    | receive b r => exact receive_epiOk env b r n halgo ho
    | peerUp p =>
      simp only [stepCore]
      apply checkPending_epiOk
      split
      · exact ho
      · exact ho
    | peerDown a => exact ho
    | retryTick => exact checkPending_epiOk env n ho
    | cleanTick t => exact deleteExpired_epiOk _ ho
    | restart => exact ho
  exact key

end Dtn7.Node
