import Dtn7.Model.Bundle
import Dtn7.Model.BundleSpec
import Dtn7.Lemmas.Eid

/-!
`checkValid` (the model of `Bundle.CheckValid`) implies the Spec predicate `WellFormed`, rule by rule.
-/
namespace Dtn7.Bundle.Lemmas
open Dtn7.Cbor Dtn7.Eid Dtn7.Bundle Dtn7.Eid.Lemmas

/-! ### duplicate detection -/

theorem dupFree_sound (seen l : List Nat) (h : dupFree seen l = true) :
    l.Nodup ∧ ∀ x ∈ l, x ∉ seen := by
  induction l generalizing seen with
  | nil => simp
  | cons x xs ih =>
    simp only [dupFree, Bool.and_eq_true, Bool.not_eq_true', List.contains_eq_mem,
      decide_eq_false_iff_not] at h
    obtain ⟨hx, hrest⟩ := h
    obtain ⟨hnd, hns⟩ := ih (x :: seen) hrest
    refine ⟨List.nodup_cons.mpr ⟨fun hmem => ?_, hnd⟩, ?_⟩
    · exact hns x hmem (List.mem_cons_self ..)
    · intro y hy
      rcases List.mem_cons.mp hy with rfl | hy
      · exact hx
      · exact fun hys => hns y hy (List.mem_cons_of_mem _ hys)

theorem dupFree_nodup (l : List Nat) (h : dupFree [] l = true) : l.Nodup := (dupFree_sound [] l h).1

/-! ### payload block: last, hence present, hence exactly one when the types are unique -/

theorem lastIsPayload_getLast (bs : List Canonical) (h : lastIsPayload bs = true) :
    bs.getLast?.map isPayload = some true := by
  induction bs with
  | nil => simp [lastIsPayload] at h
  | cons c cs ih =>
    cases cs with
    | nil =>
      simp only [lastIsPayload] at h
      simp only [List.getLast?_singleton, Option.map_some, isPayload]
      exact congrArg some h
    | cons d ds =>
      simp only [lastIsPayload] at h
      rw [List.getLast?_cons_cons]
      exact ih h

theorem lastIsPayload_mem (bs : List Canonical) (h : lastIsPayload bs = true) :
    ∃ c ∈ bs, c.typeCode = tPayload := by
  induction bs with
  | nil => simp [lastIsPayload] at h
  | cons c cs ih =>
    cases cs with
    | nil =>
      simp only [lastIsPayload, beq_iff_eq] at h
      exact ⟨c, List.mem_cons_self .., h⟩
    | cons d ds =>
      simp only [lastIsPayload] at h
      obtain ⟨x, hx, hp⟩ := ih h
      exact ⟨x, List.mem_cons_of_mem _ hx, hp⟩

/-- In a list with pairwise different type codes that contains a payload block, exactly one block
is a payload block. -/
theorem one_payload (bs : List Canonical) (hnd : (bs.map Canonical.typeCode).Nodup)
    (hex : ∃ c ∈ bs, c.typeCode = tPayload) : (bs.filter isPayload).length = 1 := by
  induction bs with
  | nil => obtain ⟨c, hc, _⟩ := hex; simp at hc
  | cons c cs ih =>
    simp only [List.map_cons, List.nodup_cons] at hnd
    obtain ⟨hnotin, hnd'⟩ := hnd
    by_cases hc : c.typeCode = tPayload
    · -- no other payload block in the tail
      have hnone : cs.filter isPayload = [] := by
        rw [List.filter_eq_nil_iff]
        intro d hd hp
        simp only [isPayload, beq_iff_eq] at hp
        apply hnotin
        rw [List.mem_map]
        exact ⟨d, hd, by rw [hp, hc]; rfl⟩
      have hp : isPayload c = true := by simp [isPayload, hc, tPayload]
      simp [hp, hnone]
    · have hp : isPayload c = false := by
        simp only [isPayload, beq_eq_false_iff_ne, ne_eq]; exact hc
      simp only [List.filter_cons, hp, Bool.false_eq_true, ↓reduceIte]
      apply ih hnd'
      obtain ⟨d, hd, hdp⟩ := hex
      rcases List.mem_cons.mp hd with rfl | hd
      · exact absurd hdp hc
      · exact ⟨d, hd, hdp⟩

/-! ### lifetime -/

theorem findAge_some (bs : List Canonical) (a : Nat) (h : findAge bs = some a) :
    ∃ c ∈ bs, c.value = .age a := by
  induction bs with
  | nil => simp [findAge] at h
  | cons c cs ih =>
    simp only [findAge] at h
    split at h
    · cases hv : c.value with
      | age ms =>
        rw [hv] at h
        simp only [Option.some.injEq] at h
        exact ⟨c, List.mem_cons_self .., by rw [hv, h]⟩
      | _ => rw [hv] at h; simp at h
    · obtain ⟨x, hx, hv⟩ := ih h
      exact ⟨x, List.mem_cons_of_mem _ hx, hv⟩

theorem toI64_le (n : Nat) : toI64 n ≤ (n : Int) := by
  unfold toI64
  have h1 : ((n % 2 ^ 64 : Nat) : Int) ≤ (n : Int) := Int.ofNat_le.mpr (Nat.mod_le _ _)
  split <;> omega

theorem wrapI64_le_of_ge (x : Int) (h : -(2 : Int) ^ 63 ≤ x) : wrapI64 x ≤ x := by
  unfold wrapI64
  have hpow : (2 : Int) ^ 64 = 18446744073709551616 := by decide
  have hpow3 : (2 : Int) ^ 63 = 9223372036854775808 := by decide
  rw [hpow, hpow3] at *
  split <;> omega

theorem wrapI64_lt (x : Int) : wrapI64 x < (2 : Int) ^ 63 := by
  unfold wrapI64
  have hpow : (2 : Int) ^ 64 = 18446744073709551616 := by decide
  have hpow3 : (2 : Int) ^ 63 = 9223372036854775808 := by decide
  rw [hpow, hpow3] at *
  split <;> omega

/-- The instant computed by the code (with all its `int64` wrap-arounds) never lies after the true
`creation time + lifetime`. -/
theorem expiryNs_le (t l : Nat) :
    expiryNs t l ≤ (((t : Int) + ms1970To2k) + (l : Int)) * 1000000 := by
  unfold expiryNs
  have h1 : wrapI64 (toI64 t + ms1970To2k) ≤ (t : Int) + ms1970To2k := by
    have hge : -(2 : Int) ^ 63 ≤ toI64 t + ms1970To2k := by
      unfold toI64 ms1970To2k
      have hpow3 : (2 : Int) ^ 63 = 9223372036854775808 := by decide
      rw [hpow3]
      split <;> omega
    have := wrapI64_le_of_ge _ hge
    have := toI64_le t
    omega
  have h2 : wrapI64 (toI64 l * 1000000) ≤ (l : Int) * 1000000 := by
    by_cases hl : l % 2 ^ 64 < 2 ^ 63
    · have hnn : (0 : Int) ≤ toI64 l := by unfold toI64; simp only [hl, ↓reduceIte]; omega
      have hge : -(2 : Int) ^ 63 ≤ toI64 l * 1000000 := by
        have hpow3 : (2 : Int) ^ 63 = 9223372036854775808 := by decide
        rw [hpow3]; omega
      have := wrapI64_le_of_ge _ hge
      have := toI64_le l
      omega
    · have hbig : (2 : Int) ^ 63 ≤ (l : Int) := by
        have : 2 ^ 63 ≤ l % 2 ^ 64 := by omega
        have h2 : l % 2 ^ 64 ≤ l := Nat.mod_le _ _
        have hpow3 : (2 : Int) ^ 63 = 9223372036854775808 := by decide
        rw [hpow3]; omega
      have := wrapI64_lt (toI64 l * 1000000)
      omega
  omega

/-! ### the main implication -/

theorem has_eq (f k : Nat) : has f k = f.testBit k := rfl

theorem statusRequested_false (f : Nat) (h : statusRequested f = false) : ¬ requestsStatus f := by
  unfold statusRequested at h
  simp only [Bool.or_eq_false_iff, has_eq] at h
  unfold requestsStatus
  simp only [bSrReception, bSrForward, bSrDelivery, bSrDeletion] at h
  rintro (h1 | h1 | h1 | h1) <;> simp_all

theorem valueCheck_eids (strict : Bool) (v : BlockValue) (h : v.checkValid strict = true) :
    valueEidsWf v := by
  cases v <;> simp only [valueEidsWf]
  case prevNode e => exact wf_of_valid e h

theorem valueCheck_hop (strict : Bool) (v : BlockValue) (h : v.checkValid strict = true) : hopOk v := by
  cases v <;> simp only [hopOk]
  case hop l c => simpa [BlockValue.checkValid] using h

/-- **`CheckValid` is sound for the rule list of C02.** -/
theorem checkValid_sound (strict : Bool) (now : Nat) (b : Bundle) (h : checkValid strict now b = true) :
    WellFormed now b := by
  unfold checkValid at h
  simp only [Bool.and_eq_true] at h
  obtain ⟨⟨⟨⟨⟨⟨⟨⟨hp, hall⟩, hne⟩, hrep⟩, hnum⟩, htyp⟩, hlast⟩, hzero⟩, hlife⟩ := h
  unfold Primary.checkValid at hp
  simp only [Bool.and_eq_true, beq_iff_eq] at hp
  obtain ⟨⟨⟨⟨⟨hver, hfl⟩, hdst⟩, hsrc⟩, hrpt⟩, hanon⟩ := hp
  unfold bundleFlagsValid at hfl
  simp only [Bool.and_eq_true, Bool.not_eq_true', Bool.and_eq_false_iff, Bool.or_eq_true, has_eq] at hfl
  obtain ⟨hfm, hadm⟩ := hfl
  have hallc : ∀ c ∈ b.blocks, Canonical.checkValid strict c = true := List.all_eq_true.mp hall
  have hndT := dupFree_nodup _ htyp
  have hex := lastIsPayload_mem _ hlast
  -- what an anonymous source entails
  have hanon' : b.primary.src = Eid.none →
      b.primary.flags.testBit 2 = true ∧ statusRequested b.primary.flags = false := by
    intro hs
    simp only [hs, bne_self_eq_false, Bool.false_or, Bool.and_eq_true, Bool.not_eq_true', has_eq] at hanon
    exact hanon
  refine
    { version := hver
      onePayload := one_payload _ hndT hex
      payloadNum := ?_
      payloadLast := lastIsPayload_getLast _ hlast
      uniqueNums := dupFree_nodup _ hnum
      uniqueTypes := hndT
      primaryEids := ⟨wf_of_valid _ hdst, wf_of_valid _ hsrc, wf_of_valid _ hrpt⟩
      blockEids := ?_
      fragVsMnf := ?_
      adminNoStatus := ?_
      anonMnf := fun hs => (hanon' hs).1
      zeroTimeAge := ?_
      hopCount := ?_
      lifetime := ?_ }
  · intro c hc hpl
    have := hallc c hc
    unfold Canonical.checkValid at this
    simp only [Bool.and_eq_true, Bool.or_eq_true, bne_iff_ne, ne_eq, beq_iff_eq] at this
    simp only [isPayload, beq_iff_eq] at hpl
    rcases this.2 with h1 | h1
    · exact absurd hpl h1
    · exact h1
  · intro c hc
    have := hallc c hc
    unfold Canonical.checkValid at this
    simp only [Bool.and_eq_true] at this
    exact valueCheck_eids strict _ this.1
  · rintro ⟨h0, h2⟩
    simp only [bIsFragment, bMustNotFragment] at hfm
    rcases hfm with h | h <;> simp_all
  · intro hcase
    have hst : statusRequested b.primary.flags = false := by
      rcases hcase with hadmin | hsrc0
      · simp only [bAdminRecord] at hadm
        rcases hadm with h | h
        · simp_all
        · simpa using h
      · exact (hanon' hsrc0).2
    refine ⟨statusRequested_false _ hst, ?_⟩
    have hcond : (has b.primary.flags bAdminRecord || b.primary.src == Eid.none) = true := by
      rcases hcase with hadmin | hsrc0
      · simp [has_eq, bAdminRecord, hadmin]
      · simp [hsrc0]
    simp only [hcond, Bool.not_true, Bool.false_or] at hrep
    intro c hc
    have := List.all_eq_true.mp hrep c hc
    simpa [has_eq, kStatusReport] using this
  · intro hz
    simp only [hz, beq_self_eq_true, Bool.not_true, Bool.false_or] at hzero
    unfold hasType at hzero
    obtain ⟨c, hc, hct⟩ := List.any_eq_true.mp hzero
    exact ⟨c, hc, by simpa [tAge] using hct⟩
  · intro c hc
    have := hallc c hc
    unfold Canonical.checkValid at this
    simp only [Bool.and_eq_true] at this
    exact valueCheck_hop strict _ this.1
  · simp only [Bool.not_eq_true'] at hlife
    unfold lifetimeExceeded at hlife
    unfold NotExpired
    by_cases hz : b.primary.tsTime = 0
    · simp only [hz, ↓reduceIte] at hlife ⊢
      cases hfa : findAge b.blocks with
      | none => simp [hfa] at hlife
      | some a =>
        simp only [hfa, decide_eq_false_iff_not, Nat.not_lt] at hlife
        obtain ⟨c, hc, hv⟩ := findAge_some _ _ hfa
        exact ⟨c, hc, by rw [hv]; exact hlife⟩
    · simp only [hz, ↓reduceIte, decide_eq_false_iff_not, Int.not_lt] at hlife ⊢
      have hle := expiryNs_le b.primary.tsTime b.primary.lifetime
      unfold nowNs at hlife
      have : ((now : Int) + ms1970To2k) * 1000000 ≤
          (((b.primary.tsTime : Int) + ms1970To2k) + (b.primary.lifetime : Int)) * 1000000 :=
        Int.le_trans hlife hle
      omega

/-- The rule table the drivers evaluate is the Spec predicate. -/
theorem wfRules_iff (now : Nat) (b : Bundle) : (wfRules now b).all (·.2) = true ↔ WellFormed now b := by
  simp only [wfRules, List.all_cons, List.all_nil, Bool.and_true, Bool.and_eq_true, decide_eq_true_eq]
  constructor
  · rintro ⟨h1, h2, h3, h4, h5, h6, h7, h8, h9, h10, h11, h12, h13, h14⟩
    exact ⟨h1, h2, h3, h4, h5, h6, h7, h8, h9, h10, h11, h12, h13, h14⟩
  · rintro ⟨h1, h2, h3, h4, h5, h6, h7, h8, h9, h10, h11, h12, h13, h14⟩
    exact ⟨h1, h2, h3, h4, h5, h6, h7, h8, h9, h10, h11, h12, h13, h14⟩

end Dtn7.Bundle.Lemmas
