/-
C07, histories: the model (`step`, nested MuxAgent / RestAgent / WebSocketAgent state) refines the
flat reference registry (`Reg.step`), and therefore every trace of the model satisfies `histOk` —
the very predicate the driver evaluates on the implementation's traces. Core-only.
-/
import Dtn7.Lemmas.Delivery

namespace Dtn7.Delivery.Lemmas
open Dtn7.Delivery

def agentKind : Agent → Kind
  | .ping _ => .ping
  | .mock _ => .mock
  | .rest _ => .rest
  | .ws _ => .ws

/-- The endpoints a recipient is registered for, read off its agent's state. -/
def regOfA : Option Agent → Rcpt → Option (List Eid)
  | some (.ping ep), .ping _ => some [ep]
  | some (.mock eps), .mock _ => some eps
  | some (.rest ra), .rest _ c => (aload c ra.clients).map (fun e => [e])
  | some (.ws conns), .ws _ c => (aload c conns).map Option.toList
  | _, _ => none

def regOf (m : Mux) (x : Rcpt) : Option (List Eid) := regOfA (m.child x.agent) x

/-- A recipient's mailbox, read off its agent's state. -/
def boxOfA : Option Agent → Rcpt → List Bundle
  | some (.rest ra), .rest _ c => (aload c ra.mailbox).getD []
  | _, _ => []

def boxOf (m : Mux) (x : Rcpt) : List Bundle := boxOfA (m.child x.agent) x

/-! ### children after each operation -/

theorem aload_append {κ β : Type} [DecidableEq κ] (k : κ) (l₁ l₂ : List (κ × β)) :
    aload k (l₁ ++ l₂) = match aload k l₁ with
      | some v => some v
      | none => aload k l₂ := by
  induction l₁ with
  | nil => simp [aload]
  | cons e t ih =>
    obtain ⟨k', v⟩ := e
    by_cases h : k' = k
    · simp [aload, h]
    · simp [aload, h, ih]

theorem child_add (m : Mux) (i : Nat) (a : Agent) (j : Nat) :
    (m.add i a).child j =
      if (m.child i).isSome then m.child j else if j = i then some a else m.child j := by
  unfold Mux.add Mux.child
  by_cases h : (aload i m.children).isSome = true
  · simp [h]
  · have h' : (aload i m.children).isSome = false := by simpa using h
    simp only [h', Bool.false_eq_true, if_false]
    rw [aload_append]
    by_cases hj : j = i
    · subst hj
      have : aload j m.children = none := by
        cases hx : aload j m.children with
        | none => rfl
        | some v => simp [hx] at h
      simp [this, aload]
    · have hij : ¬ i = j := fun e => hj e.symm
      cases hx : aload j m.children with
      | none => simp [aload, hij, hj]
      | some v => simp [hj]

theorem child_update (m : Mux) (i : Nat) (f : Agent → Agent) (j : Nat) :
    (m.update i f).child j = if j = i then (m.child i).map f else m.child j := by
  unfold Mux.update Mux.child
  induction m.children with
  | nil => simp [aload]
  | cons c t ih =>
    obtain ⟨k, a⟩ := c
    by_cases hk : k = i
    · subst hk
      by_cases hj : j = k
      · subst hj; simp [aload]
      · have hkj : ¬ k = j := fun e => hj e.symm
        simp only [List.map_cons, if_true, aload, hkj, if_false, hj]
        simpa [hj] using ih
    · by_cases hj : j = i
      · subst hj
        simp only [List.map_cons, hk, if_false, aload, if_true]
        simpa using ih
      · by_cases hkj : k = j
        · subst hkj; simp [aload, hk]
        · simp only [List.map_cons, hk, if_false, aload, hkj, hj]
          simpa [hj] using ih

theorem child_drop (m : Mux) (a j : Nat) :
    (⟨adelete a m.children⟩ : Mux).child j = if j = a then none else m.child j := by
  unfold Mux.child
  by_cases h : j = a
  · subst h; simp [aload_adelete_same]
  · have : a ≠ j := fun e => h e.symm
    simp [h, aload_adelete_other _ _ _ this]

theorem child_deliver (cfg : Cfg) (m : Mux) (b : Bundle) (i : Nat) :
    (m.deliver cfg b).1.child i = (m.child i).map (fun a =>
      if bagContains (a.endpoints cfg) [b.dest] then (a.receive cfg i b).1 else a) := by
  simp only [Mux.deliver, Mux.child, deliverChildren_child]

/-! ### the registrations as a lookup -/

theorem mem_registered_iff (m : Mux) (hwf : m.WF) (x : Rcpt) (eps : List Eid) :
    (x, eps) ∈ m.registered ↔ regOf m x = some eps := by
  constructor
  · intro h
    simp only [Mux.registered, List.mem_flatMap] at h
    obtain ⟨⟨i, a⟩, hc, hx⟩ := h
    have hch : m.child i = some a := (aload_eq_some_iff i a m.children hwf.1).mpr hc
    have hawf := hwf.2 _ hc
    cases a with
    | ping ep =>
      simp only [Agent.registered, List.mem_singleton, Prod.mk.injEq] at hx
      obtain ⟨rfl, rfl⟩ := hx
      simp [regOf, regOfA, Rcpt.agent, hch]
    | mock l =>
      simp only [Agent.registered, List.mem_singleton, Prod.mk.injEq] at hx
      obtain ⟨rfl, rfl⟩ := hx
      simp [regOf, regOfA, Rcpt.agent, hch]
    | rest ra =>
      simp only [Agent.registered, List.mem_map, Prod.mk.injEq] at hx
      obtain ⟨⟨u, e⟩, hu, rfl, rfl⟩ := hx
      have := (aload_eq_some_iff u e ra.clients hawf.1).mpr hu
      simp [regOf, regOfA, Rcpt.agent, hch, this]
    | ws conns =>
      simp only [Agent.registered, List.mem_map, Prod.mk.injEq] at hx
      obtain ⟨⟨u, e⟩, hu, rfl, rfl⟩ := hx
      have := (aload_eq_some_iff u e conns hawf).mpr hu
      simp [regOf, regOfA, Rcpt.agent, hch, this]
  · intro h
    simp only [Mux.registered, List.mem_flatMap]
    unfold regOf at h
    cases hch : m.child x.agent with
    | none => rw [hch] at h; cases x <;> simp [regOfA] at h
    | some ag =>
      rw [hch] at h
      have hmem := aload_mem x.agent m.children _ hch
      refine ⟨(x.agent, ag), hmem, ?_⟩
      cases ag with
      | ping ep =>
        cases x <;> simp only [regOfA, Option.some.injEq] at h <;> try cases h
        simp [Agent.registered, Rcpt.agent]
      | mock l =>
        cases x <;> simp only [regOfA, Option.some.injEq] at h <;> try cases h
        simp [Agent.registered, Rcpt.agent]
      | rest ra =>
        cases x <;> simp only [regOfA] at h <;> try cases h
        rename_i a c
        cases hl : aload c ra.clients with
        | none => simp [hl] at h
        | some e =>
          simp only [hl, Option.map_some, Option.some.injEq] at h; subst h
          simp only [Agent.registered, List.mem_map, Rcpt.agent]
          exact ⟨(c, e), aload_mem c ra.clients e hl, rfl⟩
      | ws conns =>
        cases x <;> simp only [regOfA] at h <;> try cases h
        rename_i a c
        cases hl : aload c conns with
        | none => simp [hl] at h
        | some e =>
          simp only [hl, Option.map_some, Option.some.injEq] at h; subst h
          simp only [Agent.registered, List.mem_map, Rcpt.agent]
          exact ⟨(c, e), aload_mem c conns e hl, rfl⟩

/-! ### the simulation relation -/

structure Sim (m : Mux) (r : Reg) : Prop where
  wf : m.WF
  nd : keysNodup r.regs
  kinds : ∀ a, aload a r.kinds = (m.child a).map agentKind
  regs : ∀ x, aload x r.regs = regOf m x
  boxes : ∀ x, (aload x r.boxes).getD [] = boxOf m x

theorem sim_mem {m : Mux} {r : Reg} (s : Sim m r) (x : Rcpt) (eps : List Eid) :
    (x, eps) ∈ m.registered ↔ (x, eps) ∈ r.regs := by
  rw [mem_registered_iff m s.wf, ← s.regs x, aload_eq_some_iff x eps r.regs s.nd]

theorem registeredFor_mem (regs : Regs) (d : Eid) (x : Rcpt) :
    x ∈ registeredFor regs d ↔ ∃ eps, (x, eps) ∈ regs ∧ d ∈ eps := by
  simp only [registeredFor, List.mem_map, List.mem_filter, List.contains_iff_mem]
  constructor
  · rintro ⟨⟨y, eps⟩, ⟨hm, hd⟩, rfl⟩; exact ⟨eps, hm, hd⟩
  · rintro ⟨eps, hm, hd⟩; exact ⟨(x, eps), ⟨hm, hd⟩, rfl⟩

theorem all_congr_mem {α : Type} (l₁ l₂ : List α) (p : α → Bool) (h : ∀ x, x ∈ l₁ ↔ x ∈ l₂) :
    l₁.all p = l₂.all p := by
  rw [Bool.eq_iff_iff]
  simp only [List.all_eq_true]
  exact ⟨fun h1 x hx => h1 x ((h x).mpr hx), fun h2 x hx => h2 x ((h x).mp hx)⟩

theorem contains_congr_mem (l₁ l₂ : List Rcpt) (x : Rcpt) (h : ∀ x, x ∈ l₁ ↔ x ∈ l₂) :
    l₁.contains x = l₂.contains x := by
  rw [Bool.eq_iff_iff]
  simp only [List.contains_iff_mem]
  exact h x

theorem deliveredExactly_congr (r₁ r₂ : Regs) (b : Bundle) (out : List (Rcpt × Bundle))
    (h : ∀ x, x ∈ registeredFor r₁ b.dest ↔ x ∈ registeredFor r₂ b.dest) :
    DeliveredExactly r₁ b out = DeliveredExactly r₂ b out := by
  unfold DeliveredExactly
  rw [all_congr_mem _ _ _ h]
  congr 1
  apply List.all_congr rfl
  intro o
  rw [contains_congr_mem _ _ o.1 h]

theorem isPerm_refl (l : List Bundle) : l.isPerm l = true := List.isPerm_iff.mpr (List.Perm.refl l)

theorem sim_registeredFor {m : Mux} {r : Reg} (s : Sim m r) (d : Eid) (x : Rcpt) :
    x ∈ registeredFor m.registered d ↔ x ∈ registeredFor r.regs d := by
  rw [registeredFor_mem, registeredFor_mem]
  constructor
  · rintro ⟨eps, hm, hd⟩; exact ⟨eps, (sim_mem s x eps).mp hm, hd⟩
  · rintro ⟨eps, hm, hd⟩; exact ⟨eps, (sim_mem s x eps).mpr hm, hd⟩

/-- The events of every operation of the model agree with the reference. -/
theorem sim_events (cfg : Cfg) (hall : cfg.rangeAll = true) {m : Mux} {r : Reg} (s : Sim m r) (op : Op) :
    eventsOk r op (step cfg m op).2 = true := by
  cases op with
  | deliver b =>
    simp only [eventsOk, step]
    rw [← deliveredExactly_congr m.registered r.regs b _ (sim_registeredFor s b.dest)]
    exact delivered_exactly cfg hall m s.wf b
  | restFetch a c =>
    simp only [eventsOk, step]
    have hb := s.boxes (.rest a c)
    unfold boxOf at hb
    simp only [Rcpt.agent] at hb
    cases hch : m.child a with
    | none =>
      rw [hch] at hb
      simp only [boxOfA] at hb
      simp [Reg.box, hb, FetchExactlyOnce, isPerm_refl]
    | some ag =>
      rw [hch] at hb
      cases ag with
      | rest ra =>
        simp only [boxOfA] at hb
        simp only [Rest.fetch]
        cases hl : aload c ra.mailbox with
        | none =>
          rw [hl] at hb
          simp [Reg.box, hb, FetchExactlyOnce, isPerm_refl]
        | some l =>
          rw [hl] at hb
          simp only [Option.getD_some] at hb
          simp [Reg.box, hb, FetchExactlyOnce, List.map_map, Function.comp_def, isPerm_refl]
      | ping _ => simp only [boxOfA] at hb; simp [Reg.box, hb, FetchExactlyOnce, isPerm_refl]
      | mock _ => simp only [boxOfA] at hb; simp [Reg.box, hb, FetchExactlyOnce, isPerm_refl]
      | ws _ => simp only [boxOfA] at hb; simp [Reg.box, hb, FetchExactlyOnce, isPerm_refl]
  | addPing a ep => simp [eventsOk, step]
  | addMock a eps => simp [eventsOk, step]
  | addRest a => simp [eventsOk, step]
  | addWs a => simp [eventsOk, step]
  | dropAgent a => simp [eventsOk, step]
  | restReg a c ep => simp [eventsOk, step]
  | restUnreg a c => simp [eventsOk, step]
  | wsConnect a c ep => simp [eventsOk, step]
  | wsClose a c => simp [eventsOk, step]

/-! ### generic facts about lookups -/

theorem aload_filter_key {κ β : Type} [DecidableEq κ] (p : κ → Bool) (k : κ) (l : List (κ × β)) :
    aload k (l.filter (fun e => p e.1)) = if p k then aload k l else none := by
  induction l with
  | nil => simp [aload]
  | cons e t ih =>
    obtain ⟨k', v⟩ := e
    by_cases hp : p k' = true
    · by_cases hk : k' = k
      · subst hk; simp [hp, aload]
      · simp [hp, aload, hk, ih]
    · by_cases hk : k' = k
      · subst hk
        have hp' : p k' = false := by simpa using hp
        simp [hp', ih]
      · simp [hp, aload, hk, ih]

theorem aload_none_of_not_mem {κ β : Type} [DecidableEq κ] (k : κ) (l : List (κ × β))
    (h : k ∉ l.map (·.1)) : aload k l = none := by
  cases hx : aload k l with
  | none => rfl
  | some v =>
    exfalso; apply h
    exact (aload_isSome_iff k l).mp (by simp [hx])

theorem regOfA_none (x : Rcpt) : regOfA none x = none := by cases x <;> rfl
theorem boxOfA_none (x : Rcpt) : boxOfA none x = [] := by cases x <;> rfl

theorem aload_map_key {β γ : Type} (f : Nat → Rcpt) (hf : ∀ u c, f u = f c → u = c) (g : β → γ)
    (c : Nat) (l : List (Nat × β)) :
    aload (f c) (l.map (fun e => (f e.1, g e.2))) = (aload c l).map g := by
  induction l with
  | nil => rfl
  | cons e t ih =>
    obtain ⟨u, v⟩ := e
    by_cases hu : u = c
    · subst hu; simp [aload]
    · have : ¬ f u = f c := fun h => hu (hf u c h)
      simp [aload, hu, this, ih]

theorem aload_map_key_other {β γ : Type} (f : Nat → Rcpt) (g : β → γ) (x : Rcpt)
    (hx : ∀ u, f u ≠ x) (l : List (Nat × β)) :
    aload x (l.map (fun e => (f e.1, g e.2))) = none := by
  induction l with
  | nil => rfl
  | cons e t ih =>
    obtain ⟨u, v⟩ := e
    simp [aload, hx u, ih]

/-- The entries an agent contributes to the registry, as a lookup. -/
theorem aload_registered (a : Nat) (ag : Agent) (x : Rcpt) (hx : x.agent = a) :
    aload x (ag.registered a) = regOfA (some ag) x := by
  cases ag with
  | ping ep =>
    cases x <;> simp_all [Agent.registered, aload, regOfA, Rcpt.agent]
  | mock eps =>
    cases x <;> simp_all [Agent.registered, aload, regOfA, Rcpt.agent]
  | rest ra =>
    simp only [Agent.registered]
    cases x with
    | rest a' c =>
      simp only [Rcpt.agent] at hx; subst hx
      simp only [regOfA]
      exact aload_map_key (Rcpt.rest a') (fun u c h => by simpa using h) (fun e => [e]) c ra.clients
    | ping a' => exact aload_map_key_other (Rcpt.rest a) (fun e => [e]) _ (fun u => by simp) ra.clients
    | mock a' => exact aload_map_key_other (Rcpt.rest a) (fun e => [e]) _ (fun u => by simp) ra.clients
    | ws a' c => exact aload_map_key_other (Rcpt.rest a) (fun e => [e]) _ (fun u => by simp) ra.clients
  | ws conns =>
    simp only [Agent.registered]
    cases x with
    | ws a' c =>
      simp only [Rcpt.agent] at hx; subst hx
      simp only [regOfA]
      exact aload_map_key (Rcpt.ws a') (fun u c h => by simpa using h) Option.toList c conns
    | ping a' => exact aload_map_key_other (Rcpt.ws a) Option.toList _ (fun u => by simp) conns
    | mock a' => exact aload_map_key_other (Rcpt.ws a) Option.toList _ (fun u => by simp) conns
    | rest a' c => exact aload_map_key_other (Rcpt.ws a) Option.toList _ (fun u => by simp) conns

theorem sim_of_child_eq {m m' : Mux} {r : Reg} (s : Sim m r) (hwf : m'.WF)
    (h : ∀ j, m'.child j = m.child j) : Sim m' r := by
  refine ⟨hwf, s.nd, ?_, ?_, ?_⟩
  · intro a; rw [h]; exact s.kinds a
  · intro x; unfold regOf; rw [h]; exact s.regs x
  · intro x; unfold boxOf; rw [h]; exact s.boxes x

theorem kind_isSome {m : Mux} {r : Reg} (s : Sim m r) (a : Nat) :
    (r.kindOf a).isSome = (m.child a).isSome := by
  unfold Reg.kindOf; rw [s.kinds a]; cases m.child a <;> rfl

/-! ### registering an agent at the mux -/

theorem regs_key_child {m : Mux} {r : Reg} (s : Sim m r) (x : Rcpt) (hx : x ∈ r.regs.map (·.1)) :
    m.child x.agent ≠ none := by
  intro hnone
  have h1 : (aload x r.regs).isSome = true := (aload_isSome_iff x r.regs).mpr hx
  rw [s.regs x] at h1
  unfold regOf at h1
  rw [hnone, regOfA_none] at h1
  cases h1

theorem sim_add {m : Mux} {r : Reg} (s : Sim m r) (a : Nat) (ag : Agent) (k : Kind)
    (hk : agentKind ag = k) (hwf : ag.WF) (hbox : ∀ x, boxOfA (some ag) x = []) :
    Sim (m.add a ag) (r.addAgent a k (ag.registered a)) := by
  have hsome := kind_isSome s a
  by_cases hex : (m.child a).isSome = true
  · -- the name is taken: nothing happens on either side
    have h1 : m.add a ag = m := by unfold Mux.add; unfold Mux.child at hex; simp [hex]
    have h2 : r.addAgent a k (ag.registered a) = r := by
      unfold Reg.addAgent; rw [hsome]; simp [hex]
    rw [h1, h2]; exact s
  · have hnone : m.child a = none := by
      cases hc : m.child a with
      | none => rfl
      | some v => simp [hc] at hex
    have hr : r.addAgent a k (ag.registered a) =
        { r with kinds := r.kinds ++ [(a, k)], regs := r.regs ++ ag.registered a } := by
      unfold Reg.addAgent; rw [hsome]; simp [hnone]
    rw [hr]
    have hchild : ∀ j, (m.add a ag).child j = if j = a then some ag else m.child j := by
      intro j; rw [child_add]; simp [hnone]
    refine ⟨add_wf m a ag s.wf hwf, ?_, ?_, ?_, ?_⟩
    · -- keys stay distinct
      show ((r.regs ++ ag.registered a).map (·.1)).Nodup
      rw [List.map_append, List.nodup_append]
      refine ⟨s.nd, registered_child_nodup a ag hwf, ?_⟩
      intro x hx y hy hxy
      subst hxy
      have hag : x.agent = a := by
        simp only [List.mem_map] at hy
        obtain ⟨e, he, rfl⟩ := hy
        exact registered_agent a ag e he
      exact regs_key_child s x hx (by rw [hag]; exact hnone)
    · intro j
      show aload j (r.kinds ++ [(a, k)]) = _
      rw [aload_append, hchild, s.kinds j]
      by_cases hj : j = a
      · subst hj; simp [hnone, aload, hk]
      · have : ¬ a = j := fun e => hj e.symm
        cases hc : m.child j <;> simp [hj, aload, this]
    · intro x
      show aload x (r.regs ++ ag.registered a) = _
      rw [aload_append]
      unfold regOf
      rw [hchild]
      by_cases hx : x.agent = a
      · have h0 : aload x r.regs = none := by
          rw [s.regs x]; unfold regOf; rw [hx, hnone, regOfA_none]
        simp only [h0, hx, if_true]
        exact aload_registered a ag x hx
      · have h0 : aload x (ag.registered a) = none := by
          apply aload_none_of_not_mem
          intro hmem
          simp only [List.mem_map] at hmem
          obtain ⟨e, he, rfl⟩ := hmem
          exact hx (registered_agent a ag e he)
        simp only [hx, if_false, h0]
        have := s.regs x
        unfold regOf at this
        rw [← this]
        cases aload x r.regs <;> rfl
    · intro x
      show (aload x r.boxes).getD [] = _
      unfold boxOf
      rw [hchild]
      by_cases hx : x.agent = a
      · have := s.boxes x
        unfold boxOf at this
        rw [hx, hnone, boxOfA_none] at this
        simp [hx, this, hbox]
      · simp only [hx, if_false]
        exact s.boxes x

/-! ### an agent leaves the mux -/

theorem sim_drop {m : Mux} {r : Reg} (s : Sim m r) (a : Nat) :
    Sim ⟨adelete a m.children⟩
      { kinds := adelete a r.kinds, regs := r.regs.filter (fun e => e.1.agent ≠ a),
        boxes := r.boxes.filter (fun e => e.1.agent ≠ a) } := by
  have hwf : (⟨adelete a m.children⟩ : Mux).WF := by
    refine ⟨keysNodup_adelete a _ s.wf.1, ?_⟩
    intro c hc
    exact s.wf.2 c (List.mem_filter.mp hc).1
  refine ⟨hwf, ?_, ?_, ?_, ?_⟩
  · exact List.Nodup.sublist ((List.filter_sublist).map _) s.nd
  · intro j
    show aload j (adelete a r.kinds) = _
    rw [child_drop]
    by_cases hj : j = a
    · subst hj; simp [aload_adelete_same]
    · have : a ≠ j := fun e => hj e.symm
      simp [hj, aload_adelete_other _ _ _ this, s.kinds j]
  · intro x
    show aload x (r.regs.filter (fun e => decide (e.1.agent ≠ a))) = _
    rw [aload_filter_key (fun k : Rcpt => decide (k.agent ≠ a))]
    unfold regOf
    rw [child_drop]
    by_cases hx : x.agent = a
    · simp [hx, regOfA_none]
    · simp only [hx, ne_eq, not_false_eq_true, decide_true, if_true, if_false]
      exact s.regs x
  · intro x
    show (aload x (r.boxes.filter (fun e => decide (e.1.agent ≠ a)))).getD [] = _
    rw [aload_filter_key (fun k : Rcpt => decide (k.agent ≠ a))]
    unfold boxOf
    rw [child_drop]
    by_cases hx : x.agent = a
    · simp [hx, boxOfA_none]
    · simp only [hx, ne_eq, not_false_eq_true, decide_true, if_true, if_false]
      exact s.boxes x

/-! ### the state of one agent changes -/

theorem sim_update {m : Mux} {r r' : Reg} (s : Sim m r) (a : Nat) (ag ag' : Agent) (f : Agent → Agent)
    (hch : m.child a = some ag) (hf : f ag = ag') (hfwf : ∀ x, x.WF → (f x).WF)
    (hkind : agentKind ag' = agentKind ag)
    (hk : r'.kinds = r.kinds) (hnd : keysNodup r'.regs)
    (hregs : ∀ x, aload x r'.regs = if x.agent = a then regOfA (some ag') x else aload x r.regs)
    (hboxes : ∀ x, (aload x r'.boxes).getD [] =
      if x.agent = a then boxOfA (some ag') x else (aload x r.boxes).getD []) :
    Sim (m.update a f) r' := by
  have hchild : ∀ j, (m.update a f).child j = if j = a then some ag' else m.child j := by
    intro j; rw [child_update]
    by_cases hj : j = a
    · simp [hj, hch, hf]
    · simp [hj]
  refine ⟨update_wf m a f s.wf hfwf, hnd, ?_, ?_, ?_⟩
  · intro j
    rw [hk, hchild, s.kinds j]
    by_cases hj : j = a
    · subst hj; simp [hch, hkind]
    · simp [hj]
  · intro x
    rw [hregs]; unfold regOf; rw [hchild]
    by_cases hx : x.agent = a
    · simp [hx]
    · simp only [hx, if_false]; exact s.regs x
  · intro x
    rw [hboxes]; unfold boxOf; rw [hchild]
    by_cases hx : x.agent = a
    · simp [hx]
    · simp only [hx, if_false]; exact s.boxes x

/-- An operation addressed to an agent of another kind (or to no agent) changes nothing. -/
theorem sim_update_id {m : Mux} {r : Reg} (s : Sim m r) (a : Nat) (f : Agent → Agent)
    (hfwf : ∀ x, x.WF → (f x).WF) (hid : ∀ ag, m.child a = some ag → f ag = ag) :
    Sim (m.update a f) r := by
  apply sim_of_child_eq s (update_wf m a f s.wf hfwf)
  intro j
  rw [child_update]
  by_cases hj : j = a
  · subst hj
    cases hc : m.child j with
    | none => simp
    | some ag => simp [hid ag hc]
  · simp [hj]

theorem kind_rest {m : Mux} {r : Reg} (s : Sim m r) (a : Nat) :
    r.kindOf a = some .rest ↔ ∃ ra, m.child a = some (.rest ra) := by
  unfold Reg.kindOf; rw [s.kinds a]
  cases hc : m.child a with
  | none => simp
  | some ag => cases ag <;> simp [agentKind]

theorem kind_ws {m : Mux} {r : Reg} (s : Sim m r) (a : Nat) :
    r.kindOf a = some .ws ↔ ∃ conns, m.child a = some (.ws conns) := by
  unfold Reg.kindOf; rw [s.kinds a]
  cases hc : m.child a with
  | none => simp
  | some ag => cases ag <;> simp [agentKind]

theorem regs_at {m : Mux} {r : Reg} (s : Sim m r) {a : Nat} {ag : Agent} (hch : m.child a = some ag)
    (x : Rcpt) (hx : x.agent = a) : aload x r.regs = regOfA (some ag) x := by
  rw [s.regs x]; unfold regOf; rw [hx, hch]

theorem boxes_at {m : Mux} {r : Reg} (s : Sim m r) {a : Nat} {ag : Agent} (hch : m.child a = some ag)
    (x : Rcpt) (hx : x.agent = a) : (aload x r.boxes).getD [] = boxOfA (some ag) x := by
  rw [s.boxes x]; unfold boxOf; rw [hx, hch]

/-! ### REST register / unregister / fetch -/

theorem sim_restReg (cfg : Cfg) {m : Mux} {r : Reg} (s : Sim m r) (a c : Nat) (ep : Eid) :
    Sim (step cfg m (.restReg a c ep)).1 (r.step (.restReg a c ep)).1 := by
  simp only [step, Reg.step]
  have hfwf : ∀ x : Agent, x.WF →
      ((fun (x : Agent) => match x with | Agent.rest ra => Agent.rest (ra.register c ep) | x => x) x).WF := by
    intro x hx
    cases x with
    | rest ra => exact ⟨keysNodup_astore _ _ _ hx.1, hx.2⟩
    | _ => exact hx
  by_cases hk : r.kindOf a = some .rest
  · obtain ⟨ra, hch⟩ := (kind_rest s a).mp hk
    simp only [hk, if_true]
    refine sim_update s a (.rest ra) (.rest (ra.register c ep)) _ hch rfl hfwf rfl rfl
      (keysNodup_astore _ _ _ s.nd) ?_ ?_
    · intro x
      show aload x (astore (Rcpt.rest a c) [ep] r.regs) = _
      by_cases hx : x = .rest a c
      · subst hx
        simp [aload_astore_same, Rcpt.agent, regOfA, Rest.register]
      · have hne : Rcpt.rest a c ≠ x := fun e => hx e.symm
        rw [aload_astore_other _ _ _ _ hne]
        by_cases hxa : x.agent = a
        · simp only [hxa, if_true]
          rw [regs_at s hch x hxa]
          cases x with
          | rest a' c' =>
            simp only [Rcpt.agent] at hxa; subst hxa
            have hcc : c ≠ c' := fun e => hx (by rw [e])
            simp [regOfA, Rest.register, aload_astore_other _ _ _ _ hcc]
          | _ => rfl
        · simp [hxa]
    · intro x
      show (aload x r.boxes).getD [] = _
      by_cases hxa : x.agent = a
      · simp only [hxa, if_true]
        rw [boxes_at s hch x hxa]
        cases x <;> rfl
      · simp [hxa]
  · simp only [hk, if_false]
    apply sim_update_id s a _ hfwf
    intro ag hch
    cases ag with
    | rest ra => exact absurd ((kind_rest s a).mpr ⟨ra, hch⟩) hk
    | _ => rfl

theorem sim_restUnreg (cfg : Cfg) {m : Mux} {r : Reg} (s : Sim m r) (a c : Nat) :
    Sim (step cfg m (.restUnreg a c)).1 (r.step (.restUnreg a c)).1 := by
  simp only [step, Reg.step]
  have hfwf : ∀ x : Agent, x.WF →
      ((fun (x : Agent) => match x with | Agent.rest ra => Agent.rest (ra.unregister c) | x => x) x).WF := by
    intro x hx
    cases x with
    | rest ra => exact ⟨keysNodup_adelete _ _ hx.1, keysNodup_adelete _ _ hx.2⟩
    | _ => exact hx
  by_cases hk : r.kindOf a = some .rest
  · obtain ⟨ra, hch⟩ := (kind_rest s a).mp hk
    simp only [hk, if_true]
    refine sim_update s a (.rest ra) (.rest (ra.unregister c)) _ hch rfl hfwf rfl rfl
      (keysNodup_adelete _ _ s.nd) ?_ ?_
    · intro x
      show aload x (adelete (Rcpt.rest a c) r.regs) = _
      by_cases hx : x = .rest a c
      · subst hx
        simp [aload_adelete_same, Rcpt.agent, regOfA, Rest.unregister]
      · have hne : Rcpt.rest a c ≠ x := fun e => hx e.symm
        rw [aload_adelete_other _ _ _ hne]
        by_cases hxa : x.agent = a
        · simp only [hxa, if_true]
          rw [regs_at s hch x hxa]
          cases x with
          | rest a' c' =>
            simp only [Rcpt.agent] at hxa; subst hxa
            have hcc : c ≠ c' := fun e => hx (by rw [e])
            simp [regOfA, Rest.unregister, aload_adelete_other _ _ _ hcc]
          | _ => rfl
        · simp [hxa]
    · intro x
      show (aload x (adelete (Rcpt.rest a c) r.boxes)).getD [] = _
      by_cases hx : x = .rest a c
      · subst hx
        simp [aload_adelete_same, Rcpt.agent, boxOfA, Rest.unregister]
      · have hne : Rcpt.rest a c ≠ x := fun e => hx e.symm
        rw [aload_adelete_other _ _ _ hne]
        by_cases hxa : x.agent = a
        · simp only [hxa, if_true]
          rw [boxes_at s hch x hxa]
          cases x with
          | rest a' c' =>
            simp only [Rcpt.agent] at hxa; subst hxa
            have hcc : c ≠ c' := fun e => hx (by rw [e])
            simp [boxOfA, Rest.unregister, aload_adelete_other _ _ _ hcc]
          | _ => rfl
        · simp [hxa]
  · simp only [hk, if_false]
    apply sim_update_id s a _ hfwf
    intro ag hch
    cases ag with
    | rest ra => exact absurd ((kind_rest s a).mpr ⟨ra, hch⟩) hk
    | _ => rfl

theorem fetch_mailbox_lookup (ra : Rest) (c c' : Nat) :
    aload c' (ra.fetch c).1.mailbox = if c' = c then none else aload c' ra.mailbox := by
  unfold Rest.fetch
  cases hl : aload c ra.mailbox with
  | none =>
    by_cases h : c' = c
    · subst h; simp [hl]
    · simp [h]
  | some l =>
    by_cases h : c' = c
    · subst h; simp [aload_adelete_same]
    · have : c ≠ c' := fun e => h e.symm
      simp [h, aload_adelete_other _ _ _ this]

theorem fetch_clients (ra : Rest) (c : Nat) : (ra.fetch c).1.clients = ra.clients := by
  unfold Rest.fetch; cases aload c ra.mailbox <;> rfl

theorem fetch_wf (ra : Rest) (c : Nat) (h : (Agent.rest ra).WF) : (Agent.rest (ra.fetch c).1).WF := by
  unfold Rest.fetch
  cases aload c ra.mailbox with
  | none => exact h
  | some l => exact ⟨h.1, keysNodup_adelete _ _ h.2⟩

theorem sim_restFetch (cfg : Cfg) {m : Mux} {r : Reg} (s : Sim m r) (a c : Nat) :
    Sim (step cfg m (.restFetch a c)).1 (r.step (.restFetch a c)).1 := by
  simp only [step, Reg.step]
  by_cases hk : r.kindOf a = some .rest
  · obtain ⟨ra, hch⟩ := (kind_rest s a).mp hk
    simp only [hk, if_true, hch]
    have hra : (Agent.rest ra).WF := s.wf.2 _ (aload_mem a m.children _ hch)
    refine sim_update s a (.rest ra) (.rest (ra.fetch c).1) _ hch rfl
      (fun _ _ => fetch_wf ra c hra) rfl rfl s.nd ?_ ?_
    · intro x
      show aload x r.regs = _
      by_cases hxa : x.agent = a
      · simp only [hxa, if_true]
        rw [regs_at s hch x hxa]
        cases x <;> simp [regOfA, fetch_clients]
      · simp [hxa]
    · intro x
      show (aload x (adelete (Rcpt.rest a c) r.boxes)).getD [] = _
      by_cases hx : x = .rest a c
      · subst hx
        simp [aload_adelete_same, Rcpt.agent, boxOfA, fetch_mailbox_lookup]
      · have hne : Rcpt.rest a c ≠ x := fun e => hx e.symm
        rw [aload_adelete_other _ _ _ hne]
        by_cases hxa : x.agent = a
        · simp only [hxa, if_true]
          rw [boxes_at s hch x hxa]
          cases x with
          | rest a' c' =>
            simp only [Rcpt.agent] at hxa; subst hxa
            have hcc : ¬ c' = c := fun e => hx (by rw [e])
            simp [boxOfA, fetch_mailbox_lookup, hcc]
          | _ => rfl
        · simp [hxa]
  · simp only [hk, if_false]
    have : ∀ ra, m.child a ≠ some (.rest ra) := fun ra h => hk ((kind_rest s a).mpr ⟨ra, h⟩)
    cases hch : m.child a with
    | none => exact s
    | some ag =>
      cases ag with
      | rest ra => exact absurd hch (this ra)
      | _ => exact s

/-! ### web socket connect / close -/

theorem sim_wsConnect (cfg : Cfg) {m : Mux} {r : Reg} (s : Sim m r) (a c : Nat) (ep : Option Eid) :
    Sim (step cfg m (.wsConnect a c ep)).1 (r.step (.wsConnect a c ep)).1 := by
  simp only [step, Reg.step]
  have hfwf : ∀ x : Agent, x.WF →
      ((fun (x : Agent) => match x with | Agent.ws conns => Agent.ws (astore c ep conns) | x => x) x).WF := by
    intro x hx
    cases x with
    | ws conns => exact keysNodup_astore _ _ _ hx
    | _ => exact hx
  by_cases hk : r.kindOf a = some .ws
  · obtain ⟨conns, hch⟩ := (kind_ws s a).mp hk
    simp only [hk, if_true]
    refine sim_update s a (.ws conns) (.ws (astore c ep conns)) _ hch rfl hfwf rfl rfl
      (keysNodup_astore _ _ _ s.nd) ?_ ?_
    · intro x
      show aload x (astore (Rcpt.ws a c) ep.toList r.regs) = _
      by_cases hx : x = .ws a c
      · subst hx
        simp [aload_astore_same, Rcpt.agent, regOfA]
      · have hne : Rcpt.ws a c ≠ x := fun e => hx e.symm
        rw [aload_astore_other _ _ _ _ hne]
        by_cases hxa : x.agent = a
        · simp only [hxa, if_true]
          rw [regs_at s hch x hxa]
          cases x with
          | ws a' c' =>
            simp only [Rcpt.agent] at hxa; subst hxa
            have hcc : c ≠ c' := fun e => hx (by rw [e])
            simp [regOfA, aload_astore_other _ _ _ _ hcc]
          | _ => rfl
        · simp [hxa]
    · intro x
      show (aload x r.boxes).getD [] = _
      by_cases hxa : x.agent = a
      · simp only [hxa, if_true]
        rw [boxes_at s hch x hxa]
        cases x <;> rfl
      · simp [hxa]
  · simp only [hk, if_false]
    apply sim_update_id s a _ hfwf
    intro ag hch
    cases ag with
    | ws conns => exact absurd ((kind_ws s a).mpr ⟨conns, hch⟩) hk
    | _ => rfl

theorem sim_wsClose (cfg : Cfg) {m : Mux} {r : Reg} (s : Sim m r) (a c : Nat) :
    Sim (step cfg m (.wsClose a c)).1 (r.step (.wsClose a c)).1 := by
  simp only [step, Reg.step]
  have hfwf : ∀ x : Agent, x.WF →
      ((fun (x : Agent) => match x with | Agent.ws conns => Agent.ws (adelete c conns) | x => x) x).WF := by
    intro x hx
    cases x with
    | ws conns => exact keysNodup_adelete _ _ hx
    | _ => exact hx
  by_cases hk : r.kindOf a = some .ws
  · obtain ⟨conns, hch⟩ := (kind_ws s a).mp hk
    simp only [hk, if_true]
    refine sim_update s a (.ws conns) (.ws (adelete c conns)) _ hch rfl hfwf rfl rfl
      (keysNodup_adelete _ _ s.nd) ?_ ?_
    · intro x
      show aload x (adelete (Rcpt.ws a c) r.regs) = _
      by_cases hx : x = .ws a c
      · subst hx
        simp [aload_adelete_same, Rcpt.agent, regOfA]
      · have hne : Rcpt.ws a c ≠ x := fun e => hx e.symm
        rw [aload_adelete_other _ _ _ hne]
        by_cases hxa : x.agent = a
        · simp only [hxa, if_true]
          rw [regs_at s hch x hxa]
          cases x with
          | ws a' c' =>
            simp only [Rcpt.agent] at hxa; subst hxa
            have hcc : c ≠ c' := fun e => hx (by rw [e])
            simp [regOfA, aload_adelete_other _ _ _ hcc]
          | _ => rfl
        · simp [hxa]
    · intro x
      show (aload x r.boxes).getD [] = _
      by_cases hxa : x.agent = a
      · simp only [hxa, if_true]
        rw [boxes_at s hch x hxa]
        cases x <;> rfl
      · simp [hxa]
  · simp only [hk, if_false]
    apply sim_update_id s a _ hfwf
    intro ag hch
    cases ag with
    | ws conns => exact absurd ((kind_ws s a).mpr ⟨conns, hch⟩) hk
    | _ => rfl

/-! ### delivery -/

theorem aload_foldl_putBox (b : Bundle) (xs : List Rcpt) (hnd : xs.Nodup) (x : Rcpt) :
    ∀ bx : List (Rcpt × List Bundle),
      aload x (xs.foldl (fun bx y => putBox bx y b) bx) =
        if x ∈ xs then some ((aload x bx).getD [] ++ [b]) else aload x bx := by
  induction xs with
  | nil => intro bx; simp
  | cons y t ih =>
    intro bx
    rw [List.nodup_cons] at hnd
    simp only [List.foldl_cons]
    rw [ih hnd.2]
    by_cases hxy : x = y
    · subst hxy
      simp [hnd.1, putBox, aload_astore_same]
    · have hyx : y ≠ x := fun e => hxy e.symm
      simp only [List.mem_cons, hxy, false_or, putBox, aload_astore_other _ _ _ _ hyx]

/-- What the agent looks like after it was (possibly) handed the bundle. -/
def afterDeliver (cfg : Cfg) (b : Bundle) (i : Nat) (a : Agent) : Agent :=
  if bagContains (a.endpoints cfg) [b.dest] then (a.receive cfg i b).1 else a

theorem afterDeliver_kind (cfg : Cfg) (b : Bundle) (i : Nat) (a : Agent) :
    agentKind (afterDeliver cfg b i a) = agentKind a := by
  unfold afterDeliver; split
  · cases a <;> rfl
  · rfl

theorem afterDeliver_regOfA (cfg : Cfg) (b : Bundle) (i : Nat) (a : Agent) (x : Rcpt) :
    regOfA (some (afterDeliver cfg b i a)) x = regOfA (some a) x := by
  unfold afterDeliver; split
  · cases a with
    | rest ra => cases x <;> simp [Agent.receive, Rest.receive, regOfA]
    | _ => rfl
  · rfl

theorem sim_deliver (cfg : Cfg) (hall : cfg.rangeAll = true) {m : Mux} {r : Reg} (s : Sim m r)
    (b : Bundle) : Sim (step cfg m (.deliver b)).1 (r.step (.deliver b)).1 := by
  simp only [step, Reg.step]
  have hchild : ∀ j, (m.deliver cfg b).1.child j = (m.child j).map (afterDeliver cfg b j) :=
    fun j => child_deliver cfg m b j
  refine ⟨deliver_wf cfg m b s.wf, s.nd, ?_, ?_, ?_⟩
  · intro j
    rw [hchild, s.kinds j]
    cases m.child j with
    | none => rfl
    | some ag => simp [afterDeliver_kind]
  · intro x
    show aload x r.regs = _
    rw [s.regs x]; unfold regOf; rw [hchild]
    cases m.child x.agent with
    | none => rfl
    | some ag => simp [afterDeliver_regOfA]
  · intro x
    have hnd : ((registeredFor r.regs b.dest).filter isRest).Nodup :=
      List.Nodup.sublist List.filter_sublist (registeredFor_nodup _ _ s.nd)
    show (aload x (((registeredFor r.regs b.dest).filter isRest).foldl (fun bx y => putBox bx y b) r.boxes)).getD [] = _
    rw [aload_foldl_putBox b _ hnd x]
    unfold boxOf
    rw [hchild]
    -- is x a REST client registered for the destination?
    have hwant : x ∈ (registeredFor r.regs b.dest).filter isRest ↔
        isRest x = true ∧ ∃ eps, regOf m x = some eps ∧ b.dest ∈ eps := by
      rw [List.mem_filter, registeredFor_mem]
      constructor
      · rintro ⟨⟨eps, hm, hd⟩, hr⟩
        exact ⟨hr, eps, by rw [← s.regs x]; exact (aload_eq_some_iff x eps r.regs s.nd).mpr hm, hd⟩
      · rintro ⟨hr, eps, hm, hd⟩
        exact ⟨⟨eps, (aload_eq_some_iff x eps r.regs s.nd).mp (by rw [s.regs x]; exact hm), hd⟩, hr⟩
    have hold := s.boxes x
    unfold boxOf at hold
    cases x with
    | rest a c =>
      simp only [Rcpt.agent] at hold ⊢
      cases hch : m.child a with
      | none =>
        have : ¬ (Rcpt.rest a c ∈ (registeredFor r.regs b.dest).filter isRest) := by
          rw [hwant]; rintro ⟨_, eps, hm, _⟩
          unfold regOf at hm; simp only [Rcpt.agent] at hm; rw [hch, regOfA_none] at hm; cases hm
        rw [hch] at hold
        simp [this, hold, boxOfA]
      | some ag =>
        rw [hch] at hold
        cases ag with
        | rest ra =>
          obtain ⟨ra', hch', _, hmb⟩ := deliver_mailbox cfg hall m s.wf b a ra hch
          have hmap : (some (Agent.rest ra)).map (afterDeliver cfg b a) = some (Agent.rest ra') := by
            rw [← hch, ← hchild]; exact hch'
          simp only [hmap, boxOfA, hmb c]
          simp only [boxOfA] at hold
          by_cases hreg : aload c ra.clients = some b.dest
          · have : Rcpt.rest a c ∈ (registeredFor r.regs b.dest).filter isRest := by
              rw [hwant]
              refine ⟨rfl, [b.dest], ?_, by simp⟩
              unfold regOf; simp only [Rcpt.agent]; rw [hch]; simp [regOfA, hreg]
            simp [this, hreg, hold]
          · have : ¬ (Rcpt.rest a c ∈ (registeredFor r.regs b.dest).filter isRest) := by
              rw [hwant]; rintro ⟨_, eps, hm, hd⟩
              unfold regOf at hm; simp only [Rcpt.agent] at hm; rw [hch] at hm
              simp only [regOfA] at hm
              cases hl : aload c ra.clients with
              | none => simp [hl] at hm
              | some e =>
                simp only [hl, Option.map_some, Option.some.injEq] at hm
                subst hm
                simp only [List.mem_singleton] at hd
                exact hreg (by rw [hl, hd])
            simp [this, hreg, hold]
        | ping ep =>
          have : ¬ (Rcpt.rest a c ∈ (registeredFor r.regs b.dest).filter isRest) := by
            rw [hwant]; rintro ⟨_, eps, hm, _⟩
            unfold regOf at hm; simp only [Rcpt.agent] at hm; rw [hch] at hm; simp [regOfA] at hm
          have hk : ∀ ag', afterDeliver cfg b a (Agent.ping ep) = ag' → boxOfA (some ag') (Rcpt.rest a c) = [] := by
            intro ag' h; subst h; unfold afterDeliver; split <;> rfl
          simp only [boxOfA] at hold
          simp [this, hold, hk _ rfl]
        | mock l =>
          have : ¬ (Rcpt.rest a c ∈ (registeredFor r.regs b.dest).filter isRest) := by
            rw [hwant]; rintro ⟨_, eps, hm, _⟩
            unfold regOf at hm; simp only [Rcpt.agent] at hm; rw [hch] at hm; simp [regOfA] at hm
          have hk : ∀ ag', afterDeliver cfg b a (Agent.mock l) = ag' → boxOfA (some ag') (Rcpt.rest a c) = [] := by
            intro ag' h; subst h; unfold afterDeliver; split <;> rfl
          simp only [boxOfA] at hold
          simp [this, hold, hk _ rfl]
        | ws conns =>
          have : ¬ (Rcpt.rest a c ∈ (registeredFor r.regs b.dest).filter isRest) := by
            rw [hwant]; rintro ⟨_, eps, hm, _⟩
            unfold regOf at hm; simp only [Rcpt.agent] at hm; rw [hch] at hm; simp [regOfA] at hm
          have hk : ∀ ag', afterDeliver cfg b a (Agent.ws conns) = ag' → boxOfA (some ag') (Rcpt.rest a c) = [] := by
            intro ag' h; subst h; unfold afterDeliver; split <;> rfl
          simp only [boxOfA] at hold
          simp [this, hold, hk _ rfl]
    | ping a =>
      have : ¬ (Rcpt.ping a ∈ (registeredFor r.regs b.dest).filter isRest) := by
        rw [hwant]; rintro ⟨h, _⟩; cases h
      have hb : ∀ o : Option Agent, boxOfA o (Rcpt.ping a) = [] := by
        intro o
        cases o with
        | none => rfl
        | some ag => cases ag <;> rfl
      rw [hb] at hold ⊢
      simp [this, hold]
    | mock a =>
      have : ¬ (Rcpt.mock a ∈ (registeredFor r.regs b.dest).filter isRest) := by
        rw [hwant]; rintro ⟨h, _⟩; cases h
      have hb : ∀ o : Option Agent, boxOfA o (Rcpt.mock a) = [] := by
        intro o
        cases o with
        | none => rfl
        | some ag => cases ag <;> rfl
      rw [hb] at hold ⊢
      simp [this, hold]
    | ws a c =>
      have : ¬ (Rcpt.ws a c ∈ (registeredFor r.regs b.dest).filter isRest) := by
        rw [hwant]; rintro ⟨h, _⟩; cases h
      have hb : ∀ o : Option Agent, boxOfA o (Rcpt.ws a c) = [] := by
        intro o
        cases o with
        | none => rfl
        | some ag => cases ag <;> rfl
      rw [hb] at hold ⊢
      simp [this, hold]

/-! ### every operation, every history -/

theorem sim_step (cfg : Cfg) (hall : cfg.rangeAll = true) {m : Mux} {r : Reg} (s : Sim m r) (op : Op) :
    Sim (step cfg m op).1 (r.step op).1 := by
  cases op with
  | addPing a ep => exact sim_add s a (.ping ep) .ping rfl trivial (by intro x; cases x <;> rfl)
  | addMock a eps => exact sim_add s a (.mock eps) .mock rfl trivial (by intro x; cases x <;> rfl)
  | addRest a =>
    exact sim_add s a (.rest {}) .rest rfl ⟨keysNodup_nil, keysNodup_nil⟩ (by intro x; cases x <;> rfl)
  | addWs a => exact sim_add s a (.ws []) .ws rfl keysNodup_nil (by intro x; cases x <;> rfl)
  | dropAgent a => exact sim_drop s a
  | restReg a c ep => exact sim_restReg cfg s a c ep
  | restUnreg a c => exact sim_restUnreg cfg s a c
  | restFetch a c => exact sim_restFetch cfg s a c
  | wsConnect a c ep => exact sim_wsConnect cfg s a c ep
  | wsClose a c => exact sim_wsClose cfg s a c
  | deliver b => exact sim_deliver cfg hall s b

theorem sim_empty : Sim {} {} := by
  refine ⟨empty_wf, keysNodup_nil, ?_, ?_, ?_⟩
  · intro a; rfl
  · intro x; cases x <;> rfl
  · intro x; cases x <;> rfl

theorem histOk_of_sim (cfg : Cfg) (hall : cfg.rangeAll = true) (ops : List Op) :
    ∀ (m : Mux) (r : Reg), Sim m r → histOk r (trace cfg m ops) = true := by
  induction ops with
  | nil => intro m r _; rfl
  | cons op t ih =>
    intro m r s
    simp only [trace, histOk, Bool.and_eq_true]
    exact ⟨sim_events cfg hall s op, ih _ _ (sim_step cfg hall s op)⟩

/-- Every trace of the model, from the empty mux, satisfies the Spec predicate `histOk`. -/
theorem history_ok (cfg : Cfg) (hall : cfg.rangeAll = true) (ops : List Op) :
    histOk {} (trace cfg {} ops) = true :=
  histOk_of_sim cfg hall ops {} {} sim_empty

end Dtn7.Delivery.Lemmas
