import Dtn7.Model.Bundle
import Dtn7.Model.BundleSpec
import Dtn7.Lemmas.Eid
import Dtn7.Lemmas.CborExtra

/-!
Round trips with exact consumption, bottom-up: timestamp, map entries, block values, primary block,
canonical block, block list, bundle.
-/
namespace Dtn7.Bundle.Lemmas
open Dtn7.Cbor Dtn7.Cbor.Lemmas Dtn7.Eid Dtn7.Eid.Lemmas Dtn7.Bundle

theorem consumed_append (x r : Bytes) : consumed (x ++ r) r = x := by
  unfold consumed
  simp

theorem rawHead_encHead (maj n : Nat) (rest : Bytes) (k : Nat → Bytes → CanonRes) (hm : maj < 8)
    (hn : n < 2 ^ 64) : rawHead maj (encHead maj n ++ rest) k = k n rest := by
  unfold rawHead
  rw [decExpect_encHead maj n rest hm hn]

theorem rawHead_encUInt (n : Nat) (rest : Bytes) (k : Nat → Bytes → CanonRes) (hn : n < 2 ^ 64) :
    rawHead majUInt (encUInt n ++ rest) k = k n rest :=
  rawHead_encHead majUInt n rest k (by decide) hn

theorem decTimestamp_enc (t s : Nat) (ht : t < 2 ^ 64) (hs : s < 2 ^ 64) (rest : Bytes) :
    decTimestamp (encTimestamp t s ++ rest) = .ok ((t, s), rest) := by
  unfold decTimestamp encTimestamp
  rw [List.append_assoc, List.append_assoc, decArray_encArray 2 _ (by decide)]
  simp only [bindP_ok, ne_eq, not_true_eq_false, ↓reduceIte]
  rw [decUInt_encUInt t _ ht]
  simp only [bindP_ok]
  rw [decUInt_encUInt s _ hs]
  rfl

/-! ### map entries -/

theorem mapInsert_fresh (m : EidMap) (k : Eid) (v : Nat) (h : k ∉ m.map (·.1)) :
    mapInsert m k v = m ++ [(k, v)] := by
  induction m with
  | nil => rfl
  | cons p ps ih =>
    obtain ⟨k', v'⟩ := p
    simp only [List.map_cons, List.mem_cons, not_or] at h
    have hne : ¬ (k' = k) := fun e => h.1 e.symm
    simp [mapInsert, hne, ih h.2]

theorem decPairs_encPairs (encV : Nat → Bytes) (decV : Bytes → Except Err (Nat × Bytes))
    (hV : ∀ n rest, n < 2 ^ 64 → decV (encV n ++ rest) = .ok (n, rest))
    (m acc : EidMap) (rest : Bytes)
    (henc : ∀ p ∈ m, Eid.Enc p.1 ∧ U64 p.2)
    (hnd : ((acc ++ m).map (·.1)).Nodup) :
    decPairs decV m.length acc (encPairs encV m ++ rest) = .ok (acc ++ m, rest) := by
  induction m generalizing acc with
  | nil => simp [decPairs, encPairs]
  | cons p ps ih =>
    obtain ⟨k, v⟩ := p
    have hk := henc (k, v) (List.mem_cons_self ..)
    simp only [List.length_cons, decPairs, encPairs, List.append_assoc]
    rw [decEid_encEidRaw k hk.1.1 hk.1.2]
    simp only [bindP_ok]
    rw [hV v _ hk.2]
    simp only [bindP_ok]
    have hfresh : k ∉ acc.map (·.1) := by
      intro hmem
      rw [List.map_append, List.map_cons] at hnd
      have := (List.nodup_append.mp hnd).2.2
      exact this k hmem k (List.mem_cons_self ..) rfl
    rw [mapInsert_fresh acc k v hfresh]
    have := ih (acc ++ [(k, v)]) (fun p hp => henc p (List.mem_cons_of_mem _ hp))
      (by simpa [List.append_assoc] using hnd)
    simpa [List.append_assoc] using this

theorem decFloatBits_enc (n : Nat) (rest : Bytes) (hn : n < 2 ^ 64) :
    decFloatBits (encFloatBits n ++ rest) = .ok (n, rest) :=
  decExpect_encHead majSimple n rest (by decide) hn

/-! ### block values -/

theorem decHopField_enc (x : Nat) (hx : x ≤ 255) (rest : Bytes) :
    decHopField (encUInt x ++ rest) = .ok (x, rest) := by
  unfold decHopField
  rw [decUInt_encUInt x _ (by omega)]
  have : ¬ x > 255 := by omega
  simp [this]

theorem registered_default (cfg : Cfg) :
    cfg.registered tPayload = true ∧ cfg.registered tPrevNode = true ∧
    cfg.registered tAge = true ∧ cfg.registered tHop = true := by
  simp [Cfg.registered, tPayload, tPrevNode, tAge, tHop]

/-- **Block value round trip**: what `WriteBlock` puts into the byte string is read back by
`ReadBlock` as the same typed value. -/
theorem decValue_encValueInner (cfg : Cfg) (v : BlockValue) (hv : BlockValue.Enc cfg v) :
    decValue cfg v.typeCode (encValueInner v) = .ok v := by
  obtain ⟨r1, r6, r7, r10⟩ := registered_default cfg
  simp only [tPayload, tPrevNode, tAge, tHop] at r1 r6 r7 r10
  cases v with
  | payload d =>
    simp [decValue, BlockValue.typeCode, encValueInner, r1, tPayload]
  | generic t d =>
    simp only [BlockValue.Enc] at hv
    simp [decValue, BlockValue.typeCode, encValueInner, hv.1]
  | prevNode e =>
    simp only [BlockValue.Enc] at hv
    have := decEid_encEidRaw e hv.1 hv.2 []
    rw [List.append_nil] at this
    simp [decValue, BlockValue.typeCode, encValueInner, r6, tPrevNode, tPayload, this]
  | age ms =>
    simp only [BlockValue.Enc, U64] at hv
    have := decUInt_encUInt ms [] hv
    rw [List.append_nil] at this
    simp [decValue, BlockValue.typeCode, encValueInner, r7, tAge, tPrevNode, tPayload, this]
  | hop l c =>
    simp only [BlockValue.Enc] at hv
    have h1 := decArray_encArray 2 (encUInt l ++ encUInt c) (by decide)
    have h2 := decHopField_enc l hv.1 (encUInt c)
    have h3 := decHopField_enc c hv.2 []
    rw [List.append_nil] at h3
    simp [decValue, BlockValue.typeCode, encValueInner, r10, tHop, tAge, tPrevNode, tPayload,
      List.append_assoc, h1, h2, h3]
  | spray n =>
    simp only [BlockValue.Enc, U64, tSpray] at hv
    have := decUInt_encUInt n [] hv.2
    rw [List.append_nil] at this
    simp [decValue, BlockValue.typeCode, encValueInner, hv.1, tSpray, tHop, tAge, tPrevNode,
      tPayload, this]
  | dtlsr id ts peers =>
    simp only [BlockValue.Enc, U64, tDtlsr] at hv
    obtain ⟨hreg, hid, hts, hpe, hnd, hlen⟩ := hv
    have h1 := decArray_encArray 3
      (encEidRaw id ++ (encUInt ts ++ (encHead majMap peers.length ++ encPairs encUInt peers))) (by decide)
    have h2 := decEid_encEidRaw id hid.1 hid.2
      (encUInt ts ++ (encHead majMap peers.length ++ encPairs encUInt peers))
    have h3 := decUInt_encUInt ts (encHead majMap peers.length ++ encPairs encUInt peers) hts
    have h4 := decExpect_encHead majMap peers.length (encPairs encUInt peers) (by decide) hlen
    have h5 := decPairs_encPairs encUInt decUInt (fun n rest hn => decUInt_encUInt n rest hn)
      peers [] [] hpe (by simpa using hnd)
    simp only [List.append_nil, List.nil_append] at h5
    simp [decValue, BlockValue.typeCode, encValueInner, hreg, tDtlsr, tSpray, tHop, tAge, tPrevNode,
      tPayload, List.append_assoc, h1, h2, h3, h4, h5]
  | prophet m =>
    simp only [BlockValue.Enc, U64, tProphet] at hv
    obtain ⟨hreg, hpe, hnd, hlen⟩ := hv
    have h4 := decExpect_encHead majMap m.length (encPairs encFloatBits m) (by decide) hlen
    have h5 := decPairs_encPairs encFloatBits decFloatBits (fun n rest hn => decFloatBits_enc n rest hn)
      m [] [] hpe (by simpa using hnd)
    simp only [List.append_nil, List.nil_append] at h5
    simp [decValue, BlockValue.typeCode, encValueInner, hreg, tProphet, tDtlsr, tSpray, tHop, tAge,
      tPrevNode, tPayload, h4, h5]
  | signature pk sg =>
    simp only [BlockValue.Enc, tSignature] at hv
    obtain ⟨hreg, hpk, hsg⟩ := hv
    have h1 := decArray_encArray 2 (encBytes pk ++ encBytes sg) (by decide)
    have h2 := decBytes_encBytes pk (encBytes sg) hpk
    have h3 := decBytes_encBytes sg [] hsg
    rw [List.append_nil] at h3
    simp [decValue, BlockValue.typeCode, encValueInner, hreg, tSignature, tProphet, tDtlsr, tSpray,
      tHop, tAge, tPrevNode, tPayload, List.append_assoc, h1, h2, h3]

/-! ### CRC field -/

theorem crcValue_known (t : Nat) (body : Bytes) (ht : t ≤ 2) :
    ∃ cc, crcValue t body = .ok cc ∧ cc.length ≤ maxInt32 ∧
      crcField t body = (if t = crcNo then [] else encBytes cc) := by
  have h : t = 0 ∨ t = 1 ∨ t = 2 := by omega
  rcases h with rfl | rfl | rfl
  · exact ⟨[], by simp [crcValue, crcNo], by simp [maxInt32], by simp [crcField, crcNo]⟩
  · refine ⟨beBytes 2 (Dtn7.CrcNat.crc16 (body ++ encBytes (zeros 2))), by simp [crcValue, crcNo, crc16T], ?_, ?_⟩
    · rw [beBytes_length]; simp [maxInt32]
    · simp [crcField, crcValue, crcNo, crc16T]
  · refine ⟨beBytes 4 (Dtn7.CrcNat.crc32c (body ++ encBytes (zeros 4))), by simp [crcValue, crcNo, crc16T, crc32T], ?_, ?_⟩
    · rw [beBytes_length]; simp [maxInt32]
    · simp [crcField, crcValue, crcNo, crc16T, crc32T]

/-! ### primary block -/

theorem decPrimaryFields_enc (strict : Bool) (p : Primary) (hp : Primary.Enc p) (rest : Bytes) :
    decPrimaryFields strict (encPrimaryBody p ++ rest) = .ok ((p.arrayLen, p), rest) := by
  obtain ⟨ver, flags, ct, dst, src, rpt, t, sq, lt, off, tot⟩ := p
  simp only [Primary.Enc, U64, Eid.Enc, Primary.isFragment] at hp
  obtain ⟨hver, hfl, hct, hdst, hsrc, hrpt, ht, hs, hl, ho, htot, hfrag⟩ := hp
  subst hver
  have hdst' := fun r => decEid_encEidRaw dst hdst.1 hdst.2 r
  have hsrc' := fun r => decEid_encEidRaw src hsrc.1 hsrc.2 r
  have hrpt' := fun r => decEid_encEidRaw rpt hrpt.1 hrpt.2 r
  have hts' := fun r => decTimestamp_enc t sq ht hs r
  have hu := fun n r (h : n < 2 ^ 64) => decUInt_encUInt n r h
  have ha := fun n r (h : n < 2 ^ 64) => decArray_encArray n r h
  have hc : ct = 0 ∨ ct = 1 ∨ ct = 2 := by omega
  cases hf : has flags bIsFragment
  · obtain ⟨rfl, rfl⟩ := hfrag hf
    rcases hc with rfl | rfl | rfl <;>
      simp [decPrimaryFields, encPrimaryBody, Primary.arrayLen, Primary.isFragment, Primary.hasCrc, hf,
        crcNo, crcKnown, dtnVersion, List.append_assoc, ha, hu, hfl, hl, hdst', hsrc', hrpt', hts']
  · rcases hc with rfl | rfl | rfl <;>
      simp [decPrimaryFields, encPrimaryBody, Primary.arrayLen, Primary.isFragment, Primary.hasCrc, hf,
        crcNo, crcKnown, dtnVersion, List.append_assoc, ha, hu, hfl, hl, ho, htot, hdst', hsrc', hrpt', hts']

/-- **Primary block round trip** with exact consumption. -/
theorem decPrimary_enc (strict : Bool) (p : Primary) (hp : Primary.Enc p) (rest : Bytes) :
    decPrimary strict (encPrimaryRaw p ++ rest) = .ok (p, rest) := by
  have hct : p.crcT ≤ 2 := hp.2.2.1
  obtain ⟨cc, hcv, hlen, hcf⟩ := crcValue_known p.crcT (encPrimaryBody p) hct
  unfold decPrimary encPrimaryRaw
  rw [List.append_assoc, decPrimaryFields_enc strict p hp]
  simp only [bindP_ok]
  by_cases h0 : p.crcT = crcNo
  · have hal : ¬ (p.arrayLen = 9 ∨ p.arrayLen = 11) := by
      unfold Primary.arrayLen Primary.hasCrc
      simp only [h0, bne_self_eq_false, Bool.false_eq_true, ↓reduceIte]
      split <;> omega
    simp [hal, h0, crcField, crcNo]
  · have hal : p.arrayLen = 9 ∨ p.arrayLen = 11 := by
      unfold Primary.arrayLen Primary.hasCrc
      have : (p.crcT != crcNo) = true := by simpa using h0
      simp only [this, ↓reduceIte]
      split <;> omega
    simp only [hal, ↓reduceIte, hcf, h0]
    rw [consumed_append, hcv]
    simp only
    rw [decBytes_encBytes cc rest hlen]
    simp

/-! ### canonical block -/

theorem typeCode_lt (cfg : Cfg) (v : BlockValue) (hv : BlockValue.Enc cfg v) : v.typeCode < 2 ^ 64 := by
  cases v <;> simp only [BlockValue.typeCode, tPayload, tPrevNode, tAge, tHop, tSpray, tDtlsr, tProphet,
    tSignature] <;> try decide
  case generic t d => exact hv.2

/-- The bytes of a canonical block between array head and CRC field. -/
def canonFields (c : Canonical) : Bytes :=
  encUInt c.typeCode ++ encUInt c.num ++ encUInt c.flags ++ encUInt c.crcT ++
    encBytes (encValueInner c.value)

theorem encCanonBody_eq (c : Canonical) :
    encCanonBody c = encArray (if c.hasCrc then 6 else 5) ++ canonFields c := by
  simp [encCanonBody, canonFields, List.append_assoc]

theorem decCanonFields_enc (cfg : Cfg) (c : Canonical) (hc : Canonical.Enc cfg c) (rest : Bytes)
    (k : Canonical → Bytes → CanonRes) :
    decCanonFields cfg (if c.hasCrc then 6 else 5) (canonFields c ++ rest) k = k c rest := by
  obtain ⟨num, flags, ct, v⟩ := c
  simp only [Canonical.Enc, U64] at hc
  obtain ⟨hnum, hfl, hct, hv, hlen⟩ := hc
  have htc := typeCode_lt cfg v hv
  have hval := decValue_encValueInner cfg v hv
  have hb := decBytes_encBytes (encValueInner v) rest hlen
  have hcases : ct = 0 ∨ ct = 1 ∨ ct = 2 := by omega
  unfold decCanonFields canonFields
  simp only [Canonical.typeCode, List.append_assoc]
  rw [rawHead_encUInt _ _ _ htc, rawHead_encUInt _ _ _ hnum, rawHead_encUInt _ _ _ hfl,
    rawHead_encUInt _ _ _ (by omega : ct < 2 ^ 64)]
  rcases hcases with rfl | rfl | rfl <;>
    simp [Canonical.hasCrc, crcNo, crcKnown, hb, hval]

/-- **Canonical block round trip** with exact consumption. -/
theorem decCanon_enc (cfg : Cfg) (c : Canonical) (hc : Canonical.Enc cfg c) (rest : Bytes) :
    decCanon cfg (encCanonRaw c ++ rest) = .block c rest := by
  have hct : c.crcT ≤ 2 := hc.2.2.1
  obtain ⟨cc, hcv, hlen, hcf⟩ := crcValue_known c.crcT (encCanonBody c) hct
  unfold decCanon encCanonRaw
  rw [hcf, encCanonBody_eq] at *
  simp only [List.append_assoc]
  unfold encArray at *
  rw [rawHead_encHead majArray _ _ _ (by decide) (by split <;> decide)]
  have hbl : ¬ ((if c.hasCrc = true then 6 else 5) ≠ 5 ∧ (if c.hasCrc = true then 6 else 5) ≠ 6) := by
    split <;> simp
  simp only [hbl, ↓reduceIte]
  rw [decCanonFields_enc cfg c hc]
  by_cases h0 : c.crcT = crcNo
  · have hh : c.hasCrc = false := by simp [Canonical.hasCrc, h0]
    simp [hh, h0]
  · have hh : c.hasCrc = true := by simpa [Canonical.hasCrc] using h0
    simp only [hh, ↓reduceIte, h0] at hcv ⊢
    rw [consumed_append, hcv]
    simp only
    unfold encBytes
    rw [List.append_assoc, rawHead_encHead majBytes _ _ _ (by decide) (by unfold maxInt32 at hlen; omega)]
    rw [readRaw_append cc rest hlen]
    simp

/-! ### block list and bundle -/

theorem encCanonRaw_cons (c : Canonical) : ∃ b t, encCanonRaw c = b :: t ∧ b.toNat ≠ 0xFF := by
  obtain ⟨b, t, ht, hb, _⟩ := encHead_head_ne majArray (if c.hasCrc then 6 else 5) (by decide)
  refine ⟨b, t ++ (encUInt c.typeCode ++ encUInt c.num ++ encUInt c.flags ++ encUInt c.crcT ++
      encBytes (encValueInner c.value)) ++ crcField c.crcT (encCanonBody c), ?_, hb⟩
  unfold encCanonRaw encCanonBody encArray
  rw [ht]
  simp [List.append_assoc]

theorem encBlocksRaw_length (cs : List Canonical) : cs.length ≤ (encBlocksRaw cs).length := by
  induction cs with
  | nil => simp [encBlocksRaw]
  | cons c cs ih =>
    obtain ⟨b, t, ht, _⟩ := encCanonRaw_cons c
    simp only [encBlocksRaw, List.length_cons, List.length_append, ht]
    omega

theorem decCanon_break (cfg : Cfg) (rest : Bytes) : decCanon cfg (breakCode :: rest) = .brk rest := by
  unfold decCanon rawHead decExpect decHead
  have h1 : ¬ (breakCode.toNat = 0x9F) := by decide
  have h2 : breakCode.toNat = 0xFF := by decide
  simp [h2]

theorem decBlocks_enc (cfg : Cfg) (cs : List Canonical) (hcs : ∀ c ∈ cs, Canonical.Enc cfg c)
    (rest : Bytes) (fuel : Nat) (hf : cs.length + 1 ≤ fuel) :
    decBlocks cfg fuel (encBlocksRaw cs ++ breakCode :: rest) = .ok (cs, rest) := by
  induction cs generalizing fuel with
  | nil =>
    cases fuel with
    | zero => omega
    | succ f => simp [decBlocks, encBlocksRaw, decCanon_break]
  | cons c cs ih =>
    cases fuel with
    | zero => omega
    | succ f =>
      simp only [decBlocks, encBlocksRaw, List.append_assoc]
      rw [decCanon_enc cfg c (hcs c (List.mem_cons_self ..))]
      simp only
      rw [ih (fun d hd => hcs d (List.mem_cons_of_mem _ hd)) f (by simp at hf; omega)]

/-- **Bundle round trip, decoding part**: the bytes written for an encodable bundle, followed by
anything, decode to the same bundle and leave exactly what followed. -/
theorem parseRaw_serializeRaw (cfg : Cfg) (b : Bundle) (hb : Encodable cfg b) (rest : Bytes) :
    parseRaw cfg (serializeRaw b ++ rest) = .ok (b, rest) := by
  obtain ⟨p, cs⟩ := b
  obtain ⟨hp, hcs⟩ := hb
  unfold parseRaw serializeRaw
  simp only [List.cons_append, ne_eq, not_true_eq_false, ↓reduceIte, List.append_assoc]
  rw [decPrimary_enc cfg.strict p hp]
  simp only [wrapErr, bindP_ok, List.nil_append]
  rw [decBlocks_enc cfg cs hcs rest _ (by
    have := encBlocksRaw_length cs
    simp only [List.length_append, List.length_cons]; omega)]
  rfl

end Dtn7.Bundle.Lemmas
