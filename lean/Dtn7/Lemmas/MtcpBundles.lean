import Dtn7.Model.Mtcp
import Dtn7.Model.Bundle
import Dtn7.Model.BundleSpec
import Dtn7.Lemmas.Mtcp
import Dtn7.Lemmas.BundleTop
import Dtn7.Lemmas.BundleStable

/-!
MTCP over the REAL bundle codec (C01): the abstract `Mtcp.Codec` instantiated with
`Bundle.serializeRaw` / `Bundle.parse cfg now`, and the framing hypotheses (`GoodOn`) discharged from
C01's `parse_serialize`.
-/
namespace Dtn7.Mtcp.Bundles
open Dtn7.Cbor (Bytes)
open Dtn7.Bundle (Bundle Cfg Encodable checkValid serializeRaw parse)
open Dtn7.Mtcp Dtn7.Mtcp.Lemmas

/-- The bundle codec as MTCP's server uses it: `Bundle.MarshalCbor` on the sending side, `Bundle.UnmarshalCbor`
(decode + `CheckValid` at the receiver's clock `now`) on the stream. Errors are mapped into the framing layer's
error type; nothing else is added. -/
def codec (cfg : Cfg) (now : Nat) : Codec Bundle :=
  { enc := serializeRaw,
    parse := fun bs => match parse cfg now bs with
      | .ok x => .ok x
      | .error e => .error (.cbor e) }

/-- The bundles the theorems speak about: what the wire can carry (`Encodable`), valid at the receiver's
clock, and with an encoding whose length fits the byte-string head (`uint64`). -/
def Sendable (cfg : Cfg) (now : Nat) (b : Bundle) : Prop :=
  Encodable cfg b ∧ checkValid cfg.strict now b = true ∧ (serializeRaw b).length < 2 ^ 64

instance (cfg : Cfg) (now : Nat) (b : Bundle) : Decidable (Sendable cfg now b) := by
  unfold Sendable; infer_instance

theorem codec_parse_ok (cfg : Cfg) (now : Nat) (bs : Bytes) (x : Bundle × Bytes) :
    (codec cfg now).parse bs = .ok x ↔ parse cfg now bs = .ok x := by
  simp only [codec]
  cases h : parse cfg now bs with
  | ok y => simp
  | error e => simp

/-- The real codec meets the framing layer's requirements on every sendable bundle: exact consumption is
C01's `parse_serialize`; an encoding starts with 0x9F, so it is not empty. -/
theorem codec_good (cfg : Cfg) (hs : cfg.strict = true) (now : Nat) :
    GoodOn (codec cfg now) (Sendable cfg now) where
  rt := by
    intro b rest ⟨he, hv, _⟩
    rw [codec_parse_ok]
    exact (Dtn7.Bundle.Lemmas.parse_serialize cfg hs now b he hv rest).2
  ne := by
    intro b _
    simp [codec, serializeRaw]
  small := fun _ h => h.2.2

/-- The real parser is extension-stable (`Dtn7.Bundle.Stable.parse_stable`), hence so is the codec. -/
theorem codec_stable (cfg : Cfg) (now : Nat) (p : Bytes) (x : Bundle) (r t : Bytes)
    (h : (codec cfg now).parse p = .ok (x, r)) : (codec cfg now).parse (p ++ t) = .ok (x, r ++ t) := by
  rw [codec_parse_ok] at h ⊢
  exact Dtn7.Bundle.Stable.parse_stable cfg now p x r t h

/-- **A truncated encoding is not a bundle**: no strict prefix of a sendable bundle's serialisation is accepted
by `Bundle.UnmarshalCbor` (as any bundle, with any rest). The indefinite array is closed only by the final break
byte and every block is length-delimited; formally: exact consumption + extension stability. -/
theorem parse_truncated (cfg : Cfg) (hs : cfg.strict = true) (now : Nat) (b : Bundle) (hb : Sendable cfg now b)
    (k : Nat) (hk : k < (serializeRaw b).length) (x : Bundle × Bytes) :
    parse cfg now ((serializeRaw b).take k) ≠ .ok x := by
  intro h
  exact cut_of_stable (codec cfg now) (codec_good cfg hs now) (codec_stable cfg now) b hb k hk x
    ((codec_parse_ok cfg now _ x).mpr h)

end Dtn7.Mtcp.Bundles
