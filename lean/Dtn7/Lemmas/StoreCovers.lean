import Dtn7.Lemmas.Store

set_option linter.unusedSimpArgs false
set_option linter.unusedSectionVars false

/-!
C08, completeness of a fragment set: the sweep of `prepareReassembly` over the fragments sorted by
offset succeeds exactly when the fragments cover the payload.
-/
namespace Dtn7.Store.Lemmas
open Dtn7.Store

def CoveredBy (l : List (Nat × Nat)) (x : Nat) : Prop := ∃ iv ∈ l, iv.1 ≤ x ∧ x < iv.1 + iv.2

theorem sweep_sound (l : List (Nat × Nat)) (last e : Nat) (h : sweepEnd true last l = some e) :
    last ≤ e ∧ (∀ x, last ≤ x → x < e → CoveredBy l x) ∧ ∀ iv ∈ l, iv.1 + iv.2 ≤ e := by
  induction l generalizing last with
  | nil =>
    simp only [sweepEnd] at h; injection h with h; subst h
    exact ⟨Nat.le_refl _, fun x h1 h2 => absurd h2 (Nat.not_lt.mpr h1), by simp⟩
  | cons iv r ih =>
    obtain ⟨o, len⟩ := iv
    simp only [sweepEnd, if_true] at h
    by_cases hlt : last < o
    · simp [hlt] at h
    · simp only [hlt, if_false] at h
      obtain ⟨h1, h2, h3⟩ := ih _ h
      refine ⟨by omega, ?_, ?_⟩
      · intro x hx1 hx2
        by_cases hx : x < o + len
        · exact ⟨(o, len), by simp, by simp only; omega, hx⟩
        · obtain ⟨iv, hiv, hc⟩ := h2 x (by omega) hx2
          exact ⟨iv, List.mem_cons_of_mem _ hiv, hc⟩
      · intro iv hiv
        rcases List.mem_cons.mp hiv with hiv | hiv
        · subst hiv; simp only; omega
        · exact h3 iv hiv

theorem sweep_complete (l : List (Nat × Nat)) (last T : Nat)
    (hs : l.Pairwise (fun a b => a.1 ≤ b.1))
    (hc : ∀ x, last ≤ x → x < T → CoveredBy l x) (he : ∀ iv ∈ l, iv.1 + iv.2 ≤ T) (hl : last ≤ T) :
    sweepEnd true last l = some T := by
  induction l generalizing last with
  | nil =>
    simp only [sweepEnd]
    by_cases h : last < T
    · obtain ⟨iv, hiv, _⟩ := hc last (Nat.le_refl _) h
      simp at hiv
    · congr 1; omega
  | cons iv r ih =>
    obtain ⟨o, len⟩ := iv
    simp only [List.pairwise_cons] at hs
    have hend := he (o, len) (by simp)
    simp only at hend
    have hnlt : ¬ last < o := by
      intro hlt
      by_cases h : last < T
      · obtain ⟨iv, hiv, h1, _⟩ := hc last (Nat.le_refl _) h
        rcases List.mem_cons.mp hiv with hiv | hiv
        · subst hiv; omega
        · have := hs.1 iv hiv; omega
      · omega
    simp only [sweepEnd, hnlt, if_false, if_true]
    refine ih _ hs.2 ?_ (fun iv hiv => he iv (List.mem_cons_of_mem _ hiv)) (by omega)
    intro x hx1 hx2
    obtain ⟨iv, hiv, h1, h2⟩ := hc x (by omega) hx2
    rcases List.mem_cons.mp hiv with hiv | hiv
    · subst hiv; simp only at h2; omega
    · exact ⟨iv, hiv, h1, h2⟩

/-- The loop that overwrites the end index agrees with the maximising one when the ends grow. -/
def IncEnds : Nat → List (Nat × Nat) → Prop
  | _, [] => True
  | last, (o, l) :: r => last ≤ o + l ∧ IncEnds (o + l) r

theorem sweep_nomax_eq (l : List (Nat × Nat)) (last : Nat) (h : IncEnds last l) :
    sweepEnd false last l = sweepEnd true last l := by
  induction l generalizing last with
  | nil => rfl
  | cons iv r ih =>
    obtain ⟨o, len⟩ := iv
    simp only [IncEnds] at h
    simp only [sweepEnd, if_true, Bool.false_eq_true, if_false]
    rw [Nat.max_eq_right h.1, ih _ h.2]

theorem incEnds_of_noContained (l : List (Nat × Nat)) (last : Nat)
    (h0 : ∀ iv, l.head? = some iv → last ≤ iv.1 + iv.2) (h : noContained l = true) : IncEnds last l := by
  induction l generalizing last with
  | nil => trivial
  | cons iv r ih =>
    obtain ⟨o, len⟩ := iv
    refine ⟨h0 (o, len) rfl, ?_⟩
    cases r with
    | nil => trivial
    | cons iv' r' =>
      obtain ⟨o', len'⟩ := iv'
      simp only [noContained, Bool.and_eq_true, decide_eq_true_eq] at h
      refine ih _ ?_ h.2
      intro iv hiv
      simp only [List.head?_cons, Option.some.injEq] at hiv
      subst hiv; simp only; omega

/-! ### Sorting by offset -/

theorem mem_insertByOff (b x : Bundle) (l : List Bundle) : x ∈ insertByOff b l ↔ x = b ∨ x ∈ l := by
  induction l with
  | nil => simp [insertByOff]
  | cons c r ih =>
    by_cases h : bOff b < bOff c
    · simp [insertByOff, h]
    · simp only [insertByOff, h, if_false, List.mem_cons, ih]
      constructor
      · rintro (h | h | h) <;> simp [h]
      · rintro (h | h | h) <;> simp [h]

theorem mem_sortByOff (x : Bundle) (l : List Bundle) : x ∈ sortByOff l ↔ x ∈ l := by
  induction l with
  | nil => simp [sortByOff]
  | cons c r ih => simp [sortByOff, mem_insertByOff, ih]

theorem sorted_insertByOff (b : Bundle) (l : List Bundle)
    (h : l.Pairwise (fun a c => bOff a ≤ bOff c)) :
    (insertByOff b l).Pairwise (fun a c => bOff a ≤ bOff c) := by
  induction l with
  | nil => simp [insertByOff]
  | cons c r ih =>
    simp only [List.pairwise_cons] at h
    by_cases hlt : bOff b < bOff c
    · simp only [insertByOff, hlt, if_true, List.pairwise_cons]
      refine ⟨?_, h⟩
      intro a ha
      rcases List.mem_cons.mp ha with ha | ha
      · subst ha; omega
      · have := h.1 a ha; omega
    · simp only [insertByOff, hlt, if_false, List.pairwise_cons]
      refine ⟨?_, ih h.2⟩
      intro a ha
      rcases (mem_insertByOff b a r).mp ha with ha | ha
      · subst ha; omega
      · exact h.1 a ha

theorem sorted_sortByOff (l : List Bundle) : (sortByOff l).Pairwise (fun a c => bOff a ≤ bOff c) := by
  induction l with
  | nil => simp [sortByOff]
  | cons c r ih => exact sorted_insertByOff c _ ih

/-- Interval (offset, payload length) of a loaded fragment. -/
def ivOf (b : Bundle) : Nat × Nat := (bOff b, b.payLen)

theorem covers_congr (l l' : List (Nat × Nat)) (T : Nat) (h : ∀ iv, iv ∈ l ↔ iv ∈ l') :
    Covers l T ↔ Covers l' T := by
  have hne : l ≠ [] ↔ l' ≠ [] := by
    constructor
    · intro hl e; subst e
      cases l with
      | nil => exact hl rfl
      | cons a r => exact absurd ((h a).mp (by simp)) (by simp)
    · intro hl e; subst e
      cases l' with
      | nil => exact hl rfl
      | cons a r => exact absurd ((h a).mpr (by simp)) (by simp)
  simp only [Covers, hne]
  constructor
  · rintro ⟨h1, h2, h3⟩
    exact ⟨h1, fun x hx => by obtain ⟨iv, hiv, hc⟩ := h2 x hx; exact ⟨iv, (h iv).mp hiv, hc⟩,
      fun iv hiv => h3 iv ((h iv).mpr hiv)⟩
  · rintro ⟨h1, h2, h3⟩
    exact ⟨h1, fun x hx => by obtain ⟨iv, hiv, hc⟩ := h2 x hx; exact ⟨iv, (h iv).mpr hiv, hc⟩,
      fun iv hiv => h3 iv ((h iv).mp hiv)⟩

/-- **Complete ⇔ covers**, for a non-empty set of loaded fragments with one common total length:
the check of `prepareReassembly` (end index maximised) succeeds exactly when the fragments cover
`[0, T)`. -/
theorem reassemblable_iff_covers (bs : List Bundle) (T : Nat) (hne : bs ≠ [])
    (hfrag : ∀ b ∈ bs, b.frag.isSome = true) (hT : ∀ b ∈ bs, bTotal b = T) :
    reassemblable true bs = true ↔ Covers (bs.map ivOf) T := by
  have hcong : Covers (bs.map ivOf) T ↔ Covers ((sortByOff bs).map ivOf) T :=
    covers_congr _ _ _ (fun iv => by simp only [List.mem_map, mem_sortByOff])
  rw [hcong]
  have hsorted : ((sortByOff bs).map ivOf).Pairwise (fun a c => a.1 ≤ c.1) := by
    rw [List.pairwise_map]; exact sorted_sortByOff bs
  cases hs : sortByOff bs with
  | nil =>
    exfalso
    cases bs with
    | nil => exact hne rfl
    | cons a r =>
      have : a ∈ sortByOff (a :: r) := (mem_sortByOff a _).mpr (by simp)
      rw [hs] at this; simp at this
  | cons b0 r =>
    have hb0 : b0 ∈ bs := (mem_sortByOff b0 bs).mp (by rw [hs]; simp)
    have hall : (b0 :: r).all (fun b => b.frag.isSome) = true := by
      rw [List.all_eq_true]; intro b hb
      exact hfrag b ((mem_sortByOff b bs).mp (by rw [hs]; exact hb))
    rw [hs] at hsorted
    simp only [reassemblable, hs, hall, Bool.true_and, hT b0 hb0, beq_iff_eq]
    constructor
    · intro h
      obtain ⟨_, h2, h3⟩ := sweep_sound _ 0 T h
      exact ⟨by simp, fun x hx => h2 x (Nat.zero_le _) hx, h3⟩
    · rintro ⟨_, h2, h3⟩
      exact sweep_complete _ 0 T hsorted (fun x _ hx => h2 x hx) h3 (Nat.zero_le _)

end Dtn7.Store.Lemmas
