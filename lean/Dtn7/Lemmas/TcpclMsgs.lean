import Dtn7.Model.TcpclMsgs
import Dtn7.Lemmas.Wire

namespace Dtn7.TcpclMsgs.Lemmas
open Dtn7.Cbor (Bytes beBytes beVal)
open Dtn7.Cbor.Lemmas (beBytes_length beVal_beBytes)
open Dtn7.Wire Dtn7.Wire.Lemmas Dtn7.TcpclMsgs

theorem expectHeader_cons (code : Nat) (b : UInt8) (rest : Bytes) (h : b.toNat = code) :
    expectHeader code (b :: rest) = .ok rest := by
  simp [expectHeader, readU8, h]

theorem skipExt_zero (bs : Bytes) : skipExt 0 bs = .ok bs := by simp [skipExt]

theorem dec_sessInit (k s t : Nat) (n rest : Bytes)
    (hk : k < 2 ^ 16) (hs : s < 2 ^ 64) (ht : t < 2 ^ 64) (hn : n.length < 2 ^ 16) :
    decSessInit (enc (.sessInit k s t n) ++ rest) = .ok (.sessInit k s t n, rest) := by
  unfold decSessInit enc
  simp only [List.cons_append, List.append_assoc]
  rw [expectHeader_cons SESS_INIT _ _ (by decide)]
  simp only
  rw [readBE_beBytes 2 k _ (by omega)]
  simp only
  rw [readBE_beBytes 8 s _ (by omega)]
  simp only
  rw [readBE_beBytes 8 t _ (by omega)]
  simp only
  rw [readBE_beBytes 2 n.length _ (by omega)]
  simp only
  rw [takeN_append]
  simp only
  rw [readBE_beBytes 4 0 _ (by omega)]
  simp only [skipExt_zero]

theorem dec_sessTerm (f r : UInt8) (rest : Bytes) (hr : termValid r = true) :
    decSessTerm (enc (.sessTerm f r) ++ rest) = .ok (.sessTerm f r, rest) := by
  unfold decSessTerm enc
  simp only [List.cons_append, List.nil_append]
  rw [expectHeader_cons SESS_TERM _ _ (by decide)]
  simp [readU8, hr]

theorem dec_xferSegment (f : UInt8) (tid : Nat) (d rest : Bytes)
    (ht : tid < 2 ^ 64) (hd : d.length < 2 ^ 64) :
    decXferSegment (enc (.xferSegment f tid d) ++ rest) = .ok (.xferSegment f tid d, rest) := by
  unfold decXferSegment enc
  simp only [List.cons_append, List.append_assoc]
  rw [expectHeader_cons XFER_SEGMENT _ _ (by decide)]
  simp only [readU8]
  rw [readBE_beBytes 8 tid _ (by omega)]
  simp only
  rw [readBE_beBytes 4 0 _ (by omega)]
  simp only [skipExt_zero]
  rw [readBE_beBytes 8 d.length _ (by omega)]
  simp only
  by_cases h0 : d.length = 0
  · have : d = [] := List.eq_nil_of_length_eq_zero h0
    subst this
    simp
  · simp only [h0, ↓reduceIte]
    rw [takeN_append]

theorem take_drop_be (a b rest : Bytes) (f : UInt8) (ha : a.length = 8) (hb : b.length = 8) :
    takeN 17 (f :: (a ++ b ++ rest)) = .ok (f :: (a ++ b), rest) := by
  have : f :: (a ++ b ++ rest) = (f :: (a ++ b)) ++ rest := by simp
  rw [this]
  exact takeN_append' 17 _ _ (by simp [ha, hb])

theorem dec_xferAck (f : UInt8) (tid l : Nat) (rest : Bytes) (ht : tid < 2 ^ 64) (hl : l < 2 ^ 64) :
    decXferAck (enc (.xferAck f tid l) ++ rest) = .ok (.xferAck f tid l, rest) := by
  unfold decXferAck enc
  simp only [List.cons_append]
  rw [expectHeader_cons XFER_ACK _ _ (by decide)]
  simp only
  rw [take_drop_be _ _ _ _ (beBytes_length 8 tid) (beBytes_length 8 l)]
  simp only [List.getD_cons_zero, List.drop_succ_cons, List.drop_zero]
  have h1 : (beBytes 8 tid ++ beBytes 8 l).take 8 = beBytes 8 tid := by
    rw [List.take_append_of_le_length (by simp [beBytes_length])]
    exact List.take_of_length_le (by simp [beBytes_length])
  have h2 : (beBytes 8 tid ++ beBytes 8 l).drop 8 = beBytes 8 l := by
    rw [List.drop_append_of_le_length (by simp [beBytes_length])]
    simp [List.drop_of_length_le, beBytes_length]
  rw [h1, h2, beVal_beBytes 8 tid (by omega), beVal_beBytes 8 l (by omega)]

theorem dec_xferRefuse (r : UInt8) (tid : Nat) (rest : Bytes) (hr : refuseValid r = true)
    (ht : tid < 2 ^ 64) :
    decXferRefuse (enc (.xferRefuse r tid) ++ rest) = .ok (.xferRefuse r tid, rest) := by
  unfold decXferRefuse enc
  simp only [List.cons_append]
  rw [expectHeader_cons XFER_REFUSE _ _ (by decide)]
  simp only
  have : r :: (beBytes 8 tid ++ rest) = (r :: beBytes 8 tid) ++ rest := by simp
  rw [this, takeN_append' 9 _ _ (by simp [beBytes_length])]
  simp [hr, beVal_beBytes 8 tid (by omega)]

theorem dec_keepalive (rest : Bytes) :
    decKeepalive (enc .keepalive ++ rest) = .ok (.keepalive, rest) := by
  unfold decKeepalive enc
  simp only [List.cons_append, List.nil_append]
  rw [expectHeader_cons KEEPALIVE _ _ (by decide)]

theorem dec_reject (r h : UInt8) (rest : Bytes) (hr : rejectValid r = true) :
    decReject (enc (.reject r h) ++ rest) = .ok (.reject r h, rest) := by
  unfold decReject enc
  simp only [List.cons_append, List.nil_append]
  rw [expectHeader_cons MSG_REJECT _ _ (by decide)]
  simp only
  have : r :: h :: rest = [r, h] ++ rest := by simp
  rw [this, takeN_append' 2 _ _ (by simp)]
  simp [hr]

theorem dec_contact (f : UInt8) (rest : Bytes) :
    decContact (enc (.contact f) ++ rest) = .ok (.contact f, rest) := by
  unfold decContact enc
  have : contactHead ++ [f] ++ rest = (contactHead ++ [f]) ++ rest := by simp
  rw [takeN_append' 6 _ _ (by simp [contactHead])]
  simp [contactHead]

/-- **Round trip with exact consumption through the dispatcher** (`ReadMessage`). -/
theorem readMessage_enc (m : Msg) (rest : Bytes) (hc : Canonical m) :
    readMessage (enc m ++ rest) = .ok (m, rest) := by
  cases m with
  | contact f =>
    have := dec_contact f rest
    simp only [enc, contactHead, List.cons_append, List.nil_append] at this ⊢
    simp only [readMessage]
    exact this
  | sessInit k s t n =>
    obtain ⟨hk, hs, ht, hn⟩ := hc
    have := dec_sessInit k s t n rest hk hs ht hn
    simp only [enc, List.cons_append] at this ⊢
    simp only [readMessage]
    exact this
  | sessTerm f r =>
    have := dec_sessTerm f r rest hc
    simp only [enc, List.cons_append] at this ⊢
    simp only [readMessage]
    exact this
  | xferSegment f tid d =>
    obtain ⟨ht, hd⟩ := hc
    have := dec_xferSegment f tid d rest ht hd
    simp only [enc, List.cons_append] at this ⊢
    simp only [readMessage]
    exact this
  | xferAck f tid l =>
    obtain ⟨ht, hl⟩ := hc
    have := dec_xferAck f tid l rest ht hl
    simp only [enc, List.cons_append] at this ⊢
    simp only [readMessage]
    exact this
  | xferRefuse r tid =>
    obtain ⟨hr, ht⟩ := hc
    have := dec_xferRefuse r tid rest hr ht
    simp only [enc, List.cons_append] at this ⊢
    simp only [readMessage]
    exact this
  | keepalive =>
    have := dec_keepalive rest
    simp only [enc, List.cons_append] at this ⊢
    simp only [readMessage]
    exact this
  | reject r h =>
    have := dec_reject r h rest hc
    simp only [enc, List.cons_append] at this ⊢
    simp only [readMessage]
    exact this

/-! ### rejection: reason codes, magic/version, unknown type codes -/

theorem sessTerm_accepts (f c : UInt8) (rest : Bytes) :
    accepts (readMessage (u8 SESS_TERM :: f :: c :: rest)) = termValid c := by
  have : readMessage (u8 SESS_TERM :: f :: c :: rest) = decSessTerm (u8 SESS_TERM :: f :: c :: rest) := by
    simp only [readMessage]; rfl
  rw [this]
  unfold decSessTerm
  rw [expectHeader_cons SESS_TERM _ _ (by decide)]
  simp only [readU8]
  cases termValid c <;> rfl

theorem xferRefuse_accepts (c : UInt8) (tid : Nat) (rest : Bytes) :
    accepts (readMessage (u8 XFER_REFUSE :: c :: (beBytes 8 tid ++ rest))) = refuseValid c := by
  have : readMessage (u8 XFER_REFUSE :: c :: (beBytes 8 tid ++ rest)) =
      decXferRefuse (u8 XFER_REFUSE :: c :: (beBytes 8 tid ++ rest)) := by
    simp only [readMessage]; rfl
  rw [this]
  unfold decXferRefuse
  rw [expectHeader_cons XFER_REFUSE _ _ (by decide)]
  simp only
  have : c :: (beBytes 8 tid ++ rest) = (c :: beBytes 8 tid) ++ rest := by simp
  rw [this, takeN_append' 9 _ _ (by simp [beBytes_length])]
  simp only [List.getD_cons_zero]
  cases refuseValid c <;> rfl

theorem reject_accepts (c h : UInt8) (rest : Bytes) :
    accepts (readMessage (u8 MSG_REJECT :: c :: h :: rest)) = rejectValid c := by
  have : readMessage (u8 MSG_REJECT :: c :: h :: rest) = decReject (u8 MSG_REJECT :: c :: h :: rest) := by
    simp only [readMessage]; rfl
  rw [this]
  unfold decReject
  rw [expectHeader_cons MSG_REJECT _ _ (by decide)]
  simp only
  have : c :: h :: rest = [c, h] ++ rest := by simp
  rw [this, takeN_append' 2 _ _ (by simp)]
  simp only [List.getD_cons_zero]
  cases rejectValid c <;> rfl

/-- Contact header: six bytes are read, then magic and version must be exactly "dtn!" 4. -/
theorem contact_accepts (d rest : Bytes) (hd : d.length = 6) :
    accepts (decContact (d ++ rest)) = decide (d.take 5 = contactHead) := by
  unfold decContact
  rw [takeN_append' 6 d rest hd]
  simp only
  by_cases h : d.take 5 = contactHead
  · simp [h, accepts]
  · simp [h, accepts]

theorem contact_short (bs : Bytes) (h : bs.length < 6) : decContact bs = .error .eof := by
  unfold decContact takeN
  simp [h]

theorem unknown_type (b : UInt8) (rest : Bytes)
    (h : ¬ [SESS_INIT, SESS_TERM, XFER_SEGMENT, XFER_ACK, XFER_REFUSE, KEEPALIVE, MSG_REJECT, CONTACT].contains b.toNat) :
    readMessage (b :: rest) = .error .unknownType := by
  simp only [List.contains_cons, List.contains_nil, Bool.or_false, Bool.or_eq_true, beq_iff_eq, not_or] at h
  simp only [readMessage]
  obtain ⟨h1, h2, h3, h4, h5, h6, h7, h8⟩ := h
  simp [h1, h2, h3, h4, h5, h6, h7, h8]

theorem enc_ne_nil (m : Msg) : enc m ≠ [] := by
  cases m <;> simp [enc, contactHead]

end Dtn7.TcpclMsgs.Lemmas
