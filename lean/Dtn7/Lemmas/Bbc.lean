import Dtn7.Model.Bbc
import Dtn7.Lemmas.BbcFrag

namespace Dtn7.Bbc.Lemmas
open Dtn7.Cbor (Bytes)
open Dtn7.Bbc

/-! ### fragment accessors on `mkFrag` -/

theorem mk_fields (tid seq : UInt8) (s e f : Bool) (p : Bytes) (h : seq.toNat < 32) :
    (mkFrag tid seq s e f p).tid = tid ∧ (mkFrag tid seq s e f p).seq = seq ∧ (mkFrag tid seq s e f p).start = s ∧
    (mkFrag tid seq s e f p).fin = e ∧ (mkFrag tid seq s e f p).fail = f ∧ (mkFrag tid seq s e f p).payload = p := by
  have := ident_fields seq s e f
  refine ⟨rfl, ?_, this.2.1, this.2.2.1, this.2.2.2, rfl⟩
  show ((mkIdent seq s e f) >>> 3) &&& 0x1F = seq
  rw [this.1]
  exact and_1F_of_lt seq.toBitVec h

theorem nextSeq_small : ∀ k, k < 16 → nextSeq (UInt8.ofNat k) = UInt8.ofNat ((k + 1) % 16) := by decide

theorem nextSeq_ofNat (i : Nat) : nextSeq (UInt8.ofNat (i % 16)) = seqOf i := by
  rw [nextSeq_small (i % 16) (Nat.mod_lt _ (by decide))]
  unfold seqOf
  congr 1
  omega

theorem nextSeq_seqOf (i : Nat) : nextSeq (seqOf i) = seqOf (i + 1) := by
  unfold seqOf
  rw [nextSeq_ofNat (i + 1)]
  rfl

theorem seqOf_toNat (i : Nat) : (seqOf i).toNat = (i + 1) % 16 := by
  unfold seqOf
  exact Dtn7.Cbor.Lemmas.toNat_ofNat_lt _ (by omega)

theorem seqOf_eq_iff (i j : Nat) : seqOf i = seqOf j ↔ (i + 1) % 16 = (j + 1) % 16 := by
  constructor
  · intro h
    have := congrArg UInt8.toNat h
    rwa [seqOf_toNat, seqOf_toNat] at this
  · intro h
    unfold seqOf; rw [h]

/-! ### sender -/

theorem concatPayload_append (a b : List Frag) : concatPayload (a ++ b) = concatPayload a ++ concatPayload b := by
  induction a with
  | nil => rfl
  | cons f a ih => simp [concatPayload, ih]

/-- The loop invariant of the sender: started at position `i` (previous number `i mod 16`, START iff `i = 0`)
on a non-empty rest it emits a well-shaped tail of a train whose total length is `i +` what it emits. -/
theorem trainFuel_ok (tid : UInt8) (p : Nat) (hp : 0 < p) :
    ∀ (fuel : Nat) (i : Nat) (pl : Bytes), pl ≠ [] → pl.length ≤ fuel →
      let t := trainFuel tid p fuel (i == 0) (UInt8.ofNat (i % 16)) pl
      t ≠ [] ∧ (∀ f ∈ t, f.payload.length ≤ p) ∧ concatPayload t = pl ∧
        shapeFrom tid (i + t.length) i t = true := by
  intro fuel
  induction fuel with
  | zero =>
    intro i pl hne hl
    exact absurd (List.length_eq_zero_iff.mp (Nat.le_zero.mp hl)) hne
  | succ fuel ih =>
    intro i pl hne hl
    have hs : (seqOf i).toNat < 32 := by rw [seqOf_toNat]; omega
    simp only [trainFuel, nextSeq_ofNat]
    by_cases hle : pl.length ≤ p
    · simp only [hle, ↓reduceIte]
      obtain ⟨h1, h2, h3, h4, h5, h6⟩ := mk_fields tid (seqOf i) (i == 0) true false pl hs
      refine ⟨by simp, ?_, ?_, ?_⟩
      · intro f hf
        simp only [List.mem_singleton] at hf
        subst hf; rw [h6]; exact hle
      · simp [concatPayload, h6]
      · simp only [shapeFrom, List.length_singleton, h1, h2, h3, h4, h5]
        simp
    · simp only [hle, ↓reduceIte]
      have hdrop : pl.drop p ≠ [] := by
        intro hnil
        have := congrArg List.length hnil
        simp only [List.length_drop, List.length_nil] at this
        omega
      have hdl : (pl.drop p).length ≤ fuel := by simp only [List.length_drop]; omega
      have ihh : trainFuel tid p fuel false (seqOf i) (pl.drop p) ≠ [] ∧
          (∀ f ∈ trainFuel tid p fuel false (seqOf i) (pl.drop p), f.payload.length ≤ p) ∧
          concatPayload (trainFuel tid p fuel false (seqOf i) (pl.drop p)) = pl.drop p ∧
          shapeFrom tid (i + 1 + (trainFuel tid p fuel false (seqOf i) (pl.drop p)).length) (i + 1)
            (trainFuel tid p fuel false (seqOf i) (pl.drop p)) = true :=
        ih (i + 1) (pl.drop p) hdrop hdl
      obtain ⟨g1, g2, g3, g4⟩ := ihh
      obtain ⟨h1, h2, h3, h4, h5, h6⟩ := mk_fields tid (seqOf i) (i == 0) false false (pl.take p) hs
      refine ⟨by simp, ?_, ?_, ?_⟩
      · intro f hf
        rcases List.mem_cons.mp hf with hf | hf
        · subst hf; rw [h6]; simp only [List.length_take]; omega
        · exact g2 f hf
      · simp only [concatPayload, h6, g3, List.take_append_drop]
      · simp only [shapeFrom, List.length_cons, h1, h2, h3, h4, h5]
        have hlen : 0 < (trainFuel tid p fuel false (seqOf i) (pl.drop p)).length :=
          Nat.pos_of_ne_zero (fun h => g1 (List.length_eq_zero_iff.mp h))
        have hne1 : (i + 1 == i + ((trainFuel tid p fuel false (seqOf i) (pl.drop p)).length + 1)) = false := by
          simp only [beq_eq_false_iff_ne, ne_eq]; omega
        simp only [hne1, beq_self_eq_true, Bool.not_false, Bool.and_true, Bool.true_and]
        have e : i + ((trainFuel tid p fuel false (seqOf i) (pl.drop p)).length + 1) =
            i + 1 + (trainFuel tid p fuel false (seqOf i) (pl.drop p)).length := by omega
        rw [e]
        exact g4

theorem frag_bytes_length (f : Frag) : f.bytes.length = f.payload.length + 2 := by
  simp [Frag.bytes]

/-- **bbc_train_ok** -/
theorem train_ok (tid : UInt8) (mtu : Nat) (payload : Bytes) (hm : 3 ≤ mtu) (hp : payload ≠ []) :
    TrainOk tid mtu payload (train tid mtu payload) := by
  unfold train
  have hemp : payload.isEmpty = false := by cases payload <;> simp_all
  simp only [hemp, Bool.false_eq_true, ↓reduceIte]
  have h := trainFuel_ok tid (mtu - fragmentIdentifierSize) (by unfold fragmentIdentifierSize; omega)
    payload.length 0 payload hp (Nat.le_refl _)
  simp only [Nat.zero_mod, Nat.zero_add] at h
  obtain ⟨h1, h2, h3, h4⟩ := h
  refine ⟨h1, ?_, h4, h3⟩
  intro f hf
  rw [frag_bytes_length]
  have := h2 f hf
  unfold fragmentIdentifierSize at this
  omega

/-! ### receiver: positions of a well-shaped train -/

/-- What `shapeFrom` says about the fragment at a position. -/
theorem shape_at (tid : UInt8) (n : Nat) : ∀ (t : List Frag) (i j : Nat) (f : Frag),
    shapeFrom tid n i t = true → t[j]? = some f →
      f.tid = tid ∧ f.seq = seqOf (i + j) ∧ f.start = (i + j == 0) ∧ f.fin = (i + j + 1 == n) ∧ f.fail = false := by
  intro t
  induction t with
  | nil => intro i j f _ h; simp at h
  | cons g t ih =>
    intro i j f hs hj
    simp only [shapeFrom, Bool.and_eq_true, beq_iff_eq, Bool.not_eq_eq_eq_not, Bool.not_true] at hs
    obtain ⟨⟨⟨⟨⟨a1, a2⟩, a3⟩, a4⟩, a5⟩, a6⟩ := hs
    cases j with
    | zero =>
      simp only [List.getElem?_cons_zero, Option.some.injEq] at hj
      subst hj
      exact ⟨a1, a2, a3, a4, a5⟩
    | succ j =>
      simp only [List.getElem?_cons_succ] at hj
      have := ih (i + 1) j f a6 hj
      have e : i + 1 + j = i + (j + 1) := by omega
      rw [e] at this
      exact this

theorem concat_take_succ (t : List Frag) (l : Nat) (f : Frag) (h : t[l]? = some f) :
    concatPayload (t.take (l + 1)) = concatPayload (t.take l) ++ f.payload := by
  induction t generalizing l with
  | nil => simp at h
  | cons g t ih =>
    cases l with
    | zero =>
      simp only [List.getElem?_cons_zero, Option.some.injEq] at h
      subst h; simp [concatPayload]
    | succ l =>
      simp only [List.getElem?_cons_succ] at h
      simp only [List.take_succ_cons, concatPayload, ih l h, List.append_assoc]

/-- Entry of the table after positions `0 … l` were accepted. -/
def stAt (t : List Frag) (l : Nat) : Option RxSt := some ⟨concatPayload (t.take (l + 1)), seqOf l⟩

/-- What comes out when the END fragment completes `pl`. -/
def endOut (decodes : Bytes → Bool) (tid : UInt8) (seq : UInt8) (pl : Bytes) : Out :=
  if decodes pl then .deliver tid pl else .failFrag tid seq

section steps
variable (decodes : Bytes → Bool) (tid : UInt8) (t : List Frag) (hs : shapeFrom tid t.length 0 t = true)
include hs

theorem step_start (f : Frag) (h0 : t[0]? = some f) (hn : 2 ≤ t.length) :
    rx decodes none f = (stAt t 0, []) := by
  obtain ⟨_, a2, a3, a4, a5⟩ := shape_at tid t.length t 0 0 f hs h0
  have hfin : f.fin = false := by rw [a4]; simp; omega
  have hst : f.start = true := by rw [a3]; rfl
  simp only [rx, a5, hst, hfin, Bool.false_eq_true, ↓reduceIte, Bool.not_true, stAt, a2]
  have := concat_take_succ t 0 f h0
  simp only [List.take_zero, concatPayload, List.nil_append] at this
  rw [this]

theorem step_single (f : Frag) (h0 : t[0]? = some f) (hn : t.length = 1) :
    rx decodes none f = (none, [endOut decodes tid (seqOf 0) (concatPayload t)]) := by
  obtain ⟨a1, a2, a3, a4, a5⟩ := shape_at tid t.length t 0 0 f hs h0
  have hfin : f.fin = true := by rw [a4, hn]; rfl
  have hst : f.start = true := by rw [a3]; rfl
  have ht : t = [f] := by
    cases t with
    | nil => simp at hn
    | cons g t' =>
      simp only [List.length_cons] at hn
      have : t' = [] := List.length_eq_zero_iff.mp (by omega)
      subst this
      simp only [List.getElem?_cons_zero, Option.some.injEq] at h0
      rw [h0]
  simp only [rx, a5, hst, hfin, Bool.false_eq_true, ↓reduceIte, Bool.not_true, endOut, a1, a2]
  rw [ht]
  simp [concatPayload]

theorem step_reject_none (j : Nat) (f : Frag) (hj : t[j]? = some f) (hj0 : j ≠ 0) :
    rx decodes none f = (none, [.failFrag tid (seqOf j)]) := by
  obtain ⟨a1, a2, a3, _, a5⟩ := shape_at tid t.length t 0 j f hs hj
  have hst : f.start = false := by rw [a3]; simp [hj0]
  simp only [Nat.zero_add] at a2
  simp only [rx, a5, hst, Bool.false_eq_true, ↓reduceIte, Bool.not_false, a1, a2]

theorem step_next (l : Nat) (f : Frag) (hj : t[l + 1]? = some f) (hl : l + 2 < t.length) :
    rx decodes (stAt t l) f = (stAt t (l + 1), []) := by
  obtain ⟨_, a2, a3, a4, a5⟩ := shape_at tid t.length t 0 (l + 1) f hs hj
  simp only [Nat.zero_add] at a2 a3 a4
  have hst : f.start = false := by rw [a3]; simp
  have hfin : f.fin = false := by rw [a4]; simp; omega
  have hseq : (seqOf (l + 1) != nextSeq (seqOf l)) = false := by rw [nextSeq_seqOf]; simp
  simp only [rx, stAt, a5, hst, hfin, a2, hseq, Bool.false_eq_true, ↓reduceIte]
  rw [concat_take_succ t (l + 1) f hj]

theorem step_end (l : Nat) (f : Frag) (hj : t[l + 1]? = some f) (hl : l + 2 = t.length) :
    rx decodes (stAt t l) f = (none, [endOut decodes tid (seqOf (l + 1)) (concatPayload t)]) := by
  obtain ⟨a1, a2, a3, a4, a5⟩ := shape_at tid t.length t 0 (l + 1) f hs hj
  simp only [Nat.zero_add] at a2 a3 a4
  have hst : f.start = false := by rw [a3]; simp
  have hfin : f.fin = true := by rw [a4, ← hl]; simp
  have hseq : (seqOf (l + 1) != nextSeq (seqOf l)) = false := by rw [nextSeq_seqOf]; simp
  have hc : concatPayload (t.take (l + 1)) ++ f.payload = concatPayload t := by
    rw [← concat_take_succ t (l + 1) f hj, hl, List.take_length]
  simp only [rx, stAt, a5, hst, hfin, a2, hseq, Bool.false_eq_true, ↓reduceIte, hc, endOut, a1]

/-- In the state "0 … l accepted" any position other than `l + 1` that is less than 16 away is refused. -/
theorem step_reject_some (l j : Nat) (f : Frag) (hj : t[j]? = some f) (hne : j ≠ l + 1)
    (hw : l ≤ j + 14 ∧ j ≤ l + 16) :
    rx decodes (stAt t l) f = (none, [.failFrag tid (seqOf j)]) := by
  obtain ⟨a1, a2, a3, _, a5⟩ := shape_at tid t.length t 0 j f hs hj
  simp only [Nat.zero_add] at a2 a3
  have hseq : (seqOf j != nextSeq (seqOf l)) = true := by
    rw [nextSeq_seqOf]
    simp only [bne_iff_ne, ne_eq, seqOf_eq_iff]
    omega
  simp only [rx, stAt, a5, a2, hseq, Bool.false_eq_true, ↓reduceIte, a1]

end steps

/-! ### runs -/

theorem runSt_append (decodes : Bytes → Bool) (st : Option RxSt) (a b : List Frag) :
    runSt decodes st (a ++ b) =
      ((runSt decodes (runSt decodes st a).1 b).1, (runSt decodes st a).2 ++ (runSt decodes (runSt decodes st a).1 b).2) := by
  induction a generalizing st with
  | nil => simp [runSt]
  | cons f a ih =>
    simp only [List.cons_append, runSt, ih, List.append_assoc]

theorem pick_append (t : List Frag) (a b : List Nat) : pick t (a ++ b) = pick t a ++ pick t b := by
  simp [pick, List.filterMap_append]

theorem pick_cons (t : List Frag) (j : Nat) (r : List Nat) (f : Frag) (h : t[j]? = some f) :
    pick t (j :: r) = f :: pick t r := by
  simp [pick, List.filterMap_cons, h]

/-- Positions `l+1, …, l+m` accepted silently as long as END is not among them. -/
theorem run_consecutive (decodes : Bytes → Bool) (tid : UInt8) (t : List Frag)
    (hs : shapeFrom tid t.length 0 t = true) (m : Nat) : ∀ l, l + m + 1 < t.length →
    runSt decodes (stAt t l) (pick t (List.range' (l + 1) m)) = (stAt t (l + m), []) := by
  induction m with
  | zero => intro l _; simp [pick, runSt]
  | succ m ih =>
    intro l hl
    have hlt : l + 1 < t.length := by omega
    obtain ⟨f, hf⟩ : ∃ f, t[l + 1]? = some f := ⟨t[l + 1], List.getElem?_eq_getElem hlt⟩
    rw [List.range'_succ, pick_cons t _ _ f hf]
    simp only [runSt, step_next decodes tid t hs l f hf (by omega)]
    have := ih (l + 1) (by omega)
    rw [this]
    simp only [List.nil_append]
    congr 2
    omega

/-- Positions `0, …, m−1` (`1 ≤ m < n`): state "0 … m−1 accepted", nothing came out. -/
theorem run_prefix (decodes : Bytes → Bool) (tid : UInt8) (t : List Frag)
    (hs : shapeFrom tid t.length 0 t = true) (m : Nat) (hm : 1 ≤ m) (hlt : m < t.length) :
    runSt decodes none (pick t (List.range' 0 m)) = (stAt t (m - 1), []) := by
  obtain ⟨f, hf⟩ : ∃ f, t[0]? = some f := ⟨t[0]'(by omega), List.getElem?_eq_getElem (by omega)⟩
  cases m with
  | zero => omega
  | succ m =>
    rw [List.range'_succ, pick_cons t _ _ f hf]
    simp only [runSt, step_start decodes tid t hs f hf (by omega)]
    have := run_consecutive decodes tid t hs m 0 (by omega)
    simp only [Nat.zero_add] at this
    rw [this]
    simp

/-- **bbc_roundtrip**: the whole train, in order, into an empty table. -/
theorem run_whole (decodes : Bytes → Bool) (tid : UInt8) (t : List Frag) (hne : t ≠ [])
    (hs : shapeFrom tid t.length 0 t = true) :
    runSt decodes none (pick t (List.range' 0 t.length)) =
      (none, [endOut decodes tid (seqOf (t.length - 1)) (concatPayload t)]) := by
  have hpos : 0 < t.length := Nat.pos_of_ne_zero (fun h => hne (List.length_eq_zero_iff.mp h))
  by_cases h1 : t.length = 1
  · obtain ⟨f, hf⟩ : ∃ f, t[0]? = some f := ⟨t[0]'(by omega), List.getElem?_eq_getElem (by omega)⟩
    rw [h1]
    show runSt decodes none (pick t [0]) = _
    rw [pick_cons t _ _ f hf]
    simp only [runSt, step_single decodes tid t hs f hf h1, pick, List.filterMap_nil, List.append_nil]
  · have hsplit : List.range' 0 t.length = List.range' 0 (t.length - 1) ++ [t.length - 1] := by
      have : t.length = (t.length - 1) + 1 := by omega
      conv => lhs; rw [this]
      rw [List.range'_concat]
      simp
    rw [hsplit, pick_append, runSt_append, run_prefix decodes tid t hs (t.length - 1) (by omega) (by omega)]
    obtain ⟨f, hf⟩ : ∃ f, t[t.length - 2 + 1]? = some f :=
      ⟨t[t.length - 2 + 1]'(by omega), List.getElem?_eq_getElem (by omega)⟩
    have e : t.length - 1 = t.length - 2 + 1 := by omega
    have e2 : t.length - 1 - 1 = t.length - 2 := by omega
    simp only
    rw [e2]
    conv => lhs; rw [e]
    rw [pick_cons t _ _ f hf]
    simp only [runSt, step_end decodes tid t hs (t.length - 2) f hf (by omega), pick, List.filterMap_nil,
      List.append_nil, List.nil_append]
    rw [← e]

theorem range'_shift (n : Nat) : ∀ s, List.range' (s + 1) n = (List.range' s n).map (· + 1) := by
  induction n with
  | zero => intro s; rfl
  | succ n ih => intro s; simp only [List.range'_succ, List.map_cons, ih (s + 1)]

theorem pick_range (t : List Frag) : pick t (List.range' 0 t.length) = t := by
  unfold pick
  induction t with
  | nil => simp
  | cons f t ih =>
    rw [List.length_cons, List.range'_succ]
    simp only [List.filterMap_cons, List.getElem?_cons_zero]
    congr 1
    rw [range'_shift t.length 0, List.filterMap_map]
    simpa [Function.comp_def] using ih

/-! ### safety -/

/-- Invariant: the open entry (if any) holds exactly the first `l+1` payload pieces, `l` being the position
received last, and END is still to come. -/
def Inv (t : List Frag) (st : Option RxSt) (prev : Option Nat) : Prop :=
  (st = none) ∨ (∃ l, prev = some l ∧ l + 1 < t.length ∧ st = stAt t l)

def linked (prev : Option Nat) (is : List Nat) : Bool :=
  match prev with
  | some l => windowOk (l :: is)
  | none => windowOk is

theorem windowOk_tail (i : Nat) (r : List Nat) (h : windowOk (i :: r) = true) : windowOk r = true := by
  cases r with
  | nil => rfl
  | cons j r' =>
    simp only [windowOk, Bool.and_eq_true] at h
    exact h.2

theorem safe_gen (decodes : Bytes → Bool) (tid : UInt8) (t : List Frag)
    (hs : shapeFrom tid t.length 0 t = true) : ∀ (is : List Nat) (st : Option RxSt) (prev : Option Nat),
    (∀ j ∈ is, j < t.length) → Inv t st prev → linked prev is = true →
    ∀ o ∈ (runSt decodes st (pick t is)).2, o.isDeliver = true → o = .deliver tid (concatPayload t) := by
  intro is
  induction is with
  | nil => intro st prev _ _ _ o ho; simp [pick, runSt] at ho
  | cons j is ih =>
    intro st prev hin hinv hlink o ho hdel
    have hjlt : j < t.length := hin j (by simp)
    obtain ⟨f, hf⟩ : ∃ f, t[j]? = some f := ⟨t[j], List.getElem?_eq_getElem hjlt⟩
    rw [pick_cons t j is f hf] at ho
    simp only [runSt, List.mem_append] at ho
    have hin' : ∀ k ∈ is, k < t.length := fun k hk => hin k (by simp [hk])
    -- the window condition from position j onwards
    have hlinkj : linked (some j) is = true := by
      cases prev with
      | none => exact hlink
      | some l => exact windowOk_tail l (j :: is) hlink
    have hlinkn : linked none is = true := windowOk_tail j is hlinkj
    -- helper: outputs of the remaining run from state none
    have restNone : ∀ o ∈ (runSt decodes none (pick t is)).2, o.isDeliver = true → o = .deliver tid (concatPayload t) :=
      ih none none hin' (Or.inl rfl) hlinkn
    have endOut_ok : ∀ q, (endOut decodes tid q (concatPayload t)).isDeliver = true →
        endOut decodes tid q (concatPayload t) = .deliver tid (concatPayload t) := by
      intro q h
      unfold endOut at h ⊢
      by_cases hd : decodes (concatPayload t) = true
      · simp [hd]
      · simp [hd, Out.isDeliver] at h
    rcases hinv with hnone | ⟨l, hprev, hl, hst⟩
    · -- no open entry
      subst hnone
      by_cases hj0 : j = 0
      · subst hj0
        by_cases h1 : t.length = 1
        · rw [step_single decodes tid t hs f hf h1] at ho
          rcases ho with ho | ho
          · simp only [List.mem_singleton] at ho
            subst ho; exact endOut_ok _ hdel
          · exact restNone o ho hdel
        · rw [step_start decodes tid t hs f hf (by omega)] at ho
          rcases ho with ho | ho
          · simp at ho
          · exact ih (stAt t 0) (some 0) hin' (Or.inr ⟨0, rfl, by omega, rfl⟩) hlinkj o ho hdel
      · rw [step_reject_none decodes tid t hs j f hf hj0] at ho
        rcases ho with ho | ho
        · simp only [List.mem_singleton] at ho
          subst ho; simp [Out.isDeliver] at hdel
        · exact restNone o ho hdel
    · -- entry open after position l
      subst hst hprev
      have hw : l ≤ j + 14 ∧ j ≤ l + 16 := by
        simp only [linked, windowOk, Bool.and_eq_true, decide_eq_true_eq] at hlink
        exact ⟨hlink.1.1, hlink.1.2⟩
      by_cases hnext : j = l + 1
      · subst hnext
        by_cases hend : l + 2 = t.length
        · rw [step_end decodes tid t hs l f hf hend] at ho
          rcases ho with ho | ho
          · simp only [List.mem_singleton] at ho
            subst ho; exact endOut_ok _ hdel
          · exact restNone o ho hdel
        · rw [step_next decodes tid t hs l f hf (by omega)] at ho
          rcases ho with ho | ho
          · simp at ho
          · exact ih (stAt t (l + 1)) (some (l + 1)) hin' (Or.inr ⟨l + 1, rfl, by omega, rfl⟩) hlinkj o ho hdel
      · rw [step_reject_some decodes tid t hs l j f hf hnext hw] at ho
        rcases ho with ho | ho
        · simp only [List.mem_singleton] at ho
          subst ho; simp [Out.isDeliver] at hdel
        · exact restNone o ho hdel

/-- **bbc_safe** -/
theorem safe (decodes : Bytes → Bool) (tid : UInt8) (t : List Frag)
    (hs : shapeFrom tid t.length 0 t = true) (is : List Nat) (hin : ∀ j ∈ is, j < t.length)
    (hw : windowOk is = true) :
    ∀ o ∈ run decodes none (pick t is), o.isDeliver = true → o = .deliver tid (concatPayload t) :=
  safe_gen decodes tid t hs is none none hin (Or.inl rfl) hw

/-! ### a single fault is signalled (outside the two D29 classes) -/

theorem mem_run_of_mem_first (decodes : Bytes → Bool) (st : Option RxSt) (f : Frag) (r : List Frag) (o : Out)
    (h : o ∈ (rx decodes st f).2) : o ∈ (runSt decodes st (f :: r)).2 := by
  simp only [runSt, List.mem_append]; exact Or.inl h

/-- After positions `0 … m−1` (`m < n`), a position `j` that is not the expected one (and less than 16 away)
makes the receiver broadcast a failure fragment. -/
theorem signalled_after_prefix (decodes : Bytes → Bool) (tid : UInt8) (t : List Frag)
    (hs : shapeFrom tid t.length 0 t = true) (m j : Nat) (r : List Nat) (hm : m < t.length) (hj : j < t.length)
    (hne : j ≠ m) (hw : m ≤ j + 15 ∧ j + 1 ≤ m + 16) :
    ∃ o ∈ (runSt decodes none (pick t (List.range' 0 m ++ j :: r))).2, o.isFailFrag = true := by
  obtain ⟨f, hf⟩ : ∃ f, t[j]? = some f := ⟨t[j], List.getElem?_eq_getElem hj⟩
  rw [pick_append, runSt_append, pick_cons t j r f hf]
  refine ⟨.failFrag tid (seqOf j), ?_, rfl⟩
  apply List.mem_append_right
  apply mem_run_of_mem_first
  by_cases hm0 : m = 0
  · subst hm0
    simp only [List.range'_zero, pick, List.filterMap_nil, runSt]
    rw [step_reject_none decodes tid t hs j f hf hne]
    simp
  · rw [run_prefix decodes tid t hs m (by omega) hm]
    simp only
    rw [step_reject_some decodes tid t hs (m - 1) j f hf (by omega) (by omega)]
    simp

/-- After the whole train, any further position except 0 is refused with a failure fragment. -/
theorem signalled_after_whole (decodes : Bytes → Bool) (tid : UInt8) (t : List Frag) (hne : t ≠ [])
    (hs : shapeFrom tid t.length 0 t = true) (j : Nat) (r : List Nat) (hj : j < t.length) (hj0 : j ≠ 0) :
    ∃ o ∈ (runSt decodes none (pick t (List.range' 0 t.length ++ j :: r))).2, o.isFailFrag = true := by
  obtain ⟨f, hf⟩ : ∃ f, t[j]? = some f := ⟨t[j], List.getElem?_eq_getElem hj⟩
  rw [pick_append, runSt_append, pick_cons t j r f hf, run_whole decodes tid t hne hs]
  refine ⟨.failFrag tid (seqOf j), ?_, rfl⟩
  apply List.mem_append_right
  apply mem_run_of_mem_first
  simp only
  rw [step_reject_none decodes tid t hs j f hf hj0]
  simp

/-- **bbc_single_fault_signalled** -/
theorem single_fault_signalled (decodes : Bytes → Bool) (tid : UInt8) (t : List Frag) (hne : t ≠ [])
    (hs : shapeFrom tid t.length 0 t = true) (fault : Fault) (hv : fault.valid t.length)
    (hsil : ¬ fault.silent t.length) :
    ∃ o ∈ run decodes none (pick t (fault.apply t.length)), o.isFailFrag = true := by
  unfold run
  cases fault with
  | drop d =>
    simp only [Fault.valid, Fault.silent] at hv hsil
    simp only [Fault.apply]
    have e : t.length - d - 1 = (t.length - d - 2) + 1 := by omega
    rw [e, List.range'_succ]
    exact signalled_after_prefix decodes tid t hs d (d + 1) _ hv (by omega) (by omega) (by omega)
  | dup d =>
    simp only [Fault.valid, Fault.silent] at hv hsil
    simp only [Fault.apply]
    by_cases hlast : d + 1 = t.length
    · have e1 : t.length - d = 1 := by omega
      rw [e1, hlast]
      show ∃ o ∈ (runSt decodes none (pick t (List.range' 0 t.length ++ d :: []))).2, _
      exact signalled_after_whole decodes tid t hne hs d [] hv (by omega)
    · have e : t.length - d = (t.length - d - 1) + 1 := by omega
      rw [e, List.range'_succ]
      exact signalled_after_prefix decodes tid t hs (d + 1) d _ (by omega) hv (by omega) (by omega)
  | swap d =>
    simp only [Fault.valid] at hv
    simp only [Fault.apply, List.append_assoc, List.cons_append, List.nil_append]
    exact signalled_after_prefix decodes tid t hs d (d + 1) _ (by omega) hv (by omega) (by omega)

/-! ### transmissions with different ids do not interfere -/

theorem get_filter_self (t : Table) (k : UInt8) : Table.get (t.filter (·.1 != k)) k = none := by
  unfold Table.get
  induction t with
  | nil => rfl
  | cons e t ih =>
    by_cases h : e.1 = k
    · have h1 : (e.1 != k) = false := by simp [h]
      simp only [List.filter_cons, h1, Bool.false_eq_true, ↓reduceIte]
      exact ih
    · have h1 : (e.1 != k) = true := by simp [h]
      have h2 : (e.1 == k) = false := by simp [h]
      simp only [List.filter_cons, h1, ↓reduceIte, List.find?_cons, h2]
      exact ih

theorem get_filter_other (t : Table) (k k' : UInt8) (hk : k' ≠ k) :
    Table.get (t.filter (·.1 != k)) k' = Table.get t k' := by
  unfold Table.get
  induction t with
  | nil => rfl
  | cons e t ih =>
    by_cases h : e.1 = k
    · have h1 : (e.1 != k) = false := by simp [h]
      have h2 : (e.1 == k') = false := by simp [h]; exact fun h' => hk h'.symm
      simp only [List.filter_cons, h1, Bool.false_eq_true, ↓reduceIte, List.find?_cons, h2]
      exact ih
    · have h1 : (e.1 != k) = true := by simp [h]
      simp only [List.filter_cons, h1, ↓reduceIte, List.find?_cons]
      by_cases h3 : e.1 = k'
      · simp [h3]
      · have h4 : (e.1 == k') = false := by simp [h3]
        simp only [h4]
        exact ih

theorem get_put_same (t : Table) (k : UInt8) (v : Option RxSt) : (t.put k v).get k = v := by
  cases v with
  | none => exact get_filter_self t k
  | some v => simp [Table.put, Table.get]

theorem get_put_other (t : Table) (k k' : UInt8) (v : Option RxSt) (hk : k' ≠ k) :
    (t.put k v).get k' = t.get k' := by
  cases v with
  | none => exact get_filter_other t k k' hk
  | some v =>
    have h2 : (k == k') = false := by simp; exact fun h => hk h.symm
    have := get_filter_other t k k' hk
    unfold Table.get at this ⊢
    simp only [Table.put, List.find?_cons, h2]
    exact this

theorem rx_out_tid (decodes : Bytes → Bool) (st : Option RxSt) (f : Frag) :
    ∀ o ∈ (rx decodes st f).2, o.tid = f.tid := by
  intro o ho
  unfold rx at ho
  split at ho
  · simp only [List.mem_singleton] at ho; subst ho; rfl
  · split at ho
    · split at ho
      · simp only [List.mem_singleton] at ho; subst ho; rfl
      · split at ho
        · simp only [List.mem_singleton] at ho; subst ho; split <;> rfl
        · simp at ho
    · split at ho
      · simp only [List.mem_singleton] at ho; subst ho; rfl
      · split at ho
        · simp only [List.mem_singleton] at ho; subst ho; rfl
        · split at ho
          · simp only [List.mem_singleton] at ho; subst ho; split <;> rfl
          · simp at ho

/-- **bbc_concurrent**: for every interleaving, what the connector emits for transmission id `k` is exactly
what a receiver that only ever saw the fragments with id `k` emits. -/
theorem runTable_project (decodes : Bytes → Bool) (k : UInt8) : ∀ (fs : List Frag) (tab : Table),
    (runTable decodes tab fs).filter (·.tid == k) = run decodes (tab.get k) (fs.filter (·.tid == k)) := by
  intro fs
  induction fs with
  | nil => intro tab; rfl
  | cons f fs ih =>
    intro tab
    simp only [runTable, step, List.filter_append]
    by_cases hk : f.tid = k
    · have h1 : (f.tid == k) = true := by simp [hk]
      simp only [List.filter_cons, h1, ↓reduceIte]
      unfold run
      simp only [runSt]
      rw [ih, hk, get_put_same]
      have : (rx decodes (tab.get k) f).2.filter (·.tid == k) = (rx decodes (tab.get k) f).2 := by
        rw [List.filter_eq_self]
        intro o ho
        have := rx_out_tid decodes (tab.get k) f o ho
        simp [this, hk]
      rw [this]
      rfl
    · have h1 : (f.tid == k) = false := by simp [hk]
      simp only [List.filter_cons, h1, Bool.false_eq_true, ↓reduceIte]
      rw [ih, get_put_other tab f.tid k _ (fun h => hk h.symm)]
      have : (rx decodes (tab.get f.tid) f).2.filter (·.tid == k) = [] := by
        rw [List.filter_eq_nil_iff]
        intro o ho
        have := rx_out_tid decodes (tab.get f.tid) f o ho
        simp [this, hk]
      rw [this]
      rfl

end Dtn7.Bbc.Lemmas
