/-
Lemmas about the fragmentation model (`Dtn7.Model.Fragment`): the loop invariant (offsets tile the
payload, every fragment is the slice the code cuts), the size bound, and the clause-by-clause
equivalence of the executable failure classifier with the Spec.
-/
import Dtn7.Model.Fragment
import Dtn7.Lemmas.Cbor

namespace Dtn7.Frag.Lemmas
open Dtn7.Frag Dtn7.Cbor Dtn7.Cbor.Lemmas

theorem headLen_pos (n : Nat) : 1 ≤ headLen n := by
  unfold headLen; split <;> (try split) <;> (try split) <;> (try split) <;> omega

theorem sumActual_le_sumPriced (bs : List Blk) (h : ∀ b ∈ bs, b.actual ≤ b.priced) :
    sumActual bs ≤ sumPriced bs := by
  induction bs with
  | nil => simp [sumActual, sumPriced]
  | cons b bs ih =>
    have h1 := h b (by simp)
    have h2 := ih (fun c hc => h c (by simp [hc]))
    simp only [sumActual, sumPriced, List.map_cons, List.sum_cons] at *
    omega

theorem repBlocks_sub (bs : List Blk) : ∀ b ∈ repBlocks bs, b ∈ bs := by
  intro b hb; exact (List.mem_filter.mp hb).1

/-- Every fragment the loop emits is the one cut at some local index `j`: offset, total, blocks and
bytes are determined by `j`, and the overhead estimate at `j` was below the limit. -/
theorem loop_mem (c : Cfg) (x : In) (first others : Nat) :
    ∀ fuel i fs, loop c x first others fuel i = .ok fs → ∀ f ∈ fs,
      ∃ j, i ≤ j ∧ j < x.payload.length ∧ overheadAt c x first others j < x.mtu ∧ fragValid x j = true ∧
        f = ⟨base c x + j, tot c x,
             (x.payload.drop j).take (x.mtu - overheadAt c x first others j), carried x j⟩ := by
  intro fuel
  induction fuel with
  | zero => intro i fs h f hf; simp [loop] at h; subst h; simp at hf
  | succ fuel ih =>
    intro i fs h f hf
    unfold loop at h
    split at h
    · rename_i hi
      simp only at h
      split at h
      · simp at h
      · rename_i hov
        split at h
        · simp at h
        · rename_i hval
          split at h
          · simp at h
          · rename_i fs' hrec
            simp only [Except.ok.injEq] at h
            subst h
            rcases List.mem_cons.mp hf with rfl | hf'
            · exact ⟨i, Nat.le_refl _, hi, by omega, by simpa using hval, rfl⟩
            · obtain ⟨j, hj, rest⟩ := ih _ _ hrec f hf'
              exact ⟨j, by omega, rest⟩
    · simp at h; subst h; simp at hf

/-- The offsets and payload lengths tile `[base + i, base + L)` in order, without gap or overlap. -/
theorem loop_partition (c : Cfg) (x : In) (first others : Nat) :
    ∀ fuel i fs, loop c x first others fuel i = .ok fs → x.payload.length ≤ i + fuel →
      partitions (base c x + min i x.payload.length) (base c x + x.payload.length)
        (fs.map fun f => (f.off, f.data.length)) = true := by
  intro fuel
  induction fuel with
  | zero =>
    intro i fs h hl
    simp [loop] at h; subst h
    have : min i x.payload.length = x.payload.length := by omega
    simp [partitions, this]
  | succ fuel ih =>
    intro i fs h hl
    unfold loop at h
    split at h
    · rename_i hi
      simp only at h
      split at h
      · simp at h
      · rename_i hov
        split at h
        · simp at h
        · split at h
          · simp at h
          · rename_i fs' hrec
            simp only [Except.ok.injEq] at h
            subst h
            have hrec' := ih _ _ hrec (by omega)
            simp only [List.map_cons, partitions, List.length_take, List.length_drop, Bool.and_eq_true,
              beq_iff_eq]
            refine ⟨by congr 1; omega, ?_⟩
            have e : base c x + min i x.payload.length +
                min (x.mtu - overheadAt c x first others i) (x.payload.length - i) =
                base c x + min (i + (x.mtu - overheadAt c x first others i)) x.payload.length := by omega
            rw [e]; exact hrec'
    · rename_i hi
      simp at h; subst h
      have : min i x.payload.length = x.payload.length := by omega
      simp [partitions, this]

/-- The first fragment is the one cut at index 0. -/
theorem loop_head (c : Cfg) (x : In) (first others fuel : Nat) (f : Frag) (fs : List Frag)
    (h : loop c x first others fuel 0 = .ok (f :: fs)) : f.off = base c x ∧ f.carried = x.blocks := by
  cases fuel with
  | zero => simp [loop] at h
  | succ fuel =>
    unfold loop at h
    split at h
    · simp only at h
      split at h
      · simp at h
      · split at h
        · simp at h
        · split at h
          · simp at h
          · simp only [Except.ok.injEq, List.cons.injEq] at h
            obtain ⟨h1, _⟩ := h
            subst h1
            simp [carried]
    · simp at h

/-- A `.frags` result is what the loop returned. -/
theorem fragment_frags (c : Cfg) (x : In) (fs : List Frag) (h : fragment c x = .frags fs) :
    loop c x (extLen x).1 (extLen x).2 x.payload.length 0 = .ok fs := by
  unfold fragment at h
  split at h
  · simp at h
  · split at h
    · simp at h
    · split at h
      · simp at h
      · rename_i fs' hl
        split at h
        · split at h
          · simp at h
          · simp at h; subst h; exact hl
        · split at h
          · simp at h
          · simp at h; subst h; exact hl

theorem take_length_self {α} (l : List α) (n : Nat) : l.take n = l.take (l.take n).length := by
  rw [List.take_eq_take_iff, List.length_take]; omega

/-- The arithmetic heart of the size bound: a fragment cut at index `j` serialises to at most `mtu`
bytes provided no block is longer than it is priced. -/
theorem fragSize_le (c : Cfg) (x : In) (j : Nat)
    (hblk : ∀ b ∈ x.blocks, b.actual ≤ b.priced) (hpl : x.pl.actual0 ≤ x.pl.priced)
    (hov : overheadAt c x (extLen x).1 (extLen x).2 j < x.mtu) :
    fragSize x ⟨base c x + j, tot c x,
      (x.payload.drop j).take (x.mtu - overheadAt c x (extLen x).1 (extLen x).2 j), carried x j⟩ ≤ x.mtu := by
  have hp := headLen_pos x.mtu
  have h0 : sumActual x.blocks ≤ sumPriced x.blocks := sumActual_le_sumPriced _ hblk
  have h1 : sumActual (repBlocks x.blocks) ≤ sumPriced (repBlocks x.blocks) :=
    sumActual_le_sumPriced _ (fun b hb => hblk b (repBlocks_sub _ b hb))
  simp only [fragSize]
  generalize hD : List.take (x.mtu - overheadAt c x (extLen x).1 (extLen x).2 j) (List.drop j x.payload) = D
  have hn : D.length ≤ x.mtu - overheadAt c x (extLen x).1 (extLen x).2 j := by
    rw [← hD, List.length_take]; omega
  have hh : headLen D.length ≤ headLen x.mtu := headLen_mono (Nat.le_trans hn (Nat.sub_le _ _))
  generalize D.length = n at hn hh ⊢
  generalize headLen n = hnn at hh ⊢
  by_cases hj : j = 0
  · subst hj
    simp only [overheadAt, extLen, carried, if_true] at hov hn ⊢
    omega
  · simp only [overheadAt, extLen, carried, hj, if_false] at hov hn ⊢
    split at hov <;> omega

/-! ### `fragmentsFail = none` is exactly `FragmentsOk` -/

theorem okFirst_iff (x : In) (fs : List Obs) :
    okFirst x fs = true ↔ ∀ f, fs.head? = some f → f.types = x.blocks.map (·.type) := by
  cases fs with
  | nil => simp [okFirst]
  | cons f fs => simp [okFirst]

theorem okRepl_iff (x : In) (fs : List Obs) :
    okRepl x fs = true ↔ ∀ f ∈ fs, ∀ b ∈ x.blocks, b.rep = true → b.type ∈ f.types := by
  simp only [okRepl, List.all_eq_true, Bool.or_eq_true, Bool.not_eq_true', List.contains_eq_mem,
    decide_eq_true_eq]
  constructor
  · intro h f hf b hb hr
    rcases h f hf b hb with h | h
    · rw [hr] at h; cases h
    · exact h
  · intro h f hf b hb
    cases hr : b.rep with
    | false => exact Or.inl rfl
    | true => exact Or.inr (h f hf b hb hr)

theorem okCopies_iff (x : In) (fs : List Obs) : okCopies x fs = true ↔
    ∀ f ∈ fs, f.blocksOk = true ∧ f.types.Nodup ∧ ∀ t ∈ f.types, t ∈ x.blocks.map (·.type) := by
  simp only [okCopies, List.all_eq_true, Bool.and_eq_true, decide_eq_true_eq, List.contains_eq_mem]
  constructor
  · intro h f hf
    obtain ⟨⟨a, b⟩, c⟩ := h f hf
    exact ⟨a, b, c⟩
  · intro h f hf
    obtain ⟨a, b, c⟩ := h f hf
    exact ⟨⟨a, b⟩, c⟩

theorem okSlices_iff (x : In) (start : Nat) (fs : List Obs) : okSlices x start fs = true ↔
    ∀ f ∈ fs, f.len = f.data.length ∧ f.data = slice x.payload (f.off - start) f.len := by
  simp [okSlices, List.all_eq_true]

theorem okSize_iff (x : In) (fs : List Obs) : okSize x fs = true ↔ ∀ f ∈ fs, f.size ≤ x.mtu := by
  simp [okSize, List.all_eq_true]

theorem okValid_iff (fs : List Obs) : okValid fs = true ↔ ∀ f ∈ fs, f.valid = true := by
  simp [okValid, List.all_eq_true]

theorem okFlag_iff (x : In) (fs : List Obs) :
    okFlag x fs = true ↔ ∀ f ∈ fs, f.flags = x.flags ||| flagIsFragment := by
  simp [okFlag, List.all_eq_true]

theorem okIdent_iff (fs : List Obs) : okIdent fs = true ↔ ∀ f ∈ fs, f.identOk = true := by
  simp [okIdent, List.all_eq_true]

theorem okTotal_iff (total : Nat) (fs : List Obs) : okTotal total fs = true ↔ ∀ f ∈ fs, f.total = total := by
  simp [okTotal, List.all_eq_true]

theorem ite_some_none (c : Prop) [Decidable c] (s : String) (r : Option String) :
    (if c then some s else r) = none ↔ ¬ c ∧ r = none := by
  by_cases h : c <;> simp [h]

theorem not_bnot_eq_true (b : Bool) : ¬ ((!b) = true) ↔ b = true := by cases b <;> simp

theorem fragmentsFail_none_iff (x : In) (start total : Nat) (fs : List Obs) :
    fragmentsFail x start total fs = none ↔ FragmentsOk x start total fs := by
  have hemp : ¬ (fs.isEmpty = true) ↔ fs ≠ [] := by cases fs <;> simp
  unfold fragmentsFail
  simp only [ite_some_none, not_bnot_eq_true, hemp, okFirst_iff, okRepl_iff, okCopies_iff, okSlices_iff,
    okSize_iff, okValid_iff, okFlag_iff, okIdent_iff, okTotal_iff, and_true]
  constructor
  · rintro ⟨n, s, va, fl, id, t, p, fi, r, cp, sl⟩
    exact ⟨n, s, va, fl, id, t, p, fi, r, cp, sl⟩
  · rintro ⟨n, s, va, fl, id, t, p, fi, r, cp, sl⟩
    exact ⟨n, s, va, fl, id, t, p, fi, r, cp, sl⟩

end Dtn7.Frag.Lemmas
