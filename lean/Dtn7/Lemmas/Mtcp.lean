import Dtn7.Model.Mtcp
import Dtn7.Lemmas.Cbor

namespace Dtn7.Mtcp.Lemmas
open Dtn7.Cbor (Bytes encHead decHead decExpect majBytes beBytes headLen)
open Dtn7.Cbor.Lemmas
open Dtn7.Wire Dtn7.Mtcp

/-- What C01 provides about the bundle codec, as far as framing is concerned, for the bundles satisfying `P`
(for the real codec: encodable, valid now, encoding shorter than 2^64). -/
structure GoodOn {B} (c : Codec B) (P : B → Prop) : Prop where
  /-- exact consumption: the parser reads back what the serialiser wrote and leaves the rest alone -/
  rt : ∀ b rest, P b → c.parse (c.enc b ++ rest) = .ok (b, rest)
  ne : ∀ b, P b → c.enc b ≠ []
  small : ∀ b, P b → (c.enc b).length < 2 ^ 64

/-- The same for every value of the carrier. -/
abbrev Good {B} (c : Codec B) : Prop := GoodOn c (fun _ => True)

theorem Good.mk' {B} {c : Codec B} (rt : ∀ b rest, c.parse (c.enc b ++ rest) = .ok (b, rest))
    (ne : ∀ b, c.enc b ≠ []) (small : ∀ b, (c.enc b).length < 2 ^ 64) : Good c :=
  ⟨fun b rest _ => rt b rest, fun b _ => ne b, fun b _ => small b⟩

theorem decExpect_keepalive (rest : Bytes) : decExpect majBytes (0x40 :: rest) = .ok (0, rest) := by
  simp [decExpect, decHead, majBytes]

theorem serverFuel_keepalive {B} (c : Codec B) (f : Nat) (rest : Bytes) :
    serverFuel c (f + 1) (0x40 :: rest) = serverFuel c f rest := by
  simp only [serverFuel, decExpect_keepalive]
  simp

theorem serverFuel_frame {B} (c : Codec B) {P : B → Prop} (hg : GoodOn c P) (f : Nat) (b : B) (hb : P b) (rest : Bytes) :
    serverFuel c (f + 1) (frame c b ++ rest) =
      (b :: (serverFuel c f rest).1, (serverFuel c f rest).2) := by
  obtain ⟨h, t, heq, _, _⟩ := encHead_head_ne majBytes (c.enc b).length (by decide)
  have hd : decExpect majBytes (frame c b ++ rest) = .ok ((c.enc b).length, c.enc b ++ rest) := by
    unfold frame
    rw [List.append_assoc]
    exact decExpect_encHead majBytes _ _ (by decide) (hg.small b hb)
  have hform : frame c b ++ rest = h :: (t ++ (c.enc b ++ rest)) := by
    unfold frame; rw [heq]; simp
  rw [hform] at hd ⊢
  simp only [serverFuel, hd]
  have hne : (c.enc b).length ≠ 0 := by
    intro h0; exact hg.ne b hb (List.length_eq_zero_iff.mp h0)
  simp only [hne, ↓reduceIte, hg.rt b rest hb]

theorem frame_length_pos {B} (c : Codec B) (b : B) : 0 < (frame c b).length := by
  obtain ⟨h, t, heq, _, _⟩ := encHead_head_ne majBytes (c.enc b).length (by decide)
  unfold frame; rw [heq]; simp

/-- **mtcp_stream** (fuel form). -/
theorem serverFuel_stream {B} (c : Codec B) {P : B → Prop} (hg : GoodOn c P) (items : List (Item B))
    (hP : ∀ b ∈ bundlesOf items, P b) :
    ∀ f, (items.flatMap (encItem c)).length + 1 ≤ f →
      serverFuel c f (items.flatMap (encItem c)) = (bundlesOf items, .eof) := by
  induction items with
  | nil =>
    intro f hf
    cases f with
    | zero => simp at hf
    | succ f => simp [serverFuel, bundlesOf]
  | cons it items ih =>
    intro f hf
    cases f with
    | zero => simp at hf
    | succ f =>
      cases it with
      | keepalive =>
        simp only [List.flatMap_cons, encItem, keepalive, List.cons_append, List.nil_append, List.length_cons] at hf ⊢
        rw [serverFuel_keepalive, ih (fun b hb => hP b hb) f (by omega)]
        rfl
      | bundle b =>
        simp only [List.flatMap_cons, encItem, List.length_append] at hf ⊢
        have := frame_length_pos c b
        rw [serverFuel_frame c hg f b (hP b (by simp [bundlesOf])),
          ih (fun x hx => hP x (by simp [bundlesOf, hx])) f (by omega)]
        rfl

theorem server_stream_on {B} (c : Codec B) {P : B → Prop} (hg : GoodOn c P) (items : List (Item B))
    (hP : ∀ b ∈ bundlesOf items, P b) :
    server c (items.flatMap (encItem c)) = (bundlesOf items, .eof) :=
  serverFuel_stream c hg items hP _ (Nat.le_refl _)

theorem server_stream {B} (c : Codec B) (hg : Good c) (items : List (Item B)) :
    server c (items.flatMap (encItem c)) = (bundlesOf items, .eof) :=
  server_stream_on c hg items (fun _ _ => trivial)

/-! ### cut connections -/

/-- A strict, non-empty prefix of a head is not a head. -/
theorem decHead_take_encHead (maj n k : Nat) (hm : maj < 8) (hk0 : 0 < k) (hk : k < (encHead maj n).length) :
    ∃ e, decHead ((encHead maj n).take k) = .error e := by
  unfold encHead at hk ⊢
  have key : ∀ (a w : Nat), 24 ≤ a → a ≤ 27 → w = 2 ^ (a - 24) → k < (UInt8.ofNat (maj * 32 + a) :: beBytes w n).length →
      ∃ e, decHead ((UInt8.ofNat (maj * 32 + a) :: beBytes w n).take k) = .error e := by
    intro a w ha1 ha2 hw hlt
    cases k with
    | zero => omega
    | succ k =>
      simp only [List.take_succ_cons, decHead]
      have hb : (UInt8.ofNat (maj * 32 + a)).toNat = maj * 32 + a := toNat_ofNat_lt _ (by omega)
      rw [hb]
      have h1 : maj * 32 + a ≠ 0x9F := by omega
      have h2 : maj * 32 + a ≠ 0xFF := by omega
      have h4 : (maj * 32 + a) % 32 = a := by omega
      have h5 : ¬ a ≤ 23 := by omega
      simp only [h1, h2, h4, h5, ha2, ↓reduceIte, ← hw]
      have hlen : ((beBytes w n).take k).length < w := by
        simp only [List.length_cons, beBytes_length] at hlt
        simp only [List.length_take, beBytes_length]
        omega
      exact ⟨_, if_pos hlen⟩
  by_cases h0 : n < 24
  · simp only [h0, ↓reduceIte, List.length_cons, List.length_nil] at hk
    omega
  · simp only [h0, ↓reduceIte] at hk ⊢
    by_cases h1 : n < 2 ^ 8
    · simp only [h1, ↓reduceIte] at hk ⊢; exact key 24 1 (by omega) (by omega) rfl hk
    · by_cases h2 : n < 2 ^ 16
      · simp only [h1, h2, ↓reduceIte] at hk ⊢; exact key 25 2 (by omega) (by omega) rfl hk
      · by_cases h3 : n < 2 ^ 32
        · simp only [h1, h2, h3, ↓reduceIte] at hk ⊢; exact key 26 4 (by omega) (by omega) rfl hk
        · simp only [h1, h2, h3, ↓reduceIte] at hk ⊢; exact key 27 8 (by omega) (by omega) rfl hk

theorem serverFuel_headErr {B} (c : Codec B) (f : Nat) (bs : Bytes) (hne : bs ≠ [])
    (h : ∃ e, decHead bs = .error e) : (serverFuel c (f + 1) bs).1 = [] := by
  obtain ⟨e, he⟩ := h
  cases bs with
  | nil => exact absurd rfl hne
  | cons b t =>
    simp only [serverFuel, decExpect, he]

/-- **mtcp_prefix** (fuel form): whatever prefix of the stream arrives, the bundles reported are a prefix
of the bundles sent. -/
theorem serverFuel_prefix {B} (c : Codec B) {P : B → Prop} (hg : GoodOn c P)
    (hcut : ∀ b, P b → ∀ k, k < (c.enc b).length → ∀ x, c.parse ((c.enc b).take k) ≠ .ok x)
    (items : List (Item B)) (hP : ∀ b ∈ bundlesOf items, P b) :
    ∀ k f, ((items.flatMap (encItem c)).take k).length + 1 ≤ f →
      (serverFuel c f ((items.flatMap (encItem c)).take k)).1 <+: bundlesOf items := by
  induction items with
  | nil =>
    intro k f hf
    cases f with
    | zero => simp at hf
    | succ f => simp [serverFuel, bundlesOf]
  | cons it items ih =>
    intro k f hf
    cases f with
    | zero => simp at hf
    | succ f =>
      cases it with
      | keepalive =>
        simp only [List.flatMap_cons, encItem, keepalive, List.cons_append, List.nil_append] at hf ⊢
        cases k with
        | zero => simp [serverFuel]
        | succ k =>
          simp only [List.take_succ_cons, List.length_cons] at hf ⊢
          rw [serverFuel_keepalive]
          exact ih (fun b hb => hP b hb) k f (by omega)
      | bundle b =>
        simp only [List.flatMap_cons, encItem] at hf ⊢
        have hPb : P b := hP b (by simp [bundlesOf])
        have hPr : ∀ x ∈ bundlesOf items, P x := fun x hx => hP x (by simp [bundlesOf, hx])
        simp only [bundlesOf]
        have hfr : frame c b = encHead majBytes (c.enc b).length ++ c.enc b := rfl
        have hfl : (frame c b).length = (encHead majBytes (c.enc b).length).length + (c.enc b).length := by
          rw [hfr, List.length_append]
        by_cases hk1 : k < (encHead majBytes (c.enc b).length).length
        · -- cut inside the head
          have ht : (frame c b ++ items.flatMap (encItem c)).take k = (encHead majBytes (c.enc b).length).take k := by
            rw [hfr, List.append_assoc, List.take_append_of_le_length (Nat.le_of_lt hk1)]
          rw [ht]
          by_cases hk0 : k = 0
          · subst hk0; simp [serverFuel]
          · have hne : (encHead majBytes (c.enc b).length).take k ≠ [] := by
              intro hnil
              have := congrArg List.length hnil
              simp only [List.length_take, List.length_nil] at this
              omega
            rw [serverFuel_headErr c f _ hne (decHead_take_encHead majBytes _ k (by decide) (by omega) hk1)]
            exact List.nil_prefix
        · by_cases hk2 : k < (encHead majBytes (c.enc b).length).length + (c.enc b).length
          · -- cut inside the bundle
            have ht : (frame c b ++ items.flatMap (encItem c)).take k =
                encHead majBytes (c.enc b).length ++ (c.enc b).take (k - (encHead majBytes (c.enc b).length).length) := by
              rw [hfr, List.append_assoc, List.take_append, List.take_of_length_le (by omega)]
              congr 1
              rw [List.take_append_of_le_length (by omega)]
            rw [ht]
            obtain ⟨h, t, heq, _, _⟩ := encHead_head_ne majBytes (c.enc b).length (by decide)
            have hd : decExpect majBytes (encHead majBytes (c.enc b).length ++
                (c.enc b).take (k - (encHead majBytes (c.enc b).length).length)) =
                .ok ((c.enc b).length, (c.enc b).take (k - (encHead majBytes (c.enc b).length).length)) :=
              decExpect_encHead majBytes _ _ (by decide) (hg.small b hPb)
            have hcutk := hcut b hPb (k - (encHead majBytes (c.enc b).length).length) (by omega)
            rw [heq] at hd ⊢
            simp only [List.cons_append] at hd ⊢
            simp only [serverFuel, hd]
            have hne : (c.enc b).length ≠ 0 := by
              intro h0; exact hg.ne b hPb (List.length_eq_zero_iff.mp h0)
            simp only [hne, ↓reduceIte]
            rw [heq] at hcutk
            cases hp : c.parse ((c.enc b).take (k - (h :: t).length)) with
            | error e => exact List.nil_prefix
            | ok x => exact absurd hp (hcutk x)
          · -- the whole frame arrived
            have ht : (frame c b ++ items.flatMap (encItem c)).take k =
                frame c b ++ (items.flatMap (encItem c)).take (k - (frame c b).length) := by
              rw [List.take_append, List.take_of_length_le (by omega)]
            rw [ht] at hf ⊢
            rw [serverFuel_frame c hg f b hPb]
            simp only
            have hpos := frame_length_pos c b
            have := ih hPr (k - (frame c b).length) f (by
              simp only [List.length_append] at hf
              omega)
            exact List.cons_prefix_cons.mpr ⟨rfl, this⟩

theorem server_prefix_on {B} (c : Codec B) {P : B → Prop} (hg : GoodOn c P)
    (hcut : ∀ b, P b → ∀ k, k < (c.enc b).length → ∀ x, c.parse ((c.enc b).take k) ≠ .ok x)
    (items : List (Item B)) (hP : ∀ b ∈ bundlesOf items, P b) (k : Nat) :
    (server c ((items.flatMap (encItem c)).take k)).1 <+: bundlesOf items :=
  serverFuel_prefix c hg hcut items hP k _ (Nat.le_refl _)

theorem server_prefix {B} (c : Codec B) (hg : Good c)
    (hcut : ∀ b k, k < (c.enc b).length → ∀ x, c.parse ((c.enc b).take k) ≠ .ok x)
    (items : List (Item B)) (k : Nat) :
    (server c ((items.flatMap (encItem c)).take k)).1 <+: bundlesOf items :=
  server_prefix_on c hg (fun b _ => hcut b) items (fun _ _ => trivial) k

/-- "A truncated encoding is not a value" follows from exact consumption as soon as the parser is
*extension-stable* (what it accepts on a prefix it accepts, with the same result, when more bytes follow):
a successful parse of a strict prefix of `enc b` would extend to a parse of `enc b` that leaves bytes over. -/
theorem cut_of_stable {B} (c : Codec B) {P : B → Prop} (hg : GoodOn c P)
    (hst : ∀ p x r t, c.parse p = .ok (x, r) → c.parse (p ++ t) = .ok (x, r ++ t)) :
    ∀ b, P b → ∀ k, k < (c.enc b).length → ∀ x, c.parse ((c.enc b).take k) ≠ .ok x := by
  intro b hb k hk x hx
  have h1 := hst _ x.1 x.2 ((c.enc b).drop k) hx
  rw [List.take_append_drop] at h1
  have h2 := hg.rt b [] hb
  rw [List.append_nil] at h2
  rw [h2] at h1
  have := (Prod.mk.inj (Except.ok.inj h1)).2
  have hl := congrArg List.length this
  simp only [List.length_nil, List.length_append, List.length_drop] at hl
  omega

end Dtn7.Mtcp.Lemmas
