import Dtn7.Model.EidText
import Dtn7.Lemmas.Cbor

/-! Decimal printing / parsing of natural numbers (`%d`, `strconv.ParseUint`). -/
namespace Dtn7.EidText.Lemmas
open Dtn7.Cbor (Bytes)
open Dtn7.EidText

theorem toDigitsF_indep : ∀ (n f g : Nat), n ≤ f → n ≤ g → toDigitsF f n = toDigitsF g n := by
  intro n
  induction n using Nat.strongRecOn with
  | _ n ih =>
    intro f g hf hg
    cases f with
    | zero =>
      have : n = 0 := by omega
      subst this
      cases g <;> simp [toDigitsF]
    | succ f =>
      cases g with
      | zero =>
        have : n = 0 := by omega
        subst this
        simp [toDigitsF]
      | succ g =>
        simp only [toDigitsF]
        by_cases h : n < 10
        · simp [h]
        · simp only [h, ↓reduceIte]
          rw [ih (n / 10) (by omega) f g (by omega) (by omega)]

theorem toDigits_eq (n : Nat) : toDigits n = if n < 10 then [n] else toDigits (n / 10) ++ [n % 10] := by
  unfold toDigits
  cases n with
  | zero => simp [toDigitsF]
  | succ n =>
    simp only [toDigitsF]
    by_cases h : n + 1 < 10
    · simp [h]
    · simp only [h, ↓reduceIte]
      rw [toDigitsF_indep ((n + 1) / 10) n ((n + 1) / 10) (by omega) (Nat.le_refl _)]

theorem toDigits_small {n : Nat} (h : n < 10) : toDigits n = [n] := by
  rw [toDigits_eq]; simp [h]

theorem toDigits_big {n : Nat} (h : ¬ n < 10) : toDigits n = toDigits (n / 10) ++ [n % 10] := by
  rw [toDigits_eq]; simp [h]

theorem valBE_snoc (l : List Nat) (d : Nat) : valBE (l ++ [d]) = 10 * valBE l + d := by
  simp [valBE, List.foldl_append]

theorem valBE_toDigits (n : Nat) : valBE (toDigits n) = n := by
  induction n using Nat.strongRecOn with
  | _ n ih =>
    by_cases h : n < 10
    · rw [toDigits_small h]; simp [valBE]
    · rw [toDigits_big h, valBE_snoc, ih (n / 10) (by omega)]; omega

theorem toDigits_lt (n : Nat) : ∀ d ∈ toDigits n, d < 10 := by
  induction n using Nat.strongRecOn with
  | _ n ih =>
    by_cases h : n < 10
    · rw [toDigits_small h]; simp [h]
    · rw [toDigits_big h]
      intro d hd
      simp only [List.mem_append, List.mem_singleton] at hd
      rcases hd with hd | hd
      · exact ih (n / 10) (by omega) d hd
      · omega

/-- A positive number prints with a non-zero leading digit. -/
theorem toDigits_head (n : Nat) (hn : 0 < n) : ∃ d t, toDigits n = d :: t ∧ d ≠ 0 := by
  induction n using Nat.strongRecOn with
  | _ n ih =>
    by_cases h : n < 10
    · exact ⟨n, [], toDigits_small h, by omega⟩
    · obtain ⟨d, t, ht, hd⟩ := ih (n / 10) (by omega) (by omega)
      exact ⟨d, t ++ [n % 10], by rw [toDigits_big h, ht]; rfl, hd⟩

theorem toDigits_zero : toDigits 0 = [0] := toDigits_small (by omega)

theorem toDigits_ne_nil (n : Nat) : toDigits n ≠ [] := by
  by_cases h : n < 10
  · rw [toDigits_small h]; simp
  · rw [toDigits_big h]; simp

/-- Appending digits to a positive accumulator appends them to its decimal form. -/
theorem toDigits_foldl (ds : List Nat) : ∀ acc, 0 < acc → (∀ d ∈ ds, d < 10) →
    toDigits (ds.foldl (fun a d => 10 * a + d) acc) = toDigits acc ++ ds := by
  induction ds with
  | nil => intro acc _ _; simp
  | cons d t ih =>
    intro acc hacc hds
    have hd : d < 10 := hds d (by simp)
    simp only [List.foldl_cons]
    rw [ih (10 * acc + d) (by omega) (fun x hx => hds x (by simp [hx]))]
    have hbig : ¬ (10 * acc + d < 10) := by omega
    rw [toDigits_big hbig]
    have h1 : (10 * acc + d) / 10 = acc := by omega
    have h2 : (10 * acc + d) % 10 = d := by omega
    rw [h1, h2]
    simp

/-- **Uniqueness of the decimal form**: a non-empty digit string without a superfluous leading zero is
the printed form of its value. -/
theorem toDigits_valBE (ds : List Nat) (hne : ds ≠ []) (hlt : ∀ d ∈ ds, d < 10)
    (hz : 1 < ds.length → ds.head? ≠ some 0) : toDigits (valBE ds) = ds := by
  cases ds with
  | nil => exact absurd rfl hne
  | cons d0 t =>
    have hd0 : d0 < 10 := hlt d0 (by simp)
    cases t with
    | nil => simp [valBE, toDigits_small hd0]
    | cons d1 t' =>
      have hnz : d0 ≠ 0 := by
        intro h0
        apply hz (by simp)
        simp [h0]
      have : valBE (d0 :: d1 :: t') = (d1 :: t').foldl (fun a d => 10 * a + d) d0 := by
        simp [valBE]
      rw [this, toDigits_foldl (d1 :: t') d0 (by omega) (fun x hx => hlt x (by simp only [List.mem_cons] at hx ⊢; exact Or.inr hx))]
      rw [toDigits_small hd0]
      rfl

/-! ### bytes -/

def digitByte (d : Nat) : UInt8 := UInt8.ofNat (48 + d)
def byteDigit (b : UInt8) : Nat := b.toNat - 48

theorem printDec_eq (n : Nat) : printDec n = (toDigits n).map digitByte := rfl

theorem digitByte_toNat {d : Nat} (h : d < 10) : (digitByte d).toNat = 48 + d := by
  unfold digitByte
  rw [Dtn7.Cbor.Lemmas.toNat_ofNat_lt _ (by omega)]

theorem isDigit_digitByte {d : Nat} (h : d < 10) : isDigit (digitByte d) = true := by
  unfold isDigit
  rw [digitByte_toNat h]
  simp
  omega

theorem byteDigit_digitByte {d : Nat} (h : d < 10) : byteDigit (digitByte d) = d := by
  unfold byteDigit
  rw [digitByte_toNat h]
  omega

theorem digitByte_byteDigit {b : UInt8} (h : isDigit b = true) : digitByte (byteDigit b) = b := by
  unfold isDigit at h
  simp only [Bool.and_eq_true, decide_eq_true_eq] at h
  unfold digitByte byteDigit
  apply UInt8.toNat_inj.mp
  rw [Dtn7.Cbor.Lemmas.toNat_ofNat_lt _ (by omega)]
  omega

theorem byteDigit_lt {b : UInt8} (h : isDigit b = true) : byteDigit b < 10 := by
  unfold isDigit at h
  simp only [Bool.and_eq_true, decide_eq_true_eq] at h
  unfold byteDigit
  omega

theorem printDec_all_digit (n : Nat) : (printDec n).all isDigit = true := by
  rw [printDec_eq, List.all_eq_true]
  intro b hb
  simp only [List.mem_map] at hb
  obtain ⟨d, hd, rfl⟩ := hb
  exact isDigit_digitByte (toDigits_lt n d hd)

theorem printDec_ne_nil (n : Nat) : printDec n ≠ [] := by
  rw [printDec_eq]
  simp [toDigits_ne_nil]

theorem map_byteDigit_printDec (n : Nat) : (printDec n).map (fun b => b.toNat - 48) = toDigits n := by
  rw [printDec_eq, List.map_map]
  have : ∀ d ∈ toDigits n, ((fun b : UInt8 => b.toNat - 48) ∘ digitByte) d = d := by
    intro d hd
    exact byteDigit_digitByte (toDigits_lt n d hd)
  rw [List.map_congr_left this]
  simp

/-- Printing never produces a superfluous leading zero. -/
theorem printDec_no_leading_zero (n : Nat) : ¬ ((printDec n).length > 1 ∧ (printDec n).head? = some 48) := by
  intro ⟨hl, hh⟩
  by_cases hn : n = 0
  · subst hn
    rw [printDec_eq, toDigits_zero] at hl
    simp at hl
  · obtain ⟨d, t, ht, hd⟩ := toDigits_head n (by omega)
    have hdl : d < 10 := toDigits_lt n d (by rw [ht]; simp)
    rw [printDec_eq, ht] at hh
    simp only [List.map_cons, List.head?_cons, Option.some.injEq] at hh
    have := congrArg UInt8.toNat hh
    rw [digitByte_toNat hdl] at this
    simp at this
    omega

/-- **print → parse** (with or without the leading-zero rule). -/
theorem parseDec_printDec (strict : Bool) (n : Nat) : parseDec strict (printDec n) = some n := by
  unfold parseDec
  have h1 : (printDec n).isEmpty = false := by
    cases h : printDec n with
    | nil => exact absurd h (printDec_ne_nil n)
    | cons _ _ => rfl
  have h3 : ¬ ((printDec n).length > 1 ∧ (printDec n).head? = some 48) := printDec_no_leading_zero n
  have h3' : (strict && decide ((printDec n).length > 1) && ((printDec n).head? == some 48)) = false := by
    cases strict with
    | false => simp
    | true =>
      simp only [Bool.true_and, Bool.and_eq_false_iff, decide_eq_false_iff_not, beq_eq_false_iff_ne, ne_eq]
      by_cases hl : (printDec n).length > 1
      · right; intro hh; exact h3 ⟨hl, hh⟩
      · left; exact hl
  simp only [h1, printDec_all_digit, Bool.not_true, Bool.or_false, Bool.false_eq_true, ↓reduceIte, h3']
  rw [map_byteDigit_printDec, valBE_toDigits]

/-- **parse → print** under the leading-zero rule: the only string that parses to `n` is `printDec n`. -/
theorem printDec_of_parseDec (bs : Bytes) (n : Nat) (h : parseDec true bs = some n) : printDec n = bs := by
  unfold parseDec at h
  by_cases h1 : (bs.isEmpty || !bs.all isDigit) = true
  · simp [h1] at h
  · simp only [h1, Bool.false_eq_true, ↓reduceIte] at h
    simp only [Bool.or_eq_true, Bool.not_eq_true', not_or, Bool.not_eq_true, Bool.not_eq_false] at h1
    obtain ⟨hne, hall⟩ := h1
    by_cases h2 : (true && decide (bs.length > 1) && (bs.head? == some 48)) = true
    · rw [if_pos h2] at h
      exact absurd h (by simp)
    · rw [if_neg h2] at h
      simp only [Option.some.injEq] at h
      rw [List.all_eq_true] at hall
      let ds := bs.map (fun b => b.toNat - 48)
      have hds_lt : ∀ d ∈ ds, d < 10 := by
        intro d hd
        simp only [ds, List.mem_map] at hd
        obtain ⟨b, hb, rfl⟩ := hd
        exact byteDigit_lt (hall b hb)
      have hds_ne : ds ≠ [] := by
        simp only [ds, ne_eq, List.map_eq_nil_iff]
        intro hnil; rw [hnil] at hne; simp at hne
      have hz : 1 < ds.length → ds.head? ≠ some 0 := by
        intro hl hh
        apply h2
        simp only [ds, List.length_map] at hl
        simp only [Bool.true_and, Bool.and_eq_true, decide_eq_true_eq, beq_iff_eq]
        refine ⟨hl, ?_⟩
        cases hb : bs with
        | nil => rw [hb] at hl; simp at hl
        | cons b t =>
          simp only [ds, hb, List.map_cons, List.head?_cons, Option.some.injEq] at hh
          have hbd : isDigit b = true := hall b (by rw [hb]; simp)
          have : b = digitByte (byteDigit b) := (digitByte_byteDigit hbd).symm
          simp only [List.head?_cons, Option.some.injEq]
          rw [this]
          unfold byteDigit
          rw [hh]
          rfl
      have := toDigits_valBE ds hds_ne hds_lt hz
      rw [← h, printDec_eq, this]
      simp only [ds, List.map_map]
      have hid : ∀ b ∈ bs, (digitByte ∘ fun b : UInt8 => b.toNat - 48) b = b := by
        intro b hb
        exact digitByte_byteDigit (hall b hb)
      rw [List.map_congr_left hid]
      simp

end Dtn7.EidText.Lemmas
