import Dtn7.Model.Store

/-!
Helper lemmas for C08 (`Dtn7.Props.C08`). Core-only.
-/
namespace Dtn7.Store.Lemmas
open Dtn7.Store

/-! ### Association lists -/
section AList
variable {κ : Type} {α β : Type} [DecidableEq κ]

@[simp] theorem get_nil (k : κ) : get k ([] : List (κ × α)) = none := rfl

theorem get_cons (k k' : κ) (v : α) (r : List (κ × α)) :
    get k ((k', v) :: r) = if k' = k then some v else get k r := rfl

theorem get_put_self (k : κ) (v : α) (l : List (κ × α)) : get k (put k v l) = some v := by
  induction l with
  | nil => simp [put, get_cons]
  | cons e r ih =>
    obtain ⟨k', v'⟩ := e
    by_cases h : k' = k <;> simp [put, get_cons, h, ih]

theorem get_put_ne (k k₂ : κ) (v : α) (l : List (κ × α)) (h : k ≠ k₂) :
    get k₂ (put k v l) = get k₂ l := by
  induction l with
  | nil => simp [put, get_cons, h]
  | cons e r ih =>
    obtain ⟨k', v'⟩ := e
    by_cases h' : k' = k
    · subst h'; simp [put, get_cons, h]
    · simp only [put, h', if_false, get_cons, ih]

theorem get_del_self (k : κ) (l : List (κ × α)) : get k (del k l) = none := by
  induction l with
  | nil => rfl
  | cons e r ih =>
    obtain ⟨k', v'⟩ := e
    by_cases h : k' = k
    · simpa [del, h] using ih
    · simpa [del, h, get_cons] using ih

theorem get_del_ne (k k₂ : κ) (l : List (κ × α)) (h : k ≠ k₂) : get k₂ (del k l) = get k₂ l := by
  induction l with
  | nil => rfl
  | cons e r ih =>
    obtain ⟨k', v'⟩ := e
    by_cases h' : k' = k
    · subst h'
      have : get k₂ (del k' r) = get k₂ r := ih
      simpa [del, get_cons, h] using this
    · have : get k₂ (del k r) = get k₂ r := ih
      simp only [del, List.filter, h', decide_false, Bool.not_false, get_cons] at this ⊢
      rw [this]

theorem get_none_iff (k : κ) (l : List (κ × α)) : get k l = none ↔ k ∉ keys l := by
  induction l with
  | nil => simp [keys]
  | cons e r ih =>
    obtain ⟨k', v'⟩ := e
    by_cases h : k' = k
    · simp [get_cons, keys, h]
    · have h2 : ¬ k = k' := fun e => h e.symm
      simp only [get_cons, h, if_false, ih, keys, List.map_cons, List.mem_cons, h2, false_or]

theorem get_some_mem {k : κ} {v : α} {l : List (κ × α)} (h : get k l = some v) : (k, v) ∈ l := by
  induction l with
  | nil => simp at h
  | cons e r ih =>
    obtain ⟨k', v'⟩ := e
    by_cases h' : k' = k
    · subst h'; simp [get_cons] at h; simp [h]
    · simp only [get_cons, h', if_false] at h
      exact List.mem_cons_of_mem _ (ih h)

theorem get_of_mem {k : κ} {v : α} {l : List (κ × α)} (hn : (keys l).Nodup) (h : (k, v) ∈ l) :
    get k l = some v := by
  induction l with
  | nil => simp at h
  | cons e r ih =>
    obtain ⟨k', v'⟩ := e
    simp only [keys, List.map_cons, List.nodup_cons] at hn
    rcases List.mem_cons.mp h with h | h
    · injection h with h1 h2; subst h1 h2; simp [get_cons]
    · have hk : k ∈ keys r := List.mem_map.mpr ⟨(k, v), h, rfl⟩
      have hne : k' ≠ k := fun e => hn.1 (e ▸ hk)
      simp only [get_cons, hne, if_false]
      exact ih hn.2 h

theorem put_of_get_none {k : κ} (v : α) {l : List (κ × α)} (h : get k l = none) :
    put k v l = l ++ [(k, v)] := by
  induction l with
  | nil => rfl
  | cons e r ih =>
    obtain ⟨k', v'⟩ := e
    by_cases h' : k' = k
    · simp [get_cons, h'] at h
    · simp only [get_cons, h', if_false] at h
      simp [put, h', ih h]

theorem keys_put_of_some {k : κ} (v : α) {l : List (κ × α)} (h : (get k l).isSome) :
    keys (put k v l) = keys l := by
  induction l with
  | nil => simp at h
  | cons e r ih =>
    obtain ⟨k', v'⟩ := e
    by_cases h' : k' = k
    · simp [put, keys, h']
    · simp only [get_cons, h', if_false] at h
      have := ih h
      simp only [keys] at this
      simp [put, keys, h', this]

theorem keys_put_of_none {k : κ} (v : α) {l : List (κ × α)} (h : get k l = none) :
    keys (put k v l) = keys l ++ [k] := by
  rw [put_of_get_none v h]; simp [keys]

theorem keys_del (k : κ) (l : List (κ × α)) : keys (del k l) = (keys l).filter (fun x => !decide (x = k)) := by
  induction l with
  | nil => rfl
  | cons e r ih =>
    obtain ⟨k', v'⟩ := e
    simp only [keys] at ih
    by_cases h : k' = k <;> simp [del, keys, h, List.filter_cons] <;> simpa [del] using ih

theorem nodup_keys_put {k : κ} (v : α) {l : List (κ × α)} (hn : (keys l).Nodup) :
    (keys (put k v l)).Nodup := by
  cases h : get k l with
  | none =>
    rw [keys_put_of_none v h]
    have : k ∉ keys l := (get_none_iff k l).mp h
    exact List.nodup_append.mpr ⟨hn, by simp, by
      intro a ha b hb
      simp only [List.mem_singleton] at hb
      subst hb; intro e; exact this (e ▸ ha)⟩
  | some x =>
    rw [keys_put_of_some v (by simp [h])]; exact hn

theorem nodup_keys_del (k : κ) {l : List (κ × α)} (hn : (keys l).Nodup) : (keys (del k l)).Nodup := by
  rw [keys_del]; exact hn.filter _

theorem map_put_congr (k : κ) (v : α) (l : List (κ × α)) (f g : α → β) (hn : (keys l).Nodup)
    (h : ∀ e ∈ l, e.1 ≠ k → f e.2 = g e.2) :
    (put k v l).map (fun e => (e.1, f e.2)) = put k (f v) (l.map (fun e => (e.1, g e.2))) := by
  induction l with
  | nil => rfl
  | cons e r ih =>
    obtain ⟨k', v'⟩ := e
    simp only [keys, List.map_cons, List.nodup_cons] at hn
    have ih' := ih hn.2 (fun e he => h e (List.mem_cons_of_mem _ he))
    by_cases h' : k' = k
    · subst h'
      simp only [put, if_true, List.map_cons]
      congr 1
      refine List.map_congr_left (fun e he => ?_)
      have hk : e.1 ≠ k' := fun heq => hn.1 (heq ▸ List.mem_map.mpr ⟨e, he, rfl⟩)
      rw [h e (List.mem_cons_of_mem _ he) hk]
    · have := h (k', v') (by simp) h'
      simp only at this
      simp only [put, h', if_false, List.map_cons, ih', this]

theorem map_del (k : κ) (l : List (κ × α)) (f : α → β) :
    (del k l).map (fun e => (e.1, f e.2)) = del k (l.map (fun e => (e.1, f e.2))) := by
  induction l with
  | nil => rfl
  | cons e r ih =>
    obtain ⟨k', v'⟩ := e
    simp only [del] at ih
    by_cases h : k' = k <;> simp [del, List.filter_cons, h, ih]

theorem get_map (k : κ) (l : List (κ × α)) (f : α → β) :
    get k (l.map (fun e => (e.1, f e.2))) = (get k l).map f := by
  induction l with
  | nil => rfl
  | cons e r ih =>
    obtain ⟨k', v'⟩ := e
    by_cases h : k' = k <;> simp [get_cons, h, ih]

theorem keys_map (l : List (κ × α)) (f : α → β) :
    keys (l.map (fun e => (e.1, f e.2))) = keys l := by
  simp [keys, List.map_map, Function.comp_def]

end AList

/-! ### Shape of the state after each plan -/

def removeAll (ns : List Name) (fs : List (Name × Bytes)) : List (Name × Bytes) :=
  ns.foldl (fun fs n => del n fs) fs

theorem runSteps_append (s : State) (a b : List Step) :
    runSteps s (a ++ b) = runSteps (runSteps s a) b := by
  induction a generalizing s with
  | nil => rfl
  | cons x r ih => simp [runSteps, ih]

theorem runSteps_removes (s : State) (ns : List Name) :
    runSteps s (ns.map Step.removeFile) = { s with files := removeAll ns s.files } := by
  induction ns generalizing s with
  | nil => rfl
  | cons n r ih => simp [runSteps, applyStep, ih, removeAll]

theorem get_removeAll_of_not_mem (n : Name) (ns : List Name) (fs : List (Name × Bytes))
    (h : n ∉ ns) : get n (removeAll ns fs) = get n fs := by
  induction ns generalizing fs with
  | nil => rfl
  | cons m r ih =>
    simp only [List.mem_cons, not_or] at h
    simp only [removeAll, List.foldl_cons]
    have := ih (del m fs) h.2
    simp only [removeAll] at this
    rw [this, get_del_ne m n fs (fun e => h.1 e.symm)]

theorem get_removeAll_of_mem (n : Name) (ns : List Name) (fs : List (Name × Bytes))
    (h : n ∈ ns) : get n (removeAll ns fs) = none := by
  induction ns generalizing fs with
  | nil => simp at h
  | cons m r ih =>
    simp only [removeAll, List.foldl_cons]
    by_cases hr : n ∈ r
    · exact ih (del m fs) hr
    · have hm : n = m := by
        rcases List.mem_cons.mp h with h | h
        · exact h
        · exact absurd h hr
      subst hm
      have := get_removeAll_of_not_mem n r (del n fs) hr
      simp only [removeAll] at this
      rw [this, get_del_self]

def writtenFiles (s : State) (b : Bundle) : List (Name × Bytes) :=
  put (partOf b).name (overwrite b.bytes ((get (partOf b).name s.files).getD [])) s.files

theorem exec_push_new (s : State) (b : Bundle) (h : get b.id s.index = none) :
    exec s (.push b) = ⟨put b.id (newItem b) s.index, writtenFiles s b⟩ := by
  simp [exec, plan, h, runSteps, applyStep, writtenFiles]

theorem crash1_push_new (s : State) (b : Bundle) (h : get b.id s.index = none) :
    crash 1 s (.push b) = ⟨s.index, writtenFiles s b⟩ := by
  simp [crash, plan, h, runSteps, applyStep, writtenFiles]

def pushCond (b : Bundle) (it : Item) : Bool :=
  b.frag.isSome && it.fragmented && !(it.parts.any (sameFrag b))

theorem exec_push_frag (s : State) (b : Bundle) (it : Item) (h : get b.id s.index = some it)
    (hc : pushCond b it = true) :
    exec s (.push b) =
      ⟨put b.id { it with parts := it.parts ++ [partOf b] } s.index, writtenFiles s b⟩ := by
  simp only [pushCond] at hc
  simp [exec, plan, h, hc, runSteps, applyStep, writtenFiles]

theorem crash1_push_frag (s : State) (b : Bundle) (it : Item) (h : get b.id s.index = some it)
    (hc : pushCond b it = true) :
    crash 1 s (.push b) = ⟨s.index, writtenFiles s b⟩ := by
  simp only [pushCond] at hc
  simp [crash, plan, h, hc, runSteps, applyStep, writtenFiles]

theorem plan_push_ignored (s : State) (b : Bundle) (it : Item) (h : get b.id s.index = some it)
    (hc : pushCond b it = false) : plan s (.push b) = [] := by
  simp only [pushCond] at hc
  simp [plan, h, hc]

theorem exec_update_some (s : State) (id : Id) (pe : Bool) (ex : Nat) (pr : Props) (it : Item)
    (h : get id s.index = some it) :
    exec s (.update id pe ex pr) =
      ⟨put id { it with pending := pe, expires := ex, props := pr } s.index, s.files⟩ := by
  simp [exec, plan, h, runSteps, applyStep]

theorem plan_update_none (s : State) (id : Id) (pe : Bool) (ex : Nat) (pr : Props)
    (h : get id s.index = none) : plan s (.update id pe ex pr) = [] := by
  simp [plan, h]

theorem plan_delete_none (s : State) (id : Id) (h : get id s.index = none) :
    plan s (.delete id) = [] := by
  simp [plan, h]

/-- State after the index entry and the files `ns` were removed. -/
def deleted (s : State) (id : Id) (ns : List Name) : State := ⟨del id s.index, removeAll ns s.files⟩

theorem crash_delete_some (s : State) (id : Id) (it : Item) (h : get id s.index = some it) (k : Nat) :
    crash (k + 1) s (.delete id) = deleted s id ((it.parts.take k).map (·.name)) := by
  have : (it.parts.map (fun p => Step.removeFile p.name)).take k =
      ((it.parts.take k).map (·.name)).map Step.removeFile := by
    simp [List.map_take, List.map_map, Function.comp_def]
  simp only [crash, plan, h, List.take_succ_cons, runSteps, applyStep, this, runSteps_removes, deleted]

theorem exec_delete_some (s : State) (id : Id) (it : Item) (h : get id s.index = some it) :
    exec s (.delete id) = deleted s id (it.parts.map (·.name)) := by
  have : (it.parts.map (fun p => Step.removeFile p.name)) =
      (it.parts.map (·.name)).map Step.removeFile := by
    simp [List.map_map, Function.comp_def]
  simp only [exec, plan, h, runSteps, applyStep, this, runSteps_removes, deleted]

end Dtn7.Store.Lemmas
