import Dtn7.Model.Store

set_option linter.unusedSimpArgs false
set_option linter.unusedSectionVars false

/-!
Helper lemmas for C08 (`Dtn7.Props.C08`). Core-only.
-/
namespace Dtn7.Store.Lemmas
open Dtn7.Store

/-! ### Association lists -/
section AList
variable {κ : Type} {α β : Type} [DecidableEq κ]

@[simp] theorem get_nil (k : κ) : get k ([] : List (κ × α)) = none := rfl

theorem get_cons (k k' : κ) (v : α) (r : List (κ × α)) :
    get k ((k', v) :: r) = if k' = k then some v else get k r := rfl

theorem get_put_self (k : κ) (v : α) (l : List (κ × α)) : get k (put k v l) = some v := by
  induction l with
  | nil => simp [put, get_cons]
  | cons e r ih =>
    obtain ⟨k', v'⟩ := e
    by_cases h : k' = k <;> simp [put, get_cons, h, ih]

theorem get_put_ne (k k₂ : κ) (v : α) (l : List (κ × α)) (h : k ≠ k₂) :
    get k₂ (put k v l) = get k₂ l := by
  induction l with
  | nil => simp [put, get_cons, h]
  | cons e r ih =>
    obtain ⟨k', v'⟩ := e
    by_cases h' : k' = k
    · subst h'; simp [put, get_cons, h]
    · simp only [put, h', if_false, get_cons, ih]

theorem get_del_self (k : κ) (l : List (κ × α)) : get k (del k l) = none := by
  induction l with
  | nil => rfl
  | cons e r ih =>
    obtain ⟨k', v'⟩ := e
    by_cases h : k' = k
    · simpa [del, h] using ih
    · simpa [del, h, get_cons] using ih

theorem get_del_ne (k k₂ : κ) (l : List (κ × α)) (h : k ≠ k₂) : get k₂ (del k l) = get k₂ l := by
  induction l with
  | nil => rfl
  | cons e r ih =>
    obtain ⟨k', v'⟩ := e
    by_cases h' : k' = k
    · subst h'
      have : get k₂ (del k' r) = get k₂ r := ih
      simpa [del, get_cons, h] using this
    · have : get k₂ (del k r) = get k₂ r := ih
      simp only [del, List.filter, h', decide_false, Bool.not_false, get_cons] at this ⊢
      rw [this]

theorem get_none_iff (k : κ) (l : List (κ × α)) : get k l = none ↔ k ∉ keys l := by
  induction l with
  | nil => simp [keys]
  | cons e r ih =>
    obtain ⟨k', v'⟩ := e
    by_cases h : k' = k
    · simp [get_cons, keys, h]
    · have h2 : ¬ k = k' := fun e => h e.symm
      simp only [get_cons, h, if_false, ih, keys, List.map_cons, List.mem_cons, h2, false_or]

theorem get_some_mem {k : κ} {v : α} {l : List (κ × α)} (h : get k l = some v) : (k, v) ∈ l := by
  induction l with
  | nil => simp at h
  | cons e r ih =>
    obtain ⟨k', v'⟩ := e
    by_cases h' : k' = k
    · subst h'; simp [get_cons] at h; simp [h]
    · simp only [get_cons, h', if_false] at h
      exact List.mem_cons_of_mem _ (ih h)

theorem get_of_mem {k : κ} {v : α} {l : List (κ × α)} (hn : (keys l).Nodup) (h : (k, v) ∈ l) :
    get k l = some v := by
  induction l with
  | nil => simp at h
  | cons e r ih =>
    obtain ⟨k', v'⟩ := e
    simp only [keys, List.map_cons, List.nodup_cons] at hn
    rcases List.mem_cons.mp h with h | h
    · injection h with h1 h2; subst h1 h2; simp [get_cons]
    · have hk : k ∈ keys r := List.mem_map.mpr ⟨(k, v), h, rfl⟩
      have hne : k' ≠ k := fun e => hn.1 (e ▸ hk)
      simp only [get_cons, hne, if_false]
      exact ih hn.2 h

theorem put_of_get_none {k : κ} (v : α) {l : List (κ × α)} (h : get k l = none) :
    put k v l = l ++ [(k, v)] := by
  induction l with
  | nil => rfl
  | cons e r ih =>
    obtain ⟨k', v'⟩ := e
    by_cases h' : k' = k
    · simp [get_cons, h'] at h
    · simp only [get_cons, h', if_false] at h
      simp [put, h', ih h]

theorem keys_put_of_some {k : κ} (v : α) {l : List (κ × α)} (h : (get k l).isSome) :
    keys (put k v l) = keys l := by
  induction l with
  | nil => simp at h
  | cons e r ih =>
    obtain ⟨k', v'⟩ := e
    by_cases h' : k' = k
    · simp [put, keys, h']
    · simp only [get_cons, h', if_false] at h
      have := ih h
      simp only [keys] at this
      simp [put, keys, h', this]

theorem keys_put_of_none {k : κ} (v : α) {l : List (κ × α)} (h : get k l = none) :
    keys (put k v l) = keys l ++ [k] := by
  rw [put_of_get_none v h]; simp [keys]

theorem keys_del (k : κ) (l : List (κ × α)) : keys (del k l) = (keys l).filter (fun x => !decide (x = k)) := by
  induction l with
  | nil => rfl
  | cons e r ih =>
    obtain ⟨k', v'⟩ := e
    simp only [keys] at ih
    by_cases h : k' = k <;> simp [del, keys, h, List.filter_cons] <;> simpa [del] using ih

theorem nodup_keys_put {k : κ} (v : α) {l : List (κ × α)} (hn : (keys l).Nodup) :
    (keys (put k v l)).Nodup := by
  cases h : get k l with
  | none =>
    rw [keys_put_of_none v h]
    have : k ∉ keys l := (get_none_iff k l).mp h
    exact List.nodup_append.mpr ⟨hn, by simp, by
      intro a ha b hb
      simp only [List.mem_singleton] at hb
      subst hb; intro e; exact this (e ▸ ha)⟩
  | some x =>
    rw [keys_put_of_some v (by simp [h])]; exact hn

theorem nodup_keys_del (k : κ) {l : List (κ × α)} (hn : (keys l).Nodup) : (keys (del k l)).Nodup := by
  rw [keys_del]; exact hn.filter _

theorem map_put_congr (k : κ) (v : α) (l : List (κ × α)) (f g : α → β) (hn : (keys l).Nodup)
    (h : ∀ e ∈ l, e.1 ≠ k → f e.2 = g e.2) :
    (put k v l).map (fun e => (e.1, f e.2)) = put k (f v) (l.map (fun e => (e.1, g e.2))) := by
  induction l with
  | nil => rfl
  | cons e r ih =>
    obtain ⟨k', v'⟩ := e
    simp only [keys, List.map_cons, List.nodup_cons] at hn
    have ih' := ih hn.2 (fun e he => h e (List.mem_cons_of_mem _ he))
    by_cases h' : k' = k
    · subst h'
      simp only [put, if_true, List.map_cons]
      congr 1
      refine List.map_congr_left (fun e he => ?_)
      have hk : e.1 ≠ k' := fun heq => hn.1 (heq ▸ List.mem_map.mpr ⟨e, he, rfl⟩)
      rw [h e (List.mem_cons_of_mem _ he) hk]
    · have := h (k', v') (by simp) h'
      simp only at this
      simp only [put, h', if_false, List.map_cons, ih', this]

theorem map_del (k : κ) (l : List (κ × α)) (f : α → β) :
    (del k l).map (fun e => (e.1, f e.2)) = del k (l.map (fun e => (e.1, f e.2))) := by
  induction l with
  | nil => rfl
  | cons e r ih =>
    obtain ⟨k', v'⟩ := e
    simp only [del] at ih
    by_cases h : k' = k <;> simp [del, List.filter_cons, h, ih]

theorem get_map (k : κ) (l : List (κ × α)) (f : α → β) :
    get k (l.map (fun e => (e.1, f e.2))) = (get k l).map f := by
  induction l with
  | nil => rfl
  | cons e r ih =>
    obtain ⟨k', v'⟩ := e
    by_cases h : k' = k <;> simp [get_cons, h, ih]

theorem keys_map (l : List (κ × α)) (f : α → β) :
    keys (l.map (fun e => (e.1, f e.2))) = keys l := by
  simp [keys, List.map_map, Function.comp_def]

theorem put_same {k : κ} {v : α} {l : List (κ × α)} (h : get k l = some v) : put k v l = l := by
  induction l with
  | nil => simp at h
  | cons e r ih =>
    obtain ⟨k', v'⟩ := e
    by_cases h' : k' = k
    · subst h'; simp only [get_cons, if_true, Option.some.injEq] at h; subst h; simp [put]
    · simp only [get_cons, h', if_false] at h
      simp [put, h', ih h]

theorem foldl_del_eq_filter (ks : List κ) (m : List (κ × α)) :
    ks.foldl (fun m k => del k m) m = m.filter (fun e => !decide (e.1 ∈ ks)) := by
  induction ks generalizing m with
  | nil =>
    simp only [List.foldl_nil, List.not_mem_nil, decide_false, Bool.not_false]
    exact (List.filter_eq_self.mpr (fun _ _ => rfl)).symm
  | cons k r ih =>
    simp only [List.foldl_cons]
    rw [ih (del k m)]
    simp only [del, List.filter_filter]
    refine List.filter_congr (fun e _ => ?_)
    by_cases h1 : e.1 = k <;> by_cases h2 : e.1 ∈ r <;> simp [h1, h2]

theorem filter_keys_filter (m : List (κ × α)) (hn : (keys m).Nodup) (p : κ × α → Bool) :
    m.filter (fun e => !decide (e.1 ∈ keys (m.filter p))) = m.filter (fun e => !p e) := by
  refine List.filter_congr (fun e he => ?_)
  congr 1
  by_cases hp : p e = true
  · have : e.1 ∈ keys (m.filter p) := List.mem_map.mpr ⟨e, List.mem_filter.mpr ⟨he, hp⟩, rfl⟩
    simp [this, hp]
  · have : e.1 ∉ keys (m.filter p) := by
      intro hk
      obtain ⟨e', he', hk'⟩ := List.mem_map.mp hk
      have hm := (List.mem_filter.mp he')
      have g1 : get e.1 m = some e'.2 := get_of_mem hn (by rw [← hk']; exact hm.1)
      have g2 : get e.1 m = some e.2 := get_of_mem hn he
      have : e' = e := by
        rw [g1] at g2; injection g2 with g2
        exact Prod.ext hk' g2
      rw [this] at hm; exact hp hm.2
    simp [this, hp]

end AList

/-! ### Shape of the state after each plan -/

section Shape
variable (parse : Bytes → Option Bundle)

def removeAll (ns : List Name) (fs : List (Name × Bytes)) : List (Name × Bytes) :=
  ns.foldl (fun fs n => del n fs) fs

theorem runSteps_append (s : State) (a b : List Step) :
    runSteps s (a ++ b) = runSteps (runSteps s a) b := by
  induction a generalizing s with
  | nil => rfl
  | cons x r ih => simp [runSteps, ih]

theorem runSteps_removes (s : State) (ns : List Name) :
    runSteps s (ns.map Step.removeFile) = { s with files := removeAll ns s.files } := by
  induction ns generalizing s with
  | nil => rfl
  | cons n r ih => simp [runSteps, applyStep, ih, removeAll]

theorem get_removeAll_of_not_mem (n : Name) (ns : List Name) (fs : List (Name × Bytes))
    (h : n ∉ ns) : get n (removeAll ns fs) = get n fs := by
  induction ns generalizing fs with
  | nil => rfl
  | cons m r ih =>
    simp only [List.mem_cons, not_or] at h
    simp only [removeAll, List.foldl_cons]
    have := ih (del m fs) h.2
    simp only [removeAll] at this
    rw [this, get_del_ne m n fs (fun e => h.1 e.symm)]

theorem get_removeAll_of_mem (n : Name) (ns : List Name) (fs : List (Name × Bytes))
    (h : n ∈ ns) : get n (removeAll ns fs) = none := by
  induction ns generalizing fs with
  | nil => simp at h
  | cons m r ih =>
    simp only [removeAll, List.foldl_cons]
    by_cases hr : n ∈ r
    · exact ih (del m fs) hr
    · have hm : n = m := by
        rcases List.mem_cons.mp h with h | h
        · exact h
        · exact absurd h hr
      subst hm
      have := get_removeAll_of_not_mem n r (del n fs) hr
      simp only [removeAll] at this
      rw [this, get_del_self]

def writtenFiles (s : State) (b : Bundle) : List (Name × Bytes) :=
  put (partOf b).name (overwrite b.bytes ((get (partOf b).name s.files).getD [])) s.files

theorem exec_push_new (s : State) (b : Bundle) (h : get b.id s.index = none) :
    exec parse s (.push b) = ⟨put b.id (newItem b) s.index, writtenFiles s b⟩ := by
  simp [exec, plan, h, runSteps, applyStep, writtenFiles]

theorem crash1_push_new (s : State) (b : Bundle) (h : get b.id s.index = none) :
    crash parse 1 s (.push b) = ⟨s.index, writtenFiles s b⟩ := by
  simp [crash, plan, h, runSteps, applyStep, writtenFiles]

def pushCond (b : Bundle) (it : Item) : Bool :=
  b.frag.isSome && it.fragmented && !(it.parts.any (sameFrag b))

theorem exec_push_frag (s : State) (b : Bundle) (it : Item) (h : get b.id s.index = some it)
    (hc : pushCond b it = true) :
    exec parse s (.push b) =
      ⟨put b.id { it with parts := it.parts ++ [partOf b] } s.index, writtenFiles s b⟩ := by
  simp only [pushCond, Bool.and_eq_true, Bool.not_eq_true'] at hc
  simp [exec, plan, h, hc.1.1, hc.1.2, hc.2, runSteps, applyStep, writtenFiles]

theorem crash1_push_frag (s : State) (b : Bundle) (it : Item) (h : get b.id s.index = some it)
    (hc : pushCond b it = true) :
    crash parse 1 s (.push b) = ⟨s.index, writtenFiles s b⟩ := by
  simp only [pushCond, Bool.and_eq_true, Bool.not_eq_true'] at hc
  simp [crash, plan, h, hc.1.1, hc.1.2, hc.2, runSteps, applyStep, writtenFiles]

/-- The pushed fragment's offset and total are already stored. -/
def pushKnown (b : Bundle) (it : Item) : Bool :=
  b.frag.isSome && it.fragmented && it.parts.any (sameFrag b)

/-- The stored fragment loads with a payload at least as long as the pushed one. -/
def keepsStored (s : State) (b : Bundle) : Bool :=
  match loadPart parse s (partOf b) with
  | some st => decide (b.payLen ≤ st.payLen)
  | none => false

theorem plan_push_ignored (s : State) (b : Bundle) (it : Item) (h : get b.id s.index = some it)
    (hc : pushCond b it = false) (hk : pushKnown b it = false) : plan parse s (.push b) = [] := by
  simp only [pushCond, pushKnown] at hc hk
  cases h1 : b.frag.isSome <;> cases h2 : it.fragmented <;> cases h3 : it.parts.any (sameFrag b) <;>
    simp_all [plan]

theorem plan_push_known (s : State) (b : Bundle) (it : Item) (h : get b.id s.index = some it)
    (hk : pushKnown b it = true) :
    plan parse s (.push b) =
      if keepsStored parse s b then [] else replaceSteps (partOf b).name b.bytes := by
  simp only [pushKnown, Bool.and_eq_true] at hk
  simp only [plan, h, hk.1.1, hk.1.2, hk.2, Bool.and_self, if_true]
  unfold keepsStored
  split <;> rename_i hl <;> simp [hl]

theorem pushCond_known_excl (b : Bundle) (it : Item) (hc : pushCond b it = true) :
    pushKnown b it = false := by
  simp only [pushCond, pushKnown, Bool.and_eq_true, Bool.not_eq_true'] at hc ⊢
  simp [hc.2]

/-- Files after `replaceBundle` wrote the temporary file / after it renamed it. -/
def tmpFiles (s : State) (n : Name) (d : Bytes) : List (Name × Bytes) := put (tmpOf n) d s.files
def replacedFiles (s : State) (n : Name) (d : Bytes) : List (Name × Bytes) :=
  put n d (del (tmpOf n) (tmpFiles s n d))

theorem run_replaceSteps (s : State) (n : Name) (d : Bytes) :
    runSteps s (replaceSteps n d) = ⟨s.index, replacedFiles s n d⟩ := by
  simp [replaceSteps, runSteps, applyStep, get_put_self, replacedFiles, tmpFiles]

theorem run_replaceSteps_1 (s : State) (n : Name) (d : Bytes) :
    runSteps s ((replaceSteps n d).take 1) = ⟨s.index, tmpFiles s n d⟩ := by
  simp [replaceSteps, runSteps, applyStep, tmpFiles]

theorem plan_replace_none (s : State) (b : Bundle) (h : get b.id s.index = none) :
    plan parse s (.replace b) = [] := by
  simp [plan, h]

theorem plan_replace_nopart (s : State) (b : Bundle) (it : Item) (h : get b.id s.index = some it)
    (hf : it.parts.find? (sameFrag b) = none) : plan parse s (.replace b) = [] := by
  simp [plan, h, hf]

theorem plan_replace_part (s : State) (b : Bundle) (it : Item) (p : Part)
    (h : get b.id s.index = some it) (hf : it.parts.find? (sameFrag b) = some p) :
    plan parse s (.replace b) = replaceSteps p.name b.bytes := by
  simp [plan, h, hf]

theorem exec_update_some (s : State) (id : Id) (pe : Bool) (ex : Nat) (pr : Props) (it : Item)
    (h : get id s.index = some it) :
    exec parse s (.update id pe ex pr) =
      ⟨put id { it with pending := pe, expires := ex, props := pr } s.index, s.files⟩ := by
  simp [exec, plan, h, runSteps, applyStep]

theorem plan_update_none (s : State) (id : Id) (pe : Bool) (ex : Nat) (pr : Props)
    (h : get id s.index = none) : plan parse s (.update id pe ex pr) = [] := by
  simp [plan, h]

theorem plan_delete_none (s : State) (id : Id) (h : get id s.index = none) :
    plan parse s (.delete id) = [] := by
  simp [plan, h]

/-- State after the index entry and the files `ns` were removed. -/
def deleted (s : State) (id : Id) (ns : List Name) : State := ⟨del id s.index, removeAll ns s.files⟩

theorem crash_delete_some (s : State) (id : Id) (it : Item) (h : get id s.index = some it) (k : Nat) :
    crash parse (k + 1) s (.delete id) = deleted s id ((it.parts.take k).map (·.name)) := by
  have : (it.parts.map (fun p => Step.removeFile p.name)).take k =
      ((it.parts.take k).map (·.name)).map Step.removeFile := by
    simp [List.map_take, List.map_map, Function.comp_def]
  simp only [crash, plan, h, List.take_succ_cons, runSteps, applyStep, this, runSteps_removes, deleted]

theorem exec_delete_some (s : State) (id : Id) (it : Item) (h : get id s.index = some it) :
    exec parse s (.delete id) = deleted s id (it.parts.map (·.name)) := by
  have : (it.parts.map (fun p => Step.removeFile p.name)) =
      (it.parts.map (·.name)).map Step.removeFile := by
    simp [List.map_map, Function.comp_def]
  simp only [exec, plan, h, runSteps, applyStep, this, runSteps_removes, deleted]


end Shape

/-! ### Invariants -/

section Inv
variable (parse : Bytes → Option Bundle)

/-- One index entry is consistent with the files. -/
structure ItemOk (s : State) (id : Id) (it : Item) : Prop where
  /-- a part's file name is derived from the item's id and, for fragments, the part's offset/total -/
  names : ∀ p ∈ it.parts, p.name = ⟨id, if it.fragmented then some (p.off, p.total) else none, false⟩
  /-- each (offset, total) once -/
  nodup : (it.parts.map (fun p => (p.off, p.total))).Nodup
  /-- an unfragmented item has exactly one part -/
  whole : it.fragmented = false → ∃ p, it.parts = [p]
  nonempty : it.parts ≠ []
  /-- the part of an unfragmented item has offset and total 0 -/
  whole0 : it.fragmented = false → ∀ p ∈ it.parts, p.off = 0 ∧ p.total = 0
  /-- fragments have a positive total length -/
  totals : it.fragmented = true → ∀ p ∈ it.parts, 0 < p.total
  /-- every part's file exists and parses to a bundle of this id with this part's offset/total -/
  readable : ∀ p ∈ it.parts, ∃ b, loadPart parse s p = some b ∧ b.id = id ∧ b.frag = p.name.frag

/-- The invariant every reachable state satisfies, *including* states left by a process kill:
the index is a map and every entry is readable. Unreferenced files are allowed. -/
def Inv' (s : State) : Prop :=
  (keys s.index).Nodup ∧ ∀ id it, get id s.index = some it → ItemOk parse s id it

/-- No unreferenced file. -/
def NoOrphans (s : State) : Prop :=
  ∀ n, (get n s.files).isSome → ∃ id it, get id s.index = some it ∧ ∃ p ∈ it.parts, p.name = n

/-- The invariant of states reached without a crash. -/
def Inv (s : State) : Prop := Inv' parse s ∧ NoOrphans s

theorem inv'_empty : Inv' parse State.empty := ⟨by simp [State.empty, keys], by simp [State.empty]⟩

theorem inv_empty : Inv parse State.empty := ⟨inv'_empty parse, by simp [NoOrphans, State.empty]⟩

theorem loadPart_congr {s s' : State} {p : Part} (h : get p.name s'.files = get p.name s.files) :
    loadPart parse s' p = loadPart parse s p := by
  simp [loadPart, h]

theorem absItem_congr {s s' : State} {it : Item}
    (h : ∀ p ∈ it.parts, get p.name s'.files = get p.name s.files) :
    absItem parse s' it = absItem parse s it := by
  simp only [absItem]
  congr 1
  exact List.map_congr_left (fun p hp => by rw [loadPart_congr parse (h p hp)])

/-- Files that differ only on names of bundle `id0` do not matter to items of other ids. -/
theorem ItemOk.frame {s s' : State} {id id0 : Id} {it : Item} (h : ItemOk parse s id it)
    (hne : id ≠ id0) (hf : ∀ n : Name, n.id ≠ id0 → get n s'.files = get n s.files) :
    ItemOk parse s' id it ∧ absItem parse s' it = absItem parse s it := by
  have hp : ∀ p ∈ it.parts, get p.name s'.files = get p.name s.files := by
    intro p hp
    apply hf
    rw [h.names p hp]; exact hne
  refine ⟨⟨h.names, h.nodup, h.whole, h.nonempty, h.whole0, h.totals, ?_⟩, absItem_congr parse hp⟩
  intro p hpm
  obtain ⟨b, hb⟩ := h.readable p hpm
  exact ⟨b, by rw [loadPart_congr parse (hp p hpm)]; exact hb.1, hb.2⟩

theorem get_abs (s : State) (id : Id) :
    get id (abs parse s) = (get id s.index).map (absItem parse s) := by
  simp only [abs]; exact get_map id s.index (absItem parse s)

theorem keys_abs (s : State) : keys (abs parse s) = keys s.index := by
  simp only [abs]; exact keys_map s.index (absItem parse s)

/-- Changing files that no index entry refers to (or not changing the referenced ones) keeps the
invariant and is invisible to readers. -/
theorem files_frame {s : State} (h : Inv' parse s) (fs' : List (Name × Bytes))
    (hf : ∀ id it p, get id s.index = some it → p ∈ it.parts → get p.name fs' = get p.name s.files) :
    Inv' parse ⟨s.index, fs'⟩ ∧ abs parse ⟨s.index, fs'⟩ = abs parse s := by
  refine ⟨⟨h.1, ?_⟩, ?_⟩
  · intro id it hg
    have ok := h.2 id it hg
    refine ⟨ok.names, ok.nodup, ok.whole, ok.nonempty, ok.whole0, ok.totals, ?_⟩
    intro p hp
    obtain ⟨b, hb⟩ := ok.readable p hp
    refine ⟨b, ?_, hb.2⟩
    rw [← hb.1]
    exact loadPart_congr parse (hf id it p hg hp)
  · simp only [abs]
    refine List.map_congr_left (fun e he => ?_)
    have hg : get e.1 s.index = some e.2 := get_of_mem h.1 he
    rw [absItem_congr parse (s := s) (s' := ⟨s.index, fs'⟩) (fun p hp => hf e.1 e.2 p hg hp)]

theorem index_put {s : State} (h : Inv' parse s) (id : Id) (it : Item) (ok : ItemOk parse s id it) :
    Inv' parse ⟨put id it s.index, s.files⟩ ∧
      abs parse ⟨put id it s.index, s.files⟩ = put id (absItem parse s it) (abs parse s) := by
  refine ⟨⟨nodup_keys_put it h.1, ?_⟩, ?_⟩
  · intro id' it' hg
    by_cases hid : id = id'
    · subst hid
      rw [get_put_self] at hg
      injection hg with hg; subst hg
      exact ⟨ok.names, ok.nodup, ok.whole, ok.nonempty, ok.whole0, ok.totals, ok.readable⟩
    · rw [get_put_ne id id' it s.index hid] at hg
      have ok' := h.2 id' it' hg
      exact ⟨ok'.names, ok'.nodup, ok'.whole, ok'.nonempty, ok'.whole0, ok'.totals, ok'.readable⟩
  · simp only [abs]
    exact map_put_congr id it s.index _ _ h.1 (fun e _ _ => rfl)

theorem index_del {s : State} (h : Inv' parse s) (id : Id) :
    Inv' parse ⟨del id s.index, s.files⟩ ∧
      abs parse ⟨del id s.index, s.files⟩ = del id (abs parse s) := by
  refine ⟨⟨nodup_keys_del id h.1, ?_⟩, ?_⟩
  · intro id' it' hg
    by_cases hid : id = id'
    · subst hid; rw [get_del_self] at hg; cases hg
    · rw [get_del_ne id id' s.index hid] at hg
      have ok' := h.2 id' it' hg
      exact ⟨ok'.names, ok'.nodup, ok'.whole, ok'.nonempty, ok'.whole0, ok'.totals, ok'.readable⟩
  · simp only [abs]
    exact map_del id s.index _

/-! ### Push -/

theorem frag_eq (b : Bundle) : b.frag = if b.frag.isSome then some (bOff b, bTotal b) else none := by
  cases h : b.frag with
  | none => rfl
  | some x => simp [bOff, bTotal, h]

theorem written_frame (s : State) (b : Bundle) (n : Name) (h : n ≠ (partOf b).name) :
    get n (writtenFiles s b) = get n s.files := by
  simp only [writtenFiles]
  exact get_put_ne _ _ _ _ (fun e => h e.symm)

theorem load_written {b : Bundle} (hwf : WF parse b) (s : State) (idx : List (Id × Item)) :
    loadPart parse ⟨idx, writtenFiles s b⟩ (partOf b) = some b := by
  simp only [loadPart, writtenFiles, get_put_self, Option.bind_some, overwrite]
  exact hwf.1 _

/-- The file `Push` writes is not referenced by the index at that moment. -/
def PushUnref (s : State) (b : Bundle) : Prop :=
  ∀ id it p, get id s.index = some it → p ∈ it.parts → p.name ≠ (partOf b).name

theorem pushUnref_new {s : State} (h : Inv' parse s) (b : Bundle) (hn : get b.id s.index = none) :
    PushUnref s b := by
  intro id it p hg hp
  have := (h.2 id it hg).names p hp
  intro e
  have hid : id = b.id := by
    have := congrArg Name.id (this.symm.trans e)
    simpa [partOf] using this
  subst hid; rw [hn] at hg; cases hg

theorem pushUnref_frag {s : State} (h : Inv' parse s) (b : Bundle) (it0 : Item)
    (hs : get b.id s.index = some it0) (hc : pushCond b it0 = true) : PushUnref s b := by
  intro id it p hg hp
  have hnm := (h.2 id it hg).names p hp
  intro e
  have hid : id = b.id := by
    have := congrArg Name.id (hnm.symm.trans e)
    simpa [partOf] using this
  subst hid
  rw [hs] at hg; injection hg with hg; subst hg
  simp only [pushCond, Bool.and_eq_true, Bool.not_eq_true', List.any_eq_false] at hc
  have hfr : it0.fragmented = true := hc.1.2
  have hsf := hc.2 p hp
  have hfrag := congrArg Name.frag (hnm.symm.trans e)
  simp only [hfr, if_true, partOf] at hfrag
  rw [frag_eq b, if_pos hc.1.1] at hfrag
  apply hsf
  simp only [sameFrag, fragKey]
  injection hfrag with hfrag
  rw [hfrag]; exact beq_self_eq_true _

/-- After the part file was written (crash point `push:*:file-written`): nothing visible changed. -/
theorem push_written {s : State} (h : Inv' parse s) (b : Bundle) (hu : PushUnref s b) :
    Inv' parse ⟨s.index, writtenFiles s b⟩ ∧ abs parse ⟨s.index, writtenFiles s b⟩ = abs parse s :=
  files_frame parse h _ (fun id it p hg hp => written_frame s b p.name (hu id it p hg hp))

def pushedRecord (b : Bundle) : Record :=
  ⟨b.frag.isSome, [(fragKey b, content b)], false, b.expires, []⟩

theorem bTotal_pos {b : Bundle} (hwf : WF parse b) (h : b.frag.isSome = true) : 0 < bTotal b := by
  cases hf : b.frag with
  | none => simp [hf] at h
  | some x =>
    obtain ⟨o, t⟩ := x
    have := hwf.2 o t hf
    simpa [bTotal, hf] using this

theorem key_zero_of_none {b : Bundle} (h : b.frag.isSome = false) : bOff b = 0 ∧ bTotal b = 0 := by
  cases hf : b.frag with
  | none => simp [bOff, bTotal, hf]
  | some x => simp [hf] at h

theorem itemOk_new {b : Bundle} (hwf : WF parse b) (s : State) (idx : List (Id × Item)) :
    ItemOk parse ⟨idx, writtenFiles s b⟩ b.id (newItem b) where
  names := by
    intro p hp
    simp only [newItem, List.mem_singleton] at hp
    subst hp
    exact congrArg (fun f => Name.mk b.id f false) (frag_eq b)
  nodup := by simp [newItem]
  whole := fun _ => ⟨partOf b, rfl⟩
  nonempty := by simp [newItem]
  whole0 := by
    intro hf p hp
    simp only [newItem, List.mem_singleton] at hp hf
    subst hp
    exact key_zero_of_none hf
  totals := by
    intro hf p hp
    simp only [newItem, List.mem_singleton] at hp hf
    subst hp
    exact bTotal_pos parse hwf hf
  readable := by
    intro p hp
    simp only [newItem, List.mem_singleton] at hp
    subst hp
    exact ⟨b, load_written parse hwf s idx, rfl, rfl⟩

theorem push_new {s : State} (h : Inv' parse s) {b : Bundle} (hwf : WF parse b)
    (hn : get b.id s.index = none) :
    Inv' parse (exec parse s (.push b)) ∧
      abs parse (exec parse s (.push b)) = put b.id (pushedRecord b) (abs parse s) := by
  rw [exec_push_new parse s b hn]
  obtain ⟨h1, a1⟩ := push_written parse h b (pushUnref_new parse h b hn)
  obtain ⟨h2, a2⟩ := index_put parse h1 b.id (newItem b) (itemOk_new parse hwf s s.index)
  refine ⟨h2, ?_⟩
  rw [a2, a1]
  congr 1
  simp only [absItem, newItem, pushedRecord, List.map_cons, List.map_nil,
    load_written parse hwf s s.index, Option.map_some]
  rfl

theorem push_frag {s : State} (h : Inv' parse s) {b : Bundle} (hwf : WF parse b) (it : Item)
    (hs : get b.id s.index = some it) (hc : pushCond b it = true) :
    Inv' parse (exec parse s (.push b)) ∧
      abs parse (exec parse s (.push b)) =
        put b.id { absItem parse s it with
          parts := (absItem parse s it).parts ++ [(fragKey b, content b)] } (abs parse s) := by
  rw [exec_push_frag parse s b it hs hc]
  have hu := pushUnref_frag parse h b it hs hc
  obtain ⟨h1, a1⟩ := push_written parse h b hu
  have ok1 : ItemOk parse ⟨s.index, writtenFiles s b⟩ b.id it := h1.2 b.id it hs
  simp only [pushCond, Bool.and_eq_true, Bool.not_eq_true', List.any_eq_false] at hc
  have hfr : it.fragmented = true := hc.1.2
  have ok2 : ItemOk parse ⟨s.index, writtenFiles s b⟩ b.id
      { it with parts := it.parts ++ [partOf b] } :=
    { names := by
        intro p hp
        simp only [List.mem_append, List.mem_singleton] at hp
        rcases hp with hp | hp
        · exact ok1.names p hp
        · subst hp
          simp only [hfr, if_true, partOf]
          rw [frag_eq b, if_pos hc.1.1]
      nodup := by
        simp only [List.map_append, List.map_cons, List.map_nil]
        refine List.nodup_append.mpr ⟨ok1.nodup, by simp, ?_⟩
        intro a ha c hc'
        simp only [List.mem_singleton] at hc'
        subst hc'
        obtain ⟨p, hp, rfl⟩ := List.mem_map.mp ha
        intro e
        apply hc.2 p hp
        simp only [sameFrag, fragKey, partOf] at e ⊢
        rw [e]; exact beq_self_eq_true _
      whole := fun hf => by simp [hfr] at hf
      nonempty := by simp
      whole0 := fun hf => by simp [hfr] at hf
      totals := by
        intro _ p hp
        simp only [List.mem_append, List.mem_singleton] at hp
        rcases hp with hp | hp
        · exact ok1.totals hfr p hp
        · subst hp; exact bTotal_pos parse hwf hc.1.1
      readable := by
        intro p hp
        simp only [List.mem_append, List.mem_singleton] at hp
        rcases hp with hp | hp
        · exact ok1.readable p hp
        · subst hp
          exact ⟨b, load_written parse hwf s s.index, rfl, rfl⟩ }
  obtain ⟨h2, a2⟩ := index_put parse h1 b.id _ ok2
  refine ⟨h2, ?_⟩
  rw [a2, a1]
  congr 1
  have hold : absItem parse ⟨s.index, writtenFiles s b⟩ it = absItem parse s it :=
    absItem_congr parse (fun p hp => written_frame s b p.name (hu b.id it p hs hp))
  have hl := load_written parse hwf s s.index
  simp only [absItem] at hold ⊢
  simp only [List.map_append, List.map_cons, List.map_nil, hl, Option.map_some]
  injection hold with _ hparts
  rw [hparts]
  rfl

/-! ### Update -/

theorem update_some {s : State} (h : Inv' parse s) (id : Id) (pe : Bool) (ex : Nat) (pr : Props)
    (it : Item) (hs : get id s.index = some it) :
    Inv' parse (exec parse s (.update id pe ex pr)) ∧
      abs parse (exec parse s (.update id pe ex pr)) =
        put id { absItem parse s it with pending := pe, expires := ex, props := pr } (abs parse s) := by
  rw [exec_update_some parse s id pe ex pr it hs]
  have ok := h.2 id it hs
  have ok' : ItemOk parse s id { it with pending := pe, expires := ex, props := pr } :=
    ⟨ok.names, ok.nodup, ok.whole, ok.nonempty, ok.whole0, ok.totals, ok.readable⟩
  obtain ⟨h2, a2⟩ := index_put parse h id _ ok'
  exact ⟨h2, by rw [a2]; rfl⟩

/-! ### Delete -/

theorem delete_frame {s : State} (h : Inv' parse s) (id : Id) (ns : List Name)
    (hns : ∀ n ∈ ns, n.id = id) :
    Inv' parse (deleted s id ns) ∧ abs parse (deleted s id ns) = del id (abs parse s) := by
  obtain ⟨h1, a1⟩ := index_del parse h id
  have := files_frame parse h1 (removeAll ns s.files) (by
    intro id' it' p hg hp
    apply get_removeAll_of_not_mem
    intro hmem
    have hid : id' ≠ id := by
      intro e; subst e
      simp only at hg
      rw [get_del_self] at hg; cases hg
    have hn := (h1.2 id' it' hg).names p hp
    have := hns _ hmem
    rw [hn] at this
    exact hid this)
  exact ⟨this.1, by rw [← a1]; exact this.2⟩

theorem part_names_id {s : State} {id : Id} {it : Item} (ok : ItemOk parse s id it) (ps : List Part)
    (hps : ∀ p ∈ ps, p ∈ it.parts) : ∀ n ∈ ps.map (·.name), n.id = id := by
  intro n hn
  obtain ⟨p, hp, rfl⟩ := List.mem_map.mp hn
  rw [ok.names p (hps p hp)]

theorem delete_some {s : State} (h : Inv' parse s) (id : Id) (it : Item)
    (hs : get id s.index = some it) :
    Inv' parse (exec parse s (.delete id)) ∧ abs parse (exec parse s (.delete id)) = del id (abs parse s) := by
  rw [exec_delete_some parse s id it hs]
  exact delete_frame parse h id _ (part_names_id parse (h.2 id it hs) it.parts (fun _ hp => hp))

theorem delete_crash {s : State} (h : Inv' parse s) (id : Id) (it : Item)
    (hs : get id s.index = some it) (k : Nat) :
    Inv' parse (crash parse (k + 1) s (.delete id)) ∧
      abs parse (crash parse (k + 1) s (.delete id)) = del id (abs parse s) := by
  rw [crash_delete_some parse s id it hs]
  exact delete_frame parse h id _
    (part_names_id parse (h.2 id it hs) (it.parts.take k) (fun _ hp => List.mem_of_mem_take hp))

theorem del_abs_of_none {s : State} (id : Id) (hs : get id s.index = none) :
    del id (abs parse s) = abs parse s := by
  have : id ∉ keys (abs parse s) := by rw [keys_abs]; exact (get_none_iff id s.index).mp hs
  simp only [del]
  apply List.filter_eq_self.mpr
  intro e he
  simp only [Bool.not_eq_true', decide_eq_false_iff_not]
  intro e'; exact this (e' ▸ List.mem_map.mpr ⟨e, he, rfl⟩)

/-! ### Replacing a part file (`replaceBundle`) -/

theorem tmp_frame (s : State) (n : Name) (d : Bytes) (m : Name) (hm : m.tmp = false) :
    get m (tmpFiles s n d) = get m s.files := by
  simp only [tmpFiles]
  exact get_put_ne _ _ _ _ (fun e => by rw [← e] at hm; simp [tmpOf] at hm)

theorem replaced_frame (s : State) (n : Name) (d : Bytes) (m : Name) (hm : m.tmp = false) (hne : m ≠ n) :
    get m (replacedFiles s n d) = get m s.files := by
  have h1 : tmpOf n ≠ m := fun e => by rw [← e] at hm; simp [tmpOf] at hm
  simp only [replacedFiles]
  rw [get_put_ne _ _ _ _ (fun e => hne e.symm), get_del_ne _ _ _ h1, tmp_frame s n d m hm]

theorem replaced_self (s : State) (n : Name) (d : Bytes) : get n (replacedFiles s n d) = some d := by
  simp only [replacedFiles]; exact get_put_self _ _ _

theorem part_not_tmp {s : State} {id : Id} {it : Item} (ok : ItemOk parse s id it) {p : Part}
    (hp : p ∈ it.parts) : p.name.tmp = false := by rw [ok.names p hp]

/-- After the temporary file was written (crash point `replace:tmp-written`): nothing visible changed. -/
theorem tmp_written {s : State} (h : Inv' parse s) (n : Name) (d : Bytes) :
    Inv' parse ⟨s.index, tmpFiles s n d⟩ ∧ abs parse ⟨s.index, tmpFiles s n d⟩ = abs parse s :=
  files_frame parse h _ (fun id it p hg hp => tmp_frame s n d p.name (part_not_tmp parse (h.2 id it hg) hp))

/-- Within the record of `b`'s id, the file named after `b` is the file of the part(s) with `b`'s
offset and total. -/
theorem name_iff_key {s : State} {it : Item} {b : Bundle} (ok : ItemOk parse s b.id it)
    (hflag : b.frag.isSome = it.fragmented) {p : Part} (hp : p ∈ it.parts) :
    p.name = (partOf b).name ↔ (p.off, p.total) = fragKey b := by
  rw [ok.names p hp]
  cases hf : it.fragmented with
  | true =>
    rw [hf] at hflag
    have hb : b.frag = some (bOff b, bTotal b) := by rw [frag_eq b, if_pos hflag]
    simp only [if_true, partOf, fragKey]
    constructor
    · intro e
      injection e with _ e _
      rw [hb] at e; injection e
    · intro e; rw [hb, e]
  | false =>
    rw [hf] at hflag
    have hb : b.frag = none := by
      cases hx : b.frag with
      | none => rfl
      | some x => simp [hx] at hflag
    obtain ⟨h0, h1⟩ := ok.whole0 hf p hp
    obtain ⟨k0, k1⟩ := key_zero_of_none hflag
    simp [partOf, fragKey, hb, h0, h1, k0, k1]

theorem loadPart_name (s : State) (p q : Part) (h : p.name = q.name) :
    loadPart parse s p = loadPart parse s q := by simp [loadPart, h]

theorem parse_self {b : Bundle} (hwf : WF parse b) : parse b.bytes = some b := by
  have := hwf.1 []; simpa using this

/-- The file named after `b` now holds exactly `b`'s bytes, every other referenced file is as it
was: the part(s) with `b`'s offset and total read back as `b`, nothing else changed. -/
theorem replace_frame {s : State} (h : Inv' parse s) (it : Item) (b : Bundle) (hwf : WF parse b)
    (hg : get b.id s.index = some it) (hflag : b.frag.isSome = it.fragmented)
    (fs' : List (Name × Bytes))
    (hfs : ∀ m : Name, m.tmp = false → m ≠ (partOf b).name → get m fs' = get m s.files)
    (hnew : get (partOf b).name fs' = some b.bytes) :
    Inv' parse ⟨s.index, fs'⟩ ∧
      abs parse ⟨s.index, fs'⟩ =
        put b.id { absItem parse s it with
          parts := setPart (fragKey b) (content b) (absItem parse s it).parts } (abs parse s) := by
  have hload : ∀ p : Part, p.name = (partOf b).name → loadPart parse ⟨s.index, fs'⟩ p = some b := by
    intro p hp
    simp only [loadPart, hp, hnew, Option.bind_some]
    exact parse_self parse hwf
  have hother : ∀ id' it' p, get id' s.index = some it' → p ∈ it'.parts → p.name ≠ (partOf b).name →
      loadPart parse ⟨s.index, fs'⟩ p = loadPart parse s p := by
    intro id' it' p hg' hp hne
    exact loadPart_congr parse (hfs p.name (part_not_tmp parse (h.2 id' it' hg') hp) hne)
  refine ⟨⟨h.1, ?_⟩, ?_⟩
  · intro id' it' hg'
    have ok := h.2 id' it' hg'
    refine ⟨ok.names, ok.nodup, ok.whole, ok.nonempty, ok.whole0, ok.totals, ?_⟩
    intro p hp
    by_cases hn : p.name = (partOf b).name
    · have hid : id' = b.id := by
        have := congrArg Name.id ((ok.names p hp).symm.trans hn)
        simpa [partOf] using this
      refine ⟨b, hload p hn, hid.symm, ?_⟩
      rw [hn]; rfl
    · obtain ⟨b', hb'⟩ := ok.readable p hp
      exact ⟨b', by rw [hother id' it' p hg' hp hn]; exact hb'.1, hb'.2⟩
  · have ok := h.2 b.id it hg
    simp only [abs]
    have hidx : s.index.map (fun e => (e.1, absItem parse ⟨s.index, fs'⟩ e.2)) =
        (put b.id it s.index).map (fun e => (e.1, absItem parse ⟨s.index, fs'⟩ e.2)) := by
      rw [put_same hg]
    rw [hidx, map_put_congr b.id it s.index (absItem parse ⟨s.index, fs'⟩) (absItem parse s) h.1]
    · congr 1
      simp only [absItem, setPart, List.map_map]
      congr 1
      refine List.map_congr_left (fun p hp => ?_)
      simp only [Function.comp]
      by_cases hk : (p.off, p.total) = fragKey b
      · rw [if_pos hk, hload p ((name_iff_key parse ok hflag hp).mpr hk), hk]; rfl
      · rw [if_neg hk, hother b.id it p hg hp (fun e => hk ((name_iff_key parse ok hflag hp).mp e))]
    · intro e he hne
      have hg' : get e.1 s.index = some e.2 := get_of_mem h.1 he
      refine absItem_congr parse (fun p hp => ?_)
      apply hfs p.name (part_not_tmp parse (h.2 e.1 e.2 hg') hp)
      intro hn
      have := congrArg Name.id (((h.2 e.1 e.2 hg').names p hp).symm.trans hn)
      exact hne (by simpa [partOf] using this)

theorem replaced_ok {s : State} (h : Inv' parse s) (it : Item) (b : Bundle) (hwf : WF parse b)
    (hg : get b.id s.index = some it) (hflag : b.frag.isSome = it.fragmented) :
    Inv' parse ⟨s.index, replacedFiles s (partOf b).name b.bytes⟩ ∧
      abs parse ⟨s.index, replacedFiles s (partOf b).name b.bytes⟩ =
        put b.id { absItem parse s it with
          parts := setPart (fragKey b) (content b) (absItem parse s it).parts } (abs parse s) :=
  replace_frame parse h it b hwf hg hflag _
    (fun m hm hne => replaced_frame s _ _ m hm hne) (replaced_self s _ _)

theorem absItem_hasKey (s : State) (it : Item) (b : Bundle) :
    hasKey (fragKey b) (absItem parse s it).parts = it.parts.any (sameFrag b) := by
  simp only [hasKey, absItem, List.any_map]
  rfl

/-- The Spec's "the pushed fragment is longer than what reads back" is the code's comparison after
`compPart.Load()`. -/
theorem replaces_abs {s : State} {it : Item} {b : Bundle} (ok : ItemOk parse s b.id it)
    (hflag : b.frag.isSome = it.fragmented) (hany : it.parts.any (sameFrag b) = true) :
    replaces (((absItem parse s it).parts.find? (fun p => p.1 == fragKey b)).bind (·.2)) b =
      !keepsStored parse s b := by
  cases hf : (absItem parse s it).parts.find? (fun p => p.1 == fragKey b) with
  | none =>
    exfalso
    rw [List.find?_eq_none] at hf
    obtain ⟨p, hp, hs⟩ := List.any_eq_true.mp hany
    exact hf _ (List.mem_map.mpr ⟨p, hp, rfl⟩) (by simpa [sameFrag] using hs)
  | some x =>
    have hx := List.mem_of_find?_eq_some hf
    have hpred := List.find?_some hf
    simp only [absItem] at hx
    obtain ⟨p, hp, rfl⟩ := List.mem_map.mp hx
    have hk : (p.off, p.total) = fragKey b := by simpa using hpred
    have hl := loadPart_name parse s p (partOf b) ((name_iff_key parse ok hflag hp).mpr hk)
    simp only [Option.bind_some, hl, keepsStored]
    cases loadPart parse s (partOf b) with
    | none => rfl
    | some st =>
      simp only [Option.map_some, replaces]
      by_cases hle : b.payLen ≤ st.payLen
      · simp [hle, Nat.not_lt.mpr hle]
      · simp [hle, Nat.lt_of_not_le hle]

theorem flag_of_key {s : State} {it : Item} {b : Bundle} (ok : ItemOk parse s b.id it)
    (hwf : WF parse b) {p : Part} (hp : p ∈ it.parts) (hk : (p.off, p.total) = fragKey b) :
    b.frag.isSome = it.fragmented := by
  have ht : p.total = bTotal b := congrArg Prod.snd hk
  cases hf : it.fragmented with
  | true =>
    have := ok.totals hf p hp
    cases hb : b.frag.isSome with
    | true => rfl
    | false => have := (key_zero_of_none hb).2; omega
  | false =>
    have := (ok.whole0 hf p hp).2
    cases hb : b.frag.isSome with
    | false => rfl
    | true => have := bTotal_pos parse hwf hb; omega

/-! ### All operations -/

/-- Pushed / replacing bundles are parseable by the parser in use (and fragments have a positive
total length). -/
def OpWF : Op → Prop
  | .push b => WF parse b
  | .replace b => WF parse b
  | _ => True

def CmdWF : Cmd → Prop
  | .op o => OpWF parse o
  | _ => True

/-- The three cases of a push onto an existing record. -/
theorem push_cases (b : Bundle) (it : Item) :
    pushCond b it = true ∨ pushKnown b it = true ∨ (pushCond b it = false ∧ pushKnown b it = false) := by
  simp only [pushCond, pushKnown]
  cases b.frag.isSome <;> cases it.fragmented <;> cases it.parts.any (sameFrag b) <;> simp

theorem known_flag {b : Bundle} {it : Item} (hk : pushKnown b it = true) :
    b.frag.isSome = it.fragmented ∧ it.parts.any (sameFrag b) = true ∧ b.frag.isSome = true := by
  simp only [pushKnown, Bool.and_eq_true] at hk
  exact ⟨by rw [hk.1.1, hk.1.2], hk.2, hk.1.1⟩

theorem spec_push_some (m : SMap) (b : Bundle) (r : Record) (hg : get b.id m = some r) :
    specStep m (.op (.push b)) =
      if b.frag.isSome && r.fragmented then
        if hasKey (fragKey b) r.parts then
          if replaces ((r.parts.find? (fun p => p.1 == fragKey b)).bind (·.2)) b then
            put b.id { r with parts := setPart (fragKey b) (content b) r.parts } m
          else m
        else put b.id { r with parts := r.parts ++ [(fragKey b, content b)] } m
      else m := by
  simp only [specStep, hg]

theorem find_sameFrag {it : Item} {b : Bundle} {p : Part} (hf : it.parts.find? (sameFrag b) = some p) :
    p ∈ it.parts ∧ (p.off, p.total) = fragKey b :=
  ⟨List.mem_of_find?_eq_some hf, by simpa [sameFrag] using List.find?_some hf⟩

theorem find_none_any {it : Item} {b : Bundle} (hf : it.parts.find? (sameFrag b) = none) :
    it.parts.any (sameFrag b) = false := by
  rw [List.any_eq_false]
  intro p hp
  rw [List.find?_eq_none] at hf
  exact hf p hp

theorem exec_refines {s : State} (h : Inv' parse s) (op : Op) (hw : OpWF parse op) :
    Inv' parse (exec parse s op) ∧ abs parse (exec parse s op) = specStep (abs parse s) (.op op) := by
  cases op with
  | push b =>
    cases hg : get b.id s.index with
    | none =>
      obtain ⟨h1, a1⟩ := push_new parse h hw hg
      refine ⟨h1, ?_⟩
      rw [a1]
      simp only [specStep, get_abs, hg, Option.map_none]
      rfl
    | some it =>
      have hga : get b.id (abs parse s) = some (absItem parse s it) := by simp [get_abs, hg]
      rw [spec_push_some _ b _ hga, absItem_hasKey]
      rcases push_cases b it with hc | hk | ⟨hc, hk⟩
      · obtain ⟨h1, a1⟩ := push_frag parse h hw it hg hc
        refine ⟨h1, ?_⟩
        rw [a1]
        simp only [pushCond, Bool.and_eq_true, Bool.not_eq_true'] at hc
        have hcond : (b.frag.isSome && (absItem parse s it).fragmented) = true := by
          show (b.frag.isSome && it.fragmented) = true
          rw [hc.1.1, hc.1.2]; rfl
        rw [if_pos hcond, hc.2]; rfl
      · obtain ⟨hflag, hany, hfr⟩ := known_flag hk
        have hcond : (b.frag.isSome && (absItem parse s it).fragmented) = true := by
          show (b.frag.isSome && it.fragmented) = true
          rw [← hflag, hfr]; rfl
        rw [if_pos hcond, hany, if_pos rfl, replaces_abs parse (h.2 b.id it hg) hflag hany]
        simp only [exec, plan_push_known parse s b it hg hk]
        cases hks : keepsStored parse s b with
        | true => exact ⟨h, rfl⟩
        | false =>
          show Inv' parse (runSteps s (replaceSteps _ _)) ∧
            abs parse (runSteps s (replaceSteps _ _)) = put _ _ _
          rw [run_replaceSteps]
          exact replaced_ok parse h it b hw hg hflag
      · simp only [exec, plan_push_ignored parse s b it hg hc hk, runSteps]
        refine ⟨h, ?_⟩
        show abs parse s = if (b.frag.isSome && it.fragmented) = true then _ else _
        simp only [pushCond, pushKnown] at hc hk
        cases h1 : b.frag.isSome <;> cases h2 : it.fragmented <;> cases h3 : it.parts.any (sameFrag b) <;>
          simp_all
  | update id pe ex pr =>
    cases hg : get id s.index with
    | none =>
      simp only [exec, plan_update_none parse s id pe ex pr hg, runSteps]
      exact ⟨h, by simp [specStep, get_abs, hg]⟩
    | some it =>
      obtain ⟨h1, a1⟩ := update_some parse h id pe ex pr it hg
      exact ⟨h1, by rw [a1]; simp [specStep, get_abs, hg]⟩
  | delete id =>
    cases hg : get id s.index with
    | none =>
      simp only [exec, plan_delete_none parse s id hg, runSteps]
      exact ⟨h, by simp only [specStep]; rw [del_abs_of_none parse id hg]⟩
    | some it =>
      obtain ⟨h1, a1⟩ := delete_some parse h id it hg
      exact ⟨h1, by rw [a1]; rfl⟩
  | replace b =>
    cases hg : get b.id s.index with
    | none =>
      simp only [exec, plan_replace_none parse s b hg, runSteps]
      exact ⟨h, by simp [specStep, get_abs, hg]⟩
    | some it =>
      have hga : get b.id (abs parse s) = some (absItem parse s it) := by simp [get_abs, hg]
      simp only [specStep, hga, absItem_hasKey]
      cases hf : it.parts.find? (sameFrag b) with
      | none =>
        simp only [exec, plan_replace_nopart parse s b it hg hf, runSteps, find_none_any hf]
        exact ⟨h, rfl⟩
      | some p =>
        obtain ⟨hp, hkey⟩ := find_sameFrag hf
        have ok := h.2 b.id it hg
        have hflag := flag_of_key parse ok hw hp hkey
        have hname := (name_iff_key parse ok hflag hp).mpr hkey
        have hany : it.parts.any (sameFrag b) = true :=
          List.any_eq_true.mpr ⟨p, hp, by simpa [sameFrag] using hkey⟩
        simp only [exec, plan_replace_part parse s b it p hg hf, run_replaceSteps, hany, if_true, hname]
        exact replaced_ok parse h it b hw hg hflag

theorem crash_zero (s : State) (op : Op) : crash parse 0 s op = s := by simp [crash, runSteps]

theorem crash_ge (s : State) (op : Op) (k : Nat) (hk : (plan parse s op).length ≤ k) :
    crash parse k s op = exec parse s op := by
  simp [crash, exec, List.take_of_length_le hk]

/-- A kill after the first micro-step of a two-step plan whose first step only touches unreferenced
files. -/
theorem crash_replaceSteps (s : State) (n : Name) (d : Bytes) (op : Op)
    (hp : plan parse s op = replaceSteps n d) :
    crash parse 1 s op = ⟨s.index, tmpFiles s n d⟩ := by
  simp only [crash, hp, run_replaceSteps_1]

/-- A process kill after any number of micro-steps leaves a consistent store whose visible content
is either the one before the operation or the one after it. -/
theorem crash_cases {s : State} (h : Inv' parse s) (op : Op) (hw : OpWF parse op) (k : Nat) :
    Inv' parse (crash parse k s op) ∧
      (abs parse (crash parse k s op) = abs parse s ∨
        abs parse (crash parse k s op) = abs parse (exec parse s op)) := by
  have hex := exec_refines parse h op hw
  have full : ∀ k, (plan parse s op).length ≤ k → Inv' parse (crash parse k s op) ∧
      (abs parse (crash parse k s op) = abs parse s ∨
        abs parse (crash parse k s op) = abs parse (exec parse s op)) := by
    intro k hk; rw [crash_ge parse s op k hk]; exact ⟨hex.1, Or.inr rfl⟩
  -- plans that are `replaceSteps`: after step 1 only a temporary file exists
  have repl : ∀ n d, plan parse s op = replaceSteps n d → ∀ k, Inv' parse (crash parse (k + 1) s op) ∧
      (abs parse (crash parse (k + 1) s op) = abs parse s ∨
        abs parse (crash parse (k + 1) s op) = abs parse (exec parse s op)) := by
    intro n d hp k
    match k with
    | 0 =>
      rw [crash_replaceSteps parse s n d op hp]
      obtain ⟨h1, a1⟩ := tmp_written parse h n d
      exact ⟨h1, Or.inl a1⟩
    | k + 1 => exact full _ (by simp [hp, replaceSteps])
  match k with
  | 0 => rw [crash_zero]; exact ⟨h, Or.inl rfl⟩
  | k + 1 =>
    cases op with
    | push b =>
      cases hg : get b.id s.index with
      | none =>
        match k with
        | 0 =>
          rw [crash1_push_new parse s b hg]
          obtain ⟨h1, a1⟩ := push_written parse h b (pushUnref_new parse h b hg)
          exact ⟨h1, Or.inl a1⟩
        | k + 1 => exact full _ (by simp [plan, hg])
      | some it =>
        rcases push_cases b it with hc | hk | ⟨hc, hk⟩
        · match k with
          | 0 =>
            rw [crash1_push_frag parse s b it hg hc]
            obtain ⟨h1, a1⟩ := push_written parse h b (pushUnref_frag parse h b it hg hc)
            exact ⟨h1, Or.inl a1⟩
          | k + 1 =>
            refine full _ ?_
            simp only [pushCond, Bool.and_eq_true, Bool.not_eq_true'] at hc
            simp [plan, hg, hc.1.1, hc.1.2, hc.2]
        · have hp := plan_push_known parse s b it hg hk
          cases hks : keepsStored parse s b with
          | true => exact full _ (by rw [hp, hks]; simp)
          | false => exact repl _ _ (by rw [hp, hks]; rfl) k
        · exact full _ (by simp [plan_push_ignored parse s b it hg hc hk])
    | update id pe ex pr =>
      refine full _ ?_
      cases hg : get id s.index <;> simp [plan, hg]
    | delete id =>
      cases hg : get id s.index with
      | none => exact full _ (by simp [plan, hg])
      | some it =>
        obtain ⟨h1, a1⟩ := delete_crash parse h id it hg k
        refine ⟨h1, Or.inr ?_⟩
        rw [a1, (delete_some parse h id it hg).2]
    | replace b =>
      cases hg : get b.id s.index with
      | none => exact full _ (by simp [plan, hg])
      | some it =>
        cases hf : it.parts.find? (sameFrag b) with
        | none => exact full _ (by simp [plan_replace_nopart parse s b it hg hf])
        | some p => exact repl _ _ (plan_replace_part parse s b it p hg hf) k

end Inv

section Inv
variable (parse : Bytes → Option Bundle)

/-! ### Expiry sweep, histories -/

theorem deleteMany {s : State} (h : Inv' parse s) (ids : List Id) :
    Inv' parse (ids.foldl (fun s id => exec parse s (.delete id)) s) ∧
      abs parse (ids.foldl (fun s id => exec parse s (.delete id)) s) =
        ids.foldl (fun m id => del id m) (abs parse s) := by
  induction ids generalizing s with
  | nil => exact ⟨h, rfl⟩
  | cons id r ih =>
    obtain ⟨h1, a1⟩ := exec_refines parse h (.delete id) trivial
    obtain ⟨h2, a2⟩ := ih h1
    refine ⟨h2, ?_⟩
    simp only [List.foldl_cons]
    rw [a2, a1]; rfl

theorem expiredIds_abs (s : State) (now : Nat) :
    expiredIds s now = keys ((abs parse s).filter (fun e => decide (e.2.expires < now))) := by
  simp only [expiredIds, abs, keys, List.filter_map, List.map_map]
  rfl

theorem sweep_refines {s : State} (h : Inv' parse s) (now : Nat) :
    Inv' parse (sweep parse s now) ∧ abs parse (sweep parse s now) = specStep (abs parse s) (.sweep now) := by
  obtain ⟨h1, a1⟩ := deleteMany parse h (expiredIds s now)
  refine ⟨h1, ?_⟩
  simp only [sweep, a1, foldl_del_eq_filter, specStep]
  rw [expiredIds_abs parse s now]
  exact filter_keys_filter (abs parse s) (by rw [keys_abs]; exact h.1) _

theorem step_refines {s : State} (h : Inv' parse s) (c : Cmd) (hw : CmdWF parse c) :
    Inv' parse (step parse s c) ∧ abs parse (step parse s c) = specStep (abs parse s) c := by
  cases c with
  | op o => exact exec_refines parse h o hw
  | sweep now => exact sweep_refines parse h now
  | reopen => exact ⟨h, rfl⟩

theorem run_refines {s : State} (h : Inv' parse s) (cs : List Cmd) (hw : ∀ c ∈ cs, CmdWF parse c) :
    Inv' parse (run parse s cs) ∧ abs parse (run parse s cs) = specRun (abs parse s) cs := by
  induction cs generalizing s with
  | nil => exact ⟨h, rfl⟩
  | cons c r ih =>
    obtain ⟨h1, a1⟩ := step_refines parse h c (hw c (by simp))
    obtain ⟨h2, a2⟩ := ih h1 (fun c hc => hw c (List.mem_cons_of_mem _ hc))
    refine ⟨h2, ?_⟩
    simp only [run, specRun, List.foldl_cons] at a2 ⊢
    rw [a2, a1]

/-! ### No stuck state: every micro-step of every operation succeeds -/

theorem names_nodup {s : State} {id : Id} {it : Item} (ok : ItemOk parse s id it) :
    (it.parts.map (·.name)).Nodup := by
  cases hf : it.fragmented with
  | false =>
    obtain ⟨p, hp⟩ := ok.whole hf
    simp [hp]
  | true =>
    have hnd := ok.nodup
    simp only [List.Nodup, List.pairwise_map] at hnd ⊢
    refine hnd.imp_of_mem ?_
    intro a b ha hb hne e
    rw [ok.names a ha, ok.names b hb] at e
    simp only [hf, if_true] at e
    injection e with _ e
    injection e with e
    exact hne e

theorem stepsOk_removes (idx : List (Id × Item)) (ns : List Name) (fs : List (Name × Bytes))
    (hn : ns.Nodup) (hex : ∀ n ∈ ns, (get n fs).isSome) :
    stepsOk ⟨idx, fs⟩ (ns.map Step.removeFile) = true := by
  induction ns generalizing fs with
  | nil => rfl
  | cons n r ih =>
    simp only [List.nodup_cons] at hn
    simp only [List.map_cons, stepsOk, stepOk, applyStep, Bool.and_eq_true]
    refine ⟨hex n (by simp), ih _ hn.2 ?_⟩
    intro m hm
    have : n ≠ m := fun e => hn.1 (e ▸ hm)
    rw [get_del_ne n m fs this]
    exact hex m (List.mem_cons_of_mem _ hm)

theorem file_exists {s : State} {id : Id} {it : Item} (ok : ItemOk parse s id it) :
    ∀ n ∈ it.parts.map (·.name), (get n s.files).isSome := by
  intro n hn
  obtain ⟨p, hp, rfl⟩ := List.mem_map.mp hn
  obtain ⟨b, hb, _⟩ := ok.readable p hp
  simp only [loadPart] at hb
  cases hg : get p.name s.files with
  | none => simp [hg] at hb
  | some x => rfl

/-- In every state satisfying `Inv'` — in particular in every state a process kill can leave —
every micro-step of every operation succeeds: nothing is stuck, no error is returned. -/
theorem no_stuck {s : State} (h : Inv' parse s) (op : Op) : stepsOk s (plan parse s op) = true := by
  cases op with
  | push b =>
    cases hg : get b.id s.index with
    | none => simp [plan, hg, stepsOk, stepOk, applyStep]
    | some it =>
      rcases push_cases b it with hc | hk | ⟨hc, hk⟩
      · simp only [pushCond, Bool.and_eq_true, Bool.not_eq_true'] at hc
        simp [plan, hg, hc.1.1, hc.1.2, hc.2, stepsOk, stepOk, applyStep]
      · rw [plan_push_known parse s b it hg hk]
        cases keepsStored parse s b <;>
          simp [stepsOk, stepOk, applyStep, replaceSteps, get_put_self]
      · simp [plan_push_ignored parse s b it hg hc hk, stepsOk]
  | replace b =>
    cases hg : get b.id s.index with
    | none => simp [plan, hg, stepsOk]
    | some it =>
      cases hf : it.parts.find? (sameFrag b) with
      | none => simp [plan_replace_nopart parse s b it hg hf, stepsOk]
      | some p =>
        simp [plan_replace_part parse s b it p hg hf, stepsOk, stepOk, applyStep, replaceSteps,
          get_put_self]
  | update id pe ex pr =>
    cases hg : get id s.index <;> simp [plan, hg, stepsOk, stepOk]
  | delete id =>
    cases hg : get id s.index with
    | none => simp [plan, hg, stepsOk]
    | some it =>
      have ok := h.2 id it hg
      have : (it.parts.map (fun p => Step.removeFile p.name)) =
          (it.parts.map (·.name)).map Step.removeFile := by
        simp [List.map_map, Function.comp_def]
      simp only [plan, hg, stepsOk, stepOk, Option.isSome_some, Bool.true_and, applyStep, this]
      exact stepsOk_removes _ _ _ (names_nodup parse ok) (file_exists parse ok)

/-! ### Complete operations leave no unreferenced file -/

theorem noOrphans_replaced {s : State} (ho : NoOrphans s) (id : Id) (it : Item)
    (hg : get id s.index = some it) (p : Part) (hp : p ∈ it.parts) (n : Name) (hn : n = p.name)
    (d : Bytes) : NoOrphans ⟨s.index, replacedFiles s n d⟩ := by
  intro m hm
  by_cases hmn : m = n
  · exact ⟨id, it, hg, p, hp, by rw [hmn, hn]⟩
  · by_cases hmt : m = tmpOf n
    · subst hmt
      simp only [replacedFiles] at hm
      rw [get_put_ne _ _ _ _ (fun e => hmn e.symm), get_del_self] at hm
      cases hm
    · simp only [replacedFiles, tmpFiles] at hm
      rw [get_put_ne _ _ _ _ (fun e => hmn e.symm), get_del_ne _ _ _ (fun e => hmt e.symm),
        get_put_ne _ _ _ _ (fun e => hmt e.symm)] at hm
      exact ho m hm

theorem noOrphans_exec {s : State} (h : Inv' parse s) (ho : NoOrphans s) (op : Op) :
    NoOrphans (exec parse s op) := by
  cases op with
  | push b =>
    cases hg : get b.id s.index with
    | none =>
      rw [exec_push_new parse s b hg]
      intro n hn
      by_cases hnn : n = (partOf b).name
      · exact ⟨b.id, newItem b, get_put_self _ _ _, partOf b, by simp [newItem], hnn.symm⟩
      · rw [written_frame s b n hnn] at hn
        obtain ⟨id, it, hgi, hp⟩ := ho n hn
        have : b.id ≠ id := by intro e; subst e; rw [hg] at hgi; cases hgi
        exact ⟨id, it, by simp only; rw [get_put_ne _ _ _ _ this]; exact hgi, hp⟩
    | some it0 =>
      cases hc : pushCond b it0 with
      | true =>
        rw [exec_push_frag parse s b it0 hg hc]
        intro n hn
        by_cases hnn : n = (partOf b).name
        · exact ⟨b.id, _, get_put_self _ _ _, partOf b, by simp, hnn.symm⟩
        · rw [written_frame s b n hnn] at hn
          obtain ⟨id, it, hgi, p, hp, hpn⟩ := ho n hn
          by_cases hid : b.id = id
          · subst hid
            rw [hg] at hgi; injection hgi with hgi; subst hgi
            exact ⟨b.id, _, get_put_self _ _ _, p, by simp [hp], hpn⟩
          · exact ⟨id, it, by simp only; rw [get_put_ne _ _ _ _ hid]; exact hgi, p, hp, hpn⟩
      | false =>
        cases hk : pushKnown b it0 with
        | false => simp only [exec, plan_push_ignored parse s b it0 hg hc hk, runSteps]; exact ho
        | true =>
          simp only [exec, plan_push_known parse s b it0 hg hk]
          cases keepsStored parse s b with
          | true => exact ho
          | false =>
            show NoOrphans (runSteps s (replaceSteps _ _))
            rw [run_replaceSteps]
            obtain ⟨_, hany, _⟩ := known_flag hk
            obtain ⟨p, hp, hs⟩ := List.any_eq_true.mp hany
            have hkey : (p.off, p.total) = fragKey b := by simpa [sameFrag] using hs
            have ok := h.2 b.id it0 hg
            have hname := (name_iff_key parse ok (known_flag hk).1 hp).mpr hkey
            exact noOrphans_replaced ho b.id it0 hg p hp _ hname.symm _
  | replace b =>
    cases hg : get b.id s.index with
    | none => simp only [exec, plan_replace_none parse s b hg, runSteps]; exact ho
    | some it0 =>
      cases hf : it0.parts.find? (sameFrag b) with
      | none => simp only [exec, plan_replace_nopart parse s b it0 hg hf, runSteps]; exact ho
      | some p =>
        simp only [exec, plan_replace_part parse s b it0 p hg hf, run_replaceSteps]
        exact noOrphans_replaced ho b.id it0 hg p (find_sameFrag hf).1 _ rfl _
  | update id pe ex pr =>
    cases hg : get id s.index with
    | none => simp only [exec, plan_update_none parse s id pe ex pr hg, runSteps]; exact ho
    | some it0 =>
      rw [exec_update_some parse s id pe ex pr it0 hg]
      intro n hn
      obtain ⟨id', it, hgi, p, hp, hpn⟩ := ho n hn
      by_cases hid : id = id'
      · subst hid
        rw [hg] at hgi; injection hgi with hgi; subst hgi
        exact ⟨id, _, get_put_self _ _ _, p, hp, hpn⟩
      · exact ⟨id', it, by simp only; rw [get_put_ne _ _ _ _ hid]; exact hgi, p, hp, hpn⟩
  | delete id =>
    cases hg : get id s.index with
    | none => simp only [exec, plan_delete_none parse s id hg, runSteps]; exact ho
    | some it0 =>
      rw [exec_delete_some parse s id it0 hg]
      intro n hn
      simp only [deleted] at hn
      by_cases hmem : n ∈ it0.parts.map (·.name)
      · rw [get_removeAll_of_mem n _ _ hmem] at hn; cases hn
      · rw [get_removeAll_of_not_mem n _ _ hmem] at hn
        obtain ⟨id', it, hgi, p, hp, hpn⟩ := ho n hn
        have hid : id ≠ id' := by
          intro e; subst e
          rw [hg] at hgi; injection hgi with hgi; subst hgi
          exact hmem (List.mem_map.mpr ⟨p, hp, hpn⟩)
        exact ⟨id', it, by simp only [deleted]; rw [get_del_ne _ _ _ hid]; exact hgi, p, hp, hpn⟩

theorem inv_exec {s : State} (h : Inv parse s) (op : Op) (hw : OpWF parse op) : Inv parse (exec parse s op) :=
  ⟨(exec_refines parse h.1 op hw).1, noOrphans_exec parse h.1 h.2 op⟩

theorem inv_step {s : State} (h : Inv parse s) (c : Cmd) (hw : CmdWF parse c) : Inv parse (step parse s c) := by
  cases c with
  | op o => exact inv_exec parse h o hw
  | sweep now =>
    simp only [step, sweep]
    generalize expiredIds s now = ids
    induction ids generalizing s with
    | nil => exact h
    | cons id r ih => exact ih (inv_exec parse h (.delete id) trivial)
  | reopen => exact h

theorem inv_run {s : State} (h : Inv parse s) (cs : List Cmd) (hw : ∀ c ∈ cs, CmdWF parse c) :
    Inv parse (run parse s cs) := by
  induction cs generalizing s with
  | nil => exact h
  | cons c r ih =>
    exact ih (inv_step parse h c (hw c (by simp))) (fun c hc => hw c (List.mem_cons_of_mem _ hc))

end Inv

end Dtn7.Store.Lemmas
