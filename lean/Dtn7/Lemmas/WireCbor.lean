import Dtn7.Model.WireCbor
import Dtn7.Lemmas.Wire
import Dtn7.Lemmas.EidText

/-! Round trips with exact consumption for the CBOR-based formats. -/
namespace Dtn7.WireCbor.Lemmas
open Dtn7.Cbor (Bytes encArray encUInt encText encBytes decArray decUInt decText decBytes maxInt32 decHead encHead
  majUInt majText readRaw)
open Dtn7.Cbor.Lemmas
open Dtn7.Wire Dtn7.Wire.Lemmas Dtn7.EidText Dtn7.EidText.Lemmas Dtn7.WireCbor

/-! ### endpoint, CBOR form -/

theorem decEid_encEid (e : Eid) (rest : Bytes) (hc : CborCanonical e) :
    decEid (encEid e ++ rest) = .ok (e, rest) := by
  obtain ⟨hv, hl⟩ := hc
  cases e with
  | none =>
    unfold decEid encEid
    simp only [List.append_assoc]
    rw [decArray_encArray 2 _ (by omega)]
    simp only [ne_eq, not_true_eq_false, ↓reduceIte]
    rw [decUInt_encUInt 1 _ (by omega)]
    simp only [↓reduceIte]
    rw [show encUInt 0 = encHead majUInt 0 from rfl, decHead_encHead majUInt 0 rest (by decide) (by omega)]
    simp
  | dtn node demux =>
    unfold decEid encEid
    simp only [List.append_assoc]
    rw [decArray_encArray 2 _ (by omega)]
    simp only [ne_eq, not_true_eq_false, ↓reduceIte]
    rw [decUInt_encUInt 1 _ (by omega)]
    simp only [↓reduceIte]
    have hlen : ([cSlash, cSlash] ++ (node ++ ([cSlash] ++ demux))).length ≤ maxInt32 := by
      simp only [List.length_append, List.length_cons, List.length_nil] at hl ⊢
      omega
    unfold encText
    rw [List.append_assoc, decHead_encHead majText _ _ (by decide) (by unfold maxInt32 at hlen; omega)]
    have hmt : (majText = majUInt) = False := by decide
    simp only [hmt, ↓reduceIte]
    rw [readRaw_append _ rest hlen]
    simp only
    have hnone : ([cSlash, cSlash] ++ (node ++ ([cSlash] ++ demux))) ≠ sNone := by simp [cSlash, sNone]
    simp only [hnone, ↓reduceIte]
    have := parseDtnSsp_print node demux hv.1 hv.2.1 hv.2.2
    simp only [List.append_assoc] at this
    rw [this]
  | ipn n s =>
    unfold decEid encEid
    simp only [List.append_assoc]
    rw [decArray_encArray 2 _ (by omega)]
    simp only [ne_eq, not_true_eq_false, ↓reduceIte]
    rw [decUInt_encUInt 2 _ (by omega)]
    have h21 : (2 = 1) = False := by decide
    simp only [h21, ↓reduceIte]
    rw [decArray_encArray 2 _ (by omega)]
    simp only [ne_eq, not_true_eq_false, ↓reduceIte]
    rw [decUInt_encUInt n _ hv.2.1]
    simp only
    rw [decUInt_encUInt s _ hv.2.2.2]

theorem encEid_ne_nil (e : Eid) : encEid e ≠ [] := by
  cases e <;> simp [encEid, encArray, encHead]

/-! ### creation timestamp -/

theorem decTs_encTs (t : Ts) (rest : Bytes) (hc : TsCanonical t) : decTs (encTs t ++ rest) = .ok (t, rest) := by
  unfold decTs encTs
  simp only [List.append_assoc]
  rw [decArray_encArray 2 _ (by omega)]
  simp only [ne_eq, not_true_eq_false, ↓reduceIte]
  rw [decUInt_encUInt _ _ hc.1]
  simp only
  rw [decUInt_encUInt _ _ hc.2]

/-! ### bundle ID -/

theorem decBundleId_enc (b : BundleId) (rest : Bytes) (hc : BundleIdCanonical b) :
    decBundleId b.isFrag (encBundleId b ++ rest) = .ok (b, rest) := by
  obtain ⟨he, ht, hf⟩ := hc
  unfold decBundleId encBundleId
  simp only [List.append_assoc]
  rw [decEid_encEid _ _ he]
  simp only
  rw [decTs_encTs _ _ ht]
  simp only
  cases b with
  | mk src ts isFrag off total =>
    cases isFrag with
    | true =>
      simp only [↓reduceIte] at hf ⊢
      simp only [List.append_assoc]
      rw [decUInt_encUInt _ _ hf.1]
      simp only
      rw [decUInt_encUInt _ _ hf.2]
    | false =>
      simp only [Bool.false_eq_true, ↓reduceIte] at hf ⊢
      obtain ⟨h1, h2⟩ := hf
      subst h1; subst h2
      simp

/-! ### status item, status report -/

theorem decBool_encBool (b : Bool) (rest : Bytes) : decBool (encBool b ++ rest) = .ok (b, rest) := by
  cases b <;> rfl

theorem decItem_encItem (i : StatusItem) (rest : Bytes) (hc : ItemCanonical i) :
    decItem (encItem i ++ rest) = .ok (i, rest) := by
  obtain ⟨ht, hra, hrt⟩ := hc
  cases i with
  | mk a t r =>
    simp only at ht hra hrt
    unfold decItem encItem
    cases r with
    | true =>
      have ha : a = true := hra rfl
      subst ha
      simp only [Bool.and_self, ↓reduceIte, List.append_assoc]
      rw [decArray_encArray 2 _ (by omega)]
      have : ¬ ((2 : Nat) ≠ 1 ∧ (2 : Nat) ≠ 2) := by omega
      simp only [this, ↓reduceIte]
      rw [decBool_encBool]
      simp only [↓reduceIte]
      rw [decUInt_encUInt _ _ ht]
    | false =>
      have ht0 : t = 0 := hrt rfl
      subst ht0
      simp only [Bool.and_false, Bool.false_eq_true, ↓reduceIte, List.append_assoc]
      rw [decArray_encArray 1 _ (by omega)]
      have : ¬ ((1 : Nat) ≠ 1 ∧ (1 : Nat) ≠ 2) := by omega
      simp only [this, ↓reduceIte]
      rw [decBool_encBool]
      have h12 : ((1 : Nat) = 2) = False := by decide
      simp only [h12, ↓reduceIte]

/-- Reading `n` values back from the concatenation of `n` encodings. -/
theorem decN_flatMap {α} (enc : α → Bytes) (dec : Bytes → Except Err (α × Bytes)) (C : α → Prop)
    (rt : ∀ v rest, C v → dec (enc v ++ rest) = .ok (v, rest))
    (vs : List α) (hC : ∀ v ∈ vs, C v) (rest : Bytes) :
    decN dec vs.length (vs.flatMap enc ++ rest) = .ok (vs, rest) := by
  induction vs with
  | nil => simp [decN]
  | cons v vs ih =>
    simp only [List.length_cons, List.flatMap_cons, List.append_assoc, decN]
    rw [rt v _ (hC v (by simp))]
    simp only
    rw [ih (fun w hw => hC w (by simp [hw]))]

theorem decReport_encReport (s : StatusReport) (rest : Bytes) (hc : ReportCanonical s) :
    decReport (encReport s ++ rest) = .ok (s, rest) := by
  obtain ⟨hi, hl, hr, hb⟩ := hc
  unfold decReport encReport
  simp only [List.append_assoc]
  have hcases : s.ref.isFrag = true ∨ s.ref.isFrag = false := by cases s.ref.isFrag <;> simp
  rcases hcases with hf | hf
  · simp only [hf, ↓reduceIte]
    rw [decArray_encArray 6 _ (by omega)]
    have : ¬ ((6 : Nat) ≠ 4 ∧ (6 : Nat) ≠ 6) := by omega
    simp only [this, ↓reduceIte]
    rw [decArray_encArray _ _ hl]
    simp only
    rw [decN_flatMap encItem decItem ItemCanonical decItem_encItem s.items hi]
    simp only
    rw [decUInt_encUInt _ _ hr]
    simp only [decide_true]
    have := decBundleId_enc s.ref rest hb
    rw [hf] at this
    rw [this]
  · simp only [hf, Bool.false_eq_true, ↓reduceIte]
    rw [decArray_encArray 4 _ (by omega)]
    have : ¬ ((4 : Nat) ≠ 4 ∧ (4 : Nat) ≠ 6) := by omega
    simp only [this, ↓reduceIte]
    rw [decArray_encArray _ _ hl]
    simp only
    rw [decN_flatMap encItem decItem ItemCanonical decItem_encItem s.items hi]
    simp only
    rw [decUInt_encUInt _ _ hr]
    have h46 : ((4 : Nat) = 6) = False := by decide
    simp only [h46, decide_false]
    have := decBundleId_enc s.ref rest hb
    rw [hf] at this
    rw [this]

theorem decAdmin_encAdmin (s : StatusReport) (rest : Bytes) (hc : ReportCanonical s) :
    decAdmin (encAdmin s ++ rest) = .ok (s, rest) := by
  unfold decAdmin encAdmin
  simp only [List.append_assoc]
  rw [decArray_encArray 2 _ (by omega)]
  simp only [ne_eq, not_true_eq_false, ↓reduceIte]
  rw [decUInt_encUInt _ _ (by unfold adminStatusReport; omega)]
  simp only [↓reduceIte]
  exact decReport_encReport s rest hc

/-! ### announcements -/

theorem decAnn_encAnn (a : Announcement) (rest : Bytes) (hc : AnnCanonical a) :
    decAnn (encAnn a ++ rest) = .ok (a, rest) := by
  obtain ⟨hcl, he, hp⟩ := hc
  unfold decAnn encAnn
  simp only [List.append_assoc]
  rw [decArray_encArray 3 _ (by omega)]
  simp only [ne_eq, not_true_eq_false, ↓reduceIte]
  have hcla : a.cla < 2 ^ 64 := by
    have : a.cla ∈ claTypes := by simpa using hcl
    simp only [claTypes, List.mem_cons, List.mem_nil_iff, or_false] at this
    omega
  rw [decUInt_encUInt _ _ hcla]
  simp only [hcl, Bool.not_true, Bool.false_eq_true, ↓reduceIte]
  rw [decEid_encEid _ _ he]
  simp only
  rw [decUInt_encUInt _ _ hp]

theorem decAnns_encAnns (as : List Announcement) (rest : Bytes) (hc : ∀ a ∈ as, AnnCanonical a)
    (hl : as.length < 2 ^ 64) : decAnns (encAnns as ++ rest) = .ok (as, rest) := by
  unfold decAnns encAnns
  simp only [List.append_assoc]
  rw [decArray_encArray _ _ hl]
  simp only
  exact decN_flatMap encAnn decAnn AnnCanonical decAnn_encAnn as hc rest

/-! ### WebSocket agent messages -/

theorem decWam_encWam (w : Wam) (rest : Bytes) (hc : WamCanonical w) : decWam (encWam w ++ rest) = .ok (w, rest) := by
  cases w with
  | status m =>
    unfold decWam encWam
    simp only [List.append_assoc]
    rw [decArray_encArray 2 _ (by omega)]
    simp only [ne_eq, not_true_eq_false, ↓reduceIte]
    rw [decUInt_encUInt _ _ (by unfold wamStatus; omega)]
    simp only [↓reduceIte]
    rw [decText_encText m rest hc]
  | register m =>
    unfold decWam encWam
    simp only [List.append_assoc]
    rw [decArray_encArray 2 _ (by omega)]
    simp only [ne_eq, not_true_eq_false, ↓reduceIte]
    rw [decUInt_encUInt _ _ (by unfold wamRegister; omega)]
    have h1 : (wamRegister = wamStatus) = False := by decide
    simp only [h1, ↓reduceIte]
    rw [decText_encText m rest hc]
  | syscallRequest m =>
    unfold decWam encWam
    simp only [List.append_assoc]
    rw [decArray_encArray 2 _ (by omega)]
    simp only [ne_eq, not_true_eq_false, ↓reduceIte]
    rw [decUInt_encUInt _ _ (by unfold wamSyscallRequest; omega)]
    have h1 : (wamSyscallRequest = wamStatus) = False := by decide
    have h2 : (wamSyscallRequest = wamRegister) = False := by decide
    simp only [h1, h2, ↓reduceIte]
    rw [decText_encText m rest hc]
  | syscallResponse q r =>
    unfold decWam encWam
    simp only [List.append_assoc]
    rw [decArray_encArray 2 _ (by omega)]
    simp only [ne_eq, not_true_eq_false, ↓reduceIte]
    rw [decUInt_encUInt _ _ (by unfold wamSyscallResponse; omega)]
    have h1 : (wamSyscallResponse = wamStatus) = False := by decide
    have h2 : (wamSyscallResponse = wamRegister) = False := by decide
    have h3 : (wamSyscallResponse = wamSyscallRequest) = False := by decide
    simp only [h1, h2, h3, ↓reduceIte]
    rw [decArray_encArray 2 _ (by omega)]
    simp only [ne_eq, not_true_eq_false, ↓reduceIte]
    rw [decText_encText q _ hc.1]
    simp only
    rw [decBytes_encBytes r rest hc.2]

theorem encWam_ne_nil (w : Wam) : encWam w ≠ [] := by
  cases w <;> simp [encWam, encArray, encHead]

theorem encTs_ne_nil (t : Ts) : encTs t ≠ [] := by simp [encTs, encArray, encHead]
theorem encAnn_ne_nil (a : Announcement) : encAnn a ≠ [] := by simp [encAnn, encArray, encHead]
theorem encAdmin_ne_nil (s : StatusReport) : encAdmin s ≠ [] := by simp [encAdmin, encArray, encHead]

end Dtn7.WireCbor.Lemmas
