/-
C13: what the replicating algorithms choose and how they keep their books.
Function-level facts about `SenderForBundle` / `ReportFailure` / the sensor-mule filter for every
algorithm and any number of peers.
-/
import Dtn7.Lemmas.NodeDirect
import Dtn7.Model.NodeSpec

namespace Dtn7.Node

/-- The sent list the configured algorithm keeps for the bundle with this key (store property or
in-memory spray bookkeeping); `[]` if there is none. -/
def sentL (n : Node) (k : Key) : List Eid :=
  match n.cfg.algo with
  | .epidemic => ((n.store.get k).map (·.rt.sentE)).getD []
  | .prophet => ((n.store.get k).map (·.rt.sentP)).getD []
  | .dtlsr => ((n.store.get k).map (·.rt.sentD)).getD []
  | .spray => ((lookupMeta n.spray k).map (·.sent)).getD []
  | .binarySpray => ((lookupMeta n.spray k).map (·.sent)).getD []

/-! ## filterCLAs / sprayPick -/

theorem filterCLAs_snd : ∀ (sent : List Eid) (ps : List Peer),
    (filterCLAs sent ps).2 = sent ++ (filterCLAs sent ps).1.map (·.eid)
  | sent, [] => by simp [filterCLAs]
  | sent, q :: ps => by
    simp only [filterCLAs]
    split
    · exact filterCLAs_snd sent ps
    · simp only [List.map_cons]
      rw [filterCLAs_snd (sent ++ [q.eid]) ps]
      simp

theorem filterCLAs_fresh : ∀ (sent : List Eid) (ps : List Peer), ∀ p ∈ (filterCLAs sent ps).1,
    sent.contains p.eid = false
  | sent, [], p, h => by simp [filterCLAs] at h
  | sent, q :: ps, p, h => by
    simp only [filterCLAs] at h
    split at h
    · exact filterCLAs_fresh sent ps p h
    · rename_i hq
      rcases List.mem_cons.mp h with h | h
      · subst h
        cases hc : sent.contains p.eid
        · rfl
        · exact absurd hc hq
      · have h1 := filterCLAs_fresh (sent ++ [q.eid]) ps p h
        cases hc : sent.contains p.eid
        · rfl
        · have hm : p.eid ∈ sent := by simpa using hc
          have h2 : (sent ++ [q.eid]).contains p.eid = true := by
            simp only [List.contains_eq_mem, List.mem_append, decide_eq_true_eq]
            exact Or.inl hm
          rw [h2] at h1
          cases h1

theorem sprayPick_snd : ∀ (m : SprayMeta) (ps : List Peer),
    (sprayPick m ps).2.sent = m.sent ++ (sprayPick m ps).1.map (·.eid)
  | m, [] => by simp [sprayPick]
  | m, q :: ps => by
    simp only [sprayPick]
    split
    · simp
    · split
      · exact sprayPick_snd m ps
      · simp only [List.map_cons]
        rw [sprayPick_snd _ ps]
        simp

theorem sprayPick_fresh : ∀ (m : SprayMeta) (ps : List Peer), ∀ p ∈ (sprayPick m ps).1,
    m.sent.contains p.eid = false
  | m, [], p, h => by simp [sprayPick] at h
  | m, q :: ps, p, h => by
    simp only [sprayPick] at h
    split at h
    · simp at h
    · split at h
      · exact sprayPick_fresh m ps p h
      · rename_i hq
        rcases List.mem_cons.mp h with h | h
        · subst h
          cases hc : m.sent.contains p.eid
          · rfl
          · exact absurd hc hq
        · have h1 := sprayPick_fresh { sent := m.sent ++ [q.eid], copies := m.copies - 1 } ps p h
          cases hc : m.sent.contains p.eid
          · rfl
          · have hm : p.eid ∈ m.sent := by simpa using hc
            have h2 : (m.sent ++ [q.eid]).contains p.eid = true := by
              simp only [List.contains_eq_mem, List.mem_append, decide_eq_true_eq]
              exact Or.inl hm
            simp only at h1
            rw [h2] at h1
            cases h1

/-- The spray budget: at most `copies - 1` peers are picked. -/
theorem sprayPick_budget : ∀ (m : SprayMeta) (ps : List Peer),
    (sprayPick m ps).1.length + 1 ≤ max m.copies 1 ∧
    (sprayPick m ps).2.copies + (sprayPick m ps).1.length = m.copies
  | m, [] => by simp [sprayPick]; omega
  | m, q :: ps => by
    simp only [sprayPick]
    split
    · simp; omega
    · split
      · exact sprayPick_budget m ps
      · have := sprayPick_budget { sent := m.sent ++ [q.eid], copies := m.copies - 1 } ps
        simp only [List.length_cons] at this ⊢
        omega


/-! ## The algorithms' choice -/

theorem modRt_cfg (k : Key) (f : Routing → Routing) (n : Node) : (modRt k f n).cfg = n.cfg :=
  (modRt_only k f n).env.cfg

theorem sentL_modRt_E (k : Key) (f : Routing → Routing) (n : Node) (ha : n.cfg.algo = .epidemic) :
    sentL (modRt k f n) k = ((n.store.get k).map (fun it => (f it.rt).sentE)).getD [] := by
  unfold sentL
  rw [modRt_cfg, ha]
  simp only [modRt_get]
  cases n.store.get k <;> rfl

theorem sentL_modRt_P (k : Key) (f : Routing → Routing) (n : Node) (ha : n.cfg.algo = .prophet) :
    sentL (modRt k f n) k = ((n.store.get k).map (fun it => (f it.rt).sentP)).getD [] := by
  unfold sentL
  rw [modRt_cfg, ha]
  simp only [modRt_get]
  cases n.store.get k <;> rfl

theorem sentL_modRt_D (k : Key) (f : Routing → Routing) (n : Node) (ha : n.cfg.algo = .dtlsr) :
    sentL (modRt k f n) k = ((n.store.get k).map (fun it => (f it.rt).sentD)).getD [] := by
  unfold sentL
  rw [modRt_cfg, ha]
  simp only [modRt_get]
  cases n.store.get k <;> rfl

/-- **What `SenderForBundle` picks** (all algorithms, any number of peers): no picked peer is in the
bundle's sent list, and afterwards the list is the old one followed by the picked peers. For DTLSR this
is about broadcast bundles (`replicates`). -/
theorem innerSenders_spec (env : Env) (d : Desc) (b : Bundle) (n : Node) (hrep : replicates n.cfg b = true) :
    (∀ p ∈ (innerSenders env d b n).1, (sentL n d.key).contains p.eid = false) ∧
    sentL (innerSenders env d b n).2.2.2 d.key = sentL n d.key ++ (innerSenders env d b n).1.map (·.eid) := by
  unfold innerSenders
  cases ha : n.cfg.algo with
  | epidemic =>
    simp only
    cases hg : n.store.get d.key with
    | none => simp [sentL, ha, hg]
    | some it =>
      simp only
      constructor
      · intro p hp
        have := filterCLAs_fresh _ _ p hp
        simpa [sentL, ha, hg] using this
      · rw [sentL_modRt_E _ _ _ ha]
        simp [sentL, ha, hg, filterCLAs_snd]
  | spray =>
    simp only
    cases hg : lookupMeta n.spray d.key with
    | none => simp [sentL, ha, hg]
    | some m =>
      simp only
      split
      · simp [sentL, ha, hg]
      · constructor
        · intro p hp
          have := sprayPick_fresh _ _ p hp
          simpa [sentL, ha, hg] using this
        · simp [sentL, ha, hg, lookupMeta_setMeta_eq, sprayPick_snd]
  | binarySpray =>
    simp only
    cases hg : lookupMeta n.spray d.key with
    | none => simp [sentL, ha, hg]
    | some m =>
      simp only
      split
      · simp [sentL, ha, hg]
      · cases hf : (senders env n d.key).find? (fun p => !m.sent.contains p.eid) with
        | none => simp [sentL, ha, hg, lookupMeta_setMeta_eq]
        | some p =>
          simp only
          constructor
          · intro q hq
            simp only [List.mem_singleton] at hq
            subst hq
            have := List.find?_some hf
            simpa [sentL, ha, hg] using this
          · simp [sentL, ha, hg, lookupMeta_setMeta_eq]
  | prophet =>
    simp only
    cases hg : n.store.get d.key with
    | none => simp [sentL, ha, hg]
    | some it =>
      simp only
      split
      · rename_i he
        have : (filterCLAs it.rt.sentP ((senders env n d.key).filter fun p => env.cand p.eid b)).1 = [] := by
          simpa using he
        simp [sentL, ha, hg]
      · constructor
        · intro p hp
          have := filterCLAs_fresh _ _ p hp
          simpa [sentL, ha, hg] using this
        · rw [sentL_modRt_P _ _ _ ha]
          simp [sentL, ha, hg, filterCLAs_snd]
  | dtlsr =>
    have hb : b.dst = n.cfg.bcast := by
      unfold replicates at hrep
      simpa [ha] using hrep
    simp only [hb, if_true]
    cases hg : n.store.get d.key with
    | none => simp [sentL, ha, hg]
    | some it =>
      simp only
      constructor
      · intro p hp
        have := filterCLAs_fresh _ _ p hp
        simpa [sentL, ha, hg] using this
      · rw [sentL_modRt_D _ _ _ ha]
        simp [sentL, ha, hg, filterCLAs_snd]


/-! ## Failure reports -/

theorem mem_of_mem_eraseFirst {e x : Eid} : ∀ {l : List Eid}, x ∈ eraseFirst e l → x ∈ l
  | [], h => by simp [eraseFirst] at h
  | y :: ys, h => by
    simp only [eraseFirst] at h
    split at h
    · exact List.mem_cons_of_mem _ h
    · rcases List.mem_cons.mp h with h | h
      · exact h ▸ List.mem_cons_self
      · exact List.mem_cons_of_mem _ (mem_of_mem_eraseFirst h)

theorem mem_eraseFirst_of_ne {e x : Eid} (hne : x ≠ e) : ∀ {l : List Eid}, x ∈ l → x ∈ eraseFirst e l
  | [], h => by cases h
  | y :: ys, h => by
    simp only [eraseFirst]
    split
    · rename_i hy
      rcases List.mem_cons.mp h with h | h
      · exact absurd (h.trans hy) hne
      · exact h
    · rcases List.mem_cons.mp h with h | h
      · exact h ▸ List.mem_cons_self
      · exact List.mem_cons_of_mem _ (mem_eraseFirst_of_ne hne h)

/-- A peer that occurs once in the list is gone after the removal. -/
theorem not_mem_eraseFirst_append (e : Eid) (l₁ l₂ : List Eid) (h1 : e ∉ l₁) (h2 : e ∉ l₂) :
    e ∉ eraseFirst e (l₁ ++ e :: l₂) := by
  induction l₁ with
  | nil => simpa [eraseFirst] using h2
  | cons y ys ih =>
    have hy : y ≠ e := fun h => h1 (h ▸ List.mem_cons_self)
    have hys : e ∉ ys := fun h => h1 (List.mem_cons_of_mem _ h)
    simp only [List.cons_append, eraseFirst, hy, if_false]
    intro hm
    rcases List.mem_cons.mp hm with h | h
    · exact hy h.symm
    · exact ih hys h

/-- Is `ReportFailure` a no-op for this descriptor? (binary spray needs its block in the in-memory
bundle; DTLSR only books broadcast bundles.) -/
def rfActive (d : Desc) (n : Node) : Bool :=
  match n.cfg.algo with
  | .binarySpray => (d.bndl.bind (·.bsCopies)).isSome
  | .dtlsr => n.cfg.dtlsrFail && (match d.bndl with | some b => decide (b.dst = n.cfg.bcast) | none => false)
  | _ => true

/-- **`ReportFailure`** (all algorithms): the sent list loses the first occurrence of exactly that peer —
or, where the report is a no-op, stays as it is. -/
theorem reportFailure_sentL (d : Desc) (p : Peer) (n : Node) :
    sentL (reportFailure d p n) d.key =
      if rfActive d n then eraseFirst p.eid (sentL n d.key) else sentL n d.key := by
  unfold reportFailure rfActive
  cases ha : n.cfg.algo with
  | epidemic =>
    simp only [if_true]
    rw [sentL_modRt_E _ _ _ ha]
    cases hg : n.store.get d.key <;> simp [sentL, ha, hg, eraseFirst]
  | spray =>
    simp only [if_true]
    cases hg : lookupMeta n.spray d.key with
    | none => simp [sentL, ha, hg, eraseFirst]
    | some m => simp [sentL, ha, hg, lookupMeta_setMeta_eq]
  | binarySpray =>
    simp only
    cases hb : d.bndl.bind (·.bsCopies) with
    | none => simp
    | some c =>
      simp only [Option.isSome_some, if_true]
      cases hg : lookupMeta n.spray d.key with
      | none => simp [sentL, ha, hg, eraseFirst]
      | some m => simp [sentL, ha, hg, lookupMeta_setMeta_eq]
  | prophet =>
    simp only [if_true]
    rw [sentL_modRt_P _ _ _ ha]
    cases hg : n.store.get d.key <;> simp [sentL, ha, hg, eraseFirst]
  | dtlsr =>
    simp only
    generalize (n.cfg.dtlsrFail && (match d.bndl with | some b => decide (b.dst = n.cfg.bcast) | none => false)) = cnd
    cases cnd
    · simp
    · simp only [if_true]
      rw [sentL_modRt_D _ _ _ ha]
      cases hg : n.store.get d.key <;> simp [sentL, ha, hg, eraseFirst]

theorem reportFailure_cfg (d : Desc) (p : Peer) (n : Node) : (reportFailure d p n).cfg = n.cfg :=
  (reportFailure_rt d p n).only.env.cfg

/-- Nothing but that peer is removed, nothing is added. -/
theorem reportFailure_others (d : Desc) (p : Peer) (n : Node) (e : Eid) :
    (e ∈ sentL (reportFailure d p n) d.key → e ∈ sentL n d.key) ∧
    (e ∈ sentL n d.key → e ≠ p.eid → e ∈ sentL (reportFailure d p n) d.key) := by
  rw [reportFailure_sentL]
  split
  · exact ⟨mem_of_mem_eraseFirst, fun h hne => mem_eraseFirst_of_ne hne h⟩
  · exact ⟨id, fun h _ => h⟩

/-! ## The sensor-mule wrapper -/

theorem muleFilter_cfg (d : Desc) : ∀ (ps : List Peer) (n : Node), (muleFilter d ps n).2.cfg = n.cfg :=
  fun ps n => (muleFilter_rt d ps n).only.env.cfg

/-- **`SensorNetworkMuleRouting.SenderForBundle`** only removes senders — exactly the sensor nodes the
bundle was not received from — and reports every removed sender as a failure to the wrapped algorithm. -/
theorem muleFilter_sound (d : Desc) : ∀ (ps : List Peer) (n : Node),
    (muleFilter d ps n).1 = ps.filter (fun p => !muleDrops n.cfg d p) ∧
    (muleFilter d ps n).2 = (ps.filter (fun p => muleDrops n.cfg d p)).foldr (fun p m => reportFailure d p m) n
  | [], n => by simp [muleFilter]
  | p :: ps, n => by
    have ih := muleFilter_sound d ps n
    simp only [muleFilter]
    by_cases h : muleDrops n.cfg d p = true
    · simp only [h, if_true, List.filter_cons, Bool.not_true, Bool.false_eq_true, if_false, List.foldr_cons]
      exact ⟨ih.1, by rw [ih.2]⟩
    · have h' : muleDrops n.cfg d p = false := by cases hh : muleDrops n.cfg d p <;> simp_all
      simp only [h', Bool.false_eq_true, if_false, List.filter_cons, Bool.not_false, if_true]
      exact ⟨by rw [ih.1], ih.2⟩

/-! ## Spray variants after a restart -/

/-- **Without bookkeeping the spray variants choose nobody** (a restart drops `bundleData`). -/
theorem spray_silent (env : Env) (d : Desc) (b : Bundle) (n : Node)
    (ha : n.cfg.algo = .spray ∨ n.cfg.algo = .binarySpray) (hs : lookupMeta n.spray d.key = none) :
    (innerSenders env d b n).1 = [] := by
  unfold innerSenders
  rcases ha with ha | ha <;> simp [ha, hs]


/-! ## No endpoint is picked twice in one choice -/

theorem filterCLAs_nodup : ∀ (sent : List Eid) (ps : List Peer), ((filterCLAs sent ps).1.map (·.eid)).Nodup
  | sent, [] => by simp [filterCLAs]
  | sent, q :: ps => by
    simp only [filterCLAs]
    split
    · exact filterCLAs_nodup sent ps
    · simp only [List.map_cons, List.nodup_cons]
      refine ⟨?_, filterCLAs_nodup _ ps⟩
      intro hmem
      rcases List.mem_map.mp hmem with ⟨p, hp, hpe⟩
      have := filterCLAs_fresh (sent ++ [q.eid]) ps p hp
      rw [hpe] at this
      simp at this

theorem sprayPick_nodup : ∀ (m : SprayMeta) (ps : List Peer), ((sprayPick m ps).1.map (·.eid)).Nodup
  | m, [] => by simp [sprayPick]
  | m, q :: ps => by
    simp only [sprayPick]
    split
    · simp
    · split
      · exact sprayPick_nodup m ps
      · simp only [List.map_cons, List.nodup_cons]
        refine ⟨?_, sprayPick_nodup _ ps⟩
        intro hmem
        rcases List.mem_map.mp hmem with ⟨p, hp, hpe⟩
        have := sprayPick_fresh { sent := m.sent ++ [q.eid], copies := m.copies - 1 } ps p hp
        simp only at this
        rw [hpe] at this
        simp at this

/-- The peers one `SenderForBundle` picks have pairwise different endpoint IDs. -/
theorem innerSenders_nodup (env : Env) (d : Desc) (b : Bundle) (n : Node) :
    ((innerSenders env d b n).1.map (·.eid)).Nodup := by
  unfold innerSenders
  cases n.cfg.algo
  · simp only
    cases n.store.get d.key with
    | none => simp
    | some it => exact filterCLAs_nodup _ _
  · simp only
    cases lookupMeta n.spray d.key with
    | none => simp
    | some m =>
      simp only
      split
      · simp
      · exact sprayPick_nodup _ _
  · simp only
    cases lookupMeta n.spray d.key with
    | none => simp
    | some m =>
      simp only
      split
      · simp
      · cases (senders env n d.key).find? (fun p => !m.sent.contains p.eid) <;> simp
  · simp only
    cases n.store.get d.key with
    | none => simp
    | some it =>
      simp only
      split
      · simp
      · exact filterCLAs_nodup _ _
  · simp only
    split
    · cases n.store.get d.key with
      | none => simp
      | some it => exact filterCLAs_nodup _ _
    · cases (senders env n d.key).find? (fun p => env.cand p.eid b) <;> simp

end Dtn7.Node
