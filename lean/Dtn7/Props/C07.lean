/-
C07 — local delivery reaches exactly the registered recipients, once, and nobody else; it is not
transmitted to peers; a REST client's fetches return every bundle put into its mailbox exactly
once under every interleaving; a delivery is reported only after a hand-over.
Property theorems only; helper lemmas live in `Dtn7.Lemmas.Delivery`.
-/
import Dtn7.Model.Delivery
import Dtn7.Lemmas.Delivery
import Dtn7.Lemmas.DeliveryHist
import Dtn7.Gen.C07

namespace Dtn7.Props.C07
open Dtn7.Delivery

/-! ## The tie to the source: facts regenerated from /repo on every run -/

theorem gen_extraction_ok : Dtn7.Gen.C07.extractionFailures = [] := by decide

/-- Both `sync.Map.Range` callbacks of the RestAgent return `true`: every client is visited. The
theorems below are about the model with `rangeAll = true`, which is the model of this code (D14). -/
theorem gen_range_visits_all :
    Dtn7.Gen.C07.rangeReturnsReceive = ["true"] ∧ Dtn7.Gen.C07.rangeReturnsEndpoints = ["true"] := by
  decide

/-- `MuxAgent.handle`: every child whose `Endpoints()` contain a recipient gets the message — no
`break`, no other test. `bagContainsEndpoint` compares complete endpoint IDs. -/
theorem gen_mux_fanout :
    Dtn7.Gen.C07.muxHandle =
      ["defer close(mux.sender)",
       "for msg := range mux.receiver",
       "  mux.Lock()",
       "  for _, child := range mux.children",
       "    if rec := msg.Recipients(); rec == nil || AppAgentContainsEndpoint(child, rec)",
       "      child.MessageReceiver() <- msg",
       "  mux.Unlock()",
       "  if _, isShutdown := msg.(ShutdownMessage); isShutdown",
       "    return"] ∧
    Dtn7.Gen.C07.bagContainsEndpoint =
      ["matches := map[bpv7.EndpointID]struct{}{}",
       "for _, eid := range eids",
       "  matches[eid] = struct{}{}",
       "for _, eid := range bag",
       "  if _, ok := matches[eid]; ok",
       "    return true",
       "return false"] := by decide

set_option maxRecDepth 8192 in
/-- `receiveBundleMessage` and `fetchMailbox`: the micro-steps (load, store / load, delete) and
the mutex around them (D15). -/
theorem gen_rest_microsteps :
    Dtn7.Gen.C07.restReceive =
      ["ra.mailboxMutex.Lock()",
       "defer ra.mailboxMutex.Unlock()",
       "var uuids []string",
       "ra.clients.Range(func(k, v interface{}) bool { if bagHasEndpoint(msg.Recipients(), v.(bpv7.EndpointID)) { uuids = append(uuids, k.(string)) } return true })",
       "for _, uuid := range uuids",
       "  var bundles []bpv7.Bundle",
       "  if val, ok := ra.mailbox.Load(uuid); !ok",
       "    bundles = []bpv7.Bundle{msg.Bundle}",
       "  else",
       "    bundles = append(val.([]bpv7.Bundle), msg.Bundle)",
       "  verifPoint(\"rest.deliver.loaded\")",
       "  ra.mailbox.Store(uuid, bundles)"] ∧
    Dtn7.Gen.C07.restFetchMailbox =
      ["ra.mailboxMutex.Lock()",
       "defer ra.mailboxMutex.Unlock()",
       "val, ok := ra.mailbox.Load(uuid)",
       "if ok",
       "  bundles = val.([]bpv7.Bundle)",
       "  verifPoint(\"rest.fetch.loaded\")",
       "  ra.mailbox.Delete(uuid)",
       "return"] := by decide

/-- Lock table: every compound access to the mailbox / client map happens under the mutex; the
remaining accesses are single atomic `sync.Map` operations. This is the input of
`fetch_exactly_once` (`locked = true`). -/
theorem gen_lock_table :
    Dtn7.Gen.C07.restAccesses =
      ["receiveBundleMessage:clients.Range:locked",
       "receiveBundleMessage:mailbox.Load:locked",
       "receiveBundleMessage:mailbox.Store:locked",
       "fetchMailbox:mailbox.Load:locked",
       "fetchMailbox:mailbox.Delete:locked",
       "handleUnregister:clients.Delete:locked",
       "handleUnregister:mailbox.Delete:locked",
       "handleRegister:clients.Store:unlocked",
       "handleBuild:clients.Load:unlocked",
       "Endpoints:clients.Range:unlocked"] := by decide

theorem gen_mailbox_accesses_locked : Dtn7.Gen.C07.restMailboxUnlocked = [] := by decide

/-- `AgentManager.Deliver`, `Core.localDelivery` (report and purge only after a successful
`Deliver`: D16), `Core.HasEndpoint` and the local/forward decision of `Core.dispatching`. -/
theorem gen_node_skeletons :
    Dtn7.Gen.C07.amDeliver =
      ["b, bErr := descriptor.Bundle()",
       "if bErr != nil",
       "  return bErr",
       "if !manager.HasEndpoint(b.PrimaryBlock.Destination)",
       "  return fmt.Errorf(\"no registered ApplicationAgent for this Bundle's destination\")",
       "descriptor.RemoveConstraint(LocalEndpoint)",
       "if err := descriptor.Sync(); err != nil",
       "  return err",
       "manager.mux.MessageReceiver() <- agent.BundleMessage{Bundle: *b}",
       "return nil"] ∧
    Dtn7.Gen.C07.amHasEndpoint = ["return agent.AppAgentHasEndpoint(manager.mux, eid)"] ∧
    Dtn7.Gen.C07.localDelivery =
      ["if bp.MustBundle().IsAdministrativeRecord()",
       "  if !c.checkAdministrativeRecord(bp)",
       "    c.bundleDeletion(bp, bpv7.NoInformation)",
       "    return",
       "bp.AddConstraint(LocalEndpoint)",
       "_ = bp.Sync()",
       "if err := c.agentManager.Deliver(bp); err != nil",
       "  return",
       "if bp.MustBundle().PrimaryBlock.BundleControlFlags.Has(bpv7.StatusRequestDelivery)",
       "  c.SendStatusReport(bp, bpv7.DeliveredBundle, bpv7.NoInformation)",
       "bp.PurgeConstraints()",
       "_ = bp.Sync()"] ∧
    Dtn7.Gen.C07.coreHasEndpoint =
      ["if c.NodeId.SameNode(endpoint)",
       "  return true",
       "if c.agentManager.HasEndpoint(endpoint)",
       "  return true",
       "if c.claManager.HasEndpoint(endpoint)",
       "  return true",
       "for _, cr := range c.claManager.Receiver()",
       "  if cr.GetEndpointID().SameNode(endpoint)",
       "    return true",
       "return false"] ∧
    Dtn7.Gen.C07.dispatchingDecision =
      ["if c.HasEndpoint(bndl.PrimaryBlock.Destination)",
       "  c.localDelivery(bp)",
       "else",
       "  c.forward(bp)"] := by decide

/-- `localDelivery` calls nothing that transmits: no `forward`, no CLA, no `Send`. -/
theorem gen_local_delivery_does_not_transmit : Dtn7.Gen.C07.localDeliveryTransmitCalls = [] := by
  decide

/-! ## delivered_exactly -/

/-- **Every registry, any number of agents and clients**: a delivery through the mux hands the
bundle to exactly the recipients registered for exactly its destination — each once, unchanged,
nobody else. `m.registered` lists, for every ping agent, mock agent, REST client and web socket
client behind the mux, the endpoints it registered. -/
theorem delivered_exactly (cfg : Cfg) (hall : cfg.rangeAll = true) (m : Mux) (hwf : m.WF) (b : Bundle) :
    DeliveredExactly m.registered b (m.deliver cfg b).2 = true :=
  Lemmas.delivered_exactly cfg hall m hwf b

/-- The same as an equation (needs no well-formedness): the hand-overs are the registered
recipients for the destination, in registry order, each with the bundle itself. -/
theorem delivered_eq (cfg : Cfg) (hall : cfg.rangeAll = true) (m : Mux) (b : Bundle) :
    (m.deliver cfg b).2 = (registeredFor m.registered b.dest).map (fun r => (r, b)) :=
  Lemmas.deliver_out_eq cfg hall m b

/-- **Every history**: whatever sequence of agent registrations, REST registrations /
unregistrations / fetches, web socket connects / closes and deliveries led to a registry, it is
well-formed, hence every further delivery reaches exactly the then-registered recipients. -/
theorem delivered_exactly_history (cfg : Cfg) (hall : cfg.rangeAll = true) (ops : List Op) (b : Bundle) :
    DeliveredExactly (run cfg {} ops).registered b ((run cfg {} ops).deliver cfg b).2 = true :=
  Lemmas.delivered_exactly cfg hall _ (Lemmas.run_wf cfg {} ops Lemmas.empty_wf) b

/-- **What "put into its mailbox" means**: after a delivery, in every REST agent exactly the clients
registered for the bundle's destination have the bundle appended to their mailbox; all other
mailboxes and all registrations are unchanged. -/
theorem delivered_into_mailboxes (cfg : Cfg) (hall : cfg.rangeAll = true) (m : Mux) (hwf : m.WF)
    (b : Bundle) (i : Nat) (ra : Rest) (h : m.child i = some (.rest ra)) :
    ∃ ra', (m.deliver cfg b).1.child i = some (.rest ra') ∧ ra'.clients = ra.clients ∧
      ∀ u, aload u ra'.mailbox =
        if aload u ra.clients = some b.dest then some ((aload u ra.mailbox).getD [] ++ [b])
        else aload u ra.mailbox :=
  Lemmas.deliver_mailbox cfg hall m hwf b i ra h

/-- **Every history, judged by the independent reference** — `histOk` is the predicate the driver
evaluates on the implementation's traces: it replays the operations on a flat table "recipient ↦
endpoints, recipient ↦ mailbox" (`Reg.step`) and demands of every delivery `DeliveredExactly`
w.r.t. the table's registrations at that moment, and of every REST fetch that it returns exactly
(as a multiset) what was delivered to that client since its previous fetch. Every trace of the
model — nested MuxAgent / RestAgent / WebSocketAgent state, `Range` loops, mailbox load-append-store
— satisfies it, for every sequence of operations. -/
theorem history_ok (cfg : Cfg) (hall : cfg.rangeAll = true) (ops : List Op) :
    histOk {} (trace cfg {} ops) = true :=
  Lemmas.history_ok cfg hall ops

/-- `MuxAgent.Endpoints()` (and so `AgentManager.HasEndpoint`, `Core.HasEndpoint`) knows exactly
the registered endpoints. -/
theorem has_endpoint_iff (cfg : Cfg) (hall : cfg.rangeAll = true) (m : Mux) (e : Eid) :
    m.hasEndpoint cfg e = true ↔ ∃ r ∈ m.registered, e ∈ r.2 :=
  Lemmas.hasEndpoint_iff cfg hall m e

/-- D14 witness — the code before the repair (`Range` callbacks return `false`): two REST clients
on one endpoint, only one of them gets the bundle … -/
theorem delivered_exactly_d14_witness :
    ¬ DeliveredExactly
        (⟨[(0, .rest { clients := [(1, ⟨"n1", "a"⟩), (2, ⟨"n1", "a"⟩)] })]⟩ : Mux).registered
        { tok := 1, dest := ⟨"n1", "a"⟩, reportTo := ⟨"rt", "x"⟩ }
        ((⟨[(0, .rest { clients := [(1, ⟨"n1", "a"⟩), (2, ⟨"n1", "a"⟩)] })]⟩ : Mux).deliver
          { rangeAll := false } { tok := 1, dest := ⟨"n1", "a"⟩, reportTo := ⟨"rt", "x"⟩ }).2 = true := by
  decide

/-- … and `Endpoints()` reports one endpoint, so the other client's endpoint is not local. -/
theorem has_endpoint_d14_witness :
    (⟨[(0, .rest { clients := [(1, ⟨"n1", "a"⟩), (2, ⟨"n1", "b"⟩)] })]⟩ : Mux).hasEndpoint
      { rangeAll := false } ⟨"n1", "b"⟩ = false := by decide

/-! ## fetch_exactly_once -/

/-- **Every interleaving** of any number of deliveries and fetches on one mailbox (threads `ts`,
all at their start; `σ` any schedule of their micro-steps lock / load / store|delete / unlock):
at every moment, what the fetches returned so far plus what the mailbox holds is a permutation of
what it held initially plus what deliveries stored so far. -/
theorem fetch_exactly_once_any_time (mb : Option (List Bundle)) (ts : List Thr)
    (hidle : ∀ t ∈ ts, t.idle = true) (σ : List Nat) :
    (fetchedAll (runSched true ({ mbox := mb, lock := none }, ts) σ).2 ++
        ((runSched true ({ mbox := mb, lock := none }, ts) σ).1.mbox.getD [])).Perm
      (mb.getD [] ++ storedAll (runSched true ({ mbox := mb, lock := none }, ts) σ).2) :=
  Lemmas.sched_perm mb ts hidle σ

/-- … and once all threads have finished, the fetch results together with the mailbox's remainder
(which the next fetch returns) are exactly the initial content plus every delivered bundle. -/
theorem fetch_exactly_once (mb : Option (List Bundle)) (ts : List Thr)
    (hidle : ∀ t ∈ ts, t.idle = true) (σ : List Nat)
    (hdone : ∀ t ∈ (runSched true ({ mbox := mb, lock := none }, ts) σ).2, t.done = true) :
    FetchExactlyOnce (mb.getD [] ++ bundlesAll ts)
      (fetchedAll (runSched true ({ mbox := mb, lock := none }, ts) σ).2 ++
        ((runSched true ({ mbox := mb, lock := none }, ts) σ).1.mbox.getD [])) = true := by
  rw [FetchExactlyOnce, List.isPerm_iff]
  have h := Lemmas.sched_perm mb ts hidle σ
  rw [Lemmas.stored_eq_bundles_of_done _ hdone, Lemmas.run_bundles] at h
  exact h

/-- D15 witnesses — without the mutex (the code before the repair). Mailbox `[b₁]`, one fetch
(thread 0) and one delivery of `b₂` (thread 1).
fetch loads, delivery loads, fetch deletes, delivery stores: `b₁` is returned now and again later. -/
theorem fetch_d15_duplicate_witness :
    let b₁ : Bundle := { tok := 1, dest := ⟨"n", "a"⟩, reportTo := ⟨"r", ""⟩ }
    let b₂ : Bundle := { tok := 2, dest := ⟨"n", "a"⟩, reportTo := ⟨"r", ""⟩ }
    let r := runSched false ({ mbox := some [b₁] }, [.fIdle, .dIdle b₂]) [0, 0, 1, 1, 0, 0, 1, 1]
    (r.2.all Thr.done = true) ∧
    FetchExactlyOnce ([b₁] ++ bundlesAll [.fIdle, .dIdle b₂]) (fetchedAll r.2 ++ r.1.mbox.getD []) = false ∧
    fetchedAll r.2 ++ r.1.mbox.getD [] = [b₁, b₁, b₂] := by decide

/-- delivery loads, fetch loads, delivery stores, fetch deletes: `b₂` is lost. -/
theorem fetch_d15_lost_witness :
    let b₁ : Bundle := { tok := 1, dest := ⟨"n", "a"⟩, reportTo := ⟨"r", ""⟩ }
    let b₂ : Bundle := { tok := 2, dest := ⟨"n", "a"⟩, reportTo := ⟨"r", ""⟩ }
    let r := runSched false ({ mbox := some [b₁] }, [.fIdle, .dIdle b₂]) [1, 1, 0, 0, 1, 1, 0, 0]
    (r.2.all Thr.done = true) ∧
    FetchExactlyOnce ([b₁] ++ bundlesAll [.fIdle, .dIdle b₂]) (fetchedAll r.2 ++ r.1.mbox.getD []) = false ∧
    fetchedAll r.2 ++ r.1.mbox.getD [] = [b₁] := by decide

/-! ## not_forwarded, report_only_after_handover -/

/-- A bundle whose destination is an endpoint of this node (`Core.HasEndpoint`) is never handed to
`forward`: nothing of it reaches the routing algorithm or a convergence layer. -/
theorem not_forwarded (cfg : NCfg) (n : Node) (b : Bundle) (cons : List Constraint)
    (h : n.hasEndpoint cfg.toCfg b.dest = true) :
    NotForwarded (dispatching cfg n b cons).2.1 = true :=
  Lemmas.not_forwarded cfg n b cons h

/-- **A "delivered" status report is sent only if an application agent / client took the bundle.** -/
theorem report_only_after_handover (cfg : NCfg) (hall : cfg.rangeAll = true)
    (hguard : cfg.reportGuard = true) (n : Node) (b : Bundle) (cons : List Constraint) :
    ReportOnlyAfterHandover b (localDelivery cfg n b cons).2.1 = true :=
  Lemmas.report_only_after_handover cfg hall hguard n b cons

/-- The same for everything an arriving copy (`Core.receive`: duplicate test, dispatching) and a
run of the pending-bundles cron job (`Core.checkPendingBundles`: every pending bundle is dispatched
again, e.g. after an agent registered its destination) put out: every "delivered" report is
accompanied by a hand-over of that very bundle. -/
theorem receive_reports_only_after_handover (cfg : NCfg) (hall : cfg.rangeAll = true)
    (hguard : cfg.reportGuard = true) (n : Node) (b : Bundle) :
    ∀ b', Out.report b' ∈ (receive cfg n b).2 → ∃ r, Out.handed r b' ∈ (receive cfg n b).2 :=
  Lemmas.receive_reportsJustified cfg hall hguard n b

theorem tick_reports_only_after_handover (cfg : NCfg) (hall : cfg.rangeAll = true)
    (hguard : cfg.reportGuard = true) (n : Node) :
    ∀ b', Out.report b' ∈ (tick cfg n).2 → ∃ r, Out.handed r b' ∈ (tick cfg n).2 :=
  Lemmas.tick_reportsJustified cfg hall hguard n

/-- **The retention constraint `LocalEndpoint` disappears only after a hand-over** (or the bundle
is a malformed administrative record, which is deleted instead of delivered). -/
theorem retention_only_after_handover (cfg : NCfg) (hall : cfg.rangeAll = true)
    (hguard : cfg.reportGuard = true) (n : Node) (b : Bundle) (cons : List Constraint) :
    RetentionOk b (localDelivery cfg n b cons).2.1 (localDelivery cfg n b cons).2.2 = true :=
  Lemmas.retention_ok cfg hall hguard n b cons

/-- D16 witness — `localDelivery` before the repair: node `n1` without any agent, a bundle for
`n1/zz` requesting a delivery report: the report is sent, nobody got the bundle. -/
theorem report_d16_witness :
    ReportOnlyAfterHandover { tok := 1, dest := ⟨"n1", "zz"⟩, reportTo := ⟨"rt", "x"⟩, reqDelivery := true }
      (localDelivery { reportGuard := false } { nodeId := ⟨"n1", ""⟩ }
        { tok := 1, dest := ⟨"n1", "zz"⟩, reportTo := ⟨"rt", "x"⟩, reqDelivery := true }
        [.dispatchPending]).2.1 = false := by decide

/-! ## Non-vacuity -/

/-- A registry with a ping agent, a mock, two REST clients on one endpoint and a web client. -/
def exMux : Mux := run {} {}
  [.addPing 0 ⟨"n1", "a"⟩, .addRest 1, .restReg 1 1 ⟨"n1", "a"⟩, .restReg 1 2 ⟨"n1", "a"⟩,
   .restReg 1 3 ⟨"n1", "b"⟩, .addWs 2, .wsConnect 2 7 (some ⟨"n1", "a"⟩), .wsConnect 2 8 none,
   .addMock 3 [⟨"n1", "b"⟩, ⟨"n2", "a"⟩]]

def exBundle : Bundle := { tok := 5, dest := ⟨"n1", "a"⟩, reportTo := ⟨"rt", "5"⟩, reqDelivery := true }

example : (exMux.deliver {} exBundle).2 =
    [(.ping 0, exBundle), (.rest 1 1, exBundle), (.rest 1 2, exBundle), (.ws 2 7, exBundle)] := by decide
example : exMux.hasEndpoint {} ⟨"n1", "a"⟩ = true ∧ exMux.hasEndpoint {} ⟨"n1", "zz"⟩ = false := by decide
-- `histOk` is not vacuous: a trace in which a registered mock agent does not get the bundle,
-- or a REST fetch returns a bundle twice, is rejected
example : histOk {} [(.addMock 0 [⟨"n1", "a"⟩], []), (.deliver exBundle, [])] = false := by decide
example : histOk {} [(.addRest 0, []), (.restReg 0 1 ⟨"n1", "a"⟩, []), (.deliver exBundle, [(.rest 0 1, exBundle)]),
    (.restFetch 0 1, [(.rest 0 1, exBundle), (.rest 0 1, exBundle)])] = false := by decide
example : histOk {} [(.addRest 0, []), (.restReg 0 1 ⟨"n1", "a"⟩, []), (.deliver exBundle, [(.rest 0 1, exBundle)]),
    (.restFetch 0 1, [(.rest 0 1, exBundle)]), (.restFetch 0 1, [])] = true := by decide
-- a complete schedule of two deliveries and two fetches with the mutex
example :
    let b := fun t : Nat => ({ tok := t, dest := ⟨"n", "a"⟩, reportTo := ⟨"r", ""⟩ } : Bundle)
    let r := runSched true ({ mbox := some [b 1] }, [.fIdle, .dIdle (b 2), .fIdle, .dIdle (b 3)])
      [0, 1, 0, 0, 0, 1, 1, 1, 1, 3, 2, 3, 3, 3, 2, 2, 2, 2]
    r.2.all Thr.done = true ∧ fetchedAll r.2 = [b 1, b 2, b 3] ∧ r.1.mbox = none := by decide
-- local delivery with a report, and a node without agents that reports nothing
example : (localDelivery {} { nodeId := ⟨"n1", ""⟩, mux := exMux } exBundle [.dispatchPending]).2 =
    ([.handed (.ping 0) exBundle, .handed (.rest 1 1) exBundle, .handed (.rest 1 2) exBundle,
      .handed (.ws 2 7) exBundle, .report exBundle], []) := by decide
example : (localDelivery {} { nodeId := ⟨"n1", ""⟩ } exBundle [.dispatchPending]).2 =
    ([], [.dispatchPending, .localEndpoint]) := by decide
-- a bundle for a foreign endpoint is forwarded and kept pending; after an agent registered the
-- endpoint the next tick delivers it (with the report), a second tick does nothing
example :
    let b : Bundle := { tok := 9, dest := ⟨"n2", "a"⟩, reportTo := ⟨"rt", "9"⟩, reqDelivery := true }
    let n₁ := (receive {} { nodeId := ⟨"n1", ""⟩ } b).1
    let n₂ : Node := { n₁ with mux := (step {} n₁.mux (.addMock 0 [⟨"n2", "a"⟩])).1 }
    (receive {} { nodeId := ⟨"n1", ""⟩ } b).2 = [.forward b] ∧
    (tick {} n₂).2 = [.handed (.mock 0) b, .report b] ∧ (tick {} (tick {} n₂).1).2 = [] := by decide

end Dtn7.Props.C07
