/-
C03 — block CRCs are computed per specification and every mismatch is rejected.
Property theorems only; definitions in `Dtn7.Model.CrcSpec` (Spec: bit-serial CRC-16/X-25 and CRC-32C,
independent block delimiter) and `Dtn7.Model.Crc` (model of dtn7's check); helper lemmas in
`Dtn7.Lemmas.Crc`.
-/
import Dtn7.Model.CrcSpec
import Dtn7.Model.Crc
import Dtn7.Lemmas.Crc
import Dtn7.Gen.C03

namespace Dtn7.Props.C03
open Dtn7.Crc Dtn7.Cbor

/-! ## Facts regenerated from the source (a change of any of them breaks the named theorem) -/

theorem gen_no_extraction_failures : Dtn7.Gen.C03.extractionFailures = [] := rfl

/-- CRC type codes and the protocol version the model parser expects. -/
theorem gen_constants :
    Dtn7.Gen.C03.crcNo = 0 ∧ Dtn7.Gen.C03.crc16 = 1 ∧ Dtn7.Gen.C03.crc32 = 2 ∧
    Dtn7.Gen.C03.dtnVersion = dtnVersion ∧ Dtn7.Gen.C03.isFragment = 1 := ⟨rfl, rfl, rfl, rfl, rfl⟩

/-- The package builds its tables from the CCITT (reflected 0x8408) and Castagnoli polynomials, and the
libraries' constants are the polynomials of the Spec. -/
theorem gen_tables :
    Dtn7.Gen.C03.crc16tableExpr = "crc16.MakeTable(crc16.CCITT)" ∧
    Dtn7.Gen.C03.crc32tableExpr = "crc32.MakeTable(crc32.Castagnoli)" ∧
    Dtn7.Gen.C03.libCrc16CCITT = P16.toNat ∧ Dtn7.Gen.C03.libCrc32Castagnoli = P32.toNat := ⟨rfl, rfl, rfl, rfl⟩

/-- `howeyc/crc16`: `MakeTable` builds the reflected table (one entry = eight zero-input clocks of the
register), `Checksum` = `Update(0, …)` = complement, table-driven update, complement — i.e. init 0xFFFF,
final complement: X-25. -/
theorem gen_crc16_library :
    Dtn7.Gen.C03.libCrc16MakeTableSkeletonExported = ["return makeTable(poly)"] ∧
    Dtn7.Gen.C03.libCrc16MakeTableSkeleton =
      ["t := &Table{ reversed: false, }", "for i := 0; i < 256; i++", "  crc := uint16(i)",
       "  for j := 0; j < 8; j++", "    if crc&1 == 1", "      crc = (crc >> 1) ^ poly", "    else",
       "      crc >>= 1", "  t.entries[i] = crc", "return t"] ∧
    Dtn7.Gen.C03.libCrc16ChecksumSkeletonExported = ["return Update(0, tab, data)"] ∧
    Dtn7.Gen.C03.libCrc16UpdateSkeletonExported =
      ["if tab.reversed", "  return updateBitsReversed(crc, tab, p)", "else if tab.noXOR",
       "  return updateNoXOR(crc, tab, p)", "else", "  return update(crc, tab, p)"] ∧
    Dtn7.Gen.C03.libCrc16UpdateSkeleton =
      ["crc = ^crc", "for _, v := range p", "  crc = tab.entries[byte(crc)^v] ^ (crc >> 8)", "return ^crc"] := ⟨rfl, rfl, rfl, rfl, rfl⟩

/-- `calculateCRCBuff`: the empty CRC item (2 resp. 4 zero bytes as a byte string) is appended to the
buffer *before* the checksum of the whole buffer is taken and stored big-endian. -/
theorem gen_calculateCRCBuff :
    Dtn7.Gen.C03.calculateCRCBuffSkeleton =
      ["data, typeErr := emptyCRC(crcType)", "if typeErr != nil", "  return nil, typeErr",
       "if err := cboring.WriteByteString(data, buff); err != nil", "  return nil, err",
       "switch crcType", "case CRCNo:", "case CRC16:",
       "  binary.BigEndian.PutUint16(data, crc16.Checksum(buff.Bytes(), crc16table))", "case CRC32:",
       "  binary.BigEndian.PutUint32(data, crc32.Checksum(buff.Bytes(), crc32table))", "default:",
       "  return nil, fmt.Errorf(\"unknown CRCType %d\", crcType)", "return data, nil"] ∧
    Dtn7.Gen.C03.emptyCRCSkeleton =
      ["switch crcType", "case CRCNo:", "  arr = nil", "case CRC16:", "  arr = make([]byte, 2)",
       "case CRC32:", "  arr = make([]byte, 4)", "default:",
       "  err = fmt.Errorf(\"unknown CRCType %d\", crcType)", "return"] := ⟨rfl, rfl⟩

/-- Both parsers: the CRC is computed from the tee'd bytes, the transmitted value is read, and
`bytes.Equal(crcCalc, crcVal)` guards acceptance (`checkField` of the model). -/
theorem gen_guards :
    Dtn7.Gen.C03.primaryBlockGuard =
      ["if blockLen == 9 || blockLen == 11",
       "  if crcCalc, crcErr := calculateCRCBuff(crcBuff, pb.CRCType); crcErr != nil", "    return crcErr",
       "  else if crcVal, err := cboring.ReadByteString(r); err != nil", "    return err",
       "  else if !bytes.Equal(crcCalc, crcVal)",
       "    return fmt.Errorf(\"invalid CRC value: %x instead of expected %x\", crcVal, crcCalc)",
       "  else", "    pb.CRC = crcVal"] ∧
    Dtn7.Gen.C03.canonicalBlockGuard =
      ["if blockLen == 6",
       "  if crcCalc, crcErr := calculateCRCBuff(crcBuff, cb.CRCType); crcErr != nil", "    return crcErr",
       "  else if crcVal, err := cboring.ReadByteString(r); err != nil", "    return err",
       "  else if !bytes.Equal(crcCalc, crcVal)",
       "    return fmt.Errorf(\"invalid CRC value: %x instead of expected %x\", crcVal, crcCalc)",
       "  else", "    cb.CRC = crcVal"] := ⟨rfl, rfl⟩

/-- What goes into the CRC buffer: the primary block tees everything from the array head on; the
canonical block replays the array head (`canonicalBuf`) and tees the rest. The serialisers mirror it. -/
theorem gen_crc_buffer :
    Dtn7.Gen.C03.primaryBlockCrcBuffLines =
      ["crcBuff := new(bytes.Buffer)", "r = io.TeeReader(r, crcBuff)",
       "if crcCalc, crcErr := calculateCRCBuff(crcBuff, pb.CRCType); crcErr != nil"] ∧
    Dtn7.Gen.C03.canonicalBlockCrcBuffLines =
      ["crcBuff := new(bytes.Buffer)", "if err := cboring.WriteArrayLength(blockLen, crcBuff); err != nil",
       "r = io.TeeReader(r, crcBuff)",
       "if crcCalc, crcErr := calculateCRCBuff(crcBuff, cb.CRCType); crcErr != nil"] ∧
    Dtn7.Gen.C03.canonicalBlockMarshalCrcLines =
      ["crcBuff := new(bytes.Buffer)", "w = io.MultiWriter(w, crcBuff)",
       "if crcVal, crcErr := calculateCRCBuff(crcBuff, cb.CRCType); crcErr != nil", "return crcErr",
       "else if err := cboring.WriteByteString(crcVal, w); err != nil", "cb.CRC = crcVal"] ∧
    Dtn7.Gen.C03.primaryBlockMarshalCrcLines.drop 1 =
      ["crcBuff := new(bytes.Buffer)", "w = io.MultiWriter(w, crcBuff)",
       "if crcVal, crcErr := calculateCRCBuff(crcBuff, pb.CRCType); crcErr != nil", "return crcErr",
       "else if err := cboring.WriteByteString(crcVal, w); err != nil",
       "else if !bytes.Equal(pb.CRC, crcVal)", "pb.CRC = crcVal"] := ⟨rfl, rfl, rfl, rfl⟩

/-- The order of reads the model parser follows. -/
theorem gen_read_order :
    Dtn7.Gen.C03.primaryBlockUnmarshalCalls =
      ["new", "io.TeeReader", "cboring.ReadArrayLength", "cboring.ReadUInt", "cboring.ReadUInt",
       "BundleControlFlags().Has", "BundleControlFlags", "BundleControlFlags", "cboring.ReadUInt",
       "emptyCRC", "CRCType", "CRCType", "CRCType", "cboring.Unmarshal", "cboring.Unmarshal",
       "cboring.ReadUInt", "cboring.ReadUInt", "calculateCRCBuff", "cboring.ReadByteString", "bytes.Equal"] ∧
    Dtn7.Gen.C03.canonicalBlockUnmarshalCalls =
      ["cboring.ReadArrayLength", "new", "cboring.WriteArrayLength", "io.TeeReader", "cboring.ReadUInt",
       "cboring.ReadUInt", "cboring.ReadUInt", "BlockControlFlags", "cboring.ReadUInt", "emptyCRC",
       "CRCType", "CRCType", "CRCType", "GetExtensionBlockManager().ReadBlock", "GetExtensionBlockManager", "calculateCRCBuff",
       "cboring.ReadByteString", "bytes.Equal"] := ⟨rfl, rfl⟩

/-- The checks added by the repairs of D5 and D7 (model: the three `if`s of `primaryPre`, the two of
`canonicalPre`): the CRC type must be one `emptyCRC` knows, the CRC item is present iff the type is not
`CRCNo`, and the primary array carries the fragment fields iff the fragment flag is set. -/
theorem gen_type_checks :
    Dtn7.Gen.C03.primaryBlockTypeChecks =
      ["else if hasFrag := blockLen == 10 || blockLen == 11; hasFrag != BundleControlFlags(bcf).Has(IsFragment)",
       "else if _, err := emptyCRC(CRCType(crcT)); err != nil",
       "else if hasCrc := blockLen == 9 || blockLen == 11; hasCrc != (CRCType(crcT) != CRCNo)"] ∧
    Dtn7.Gen.C03.canonicalBlockTypeChecks =
      ["else if _, err := emptyCRC(CRCType(crcT)); err != nil",
       "else if hasCrc := blockLen == 6; hasCrc != (CRCType(crcT) != CRCNo)"] := ⟨rfl, rfl⟩

/-- `PrimaryBlock.SetCRCType` (model: `setCrcTypePrimary`). -/
theorem gen_setCRCType :
    Dtn7.Gen.C03.primarySetCRCTypeSkeleton =
      ["if crcType == CRCNo", "  crcType = CRC32", "pb.CRCType = crcType", "_ = pb.calculateCRC()"] := rfl

/-! ## The CRC register is linear over GF(2) (any width, any polynomial) -/

theorem step_xor {w : Nat} (P s s' : BitVec w) (b b' : Bool) :
    step P (s ^^^ s') (b ^^ b') = step P s b ^^^ step P s' b' :=
  Lemmas.step_xor P s s' b b'

theorem run_xor {w : Nat} (P s s' : BitVec w) (d d' : Bits) (h : d.length = d'.length) :
    run P (s ^^^ s') (xorBits d d') = run P s d ^^^ run P s' d' :=
  Lemmas.run_xor P s s' d d' h

/-- With the top bit of `P` set (the generator polynomial has constant term 1) a zero-input clock is
injective. -/
theorem step0_injective {w : Nat} (P : BitVec w) (hP : P.msb = true) (s s' : BitVec w)
    (h : step P s false = step P s' false) : s = s' :=
  Lemmas.step0_injective P hP s s' h

/-- At most `w` bits fed into the zero register leave it zero only if all of them are zero. -/
theorem run0_window {w : Nat} (P : BitVec w) (hP : P.msb = true) (e : Bits) (hlen : e.length ≤ w)
    (h : run P 0#w e = 0#w) : e = List.replicate e.length false :=
  Lemmas.run0_window P hP e hlen h

/-- **Burst detection, register level**: for every width, every polynomial with constant term 1, every
start state and every length, two different bit strings of equal length whose difference spans at most
`w` positions drive the register into different states. -/
theorem run_burst_detected {w : Nat} (P : BitVec w) (hP : P.msb = true) (s : BitVec w) (d d' : Bits)
    (hlen : d.length = d'.length) (hb : span (xorBits d d') ≤ w) (hne : d ≠ d') :
    run P s d ≠ run P s d' :=
  Lemmas.run_burst_ne P hP s d d' hlen hb hne

/-! ## The two CRCs of BPv7 -/

/-- Check values of the CRC catalogue for "123456789". -/
theorem check_values :
    crcX25 [0x31, 0x32, 0x33, 0x34, 0x35, 0x36, 0x37, 0x38, 0x39] = 0x906E#16 ∧
    crc32c [0x31, 0x32, 0x33, 0x34, 0x35, 0x36, 0x37, 0x38, 0x39] = 0xE3069283#32 := by decide +kernel

/-- The allocation-free evaluation used by the driver is the Spec function. -/
theorem fast_eq_spec (t : Nat) (d : Bytes) : crcFieldFast t d = crcField t d := crcFieldFast_eq t d

/-- **`crc_burst_detected`**: CRC type `t` (1 = CRC-16/X-25, 2 = CRC-32C); two byte strings of equal
length that differ, all differing bits within a window of at most 16 resp. 32 consecutive bit positions
(CRC bit order: least significant bit of a byte first), in any common context `pre … tl` — in particular
with the zeroed CRC field as part of `tl`, and with the burst touching the last data bytes — have
different CRC values. Every length, by induction; no finite check involved. -/
theorem crc_burst_detected (t : Nat) (ht : t = 1 ∨ t = 2) (pre d d' tl : Bytes)
    (hlen : d.length = d'.length)
    (hb : span (xorBits (bitsOf d) (bitsOf d')) ≤ crcWidth t) (hne : d ≠ d') :
    crcField t (pre ++ d ++ tl) ≠ crcField t (pre ++ d' ++ tl) :=
  Lemmas.crcField_burst_ne t ht pre d d' tl hlen hb hne

/-- **`byte_window_detected`**: any change confined to 2 resp. 4 consecutive bytes (whatever the numbering
of bits inside a byte) changes the CRC. -/
theorem byte_window_detected (t : Nat) (ht : t = 1 ∨ t = 2) (pre m m' post : Bytes)
    (hlen : m.length = m'.length) (hw : m.length ≤ crcLen t) (hne : m ≠ m') :
    crcField t (pre ++ m ++ post) ≠ crcField t (pre ++ m' ++ post) :=
  Lemmas.crcField_window_ne t ht pre m m' post hlen hw hne

/-- **`single_bit_detected`**: flipping any one bit of any byte of the input changes the CRC. -/
theorem single_bit_detected (t : Nat) (ht : t = 1 ∨ t = 2) (pre post : Bytes) (x : UInt8) (k : Nat)
    (hk : k < 8) :
    crcField t (pre ++ [x] ++ post) ≠ crcField t (pre ++ [x ^^^ UInt8.ofNat (2 ^ k)] ++ post) :=
  byte_window_detected t ht pre [x] [x ^^^ UInt8.ofNat (2 ^ k)] post rfl
    (by rcases Lemmas.crcLen_cases t ht with ⟨_, h, _⟩ | ⟨_, h, _⟩ <;> simp [h])
    (by intro e; exact Lemmas.flip_ne x k hk (by simpa using e.symm))

/-! ## The model of dtn7's check -/

/-- **`accept_iff_crc`** — full statement (NOT true of the code, see `reencoded_head_witness`): *every
block that declares a CRC (CRC type ≠ 0) is accepted by the parser iff the last `crcLen t` bytes of
exactly the bytes consumed for it are the CRC of those bytes with the field zeroed.* Since the repair of
D5 (6746a33) a declared CRC is always carried and always of a known type, so the only excluded class
left is the known finding "head not in shortest form".

Buffer level: a block whose bytes before the CRC item are `buf` and whose CRC item is the byte string
`field` (shortest head) of the declared length is accepted by the model's check iff `BlockCrcOk`. -/
theorem accept_iff_crc_partial (t : Nat) (ht : t = 1 ∨ t = 2) (buf field rest : Bytes)
    (hf : field.length = crcLen t) :
    checkField buf t (encBytes field ++ rest) = .ok (field, rest) ↔ BlockCrcOk t (buf ++ encBytes field) :=
  Lemmas.accept_iff_crc t ht buf field rest hf

/-- **`declared_crc_is_checked`** (D5 repaired): whatever array length and CRC type value the wire says,
if the model parser gets past the block's fields and the CRC type is not 0, then the array has the CRC
item, the type is CRC-16 or CRC-32, and acceptance went through the comparison. -/
theorem declared_crc_is_checked (bs x r0 r : Bytes) (n t : Nat)
    (hpre : canonicalPre bs = .ok (n, t, r0, r)) (hdecl : t ≠ 0) (hacc : parseCanonical bs = .ok x) :
    n = 6 ∧ (t = 1 ∨ t = 2) ∧ ∃ v, checkField (canonicalBuf 6 r0 r) t r = .ok (v, x) :=
  Lemmas.canonical_declared_checked bs x r0 r n t hpre hdecl hacc

/-- The same facts for the primary block: type known, CRC item present iff declared. -/
theorem primary_declared_has_item (bs r : Bytes) (n t : Nat) (hpre : primaryPre bs = .ok (n, t, r)) :
    t ≤ 2 ∧ ((n = 9 ∨ n = 11) ↔ t ≠ 0) :=
  (Lemmas.primaryPre_ok bs r n t hpre).2

/-- Parser level, canonical block — no assumption on the array length or on the type value: the model
parser read the block's fields (`hpre`), the block declares a CRC (`hdecl`), the array head it consumed
is in shortest form (`hhead`), the CRC item is `encBytes v` with `v` of the declared length. Then the
block is accepted, leaving `x` unread, iff the Spec holds of `consumed bs x` — exactly the received
bytes of that block. -/
theorem canonical_accept_iff_crc_partial (bs r0 r v x : Bytes) (n t : Nat)
    (hpre : canonicalPre bs = .ok (n, t, r0, r)) (hdecl : t ≠ 0)
    (hhead : consumed bs r0 = encArray n)
    (hitem : r = encBytes v ++ x) (hv : v.length = crcLen t) :
    parseCanonical bs = .ok x ↔ BlockCrcOk t (consumed bs x) :=
  Lemmas.canonical_accept_iff_crc_decl bs r0 r v x n t hpre hdecl hhead hitem hv

/-- Parser level, primary block (the array head is tee'd as received, so only the CRC item head has to
be in shortest form). -/
theorem primary_accept_iff_crc_partial (bs r v x : Bytes) (n t : Nat)
    (hpre : primaryPre bs = .ok (n, t, r)) (hdecl : t ≠ 0)
    (hitem : r = encBytes v ++ x) (hv : v.length = crcLen t) :
    parsePrimary bs = .ok x ↔ BlockCrcOk t (consumed bs x) :=
  Lemmas.primary_accept_iff_crc_decl bs r v x n t hpre hdecl hitem hv

/-- Whatever is accepted — any head width, any length — carries the value `calculateCRCBuff` computed:
in particular a CRC item of another length than declared is rejected. -/
theorem accept_imp_value (t : Nat) (buf rest v rest' : Bytes)
    (h : checkField buf t rest = .ok (v, rest')) :
    crcCalc t buf = some v ∧ decBytes rest = .ok (v, rest') :=
  Lemmas.accept_imp t buf rest v rest' h

/-- **`serialize_crc`**: the serialiser appends a byte string of the declared length such that the
finished block satisfies the Spec, and the model's check accepts it. -/
theorem serialize_crc (t : Nat) (ht : t = 1 ∨ t = 2) (buf rest : Bytes) :
    ∃ f, serializeField t buf = some (encBytes f) ∧ f.length = crcLen t ∧
      BlockCrcOk t (buf ++ encBytes f) ∧ checkField buf t (encBytes f ++ rest) = .ok (f, rest) :=
  Lemmas.serialize_crc t ht buf rest

/-- **`setCrcType_primary`**: a created primary block never has CRC type 0. -/
theorem setCrcType_primary (t : Nat) : setCrcTypePrimary t ≠ 0 := by
  unfold setCrcTypePrimary; split <;> omega

/-- **`block_burst_rejected`**: if a block is accepted, then the same block with a burst of at most
the CRC width anywhere in the bytes before the CRC item — lengths, CRC item (in whatever encoding) and
everything after it unchanged, i.e. block boundaries intact — is rejected with "invalid CRC value". -/
theorem block_burst_rejected (t : Nat) (ht : t = 1 ∨ t = 2) (pre d d' post rest v rest' : Bytes)
    (hlen : d.length = d'.length)
    (hb : span (xorBits (bitsOf d) (bitsOf d')) ≤ crcWidth t) (hne : d ≠ d')
    (hacc : checkField (pre ++ d ++ post) t rest = .ok (v, rest')) :
    checkField (pre ++ d' ++ post) t rest = .error .crc :=
  Lemmas.block_burst_rejected t ht pre d d' post rest v rest' hlen hb hne hacc

/-- **`canonical_burst_rejected`** (parser level): two encodings that the model parser delimits the same
way — 6-element array, same CRC type, same unread input `r` after the block-specific data, hence the same
CRC item and the same following blocks — and whose tee'd bytes differ by a burst of at most the CRC
width: if the first is accepted, the second is rejected with "invalid CRC value". -/
theorem canonical_burst_rejected (t : Nat) (ht : t = 1 ∨ t = 2) (bs bs' r0 r0' r x : Bytes)
    (h1 : canonicalPre bs = .ok (6, t, r0, r)) (h2 : canonicalPre bs' = .ok (6, t, r0', r))
    (hlen : (consumed r0 r).length = (consumed r0' r).length)
    (hb : span (xorBits (bitsOf (consumed r0 r)) (bitsOf (consumed r0' r))) ≤ crcWidth t)
    (hne : consumed r0 r ≠ consumed r0' r)
    (hacc : parseCanonical bs = .ok x) : parseCanonical bs' = .error .crc :=
  Lemmas.canonical_burst_rejected t ht bs bs' r0 r0' r x h1 h2 hlen hb hne hacc

/-- **`primary_burst_rejected`**: the same for the primary block (9 or 11 elements; the array head is part
of the protected bytes). -/
theorem primary_burst_rejected (t : Nat) (ht : t = 1 ∨ t = 2) (bs bs' r x : Bytes) (n n' : Nat)
    (hn : n = 9 ∨ n = 11) (hn' : n' = 9 ∨ n' = 11)
    (h1 : primaryPre bs = .ok (n, t, r)) (h2 : primaryPre bs' = .ok (n', t, r))
    (hlen : (consumed bs r).length = (consumed bs' r).length)
    (hb : span (xorBits (bitsOf (consumed bs r)) (bitsOf (consumed bs' r))) ≤ crcWidth t)
    (hne : consumed bs r ≠ consumed bs' r)
    (hacc : parsePrimary bs = .ok x) : parsePrimary bs' = .error .crc :=
  Lemmas.primary_burst_rejected t ht bs bs' r x n n' hn hn' h1 h2 hlen hb hne hacc

/-! Not proved (stated here so that the gap is visible): `straddle_rejected` — a burst of at most the CRC
width that changes the last `j` protected bits before the CRC item, leaves the item's head byte (0x42 /
0x44) intact and changes the first `i` bits of the transmitted value (`j + 8 + i ≤ 16/32`). BPv7 stores a
reflected CRC big-endian over a zeroed field, so this is not an instance of the burst theorem; it is a
finite statement about the two polynomials (a rank computation outside Lean finds no undetected pattern
for either CRC; kernel evaluation of the 2²³ cases through `BitVec` is too slow). The correspondence
enumerates it: every such pattern for CRC-16 blocks, every shape (j, i) with random fillings for CRC-32
blocks, in every block of every generated bundle. The two halves are theorems: `block_burst_rejected`
(change before the value only) and `field_error_rejected` (change of the value only). -/

/-- **`field_error_rejected`**: any change of the transmitted CRC value itself is rejected. -/
theorem field_error_rejected (t : Nat) (buf field field' rest rest' : Bytes)
    (hf' : field'.length ≤ maxInt32) (hne : field ≠ field')
    (hacc : checkField buf t (encBytes field ++ rest) = .ok (field, rest)) :
    checkField buf t (encBytes field' ++ rest') = .error .crc :=
  Lemmas.field_change_rejected t buf field field' rest rest' hf' hne hacc

/-- **`frame_start_rejected`**: every change of the leading 0x9F is rejected. -/
theorem frame_start_rejected (b : UInt8) (rest : Bytes) (h : b.toNat ≠ 0x9F) :
    parseBundle (b :: rest) = .other :=
  Lemmas.frame_start_rejected b rest h

/-- **`frame_end_rejected`**: every single-bit change of the closing 0xFF makes the block loop fail,
whatever follows. -/
theorem frame_end_rejected (x : UInt8)
    (hx : x = 0xFE ∨ x = 0xFD ∨ x = 0xFB ∨ x = 0xF7 ∨ x = 0xEF ∨ x = 0xDF ∨ x = 0xBF ∨ x = 0x7F)
    (rest : Bytes) (fuel k : Nat) : canonicalLoop crcCalc (fuel + 1) k (x :: rest) = .other := by
  have h := Lemmas.frame_end_rejected x hx rest
  unfold parseCanonical at h
  simp [canonicalLoop, h]

/-! ## What is deliberately not a theorem

"Every single-bit change of a fully protected bundle is rejected" without the same-extents hypothesis is
false for an adversarially chosen payload: flipping one bit of the payload length (0x2c → 0x0c) ends the
payload block early, the payload itself supplies a correct CRC item for the shortened block and a break
byte; parsing stops there. Both encodings are accepted by the model (and by the Go parser: `adversarial`
line of the harness). For generated bundles every bit position is enumerated by the harness instead. -/
theorem single_bit_any_witness :
    parseBundle [0x9f, 0x89, 0x07, 0x1a, 0x00, 0x02, 0x00, 0x00, 0x01, 0x82, 0x01, 0x64, 0x2f, 0x2f, 0x64, 0x2f, 0x82, 0x01, 0x64, 0x2f, 0x2f, 0x73, 0x2f, 0x82, 0x01, 0x64, 0x2f, 0x2f, 0x73, 0x2f, 0x82, 0x1b, 0x00, 0x00, 0x00, 0xb3, 0x1b, 0x9c, 0xb2, 0x00, 0x00, 0x1b, 0x00, 0x00, 0x02, 0xde, 0x41, 0x35, 0x30, 0x00, 0x42, 0xd6, 0x77,
      0x86, 0x01, 0x01, 0x00, 0x01, 0x58, 0x2c, 0xa0, 0xa1, 0xa2, 0xa3, 0xa4, 0xa5, 0xa6, 0xa7, 0xa8, 0xa9, 0xaa, 0xab, 0x42, 0x93, 0x52, 0xff, 0x11, 0x11, 0x11, 0x11, 0x11, 0x11, 0x11, 0x11, 0x11, 0x11, 0x11, 0x11, 0x11, 0x11, 0x11, 0x11, 0x11, 0x11, 0x11, 0x11, 0x11, 0x11, 0x11, 0x11, 0x11, 0x11, 0x11, 0x11, 0x42, 0x2b, 0xe5, 0xff]
      = .accept ∧
    parseBundle [0x9f, 0x89, 0x07, 0x1a, 0x00, 0x02, 0x00, 0x00, 0x01, 0x82, 0x01, 0x64, 0x2f, 0x2f, 0x64, 0x2f, 0x82, 0x01, 0x64, 0x2f, 0x2f, 0x73, 0x2f, 0x82, 0x01, 0x64, 0x2f, 0x2f, 0x73, 0x2f, 0x82, 0x1b, 0x00, 0x00, 0x00, 0xb3, 0x1b, 0x9c, 0xb2, 0x00, 0x00, 0x1b, 0x00, 0x00, 0x02, 0xde, 0x41, 0x35, 0x30, 0x00, 0x42, 0xd6, 0x77,
      0x86, 0x01, 0x01, 0x00, 0x01, 0x58, 0x0c, 0xa0, 0xa1, 0xa2, 0xa3, 0xa4, 0xa5, 0xa6, 0xa7, 0xa8, 0xa9, 0xaa, 0xab, 0x42, 0x93, 0x52, 0xff, 0x11, 0x11, 0x11, 0x11, 0x11, 0x11, 0x11, 0x11, 0x11, 0x11, 0x11, 0x11, 0x11, 0x11, 0x11, 0x11, 0x11, 0x11, 0x11, 0x11, 0x11, 0x11, 0x11, 0x11, 0x11, 0x11, 0x11, 0x11, 0x42, 0x2b, 0xe5, 0xff]
      = .accept := by decide +kernel

/-! ## What is *not* true of the code (recorded as known findings, `known_findings.d/C03.json`) -/

/-- The CRC is computed over a *re-encoded* head, not over the received bytes: a canonical block whose
array head is the two-byte form `98 06` is accepted with the CRC of the `86 …` form (the model says so
and the Go code does so), although that is not the CRC of the received bytes. This is the witness against
the full `accept_iff_crc` (hypothesis `hhead` of `canonical_accept_iff_crc_partial`). -/
theorem reencoded_head_witness :
    parseCanonical [0x98, 0x06, 0x01, 0x01, 0x00, 0x01, 0x41, 0x78, 0x42, 0x27, 0x00] = .ok [] ∧
    ¬ BlockCrcOk 1 [0x98, 0x06, 0x01, 0x01, 0x00, 0x01, 0x41, 0x78, 0x42, 0x27, 0x00] ∧
    BlockCrcOk 1 [0x86, 0x01, 0x01, 0x00, 0x01, 0x41, 0x78, 0x42, 0x27, 0x00] := by decide +kernel

/-- D5 (repaired by 6746a33; was a witness against `accept_iff_crc`): a 5-element block with CRC type 1
or 3, a 6-element block with CRC type 0 and an empty byte string — the encodings the unrepaired code
accepted — are rejected; the Spec side still classifies the first as "declared but absent". -/
theorem declared_but_absent_rejected :
    parseCanonical [0x85, 0x01, 0x01, 0x00, 0x01, 0x41, 0x78] = .error .other ∧
    parseCanonical [0x85, 0x01, 0x01, 0x00, 0x03, 0x41, 0x78] = .error .other ∧
    parseCanonical [0x86, 0x01, 0x01, 0x00, 0x00, 0x41, 0x78, 0x40] = .error .other ∧
    crcStatus false ⟨[0x85, 0x01, 0x01, 0x00, 0x01, 0x41, 0x78], [[0x01], [0x01], [0x00], [0x01], [0x41, 0x78]]⟩
      = .absent 1 := by decide +kernel

/-! ## Non-vacuity -/

example : span (xorBits (bitsOf [0x00, 0x80, 0x01]) (bitsOf [0x00, 0x00, 0x00])) = 2 := by decide
example : span (xorBits (bitsOf [0xff, 0x12]) (bitsOf [0x00, 0x13])) = 9 := by decide
example : crcField 1 ([1] ++ [0x00, 0x80, 0x01] ++ [9]) ≠ crcField 1 ([1] ++ [0x00, 0x00, 0x00] ++ [9]) :=
  crc_burst_detected 1 (Or.inl rfl) [1] [0x00, 0x80, 0x01] [0x00, 0x00, 0x00] [9] rfl (by decide) (by decide)
example : BlockCrcOk 1 [0x86, 0x01, 0x01, 0x00, 0x01, 0x41, 0x78, 0x42, 0x27, 0x00] := by decide +kernel
example : canonicalPre [0x86, 0x01, 0x01, 0x00, 0x01, 0x41, 0x78, 0x42, 0x27, 0x00, 0xff]
    = .ok (6, 1, [0x01, 0x01, 0x00, 0x01, 0x41, 0x78, 0x42, 0x27, 0x00, 0xff], [0x42, 0x27, 0x00, 0xff]) := by
  decide +kernel
example : parseCanonical [0x86, 0x01, 0x01, 0x00, 0x01, 0x41, 0x78, 0x42, 0x27, 0x00, 0xff] = .ok [0xff] := by
  decide +kernel
example : consumed [0x86, 0x01, 0x01, 0x00, 0x01, 0x41, 0x78, 0x42, 0x27, 0x00, 0xff]
    [0x01, 0x01, 0x00, 0x01, 0x41, 0x78, 0x42, 0x27, 0x00, 0xff] = encArray 6 := by decide +kernel
example : primaryPre [0x89, 0x07, 0x1a, 0x00, 0x02, 0x00, 0x00, 0x01, 0x82, 0x01, 0x64, 0x2f, 0x2f, 0x64, 0x2f,
    0x82, 0x01, 0x64, 0x2f, 0x2f, 0x73, 0x2f, 0x82, 0x01, 0x64, 0x2f, 0x2f, 0x73, 0x2f, 0x82, 0x1b, 0x00, 0x00,
    0x00, 0xb3, 0x1b, 0x9c, 0xb2, 0x00, 0x00, 0x1b, 0x00, 0x00, 0x02, 0xde, 0x41, 0x35, 0x30, 0x00, 0x42, 0xd6,
    0x77, 0x86] = .ok (9, 1, encBytes [0xd6, 0x77] ++ [0x86]) := by decide +kernel
example : checkField [0x86, 0x01, 0x01, 0x00, 0x01, 0x41, 0x78] 1 (encBytes [0x27, 0x00] ++ [0xff])
    = .ok ([0x27, 0x00], [0xff]) := by decide +kernel
example : P16.msb = true ∧ P32.msb = true := by decide

end Dtn7.Props.C03
