/-
C02 — only well-formed bundles are accepted; the node only produces well-formed ones.
Property theorems only; helper lemmas live in `Dtn7.Lemmas.*`.
-/
import Dtn7.Model.Bundle
import Dtn7.Model.BundleSpec
import Dtn7.Model.ExpectedC02
import Dtn7.Gen.C02
import Dtn7.Lemmas.BundleValid
import Dtn7.Lemmas.BundleTop

namespace Dtn7.Props.C02
open Dtn7.Cbor Dtn7.Eid Dtn7.Bundle

/-! ### Tie to the source: regenerated facts -/

theorem gen_no_extraction_failure : Dtn7.Gen.C02.extractionFailures = [] := rfl

/-- Every flag is the single bit the model tests, codes and the epoch offset agree. -/
theorem gen_constants :
    Gen.C02.dtnVersion = dtnVersion ∧
    Gen.C02.isFragment = 2 ^ bIsFragment ∧ Gen.C02.adminRecord = 2 ^ bAdminRecord ∧
    Gen.C02.mustNotFragment = 2 ^ bMustNotFragment ∧ Gen.C02.appAck = 2 ^ bAppAck ∧
    Gen.C02.statusTime = 2 ^ bStatusTime ∧ Gen.C02.srReception = 2 ^ bSrReception ∧
    Gen.C02.srForward = 2 ^ bSrForward ∧ Gen.C02.srDelivery = 2 ^ bSrDelivery ∧
    Gen.C02.srDeletion = 2 ^ bSrDeletion ∧
    Gen.C02.replicateBlock = 2 ^ kReplicate ∧ Gen.C02.statusReportBlock = 2 ^ kStatusReport ∧
    Gen.C02.deleteBundle = 2 ^ kDeleteBundle ∧ Gen.C02.removeBlock = 2 ^ kRemoveBlock ∧
    Gen.C02.tPayload = tPayload ∧ Gen.C02.tPrevNode = tPrevNode ∧ Gen.C02.tAge = tAge ∧
    Gen.C02.tHop = tHop ∧ (Gen.C02.ms1970To2k : Int) = ms1970To2k := by decide

/-- Validation is the last statement of the parser, and every producer runs it before handing a
bundle out (`NewBundle`, `Build` → `NewBundle`, `BuildFromMap` → `Build`, `Fragment` per fragment,
`ReassembleFragments`). Deleting one of these calls is invisible to the repository's tests. -/
theorem gen_validation_calls :
    Gen.C02.unmarshalEndsInCheckValid = true ∧ Gen.C02.newBundleChecks = true ∧
    Gen.C02.buildUsesNewBundle = true ∧ Gen.C02.buildFromMapUsesBuild = true ∧
    Gen.C02.fragmentChecks = true ∧ Gen.C02.fragmentChecksEveryFragment = true ∧
    Gen.C02.reassembleChecks = true := by decide

/-- The node's own bundles (status reports, pongs, routing metadata) are made by these `Builder()`
call chains in pkg/routing and pkg/agent; the producer stream of the harness runs the same chains. -/
theorem gen_node_chains :
    Gen.C02.statusReportChain =
      ["bpv7.Builder().CRC().Source().Destination().CreationTimestampNow().Lifetime().StatusReport().Build"] ∧
    Gen.C02.pongChain =
      ["bpv7.Builder().CRC().Source().Destination().BundleCtrlFlags().CreationTimestampNow().Lifetime().HopCountBlock().PayloadBlock().Build"] ∧
    Gen.C02.metadataChain =
      ["bundleBuilder.Source", "bundleBuilder.Destination", "bundleBuilder.CreationTimestampNow",
       "bundleBuilder.Lifetime", "bundleBuilder.BundleCtrlFlags", "bundleBuilder.PayloadBlock",
       "bundleBuilder.Canonical", "bundleBuilder.Build"] := ⟨rfl, rfl, rfl⟩

/-- The rule list inside the `CheckValid` family has the shape the model `checkValid` mirrors. -/
theorem gen_rule_skeletons :
    Gen.C02.bundleCheckValid = Expected.C02.bundleCheckValid ∧
    Gen.C02.isLifetimeExceeded = Expected.C02.isLifetimeExceeded ∧
    Gen.C02.primaryCheckValid = Expected.C02.primaryCheckValid ∧
    Gen.C02.canonicalCheckValid = Expected.C02.canonicalCheckValid ∧
    Gen.C02.bundleFlagsCheckValid = Expected.C02.bundleFlagsCheckValid ∧
    Gen.C02.bundleFlagsHas = Expected.C02.bundleFlagsHas ∧
    Gen.C02.blockFlagsCheckValid = Expected.C02.blockFlagsCheckValid ∧
    Gen.C02.eidCheckValid = Expected.C02.eidCheckValid ∧
    Gen.C02.dtnCheckValid = Expected.C02.dtnCheckValid ∧
    Gen.C02.ipnCheckValid = Expected.C02.ipnCheckValid ∧
    Gen.C02.hopCheckValid = Expected.C02.hopCheckValid ∧
    Gen.C02.hopIsExceeded = Expected.C02.hopIsExceeded ∧
    Gen.C02.prevNodeCheckValid = Expected.C02.prevNodeCheckValid ∧
    Gen.C02.signatureCheckValid = Expected.C02.signatureCheckValid ∧
    Gen.C02.dtlsrCheckValid = Expected.C02.dtlsrCheckValid ∧
    Gen.C02.prophetCheckValid = Expected.C02.prophetCheckValid ∧
    Gen.C02.sortLess = Expected.C02.sortLess ∧
    Gen.C02.bundleUnmarshal = Expected.C02.bundleUnmarshal :=
  ⟨rfl, rfl, rfl, rfl, rfl, rfl, rfl, rfl, rfl, rfl, rfl, rfl, rfl, rfl, rfl, rfl, rfl, rfl⟩

/-! ### Theorems -/

/-- **`CheckValid` is sound**: a structure that passes the model of `Bundle.CheckValid` (at time
`now`) obeys every rule of the statement. Holds for the code with and without the repairs. -/
theorem checkValid_sound (strict : Bool) (now : Nat) (b : Bundle) (h : checkValid strict now b = true) :
    WellFormed now b :=
  Lemmas.checkValid_sound strict now b h

/-- **Only well-formed bundles are accepted**: whatever byte string the parser accepts — with
whatever is registered, whatever follows the bundle — decodes to a well-formed bundle. (The proof
uses that parsing ends in `CheckValid`: `gen_validation_calls`.) -/
theorem parse_sound (cfg : Cfg) (now : Nat) (bs : Bytes) (b : Bundle) (r : Bytes)
    (h : parse cfg now bs = .ok (b, r)) : WellFormed now b :=
  Lemmas.checkValid_sound cfg.strict now b (Lemmas.parse_ok_iff.mp h).2

/-- Contrapositive, the form the rule-by-rule exploration uses: a decoded structure that breaks any
rule is rejected. -/
theorem ill_formed_rejected (cfg : Cfg) (now : Nat) (bs : Bytes) (b : Bundle) (r : Bytes)
    (hraw : parseRaw cfg bs = .ok (b, r)) (hbad : ¬ WellFormed now b) :
    ∃ e, parse cfg now bs = .error e := by
  cases hp : parse cfg now bs with
  | error e => exact ⟨e, rfl⟩
  | ok x =>
    obtain ⟨b', r'⟩ := x
    have h := Lemmas.parse_ok_iff.mp hp
    rw [hraw] at h
    simp only [Except.ok.injEq, Prod.mk.injEq] at h
    obtain ⟨⟨rfl, rfl⟩, hv⟩ := h
    exact absurd (Lemmas.checkValid_sound cfg.strict now b hv) hbad

/-- **Producers**: every producer hands out a bundle only after `CheckValid` passed
(`gen_validation_calls`: `NewBundle`, `Build`, `BuildFromMap`, `Fragment`, `ReassembleFragments`).
Such a bundle is well-formed, and — when its structure is one the wire can carry (`Encodable`) — it
serialises and the parser accepts exactly those bytes as the same bundle. -/
theorem produced_wellformed_and_accepted (cfg : Cfg) (hs : cfg.strict = true) (now : Nat) (b : Bundle)
    (hchk : checkValid cfg.strict now b = true) (he : Encodable cfg b) :
    WellFormed now b ∧ serialize b = .ok (serializeRaw b) ∧
      parse cfg now (serializeRaw b) = .ok (b, []) := by
  have h := Lemmas.parse_serialize cfg hs now b he hchk []
  rw [List.append_nil] at h
  exact ⟨Lemmas.checkValid_sound cfg.strict now b hchk, h.1, h.2⟩

/-- **Fragmentation is sound**: every fragment the loop of `Bundle.Fragment` hands out — the first
and every later one, whatever offset, total length and slice — is well-formed. The proof rests on
the per-fragment `CheckValid` (`gen_validation_calls`: `fragmentChecksEveryFragment`). -/
theorem fragment_sound (strict : Bool) (now : Nat) (b : Bundle) (first : Bool) (off total : Nat)
    (slice : Bytes) (f : Bundle) (h : fragmentChecked strict now b first off total slice = some f) :
    WellFormed now f := by
  unfold fragmentChecked at h
  split at h
  · rename_i hv
    simp only [Option.some.injEq] at h
    rw [← h]; exact Lemmas.checkValid_sound strict now _ hv
  · simp at h

/-- What the drivers evaluate on the implementation's outputs is this Spec predicate. -/
theorem wfRules_iff (now : Nat) (b : Bundle) : (wfRules now b).all (·.2) = true ↔ WellFormed now b :=
  Lemmas.wfRules_iff now b

/-! ### Every rule is needed: a structure violating (only) that rule, and its rejection

`brokenRules` lists the rules of `WellFormed` that fail. Two rules are consequences of others and
cannot fail alone: "exactly one payload block" follows from "payload last" + "one block per type",
and "zero creation time ⇒ age block" is part of "lifetime not run out" for a zero creation time. -/

def wNow : Nat := 800000000000
def wHop : Canonical := ⟨2, 0, 0, .hop 10 3⟩
def wAge : Canonical := ⟨3, 0, 0, .age 5⟩
def wPay : Canonical := ⟨1, 0, 0, .payload [1, 2, 3]⟩
def wPrimary : Primary := ⟨7, 0, 2, .ipn 2 1, .ipn 1 1, .ipn 1 1, 799999990000, 0, 3600000, 0, 0⟩
def wBase : Bundle := ⟨wPrimary, [wHop, wAge, wPay]⟩

/-- Non-vacuity: the base structure is valid, well-formed and encodable. -/
theorem base_valid : checkValid true wNow wBase = true ∧ brokenRules wNow wBase = [] ∧
    Encodable {} wBase := by decide +kernel

theorem rule_needed_version :
    let w : Bundle := ⟨{ wPrimary with version := 6 }, wBase.blocks⟩
    brokenRules wNow w = ["version"] ∧ checkValid true wNow w = false := by decide +kernel

theorem rule_needed_payload_number :
    let w : Bundle := ⟨wPrimary, [wHop, wAge, { wPay with num := 4 }]⟩
    brokenRules wNow w = ["payload-block-number-1"] ∧ checkValid true wNow w = false := by decide +kernel

theorem rule_needed_payload_last :
    let w : Bundle := ⟨wPrimary, [wHop, wPay, wAge]⟩
    brokenRules wNow w = ["payload-block-last"] ∧ checkValid true wNow w = false := by decide +kernel

theorem rule_needed_unique_numbers :
    let w : Bundle := ⟨wPrimary, [wHop, { wAge with num := 2 }, wPay]⟩
    brokenRules wNow w = ["unique-block-numbers"] ∧ checkValid true wNow w = false := by decide +kernel

theorem rule_needed_one_per_type :
    let w : Bundle := ⟨wPrimary, [⟨4, 0, 0, .generic 50 []⟩, ⟨5, 0, 0, .generic 50 [1]⟩, wPay]⟩
    brokenRules wNow w = ["one-block-per-type"] ∧ checkValid true wNow w = false := by decide +kernel

theorem rule_needed_primary_eids :
    let w : Bundle := ⟨{ wPrimary with dst := .ipn 0 1 }, wBase.blocks⟩
    brokenRules wNow w = ["primary-endpoint-ids"] ∧ checkValid true wNow w = false := by decide +kernel

theorem rule_needed_block_eids :
    let w : Bundle := ⟨wPrimary, [⟨4, 0, 0, .prevNode (.ipn 0 0)⟩, wPay]⟩
    brokenRules wNow w = ["block-endpoint-ids"] ∧ checkValid true wNow w = false := by decide +kernel

theorem rule_needed_fragment_vs_mnf :
    let w : Bundle := ⟨{ wPrimary with flags := 5 }, wBase.blocks⟩
    brokenRules wNow w = ["fragment-vs-must-not-fragment"] ∧ checkValid true wNow w = false := by
  decide +kernel

theorem rule_needed_admin_status_flags :
    let w : Bundle := ⟨{ wPrimary with flags := 2 + 2 ^ 14 }, wBase.blocks⟩
    brokenRules wNow w = ["admin-or-anonymous-requests-status"] ∧ checkValid true wNow w = false := by
  decide +kernel

theorem rule_needed_admin_reporting_block :
    let w : Bundle := ⟨{ wPrimary with flags := 2 }, [{ wHop with flags := 2 }, wPay]⟩
    brokenRules wNow w = ["admin-or-anonymous-requests-status"] ∧ checkValid true wNow w = false := by
  decide +kernel

theorem rule_needed_anonymous_mnf :
    let w : Bundle := ⟨{ wPrimary with src := .none }, wBase.blocks⟩
    brokenRules wNow w = ["anonymous-without-must-not-fragment"] ∧ checkValid true wNow w = false := by
  decide +kernel

theorem rule_needed_zero_time_age :
    let w : Bundle := ⟨{ wPrimary with tsTime := 0 }, [wHop, wPay]⟩
    brokenRules wNow w = ["zero-time-without-age-block", "lifetime-run-out"] ∧
      checkValid true wNow w = false := by decide +kernel

theorem rule_needed_hop_count :
    let w : Bundle := ⟨wPrimary, [{ wHop with value := .hop 3 4 }, wPay]⟩
    brokenRules wNow w = ["hop-count-above-limit"] ∧ checkValid true wNow w = false := by decide +kernel

theorem rule_needed_lifetime_by_time :
    let w : Bundle := ⟨{ wPrimary with lifetime := 1 }, wBase.blocks⟩
    brokenRules wNow w = ["lifetime-run-out"] ∧ checkValid true wNow w = false := by decide +kernel

theorem rule_needed_lifetime_by_age :
    let w : Bundle := ⟨{ wPrimary with tsTime := 0, lifetime := 4 }, wBase.blocks⟩
    brokenRules wNow w = ["lifetime-run-out"] ∧ checkValid true wNow w = false := by decide +kernel

theorem rule_needed_one_payload :
    let w : Bundle := ⟨wPrimary, [wHop, wAge]⟩
    brokenRules wNow w = ["one-payload-block", "payload-block-last"] ∧
      checkValid true wNow w = false := by decide +kernel

/-- The same through the wire: the violating structure, serialised by the model of `MarshalCbor`
(CRCs computed), is rejected by the model of `ParseBundle`; the base structure is accepted. -/
theorem wire_rejects_hop_count :
    (parse {} wNow (serializeRaw ⟨wPrimary, [{ wHop with value := .hop 3 4 }, wPay]⟩)).toOption = none ∧
    (parse {} wNow (serializeRaw wBase)).toOption = some (wBase, []) := by decide +kernel

/-- Why the check is needed for the later fragments too: a valid bundle with creation time zero whose
age block is not replicated. Its first fragment is valid, a later one has no age block — it is not
well-formed, and the loop refuses it (so `Fragment` fails instead of handing it out). -/
def wZeroTime : Bundle :=
  ⟨{ wPrimary with tsTime := 0 }, [{ wHop with flags := 1 }, wAge, { wPay with value := .payload [1, 2, 3, 4, 5, 6] }]⟩

theorem fragment_check_needed :
    checkValid true wNow wZeroTime = true ∧
    (fragmentChecked true wNow wZeroTime true 0 6 [1, 2, 3]).isSome = true ∧
    brokenRules wNow (fragmentOf wZeroTime false 3 6 [4, 5, 6]) =
      ["zero-time-without-age-block", "lifetime-run-out"] ∧
    fragmentChecked true wNow wZeroTime false 3 6 [4, 5, 6] = none := by decide +kernel

end Dtn7.Props.C02
