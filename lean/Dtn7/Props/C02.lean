/-
C02 — only well-formed bundles are accepted; the node only produces well-formed ones.
Property theorems only; helper lemmas live in `Dtn7.Lemmas.*`.
-/
import Dtn7.Model.Bundle
import Dtn7.Model.BundleSpec
import Dtn7.Model.ExpectedC02
import Dtn7.Gen.C02

namespace Dtn7.Props.C02
open Dtn7.Cbor Dtn7.Eid Dtn7.Bundle

/-! ### Tie to the source: regenerated facts -/

theorem gen_no_extraction_failure : Dtn7.Gen.C02.extractionFailures = [] := rfl

/-- Every flag is the single bit the model tests, codes and the epoch offset agree. -/
theorem gen_constants :
    Gen.C02.dtnVersion = dtnVersion ∧
    Gen.C02.isFragment = 2 ^ bIsFragment ∧ Gen.C02.adminRecord = 2 ^ bAdminRecord ∧
    Gen.C02.mustNotFragment = 2 ^ bMustNotFragment ∧ Gen.C02.appAck = 2 ^ bAppAck ∧
    Gen.C02.statusTime = 2 ^ bStatusTime ∧ Gen.C02.srReception = 2 ^ bSrReception ∧
    Gen.C02.srForward = 2 ^ bSrForward ∧ Gen.C02.srDelivery = 2 ^ bSrDelivery ∧
    Gen.C02.srDeletion = 2 ^ bSrDeletion ∧
    Gen.C02.replicateBlock = 2 ^ kReplicate ∧ Gen.C02.statusReportBlock = 2 ^ kStatusReport ∧
    Gen.C02.deleteBundle = 2 ^ kDeleteBundle ∧ Gen.C02.removeBlock = 2 ^ kRemoveBlock ∧
    Gen.C02.tPayload = tPayload ∧ Gen.C02.tPrevNode = tPrevNode ∧ Gen.C02.tAge = tAge ∧
    Gen.C02.tHop = tHop ∧ (Gen.C02.ms1970To2k : Int) = ms1970To2k := by decide

/-- Validation is the last statement of the parser, and every producer runs it before handing a
bundle out (`NewBundle`, `Build` → `NewBundle`, `BuildFromMap` → `Build`, `Fragment` per fragment,
`ReassembleFragments`). Deleting one of these calls is invisible to the repository's tests. -/
theorem gen_validation_calls :
    Gen.C02.unmarshalEndsInCheckValid = true ∧ Gen.C02.newBundleChecks = true ∧
    Gen.C02.buildUsesNewBundle = true ∧ Gen.C02.buildFromMapUsesBuild = true ∧
    Gen.C02.fragmentChecks = true ∧ Gen.C02.reassembleChecks = true := by decide

/-- The rule list inside the `CheckValid` family has the shape the model `checkValid` mirrors. -/
theorem gen_rule_skeletons :
    Gen.C02.bundleCheckValid = Expected.C02.bundleCheckValid ∧
    Gen.C02.isLifetimeExceeded = Expected.C02.isLifetimeExceeded ∧
    Gen.C02.primaryCheckValid = Expected.C02.primaryCheckValid ∧
    Gen.C02.canonicalCheckValid = Expected.C02.canonicalCheckValid ∧
    Gen.C02.bundleFlagsCheckValid = Expected.C02.bundleFlagsCheckValid ∧
    Gen.C02.bundleFlagsHas = Expected.C02.bundleFlagsHas ∧
    Gen.C02.blockFlagsCheckValid = Expected.C02.blockFlagsCheckValid ∧
    Gen.C02.eidCheckValid = Expected.C02.eidCheckValid ∧
    Gen.C02.dtnCheckValid = Expected.C02.dtnCheckValid ∧
    Gen.C02.ipnCheckValid = Expected.C02.ipnCheckValid ∧
    Gen.C02.hopCheckValid = Expected.C02.hopCheckValid ∧
    Gen.C02.hopIsExceeded = Expected.C02.hopIsExceeded ∧
    Gen.C02.prevNodeCheckValid = Expected.C02.prevNodeCheckValid ∧
    Gen.C02.signatureCheckValid = Expected.C02.signatureCheckValid ∧
    Gen.C02.dtlsrCheckValid = Expected.C02.dtlsrCheckValid ∧
    Gen.C02.prophetCheckValid = Expected.C02.prophetCheckValid ∧
    Gen.C02.sortLess = Expected.C02.sortLess ∧
    Gen.C02.bundleUnmarshal = Expected.C02.bundleUnmarshal :=
  ⟨rfl, rfl, rfl, rfl, rfl, rfl, rfl, rfl, rfl, rfl, rfl, rfl, rfl, rfl, rfl, rfl, rfl, rfl⟩

end Dtn7.Props.C02
