/-
C04 — bytes from the network or clients can never crash, hang or balloon the node.
Property theorems only; helper lemmas live in `Dtn7.Lemmas.Decoders`.

Three layers:
1. the regenerated ALLOCATION-SITE TABLE of the decoder files (`Gen.C04.allocSites`, extract/c04.go) is
   exactly the expected one and every site in it is `Bounded` (one recorded exception: the xz reader);
2. the decoder models (`Dtn7.Decoders`) never allocate more than `C + K·arrived` on the word of a length
   or count field and never run out of the fuel the input length provides;
3. the segment size negotiated from a peer's SESS_INIT lies in `1 … MaxSegmentMtu`, and with such a size
   every `NextSegment` consumes input, so `Send` emits at most `len(bundle)` segments.
-/
import Dtn7.Model.Decoders
import Dtn7.Lemmas.Cbor
import Dtn7.Lemmas.Decoders
import Dtn7.Gen.C04

namespace Dtn7.Props.C04
open Dtn7.Gen.C04 Dtn7.Decoders

/-! ## 1. Allocation sites -/

/-- The table as it must be for the code that exists (after the repairs of D8–D11). A new `make` on a
wire count, a removed guard, a raised cap or a new decoder loop changes `Gen.C04.allocSites` and breaks
`alloc_sites_expected`. -/
def expected : List Site := [
  ⟨"cboring:strings.go", "ReadRawBytes", "make", "l", "[]byte", .param, "uint64", "l > math.MaxInt32 => return; l <= 1024*1024", some 1048576, 0, false⟩,
  ⟨"cboring:strings.go", "ReadRawBytes", "readfull", "data = make([]byte, l)", "", .param, "uint64", "l > math.MaxInt32 => return; l <= 1024*1024", some 1048576, 0, false⟩,
  ⟨"cboring:strings.go", "ReadRawBytes", "copyn", "int64(l)", "&buf", .param, "uint64", "l > math.MaxInt32 => return; !(l <= 1024*1024)", some 2147483647, 0, false⟩,
  ⟨"cboring:strings.go", "ReadByteString", "readraw", "n", "", .wire, "", "", none, 0, false⟩,
  ⟨"cboring:strings.go", "ReadTextString", "readraw", "n", "", .wire, "", "", none, 0, false⟩,
  ⟨"pkg/agent/rest_agent.go", "RestAgent.randomUuid", "make", "16", "[]byte", .const, "", "", none, 0, false⟩,
  ⟨"pkg/agent/rest_agent.go", "RestAgent.handleFetch", "make", "0", "[]bpv7.Bundle", .const, "", "", none, 0, false⟩,
  ⟨"pkg/agent/ws_agent_msg_impl.go", "wamStatus.UnmarshalCbor", "readstring", "cboring.ReadTextString", "", .wire, "", "", none, 0, false⟩,
  ⟨"pkg/agent/ws_agent_msg_impl.go", "wamRegister.UnmarshalCbor", "readstring", "cboring.ReadTextString", "", .wire, "", "", none, 0, false⟩,
  ⟨"pkg/agent/ws_agent_msg_impl.go", "wamSyscallRequest.UnmarshalCbor", "readstring", "cboring.ReadTextString", "", .wire, "", "", none, 0, false⟩,
  ⟨"pkg/agent/ws_agent_msg_impl.go", "wamSyscallResponse.UnmarshalCbor", "readstring", "cboring.ReadTextString", "", .wire, "", "", none, 0, false⟩,
  ⟨"pkg/agent/ws_agent_msg_impl.go", "wamSyscallResponse.UnmarshalCbor", "readstring", "cboring.ReadByteString", "", .wire, "", "", none, 0, false⟩,
  ⟨"pkg/bpv7/administrative_record.go", "AdministrativeRecordManager.IsKnown", "call", "arm.data.Load(typeCode)", "arm.data.Load", .param, "uint64", "", none, 0, false⟩,
  ⟨"pkg/bpv7/administrative_record.go", "AdministrativeRecordManager.ReadAdministrativeRecord", "call", "arm.data.Load(typeCode)", "arm.data.Load", .wire, "", "", none, 0, false⟩,
  ⟨"pkg/bpv7/administrative_record_status_report.go", "BundleStatusItem.UnmarshalCbor", "call", "DtnTime(n)", "DtnTime", .wire, "", "n != 1 && n != 2 => return", none, 0, false⟩,
  ⟨"pkg/bpv7/administrative_record_status_report.go", "NewStatusReport", "make", "maxStatusInformationPos", "[]BundleStatusItem", .const, "", "", none, 0, false⟩,
  ⟨"pkg/bpv7/administrative_record_status_report.go", "StatusReport.UnmarshalCbor", "make", "0", "[]BundleStatusItem", .const, "", "", none, 0, false⟩,
  ⟨"pkg/bpv7/administrative_record_status_report.go", "StatusReport.UnmarshalCbor", "makecap", "maxStatusInformationPos", "[]BundleStatusItem", .const, "", "", none, 0, false⟩,
  ⟨"pkg/bpv7/administrative_record_status_report.go", "StatusReport.UnmarshalCbor", "loop", "statusInformationLen", "", .wire, "", "", none, 0, true⟩,
  ⟨"pkg/bpv7/administrative_record_status_report.go", "StatusReport.UnmarshalCbor", "call", "StatusReportReason(n)", "StatusReportReason", .wire, "", "", none, 0, false⟩,
  ⟨"pkg/bpv7/bundle.go", "Bundle.HasExtensionBlock", "call", "b.ExtensionBlock(blockType)", "b.ExtensionBlock", .param, "uint64", "", none, 0, false⟩,
  ⟨"pkg/bpv7/bundle.go", "Bundle.RemoveExtensionBlockByBlockNumber", "slice", "b.CanonicalBlocks[:i] @ i", "", .loc, "", "", none, 0, false⟩,
  ⟨"pkg/bpv7/bundle.go", "Bundle.RemoveExtensionBlockByBlockNumber", "slice", "b.CanonicalBlocks[i+1:] @ i + 1", "", .loc, "", "", none, 0, false⟩,
  ⟨"pkg/bpv7/bundle.go", "Bundle.UnmarshalCbor", "loopbreak", "", "", .wire, "", "", none, 0, true⟩,
  ⟨"pkg/bpv7/bundle.go", "Bundle.MarshalJSON", "make", "len(b.CanonicalBlocks)", "[]json.Marshaler", .lenMem, "", "", none, 0, false⟩,
  ⟨"pkg/bpv7/canonical_block.go", "CanonicalBlock.UnmarshalCbor", "call", "cboring.WriteArrayLength(blockLen)", "cboring.WriteArrayLength", .wire, "uint64", "blockLen == 6", some 6, 0, false⟩,
  ⟨"pkg/bpv7/canonical_block.go", "CanonicalBlock.UnmarshalCbor", "call", "BlockControlFlags(bcf)", "BlockControlFlags", .wire, "", "", none, 0, false⟩,
  ⟨"pkg/bpv7/canonical_block.go", "CanonicalBlock.UnmarshalCbor", "call", "emptyCRC(CRCType(crcT))", "emptyCRC", .wire, "", "", none, 0, false⟩,
  ⟨"pkg/bpv7/canonical_block.go", "CanonicalBlock.UnmarshalCbor", "call", "CRCType(crcT)", "CRCType", .wire, "", "", none, 0, false⟩,
  ⟨"pkg/bpv7/canonical_block.go", "CanonicalBlock.UnmarshalCbor", "call", "CRCType(crcT)", "CRCType", .wire, "", "", none, 0, false⟩,
  ⟨"pkg/bpv7/canonical_block.go", "CanonicalBlock.UnmarshalCbor", "call", "CRCType(crcT)", "CRCType", .wire, "", "!(hasCrc != (CRCType(crcT) != CRCNo))", none, 0, false⟩,
  ⟨"pkg/bpv7/canonical_block.go", "CanonicalBlock.UnmarshalCbor", "call", "GetExtensionBlockManager().ReadBlock(blockType)", "GetExtensionBlockManager().ReadBlock", .wire, "uint64", "", none, 0, false⟩,
  ⟨"pkg/bpv7/canonical_block.go", "CanonicalBlock.UnmarshalCbor", "readstring", "cboring.ReadByteString", "", .wire, "", "", none, 0, false⟩,
  ⟨"pkg/bpv7/endpoint_dtn.go", "NewDtnEndpoint", "slice", "uri[len(dtnEndpointSchemeName)+1:] @ len(dtnEndpointSchemeName) + 1", "", .lenMem, "", "!strings.HasPrefix(uri, dtnEndpointSchemeName+\":\") => return", none, 0, false⟩,
  ⟨"pkg/bpv7/endpoint_dtn.go", "DtnEndpoint.UnmarshalCbor", "readraw", "n", "", .wire, "", "", none, 0, false⟩,
  ⟨"pkg/bpv7/extension_block.go", "ExtensionBlockManager.ReadBlock", "call", "ebm.createBlock(typeCode)", "ebm.createBlock", .param, "uint64", "", none, 0, false⟩,
  ⟨"pkg/bpv7/extension_block.go", "ExtensionBlockManager.ReadBlock", "readstring", "cboring.ReadByteString", "", .wire, "", "", none, 0, false⟩,
  ⟨"pkg/bpv7/extension_block.go", "ExtensionBlockManager.ReadBlock", "readstring", "cboring.ReadByteString", "", .wire, "", "", none, 0, false⟩,
  ⟨"pkg/bpv7/extension_block_bundle_age.go", "NewBundleAgeBlock", "call", "BundleAgeBlock(ms)", "BundleAgeBlock", .param, "uint64", "", none, 0, false⟩,
  ⟨"pkg/bpv7/extension_block_bundle_age.go", "BundleAgeBlock.UnmarshalCbor", "call", "BundleAgeBlock(us)", "BundleAgeBlock", .wire, "", "", none, 0, false⟩,
  ⟨"pkg/bpv7/extension_block_dtlsr.go", "DTLSRBlock.UnmarshalCbor", "call", "DtnTime(timestamp)", "DtnTime", .wire, "", "", none, 0, false⟩,
  ⟨"pkg/bpv7/extension_block_dtlsr.go", "DTLSRBlock.UnmarshalCbor", "loop", "lenData", "", .wire, "uint64", "", none, 0, true⟩,
  ⟨"pkg/bpv7/extension_block_dtlsr.go", "DTLSRBlock.UnmarshalCbor", "call", "DtnTime(timestamp)", "DtnTime", .wire, "", "", none, 0, false⟩,
  ⟨"pkg/bpv7/extension_block_prophet.go", "ProphetBlock.UnmarshalCbor", "loop", "lenData", "", .wire, "uint64", "", none, 0, true⟩,
  ⟨"pkg/bpv7/extension_block_signature.go", "SignatureBlock.UnmarshalCbor", "readstring", "cboring.ReadByteString", "", .wire, "", "", none, 0, false⟩,
  ⟨"pkg/bpv7/primary_block.go", "PrimaryBlock.UnmarshalCbor", "call", "BundleControlFlags(bcf)", "BundleControlFlags", .wire, "", "", none, 0, false⟩,
  ⟨"pkg/bpv7/primary_block.go", "PrimaryBlock.UnmarshalCbor", "call", "BundleControlFlags(bcf)", "BundleControlFlags", .wire, "", "", none, 0, false⟩,
  ⟨"pkg/bpv7/primary_block.go", "PrimaryBlock.UnmarshalCbor", "call", "emptyCRC(CRCType(crcT))", "emptyCRC", .wire, "", "", none, 0, false⟩,
  ⟨"pkg/bpv7/primary_block.go", "PrimaryBlock.UnmarshalCbor", "call", "CRCType(crcT)", "CRCType", .wire, "", "", none, 0, false⟩,
  ⟨"pkg/bpv7/primary_block.go", "PrimaryBlock.UnmarshalCbor", "call", "CRCType(crcT)", "CRCType", .wire, "", "", none, 0, false⟩,
  ⟨"pkg/bpv7/primary_block.go", "PrimaryBlock.UnmarshalCbor", "call", "CRCType(crcT)", "CRCType", .wire, "", "!(hasCrc != (CRCType(crcT) != CRCNo))", none, 0, false⟩,
  ⟨"pkg/bpv7/primary_block.go", "PrimaryBlock.UnmarshalCbor", "readstring", "cboring.ReadByteString", "", .wire, "", "", none, 0, false⟩,
  ⟨"pkg/cla/bbc/connector.go", "NewConnector", "makechan", "64", "chan Fragment", .const, "", "", none, 0, false⟩,
  ⟨"pkg/cla/bbc/connector.go", "NewConnector", "makechan", "64", "chan byte", .const, "", "", none, 0, false⟩,
  ⟨"pkg/cla/bbc/connector.go", "NewConnector", "makechan", "64", "chan cla.ConvergenceStatus", .const, "", "", none, 0, false⟩,
  ⟨"pkg/cla/bbc/connector.go", "Connector.handlerRead", "loopbreak", "", "", .wire, "", "", none, 0, true⟩,
  ⟨"pkg/cla/bbc/transmission.go", "IncomingTransmission.Bundle", "xzreader", "xz.NewReader", "", .wire, "", "", none, 0, false⟩,
  ⟨"pkg/cla/bbc/transmission.go", "NewOutgoingTransmission", "call", "newPlainOutgoingTransmission(transmissionID)", "newPlainOutgoingTransmission", .param, "byte", "", none, 0, false⟩,
  ⟨"pkg/cla/bbc/transmission.go", "NewOutgoingTransmission", "call", "newPlainOutgoingTransmission(mtu)", "newPlainOutgoingTransmission", .param, "int", "", none, 0, false⟩,
  ⟨"pkg/cla/bbc/transmission.go", "OutgoingTransmission.WriteFragment", "slice", "t.Payload[:t.mtu] @ t.mtu", "", .loc, "", "!(len(t.Payload) <= t.mtu)", none, 0, false⟩,
  ⟨"pkg/cla/bbc/transmission.go", "OutgoingTransmission.WriteFragment", "slice", "t.Payload[t.mtu:] @ t.mtu", "", .loc, "", "!(len(t.Payload) <= t.mtu)", none, 0, false⟩,
  ⟨"pkg/cla/mtcp/server.go", "MTCPServer.handleSender", "loopbreak", "", "", .wire, "", "", none, 0, true⟩,
  ⟨"pkg/cla/tcpclv4/internal/msgs/contact_header.go", "ContactHeader.Unmarshal", "make", "6", "[]byte", .const, "", "", none, 0, false⟩,
  ⟨"pkg/cla/tcpclv4/internal/msgs/contact_header.go", "ContactHeader.Unmarshal", "readfull", "data = make([]byte, 6)", "", .const, "", "", none, 0, false⟩,
  ⟨"pkg/cla/tcpclv4/internal/msgs/message.go", "ReadMessage", "make", "1", "[]byte", .const, "", "", none, 0, false⟩,
  ⟨"pkg/cla/tcpclv4/internal/msgs/message.go", "ReadMessage", "readfull", "msgTypeBytes = make([]byte, 1)", "", .const, "", "", none, 0, false⟩,
  ⟨"pkg/cla/tcpclv4/internal/msgs/message.go", "discardBytes", "copyn", "int64(l)", "ioutil.Discard", .param, "uint64", "l > math.MaxInt64 => return", some 9223372036854775807, 0, false⟩,
  ⟨"pkg/cla/tcpclv4/internal/msgs/sess_init.go", "SessionInitMessage.Unmarshal", "make", "nodeIdLen", "[]byte", .wire, "uint16", "", some 65535, 0, false⟩,
  ⟨"pkg/cla/tcpclv4/internal/msgs/sess_init.go", "SessionInitMessage.Unmarshal", "readfull", "nodeIdBuff = make([]byte, nodeIdLen)", "", .wire, "uint16", "", some 65535, 0, false⟩,
  ⟨"pkg/cla/tcpclv4/internal/msgs/sess_init.go", "SessionInitMessage.Unmarshal", "call", "discardBytes(uint64(sessionExtsLen))", "discardBytes", .wire, "uint32", "", none, 0, false⟩,
  ⟨"pkg/cla/tcpclv4/internal/msgs/xfer_segment.go", "DataTransmissionMessage.Unmarshal", "call", "discardBytes(uint64(transferExtLen))", "discardBytes", .wire, "uint32", "", none, 0, false⟩,
  ⟨"pkg/cla/tcpclv4/internal/msgs/xfer_segment.go", "DataTransmissionMessage.Unmarshal", "readraw", "dataLen", "", .wire, "uint64", "dataLen > 0", none, 1, false⟩,
  ⟨"pkg/cla/tcpclv4/internal/utils/message_switch_readerwriter.go", "NewMessageSwitchReaderWriter", "makechan", "32", "chan msgs.Message", .const, "", "", none, 0, false⟩,
  ⟨"pkg/cla/tcpclv4/internal/utils/message_switch_readerwriter.go", "NewMessageSwitchReaderWriter", "makechan", "32", "chan msgs.Message", .const, "", "", none, 0, false⟩,
  ⟨"pkg/cla/tcpclv4/internal/utils/message_switch_readerwriter.go", "MessageSwitchReaderWriter.handleIn", "loopbreak", "", "", .wire, "", "", none, 0, true⟩,
  ⟨"pkg/cla/tcpclv4/internal/utils/transfer_manager.go", "TransferManager.handle", "loopbreak", "", "", .wire, "", "", none, 0, true⟩,
  ⟨"pkg/cla/tcpclv4/internal/utils/transfer_manager.go", "TransferManager.Send", "makechan", "32", "chan msgs.Message", .const, "", "", none, 0, false⟩,
  ⟨"pkg/cla/tcpclv4/internal/utils/transfer_manager.go", "TransferManager.Send", "makechan", "1", "chan error", .const, "", "", none, 0, false⟩,
  ⟨"pkg/cla/tcpclv4/internal/utils/transfer_manager.go", "TransferManager.Send", "makechan", "1", "chan int", .const, "", "", none, 0, false⟩,
  ⟨"pkg/cla/tcpclv4/internal/utils/transfer_manager.go", "TransferManager.Send", "loopbreak", "", "", .wire, "", "", none, 0, true⟩,
  ⟨"pkg/cla/tcpclv4/internal/utils/transfer_out.go", "NewBundleOutgoingTransfer", "call", "NewOutgoingTransfer(id)", "NewOutgoingTransfer", .param, "uint64", "", none, 0, false⟩,
  ⟨"pkg/cla/tcpclv4/internal/utils/transfer_out.go", "OutgoingTransfer.NextSegment", "make", "mtu", "[]byte", .param, "uint64", "mtu == 0 => return; mtu > MaxSegmentMtu => mtu = MaxSegmentMtu", some 1048576, 1, false⟩,
  ⟨"pkg/cla/tcpclv4/internal/utils/transfer_out.go", "OutgoingTransfer.NextSegment", "readfull", "buf = make([]byte, mtu)", "", .param, "uint64", "mtu == 0 => return; mtu > MaxSegmentMtu => mtu = MaxSegmentMtu", some 1048576, 1, false⟩,
  ⟨"pkg/cla/tcpclv4/internal/utils/transfer_out.go", "OutgoingTransfer.NextSegment", "slice", "buf[:n] @ n", "", .loc, "", "", none, 0, false⟩,
  ⟨"pkg/discovery/announcement.go", "UnmarshalAnnouncements", "make", "0", "[]Announcement", .const, "", "", none, 0, false⟩,
  ⟨"pkg/discovery/announcement.go", "UnmarshalAnnouncements", "loop", "l", "", .wire, "", "", none, 0, true⟩,
  ⟨"pkg/discovery/announcement.go", "Announcement.UnmarshalCbor", "call", "cla.CLAType(n)", "cla.CLAType", .wire, "", "", none, 0, false⟩]

theorem extraction_complete : extractionFailures = [] := by decide

theorem alloc_sites_expected : allocSites = expected := by decide

/-- Largest buffer that may be allocated on the word of a length field (cboring's own limit). -/
def maxPrealloc : Nat := 1024 * 1024

def wireDerived (s : Site) : Bool := s.prov == .wire || s.prov == .param

/-- Functions a decoded number may be handed to: conversions to named integer types, registry look-ups,
CBOR writers, the unbuffered skip, constructors that store it. None of them allocates by its argument;
`cboring.ReadRawBytes` and `make` have rows of their own. A decoded number passed to anything else is a new
row of the table and needs a decision here. -/
def allowedCallees : List String :=
  ["DtnTime", "StatusReportReason", "BlockControlFlags", "BundleControlFlags", "CRCType", "BundleAgeBlock",
   "cla.CLAType", "arm.data.Load", "b.ExtensionBlock", "GetExtensionBlockManager().ReadBlock", "ebm.createBlock",
   "cboring.WriteArrayLength", "discardBytes", "newPlainOutgoingTransmission", "NewOutgoingTransfer",
   -- `emptyCRC(t)` returns a slice of constant length 0, 2 or 4 for the three known CRC types and an error otherwise
   "emptyCRC"]

/-- Decidable core of `Bounded`. -/
def boundedB (s : Site) : Bool :=
  !wireDerived s ||
  (match s.kind with
   | "make" | "makecap" | "makemap" | "makechan" | "grow" | "readfull" =>
     -- a buffer sized by a decoded number: only behind a constant bound of at most 1 MiB
     (match s.bound with | some b => b ≤ maxPrealloc | none => false)
   | "slice" => s.bound.isSome
   | "copyn" =>
     -- streamed into a growing buffer or discarded: memory follows the bytes that arrive
     (s.elem == "&buf" || s.elem == "ioutil.Discard") && (match s.bound with | some b => b < 2 ^ 63 | none => false)
   | "readraw" | "readstring" => true      -- cboring.ReadRawBytes, see `Bounded`
   | "loop" | "loopbreak" => s.reads       -- every iteration reads from the wire or leaves
   | "call" => allowedCallees.contains s.elem
   | _ => false)

/-- What the property demands of one allocation site: its size is not wire-derived; or it is guarded by a
constant bound ≤ 1 MiB; or it streams; or it goes through `cboring.ReadRawBytes`, which pre-allocates at
most 1 MiB whatever the length says (`readRawPrealloc_le`, the limits themselves are rows of the table);
or it is a count-driven loop that reads an element — at least one byte, `Decoders` theorems below — before
it appends. -/
def Bounded (s : Site) : Prop :=
  boundedB s = true ∧
  ((s.kind = "readraw" ∨ s.kind = "readstring") → ∀ l, Cbor.readRawPrealloc l ≤ maxPrealloc)

theorem bounded_of_boundedB (s : Site) (h : boundedB s = true) : Bounded s :=
  ⟨h, fun _ l => Cbor.Lemmas.readRawPrealloc_le l⟩

/-- Full statement; false today because of the xz reader (known finding
`alloc-unbounded-bbc-xz-dictsize`): -/
def EverySiteBounded : Prop := ∀ s ∈ allocSites, Bounded s

/-- Every site except the decompressor of the BBC is bounded. -/
theorem every_site_bounded_partial : ∀ s ∈ allocSites, s.kind ≠ "xzreader" → Bounded s := by
  intro s hs hk
  refine bounded_of_boundedB s ?_
  have h : ∀ s ∈ allocSites, s.kind ≠ "xzreader" → boundedB s = true := by decide
  exact h s hs hk

/-- Witness for the excluded class: the one xz site, whose dictionary is sized by the stream's header. -/
theorem every_site_bounded_witness : ¬ EverySiteBounded := by
  intro h
  have h1 : ∃ s ∈ allocSites, boundedB s = false := by decide
  obtain ⟨s, hs, hb⟩ := h1
  have := (h s hs).1
  simp [hb] at this

theorem xz_site_unique : (allocSites.filter (fun s => s.kind == "xzreader")).length = 1 := by decide

/-- The library guard the table relies on is the one the model of `ReadRawBytes` has: reject above
`MaxInt32`, pre-allocate only up to 1 MiB, stream otherwise. -/
theorem cboring_limits :
    (allocSites.filter (fun s => s.file == "cboring:strings.go" && s.fn == "ReadRawBytes")).map (fun s => (s.kind, s.bound)) =
      [("make", some Decoders.preallocLimit), ("readfull", some Decoders.preallocLimit), ("copyn", some Cbor.maxInt32)] := by
  decide

/-- The sender's segment buffer is guarded: zero is refused, anything above `MaxSegmentMtu` is clamped. -/
theorem segment_buffer_site :
    ∃ s ∈ allocSites, s.fn = "OutgoingTransfer.NextSegment" ∧ s.kind = "make" ∧ s.lower = 1 ∧
      s.bound = some Decoders.maxSegmentMtu := by decide

theorem gen_max_segment_mtu : Gen.C04.maxSegmentMtu = Decoders.maxSegmentMtu := by decide

set_option maxRecDepth 8000 in
/-- `SessInitStage.Handle` refuses a Segment MRU of zero and clamps the rest (control skeleton). -/
theorem sess_init_handle_expected : sessInitHandle =
    ["ci.state = state",
     "ci.closeChan = closeChan",
     "ciOut := msgs.NewSessionInitMessage( ci.state.Configuration.Keepalive, ci.state.Configuration.SegmentMru, ci.state.Configuration.TransferMru, ci.state.Configuration.NodeId.String())",
     "var ( ciIn *msgs.SessionInitMessage err error )",
     "if ci.state.Configuration.ActivePeer",
     "  ci.state.MsgOut <- ciOut",
     "  ciIn, err = ci.receiveMsgOrClose()",
     "else",
     "  ciIn, err = ci.receiveMsgOrClose()",
     "  if err == nil",
     "    ci.state.MsgOut <- ciOut",
     "if err == nil && ciIn.SegmentMru == 0",
     "  err = fmt.Errorf(\"peer's SESS_INIT has a Segment MRU of zero\")",
     "if err == nil",
     "  ci.state.Keepalive = uint16(math.Min(float64(ci.state.Configuration.Keepalive), float64(ciIn.KeepaliveInterval)))",
     "  ci.state.SegmentMtu = ciIn.SegmentMru",
     "  if ci.state.SegmentMtu > utils.MaxSegmentMtu",
     "    ci.state.SegmentMtu = utils.MaxSegmentMtu",
     "  ci.state.TransferMtu = ciIn.TransferMru",
     "  ci.state.PeerNodeId, err = bpv7.NewEndpointID(ciIn.NodeId)",
     "ci.state.StageError = err"] := by decide

theorem next_segment_head_expected : nextSegmentHead =
    ["if mtu == 0",
     "  err = fmt.Errorf(\"segment MTU must not be zero\")",
     "  return",
     "else if mtu > MaxSegmentMtu",
     "  mtu = MaxSegmentMtu",
     "var segFlags msgs.SegmentFlags"] := by decide

/-! ## 2. Decoders: allocation accounting and termination

`allocs (run d bs)` is the allocation log of decoder `d` on input `bs`: one entry `(requested, arrived)`
per allocation whose size depends on a decoded number (also when the decoder ends in an error).
`C = 1 MiB + 512` (cboring's pre-allocation limit, `bytes.MinRead`), `K = 128` (twice the largest
element, append doubles). -/

open Dtn7.Decoders.Lemmas in
/-- **Administrative records / status reports** (`ReadAdministrativeRecord`): whatever the item count
claims, nothing is requested beyond `C + K ·` bytes that have arrived. -/
theorem alloc_bounded_adminrec (bs : Cbor.Bytes) :
    ∀ p ∈ allocs (run adminRecord bs), p.1 ≤ C + K * p.2 :=
  sound_adminRecord.log _ logOk_nil

open Dtn7.Decoders.Lemmas in
/-- **Discovery announcements** (`UnmarshalAnnouncements`, one UDP packet). -/
theorem alloc_bounded_announcements (bs : Cbor.Bytes) :
    ∀ p ∈ allocs (run announcements bs), p.1 ≤ C + K * p.2 :=
  sound_announcements.log _ logOk_nil

open Dtn7.Decoders.Lemmas in
/-- **DTLSR and PRoPHET map blocks**. -/
theorem alloc_bounded_dtlsr (bs : Cbor.Bytes) : ∀ p ∈ allocs (run dtlsr bs), p.1 ≤ C + K * p.2 :=
  sound_dtlsr.log _ logOk_nil

open Dtn7.Decoders.Lemmas in
theorem alloc_bounded_prophet (bs : Cbor.Bytes) : ∀ p ∈ allocs (run prophet bs), p.1 ≤ C + K * p.2 :=
  sound_prophet.log _ logOk_nil

open Dtn7.Decoders.Lemmas in
/-- **Endpoint IDs** (the text SSP goes through `cboring.ReadRawBytes`). -/
theorem alloc_bounded_eid (bs : Cbor.Bytes) : ∀ p ∈ allocs (run eid bs), p.1 ≤ C + K * p.2 :=
  sound_eid.log _ logOk_nil

open Dtn7.Decoders.Lemmas in
/-- **XFER_SEGMENT**: extension items are skipped unbuffered, the data goes through `ReadRawBytes`. -/
theorem alloc_bounded_xfer_segment (bs : Cbor.Bytes) :
    ∀ p ∈ allocs (run xferSegment bs), p.1 ≤ C + K * p.2 :=
  sound_xferSegment.log _ logOk_nil

open Dtn7.Decoders.Lemmas in
/-- **SESS_INIT**: the node ID buffer is bounded by its 16 bit length field, extension items are skipped. -/
theorem alloc_bounded_sess_init (bs : Cbor.Bytes) :
    ∀ p ∈ allocs (run sessInit bs), p.1 ≤ C + K * p.2 :=
  sound_sessInit.log _ logOk_nil

open Dtn7.Decoders.Lemmas in
/-- **The block array of a bundle**: for any primary / canonical block decoder that itself stays within
the bound and whose successful blocks consume input, the indefinite-length block loop does too. -/
theorem alloc_bounded_bundle_blocks {α β : Type} (primary : D β) (block : D α)
    (hp : Sound primary) (hb : Sound block) (ha : Adv block) (bs : Cbor.Bytes) :
    ∀ p ∈ allocs (run (bundleBlocks primary block) bs), p.1 ≤ C + K * p.2 :=
  (sound_bundleBlocks hp hb ha).log _ logOk_nil

open Dtn7.Decoders.Lemmas in
/-- **Termination on input-derived fuel** (`dec_total` is by construction: the decoders are total Lean
functions). Every count-driven loop runs on fuel `remaining input + 1`; none of the decoders ever reports
exhausted fuel, i.e. the number of iterations is bounded by the number of input bytes, whatever a count
field says (2^64 − 1 included). -/
theorem dec_never_out_of_fuel (bs : Cbor.Bytes) :
    (run adminRecord bs).1 ≠ .error fuelErr ∧ (run announcements bs).1 ≠ .error fuelErr ∧
    (run dtlsr bs).1 ≠ .error fuelErr ∧ (run prophet bs).1 ≠ .error fuelErr ∧
    (run xferSegment bs).1 ≠ .error fuelErr ∧ (run sessInit bs).1 ≠ .error fuelErr :=
  ⟨sound_adminRecord.nofuel _, sound_announcements.nofuel _, sound_dtlsr.nofuel _, sound_prophet.nofuel _,
   sound_xferSegment.nofuel _, sound_sessInit.nofuel _⟩

open Dtn7.Decoders.Lemmas in
/-- The same for the block loop of a bundle and for any count-driven loop over an advancing element. -/
theorem loops_never_out_of_fuel {α β : Type} (primary : D β) (block : D α) (elem : D α) (esz n : Nat)
    (hp : Sound primary) (hb : Sound block) (ha : Adv block) (he : Sound elem) (hae : Adv elem) (hk : 2 * esz ≤ K)
    (bs : Cbor.Bytes) :
    (run (bundleBlocks primary block) bs).1 ≠ .error fuelErr ∧ (run (repeatN elem esz n) bs).1 ≠ .error fuelErr :=
  ⟨(sound_bundleBlocks hp hb ha).nofuel _, (sound_repeatN elem esz n he hae hk).nofuel _⟩

open Dtn7.Decoders.Lemmas in
/-- **Every element consumes input**: a successfully decoded status item, announcement or map entry takes
at least one byte (in fact at least two) from the input — the reason why the `loop` rows of the allocation
table (`reads = true`: read first, append afterwards) cannot allocate or iterate beyond what has arrived. -/
theorem elements_consume_input :
    Adv statusItem ∧ Adv announcement ∧ Adv dtlsrEntry ∧ Adv prophetEntry ∧ Adv eid :=
  ⟨adv_statusItem, adv_announcement, adv_dtlsrEntry, adv_prophetEntry, adv_eid⟩

/-- The model's CBOR head reader is the shared model of `cboring.ReadMajors`. -/
theorem head_is_decHead (s : St) :
    (head s).1 = (Cbor.decHead s.rest).map (fun r => (r.1, r.2.1)) ∧
    (∀ m n r, Cbor.decHead s.rest = .ok (m, n, r) → (head s).2.rest = r) :=
  Dtn7.Decoders.Lemmas.head_decHead s

/-! Witnesses: the code before the repairs falsifies the bound with inputs of a few bytes. -/

/-- D8: a status report announcing 2^40 items — `make([]BundleStatusItem, n)` requested 24·2^40 bytes
after 10 bytes had arrived. -/
theorem alloc_bounded_status_report_old_witness :
    ¬ ∀ p ∈ allocs (run statusReportOld [0x84, 0x9B, 0, 0, 1, 0, 0, 0, 0, 0]), p.1 ≤ C + K * p.2 := by decide

/-- D10: an XFER_SEGMENT header announcing 2^32 − 1 bytes of extension items. -/
theorem alloc_bounded_xfer_segment_old_witness :
    ¬ ∀ p ∈ allocs (run xferSegmentOld [1, 3, 0, 0, 0, 0, 0, 0, 0, 7, 0xFF, 0xFF, 0xFF, 0xFF]), p.1 ≤ C + K * p.2 := by
  decide

/-! Non-vacuity: the decoders accept real messages, and their logs are not empty. -/
example : ((run adminRecord [0x82, 0x01, 0x84, 0x82, 0x82, 0xF5, 0x00, 0x81, 0xF4, 0x05, 0x82, 0x01, 0x00,
    0x82, 0x00, 0x00]).1.toOption.map (fun r => (r.items.length, r.reason))) = some (2, 5) := by decide
example : allocs (run adminRecord [0x82, 0x01, 0x84, 0x82, 0x82, 0xF5, 0x00, 0x81, 0xF4, 0x05, 0x82, 0x01, 0x00,
    0x82, 0x00, 0x00]) = [(96, 9), (48, 7)] := by decide
example : ((run xferSegment [1, 3, 0, 0, 0, 0, 0, 0, 0, 7, 0, 0, 0, 0, 0, 0, 0, 0, 0, 0, 0, 2, 9, 9]).1.toOption.map
    (fun x => x.data)) = some [9, 9] := by decide
example : allocs (run xferSegment [1, 3, 0, 0, 0, 0, 0, 0, 0, 7, 0, 0, 0, 0, 0xFF, 0, 0, 0, 0, 0, 0, 2]) = [] := by decide

/-! ## 3. The sender side: sizes a peer declares during session setup -/

/-- **`negotiated_mtu_ok`**: a segment size taken from a peer's SESS_INIT is at least 1 and at most
`MaxSegmentMtu`; a Segment MRU of zero fails the session. -/
theorem negotiated_mtu_ok (peerMru m : Nat) (h : negotiate peerMru = .ok m) : 1 ≤ m ∧ m ≤ Decoders.maxSegmentMtu :=
  Dtn7.Decoders.Lemmas.negotiate_ok peerMru m h

/-- D11: the code before the repair handed any value on, 0 and 2^64 − 1 included. -/
theorem negotiated_mtu_old_witness :
    ¬ (∀ v m, negotiateOld v = .ok m → 1 ≤ m ∧ m ≤ Decoders.maxSegmentMtu) := by
  intro h
  have := h 0 0 rfl
  omega

/-- `NextSegment` applies the same check to whatever it is handed. -/
theorem segment_buffer_ok (mtu m : Nat) (h : segmentBuffer mtu = .ok m) : 1 ≤ m ∧ m ≤ Decoders.maxSegmentMtu :=
  Dtn7.Decoders.Lemmas.segmentBuffer_ok mtu m h

/-- **`nextSegment_progress`**: with a segment size ≥ 1 every segment takes between 1 and `mtu` bytes
from the stream … -/
theorem nextSegment_progress (la st : Bool) (rest : List UInt8) (mtu : Nat) (hm : 1 ≤ mtu) (sg : Tcpcl.Seg)
    (r : List UInt8) (h : Tcpcl.nextSegment la st rest mtu = .seg sg r) :
    r.length < rest.length ∧ 1 ≤ sg.data.length ∧ sg.data.length ≤ mtu :=
  Dtn7.Decoders.Lemmas.nextSegment_progress la st rest mtu hm sg r h

/-- … and the end of the transfer is reported exactly when nothing is left. -/
theorem nextSegment_ends (la st : Bool) (rest : List UInt8) (mtu : Nat)
    (h : Tcpcl.nextSegment la st rest mtu = .eof) : rest = [] :=
  Dtn7.Decoders.Lemmas.nextSegment_eof la st rest mtu h

/-- **No spinning, no peer-sized buffers**: whatever segment size `Send` is handed, it emits at most one
segment per byte of the bundle, every segment carries between 1 and `MaxSegmentMtu` bytes, and together
they are the bundle. -/
theorem send_segments_bounded (mtu : Nat) (data : List UInt8) (segs : List Tcpcl.Seg)
    (h : sendSegments mtu data = .ok segs) :
    segs.length ≤ data.length ∧ (∀ sg ∈ segs, 1 ≤ sg.data.length ∧ sg.data.length ≤ Decoders.maxSegmentMtu) ∧
      Tcpcl.concatData segs = data :=
  Dtn7.Decoders.Lemmas.sendSegments_spec mtu data segs h

example : (negotiate (2 ^ 64 - 1)).toOption = some 1048576 := by decide
example : (negotiate 23).toOption = some 23 := by decide
example : (negotiate 0).toOption = none := by decide
example : (sendSegments 2 [1, 2, 3]).toOption.map (·.length) = some 2 := by decide
example : (sendSegments 0 [1, 2, 3]).toOption = none := by decide

end Dtn7.Props.C04
