/-
C04 — bytes from the network or clients can never crash, hang or balloon the node.
Property theorems only; helper lemmas live in `Dtn7.Lemmas.Decoders`.

Three layers:
1. the regenerated ALLOCATION-SITE TABLE of the decoder files (`Gen.C04.allocSites`, extract/c04.go) is
   exactly the expected one and every site in it is `Bounded` (one recorded exception: the xz reader);
2. the decoder models (`Dtn7.Decoders`) never allocate more than `C + K·arrived` on the word of a length
   or count field and never run out of the fuel the input length provides;
3. the segment size negotiated from a peer's SESS_INIT lies in `1 … MaxSegmentMtu`, and with such a size
   every `NextSegment` consumes input, so `Send` emits at most `len(bundle)` segments.
-/
import Dtn7.Model.Decoders
import Dtn7.Lemmas.Cbor
import Dtn7.Gen.C04

namespace Dtn7.Props.C04
open Dtn7.Gen.C04 Dtn7.Decoders

/-! ## 1. Allocation sites -/

/-- The table as it must be for the code that exists (after the repairs of D8–D11). A new `make` on a
wire count, a removed guard, a raised cap or a new decoder loop changes `Gen.C04.allocSites` and breaks
`alloc_sites_expected`. -/
def expected : List Site := [
  ⟨"cboring:strings.go", "ReadRawBytes", "make", "l", "[]byte", .param, "uint64", "l > math.MaxInt32 => return; l <= 1024*1024", some 1048576, 0, false⟩,
  ⟨"cboring:strings.go", "ReadRawBytes", "readfull", "data = make([]byte, l)", "", .param, "uint64", "l > math.MaxInt32 => return; l <= 1024*1024", some 1048576, 0, false⟩,
  ⟨"cboring:strings.go", "ReadRawBytes", "copyn", "int64(l)", "&buf", .param, "uint64", "l > math.MaxInt32 => return; !(l <= 1024*1024)", some 2147483647, 0, false⟩,
  ⟨"cboring:strings.go", "ReadByteString", "readraw", "n", "", .wire, "", "", none, 0, false⟩,
  ⟨"cboring:strings.go", "ReadTextString", "readraw", "n", "", .wire, "", "", none, 0, false⟩,
  ⟨"pkg/agent/rest_agent.go", "RestAgent.randomUuid", "make", "16", "[]byte", .const, "", "", none, 0, false⟩,
  ⟨"pkg/agent/rest_agent.go", "RestAgent.handleFetch", "make", "0", "[]bpv7.Bundle", .const, "", "", none, 0, false⟩,
  ⟨"pkg/agent/ws_agent_msg_impl.go", "wamStatus.UnmarshalCbor", "readstring", "cboring.ReadTextString", "", .wire, "", "", none, 0, false⟩,
  ⟨"pkg/agent/ws_agent_msg_impl.go", "wamRegister.UnmarshalCbor", "readstring", "cboring.ReadTextString", "", .wire, "", "", none, 0, false⟩,
  ⟨"pkg/agent/ws_agent_msg_impl.go", "wamSyscallRequest.UnmarshalCbor", "readstring", "cboring.ReadTextString", "", .wire, "", "", none, 0, false⟩,
  ⟨"pkg/agent/ws_agent_msg_impl.go", "wamSyscallResponse.UnmarshalCbor", "readstring", "cboring.ReadTextString", "", .wire, "", "", none, 0, false⟩,
  ⟨"pkg/agent/ws_agent_msg_impl.go", "wamSyscallResponse.UnmarshalCbor", "readstring", "cboring.ReadByteString", "", .wire, "", "", none, 0, false⟩,
  ⟨"pkg/bpv7/administrative_record_status_report.go", "NewStatusReport", "make", "maxStatusInformationPos", "[]BundleStatusItem", .const, "", "", none, 0, false⟩,
  ⟨"pkg/bpv7/administrative_record_status_report.go", "StatusReport.UnmarshalCbor", "make", "0", "[]BundleStatusItem", .const, "", "", none, 0, false⟩,
  ⟨"pkg/bpv7/administrative_record_status_report.go", "StatusReport.UnmarshalCbor", "makecap", "maxStatusInformationPos", "[]BundleStatusItem", .const, "", "", none, 0, false⟩,
  ⟨"pkg/bpv7/administrative_record_status_report.go", "StatusReport.UnmarshalCbor", "loop", "statusInformationLen", "", .wire, "", "", none, 0, true⟩,
  ⟨"pkg/bpv7/bundle.go", "Bundle.RemoveExtensionBlockByBlockNumber", "slice", "b.CanonicalBlocks[:i] @ i", "", .loc, "", "", none, 0, false⟩,
  ⟨"pkg/bpv7/bundle.go", "Bundle.RemoveExtensionBlockByBlockNumber", "slice", "b.CanonicalBlocks[i+1:] @ i + 1", "", .loc, "", "", none, 0, false⟩,
  ⟨"pkg/bpv7/bundle.go", "Bundle.UnmarshalCbor", "loopbreak", "", "", .wire, "", "", none, 0, true⟩,
  ⟨"pkg/bpv7/bundle.go", "Bundle.MarshalJSON", "make", "len(b.CanonicalBlocks)", "[]json.Marshaler", .lenMem, "", "", none, 0, false⟩,
  ⟨"pkg/bpv7/canonical_block.go", "CanonicalBlock.UnmarshalCbor", "readstring", "cboring.ReadByteString", "", .wire, "", "", none, 0, false⟩,
  ⟨"pkg/bpv7/endpoint_dtn.go", "NewDtnEndpoint", "slice", "uri[len(dtnEndpointSchemeName)+1:] @ len(dtnEndpointSchemeName) + 1", "", .lenMem, "", "!strings.HasPrefix(uri, dtnEndpointSchemeName+\":\") => return", none, 0, false⟩,
  ⟨"pkg/bpv7/endpoint_dtn.go", "DtnEndpoint.UnmarshalCbor", "readraw", "n", "", .wire, "", "", none, 0, false⟩,
  ⟨"pkg/bpv7/extension_block.go", "ExtensionBlockManager.ReadBlock", "readstring", "cboring.ReadByteString", "", .wire, "", "", none, 0, false⟩,
  ⟨"pkg/bpv7/extension_block.go", "ExtensionBlockManager.ReadBlock", "readstring", "cboring.ReadByteString", "", .wire, "", "", none, 0, false⟩,
  ⟨"pkg/bpv7/extension_block_dtlsr.go", "DTLSRBlock.UnmarshalCbor", "loop", "lenData", "", .wire, "uint64", "", none, 0, true⟩,
  ⟨"pkg/bpv7/extension_block_prophet.go", "ProphetBlock.UnmarshalCbor", "loop", "lenData", "", .wire, "uint64", "", none, 0, true⟩,
  ⟨"pkg/bpv7/extension_block_signature.go", "SignatureBlock.UnmarshalCbor", "readstring", "cboring.ReadByteString", "", .wire, "", "", none, 0, false⟩,
  ⟨"pkg/bpv7/primary_block.go", "PrimaryBlock.UnmarshalCbor", "readstring", "cboring.ReadByteString", "", .wire, "", "", none, 0, false⟩,
  ⟨"pkg/cla/bbc/connector.go", "NewConnector", "makechan", "64", "chan Fragment", .const, "", "", none, 0, false⟩,
  ⟨"pkg/cla/bbc/connector.go", "NewConnector", "makechan", "64", "chan byte", .const, "", "", none, 0, false⟩,
  ⟨"pkg/cla/bbc/connector.go", "NewConnector", "makechan", "64", "chan cla.ConvergenceStatus", .const, "", "", none, 0, false⟩,
  ⟨"pkg/cla/bbc/connector.go", "Connector.handlerRead", "loopbreak", "", "", .wire, "", "", none, 0, true⟩,
  ⟨"pkg/cla/bbc/transmission.go", "IncomingTransmission.Bundle", "xzreader", "xz.NewReader", "", .wire, "", "", none, 0, false⟩,
  ⟨"pkg/cla/bbc/transmission.go", "OutgoingTransmission.WriteFragment", "slice", "t.Payload[:t.mtu] @ t.mtu", "", .loc, "", "!(len(t.Payload) <= t.mtu)", none, 0, false⟩,
  ⟨"pkg/cla/bbc/transmission.go", "OutgoingTransmission.WriteFragment", "slice", "t.Payload[t.mtu:] @ t.mtu", "", .loc, "", "!(len(t.Payload) <= t.mtu)", none, 0, false⟩,
  ⟨"pkg/cla/mtcp/server.go", "MTCPServer.handleSender", "loopbreak", "", "", .wire, "", "", none, 0, true⟩,
  ⟨"pkg/cla/tcpclv4/internal/msgs/contact_header.go", "ContactHeader.Unmarshal", "make", "6", "[]byte", .const, "", "", none, 0, false⟩,
  ⟨"pkg/cla/tcpclv4/internal/msgs/contact_header.go", "ContactHeader.Unmarshal", "readfull", "data = make([]byte, 6)", "", .const, "", "", none, 0, false⟩,
  ⟨"pkg/cla/tcpclv4/internal/msgs/message.go", "ReadMessage", "make", "1", "[]byte", .const, "", "", none, 0, false⟩,
  ⟨"pkg/cla/tcpclv4/internal/msgs/message.go", "ReadMessage", "readfull", "msgTypeBytes = make([]byte, 1)", "", .const, "", "", none, 0, false⟩,
  ⟨"pkg/cla/tcpclv4/internal/msgs/message.go", "discardBytes", "copyn", "int64(l)", "ioutil.Discard", .param, "uint64", "l > math.MaxInt64 => return", some 9223372036854775807, 0, false⟩,
  ⟨"pkg/cla/tcpclv4/internal/msgs/sess_init.go", "SessionInitMessage.Unmarshal", "make", "nodeIdLen", "[]byte", .wire, "uint16", "", some 65535, 0, false⟩,
  ⟨"pkg/cla/tcpclv4/internal/msgs/sess_init.go", "SessionInitMessage.Unmarshal", "readfull", "nodeIdBuff = make([]byte, nodeIdLen)", "", .wire, "uint16", "", some 65535, 0, false⟩,
  ⟨"pkg/cla/tcpclv4/internal/msgs/xfer_segment.go", "DataTransmissionMessage.Unmarshal", "readraw", "dataLen", "", .wire, "uint64", "dataLen > 0", none, 1, false⟩,
  ⟨"pkg/cla/tcpclv4/internal/utils/message_switch_readerwriter.go", "NewMessageSwitchReaderWriter", "makechan", "32", "chan msgs.Message", .const, "", "", none, 0, false⟩,
  ⟨"pkg/cla/tcpclv4/internal/utils/message_switch_readerwriter.go", "NewMessageSwitchReaderWriter", "makechan", "32", "chan msgs.Message", .const, "", "", none, 0, false⟩,
  ⟨"pkg/cla/tcpclv4/internal/utils/message_switch_readerwriter.go", "MessageSwitchReaderWriter.handleIn", "loopbreak", "", "", .wire, "", "", none, 0, true⟩,
  ⟨"pkg/cla/tcpclv4/internal/utils/transfer_manager.go", "TransferManager.handle", "loopbreak", "", "", .wire, "", "", none, 0, true⟩,
  ⟨"pkg/cla/tcpclv4/internal/utils/transfer_manager.go", "TransferManager.Send", "makechan", "32", "chan msgs.Message", .const, "", "", none, 0, false⟩,
  ⟨"pkg/cla/tcpclv4/internal/utils/transfer_manager.go", "TransferManager.Send", "makechan", "1", "chan error", .const, "", "", none, 0, false⟩,
  ⟨"pkg/cla/tcpclv4/internal/utils/transfer_manager.go", "TransferManager.Send", "makechan", "1", "chan int", .const, "", "", none, 0, false⟩,
  ⟨"pkg/cla/tcpclv4/internal/utils/transfer_manager.go", "TransferManager.Send", "loopbreak", "", "", .wire, "", "", none, 0, true⟩,
  ⟨"pkg/cla/tcpclv4/internal/utils/transfer_out.go", "OutgoingTransfer.NextSegment", "make", "mtu", "[]byte", .param, "uint64", "mtu == 0 => return; mtu > MaxSegmentMtu => mtu = MaxSegmentMtu", some 1048576, 1, false⟩,
  ⟨"pkg/cla/tcpclv4/internal/utils/transfer_out.go", "OutgoingTransfer.NextSegment", "readfull", "buf = make([]byte, mtu)", "", .param, "uint64", "mtu == 0 => return; mtu > MaxSegmentMtu => mtu = MaxSegmentMtu", some 1048576, 1, false⟩,
  ⟨"pkg/cla/tcpclv4/internal/utils/transfer_out.go", "OutgoingTransfer.NextSegment", "slice", "buf[:n] @ n", "", .loc, "", "", none, 0, false⟩,
  ⟨"pkg/discovery/announcement.go", "UnmarshalAnnouncements", "make", "0", "[]Announcement", .const, "", "", none, 0, false⟩,
  ⟨"pkg/discovery/announcement.go", "UnmarshalAnnouncements", "loop", "l", "", .wire, "", "", none, 0, true⟩]

theorem extraction_complete : extractionFailures = [] := by decide

theorem alloc_sites_expected : allocSites = expected := by decide

/-- Largest buffer that may be allocated on the word of a length field (cboring's own limit). -/
def maxPrealloc : Nat := 1024 * 1024

def wireDerived (s : Site) : Bool := s.prov == .wire || s.prov == .param

/-- Decidable core of `Bounded`. -/
def boundedB (s : Site) : Bool :=
  !wireDerived s ||
  (match s.kind with
   | "make" | "makecap" | "makemap" | "makechan" | "grow" | "readfull" =>
     -- a buffer sized by a decoded number: only behind a constant bound of at most 1 MiB
     (match s.bound with | some b => b ≤ maxPrealloc | none => false)
   | "slice" => s.bound.isSome
   | "copyn" =>
     -- streamed into a growing buffer or discarded: memory follows the bytes that arrive
     (s.elem == "&buf" || s.elem == "ioutil.Discard") && (match s.bound with | some b => b < 2 ^ 63 | none => false)
   | "readraw" | "readstring" => true      -- cboring.ReadRawBytes, see `Bounded`
   | "loop" | "loopbreak" => s.reads       -- every iteration reads from the wire or leaves
   | _ => false)

/-- What the property demands of one allocation site: its size is not wire-derived; or it is guarded by a
constant bound ≤ 1 MiB; or it streams; or it goes through `cboring.ReadRawBytes`, which pre-allocates at
most 1 MiB whatever the length says (`readRawPrealloc_le`, the limits themselves are rows of the table);
or it is a count-driven loop that reads an element — at least one byte, `Decoders` theorems below — before
it appends. -/
def Bounded (s : Site) : Prop :=
  boundedB s = true ∧
  ((s.kind = "readraw" ∨ s.kind = "readstring") → ∀ l, Cbor.readRawPrealloc l ≤ maxPrealloc)

theorem bounded_of_boundedB (s : Site) (h : boundedB s = true) : Bounded s :=
  ⟨h, fun _ l => Cbor.Lemmas.readRawPrealloc_le l⟩

/-- Full statement; false today because of the xz reader (known finding
`alloc-unbounded-bbc-xz-dictsize`): -/
def EverySiteBounded : Prop := ∀ s ∈ allocSites, Bounded s

/-- Every site except the decompressor of the BBC is bounded. -/
theorem every_site_bounded_partial : ∀ s ∈ allocSites, s.kind ≠ "xzreader" → Bounded s := by
  intro s hs hk
  refine bounded_of_boundedB s ?_
  have h : ∀ s ∈ allocSites, s.kind ≠ "xzreader" → boundedB s = true := by decide
  exact h s hs hk

/-- Witness for the excluded class: the one xz site, whose dictionary is sized by the stream's header. -/
theorem every_site_bounded_witness : ¬ EverySiteBounded := by
  intro h
  have h1 : ∃ s ∈ allocSites, boundedB s = false := by decide
  obtain ⟨s, hs, hb⟩ := h1
  have := (h s hs).1
  simp [hb] at this

theorem xz_site_unique : (allocSites.filter (fun s => s.kind == "xzreader")).length = 1 := by decide

/-- The library guard the table relies on is the one the model of `ReadRawBytes` has: reject above
`MaxInt32`, pre-allocate only up to 1 MiB, stream otherwise. -/
theorem cboring_limits :
    (allocSites.filter (fun s => s.file == "cboring:strings.go" && s.fn == "ReadRawBytes")).map (fun s => (s.kind, s.bound)) =
      [("make", some Decoders.preallocLimit), ("readfull", some Decoders.preallocLimit), ("copyn", some Cbor.maxInt32)] := by
  decide

/-- The sender's segment buffer is guarded: zero is refused, anything above `MaxSegmentMtu` is clamped. -/
theorem segment_buffer_site :
    ∃ s ∈ allocSites, s.fn = "OutgoingTransfer.NextSegment" ∧ s.kind = "make" ∧ s.lower = 1 ∧
      s.bound = some Decoders.maxSegmentMtu := by decide

theorem gen_max_segment_mtu : Gen.C04.maxSegmentMtu = Decoders.maxSegmentMtu := by decide

set_option maxRecDepth 8000 in
/-- `SessInitStage.Handle` refuses a Segment MRU of zero and clamps the rest (control skeleton). -/
theorem sess_init_handle_expected : sessInitHandle =
    ["ci.state = state",
     "ci.closeChan = closeChan",
     "ciOut := msgs.NewSessionInitMessage( ci.state.Configuration.Keepalive, ci.state.Configuration.SegmentMru, ci.state.Configuration.TransferMru, ci.state.Configuration.NodeId.String())",
     "var ( ciIn *msgs.SessionInitMessage err error )",
     "if ci.state.Configuration.ActivePeer",
     "  ci.state.MsgOut <- ciOut",
     "  ciIn, err = ci.receiveMsgOrClose()",
     "else",
     "  ciIn, err = ci.receiveMsgOrClose()",
     "  if err == nil",
     "    ci.state.MsgOut <- ciOut",
     "if err == nil && ciIn.SegmentMru == 0",
     "  err = fmt.Errorf(\"peer's SESS_INIT has a Segment MRU of zero\")",
     "if err == nil",
     "  ci.state.Keepalive = uint16(math.Min(float64(ci.state.Configuration.Keepalive), float64(ciIn.KeepaliveInterval)))",
     "  ci.state.SegmentMtu = ciIn.SegmentMru",
     "  if ci.state.SegmentMtu > utils.MaxSegmentMtu",
     "    ci.state.SegmentMtu = utils.MaxSegmentMtu",
     "  ci.state.TransferMtu = ciIn.TransferMru",
     "  ci.state.PeerNodeId, err = bpv7.NewEndpointID(ciIn.NodeId)",
     "ci.state.StageError = err"] := by decide

theorem next_segment_head_expected : nextSegmentHead =
    ["if mtu == 0",
     "  err = fmt.Errorf(\"segment MTU must not be zero\")",
     "  return",
     "else if mtu > MaxSegmentMtu",
     "  mtu = MaxSegmentMtu",
     "var segFlags msgs.SegmentFlags"] := by decide

end Dtn7.Props.C04
