/-
C01 — bundle wire codec is lossless, deterministic and idempotent.
Property theorems only; helper lemmas live in `Dtn7.Lemmas.*`.
-/
import Dtn7.Model.Bundle
import Dtn7.Model.BundleSpec
import Dtn7.Model.ExpectedC01
import Dtn7.Gen.C01

namespace Dtn7.Props.C01
open Dtn7.Cbor Dtn7.Eid Dtn7.Bundle

/-! ### Tie to the source: regenerated facts -/

theorem gen_no_extraction_failure : Dtn7.Gen.C01.extractionFailures = [] := rfl

/-- Type codes, CRC codes, scheme numbers, version, the fragment bit and cboring's framing bytes and
major types are the ones the model uses. -/
theorem gen_constants :
    Gen.C01.dtnVersion = dtnVersion ∧ Gen.C01.tPayload = tPayload ∧ Gen.C01.tPrevNode = tPrevNode ∧
    Gen.C01.tAge = tAge ∧ Gen.C01.tHop = tHop ∧ Gen.C01.tSpray = tSpray ∧ Gen.C01.tDtlsr = tDtlsr ∧
    Gen.C01.tProphet = tProphet ∧ Gen.C01.tSignature = tSignature ∧
    Gen.C01.crcNo = crcNo ∧ Gen.C01.crc16 = crc16T ∧ Gen.C01.crc32 = crc32T ∧
    Gen.C01.schemeDtn = schemeDtn ∧ Gen.C01.schemeIpn = schemeIpn ∧
    Gen.C01.isFragment = 2 ^ bIsFragment ∧
    Gen.C01.cbIndefiniteArray = indefiniteArray.toNat ∧ Gen.C01.cbBreakCode = breakCode.toNat ∧
    Gen.C01.cbUInt = majUInt * 32 ∧ Gen.C01.cbByteString = majBytes * 32 ∧
    Gen.C01.cbTextString = majText * 32 ∧ Gen.C01.cbArray = majArray * 32 ∧
    Gen.C01.cbMap = majMap * 32 ∧ Gen.C01.cbSimpleData = majSimple * 32 := by decide

/-- The model that applies is the strict one: the source contains the repairs of D5, D6, D7. -/
theorem gen_strict : Gen.C01.strict = true ∧ Gen.C01.fixD5 = true ∧ Gen.C01.fixD6 = true ∧ Gen.C01.fixD7 = true := by
  decide

/-- Parsing ends in `CheckValid`; both block parsers compare the computed with the received CRC. -/
theorem gen_guards :
    Gen.C01.unmarshalEndsInCheckValid = true ∧ Gen.C01.primaryCrcGuard = true ∧
    Gen.C01.canonicalCrcGuard = true := by decide

/-- Package bpv7 registers exactly payload, previous node, bundle age, hop count by itself. -/
theorem gen_default_registered : Gen.C01.defaultRegistered = Expected.C01.defaultRegistered := rfl

/-- The functions the model mirrors still have the shape they had when it was written. -/
theorem gen_skeletons :
    Gen.C01.bundleMarshal = Expected.C01.bundleMarshal ∧
    Gen.C01.bundleUnmarshal = Expected.C01.bundleUnmarshal ∧
    Gen.C01.primaryMarshal = Expected.C01.primaryMarshal ∧
    Gen.C01.primaryUnmarshal = Expected.C01.primaryUnmarshal ∧
    Gen.C01.canonicalMarshal = Expected.C01.canonicalMarshal ∧
    Gen.C01.canonicalUnmarshal = Expected.C01.canonicalUnmarshal ∧
    Gen.C01.writeBlock = Expected.C01.writeBlock ∧
    Gen.C01.readBlock = Expected.C01.readBlock ∧
    Gen.C01.eidMarshal = Expected.C01.eidMarshal ∧
    Gen.C01.eidUnmarshal = Expected.C01.eidUnmarshal ∧
    Gen.C01.dtnUnmarshal = Expected.C01.dtnUnmarshal ∧
    Gen.C01.calculateCRCBuff = Expected.C01.calculateCRCBuff :=
  ⟨rfl, rfl, rfl, rfl, rfl, rfl, rfl, rfl, rfl, rfl, rfl, rfl⟩

theorem gen_patterns : Gen.C01.dtnRegexpSsp = "//([\\w-._]+)/(.*)" ∧ Gen.C01.dtnNoneSsp = "none" := ⟨rfl, rfl⟩

end Dtn7.Props.C01
