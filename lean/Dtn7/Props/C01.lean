/-
C01 — bundle wire codec is lossless, deterministic and idempotent.
Property theorems only; helper lemmas live in `Dtn7.Lemmas.*`.
-/
import Dtn7.Model.Bundle
import Dtn7.Model.BundleSpec
import Dtn7.Model.ExpectedC01
import Dtn7.Gen.C01
import Dtn7.Lemmas.BundleTop

namespace Dtn7.Props.C01
open Dtn7.Cbor Dtn7.Eid Dtn7.Bundle

/-! ### Tie to the source: regenerated facts -/

theorem gen_no_extraction_failure : Dtn7.Gen.C01.extractionFailures = [] := rfl

/-- Type codes, CRC codes, scheme numbers, version, the fragment bit and cboring's framing bytes and
major types are the ones the model uses. -/
theorem gen_constants :
    Gen.C01.dtnVersion = dtnVersion ∧ Gen.C01.tPayload = tPayload ∧ Gen.C01.tPrevNode = tPrevNode ∧
    Gen.C01.tAge = tAge ∧ Gen.C01.tHop = tHop ∧ Gen.C01.tSpray = tSpray ∧ Gen.C01.tDtlsr = tDtlsr ∧
    Gen.C01.tProphet = tProphet ∧ Gen.C01.tSignature = tSignature ∧
    Gen.C01.crcNo = crcNo ∧ Gen.C01.crc16 = crc16T ∧ Gen.C01.crc32 = crc32T ∧
    Gen.C01.schemeDtn = schemeDtn ∧ Gen.C01.schemeIpn = schemeIpn ∧
    Gen.C01.isFragment = 2 ^ bIsFragment ∧
    Gen.C01.cbIndefiniteArray = indefiniteArray.toNat ∧ Gen.C01.cbBreakCode = breakCode.toNat ∧
    Gen.C01.cbUInt = majUInt * 32 ∧ Gen.C01.cbByteString = majBytes * 32 ∧
    Gen.C01.cbTextString = majText * 32 ∧ Gen.C01.cbArray = majArray * 32 ∧
    Gen.C01.cbMap = majMap * 32 ∧ Gen.C01.cbSimpleData = majSimple * 32 := by decide

/-- The model that applies is the strict one: the source contains the repairs of D5, D6, D7. -/
theorem gen_strict : Gen.C01.strict = true ∧ Gen.C01.fixD5 = true ∧ Gen.C01.fixD6 = true ∧ Gen.C01.fixD7 = true := by
  decide

/-- Parsing ends in `CheckValid`; both block parsers compare the computed with the received CRC. -/
theorem gen_guards :
    Gen.C01.unmarshalEndsInCheckValid = true ∧ Gen.C01.primaryCrcGuard = true ∧
    Gen.C01.canonicalCrcGuard = true := by decide

/-- Package bpv7 registers exactly payload, previous node, bundle age, hop count by itself. -/
theorem gen_default_registered : Gen.C01.defaultRegistered = Expected.C01.defaultRegistered := rfl

/-- The functions the model mirrors still have the shape they had when it was written. -/
theorem gen_skeletons :
    Gen.C01.bundleMarshal = Expected.C01.bundleMarshal ∧
    Gen.C01.bundleUnmarshal = Expected.C01.bundleUnmarshal ∧
    Gen.C01.primaryMarshal = Expected.C01.primaryMarshal ∧
    Gen.C01.primaryUnmarshal = Expected.C01.primaryUnmarshal ∧
    Gen.C01.canonicalMarshal = Expected.C01.canonicalMarshal ∧
    Gen.C01.canonicalUnmarshal = Expected.C01.canonicalUnmarshal ∧
    Gen.C01.writeBlock = Expected.C01.writeBlock ∧
    Gen.C01.readBlock = Expected.C01.readBlock ∧
    Gen.C01.eidMarshal = Expected.C01.eidMarshal ∧
    Gen.C01.eidUnmarshal = Expected.C01.eidUnmarshal ∧
    Gen.C01.dtnUnmarshal = Expected.C01.dtnUnmarshal ∧
    Gen.C01.calculateCRCBuff = Expected.C01.calculateCRCBuff ∧
    Gen.C01.dtnMarshal = Expected.C01.dtnMarshal ∧
    Gen.C01.ipnMarshal = Expected.C01.ipnMarshal ∧
    Gen.C01.ipnUnmarshal = Expected.C01.ipnUnmarshal ∧
    Gen.C01.timestampMarshal = Expected.C01.timestampMarshal ∧
    Gen.C01.timestampUnmarshal = Expected.C01.timestampUnmarshal ∧
    Gen.C01.payloadMarshal = Expected.C01.payloadMarshal ∧
    Gen.C01.payloadUnmarshal = Expected.C01.payloadUnmarshal ∧
    Gen.C01.genericMarshal = Expected.C01.genericMarshal ∧
    Gen.C01.genericUnmarshal = Expected.C01.genericUnmarshal ∧
    Gen.C01.prevNodeMarshal = Expected.C01.prevNodeMarshal ∧
    Gen.C01.prevNodeUnmarshal = Expected.C01.prevNodeUnmarshal ∧
    Gen.C01.ageMarshal = Expected.C01.ageMarshal ∧
    Gen.C01.ageUnmarshal = Expected.C01.ageUnmarshal ∧
    Gen.C01.hopMarshal = Expected.C01.hopMarshal ∧
    Gen.C01.hopUnmarshal = Expected.C01.hopUnmarshal ∧
    Gen.C01.sprayMarshal = Expected.C01.sprayMarshal ∧
    Gen.C01.sprayUnmarshal = Expected.C01.sprayUnmarshal ∧
    Gen.C01.dtlsrMarshal = Expected.C01.dtlsrMarshal ∧
    Gen.C01.dtlsrUnmarshal = Expected.C01.dtlsrUnmarshal ∧
    Gen.C01.prophetMarshal = Expected.C01.prophetMarshal ∧
    Gen.C01.prophetUnmarshal = Expected.C01.prophetUnmarshal ∧
    Gen.C01.signatureMarshal = Expected.C01.signatureMarshal ∧
    Gen.C01.signatureUnmarshal = Expected.C01.signatureUnmarshal ∧
    Gen.C01.createBlock = Expected.C01.createBlock ∧
    Gen.C01.parseDtnSsp = Expected.C01.parseDtnSsp :=
  ⟨rfl, rfl, rfl, rfl, rfl, rfl, rfl, rfl, rfl, rfl, rfl, rfl, rfl, rfl, rfl, rfl, rfl, rfl, rfl, rfl, rfl, rfl, rfl, rfl, rfl, rfl, rfl, rfl, rfl, rfl, rfl, rfl, rfl, rfl, rfl, rfl, rfl⟩

theorem gen_patterns : Gen.C01.dtnRegexpSsp = "//([\\w-._]+)/(.*)" ∧ Gen.C01.dtnNoneSsp = "none" := ⟨rfl, rfl⟩

/-! ### Theorems

`cfg.strict = true` selects the model of the code as it is (`gen_strict`); `cfg.extra` is any set of
additionally registered routing/signature block types; `now` any instant. -/

/-- **Lossless, with exact consumption** (first sentence of C01): for every encodable bundle that
passes `CheckValid`, `MarshalCbor` succeeds, and `ParseBundle` applied to those bytes followed by
arbitrary further bytes returns *the same* bundle — every primary field, and per block type, number,
flags, CRC type and content — and leaves exactly the bytes that followed. Map-valued blocks are entry
lists in the order Go happened to iterate; the statement holds for every order. -/
theorem parse_serialize (cfg : Cfg) (hs : cfg.strict = true) (now : Nat) (b : Bundle)
    (he : Encodable cfg b) (hv : checkValid cfg.strict now b = true) (rest : Bytes) :
    serialize b = .ok (serializeRaw b) ∧ parse cfg now (serializeRaw b ++ rest) = .ok (b, rest) :=
  Lemmas.parse_serialize cfg hs now b he hv rest

/-- **Deterministic**: the bytes are a function of the structure (every CRC is recomputed, nothing
else enters). -/
theorem serialize_deterministic (b : Bundle) (x y : Bytes) (hx : serialize b = .ok x)
    (hy : serialize b = .ok y) : x = y := by
  rw [hx] at hy; exact (Except.ok.inj hy)

/-- **Serialising the parsed result again yields the same bytes.** -/
theorem reserialise_same_bytes (cfg : Cfg) (hs : cfg.strict = true) (now : Nat) (b : Bundle)
    (he : Encodable cfg b) (hv : checkValid cfg.strict now b = true) (bs : Bytes)
    (hser : serialize b = .ok bs) (b' : Bundle) (r : Bytes) (hpar : parse cfg now bs = .ok (b', r)) :
    serialize b' = .ok bs := by
  obtain ⟨h1, h2⟩ := Lemmas.parse_serialize cfg hs now b he hv []
  rw [List.append_nil] at h2
  rw [h1] at hser
  have hbs : serializeRaw b = bs := Except.ok.inj hser
  rw [hbs] at h2
  rw [h2] at hpar
  have : b = b' := (Prod.mk.inj (Except.ok.inj hpar)).1
  rw [← this, h1, hbs]

/-- **Idempotent** (second sentence of C01): every byte string the parser accepts — whatever its
form: non-shortest heads, trailing bytes in a block value, a break code in place of a block item,
bytes after the bundle — decodes to an encodable bundle; that bundle re-serialises; and the new
bytes are accepted again at every instant at which the bundle is still valid, consumed entirely,
as the same bundle. This is the statement D5/D6/D7 falsify for the code before the repairs. -/
theorem accepted_reserialises (cfg : Cfg) (hs : cfg.strict = true) (now : Nat) (bs : Bytes)
    (b : Bundle) (r : Bytes) (h : parse cfg now bs = .ok (b, r)) :
    Encodable cfg b ∧ serialize b = .ok (serializeRaw b) ∧
    ∀ now', checkValid cfg.strict now' b = true → parse cfg now' (serializeRaw b) = .ok (b, []) :=
  Lemmas.accepted_reserialises cfg hs now bs b r h

/-- … in particular: same bundle ID, same blocks and payload, payload block last. -/
theorem accepted_reserialises_same (cfg : Cfg) (hs : cfg.strict = true) (now : Nat) (bs : Bytes)
    (b : Bundle) (r : Bytes) (h : parse cfg now bs = .ok (b, r)) :
    ∃ bs' b'', serialize b = .ok bs' ∧ parse cfg now bs' = .ok (b'', []) ∧
      b''.id = b.id ∧ b''.blocks = b.blocks ∧ b''.blocks.getLast?.map isPayload = some true := by
  obtain ⟨_, h2, h3⟩ := Lemmas.accepted_reserialises cfg hs now bs b r h
  have hv := (Lemmas.parse_ok_iff.mp h).2
  exact ⟨serializeRaw b, b, h2, h3 now hv, rfl, rfl, (Lemmas.checkValid_sound _ _ _ hv).payloadLast⟩

/-! Component round trips (bottom-up), each with exact consumption. -/

theorem eid_roundtrip (e : Eid) (hc : e.Canonical) (hb : e.Bounded) (rest : Bytes) :
    decEid (encEidRaw e ++ rest) = .ok (e, rest) :=
  Eid.Lemmas.decEid_encEidRaw e hc hb rest

theorem timestamp_roundtrip (t s : Nat) (ht : t < 2 ^ 64) (hs : s < 2 ^ 64) (rest : Bytes) :
    decTimestamp (encTimestamp t s ++ rest) = .ok ((t, s), rest) :=
  Lemmas.decTimestamp_enc t s ht hs rest

theorem primary_roundtrip (strict : Bool) (p : Primary) (hp : Primary.Enc p) (rest : Bytes) :
    decPrimary strict (encPrimaryRaw p ++ rest) = .ok (p, rest) :=
  Lemmas.decPrimary_enc strict p hp rest

theorem block_value_roundtrip (cfg : Cfg) (v : BlockValue) (hv : BlockValue.Enc cfg v) :
    decValue cfg v.typeCode (encValueInner v) = .ok v :=
  Lemmas.decValue_encValueInner cfg v hv

theorem canonical_roundtrip (cfg : Cfg) (c : Canonical) (hc : Canonical.Enc cfg c) (rest : Bytes) :
    decCanon cfg (encCanonRaw c ++ rest) = .block c rest :=
  Lemmas.decCanon_enc cfg c hc rest

/-- The parser's output is always in the normal form the serialiser writes (why idempotence holds). -/
theorem parsed_is_encodable (cfg : Cfg) (hs : cfg.strict = true) (bs : Bytes) (b : Bundle) (r : Bytes)
    (h : parseRaw cfg bs = .ok (b, r)) : Encodable cfg b :=
  Lemmas.parseRaw_inv hs h

/-- The bound on the number of loop iterations in the model of `Bundle.UnmarshalCbor` (`fuel`) is
not a restriction: any amount above the input length gives the same result. -/
theorem block_loop_fuel_irrelevant (cfg : Cfg) (f1 f2 : Nat) (bs : Bytes) (h1 : bs.length < f1)
    (h2 : bs.length < f2) : decBlocks cfg f1 bs = decBlocks cfg f2 bs :=
  Lemmas.decBlocks_fuel cfg f1 f2 bs h1 h2

/-! ### The code before the repairs: `accepted_reserialises` fails (witnesses for D5, D7, D6)

`strict := false` is the model of the parser without the three `fix:` commits. -/

def wNow : Nat := 800000000000
def wPrimary : Primary := ⟨7, 0, 0, .ipn 2 1, .ipn 1 1, .ipn 1 1, 799999990000, 0, 3600000, 0, 0⟩
def wPay : Canonical := ⟨1, 0, 0, .payload [1, 2, 3]⟩
def lax : Cfg := { extra := [], strict := false }

/-- D5: an 8-element primary block announcing CRC type 3 — accepted, cannot be written again. -/
def d5Bytes : Bytes := (serializeRaw ⟨wPrimary, [wPay]⟩).set 4 3

theorem d5_witness :
    (parse lax wNow d5Bytes).toOption = some (⟨{ wPrimary with crcT := 3 }, [wPay]⟩, []) ∧
    (serialize ⟨{ wPrimary with crcT := 3 }, [wPay]⟩).toOption = none ∧
    (parse {} wNow d5Bytes).toOption = none := by decide +kernel

/-- D7: a 10-element primary block without the fragment flag — accepted with offset 5 / total 9 in
the bundle ID, which the re-serialised bytes no longer carry. -/
def d7Bytes : Bytes := (serializeRaw ⟨{ wPrimary with flags := 1, fragOff := 5, total := 9 }, [wPay]⟩).set 3 0

def d7Bundle : Bundle := ⟨{ wPrimary with fragOff := 5, total := 9 }, [wPay]⟩

theorem d7_witness :
    (parse lax wNow d7Bytes).toOption = some (d7Bundle, []) ∧
    ((parse lax wNow (serializeRaw d7Bundle)).toOption.map (fun x => x.1.id)) =
      some (Bundle.id ⟨wPrimary, [wPay]⟩) ∧
    Bundle.id ⟨wPrimary, [wPay]⟩ ≠ d7Bundle.id ∧
    (parse {} wNow d7Bytes).toOption = none :=
  ⟨by decide +kernel, by decide +kernel, by decide +kernel, by decide +kernel⟩

/-- D6: with the DTLSR block type registered, a peer `ipn:0.0` inside the block — accepted,
`MarshalCbor` refuses the endpoint. -/
def d6Bundle : Bundle := ⟨wPrimary, [⟨2, 0, 0, .dtlsr (.ipn 1 1) 7 [(.ipn 0 0, 3)]⟩, wPay]⟩

theorem d6_witness :
    (parse { extra := [tDtlsr], strict := false } wNow (serializeRaw d6Bundle)).toOption = some (d6Bundle, []) ∧
    (serialize d6Bundle).toOption = none ∧
    (parse { extra := [tDtlsr], strict := true } wNow (serializeRaw d6Bundle)).toOption = none := by
  decide +kernel

/-! ### Non-vacuity -/

/-- A fragment with an ipn source, CRC-16 primary block, previous node, hop count, bundle age, an
unknown block type and a CRC-32 payload: encodable, valid, and it makes the round trip. -/
def exBundle : Bundle :=
  ⟨⟨7, 1 + 2 ^ 17, 1, .dtn [110, 49] [97, 47, 98], .ipn 23 42, .none, 799999990000, 7, 3600000, 256, 70000⟩,
   [⟨2, 1, 2, .prevNode (.dtn [103, 119] [])⟩, ⟨3, 0, 1, .hop 30 30⟩, ⟨4, 16, 0, .age 65536⟩,
    ⟨9, 0, 2, .generic 4000000000 [1, 2, 3]⟩, ⟨1, 0, 2, .payload [104, 105]⟩]⟩

theorem example_hypotheses : Encodable {} exBundle ∧ checkValid true wNow exBundle = true := by
  decide +kernel

theorem example_roundtrip :
    (parse {} wNow (serializeRaw exBundle ++ [1, 2])).toOption = some (exBundle, [1, 2]) := by
  decide +kernel

/-- … and one with all four routing/signature blocks registered, two-entry maps. -/
def exRouting : Bundle :=
  ⟨wPrimary,
   [⟨2, 0, 1, .spray 8⟩, ⟨3, 0, 2, .dtlsr (.ipn 1 1) 5 [(.ipn 2 1, 9), (.dtn [97] [], 70000)]⟩,
    ⟨4, 0, 0, .prophet [(.ipn 3 1, 4602678819172646912), (.none, 0)]⟩, wPay]⟩

theorem example_routing :
    Encodable { extra := [192, 193, 194] } exRouting ∧
    (parse { extra := [192, 193, 194] } wNow (serializeRaw exRouting)).toOption = some (exRouting, []) := by
  decide +kernel

end Dtn7.Props.C01
