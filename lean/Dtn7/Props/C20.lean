/-
C20 — DTLSR forwards along a least-cost path of the known link-state graph.
Property theorems only; helper lemmas live in `Dtn7.Lemmas.Dtlsr`.
-/
import Dtn7.Model.Dtlsr
import Dtn7.Lemmas.Dtlsr
import Dtn7.Gen.C20

namespace Dtn7.Props.C20
open Dtn7.Dtlsr

/-! ### The tie to the source: facts regenerated from /repo on every run -/

theorem gen_extraction_complete : Dtn7.Gen.C20.extractionFailures = [] := by decide

/-- The broadcast address (`Dest.broadcast` in the model). -/
theorem gen_broadcast_address :
    Dtn7.Gen.C20.broadcastAddress = "dtn://routing/dtlsr/broadcast/" := by decide

/-- Replace-if-newer is a strict `>` on the block's timestamp (`shouldReplace`), and
`NotifyNewBundle` stores exactly when nothing is stored or `ShouldReplace` holds
(`notifyData`/`State.notify`). -/
theorem gen_should_replace :
    Dtn7.Gen.C20.shouldReplace = ["return pd.Timestamp > other.Timestamp"] := by decide

theorem gen_notify_new_bundle :
    Dtn7.Gen.C20.notifyNewBundle.take 18 =
      ["if metaDataBlock, err := bp.MustBundle().ExtensionBlock(bpv7.ExtBlockTypeDTLSRBlock); err == nil",
       "  dtlsrBlock := metaDataBlock.Value.(*bpv7.DTLSRBlock)",
       "  data := dtlsrBlock.GetPeerData()",
       "  dtlsr.dataMutex.Lock()",
       "  defer dtlsr.dataMutex.Unlock()",
       "  storedData, present := dtlsr.receivedData[data.ID]",
       "  if !present",
       "    dtlsr.receivedData[data.ID] = data",
       "    dtlsr.receivedChange = true",
       "    dtlsr.newNode(data.ID)",
       "    for node := range data.Peers",
       "      dtlsr.newNode(node)",
       "  else",
       "    if data.ShouldReplace(storedData)",
       "      dtlsr.receivedData[data.ID] = data",
       "      dtlsr.receivedChange = true",
       "      for node := range data.Peers",
       "        dtlsr.newNode(node)"] := by decide

/-- Edge cost: `0` for a live link (`timestamp == 0`), otherwise `int64(currentTime - timestamp)`
on `uint64` DTN times (`edgeCost`), for the node's own links and for received ones. -/
theorem gen_edge_cost :
    Dtn7.Gen.C20.costRhs = ["0", "int64(currentTime - timestamp)", "0", "int64(currentTime - timestamp)"] ∧
    Dtn7.Gen.C20.costGuards = ["timestamp == 0", "!(timestamp == 0)", "timestamp == 0", "!(timestamp == 0)"] := by
  decide

/-- `Shortest(0, i)` for `i = 1 … length-1`, next hop `Path[1]`, into a fresh table that replaces
the old one (`libTable`/`State.computeLib`). -/
theorem gen_next_hop :
    Dtn7.Gen.C20.shortestCalls = ["graph.Shortest(0, i)"] ∧
    Dtn7.Gen.C20.hopAssign = ["routingTable[dtlsr.indexNode[i]] = dtlsr.indexNode[shortest.Path[1]]"] ∧
    Dtn7.Gen.C20.tableInit = [":= make(map[bpv7.EndpointID]bpv7.EndpointID)"] ∧
    Dtn7.Gen.C20.tableStore = ["routingTable"] ∧
    Dtn7.Gen.C20.computeLoops = ["i := 0; i < dtlsr.length; i++", "range dtlsr.peers.Peers",
      "range dtlsr.receivedData", "range data.Peers", "i := 1; i < dtlsr.length; i++"] := by
  decide

theorem gen_compute_routing_table :
    Dtn7.Gen.C20.computeRoutingTable =
      ["currentTime := bpv7.DtnTimeNow()",
       "graph := dijkstra.NewGraph()",
       "for i := 0; i < dtlsr.length; i++",
       "  graph.AddVertex(i)",
       "for peer, timestamp := range dtlsr.peers.Peers",
       "  var edgeCost int64",
       "  if timestamp == 0",
       "    edgeCost = 0",
       "  else",
       "    edgeCost = int64(currentTime - timestamp)",
       "  if err := graph.AddArc(0, dtlsr.nodeIndex[peer], edgeCost); err != nil",
       "    return",
       "for _, data := range dtlsr.receivedData",
       "  for peer, timestamp := range data.Peers",
       "    var edgeCost int64",
       "    if timestamp == 0",
       "      edgeCost = 0",
       "    else",
       "      edgeCost = int64(currentTime - timestamp)",
       "    if err := graph.AddArc(dtlsr.nodeIndex[data.ID], dtlsr.nodeIndex[peer], edgeCost); err != nil",
       "      return",
       "routingTable := make(map[bpv7.EndpointID]bpv7.EndpointID)",
       "for i := 1; i < dtlsr.length; i++",
       "  shortest, err := graph.Shortest(0, i)",
       "  if err == nil",
       "    if len(shortest.Path) <= 1",
       "      continue",
       "    routingTable[dtlsr.indexNode[i]] = dtlsr.indexNode[shortest.Path[1]]",
       "  else",
       "dtlsr.routingTable = routingTable"] := by decide

theorem gen_new_node :
    Dtn7.Gen.C20.newNode =
      ["_, present := dtlsr.nodeIndex[id]", "if present", "  return",
       "dtlsr.nodeIndex[id] = dtlsr.length", "dtlsr.indexNode = append(dtlsr.indexNode, id)",
       "dtlsr.length = dtlsr.length + 1"] := by decide

theorem gen_recompute_cron :
    Dtn7.Gen.C20.recomputeCron =
      ["dtlsr.dataMutex.RLock()", "peerChange := dtlsr.peerChange",
       "receivedChange := dtlsr.receivedChange", "dtlsr.dataMutex.RUnlock()",
       "if peerChange || receivedChange", "  dtlsr.dataMutex.Lock()",
       "  dtlsr.computeRoutingTable()", "  dtlsr.receivedChange = false",
       "  dtlsr.dataMutex.Unlock()"] := by decide

/-- `SenderForBundle`: broadcast destination ⇒ `filterCLAs` over all senders, `delete` stays false;
otherwise the table's forwarder, first matching sender, `delete = true` (`senderForBundle`). -/
theorem gen_sender_for_bundle :
    Dtn7.Gen.C20.senderForBundle =
      ["delete = false",
       "bndl, err := bp.Bundle()",
       "if err != nil",
       "  return",
       "if bndl.PrimaryBlock.Destination == dtlsr.broadcastAddress",
       "  bundleItem, err := dtlsr.c.store.QueryId(bp.Id)",
       "  if err != nil",
       "    return",
       "  sender, sentEids := filterCLAs(bundleItem, dtlsr.c.claManager.Sender(), \"dtlsr\")",
       "  bundleItem.Properties[\"routing/dtlsr/sent\"] = sentEids",
       "  if err := dtlsr.c.store.Update(bundleItem); err != nil",
       "  return sender, delete",
       "recipient := bndl.PrimaryBlock.Destination",
       "dtlsr.dataMutex.RLock()",
       "forwarder, present := dtlsr.routingTable[recipient]",
       "dtlsr.dataMutex.RUnlock()",
       "if !present",
       "  return",
       "for _, cs := range dtlsr.c.claManager.Sender()",
       "  if cs.GetPeerEndpointID() == forwarder",
       "    sender = append(sender, cs)",
       "    delete = true",
       "    return",
       "return"] := by decide

theorem gen_filter_clas :
    Dtn7.Gen.C20.filterCLAs =
      ["filtered = make([]cla.ConvergenceSender, 0)",
       "sentEids, ok := bundleItem.Properties[\"routing/\"+algorithm+\"/sent\"].([]bpv7.EndpointID)",
       "if !ok",
       "  sentEids = make([]bpv7.EndpointID, 0)",
       "for _, cs := range clas",
       "  skip := false",
       "  for _, eid := range sentEids",
       "    if cs.GetPeerEndpointID() == eid",
       "      skip = true",
       "      break",
       "  if !skip",
       "    filtered = append(filtered, cs)",
       "    sentEids = append(sentEids, cs.GetPeerEndpointID())",
       "return"] := by decide

/-- Own link state: a peer that appears is tracked and marked live (`0`); one that disappears gets
the current DTN time as loss time (`State.peerAppeared`/`peerDisappeared`). -/
theorem gen_report_peer :
    Dtn7.Gen.C20.reportPeerAppeared.drop 6 =
      ["dtlsr.newNode(peerID)", "dtlsr.peers.Peers[peerID] = 0",
       "dtlsr.peers.Timestamp = bpv7.DtnTimeNow()", "dtlsr.peerChange = true"] ∧
    Dtn7.Gen.C20.reportPeerDisappeared.drop 6 =
      ["timestamp := bpv7.DtnTimeNow()", "dtlsr.peers.Peers[peerID] = timestamp",
       "dtlsr.peers.Timestamp = timestamp", "dtlsr.peerChange = true"] := by decide

/-- The Dijkstra library the port `libShortest` mirrors: version and the source of the ported
functions (read from the module cache). -/
theorem gen_library_version : Dtn7.Gen.C20.dijkstraVersion = "v1.0.0" := by decide

theorem gen_library_entry :
    Dtn7.Gen.C20.libShortest = ["return g.evaluate(src, dest, true)"] ∧
    Dtn7.Gen.C20.libEvaluate = ["g.setup(shortest, src, -1)", "return g.postSetupEvaluate(src, dest, shortest)"] ∧
    Dtn7.Gen.C20.libFinally = ["if !g.visitedDest", "  return BestPath{}, ErrNoPath",
      "return g.bestPath(src, dest), nil"] ∧
    Dtn7.Gen.C20.libPopOrdered = ["if l.short", "  return l.popBack()", "return l.popFront()"] ∧
    Dtn7.Gen.C20.libLinkedListNewLong = ["return dijkstraList(new(linkedList).init(false))"] ∧
    Dtn7.Gen.C20.libVertexAddArc = ["if v.arcs == nil", "  v.arcs = map[int]int64{}",
      "v.arcs[Destination] = Distance"] ∧
    Dtn7.Gen.C20.libGraphAddArc = ["if len(g.Verticies) <= Source || len(g.Verticies) <= Destination",
      "  return errors.New(\"Source/Destination not found\")",
      "g.Verticies[Source].AddArc(Destination, Distance)", "return nil"] := by decide

/-- `setup`: labels `MaxInt64 - 2`, `best = MaxInt64`, source label 0 and pushed (`libInit`);
`forceList(-1)` with fewer than 800 vertices is `forceList(3)` = `linkedListNewLong`. -/
theorem gen_library_setup :
    Dtn7.Gen.C20.libSetup =
      ["if list >= 0", "  g.forceList(list)", "else if shortest", "  g.forceList(-1)", "else",
       "  g.forceList(-2)", "g.visitedDest = false", "if shortest",
       "  g.setDefaults(int64(math.MaxInt64)-2, -1)", "  g.best = int64(math.MaxInt64)", "else",
       "  g.setDefaults(int64(math.MinInt64)+2, -1)", "  g.best = int64(math.MinInt64)",
       "g.Verticies[src].distance = 0", "g.visiting.PushOrdered(&g.Verticies[src])"] ∧
    (Dtn7.Gen.C20.libForceList.drop 7).take 5 =
      ["case -1:", "  if len(g.Verticies) < 800", "    g.forceList(3)", "  else", "    g.forceList(1)"] ∧
    (Dtn7.Gen.C20.libForceList.drop 22).take 2 = ["case 3:", "  g.visiting = linkedListNewLong()"] := by
  decide

set_option maxRecDepth 8000 in
/-- The loop `evalLoop`/`relaxArcs` port. -/
theorem gen_library_loop :
    Dtn7.Gen.C20.libPostSetupEvaluate =
      ["var current *Vertex",
       "oldCurrent := -1",
       "for ; g.visiting.Len() > 0;",
       "  current = g.visiting.PopOrdered()",
       "  if oldCurrent == current.ID",
       "    continue",
       "  oldCurrent = current.ID",
       "  if shortest && current.distance >= g.best",
       "    continue",
       "  for v, dist := range current.arcs",
       "    if (shortest && current.distance+dist < g.Verticies[v].distance) || (!shortest && current.distance+dist > g.Verticies[v].distance)",
       "      if current.bestVerticies[0] == v && g.Verticies[v].ID != dest",
       "        return BestPath{}, newErrLoop(current.ID, v)",
       "      g.Verticies[v].distance = current.distance + dist",
       "      g.Verticies[v].bestVerticies[0] = current.ID",
       "      if v == dest",
       "        g.best = current.distance + dist",
       "        g.visitedDest = true",
       "        continue",
       "      g.visiting.PushOrdered(&g.Verticies[v])",
       "return g.finally(src, dest)"] := by decide

/-- `pushOrdered` (`pushOrdered`/`insertWalk`) and `bestPath` (`bestPathAux`). -/
theorem gen_library_list_and_path :
    Dtn7.Gen.C20.libPushOrdered =
      ["l.lazyinit()", "if l.len == 0", "  return l.pushFront(v)", "back := l.back()",
       "if back.Value.distance < v.distance", "  return l.insertValue(v, l.root.prev)",
       "current := l.front()",
       "for ; current.Value.distance < v.distance && current.Value.ID != v.ID;",
       "  current = current.next", "if current.Value.ID == v.ID", "  return current",
       "return l.insertValue(v, current.prev)"] ∧
    Dtn7.Gen.C20.libBestPath =
      ["var path []int",
       "for c := g.Verticies[dest]; c.ID != src; c = g.Verticies[c.bestVerticies[0]]",
       "  path = append(path, c.ID)", "path = append(path, src)",
       "for i, j := 0, len(path)-1; i < j; i, j = i+1, j-1", "  path[i], path[j] = path[j], path[i]",
       "return BestPath{g.Verticies[dest].distance, path}"] := by decide

/-! ### Routing table: translation validation -/

/-- **Soundness of the certificate checker** — for every graph of any size and any weights: a
table accepted together with *some* certificate satisfies the property's statement. The driver
evaluates `checkTable` on the routing table of the Go implementation (certificate from its own
Bellman–Ford), so every explored instance is decided by a verified verdict. -/
theorem checker_sound (g : Graph) (t : Table) (c : Cert) (h : checkTable g t c = true) :
    MinCostNextHop g (lookup t) :=
  Lemmas.checker_sound g t c h

/-! Non-vacuity: a 4-node graph with a lost link, two equal-cost routes and an unreachable node. -/
def exGraph : Graph := ⟨5, [(0, 1, 0), (0, 2, 1000), (1, 3, 2000), (2, 3, 1000), (3, 0, 0)]⟩
def exCert : Cert :=
  ⟨[some 0, some 0, some 1000, some 2000, none], [[], [0, 1], [0, 2], [0, 2, 3], []]⟩
example : checkTable exGraph [(1, 1), (2, 2), (3, 2)] exCert = true := by decide
example : checkTable exGraph [(1, 1), (2, 2), (3, 1)] ⟨exCert.pot, [[], [0, 1], [0, 2], [0, 1, 3], []]⟩ = true := by
  decide
example : checkTable exGraph [(1, 1), (2, 2), (3, 3)] exCert = false := by decide
example : checkTable exGraph [(1, 1), (2, 2)] exCert = false := by decide

end Dtn7.Props.C20
