/-
C20 — DTLSR forwards along a least-cost path of the known link-state graph.
Property theorems only; helper lemmas live in `Dtn7.Lemmas.Dtlsr`.
-/
import Dtn7.Model.Dtlsr
import Dtn7.Lemmas.Dtlsr
import Dtn7.Gen.C20

namespace Dtn7.Props.C20
open Dtn7.Dtlsr

/-! ### The tie to the source: facts regenerated from /repo on every run -/

theorem gen_extraction_complete : Dtn7.Gen.C20.extractionFailures = [] := by decide

/-- The broadcast address (`Dest.broadcast` in the model). -/
theorem gen_broadcast_address :
    Dtn7.Gen.C20.broadcastAddress = "dtn://routing/dtlsr/broadcast/" := by decide

/-- Replace-if-newer is a strict `>` on the block's timestamp (`shouldReplace`), and
`NotifyNewBundle` stores exactly when nothing is stored or `ShouldReplace` holds
(`notifyData`/`State.notify`). -/
theorem gen_should_replace :
    Dtn7.Gen.C20.shouldReplace = ["return pd.Timestamp > other.Timestamp"] := by decide

theorem gen_notify_new_bundle :
    Dtn7.Gen.C20.notifyNewBundle.take 18 =
      ["if metaDataBlock, err := bp.MustBundle().ExtensionBlock(bpv7.ExtBlockTypeDTLSRBlock); err == nil",
       "  dtlsrBlock := metaDataBlock.Value.(*bpv7.DTLSRBlock)",
       "  data := dtlsrBlock.GetPeerData()",
       "  dtlsr.dataMutex.Lock()",
       "  defer dtlsr.dataMutex.Unlock()",
       "  storedData, present := dtlsr.receivedData[data.ID]",
       "  if !present",
       "    dtlsr.receivedData[data.ID] = data",
       "    dtlsr.receivedChange = true",
       "    dtlsr.newNode(data.ID)",
       "    for node := range data.Peers",
       "      dtlsr.newNode(node)",
       "  else",
       "    if data.ShouldReplace(storedData)",
       "      dtlsr.receivedData[data.ID] = data",
       "      dtlsr.receivedChange = true",
       "      for node := range data.Peers",
       "        dtlsr.newNode(node)"] := by decide

/-- Edge cost: `0` for a live link (`timestamp == 0`), otherwise `int64(currentTime - timestamp)`
on `uint64` DTN times (`edgeCost`), for the node's own links and for received ones. -/
theorem gen_edge_cost :
    Dtn7.Gen.C20.costRhs = ["0", "int64(currentTime - timestamp)", "0", "int64(currentTime - timestamp)"] ∧
    Dtn7.Gen.C20.costGuards = ["timestamp == 0", "!(timestamp == 0)", "timestamp == 0", "!(timestamp == 0)"] := by
  decide

/-- `Shortest(0, i)` for `i = 1 … length-1`, next hop `Path[1]`, into a fresh table that replaces
the old one (`libTable`/`State.computeLib`). -/
theorem gen_next_hop :
    Dtn7.Gen.C20.shortestCalls = ["graph.Shortest(0, i)"] ∧
    Dtn7.Gen.C20.hopAssign = ["routingTable[dtlsr.indexNode[i]] = dtlsr.indexNode[shortest.Path[1]]"] ∧
    Dtn7.Gen.C20.tableInit = [":= make(map[bpv7.EndpointID]bpv7.EndpointID)"] ∧
    Dtn7.Gen.C20.tableStore = ["routingTable"] ∧
    Dtn7.Gen.C20.computeLoops = ["i := 0; i < dtlsr.length; i++", "range dtlsr.peers.Peers",
      "range dtlsr.receivedData", "range data.Peers", "i := 1; i < dtlsr.length; i++"] := by
  decide

theorem gen_compute_routing_table :
    Dtn7.Gen.C20.computeRoutingTable =
      ["currentTime := bpv7.DtnTimeNow()",
       "graph := dijkstra.NewGraph()",
       "for i := 0; i < dtlsr.length; i++",
       "  graph.AddVertex(i)",
       "for peer, timestamp := range dtlsr.peers.Peers",
       "  var edgeCost int64",
       "  if timestamp == 0",
       "    edgeCost = 0",
       "  else",
       "    edgeCost = int64(currentTime - timestamp)",
       "  if err := graph.AddArc(0, dtlsr.nodeIndex[peer], edgeCost); err != nil",
       "    return",
       "for _, data := range dtlsr.receivedData",
       "  for peer, timestamp := range data.Peers",
       "    var edgeCost int64",
       "    if timestamp == 0",
       "      edgeCost = 0",
       "    else",
       "      edgeCost = int64(currentTime - timestamp)",
       "    if err := graph.AddArc(dtlsr.nodeIndex[data.ID], dtlsr.nodeIndex[peer], edgeCost); err != nil",
       "      return",
       "routingTable := make(map[bpv7.EndpointID]bpv7.EndpointID)",
       "for i := 1; i < dtlsr.length; i++",
       "  shortest, err := graph.Shortest(0, i)",
       "  if err == nil",
       "    if len(shortest.Path) <= 1",
       "      continue",
       "    routingTable[dtlsr.indexNode[i]] = dtlsr.indexNode[shortest.Path[1]]",
       "  else",
       "dtlsr.routingTable = routingTable"] := by decide

theorem gen_new_node :
    Dtn7.Gen.C20.newNode =
      ["_, present := dtlsr.nodeIndex[id]", "if present", "  return",
       "dtlsr.nodeIndex[id] = dtlsr.length", "dtlsr.indexNode = append(dtlsr.indexNode, id)",
       "dtlsr.length = dtlsr.length + 1"] := by decide

theorem gen_recompute_cron :
    Dtn7.Gen.C20.recomputeCron =
      ["dtlsr.dataMutex.RLock()", "peerChange := dtlsr.peerChange",
       "receivedChange := dtlsr.receivedChange", "dtlsr.dataMutex.RUnlock()",
       "if peerChange || receivedChange", "  dtlsr.dataMutex.Lock()",
       "  dtlsr.computeRoutingTable()", "  dtlsr.receivedChange = false",
       "  dtlsr.dataMutex.Unlock()"] := by decide

/-- `SenderForBundle`: broadcast destination ⇒ `filterCLAs` over all senders, `delete` stays false;
otherwise the table's forwarder, first matching sender, `delete = true` (`senderForBundle`). -/
theorem gen_sender_for_bundle :
    Dtn7.Gen.C20.senderForBundle =
      ["delete = false",
       "bndl, err := bp.Bundle()",
       "if err != nil",
       "  return",
       "if bndl.PrimaryBlock.Destination == dtlsr.broadcastAddress",
       "  bundleItem, err := dtlsr.c.store.QueryId(bp.Id)",
       "  if err != nil",
       "    return",
       "  sender, sentEids := filterCLAs(bundleItem, dtlsr.c.claManager.Sender(), \"dtlsr\")",
       "  bundleItem.Properties[\"routing/dtlsr/sent\"] = sentEids",
       "  if err := dtlsr.c.store.Update(bundleItem); err != nil",
       "  return sender, delete",
       "recipient := bndl.PrimaryBlock.Destination",
       "dtlsr.dataMutex.RLock()",
       "forwarder, present := dtlsr.routingTable[recipient]",
       "dtlsr.dataMutex.RUnlock()",
       "if !present",
       "  return",
       "for _, cs := range dtlsr.c.claManager.Sender()",
       "  if cs.GetPeerEndpointID() == forwarder",
       "    sender = append(sender, cs)",
       "    delete = true",
       "    return",
       "return"] := by decide

/-- `purgePeers` only drops stale entries of the own peer list (`State.purge`); the node index is
never shrunk. -/
theorem gen_purge_peers :
    Dtn7.Gen.C20.purgePeers =
      ["currentTime := time.Now()", "dtlsr.dataMutex.Lock()", "defer dtlsr.dataMutex.Unlock()",
       "for peerID, timestamp := range dtlsr.peers.Peers",
       "  if timestamp != 0 && timestamp.Time().Add(dtlsr.purgeTime).Before(currentTime)",
       "    delete(dtlsr.peers.Peers, peerID)", "    dtlsr.peerChange = true"] := by decide

/-- `ReportFailure`: only for broadcast bundles; the failed peer (first occurrence) is removed from
the stored sent list (`reportFailure`). -/
theorem gen_report_failure :
    Dtn7.Gen.C20.reportFailure =
      ["bndl, err := bp.Bundle()",
       "if err != nil || bndl.PrimaryBlock.Destination != dtlsr.broadcastAddress",
       "  return",
       "dtlsr.failureMutex.Lock()",
       "defer dtlsr.failureMutex.Unlock()",
       "bundleItem, err := dtlsr.c.store.QueryId(bp.Id)",
       "if err != nil",
       "  return",
       "sentEids, ok := bundleItem.Properties[\"routing/dtlsr/sent\"].([]bpv7.EndpointID)",
       "if !ok",
       "  return",
       "for i := 0; i < len(sentEids); i++",
       "  if sentEids[i] == sender.GetPeerEndpointID()",
       "    sentEids = append(sentEids[:i], sentEids[i+1:]...)",
       "    break",
       "bundleItem.Properties[\"routing/dtlsr/sent\"] = sentEids",
       "if err := dtlsr.c.store.Update(bundleItem); err != nil"] := by decide

theorem gen_filter_clas :
    Dtn7.Gen.C20.filterCLAs =
      ["filtered = make([]cla.ConvergenceSender, 0)",
       "sentEids, ok := bundleItem.Properties[\"routing/\"+algorithm+\"/sent\"].([]bpv7.EndpointID)",
       "if !ok",
       "  sentEids = make([]bpv7.EndpointID, 0)",
       "for _, cs := range clas",
       "  skip := false",
       "  for _, eid := range sentEids",
       "    if cs.GetPeerEndpointID() == eid",
       "      skip = true",
       "      break",
       "  if !skip",
       "    filtered = append(filtered, cs)",
       "    sentEids = append(sentEids, cs.GetPeerEndpointID())",
       "return"] := by decide

/-- Own link state: a peer that appears is tracked and marked live (`0`); one that disappears gets
the current DTN time as loss time (`State.peerAppeared`/`peerDisappeared`). -/
theorem gen_report_peer :
    Dtn7.Gen.C20.reportPeerAppeared.drop 6 =
      ["dtlsr.newNode(peerID)", "dtlsr.peers.Peers[peerID] = 0",
       "dtlsr.peers.Timestamp = bpv7.DtnTimeNow()", "dtlsr.peerChange = true"] ∧
    Dtn7.Gen.C20.reportPeerDisappeared.drop 6 =
      ["timestamp := bpv7.DtnTimeNow()", "dtlsr.peers.Peers[peerID] = timestamp",
       "dtlsr.peers.Timestamp = timestamp", "dtlsr.peerChange = true"] := by decide

/-- The Dijkstra library the port `libShortest` mirrors: version and the source of the ported
functions (read from the module cache). -/
theorem gen_library_version : Dtn7.Gen.C20.dijkstraVersion = "v1.0.0" := by decide

theorem gen_library_entry :
    Dtn7.Gen.C20.libShortest = ["return g.evaluate(src, dest, true)"] ∧
    Dtn7.Gen.C20.libEvaluate = ["g.setup(shortest, src, -1)", "return g.postSetupEvaluate(src, dest, shortest)"] ∧
    Dtn7.Gen.C20.libFinally = ["if !g.visitedDest", "  return BestPath{}, ErrNoPath",
      "return g.bestPath(src, dest), nil"] ∧
    Dtn7.Gen.C20.libPopOrdered = ["if l.short", "  return l.popBack()", "return l.popFront()"] ∧
    Dtn7.Gen.C20.libLinkedListNewLong = ["return dijkstraList(new(linkedList).init(false))"] ∧
    Dtn7.Gen.C20.libVertexAddArc = ["if v.arcs == nil", "  v.arcs = map[int]int64{}",
      "v.arcs[Destination] = Distance"] ∧
    Dtn7.Gen.C20.libGraphAddArc = ["if len(g.Verticies) <= Source || len(g.Verticies) <= Destination",
      "  return errors.New(\"Source/Destination not found\")",
      "g.Verticies[Source].AddArc(Destination, Distance)", "return nil"] := by decide

/-- `setup`: labels `MaxInt64 - 2`, `best = MaxInt64`, source label 0 and pushed (`libInit`);
`forceList(-1)` with fewer than 800 vertices is `forceList(3)` = `linkedListNewLong`. -/
theorem gen_library_setup :
    Dtn7.Gen.C20.libSetup =
      ["if list >= 0", "  g.forceList(list)", "else if shortest", "  g.forceList(-1)", "else",
       "  g.forceList(-2)", "g.visitedDest = false", "if shortest",
       "  g.setDefaults(int64(math.MaxInt64)-2, -1)", "  g.best = int64(math.MaxInt64)", "else",
       "  g.setDefaults(int64(math.MinInt64)+2, -1)", "  g.best = int64(math.MinInt64)",
       "g.Verticies[src].distance = 0", "g.visiting.PushOrdered(&g.Verticies[src])"] ∧
    (Dtn7.Gen.C20.libForceList.drop 7).take 5 =
      ["case -1:", "  if len(g.Verticies) < 800", "    g.forceList(3)", "  else", "    g.forceList(1)"] ∧
    (Dtn7.Gen.C20.libForceList.drop 22).take 2 = ["case 3:", "  g.visiting = linkedListNewLong()"] := by
  decide

set_option maxRecDepth 8000 in
/-- The loop `evalLoop`/`relaxArcs` port. -/
theorem gen_library_loop :
    Dtn7.Gen.C20.libPostSetupEvaluate =
      ["var current *Vertex",
       "oldCurrent := -1",
       "for ; g.visiting.Len() > 0;",
       "  current = g.visiting.PopOrdered()",
       "  if oldCurrent == current.ID",
       "    continue",
       "  oldCurrent = current.ID",
       "  if shortest && current.distance >= g.best",
       "    continue",
       "  for v, dist := range current.arcs",
       "    if (shortest && current.distance+dist < g.Verticies[v].distance) || (!shortest && current.distance+dist > g.Verticies[v].distance)",
       "      if current.bestVerticies[0] == v && g.Verticies[v].ID != dest",
       "        return BestPath{}, newErrLoop(current.ID, v)",
       "      g.Verticies[v].distance = current.distance + dist",
       "      g.Verticies[v].bestVerticies[0] = current.ID",
       "      if v == dest",
       "        g.best = current.distance + dist",
       "        g.visitedDest = true",
       "        continue",
       "      g.visiting.PushOrdered(&g.Verticies[v])",
       "return g.finally(src, dest)"] := by decide

/-- `pushOrdered` (`pushOrdered`/`insertWalk`) and `bestPath` (`bestPathAux`). -/
theorem gen_library_list_and_path :
    Dtn7.Gen.C20.libPushOrdered =
      ["l.lazyinit()", "if l.len == 0", "  return l.pushFront(v)", "back := l.back()",
       "if back.Value.distance < v.distance", "  return l.insertValue(v, l.root.prev)",
       "current := l.front()",
       "for ; current.Value.distance < v.distance && current.Value.ID != v.ID;",
       "  current = current.next", "if current.Value.ID == v.ID", "  return current",
       "return l.insertValue(v, current.prev)"] ∧
    Dtn7.Gen.C20.libBestPath =
      ["var path []int",
       "for c := g.Verticies[dest]; c.ID != src; c = g.Verticies[c.bestVerticies[0]]",
       "  path = append(path, c.ID)", "path = append(path, src)",
       "for i, j := 0, len(path)-1; i < j; i, j = i+1, j-1", "  path[i], path[j] = path[j], path[i]",
       "return BestPath{g.Verticies[dest].distance, path}"] := by decide

/-! ### Routing table: translation validation -/

/-- **Soundness of the certificate checker** — for every graph of any size and any weights: a
table accepted together with *some* certificate satisfies the property's statement. The driver
evaluates `checkTable` on the routing table of the Go implementation (certificate from its own
Bellman–Ford), so every explored instance is decided by a verified verdict. -/
theorem checker_sound (g : Graph) (t : Table) (c : Cert) (h : checkTable g t c = true) :
    MinCostNextHop g (lookup t) :=
  Lemmas.checker_sound g t c h

/-! Non-vacuity: a 5-node graph with lost links, two equal-cost routes and an unreachable node. -/
def exGraph : Graph := ⟨5, [(0, 1, 0), (0, 2, 1000), (1, 3, 2000), (2, 3, 1000), (3, 0, 0)]⟩
def exCert : Cert :=
  ⟨[some 0, some 0, some 1000, some 2000, none], [[], [0, 1], [0, 2], [0, 2, 3], []]⟩
example : checkTable exGraph [(1, 1), (2, 2), (3, 2)] exCert = true := by decide
example : checkTable exGraph [(1, 1), (2, 2), (3, 1)] ⟨exCert.pot, [[], [0, 1], [0, 2], [0, 1, 3], []]⟩ = true := by
  decide
example : checkTable exGraph [(1, 1), (2, 2), (3, 3)] exCert = false := by decide
example : checkTable exGraph [(1, 1), (2, 2)] exCert = false := by decide

/-! ### Routing table: the algorithms -/

/-- **Bellman–Ford is exact**: `n` rounds of relaxation over a graph with weights ≥ 0 whose arcs
stay inside the `n` vertices label exactly the reachable vertices, each with its least walk cost.
(Simple-path argument: every walk can be replaced by one without repeated vertices that costs no
more, and such a walk has fewer than `n` arcs — pigeonhole.) -/
theorem bellman_ford_exact (g : Graph) (hw : ∀ e ∈ g.arcs, 0 ≤ e.2.2)
    (hwf : ∀ e ∈ g.arcs, e.2.1 < g.n) (s : Nat) (hs : s < g.n) (v : Nat) :
    ((bf g s).get v = none ↔ ¬ Reachable g s v) ∧
    (∀ d, (bf g s).get v = some d → IsDist g s v d) :=
  ⟨Lemmas.bf_none_iff hw hwf hs v, fun _ h => Lemmas.bf_isDist hw hwf hs h⟩

/-- The reference algorithm (`refTable`: distances by Bellman–Ford, first admissible next hop)
produces a table with the property — all graphs with weights ≥ 0. -/
theorem lib_correct_partial (g : Graph) (hw : ∀ e ∈ g.arcs, 0 ≤ e.2.2)
    (hwf : ∀ e ∈ g.arcs, e.1 < g.n ∧ e.2.1 < g.n) (hn : 0 < g.n) :
    MinCostNextHop g (lookup (refTable g)) :=
  Lemmas.refTable_correct g hw hwf hn

/-- **The ported `dijkstra.Graph.Shortest` is partially correct** for weights ≥ 0, for every
iteration order of the arc maps: an answer `ok d p` is a least-cost walk starting with an arc of
`src`; `ErrNoPath` means no walk cheaper than the library's infinity exists; the "loop detected"
error never occurs; `bestPath` always reaches `src` (the predecessor pointers are acyclic even with
zero-cost arcs: ghost time stamps). For an arbitrary fuel; `lib_shortest_terminates` below shows
that `outOfFuel` does not occur with the fuel the port uses. -/
theorem lib_shortest_correct (g : Graph) (hw : ∀ e ∈ g.arcs, 0 ≤ e.2.2)
    (hwf : ∀ e ∈ g.arcs, e.2.1 < g.n) (src dest : Nat) (hs : src < g.n)
    (hsd : src ≠ dest) (fuel : Nat) :
    match libShortest fuel g.n (adjOf g.arcs) src dest with
    | .ok d p => IsDist g src dest d ∧
        ∃ h rest w c, p = src :: h :: rest ∧ (src, h, w) ∈ g.arcs ∧ Walk g h dest c ∧ w + c = d
    | .noPath => ∀ c, Walk g src dest c → infDist ≤ c
    | .loopErr => False
    | .outOfFuel => True
    | .badPred => False :=
  Lemmas.libShortest_spec g hw hwf hs hsd fuel

/-- **The ported loop terminates by itself** (weights ≥ 0): twice the sum of all labels plus the
length of the work list drops in every iteration, and the port's fuel is that measure's initial
bound — so the fuel, which the Go loop does not have, is never what stops the port. -/
theorem lib_shortest_terminates (g : Graph) (hw : ∀ e ∈ g.arcs, 0 ≤ e.2.2)
    (hwf : ∀ e ∈ g.arcs, e.2.1 < g.n) (src dest : Nat) (hsd : src ≠ dest) :
    libShortest (libFuel g) g.n (adjOf g.arcs) src dest ≠ .outOfFuel :=
  Lemmas.libShortest_terminates g hw hwf hsd

/-- **`computeRoutingTable` with the ported library loop** (`Shortest(0, i)`, `Path[1]`) yields a
table with the property, for every graph with weights ≥ 0 and every iteration order of the arc
maps — provided costs stay below the library's infinity `MaxInt64 - 2`. -/
theorem lib_correct (g : Graph) (hw : ∀ e ∈ g.arcs, 0 ≤ e.2.2) (hwf : ∀ e ∈ g.arcs, e.2.1 < g.n)
    (hcost : ∀ d c, Walk g 0 d c → ∃ c', Walk g 0 d c' ∧ c' < infDist) :
    MinCostNextHop g (lookup (libTable g)) :=
  Lemmas.libTable_correct g hw hwf hcost

/-- The cost hypothesis of `lib_correct` follows from a finite check: the Bellman–Ford distances
from the node itself are below the library's infinity. -/
theorem lib_correct_cost_hypothesis (g : Graph) (hw : ∀ e ∈ g.arcs, 0 ≤ e.2.2)
    (hwf : ∀ e ∈ g.arcs, e.2.1 < g.n) (hn : 0 < g.n)
    (hb : ∀ d, d < g.n → ((bf g 0).get d).all (fun c => decide (c < infDist)) = true) :
    ∀ d c, Walk g 0 d c → ∃ c', Walk g 0 d c' ∧ c' < infDist :=
  Lemmas.cost_bound_of_bf hw hwf hn hb

/-! Non-vacuity of the hypotheses of `lib_correct` on the example graph. -/
example : ∀ e ∈ exGraph.arcs, 0 ≤ e.2.2 ∧ e.2.1 < exGraph.n := by decide
example : ∀ d, d < exGraph.n →
    ((bf exGraph 0).get d).all (fun c => decide (c < infDist)) = true := by decide
example : refTable exGraph = [(1, 1), (2, 2), (3, 1)] := by decide
example : libTable exGraph = [(1, 1), (2, 2), (3, 1)] := by decide
example : libShortest (libFuel exGraph) 5 (adjOf exGraph.arcs) 0 3 = .ok 2000 [0, 1, 3] := by decide
example : libShortest (libFuel exGraph) 5 (adjOf exGraph.arcs) 0 4 = .noPath := by decide
/-- The choice among equally good next hops depends on the iteration order of the arc map: -/
example : libTable ⟨4, [(0, 1, 0), (0, 2, 0), (1, 3, 5), (2, 3, 5)]⟩ = [(1, 1), (2, 2), (3, 2)] := by decide
example : libTable ⟨4, [(0, 2, 0), (0, 1, 0), (1, 3, 5), (2, 3, 5)]⟩ = [(1, 1), (2, 2), (3, 1)] := by decide

/-! ### The graph the node builds -/

/-- Cost of a link: live ⇒ 0; lost in the past ⇒ the elapsed milliseconds (`int64` conversion is
the identity below 2^63). -/
theorem edge_cost (now ts : Nat) (hle : ts ≤ now) (hnow : now < two64 / 2) :
    edgeCost now 0 = 0 ∧ (0 < ts → edgeCost now ts = ((now - ts : Nat) : Int)) ∧ 0 ≤ edgeCost now ts :=
  ⟨rfl, fun h => Lemmas.edgeCost_past h hle hnow, Lemmas.edgeCost_nonneg hle hnow⟩

/-- Outside the property's quantifier: a loss time in the future (clock skew) wraps around and
becomes a negative cost. -/
theorem edge_cost_future_negative_witness : edgeCost 1000 3000 = -2000 := by decide

/-- **After each recomputation** (all loss times in the past): the graph built from `peers` and
`receivedData` has costs ≥ 0 and stays inside the node index; hence the table of the ported
library loop on it has the property (costs below the library's infinity), and so has the
reference table. -/
theorem routing_table_min_cost (s : State) (now : Nat) (hp : Lemmas.PastLosses now s)
    (hnow : now < two64 / 2) (hix : s.indexNode ≠ []) :
    MinCostNextHop (buildGraph now s) (lookup (refTable (buildGraph now s))) ∧
    ((∀ d c, Walk (buildGraph now s) 0 d c → ∃ c', Walk (buildGraph now s) 0 d c' ∧ c' < infDist) →
     MinCostNextHop (buildGraph now s) (lookup (libTable (buildGraph now s)))) := by
  have hw := Lemmas.buildGraph_nonneg hp hnow
  have hwf := Lemmas.buildGraph_wf (now := now) hix
  refine ⟨Lemmas.refTable_correct _ hw hwf ?_, fun hcost =>
    Lemmas.libTable_correct _ hw (fun e he => (hwf e he).2) hcost⟩
  exact List.length_pos_iff.mpr hix

/-- **The node numbering handed to the Dijkstra library is a bijection**: the index stays
duplicate-free with the own node first under every operation that extends it, `nodeIndex` and
`indexNode` are inverse to each other, and the own node is vertex 0. -/
theorem node_index_bijective (self : Nat) (s : State) (h : Lemmas.IndexOk self s) :
    (∀ d, Lemmas.IndexOk self (s.notify d)) ∧ (∀ p, Lemmas.IndexOk self (s.peerAppeared p)) ∧
    (∀ now p, Lemmas.IndexOk self (s.peerDisappeared now p)) ∧
    (∀ i, i < s.indexNode.length → idxOf s.indexNode (s.indexNode.getD i 0) = i) ∧
    (∀ id ∈ s.indexNode, s.indexNode.getD (idxOf s.indexNode id) 0 = id) ∧
    idxOf s.indexNode self = 0 :=
  ⟨Lemmas.indexOk_notify h, Lemmas.indexOk_peerAppeared h, Lemmas.indexOk_peerDisappeared h,
   fun _ hi => Lemmas.idxOf_getD h.1 hi, fun _ hid => Lemmas.getD_idxOf hid, Lemmas.idxOf_self h⟩

example : Lemmas.IndexOk 0 (State.init 0) := Lemmas.indexOk_init 0

/-- The table is rebuilt from scratch: the old table has no influence. -/
theorem recompute_ignores_old_table (s : State) (t : Table) (now : Nat) :
    ({ s with table := t }.computeLib now).table = (s.computeLib now).table := rfl

/-- A node that lost peer 1 two seconds ago, has peer 2 live, and heard from 2 that 2–1 is live. -/
def exState : State :=
  ((((State.init 0).peerAppeared 1).peerAppeared 2).peerDisappeared 8000 1).notify ⟨2, 7, [(1, 0), (0, 0)]⟩
example : (buildGraph 10000 exState).arcs = [(0, 1, 2000), (0, 2, 0), (2, 1, 0), (2, 0, 0)] := by decide
example : (exState.computeLib 10000).table = [(1, 2), (2, 2)] := by decide
example : (exState.computeRef 10000).table = [(1, 2), (2, 2)] := by decide
example : Lemmas.PastLosses 10000 exState := by
  refine ⟨by decide, ?_⟩
  intro id d h e he
  have hr : exState.received id = if id = 2 then some ⟨2, 7, [(1, 0), (0, 0)]⟩ else none := by
    simp [exState, State.notify, State.peerDisappeared, State.peerAppeared, State.init,
      notifyAccepts, notifyData, upd]
  rw [hr] at h
  split at h
  · cases h
    simp at he
    rcases he with rfl | rfl <;> decide
  · cases h

/-! ### Link-state reception -/

/-- **Order freedom**: for every arrival order (permutation) of a set of link-state updates in
which two different updates of one node never carry the same timestamp, the stored link state
`receivedData` ends up the same. -/
theorem linkstate_order_free (s : State) (l₁ l₂ : List PeerData) (hp : l₁.Perm l₂)
    (hd : ∀ a ∈ l₁, ∀ b ∈ l₁, a.id = b.id → a.timestamp = b.timestamp → a = b) :
    (l₁.foldl State.notify s).received = (l₂.foldl State.notify s).received := by
  rw [Lemmas.received_foldl_notify, Lemmas.received_foldl_notify]
  exact Lemmas.foldl_notifyData_perm hp hd s.received

/-- **Only newer data replaces**: an update whose timestamp is equal to (or older than) the
stored one changes nothing — in particular equal timestamps never replace. -/
theorem linkstate_equal_or_older_never_replaces (s : State) (d stored : PeerData)
    (hs : s.received d.id = some stored) (ht : d.timestamp ≤ stored.timestamp) :
    s.notify d = s := by
  have : notifyAccepts s.received d = false := by
    simp only [notifyAccepts, hs, shouldReplace, decide_eq_false_iff_not]
    omega
  simp [State.notify, this]

/-- … and a strictly newer one, or the first one of a node, is stored. -/
theorem linkstate_newer_replaces (s : State) (d : PeerData)
    (h : s.received d.id = none ∨ ∃ st, s.received d.id = some st ∧ st.timestamp < d.timestamp) :
    (s.notify d).received d.id = some d := by
  rcases h with h | ⟨st, h, hlt⟩
  · have hacc : notifyAccepts s.received d = true := by simp [notifyAccepts, h]
    simp [State.notify, hacc, Lemmas.notifyData_apply, h, Lemmas.newer]
  · have hacc : notifyAccepts s.received d = true := by simp [notifyAccepts, h, shouldReplace, hlt]
    simp [State.notify, hacc, Lemmas.notifyData_apply, h, Lemmas.newer, hlt]

/-- The model meets the link-state Spec the driver evaluates on the implementation: starting
empty, what is stored for a node is the earliest arrived update among those with the maximal
timestamp. -/
theorem linkstate_stores_newest (l : List PeerData) (id : Nat) :
    (l.foldl State.notify (State.init 0)).received id = expectedStored l id := by
  rw [Lemmas.received_foldl_notify]
  exact Lemmas.foldl_notifyData_expected l id

example : ([⟨1, 20, [(2, 0)]⟩, ⟨1, 10, []⟩, ⟨1, 20, [(3, 0)]⟩].foldl State.notify (State.init 0)).received 1
    = some ⟨1, 20, [(2, 0)]⟩ := by decide
/-- Equal timestamps, different contents: the order matters (first wins) — why the hypothesis of
`linkstate_order_free` is needed. -/
example : ([⟨1, 20, [(3, 0)]⟩, ⟨1, 10, []⟩, ⟨1, 20, [(2, 0)]⟩].foldl State.notify (State.init 0)).received 1
    = some ⟨1, 20, [(3, 0)]⟩ := by decide

/-! ### Forwarding -/

/-- **Unicast**: `SenderForBundle` returns nothing, or exactly the one connected sender whose peer
is the table's next hop for the destination, and then asks for the bundle to be released; the
bundle's sent list is left alone. -/
theorem unicast_single_next_hop_then_released (table : Table) (clas sent : List Nat) (d : Nat) :
    (senderForBundle table clas sent (.node d)).sent = sent ∧
    ((senderForBundle table clas sent (.node d)).senders = [] ∧
        (senderForBundle table clas sent (.node d)).delete = false ∨
      ∃ h, lookup table d = some h ∧ h ∈ clas ∧
        (senderForBundle table clas sent (.node d)).senders = [h] ∧
        (senderForBundle table clas sent (.node d)).delete = true) :=
  Lemmas.senderForBundle_unicast table clas sent d

/-- **`Core.forward` for a unicast bundle**: every convergence sender it is handed to is the
destination itself (direct delivery) or the table's next hop; whenever it is handed to anybody it
is released after a successful transmission; without direct delivery at most one peer gets it. -/
theorem unicast_forward_only_direct_or_next_hop (table : Table) (clas sent : List Nat) (d : Nat) :
    (∀ p ∈ (forwardTargets table clas sent (.node d)).senders, p = d ∨ lookup table d = some p) ∧
    ((forwardTargets table clas sent (.node d)).senders ≠ [] →
      released (forwardTargets table clas sent (.node d)) true = true) ∧
    (d ∉ clas → (forwardTargets table clas sent (.node d)).senders.length ≤ 1) := by
  obtain ⟨h1, h2, h3⟩ := Lemmas.forwardTargets_unicast table clas sent d
  exact ⟨h1, fun hne => by simp [released, h2 hne], h3⟩

/-- **Broadcast, the choice of one forwarding run** (`SenderForBundle`): the chosen senders are
pairwise different connected peers that are not yet in the sent list; every connected peer is in
the sent list or chosen; the new sent list is the old one plus the chosen peers; the bundle is
kept (`delete = false`). -/
theorem broadcast_choice (table : Table) (clas sent : List Nat) :
    let r := senderForBundle table clas sent .broadcast
    r.senders.Nodup ∧ (∀ c ∈ r.senders, c ∈ clas ∧ c ∉ sent) ∧
    (∀ c ∈ clas, c ∈ sent ∨ c ∈ r.senders) ∧ r.sent = sent ++ r.senders ∧ r.delete = false := by
  obtain ⟨h1, h2, h3, h4⟩ := Lemmas.filterCLAs_spec clas sent
  exact ⟨h2, h3, h4, h1, rfl⟩

/-- **Broadcast, one forwarding run including the failure reports**: the bundle is handed, once
each, to exactly the connected peers outside the sent list; afterwards the sent list holds what
it held plus the peers served *successfully* — a peer whose transmission failed is out again
(`ReportFailure`). Consequently an immediate second run over the same peers serves exactly the
peers that failed, and nobody if nothing failed. -/
theorem broadcast_once_per_peer (sent clas fails : List Nat) :
    (broadcastAttempt sent clas fails).1.Nodup ∧
    (∀ x, x ∈ (broadcastAttempt sent clas fails).1 ↔ x ∈ clas ∧ x ∉ sent) ∧
    (∀ x, x ∈ (broadcastAttempt sent clas fails).2 ↔
      x ∈ sent ∨ (x ∈ clas ∧ x ∉ sent ∧ x ∉ fails)) ∧
    (∀ fails₂ x, x ∈ (broadcastAttempt (broadcastAttempt sent clas fails).2 clas fails₂).1 ↔
      x ∈ clas ∧ x ∉ sent ∧ x ∈ fails) := by
  obtain ⟨h1, h2, h3⟩ := Lemmas.broadcastAttempt_spec sent clas fails
  refine ⟨h1, h2, h3, ?_⟩
  intro fails₂ x
  rw [(Lemmas.broadcastAttempt_spec _ clas fails₂).2.1 x, h3 x]
  constructor
  · rintro ⟨hc, hn⟩
    refine ⟨hc, fun hs => hn (Or.inl hs), ?_⟩
    apply Classical.byContradiction
    intro hf
    exact hn (Or.inr ⟨hc, fun hs => hn (Or.inl hs), hf⟩)
  · rintro ⟨hc, hs, hf⟩
    refine ⟨hc, ?_⟩
    rintro (h | ⟨_, _, hnf⟩)
    · exact hs h
    · exact hnf hf

/-- **Broadcast, whole history**: over any sequence of forwarding runs (each seeing the then
connected peers and its own set of failing transmissions, the sent list persisted in between)
nobody who already had the bundle is served, and whenever a peer is served twice the earlier
transmission had failed — at most one successful transmission per peer, none after a success. -/
theorem broadcast_history_once (sent : List Nat) (hist : List (List Nat × List Nat)) :
    (∀ e ∈ broadcastLog sent hist, e.1 ∉ sent) ∧
    (broadcastLog sent hist).Pairwise (fun a b => a.1 = b.1 → a.2 = false) :=
  Lemmas.broadcastLog_spec hist sent

/-- The model meets the per-run broadcast Spec (`broadcastRunOk`) that the driver evaluates on the
implementation's transmissions. -/
theorem broadcast_model_meets_spec (sent clas fails had0 succ : List Nat)
    (hs : ∀ x, x ∈ sent ↔ x ∈ had0 ∨ x ∈ succ) :
    broadcastRunOk had0 succ clas (broadcastAttempt sent clas fails).1 = true :=
  Lemmas.broadcastAttempt_runOk sent clas fails had0 succ hs

example : senderForBundle [(3, 2)] [1, 2] [] (.node 3) = ⟨[2], true, []⟩ := by decide
example : senderForBundle [(3, 4)] [1, 2] [] (.node 3) = ⟨[], false, []⟩ := by decide
example : forwardTargets [(3, 2)] [1, 2, 3] [] (.node 3) = ⟨[3], true, []⟩ := by decide
example : senderForBundle [(3, 2)] [1, 2, 4] [4] .broadcast = ⟨[1, 2], false, [4, 1, 2]⟩ := by decide
example : broadcastAttempt [4] [1, 2, 4] [2] = ([1, 2], [4, 1]) := by decide
example : broadcastLog [4] [([1, 2, 4], [2]), ([1, 2, 4], [2]), ([1, 2, 4, 5], [])] =
    [(1, true), (2, false), (2, false), (2, true), (5, true)] := by decide
example : broadcastRunOk [4] [1] [1, 2, 4] [2] = true := by decide
example : broadcastRunOk [4] [1] [1, 2, 4] [1, 2] = false := by decide   -- served again after a success
example : broadcastRunOk [4] [1] [1, 2, 4] [] = false := by decide       -- the failed peer is not retried

end Dtn7.Props.C20
