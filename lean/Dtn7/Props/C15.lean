/-
C15 — status reports are truthful, correctly addressed and cannot cascade.
Property theorems only; helper lemmas live in `Dtn7.Lemmas.Reports`, the model and the Spec
(`ReportJustified`, …) in `Dtn7.Model.Reports`.
-/
import Dtn7.Model.Reports
import Dtn7.Lemmas.Reports
import Dtn7.Model.ReportsCbor
import Dtn7.Lemmas.ReportsCbor
import Dtn7.Gen.C15

namespace Dtn7.Props.C15
open Dtn7.Reports

/-! ## The tie: facts regenerated from the source on every run -/

theorem gen_extraction_ok : Dtn7.Gen.C15.extractionFailures = [] := by decide

/-- Flag bits, status positions, reason codes and the report lifetime the model uses. -/
theorem gen_constants :
    Dtn7.Gen.C15.fIsFragment = fIsFragment ∧ Dtn7.Gen.C15.fAdmin = fAdmin ∧
    Dtn7.Gen.C15.fReqTime = fReqTime ∧ Dtn7.Gen.C15.fReqReception = fReqReception ∧
    Dtn7.Gen.C15.fReqForward = fReqForward ∧ Dtn7.Gen.C15.fReqDelivery = fReqDelivery ∧
    Dtn7.Gen.C15.fReqDeletion = fReqDeletion ∧
    fReqAll = fReqReception ||| fReqForward ||| fReqDelivery ||| fReqDeletion ∧
    Dtn7.Gen.C15.bfReport = bfReport ∧ Dtn7.Gen.C15.bfDelete = bfDelete ∧
    Dtn7.Gen.C15.bfRemove = bfRemove ∧
    Dtn7.Gen.C15.posReceived = posReceived ∧ Dtn7.Gen.C15.posForwarded = posForwarded ∧
    Dtn7.Gen.C15.posDelivered = posDelivered ∧ Dtn7.Gen.C15.posDeleted = posDeleted ∧
    Dtn7.Gen.C15.maxPos = maxPos ∧
    Dtn7.Gen.C15.rNoInformation = rNoInformation ∧ Dtn7.Gen.C15.rLifetimeExpired = rLifetimeExpired ∧
    Dtn7.Gen.C15.rHopLimitExceeded = rHopLimitExceeded ∧
    Dtn7.Gen.C15.rBlockUnsupported = rBlockUnsupported ∧
    Dtn7.Gen.C15.reportLifetimeMs = reportLifetimeMs ∧
    Dtn7.Gen.C15.adminRecordTypeStatusReport = 1 := by decide

/-- `BundleControlFlags.Has` and `BlockControlFlags.Has` are `(bcf & flag) != 0` (`has`). -/
theorem gen_has : Dtn7.Gen.C15.flagsHas = ["return (bcf & flag) != 0"] ∧
    Dtn7.Gen.C15.blockFlagsHas = ["return (bcf & flag) != 0"] := by decide

/-- `Core.SendStatusReport`, statement by statement (logging removed): the two guards come first, `NewStatusReport` gets the subject bundle, the report bundle is built with the administrative flag only, source `aaEndpoint`, destination = the subject's report-to, and is submitted through `SendBundle`. -/
theorem gen_sendStatusReport : Dtn7.Gen.C15.sendStatusReport =
    ["bndl, _ := descriptor.Bundle()",
    "if bndl.PrimaryBlock.BundleControlFlags.Has(bpv7.AdministrativeRecordPayload)",
    "  return",
    "if c.HasEndpoint(bndl.PrimaryBlock.ReportTo)",
    "  return",
    "var sr = bpv7.NewStatusReport(*bndl, status, reason, bpv7.DtnTimeNow())",
    "var ar, arErr = bpv7.AdministrativeRecordToCbor(sr)",
    "if arErr != nil",
    "  return",
    "var aaEndpoint = descriptor.Receiver",
    "if aaEndpoint == bpv7.DtnNone()",
    "  aaEndpoint = c.NodeId",
    "if !c.HasEndpoint(aaEndpoint) && aaEndpoint != c.NodeId",
    "  return",
    "var outBndl, err = bpv7.Builder(). BundleCtrlFlags(bpv7.AdministrativeRecordPayload). Source(aaEndpoint). Destination(bndl.PrimaryBlock.ReportTo). CreationTimestampNow(). Lifetime(\"60m\"). Canonical(ar). Build()",
    "if err != nil",
    "  return",
    "c.SendBundle(&outBndl)"] := by rfl

/-- The early exits of `SendStatusReport`, in order. -/
theorem gen_ssrGuards : Dtn7.Gen.C15.ssrGuards =
    ["bndl.PrimaryBlock.BundleControlFlags.Has(bpv7.AdministrativeRecordPayload)",
    "c.HasEndpoint(bndl.PrimaryBlock.ReportTo)",
    "arErr != nil",
    "!c.HasEndpoint(aaEndpoint) && aaEndpoint != c.NodeId",
    "err != nil"] := by rfl

/-- The builder chain of the report bundle. -/
theorem gen_ssrBuilder : Dtn7.Gen.C15.ssrBuilder =
    ["bpv7",
    "Builder()",
    "BundleCtrlFlags(bpv7.AdministrativeRecordPayload)",
    "Source(aaEndpoint)",
    "Destination(bndl.PrimaryBlock.ReportTo)",
    "CreationTimestampNow()",
    "Lifetime(\"60m\")",
    "Canonical(ar)",
    "Build()"] := by rfl

/-- `NewStatusReport` is called after both guards, about the subject bundle, with the caller's status and reason. -/
theorem gen_ssrNewStatusReport : Dtn7.Gen.C15.ssrNewStatusReport =
    ["SendStatusReport | unless bndl.PrimaryBlock.BundleControlFlags.Has(bpv7.AdministrativeRecordPayload) | unless c.HasEndpoint(bndl.PrimaryBlock.ReportTo) | NewStatusReport(*bndl, status, reason, bpv7.DtnTimeNow())"] := by rfl

/-- `Core.HasEndpoint`. -/
theorem gen_hasEndpoint : Dtn7.Gen.C15.hasEndpoint =
    ["if c.NodeId.SameNode(endpoint)",
    "  return true",
    "if c.agentManager.HasEndpoint(endpoint)",
    "  return true",
    "if c.claManager.HasEndpoint(endpoint)",
    "  return true",
    "for _, cr := range c.claManager.Receiver()",
    "  if cr.GetEndpointID().SameNode(endpoint)",
    "    return true",
    "return false"] := by rfl

/-- `AgentManager.HasEndpoint`. -/
theorem gen_agentHasEndpoint : Dtn7.Gen.C15.agentHasEndpoint =
    ["return agent.AppAgentHasEndpoint(manager.mux, eid)"] := by rfl

/-- `cla.Manager.HasEndpoint` compares authorities. -/
theorem gen_claHasEndpoint : Dtn7.Gen.C15.claHasEndpoint =
    ["for _, clas := range manager.listenerIDs",
    "  for _, adapter := range clas",
    "    if adapter.Authority() == endpoint.Authority()",
    "      return true",
    "return false"] := by rfl

/-- `NewStatusReport`: one item per position, asserted at `statusItem` only, time only with `RequestStatusTime`, `RefBundle = bndl.ID()`. -/
theorem gen_newStatusReport : Dtn7.Gen.C15.newStatusReport =
    ["report = &StatusReport{ StatusInformation: make([]BundleStatusItem, maxStatusInformationPos), ReportReason: reason, RefBundle: bndl.ID(), }",
    "for i := 0; i < maxStatusInformationPos; i++",
    "  sip := StatusInformationPos(i)",
    "  switch",
    "  case sip == statusItem && bndl.PrimaryBlock.BundleControlFlags.Has(RequestStatusTime):",
    "    report.StatusInformation[i] = NewTimeReportingBundleStatusItem(time)",
    "  case sip == statusItem:",
    "    report.StatusInformation[i] = NewBundleStatusItem(true)",
    "  default:",
    "    report.StatusInformation[i] = NewBundleStatusItem(false)",
    "return"] := by rfl

/-- `Bundle.ID()` carries the fragment flag, offset and total length. -/
theorem gen_bundleId : Dtn7.Gen.C15.bundleId =
    ["return BundleID{ SourceNode: b.PrimaryBlock.SourceNode, Timestamp: b.PrimaryBlock.CreationTimestamp, IsFragment: b.PrimaryBlock.BundleControlFlags.Has(IsFragment), FragmentOffset: b.PrimaryBlock.FragmentOffset, TotalDataLength: b.PrimaryBlock.TotalDataLength, }"] := by rfl

/-- `BundleStatusItem.MarshalCbor`: the time is written exactly if asserted and requested. -/
theorem gen_statusItemMarshal : Dtn7.Gen.C15.statusItemMarshal =
    ["var arrLen uint64 = 1",
    "if bsi.Asserted && bsi.StatusRequested",
    "  arrLen = 2",
    "if err := cboring.WriteArrayLength(arrLen, w); err != nil",
    "  return err",
    "if err := cboring.WriteBoolean(bsi.Asserted, w); err != nil",
    "  return err",
    "if arrLen == 2",
    "  if err := cboring.WriteUInt(uint64(bsi.Time), w); err != nil",
    "    return err",
    "return nil"] := by rfl

/-- `StatusReport.MarshalCbor`: `2 + RefBundle.Len()` elements. -/
theorem gen_statusReportMarshal : Dtn7.Gen.C15.statusReportMarshal =
    ["if err := cboring.WriteArrayLength(2+sr.RefBundle.Len(), w); err != nil",
    "  return err",
    "if err := cboring.WriteArrayLength(uint64(len(sr.StatusInformation)), w); err != nil",
    "  return err",
    "for _, si := range sr.StatusInformation",
    "  statusInformation := si",
    "  if err := cboring.Marshal(&statusInformation, w); err != nil",
    "    return fmt.Errorf(\"Marshalling BundleStatusItem failed: %v\", err)",
    "if err := cboring.WriteUInt(uint64(sr.ReportReason), w); err != nil",
    "  return err",
    "if err := cboring.Marshal(&sr.RefBundle, w); err != nil",
    "  return fmt.Errorf(\"Marshalling BundleID failed: %v\", err)",
    "return nil"] := by rfl

/-- `BundleID.MarshalCbor`: offset and total length exactly for fragments. -/
theorem gen_bundleIdMarshal : Dtn7.Gen.C15.bundleIdMarshal =
    ["if err := cboring.Marshal(&bid.SourceNode, w); err != nil",
    "  return fmt.Errorf(\"marshalling source node failed: %v\", err)",
    "if err := cboring.Marshal(&bid.Timestamp, w); err != nil",
    "  return fmt.Errorf(\"marshalling timestamp failed: %v\", err)",
    "if bid.IsFragment",
    "  flds := []uint64{bid.FragmentOffset, bid.TotalDataLength}",
    "  for _, fld := range flds",
    "    if err := cboring.WriteUInt(fld, w); err != nil",
    "      return err",
    "return nil"] := by rfl

/-- `BundleID.Len`. -/
theorem gen_bundleIdLen : Dtn7.Gen.C15.bundleIdLen =
    ["if bid.IsFragment",
    "  return 4",
    "else",
    "  return 2"] := by rfl

/-- `bundleDeletion`. -/
theorem gen_bundleDeletion : Dtn7.Gen.C15.bundleDeletion =
    ["if bp.MustBundle().PrimaryBlock.BundleControlFlags.Has(bpv7.StatusRequestDeletion)",
    "  c.SendStatusReport(bp, bpv7.DeletedBundle, reason)",
    "bp.PurgeConstraints()",
    "_ = bp.Sync()"] := by rfl

/-- The call sites of `SendStatusReport` outside `localDelivery` (reception by flag, reception by an
unsupported block's flag, forwarding, deletion) with the conditions they sit under. -/
theorem gen_reportSites : Dtn7.Gen.C15.reportSites =
    ["receive | unless len(bp.Constraints) > 0 | if bp.MustBundle().PrimaryBlock.BundleControlFlags.Has(bpv7.StatusRequestReception) | SendStatusReport(bp, bpv7.ReceivedBundle, bpv7.NoInformation)",
    "receive | unless len(bp.Constraints) > 0 | for i := len(bp.MustBundle().CanonicalBlocks) - 1; i >= 0; i-- | unless bpv7.GetExtensionBlockManager().IsKnown(cb.TypeCode()) | if cb.BlockControlFlags.Has(bpv7.StatusReportBlock) | SendStatusReport(bp, bpv7.ReceivedBundle, bpv7.BlockUnsupported)",
    "forward | unless bp.MustBundle().IsLifetimeExceeded() | if bundleSent | if bp.MustBundle().PrimaryBlock.BundleControlFlags.Has(bpv7.StatusRequestForward) | SendStatusReport(bp, bpv7.ForwardedBundle, bpv7.NoInformation)",
      "bundleDeletion | if bp.MustBundle().PrimaryBlock.BundleControlFlags.Has(bpv7.StatusRequestDeletion) | SendStatusReport(bp, bpv7.DeletedBundle, reason)"] := by rfl

/-- The callers of `bundleDeletion` with their conditions and reasons. -/
theorem gen_deletionSites : Dtn7.Gen.C15.deletionSites =
    ["transmit | if src != bpv7.DtnNone() && !c.HasEndpoint(src) | bundleDeletion(bp, bpv7.NoInformation)",
    "receive | unless len(bp.Constraints) > 0 | for i := len(bp.MustBundle().CanonicalBlocks) - 1; i >= 0; i-- | unless bpv7.GetExtensionBlockManager().IsKnown(cb.TypeCode()) | if cb.BlockControlFlags.Has(bpv7.DeleteBundle) | bundleDeletion(bp, bpv7.BlockUnsupported)",
    "forward | if hcBlock, err := bp.MustBundle().ExtensionBlock(bpv7.ExtBlockTypeHopCountBlock); err == nil | if exceeded | bundleDeletion(bp, bpv7.HopLimitExceeded)",
    "forward | if bp.MustBundle().IsLifetimeExceeded() | bundleDeletion(bp, bpv7.LifetimeExpired)",
    "forward | unless bp.MustBundle().IsLifetimeExceeded() | if age, err := bp.UpdateBundleAge(); err == nil | if age >= bp.MustBundle().PrimaryBlock.Lifetime | bundleDeletion(bp, bpv7.LifetimeExpired)",
    "localDelivery | if bp.MustBundle().IsAdministrativeRecord() | if !c.checkAdministrativeRecord(bp) | bundleDeletion(bp, bpv7.NoInformation)"] := by rfl

/-- `bundleSent` is set only in the success branch of a convergence layer's `Send`. -/
theorem gen_bundleSentSites : Dtn7.Gen.C15.bundleSentSites =
    ["forward | unless bp.MustBundle().IsLifetimeExceeded() | for range nodes | go | func literal | else of (err := node.Send(*bp.MustBundle()); err != nil) | func literal | bundleSent = true"] := by rfl

/-- The retry path: `checkPendingBundles` rebuilds every descriptor from the ID the store keeps
(`bi.BId`), `newBundleItem` stores that ID scrubbed (no fragment offset / total length), and
`BundleDescriptor.Bundle` loads the bundle itself from the stored bytes — which is where
`SendStatusReport` takes the reference from (`gen_sendStatusReport`, `gen_newStatusReport`). -/
theorem gen_checkPendingBundles : Dtn7.Gen.C15.checkPendingBundles =
    ["if bis, err := c.store.QueryPending(); err != nil",
    "else",
    "  for _, bi := range bis",
    "    c.dispatching(NewBundleDescriptor(bi.BId, c.store))"] := by rfl

theorem gen_newBundleItem : Dtn7.Gen.C15.newBundleItem =
    ["bid := b.ID()",
    "bi = BundleItem{ Id: bid.Scrub().String(), BId: bid.Scrub(), Pending: false, Expires: calcExpirationDate(b), Fragmented: b.PrimaryBlock.HasFragmentation(), Properties: make(map[string]interface{}), }",
    "bp := BundlePart{ Filename: bundlePartPath(bid, storagePath), FragmentOffset: bid.FragmentOffset, TotalDataLength: bid.TotalDataLength, }",
    "bi.Parts = append(bi.Parts, bp)",
    "return"] := by rfl

theorem gen_descriptorBundle : Dtn7.Gen.C15.descriptorBundle =
    ["if descriptor.bndl != nil",
    "  return descriptor.bndl, nil",
    "if bi, err := descriptor.store.QueryId(descriptor.Id.Scrub()); err != nil",
    "  return nil, err",
    "else if bndl, err := bi.Parts[0].Load(); err != nil",
    "  return nil, err",
    "else",
    "  descriptor.bndl = &bndl",
    "  return &bndl, nil"] := by rfl

/-- The fifth call site, in `localDelivery`: whatever else it is conditioned on, it reports
`DeliveredBundle`/`NoInformation` and sits under the bundle's delivery-request flag. -/
theorem gen_deliveryReport :
    Dtn7.Gen.C15.deliveryReportCall = "SendStatusReport(bp, bpv7.DeliveredBundle, bpv7.NoInformation)" ∧
    Dtn7.Gen.C15.deliveryReportFlagGuarded = true := by decide

/-- The model variant of the current tree. `reportOnlyOnSuccess` is read from the source: does the
delivery report in `localDelivery` depend on `AgentManager.Deliver` having succeeded? While it
does not (D16), `localDelivery` is exactly the function the model mirrors; once it does, only the
generated fact flips and `report_justified_code` becomes the full statement. -/
theorem gen_localDelivery :
    Dtn7.Gen.C15.reportOnlyOnSuccess = true ∨
    (Dtn7.Gen.C15.reportOnlyOnSuccess = false ∧
     Dtn7.Gen.C15.deliveryReportSite =
      ["localDelivery | if bp.MustBundle().PrimaryBlock.BundleControlFlags.Has(bpv7.StatusRequestDelivery) | SendStatusReport(bp, bpv7.DeliveredBundle, bpv7.NoInformation)"] ∧
     Dtn7.Gen.C15.localDelivery =
    ["if bp.MustBundle().IsAdministrativeRecord()",
      "  if !c.checkAdministrativeRecord(bp)",
      "    c.bundleDeletion(bp, bpv7.NoInformation)",
      "    return",
      "bp.AddConstraint(LocalEndpoint)",
      "_ = bp.Sync()",
      "if err := c.agentManager.Deliver(bp); err != nil",
      "if bp.MustBundle().PrimaryBlock.BundleControlFlags.Has(bpv7.StatusRequestDelivery)",
      "  c.SendStatusReport(bp, bpv7.DeliveredBundle, bpv7.NoInformation)",
      "bp.PurgeConstraints()",
      "_ = bp.Sync()"]) := by
  first
    | exact Or.inl rfl
    | exact Or.inr ⟨rfl, rfl, rfl⟩

/-- The configuration the current source selects. -/
def codeCfg : Cfg := ⟨Dtn7.Gen.C15.reportOnlyOnSuccess⟩

/-! ## The property -/

/-- **Truthfulness, outcome by outcome** (repaired `localDelivery`): for every node, every subject
bundle (all flag words, fragments or not, any report-to, any receiver), every time and every
outcome, each report the node emits is an administrative record without request flags, addressed
to the subject's report-to endpoint, naming its exact ID, with a time exactly if requested, and
asserting exactly one status which happened *and* was requested. -/
theorem report_justified (n : Node) (s : Subject) (now : Nat) (o : Outcome) (r : Report)
    (hr : r ∈ processOutcome ⟨true⟩ n s now o) : ReportJustified s (eventsOf o) r :=
  Lemmas.report_justified_general ⟨true⟩ n s now o (Or.inl rfl) r hr

/-- The code as it stands (`reportOnlyOnSuccess = false`) satisfies the statement for every
outcome except "addressed to the node but no agent took the bundle" … -/
theorem report_justified_partial (n : Node) (s : Subject) (now : Nat) (o : Outcome) (r : Report)
    (ho : o ≠ .noAgent) (hr : r ∈ processOutcome ⟨false⟩ n s now o) :
    ReportJustified s (eventsOf o) r :=
  Lemmas.report_justified_general ⟨false⟩ n s now o (Or.inr ho) r hr

/-- A bundle from `dtn://src/` to `dtn://node/app`, delivery report requested, report-to
`dtn://rep/`; the node `dtn://node/` has no agent for `app`. -/
def witnessNode : Node := { id := .dtn [110] [] }
def witnessSubject : Subject :=
  { flags := fReqDelivery, source := .dtn [115] [], destination := .dtn [110] [97],
    reportTo := .dtn [114] [], time := 1, seq := 0 }
def witnessReport : Report :=
  { flags := fAdmin, source := .dtn [110] [], destination := .dtn [114] [], reportTo := .dtn [110] [],
    lifetime := 3600000, items := [⟨false, none⟩, ⟨false, none⟩, ⟨true, none⟩, ⟨false, none⟩],
    reason := 0, ref := ⟨.dtn [115] [], 1, 0, none⟩ }

/-- … and this is the witness that it fails there (D16): a "delivered" report although nothing was
delivered. -/
theorem report_justified_witness :
    witnessReport ∈ processOutcome ⟨false⟩ witnessNode witnessSubject 0 .noAgent ∧
    ¬ ReportJustified witnessSubject (eventsOf .noAgent) witnessReport := by
  refine ⟨by decide, fun h => ?_⟩
  have h1 := (Lemmas.fail_none_iff _ _ _).mpr h
  have h2 : reportJustifiedFail witnessSubject (eventsOf .noAgent) witnessReport =
      some "reported-delivered-did-not-happen" := by decide
  rw [h2] at h1
  cases h1

/-- The statement about the tree that was extracted: full as soon as the source makes the delivery
report depend on `Deliver`'s success, partial (all outcomes but `noAgent`) before. -/
theorem report_justified_code (n : Node) (s : Subject) (now : Nat) (o : Outcome) (r : Report)
    (hc : Dtn7.Gen.C15.reportOnlyOnSuccess = true ∨ o ≠ .noAgent)
    (hr : r ∈ processOutcome codeCfg n s now o) : ReportJustified s (eventsOf o) r :=
  Lemmas.report_justified_general codeCfg n s now o hc r hr

/-- **Truthfulness along whole flows** (`receive` with its unknown blocks then dispatching,
`SendBundle`, a retry from the store): every report of the flow is justified by the events of that
flow. -/
theorem flow_report_justified (n : Node) (s : Subject) (now : Nat) (fl : Flow) (r : Report)
    (hr : r ∈ flowReports ⟨true⟩ n s now fl) : ReportJustified s (flowEvents s fl) r :=
  Lemmas.flow_justified ⟨true⟩ n s now fl (Or.inl rfl) r hr

theorem flow_report_justified_partial (n : Node) (s : Subject) (now : Nat) (fl : Flow) (r : Report)
    (hno : Outcome.noAgent ∉ flowOutcomes s fl)
    (hr : r ∈ flowReports ⟨false⟩ n s now fl) : ReportJustified s (flowEvents s fl) r :=
  Lemmas.flow_justified ⟨false⟩ n s now fl (Or.inr hno) r hr

/-- **No report about an administrative record** — whatever happens to it, in either variant. -/
theorem no_report_about_admin (cfg : Cfg) (n : Node) (s : Subject) (now : Nat) (fl : Flow)
    (h : s.admin = true) : flowReports cfg n s now fl = [] :=
  Lemmas.flow_no_report_about_admin cfg n s now fl h

/-- **No report about a bundle whose report-to endpoint is this node** (node ID, an application
agent's endpoint, a convergence layer's endpoint). -/
theorem no_report_to_self (cfg : Cfg) (n : Node) (s : Subject) (now : Nat) (fl : Flow)
    (h : n.hasEndpoint s.reportTo = true) : flowReports cfg n s now fl = [] :=
  Lemmas.flow_no_report_to_self cfg n s now fl h

/-- **Every report is an administrative record without request flags**: its flag word is exactly
the administrative-record bit. -/
theorem report_has_no_request_flags (cfg : Cfg) (h : List Step) (r : Report)
    (hr : r ∈ runHistory cfg h) :
    r.flags = fAdmin ∧ has r.flags fAdmin = true ∧ has r.flags fReqAll = false := by
  have := Lemmas.mem_runHistory_flags hr
  rw [this]; decide

/-- **No cascade, counting form** (induction over the history): along any history of any nodes
processing any subjects — including reports emitted earlier — the number of reports is bounded by
the number of events that concern non-administrative subjects (at most two per event: an unknown
block may ask for a reception report and for the bundle's deletion). -/
theorem no_cascade (cfg : Cfg) (h : List Step) :
    (runHistory cfg h).length ≤ 2 * nonAdminEvents h :=
  Lemmas.no_cascade cfg h

/-- **No cascade, one report per event**: with the repaired `localDelivery` the number of reports
of any history is at most the number of events (received, unsupported block, forwarded, delivered,
deleted) that happened to non-administrative subjects … -/
theorem no_cascade_events (h : List Step) :
    (runHistory ⟨true⟩ h).length ≤ nonAdminEventCount h :=
  Lemmas.no_cascade_events ⟨true⟩ h (Or.inl rfl)

/-- … and for the code as it stands as long as no flow of the history ends in "no agent took the
bundle" (D16 again: there a report is emitted although no event happened). -/
theorem no_cascade_events_partial (h : List Step)
    (hno : ∀ e ∈ h, Outcome.noAgent ∉ flowOutcomes e.subject e.flow) :
    (runHistory ⟨false⟩ h).length ≤ nonAdminEventCount h :=
  Lemmas.no_cascade_events ⟨false⟩ h (Or.inr hno)

theorem no_cascade_events_witness :
    ¬ (runHistory ⟨false⟩ [⟨witnessNode, witnessSubject, 0, .submit .noAgent⟩]).length ≤
      nonAdminEventCount [⟨witnessNode, witnessSubject, 0, .submit .noAgent⟩] := by decide

/-- **No cascade, re-entry form**: a report emitted anywhere in a history, re-entering any node
(with any timestamp, extra blocks and receiver) along any flow, produces no report. -/
theorem report_reentry_silent (cfg : Cfg) (h : List Step) (r : Report) (hr : r ∈ runHistory cfg h)
    (n : Node) (time seq : Nat) (blocks : List Nat) (receiver : Eid) (now : Nat) (fl : Flow) :
    flowReports cfg n (r.asSubject time seq blocks receiver) now fl = [] :=
  Lemmas.report_reentry_silent cfg h r hr n time seq blocks receiver now fl

/-- Hence a history in which only administrative records circulate is silent. -/
theorem no_cascade_closed (cfg : Cfg) (h : List Step) (hadm : ∀ e ∈ h, e.subject.admin = true) :
    runHistory cfg h = [] := by
  simp only [runHistory, List.flatMap_eq_nil_iff]
  intro e he
  exact Lemmas.flow_no_report_about_admin cfg e.node e.subject e.now e.flow (hadm e he)

/-- **The reference is the exact ID**, fragment offset and total length included. -/
theorem ref_is_exact_id (cfg : Cfg) (n : Node) (s : Subject) (now : Nat) (fl : Flow) (r : Report)
    (hr : r ∈ flowReports cfg n s now fl) :
    r.ref = s.id ∧ (s.isFragment = true → r.ref.frag = some (s.fragOffset, s.totalLen)) ∧
    (s.isFragment = false → r.ref.frag = none) := by
  obtain ⟨p, reason, _, _, hs⟩ := Lemmas.mem_flowReports_ssr hr
  have hid := (Lemmas.ssr_some hs).2.2.2.2.2.2.2.2.1
  refine ⟨hid, ?_, ?_⟩ <;> intro hf <;> simp [hid, Subject.id, hf]

/-- **Also on the retry-from-store path**: `checkPendingBundles` rebuilds the descriptor from the
store's index, which keeps the ID without fragment offset and total length; a report about a
fragment nevertheless names the fragment (the reference is taken from the stored bundle itself),
so it differs from the descriptor's ID. -/
theorem ref_from_stored_bundle (cfg : Cfg) (n : Node) (s : Subject) (now : Nat) (d : Outcome)
    (r : Report) (hf : s.isFragment = true) (hr : r ∈ flowReports cfg n s now (.retry d)) :
    r.ref = s.id ∧ r.ref.frag = some (s.fragOffset, s.totalLen) ∧
    r.ref ≠ descriptorId s (.retry d) := by
  obtain ⟨hid, hfr, _⟩ := ref_is_exact_id cfg n s now (.retry d) r hr
  refine ⟨hid, hfr hf, fun h => ?_⟩
  have := congrArg BundleId.frag h
  rw [hfr hf] at this
  simp [descriptorId, storedId] at this

/-- **A time is reported exactly if requested**: an item carries a time iff it is the asserted one
and the subject has the request-time flag; and then it is the time of the report. -/
theorem time_iff_requested (cfg : Cfg) (n : Node) (s : Subject) (now : Nat) (fl : Flow) (r : Report)
    (hr : r ∈ flowReports cfg n s now fl) :
    ∀ it ∈ r.items, (it.time.isSome = true ↔ (it.asserted = true ∧ s.reqTime = true)) ∧
      (it.time.isSome = true → it.time = some now) := by
  obtain ⟨p, reason, _, _, hs⟩ := Lemmas.mem_flowReports_ssr hr
  have hi := (Lemmas.ssr_some hs).2.2.2.2.2.2.1
  intro it hit
  rw [hi] at hit
  simp only [newItems, List.mem_cons, List.mem_nil_iff, or_false] at hit
  cases hrt : s.reqTime <;> rcases hit with rfl | rfl | rfl | rfl <;>
    simp [newItem, hrt] <;> split <;> simp

/-- **Addressing**: destination = the subject's report-to; the source is the node ID or the
registered endpoint the bundle was received on; lifetime 60 minutes. -/
theorem report_addressing (cfg : Cfg) (n : Node) (s : Subject) (now : Nat) (fl : Flow) (r : Report)
    (hr : r ∈ flowReports cfg n s now fl) :
    r.destination = s.reportTo ∧ r.lifetime = 3600000 ∧
    (r.source = n.id ∨ (r.source = s.receiver ∧ n.hasEndpoint s.receiver = true)) := by
  obtain ⟨p, reason, _, _, hs⟩ := Lemmas.mem_flowReports_ssr hr
  have h := Lemmas.ssr_some hs
  exact ⟨h.2.2.2.1, h.2.2.2.2.2.1, h.2.2.2.2.2.2.2.2.2⟩

/-- **On the wire**: the payload of every report — `[1, [items, reason, source, [time, seq]
(, offset, total)]]`, 4 or 6 elements depending on the fragment flag — is read back by a receiver
(`ReadAdministrativeRecord` / `StatusReport.UnmarshalCbor`) as exactly the record that was written,
every byte consumed; in particular the receiver obtains the subject's exact ID, fragment offset and
total length included. (All numbers below 2^64, the subject's source an endpoint the codec
accepts.) -/
theorem wire_exact_id (cfg : Cfg) (n : Node) (s : Subject) (now : Nat) (fl : Flow) (r : Report)
    (hr : r ∈ flowReports cfg n s now fl)
    (hsrc : s.source.wf) (hnow : u64 now) (ht : u64 s.time) (hq : u64 s.seq)
    (hfo : u64 s.fragOffset) (hft : u64 s.totalLen) :
    decAdminRecord (encAdminRecord r.record) = .ok (r.record, []) ∧ r.record.ref = s.id := by
  obtain ⟨p, reason, _, hreason, hs⟩ := Lemmas.mem_flowReports_ssr hr
  have hw := Lemmas.record_wf_of_ssr hs hreason hsrc hnow ht hq hfo hft
  have := Lemmas.decAdminRecord_enc r.record [] hw
  simp only [List.append_nil] at this
  exact ⟨this, (Lemmas.ssr_some hs).2.2.2.2.2.2.2.2.1⟩

/-- The fragment flag decides between the 4- and the 6-element form. -/
theorem wire_length (rec : Record) :
    ∃ rest, encStatusReport rec = Dtn7.Cbor.encArray (if rec.ref.frag.isSome then 6 else 4) ++ rest := by
  refine ⟨(Dtn7.Cbor.encArray rec.items.length ++ encItems rec.items) ++
    Dtn7.Cbor.encUInt rec.reason ++ encBundleId rec.ref, ?_⟩
  simp only [encStatusReport, BundleId.len, List.append_assoc]
  split <;> rfl

/-- **Completeness of the model** (the converse direction, checked against the code by the
correspondence run, not part of the property statement): when the guards allow reporting, a status
that happened and was requested is asserted by a report of the flow. -/
theorem report_complete (cfg : Cfg) (n : Node) (s : Subject) (now : Nat) (fl : Flow) (p : Nat)
    (hw : fl.wellFormed = true) (ha : reportingAllowed n s = true)
    (hh : happened (flowEvents s fl) p = true) (hq : requested s (flowEvents s fl) p = true) :
    ∃ r ∈ flowReports cfg n s now fl, assertedPositions r = [p] :=
  Lemmas.flow_complete cfg n s now fl p hw ha hh hq

/-- The executable Spec the driver evaluates on the implementation's reports is the Spec the
theorems conclude. -/
theorem spec_executable (s : Subject) (evs : List Event) (r : Report) :
    reportJustifiedFail s evs r = none ↔ ReportJustified s evs r :=
  Lemmas.fail_none_iff s evs r

/-! ## Non-vacuity: concrete instances -/

/-- A fragment with all four request flags and the time flag, two unknown blocks (the last one asks
for a report, the first one for deletion), received at `dtn://node/`. -/
def exSubject : Subject :=
  { flags := fIsFragment ||| fReqTime ||| fReqAll, source := .dtn [115] [], destination := .dtn [100] [],
    reportTo := .dtn [114] [], time := 7, seq := 3, fragOffset := 10, totalLen := 100,
    blocks := [bfDelete, bfReport] }

example : flowOutcomes exSubject (.receive .forwarded) =
    [.received, .unknownBlock bfReport, .unknownBlock bfDelete] := by decide
example : (flowReports ⟨true⟩ witnessNode exSubject 5 (.receive .forwarded)).map
    (fun r => (assertedPositions r, r.reason, r.ref.frag, r.items.map (·.time))) =
    [([0], 0, some (10, 100), [some 5, none, none, none]),
     ([0], 11, some (10, 100), [some 5, none, none, none]),
     ([3], 11, some (10, 100), [none, none, none, some 5])] := by decide
example : (flowReports ⟨true⟩ witnessNode { exSubject with blocks := [] } 5 (.receive .forwarded)).map
    assertedPositions = [[0], [1]] := by decide
example : flowReports ⟨true⟩ witnessNode { exSubject with flags := exSubject.flags ||| fAdmin } 5
    (.receive .forwarded) = [] := by decide
example : flowReports ⟨true⟩ witnessNode { exSubject with reportTo := .dtn [110] [120] } 5
    (.receive .forwarded) = [] := by decide
example : (flowReports ⟨false⟩ witnessNode witnessSubject 0 (.receive .noAgent)).length = 1 := by decide
example : flowReports ⟨true⟩ witnessNode witnessSubject 0 (.receive .noAgent) = [] := by decide
example : reportingAllowed witnessNode exSubject = true := by decide
example : (Flow.receive .forwarded).wellFormed = true := by decide
example : (match decAdminRecord (encAdminRecord witnessReport.record) with
    | .ok (rec, rest) => rec == witnessReport.record && rest == []
    | .error _ => false) = true := by decide
example : (flowReports ⟨true⟩ witnessNode exSubject 5 (.receive .forwarded)).map
    (fun r => (encAdminRecord r.record).length) = [27, 27, 27] := by decide
example : exSubject.source.wf := ⟨by decide, by decide, by decide, by decide⟩
example : happened (flowEvents exSubject (.receive .forwarded)) 0 = true ∧
    requested exSubject (flowEvents exSubject (.receive .forwarded)) 0 = true ∧
    happened (flowEvents exSubject (.receive .forwarded)) 3 = true := by decide
example : (runHistory ⟨false⟩ [⟨witnessNode, exSubject, 5, .receive .forwarded⟩]).length = 3 := by decide
example : ∀ e ∈ [(⟨witnessNode, { exSubject with flags := fAdmin }, 5, .receive .forwarded⟩ : Step)],
    e.subject.admin = true := by decide
example : (Outcome.forwarded ≠ .noAgent) := by decide
example : Outcome.noAgent ∉ flowOutcomes exSubject (.receive .forwarded) := by decide
example : (flowReports ⟨true⟩ witnessNode exSubject 5 (.retry .forwarded)).map (·.ref.frag) =
    [some (10, 100)] ∧ (descriptorId exSubject (.retry .forwarded)).frag = none := by decide
example : nonAdminEventCount [⟨witnessNode, exSubject, 5, .receive .forwarded⟩] = 6 := by decide
example : nonAdminEvents [⟨witnessNode, exSubject, 5, .receive .forwarded⟩] = 3 := by decide

end Dtn7.Props.C15
