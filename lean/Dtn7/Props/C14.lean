/-
C14 — bundles originated at the node get distinct IDs, in the store and on the wire; the sequence
number the node assigns is the one under which the bundle is stored and the one that is transmitted.
Property theorems only; helper lemmas live in `Dtn7.Lemmas.IdKeeper`.

The model (`Dtn7.Model.IdKeeper`): every call of `Core.SendBundle` is a thread of micro-steps
`lock, read, write, stamp, unlock, clean, push, send`; a schedule is an arbitrary list of decisions
"thread i performs its next step" / "the node retransmits its store to adapter p". Sequential
histories are the schedules that run one thread after the other, so the theorems below, which
quantify over ALL schedules, cover sequences and concurrent groups alike.
-/
import Dtn7.Model.IdKeeper
import Dtn7.Lemmas.IdKeeper
import Dtn7.Lemmas.IdKeeperSeq
import Dtn7.Gen.C14

namespace Dtn7.Props.C14
open Dtn7.IdKeeper

/-! ## The model is the one the code selects (regenerated facts) -/

theorem gen_no_extraction_failure : Dtn7.Gen.C14.extractionFailures = [] := by decide

/-- `SendBundle` assigns the sequence number (unconditionally, as its first statement, before a
signature is attached) before it creates the descriptor, which precedes `transmit`; `transmit`
does not touch the IdKeeper and is entered from `SendBundle` only. The assignment is
`IdKeeper.updateUnless` with "the store knows this (scrubbed) ID" as the `taken` predicate
(`Cfg.code.skipKnown`, /repo 43cf7bc); `update` is the wrapper without a predicate. -/
theorem gen_update_first :
    Cfg.code.updateFirst =
      (Dtn7.Gen.C14.sendBundleUpdateUnconditional &&
        decide (0 ≤ Dtn7.Gen.C14.sendBundleUpdateStmt ∧
          Dtn7.Gen.C14.sendBundleUpdateStmt < Dtn7.Gen.C14.sendBundleDescriptorStmt ∧
          Dtn7.Gen.C14.sendBundleDescriptorStmt < Dtn7.Gen.C14.sendBundleTransmitStmt ∧
          Dtn7.Gen.C14.sendBundleUpdateIdx < Dtn7.Gen.C14.sendBundleDescriptorIdx ∧
          (Dtn7.Gen.C14.sendBundleSignIdx < 0 ∨
            Dtn7.Gen.C14.sendBundleUpdateIdx < Dtn7.Gen.C14.sendBundleSignIdx)) &&
        !Dtn7.Gen.C14.transmitCallsUpdate &&
        decide (Dtn7.Gen.C14.transmitCallers = ["SendBundle"]) &&
        decide (Dtn7.Gen.C14.updateCallers = ["SendBundle"])) ∧
    Cfg.code.skipKnown =
      (decide (Dtn7.Gen.C14.sendBundleUpdateCall = "idKeeper.updateUnless") &&
       decide (Dtn7.Gen.C14.sendBundleFirstStmt =
         "c.idKeeper.updateUnless(bndl, func(bid bpv7.BundleID) bool { _, err := c.store.QueryId(bid.Scrub()) return err == nil })") &&
       decide (Dtn7.Gen.C14.updateUnlessCallers = ["SendBundle", "update"]) &&
       decide (Dtn7.Gen.C14.updateWrapperSkeleton = ["idk.updateUnless(bndl, nil)"])) := by decide

/-- `IdKeeper.updateUnless`: the mutex is held from before the first to after the last access of the map
and of the bundle's timestamp, the counter is written into the bundle inside the bracket, the loop that
takes the next number while the ID is taken sits inside the bracket too (the model's single `stamp` step,
`stampSeq`/`firstFree`), and `clean` follows (autoClean is set by `NewIdKeeper`). The model's `prog`/`exec`
copy this shape. -/
theorem gen_update_locked :
    Dtn7.Gen.C14.updateLocked = Cfg.code.locked ∧ Dtn7.Gen.C14.updateWritesSeq = true ∧
    Dtn7.Gen.C14.updateSkeleton =
      ["var tpl = newIdTuple(bndl)",
       "idk.mutex.Lock()",
       "if state, ok := idk.data[tpl]; ok",
       "  idk.data[tpl] = state + 1",
       "else",
       "  idk.data[tpl] = 0",
       "idk.used[tpl] = bpv7.DtnTimeNow()",
       "bndl.PrimaryBlock.CreationTimestamp[1] = idk.data[tpl]",
       "for ; taken != nil && taken(bndl.ID());",
       "  idk.data[tpl] = idk.data[tpl] + 1",
       "  bndl.PrimaryBlock.CreationTimestamp[1] = idk.data[tpl]",
       "idk.mutex.Unlock()",
       "if idk.autoClean",
       "  idk.clean()"] ∧
    Dtn7.Gen.C14.newIdKeeperSkeleton =
      ["return IdKeeper{ data: make(map[idTuple]uint64), used: make(map[idTuple]bpv7.DtnTime), autoClean: true, }"] ∧
    Dtn7.Gen.C14.newIdTupleSkeleton =
      ["return idTuple{ source: bndl.PrimaryBlock.SourceNode, time: bndl.PrimaryBlock.CreationTimestamp.DtnTime(), }"] := by
  decide

/-- `IdKeeper.clean`: the comparison of the model — the time of the tuple's LAST USE (`idk.used`, written by
`updateUnless` inside its critical section: `gen_update_locked`) against the threshold, the epoch time
exempt; both maps lose the entry —, and a retention constant of one day expressed in
the unit of `DtnTime` (milliseconds: `DtnTimeFromTime` divides nanoseconds by `nanoToMilli`). -/
theorem gen_clean_window :
    Dtn7.Gen.C14.cleanWindow = Cfg.code.window ∧
    Dtn7.Gen.C14.cleanWindow * Dtn7.Gen.C14.nanoToMilli = 24 * 60 * 60 * 1000000000 ∧
    Dtn7.Gen.C14.cleanJudgesByUse = Cfg.code.byUse ∧
    Dtn7.Gen.C14.cleanSkeleton =
      ["idk.mutex.Lock()",
       "var threshold = bpv7.DtnTimeNow() - 60*60*24*1000",
       "for tpl, used := range idk.used",
       "  if used < threshold && tpl.time != bpv7.DtnTimeEpoch",
       "    delete(idk.data, tpl)",
       "    delete(idk.used, tpl)",
       "idk.mutex.Unlock()"] ∧
    Dtn7.Gen.C14.dtnTimeFromTimeSkeleton =
      ["return (DtnTime)((t.UTC().UnixNano() / nanoToMilli) - milliseconds1970To2k)"] := by
  decide

/-- Descriptor creation computes the store key from the bundle's id at that moment and pushes the
bundle unless the key is known; `Push` ignores a known (unfragmented) key; retransmissions load the
bundle from the store; the agent manager submits through `SendBundle`. -/
theorem gen_descriptor_store :
    Dtn7.Gen.C14.newDescriptorFromBundleSkeleton =
      ["descriptor := NewBundleDescriptor(b.ID(), store)", "descriptor.bndl = &b",
       "_ = descriptor.Sync()", "return descriptor"] ∧
    Dtn7.Gen.C14.syncHead =
      ["if !descriptor.store.KnowsBundle(descriptor.Id.Scrub())",
       "  return descriptor.store.Push(*descriptor.bndl)"] ∧
    Dtn7.Gen.C14.pushTail = ["else", "  return nil"] ∧
    Dtn7.Gen.C14.checkPendingCalls = ["c.store.QueryPending", "c.dispatching", "NewBundleDescriptor"] ∧
    Dtn7.Gen.C14.agentHandleMessageCalls = ["manager.core.SendBundle"] := by
  decide

/-! ## The counter -/

/-- **Per (source, time), while the entry is retained, the numbers are `next, next+1, …`** — for
every script of `update`s (of arbitrary tuples) and `clean`s, with or without autoClean. Retained: no
`clean` of the script comes more than a window after the tuple's last use (the use before the script, `u κ`,
and the `update`s of `κ` in the script) — the tuple's creation time does not matter any more. -/
theorem seq_consecutive (w : Nat) (auto : Bool) (κ : Key) (m : Keeper) (u : Used) (ops : List Op)
    (h0 : ∀ op ∈ ops, op.cleans auto = true → droppedAt w op.now (u κ) κ = false)
    (hret : ∀ op ∈ ops, op.cleans auto = true → ∀ op' ∈ ops, Lemmas.isUpd κ op' = true →
      droppedAt w op.now op'.now κ = false) :
    seqsOf w auto κ m u ops = List.range' (nextOf (m κ)) (ops.countP (Lemmas.isUpd κ)) :=
  Lemmas.seqsOf_eq w auto κ ops m u h0 hret

/-- … in particular strictly increasing, and above everything handed out before. -/
theorem seq_strictly_increasing (w : Nat) (auto : Bool) (κ : Key) (m : Keeper) (u : Used) (ops : List Op)
    (h0 : ∀ op ∈ ops, op.cleans auto = true → droppedAt w op.now (u κ) κ = false)
    (hret : ∀ op ∈ ops, op.cleans auto = true → ∀ op' ∈ ops, Lemmas.isUpd κ op' = true →
      droppedAt w op.now op'.now κ = false) :
    (seqsOf w auto κ m u ops).Pairwise (· < ·) ∧ ∀ s ∈ seqsOf w auto κ m u ops, nextOf (m κ) ≤ s := by
  rw [seq_consecutive w auto κ m u ops h0 hret]
  refine ⟨List.pairwise_lt_range' 1, ?_⟩
  intro s hs
  rw [List.mem_range'_1] at hs
  exact hs.1

/-- The retention hypothesis in the form of the property text: the epoch time is always retained, and so is
an entry that was used at most one window before the clock reading (or later). -/
theorem retained_epoch_or_recent (w now t : Nat) (κ : Key)
    (h : κ.time = 0 ∨ (w ≤ now ∧ now < 2 ^ 64 ∧ now - t ≤ w)) : droppedAt w now t κ = false := by
  rcases h with h | ⟨h1, h2, h3⟩
  · exact Lemmas.droppedAt_epoch w now t κ h
  · exact Lemmas.droppedAt_window w now t κ h1 h2 h3

/-! ## All schedules of submissions -/

/-- Thread `i` has received its final sequence number (it has executed `stamp`). -/
def Stamped (n : Node) (i : Nat) : Prop := stampedPc Cfg.code ≤ (n.th i).pc
instance (n : Node) (i : Nat) : Decidable (Stamped n i) := by unfold Stamped; infer_instance

/-- Thread `i` has executed `push`. -/
def Pushed (n : Node) (i : Nat) : Prop := (prog Cfg.code).idxOf .push + 1 ≤ (n.th i).pc
instance (n : Node) (i : Nat) : Decidable (Pushed n i) := by unfold Pushed; infer_instance

/-- Thread `i` is inside the critical section of `update` (between `lock` and `unlock`). -/
def InUpdate (n : Node) (i : Nat) : Prop :=
  (prog Cfg.code).idxOf .lock + 1 ≤ (n.th i).pc ∧ (n.th i).pc ≤ (prog Cfg.code).idxOf .unlock
instance (n : Node) (i : Nat) : Decidable (InUpdate n i) := by unfold InUpdate; infer_instance

/-- **`update` is atomic**: under every schedule, whatever the clock readings, at most one
submission is between `lock` and `unlock`, i.e. the read-modify-write of the counter and the write
into the bundle are never interleaved with another submission's. -/
theorem update_mutually_exclusive (subs : Nat → Sub) (k0 : Keeper) (σ : List Act) (i j : Nat)
    (hi : InUpdate (run Cfg.code subs (Node.init subs k0) σ) i)
    (hj : InUpdate (run Cfg.code subs (Node.init subs k0) σ) j) : i = j :=
  Lemmas.exclusive_of_inv _
    (Lemmas.invL_run subs σ _ ⟨by simp [Node.init], by simp [Node.init]⟩) i j hi hj

/-- **Distinct ids for every schedule.** `A` marks the submissions that take part. If no `clean` of
a participating submission comes more than a window after the clock reading of another participant (the
tuple's last use), then under EVERY schedule
any two submissions that have their number carry different ids. (`update` holds the mutex:
`gen_update_locked`.) -/
theorem ids_distinct (subs : Nat → Sub) (A : Nat → Prop) (k0 : Keeper) (σ : List Act)
    (hσ : ∀ i, Act.step i ∈ σ → A i)
    (hret : ∀ i j, A i → A j → droppedAt Cfg.code.window (subs i).now (subs j).now (subs j).key = false)
    (i j : Nat) (hij : i ≠ j)
    (hi : Stamped (run Cfg.code subs (Node.init subs k0) σ) i)
    (hj : Stamped (run Cfg.code subs (Node.init subs k0) σ) j) :
    idOf subs (run Cfg.code subs (Node.init subs k0) σ) i ≠
      idOf subs (run Cfg.code subs (Node.init subs k0) σ) j :=
  Lemmas.ids_ne_of_inv subs A _
    (Lemmas.inv_run subs A hret σ _ hσ (Lemmas.inv_init subs A k0 _)) i j hij hi hj

/-- **k submissions with one source and one creation time — ANY creation time** (zero, this millisecond, a
year ago), submitted within one retention window of each other by the node's clock: under every schedule of
these k threads that lets all of them reach their number, the k ids are pairwise distinct. This is the full
statement of the property for the counter; the only hypothesis left is about the wall clock (the k
submissions happen within 24 h) — before the repair of `clean` it was about the creation time
(`retention_gap_witness`). `assigned_number_is_free` holds regardless. -/
theorem ids_distinct_partial (k : Nat) (src : String) (t : Nat) (subs : Nat → Sub) (k0 : Keeper)
    (σ : List Act)
    (hσ : ∀ i, Act.step i ∈ σ → i < k)
    (hkey : ∀ i, i < k → (subs i).key = ⟨src, t⟩)
    (hwin : t = 0 ∨ ∀ i j, i < k → j < k → Cfg.code.window ≤ (subs i).now ∧ (subs i).now < 2 ^ 64 ∧
      (subs i).now - (subs j).now ≤ Cfg.code.window)
    (hall : ∀ i, i < k → Stamped (run Cfg.code subs (Node.init subs k0) σ) i) :
    ((List.range k).map (idOf subs (run Cfg.code subs (Node.init subs k0) σ))).Nodup := by
  have hret : ∀ i j, i < k → j < k →
      droppedAt Cfg.code.window (subs i).now (subs j).now (subs j).key = false := by
    intro i j hi hj
    apply retained_epoch_or_recent
    rw [hkey j hj]
    rcases hwin with h | h
    · exact Or.inl h
    · exact Or.inr (h i j hi hj)
  rw [List.Nodup, List.pairwise_map]
  refine List.Pairwise.imp_of_mem ?_ List.nodup_range
  intro a b ha hb hab
  exact ids_distinct subs (· < k) k0 σ hσ hret a b hab
    (hall a (List.mem_range.mp ha)) (hall b (List.mem_range.mp hb))

/-- **The number assigned is the number stored and the number transmitted** — for every schedule,
every mix of first transmissions and retransmissions from the store, WITHOUT any retention
hypothesis: every store key equals the id inside the stored bytes, every transmitted copy of a
bundle carries the id under which that bundle is stored, and all copies of one bundle carry one id.
(Submissions are told apart by their payload `tag`.) -/
theorem stored_is_sent (subs : Nat → Sub) (k0 : Keeper) (σ : List Act)
    (htag : ∀ i j, (subs i).tag = (subs j).tag → i = j) :
    StoredIsSent (obsOf (run Cfg.code subs (Node.init subs k0) σ)) :=
  Lemmas.storedIsSent_of_inv subs _ htag
    (Lemmas.invS_run subs σ _ (Lemmas.invS_init subs k0))

/-- **Distinct in the store and on the wire, one store item per bundle** — for every schedule under
the retention hypothesis: different bundles leave under different ids, are filed under different
keys, and every submission that has passed `push` is filed exactly once. -/
theorem distinct_in_store_and_on_wire (subs : Nat → Sub) (A : Nat → Prop) (k0 : Keeper)
    (σ : List Act) (hσ : ∀ i, Act.step i ∈ σ → A i)
    (hret : ∀ i j, A i → A j → droppedAt Cfg.code.window (subs i).now (subs j).now (subs j).key = false)
    (htag : ∀ i j, (subs i).tag = (subs j).tag → i = j)
    (is : List Nat) (his : ∀ i ∈ is, Pushed (run Cfg.code subs (Node.init subs k0) σ) i) :
    SentIdsDistinct (obsOf (run Cfg.code subs (Node.init subs k0) σ)) ∧
    StoreKeysDistinct (obsOf (run Cfg.code subs (Node.init subs k0) σ)) ∧
    FiledOnce (is.map (fun i => (subs i).tag)) (obsOf (run Cfg.code subs (Node.init subs k0) σ)) := by
  obtain ⟨h1, h2, h3⟩ := Lemmas.all_run subs A hret σ _ hσ (Lemmas.inv_init subs A k0 _)
    (Lemmas.invS_init subs k0) (by intro i h; simp [Node.init] at h)
  exact ⟨Lemmas.sentDistinct_of_inv subs A _ h1 h2, Lemmas.storeDistinct_of_inv subs A _ h1 h2,
    Lemmas.filedOnce_of_inv subs _ htag h2 h3 is his⟩

/-! ## Witnesses: what the hypotheses and the repairs are needed for -/

/-- Two submissions of node `n` with one creation time. -/
def twoSubs (time now seq0 : Nat) : Nat → Sub := fun i => ⟨i, ⟨"n", time⟩, seq0, now, [7]⟩

/-- **The number assigned is free** (`assigned_number_is_free`): whatever the store holds and whatever the
counter says — after a restart, after `clean` dropped the entry — the id that `updateUnless` stamps into
the bundle is not a key of the store at that moment. No retention hypothesis. -/
theorem assigned_number_is_free (n : Node) (k : Key) :
    knows n.store ⟨k.source, k.time, stampSeq Cfg.code n k⟩ = false :=
  Lemmas.stampSeq_free n k

/-- **D18, residual — repaired**: a creation time more than a day older than the clock. `clean` used to judge
an entry by the tuple's creation time: the entry was dropped by the autoClean of the very submission that
created it, the second submission started from 0 again. Now the entry is judged by its last use: numbers 0
and 1, whatever the store holds … -/
theorem retention_gap_filed_example :
    let subs := twoSubs 800000000000 (800000000000 + 86400000 + 1) 0
    let n := run Cfg.code subs (Node.init subs Keeper.empty) (seqSchedule Cfg.code 2)
    (idOf subs n 0).seq = 0 ∧ (idOf subs n 1).seq = 1 ∧ n.store.length = 2 ∧
    n.keeper ⟨"n", 800000000000⟩ = some 1 ∧
    SentIdsDistinct (obsOf n) ∧ FiledOnce [0, 1] (obsOf n) := by decide +kernel

/-- … with the old `clean` (`Cfg.byCreationTime`) the counter was gone after every submission; that the second
bundle still got number 1 was the store's doing (43cf7bc: stored numbers are skipped) and held only while
the first bundle was stored … -/
theorem retention_gap_counter_witness :
    let subs := twoSubs 800000000000 (800000000000 + 86400000 + 1) 0
    let n := run Cfg.byCreationTime subs (Node.init subs Keeper.empty) (seqSchedule Cfg.byCreationTime 2)
    n.keeper ⟨"n", 800000000000⟩ = none ∧
    -- the first bundle delivered and deleted before the second submission: number 0 again
    (let first := run Cfg.byCreationTime subs (Node.init subs Keeper.empty)
        (List.replicate (prog Cfg.byCreationTime).length (.step 0))
     let second := run Cfg.byCreationTime subs { first with store := [] }
        (List.replicate (prog Cfg.byCreationTime).length (.step 1))
     idOf subs second 0 = idOf subs second 1) ∧
    -- the same history with the code as it is: numbers 0 and 1
    (let first := run Cfg.code subs (Node.init subs Keeper.empty)
        (List.replicate (prog Cfg.code).length (.step 0))
     let second := run Cfg.code subs { first with store := [] }
        (List.replicate (prog Cfg.code).length (.step 1))
     idOf subs second 0 ≠ idOf subs second 1) := by decide +kernel

/-- … and before 43cf7bc (`Cfg.noSkip`) it got number 0 again in any case: same id on the wire, second bundle
not filed. -/
theorem retention_gap_witness :
    let subs := twoSubs 800000000000 (800000000000 + 86400000 + 1) 0
    let n := run Cfg.noSkip subs (Node.init subs Keeper.empty) (seqSchedule Cfg.noSkip 2)
    idOf subs n 0 = idOf subs n 1 ∧ n.store.length = 1 ∧
    ¬ SentIdsDistinct (obsOf n) ∧ ¬ FiledOnce [0, 1] (obsOf n) := by decide +kernel

/-- **What is left of D18 (known finding, by design of `clean`)**: a counter that was not used for more than the
window is forgotten. Tuple `κ` (a non-zero creation time) gets number 0; 25 h later another tuple is numbered
— its autoClean drops `κ` —; then `κ` is numbered again: 0 again. The hypothesis of `seq_consecutive` /
`ids_distinct_partial` (submissions of one tuple within one window of each other) excludes exactly this. -/
theorem unused_for_a_day_witness :
    seqsOf 86400000 true ⟨"n", 800000000005⟩ Keeper.empty (fun _ => 0)
      [.upd ⟨"n", 800000000005⟩ 800000000100, .upd ⟨"m", 7⟩ (800000000100 + 90000000),
       .upd ⟨"n", 800000000005⟩ (800000000100 + 90000001)] = [0, 0] ∧
    -- used again within the window instead: 0, 1
    seqsOf 86400000 true ⟨"n", 800000000005⟩ Keeper.empty (fun _ => 0)
      [.upd ⟨"n", 800000000005⟩ 800000000100, .upd ⟨"m", 7⟩ (800000000100 + 80000000),
       .upd ⟨"n", 800000000005⟩ (800000000100 + 80000001)] = [0, 1] := by
  decide +kernel

/-- **After a restart** (the IdKeeper is empty, the store is not): a clock-less source's second bundle.
Without the skip it takes the stored bundle's id and is not filed; with it, it is filed under number 1. -/
theorem restart_witness :
    let subs := twoSubs 0 800000000000 0
    let first (c : Cfg) := run c subs (Node.init subs Keeper.empty) (List.replicate (prog c).length (.step 0))
    let restart (n : Node) : Node := { n with keeper := Keeper.empty }
    let second (c : Cfg) := run c subs (restart (first c)) (List.replicate (prog c).length (.step 1))
    (idOf subs (second Cfg.noSkip) 0 = idOf subs (second Cfg.noSkip) 1 ∧ (second Cfg.noSkip).store.length = 1) ∧
    ((idOf subs (second Cfg.code) 1).seq = 1 ∧ (second Cfg.code).store.length = 2 ∧
      FiledOnce [0, 1] (obsOf (second Cfg.code))) := by decide +kernel

/-- **Submissions one after the other are filed under fresh ids — from ANY quiet state**
(`sequential_submissions_filed`, no retention hypothesis): `n0` is any state in which nobody holds the
IdKeeper's mutex — any store, any counter table (empty after a restart, or with entries `clean` dropped) —
and `is` are submissions that have not started yet, with whatever sources and creation times (all equal,
older than a day, the epoch …). When they run one after the other, the mutex is free again, nothing that
was stored is lost, the store gained exactly one record per submission, no two records share a key, and
each submission's bundle is in the store under an id that the store did not hold before. -/
theorem sequential_submissions_filed (subs : Nat → Sub) (n0 : Node) (is : List Nat)
    (hq : n0.holder = none) (hnd : is.Nodup) (hnew : ∀ i ∈ is, (n0.th i).pc = 0) :
    let n := run Cfg.code subs n0 (Lemmas.seqOf is)
    n.holder = none ∧ n.store.length = n0.store.length + is.length ∧
    (∀ e ∈ n0.store, e ∈ n.store) ∧
    ((n0.store.map (·.1)).Nodup → (n.store.map (·.1)).Nodup) ∧
    (∀ i ∈ is, ∃ q, (Lemmas.idWith subs i q, (⟨Lemmas.idWith subs i q, (subs i).tag⟩ : Bundle)) ∈ n.store ∧
      knows n0.store (Lemmas.idWith subs i q) = false) :=
  Lemmas.run_seq subs is n0 hq hnd hnew

/-- **Known finding (on the wire only)**: the number of a bundle that was delivered and deleted before a
restart is free in the store and is handed out again after the restart — this model's store never forgets
a key, the node model of C05 exhibits it: `Dtn7.Props.C05.wire_id_reused_after_restart_witness`; class
`same-id-on-wire-…-number-of-a-bundle-delivered-before-the-restart` of the `rst` lines. -/
theorem restart_skips_only_stored_numbers :
    let subs := twoSubs 0 800000000000 0
    let first := run Cfg.code subs (Node.init subs Keeper.empty) (List.replicate (prog Cfg.code).length (.step 0))
    -- the first bundle has left the store (delivered) and the node restarted: store and IdKeeper are empty
    let again : Node := { first with keeper := Keeper.empty, store := [] }
    let second := run Cfg.code subs again (List.replicate (prog Cfg.code).length (.step 1))
    idOf subs second 0 = idOf subs second 1 := by decide +kernel

/-- **D18 as found** (`60*60*24` compared with milliseconds): the same happens with a creation time
that is 87 s old — and does not with the repaired constant. -/
theorem window_unit_witness :
    let subs := twoSubs 800000000000 (800000000000 + 87000) 0
    let old := run Cfg.window86s subs (Node.init subs Keeper.empty) (seqSchedule Cfg.window86s 2)
    let new := run Cfg.code subs (Node.init subs Keeper.empty) (seqSchedule Cfg.code 2)
    idOf subs old 0 = idOf subs old 1 ∧ idOf subs new 0 ≠ idOf subs new 1 := by decide +kernel

/-- **D17** (descriptor created before the number is assigned, the tree before the `fix:` commit):
two submissions in one millisecond, one after the other, application-supplied number 5. Only one
bundle is filed, its key (number 5) is neither of the transmitted numbers (0 and 1), and the
retransmission from the store leaves under a third id. -/
theorem descriptor_first_witness :
    let subs := twoSubs 800000000000 800000000000 5
    let n := run Cfg.descriptorFirst subs (Node.init subs Keeper.empty)
      (seqSchedule Cfg.descriptorFirst 2 ++ [.retry 8])
    n.store.length = 1 ∧ ¬ StoredIsSent (obsOf n) ∧ ¬ FiledOnce [0, 1] (obsOf n) := by
  decide +kernel

/-- **Why the mutex matters**: without it the schedule "both read, then both write" hands out one
number twice. -/
theorem unlocked_race_witness :
    let subs := twoSubs 0 800000000000 0
    let n := run Cfg.unlocked subs (Node.init subs Keeper.empty)
      [.step 0, .step 1, .step 0, .step 1, .step 0, .step 1]
    (n.th 0).pc = 3 ∧ (n.th 1).pc = 3 ∧ idOf subs n 0 = idOf subs n 1 := by decide +kernel

/-! ## Non-vacuity -/

/-- Three concurrent submissions with the zero creation time, an interleaved schedule (thread 1
blocks on the mutex while thread 0 is inside), then a retransmission: numbers 0, 1, 2. -/
def demoSubs : Nat → Sub := fun i => ⟨i, ⟨"n", 0⟩, 0, 800000000000, [7]⟩
def demoSchedule : List Act :=
  [.step 0, .step 1, .step 0, .step 2, .step 0, .step 0, .step 0, .step 1, .step 1, .step 1,
   .step 1, .step 1, .step 0] ++ seqSchedule Cfg.code 3 ++ [.retry 8]

example :
    let n := run Cfg.code demoSubs (Node.init demoSubs Keeper.empty) demoSchedule
    (List.range 3).map (fun i => (idOf demoSubs n i).seq) = [0, 1, 2] ∧
    Stamped n 0 ∧ Stamped n 1 ∧ Stamped n 2 ∧ Pushed n 2 ∧
    n.store.length = 3 ∧ n.sent.length = 6 := by decide +kernel

example : ∀ i j, i < 3 → j < 3 →
    droppedAt Cfg.code.window (demoSubs i).now (demoSubs j).now (demoSubs j).key = false := by
  intro i j _ _; simp [demoSubs, droppedAt]

example : seqsOf 86400000 true ⟨"n", 800000000005⟩ Keeper.empty (fun _ => 0)
    [.upd ⟨"n", 800000000005⟩ 800000000100, .upd ⟨"m", 800000000005⟩ 800000000100,
     .clean 800000000200, .upd ⟨"n", 800000000005⟩ 800000000300] = [0, 1] := by
  decide +kernel

/-- A NON-MONOTONE history of one source: creation times T, T+1000, T again (and T-1000, and the
epoch in between). The counter is keyed by (source, time), so the third submission continues the
count of the first: numbers 0, 0, 1, 0, 0 and five distinct ids. The hypotheses of `ids_distinct`
hold for it (all times are inside the window or the epoch). -/
def nonMonoSubs : Nat → Sub := fun i =>
  ⟨i, ⟨"n", [800000002000, 800000003000, 800000002000, 800000001000, 0].getD i 0⟩, 7, 800000004000, [7]⟩

example :
    let n := run Cfg.code nonMonoSubs (Node.init nonMonoSubs Keeper.empty) (seqSchedule Cfg.code 5)
    (List.range 5).map (fun i => (idOf nonMonoSubs n i).seq) = [0, 0, 1, 0, 0] ∧
    ((List.range 5).map (idOf nonMonoSubs n)).Nodup ∧ n.store.length = 5 := by decide +kernel

example : ∀ i j, droppedAt Cfg.code.window (nonMonoSubs i).now (nonMonoSubs j).now (nonMonoSubs j).key = false := by
  intro i j
  apply retained_epoch_or_recent
  simp [nonMonoSubs, Cfg.code]

example : stampedPc Cfg.code = 4 ∧ (prog Cfg.code).idxOf .push + 1 = 7 := by decide

/-- After `[step 0, step 1, step 0]` thread 0 is inside `update` and thread 1 is still waiting. -/
example :
    let n := run Cfg.code demoSubs (Node.init demoSubs Keeper.empty) [.step 0, .step 1, .step 0]
    InUpdate n 0 ∧ ¬ InUpdate n 1 := by decide +kernel

/-- `sequential_submissions_filed` is not vacuous: a store with one old bundle (#0 of a clock-less source),
an empty IdKeeper (restart), three further submissions of the same source — numbers 1, 2, 3. -/
example :
    let subs : Nat → Sub := fun i => ⟨i, ⟨"n", 0⟩, 0, 800000000000, []⟩
    let n0 : Node := { Node.init subs Keeper.empty with store := [(⟨"n", 0, 0⟩, ⟨⟨"n", 0, 0⟩, 99⟩)] }
    let n := run Cfg.code subs n0 (Lemmas.seqOf [1, 2, 3])
    n0.holder = none ∧ (n.store.map (·.1.seq)) = [3, 2, 1, 0] ∧ (n.store.map (·.2.tag)) = [3, 2, 1, 99] := by
  decide +kernel

end Dtn7.Props.C14
