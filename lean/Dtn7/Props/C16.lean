/-
C16 — the CLA manager reports an adapter active exactly while it is started.
Property theorems only; helper lemmas live in `Dtn7.Lemmas.ClaManager`.
-/
import Dtn7.Model.ClaManager
import Dtn7.Gen.C16

namespace Dtn7.Props.C16
open Dtn7.ClaManager

/-! ### The facts re-read from the Go source on every run -/

theorem gen_extraction_complete : Dtn7.Gen.C16.extractionFailures = [] := by decide

end Dtn7.Props.C16
