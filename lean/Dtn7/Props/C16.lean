/-
C16 — the CLA manager reports an adapter active exactly while it is started.
Property theorems only; helper lemmas live in `Dtn7.Lemmas.ClaManager`.

All theorems quantify over EVERY operation sequence, EVERY adapter configuration (`env.cfg`), EVERY
answer script (`env.script : adapter → call index → answer`) and EVERY retry budget
(`env.budget : Nat`, the manager's `queueTtl`); `env.fixed = true` selects the code after the `fix:`
commit for D13. The `Spec.*` predicates in the conclusions are the ones the driver evaluates on the
implementation's own observations.
-/
import Dtn7.Model.ClaManager
import Dtn7.Lemmas.ClaManager
import Dtn7.Lemmas.ClaManagerReg
import Dtn7.Gen.C16

namespace Dtn7.Props.C16
open Dtn7.ClaManager Dtn7.ClaManager.Spec

/-! ### The facts re-read from the Go source on every run -/

theorem gen_extraction_complete : Dtn7.Gen.C16.extractionFailures = [] := by decide

/-- `NewManager`: `queueTtl: 10` (the theorems hold for every budget; the harness sweeps 0..3 and 10) -/
theorem gen_queueTtl_default : Dtn7.Gen.C16.queueTtlDefault = 10 := by decide

/-- `NewManager`: `retryTime: 10 * time.Second` (the model's `tick` is one firing of that ticker) -/
theorem gen_retry_period : Dtn7.Gen.C16.retryTimeDefault = "10 * time.Second" := by decide

/-- `newConvergenceElement`: the initial ttl is the manager's `queueTtl`, the stop channels stay nil (`Chan.absent`). -/
theorem gen_newElementReturns : Dtn7.Gen.C16.newElementReturns = ["&convergenceElem{ conv: conv, convChnl: convChnl, ttl: ttl, }"] := by decide

/-- `isActive` is `ttl < 0` (`Elem.active`). -/
theorem gen_isActiveReturns : Dtn7.Gen.C16.isActiveReturns = ["atomic.LoadInt32(&ce.ttl) < 0"] := by decide

/-- `activate` statement by statement — `ClaManager.activate` with `fixed := true`: no start when active or when ttl = 0 and not permanent; success ⇒ ttl := -1 and fresh channels + handler goroutine; retryable failure ⇒ count down only while positive (the D13 repair); definitive failure ⇒ ttl := 0. -/
theorem gen_activateSkeleton : Dtn7.Gen.C16.activateSkeleton = ["if ce.isActive()",
  "  return",
  "ce.mutex.Lock()",
  "defer ce.mutex.Unlock()",
  "if atomic.LoadInt32(&ce.ttl) == 0 && !ce.conv.IsPermanent()",
  "  return false, false",
  "claErr, claRetry := ce.conv.Start()",
  "if claErr == nil",
  "  atomic.StoreInt32(&ce.ttl, -1)",
  "  ce.stopSyn = make(chan struct{})",
  "  ce.stopAck = make(chan struct{})",
  "  go ce.handler()",
  "  return true, false",
  "else",
  "  if claRetry",
  "    if atomic.LoadInt32(&ce.ttl) > 0",
  "      atomic.AddInt32(&ce.ttl, -1)",
  "  else",
  "    atomic.StoreInt32(&ce.ttl, 0)",
  "  return false, claRetry"] := by decide

/-- `deactivate`: nothing when inactive, else close(stopSyn), wait for stopAck, ttl := argument. -/
theorem gen_deactivateSkeleton : Dtn7.Gen.C16.deactivateSkeleton = ["if !ce.isActive()",
  "  return",
  "ce.mutex.Lock()",
  "defer ce.mutex.Unlock()",
  "close(ce.stopSyn)",
  "<-ce.stopAck",
  "atomic.StoreInt32(&ce.ttl, ttl)"] := by decide

/-- the element goroutine calls the adapter's `Close()` exactly when `stopSyn` is closed, then closes `stopAck`. -/
theorem gen_elemHandlerSkeleton : Dtn7.Gen.C16.elemHandlerSkeleton = ["for",
  "  select",
  "  case <-ce.stopSyn:",
  "    if err := ce.conv.Close(); err != nil",
  "    close(ce.stopAck)",
  "    return",
  "  case cs := <-ce.conv.Channel():",
  "    ce.convChnl <- cs"] := by decide

/-- `registerConvergence` — `ClaManager.register`: known address ⇒ the OLD element (return if active), else a new one; sender-to-registered-receiver check; store unless the start failed definitively. -/
theorem gen_managerRegisterConvergenceSkeleton : Dtn7.Gen.C16.managerRegisterConvergenceSkeleton = ["var ce *convergenceElem",
  "if convElem, exists := manager.convs.Load(conv.Address()); exists",
  "  ce = convElem.(*convergenceElem)",
  "  if ce.isActive()",
  "    return",
  "else",
  "  ce = newConvergenceElement(conv, manager.inChnl, manager.queueTtl)",
  "if cs, ok := ce.asSender(); ok",
  "  for _, cr := range manager.Receiver()",
  "    if cr.GetEndpointID() == cs.GetPeerEndpointID()",
  "      return",
  "if successful, retry := ce.activate(); !successful && !retry",
  "else",
  "  manager.convs.Store(conv.Address(), ce)"] := by decide

/-- `unregisterConvergence` — `ClaManager.unregister`: unknown address or different instance ⇒ nothing; else deactivate and delete. -/
theorem gen_managerUnregisterConvergenceSkeleton : Dtn7.Gen.C16.managerUnregisterConvergenceSkeleton = ["convElem, exists := manager.convs.Load(conv.Address())",
  "if !exists",
  "  return",
  "element := convElem.(*convergenceElem)",
  "if element.conv != conv",
  "  return",
  "element.deactivate(manager.queueTtl)",
  "manager.convs.Delete(conv.Address())"] := by decide

/-- `Restart` = `Unregister` then `Register`. -/
theorem gen_managerRestartSkeleton : Dtn7.Gen.C16.managerRestartSkeleton = ["manager.Unregister(conv)",
  "manager.Register(conv)"] := by decide

/-- `handler()`: shutdown unregisters every element; `PeerDisappeared` restarts the sender of the message; the ticker pass skips active elements, activates the others and deletes those whose start failed definitively (`tickList`). -/
theorem gen_managerHandlerSkeleton : Dtn7.Gen.C16.managerHandlerSkeleton = ["activateTicker := time.NewTicker(manager.retryTime)",
  "defer activateTicker.Stop()",
  "for",
  "  select",
  "  case <-manager.stopSyn:",
  "    manager.convs.Range(func(_, convElem interface{}) bool {}, )",
  "    manager.providersMutex.Lock()",
  "    for _, provider := range manager.providers",
  "      _ = provider.Close()",
  "    manager.providersMutex.Unlock()",
  "    close(manager.inChnl)",
  "    close(manager.outChnl)",
  "    close(manager.stopAck)",
  "    return",
  "  case cs := <-manager.inChnl:",
  "    switch cs.MessageType",
  "    case PeerDisappeared:",
  "      manager.Restart(cs.Sender)",
  "      manager.outChnl <- cs",
  "    default:",
  "      manager.outChnl <- cs",
  "  case <-activateTicker.C:",
  "    manager.convs.Range(func(key, convElem interface{}) bool {}, )",
  "func#0| manager.Unregister(convElem.(*convergenceElem).conv)",
  "func#0| return true",
  "func#1| ce := convElem.(*convergenceElem)",
  "func#1| if ce.isActive()",
  "func#1|   return true",
  "func#1| if successful, retry := ce.activate(); !successful && !retry",
  "func#1|   manager.convs.Delete(key)",
  "func#1| return true"] := by decide

/-- `Close`: stop flag, close(stopSyn) (a second call panics), wait for the handler. -/
theorem gen_managerCloseSkeleton : Dtn7.Gen.C16.managerCloseSkeleton = ["manager.stopFlagMutex.Lock()",
  "manager.stopFlag = true",
  "manager.stopFlagMutex.Unlock()",
  "close(manager.stopSyn)",
  "<-manager.stopAck",
  "return nil"] := by decide

/-- `Register` asks `isStopped` first. -/
theorem gen_registerCalls : Dtn7.Gen.C16.registerCalls = ["manager.isStopped",
  "manager.registerConvergence",
  "manager.registerProvider"] := by decide

/-- `Sender()` lists exactly the active elements that are senders. -/
theorem gen_managerSenderSkeleton : Dtn7.Gen.C16.managerSenderSkeleton = ["manager.convs.Range(func(_, convElem interface{}) bool {}, )",
  "return",
  "func#0| ce := convElem.(*convergenceElem)",
  "func#0| if !ce.isActive()",
  "func#0|   return true",
  "func#0| if cs, ok := ce.asSender(); ok",
  "func#0|   css = append(css, cs)",
  "func#0| return true"] := by decide

/-- `Receiver()` lists exactly the active elements that are receivers. -/
theorem gen_managerReceiverSkeleton : Dtn7.Gen.C16.managerReceiverSkeleton = ["manager.convs.Range(func(_, convElem interface{}) bool {}, )",
  "return",
  "func#0| ce := convElem.(*convergenceElem)",
  "func#0| if !ce.isActive()",
  "func#0|   return true",
  "func#0| if cr, ok := ce.asReceiver(); ok",
  "func#0|   crs = append(crs, cr)",
  "func#0| return true"] := by decide


/-! ### The property -/

/-- **All Spec clauses hold for every observation of every trace** (listed ⇔ started, Start/Close
discipline, close stops everything, retry budget, permanent adapters retried at every tick, one
instance per address, no panic except a second `Close`). The theorems below are its clauses. -/
theorem spec_holds (env : Env) (hf : env.fixed = true) (ops : List Op) :
    ∀ o ∈ runObs env {} ops, obsOk env.cfg env.budget o = true :=
  runObs_ok hf ops {} (Inv.init env)

/-- **listed ⇔ started**: after every operation of every trace, `Sender()` (`Receiver()`) lists
exactly the senders (receivers) whose most recent `Start()` succeeded and that were not closed
since. -/
theorem active_iff_started (env : Env) (hf : env.fixed = true) (ops : List Op) :
    ∀ o ∈ runObs env {} ops, o.outcome = .ok → activeIffStarted env.cfg o = true :=
  fun o ho hok => (obsOk_clauses (spec_holds env hf ops o ho) hok).1

/-- The same for reachable states, spelled out. -/
theorem active_iff_started_state (env : Env) (hf : env.fixed = true) (ops : List Op)
    (hnp : (run env {} ops).panicked = false) (a : Nat) :
    (a ∈ sendersOf env (run env {} ops) ↔
      running a (run env {} ops).hist = true ∧ (env.cfg a).sender = true) ∧
    (a ∈ receiversOf env (run env {} ops) ↔
      running a (run env {} ops).hist = true ∧ (env.cfg a).receiver = true) :=
  have inv := run_inv hf ops {} (Inv.init env) hnp
  ⟨mem_listing inv.g (·.sender) a, mem_listing inv.g (·.receiver) a⟩

/-- **retry budget** (Spec form): between two (re-)registrations of its address a non-permanent
adapter gets at most `budget` start attempts, and none after `budget` retryable failures, a success
or a definitive failure. -/
theorem budget (env : Env) (hf : env.fixed = true) (ops : List Op) :
    ∀ o ∈ runObs env {} ops, o.outcome = .ok → budgetRespected env.cfg env.budget o.hist = true :=
  fun o ho hok => (obsOk_clauses (spec_holds env hf ops o ho) hok).2.2.2.1

/-- **retry budget, exact count**: a non-permanent adapter whose `Start()` always fails retryably
is started `min (n+1) budget` times by `register` and `n` retry ticks — exactly `budget` times in
all — and is forgotten by the tick after the `budget`-th attempt (for budget 0: never started, never
stored). -/
theorem budget_exact (env : Env) (hf : env.fixed = true) (a : Nat)
    (hnp : (env.cfg a).permanent = false) (hs : ∀ k, env.script a k = .failRetry) (n : Nat) :
    startCount a (run env {} (.register a :: List.replicate n .tick)).hist = min (n + 1) env.budget ∧
    ((run env {} (.register a :: List.replicate n .tick)).reg = [] ↔ env.budget ≤ n) := by
  obtain ⟨_, _, h3, h4⟩ := budget_run hf hnp hs n
  refine ⟨h3, ?_⟩
  rw [h4]
  by_cases h : n < env.budget
  · simp [h]
  · simp [h]; omega

/-- **permanent adapters are retried for ever** (Spec form): at every retry tick every waiting
permanent adapter (last start failed retryably, not taken down since) is started exactly once. -/
theorem permanent_forever (env : Env) (hf : env.fixed = true) (ops : List Op) :
    ∀ o ∈ runObs env {} ops, o.outcome = .ok → permanentRetried env.cfg o = true :=
  fun o ho hok => (obsOk_clauses (spec_holds env hf ops o ho) hok).2.2.2.2.1

/-- **permanent, exact count**: a permanent adapter whose `Start()` always fails retryably is
started at `register` and at every one of `n` ticks (`n + 1` times, for every `n` and every budget),
is never forgotten and never listed. (Before the D13 repair this failed at the `budget + 1`-th
failure, see `d13_witness_*`.) -/
theorem permanent_exact (env : Env) (hf : env.fixed = true) (a : Nat)
    (hp : (env.cfg a).permanent = true) (hs : ∀ k, env.script a k = .failRetry) (n : Nat) :
    startCount a (run env {} (.register a :: List.replicate n .tick)).hist = n + 1 ∧
    (∃ e ∈ (run env {} (.register a :: List.replicate n .tick)).reg, e.conv = a ∧ 0 ≤ e.ttl) ∧
    sendersOf env (run env {} (.register a :: List.replicate n .tick)) = [] ∧
    receiversOf env (run env {} (.register a :: List.replicate n .tick)) = [] := by
  obtain ⟨_, _, h3, h4⟩ := permanent_run hf hp hs n
  refine ⟨h3, ⟨_, by rw [h4]; exact List.mem_singleton.mpr rfl, rfl, by simp⟩, ?_, ?_⟩
  · simp only [sendersOf, h4, Elem.active, List.filter_cons, List.filter_nil]
    have : ¬ (((env.budget - (n + 1) : Nat) : Int) < 0) := by omega
    simp [this]
  · simp only [receiversOf, h4, Elem.active, List.filter_cons, List.filter_nil]
    have : ¬ (((env.budget - (n + 1) : Nat) : Int) < 0) := by omega
    simp [this]

/-- **stop is defined**: in every reachable state `deactivate` of any registered element does not
close an absent or already closed channel (the model's explicit panic outcome never occurs). -/
theorem stop_defined (env : Env) (hf : env.fixed = true) (ops : List Op)
    (hnp : (run env {} ops).panicked = false) :
    ∀ e ∈ (run env {} ops).reg, deactivate env e (run env {} ops).hist ≠ none :=
  deactivate_defined (run_inv hf ops {} (Inv.init env) hnp)

/-- **no panic, no dead-lock**: the only operation that can panic is a second `Close`
(`close(manager.stopSyn)` on the closed channel — outside the property). -/
theorem no_panic (env : Env) (hf : env.fixed = true) (ops : List Op) :
    ∀ o ∈ runObs env {} ops, noPanic o = true := by
  intro o ho
  have := spec_holds env hf ops o ho
  simp only [obsOk, Bool.and_eq_true] at this
  exact this.1

/-- A trace with at most one `close` never panics. -/
theorem no_panic_single_close (env : Env) (hf : env.fixed = true) (ops : List Op)
    (h : ops.count .close ≤ 1) : (run env {} ops).panicked = false :=
  run_single_close hf ops {} (Inv.init env) (.inl ⟨rfl, h⟩)

/-- **Start/Close discipline**: `Close()` is only ever called on an adapter whose last `Start()`
succeeded and that was not closed since, `Start()` only on one that is not running. -/
theorem start_close_discipline (env : Env) (hf : env.fixed = true) (ops : List Op) :
    ∀ o ∈ runObs env {} ops, o.outcome = .ok → discipline o.hist = true :=
  fun o ho hok => (obsOk_clauses (spec_holds env hf ops o ho) hok).2.1

/-- **close stops every started adapter exactly once**: after `close`, for every adapter the number
of `Close()` calls equals the number of successful `Start()` calls (and by the discipline each
`Close()` follows its own successful `Start()`), and no adapter is running. -/
theorem close_stops_once (env : Env) (hf : env.fixed = true) (ops : List Op) :
    ∀ o ∈ runObs env {} ops, o.outcome = .ok → o.op = .close →
      allStopped o.hist = true ∧ ∀ a, okStarts a o.hist = stops a o.hist := by
  intro o ho hok hop
  obtain ⟨_, hd, hc, _⟩ := obsOk_clauses (spec_holds env hf ops o ho) hok
  have hs : allStopped o.hist = true := by simpa [closeStops, hop] using hc
  exact ⟨hs, balanced_of_allStopped hd hs⟩

/-- **registering an address twice keeps a single instance** (Spec form): at no time two different
adapters with one address are running. -/
theorem register_twice_single (env : Env) (hf : env.fixed = true) (ops : List Op) :
    ∀ o ∈ runObs env {} ops, o.outcome = .ok → singleInstance env.cfg o.hist = true :=
  fun o ho hok => (obsOk_clauses (spec_holds env hf ops o ho) hok).2.2.2.2.2.1

/-- … and registering an instance `a'` of an address whose registered instance `a` is running is a
no-op: no `Start()`, no `Close()`, registry unchanged. -/
theorem register_twice_noop (env : Env) (hf : env.fixed = true) (ops : List Op)
    (hnp : (run env {} ops).panicked = false) (a a' : Nat)
    (haddr : (env.cfg a').addr = (env.cfg a).addr)
    (hrun : running a (run env {} ops).hist = true) :
    step env (run env {} ops) (.register a') =
      { run env {} ops with hist := .op (.register a') :: (run env {} ops).hist } :=
  register_second_instance (run_inv hf ops {} (Inv.init env) hnp) haddr hrun

/-- **a reported peer loss restarts the adapter** (so does `Restart`): a running adapter is closed
exactly once and then started exactly once; it is not started again only when the manager refuses it
(a sender whose peer endpoint is a registered receiver's) or when the budget is 0 and it is not
permanent. -/
theorem peer_loss_restarts (env : Env) (hf : env.fixed = true) (ops : List Op) :
    ∀ o ∈ runObs env {} ops, o.outcome = .ok → restartRestarts env.cfg env.budget o = true :=
  fun o ho hok => (obsOk_clauses (spec_holds env hf ops o ho) hok).2.2.2.2.2.2

/-- **an unregistered adapter is left alone** (`unregistered_not_started`): in every trace the manager calls
`Start()` only on an adapter that is registered at that moment — its address was (re-)registered and it was not
taken down (`Unregister`, `Close`) since. In particular the retry ticker never revives an adapter that was
unregistered while it waited for its next attempt. (A clause of its own, proved with its own invariant: every
element of the registry is registered according to the log.) -/
theorem unregistered_not_started (env : Env) (hf : env.fixed = true) (ops : List Op) :
    ∀ o ∈ runObs env {} ops, o.outcome = .ok → startedOnlyRegistered env.cfg o.hist = true :=
  runObs_reg hf ops {} (Inv.init env) ⟨fun x hx => by simp at hx, rfl⟩

/-- … and the clause is not vacuous: a sender whose first start fails is registered, unregistered while it
waits, and not started by the next two ticks (the log ends with the one failed start). -/
example :
    let env : Env := { cfg := fun _ => ⟨0, true, false, false, 1, 2⟩, script := fun _ k => if k = 0 then .failRetry else .ok,
                       budget := 3 }
    (run env {} [.register 0, .unregister 0, .tick, .tick]).hist =
      [.op .tick, .op .tick, .op (.unregister 0), .start 0 .failRetry, .op (.register 0)] ∧
    -- without the `Unregister` the first tick starts it
    (run env {} [.register 0, .tick]).hist =
      [.start 0 .ok, .op .tick, .start 0 .failRetry, .op (.register 0)] := by
  decide

/-- **every tick retries every registered adapter that is not running** and may still be started
(ttl > 0, or permanent) exactly once — the lower bound that complements `budget`. -/
theorem tick_retries (env : Env) (hf : env.fixed = true) (ops : List Op)
    (hnp : (run env {} ops).panicked = false) (hc : (run env {} ops).closed = false) :
    ∀ e ∈ (run env {} ops).reg, startable env e = true →
      startsInStep e.conv (step env (run env {} ops) .tick).hist = 1 := by
  intro e he hs
  have inv := run_inv hf ops {} (Inv.init env) hnp
  have hstep : (step env (run env {} ops) .tick).hist =
      (tickList env (run env {} ops).reg (.op .tick :: (run env {} ops).hist)).2 := by
    unfold step tick; simp [hnp, hc]
  rw [hstep, tickList_starts hf]
  have h1 := count_unique e.conv (startable env) _ inv.g.nodup
  have h2 : 0 < ((run env {} ops).reg.filter (fun x => x.conv == e.conv && startable env x)).length := by
    apply List.length_pos_of_mem (a := e)
    rw [List.mem_filter]
    exact ⟨he, by simp [hs]⟩
  simp only [startsInStep]
  omega

/-! ### D13: the code before the `fix:` commit (`fixed := false`) -/

/-- one permanent sender at address 0 whose `Start()` always fails retryably, budget 0, old code -/
def d13Env : Env :=
  { cfg := fun _ => ⟨0, true, false, true, 0, 1⟩, script := fun _ _ => .failRetry, budget := 0,
    fixed := false }

/-- it is listed although it never started … -/
theorem d13_witness_listed :
    sendersOf d13Env (run d13Env {} [.register 0]) = [0] ∧
      running 0 (run d13Env {} [.register 0]).hist = false := by decide

/-- … the Spec clause fails on that observation … -/
theorem d13_witness_spec :
    (runObs d13Env {} [.register 0]).all (obsOk d13Env.cfg d13Env.budget) = false := by decide

/-- … it is never retried … -/
theorem d13_witness_not_retried :
    startCount 0 (run d13Env {} [.register 0, .tick, .tick, .tick]).hist = 1 := by decide

/-- … and `Unregister`, `Restart` and `Close` close a nil channel. -/
theorem d13_witness_panic :
    (run d13Env {} [.register 0, .unregister 0]).panicked = true ∧
    (run d13Env {} [.register 0, .restart 0]).panicked = true ∧
    (run d13Env {} [.register 0, .close]).panicked = true := by decide

/-- The repaired code on the same input. -/
theorem d13_fixed :
    sendersOf { d13Env with fixed := true } (run { d13Env with fixed := true } {} [.register 0]) = [] ∧
    startCount 0 (run { d13Env with fixed := true } {} [.register 0, .tick, .tick, .tick]).hist = 4 ∧
    (run { d13Env with fixed := true } {} [.register 0, .close]).panicked = false := by decide

/-! ### Non-vacuity: the hypotheses are satisfiable, the traces are not trivial -/

/-- three adapters: 0 = non-permanent sender at address 0 (peer endpoint 1), 1 = second instance of
address 0, 2 = permanent receiver (endpoint 2) at address 1 -/
def exEnv : Env :=
  { cfg := fun a => if a = 2 then ⟨1, false, true, true, 2, 0⟩ else ⟨0, true, false, false, 0, 1⟩,
    script := fun a k => if a = 0 then (if k < 2 then .failRetry else .ok) else (if k = 0 then .failRetry else .ok),
    budget := 3 }

example : exEnv.fixed = true := rfl
-- the sender starts at its third attempt and is listed from then on; the second instance is ignored
example : (runObs exEnv {} [.register 0, .tick, .tick, .register 1, .register 2, .tick, .close]).map
    (fun o => (o.senders, o.receivers)) =
    [([], []), ([], []), ([0], []), ([0], []), ([0], []), ([0], [2]), ([], [])] := by decide
example : (run exEnv {} [.register 0, .tick, .tick, .register 2, .tick, .close]).hist.filter
    (fun | .op _ => false | _ => true) =
    [.stop 2, .stop 0, .start 2 .ok, .start 2 .failRetry, .start 0 .ok, .start 0 .failRetry, .start 0 .failRetry] := by
  decide
-- a second close is the one panic of the model
example : (run exEnv {} [.close, .close]).panicked = true := by decide
example : ([Op.register 0, .tick, .close].count .close ≤ 1) := by decide
-- `register_twice_noop`: a second instance of the running sender's address
example : running 0 (run exEnv {} [.register 0, .tick, .tick]).hist = true ∧
    (exEnv.cfg 1).addr = (exEnv.cfg 0).addr := by decide
-- `peer_loss_restarts`: the running sender is closed and started again
example : ((runObs exEnv {} [.register 0, .tick, .tick, .peerDisappeared 0]).map
    (fun o => (stopsInStep 0 o.hist, startsInStep 0 o.hist))).getLast? = some (1, 1) := by decide

/-- hypotheses of `budget_exact` / `permanent_exact`: an adapter that never starts -/
def failEnv (perm : Bool) (b : Nat) : Env :=
  { cfg := fun _ => ⟨0, true, false, perm, 0, 1⟩, script := fun _ _ => .failRetry, budget := b }

example : ((failEnv false 2).cfg 0).permanent = false ∧ ∀ k, (failEnv false 2).script 0 k = .failRetry :=
  ⟨rfl, fun _ => rfl⟩
example : startCount 0 (run (failEnv false 2) {} (.register 0 :: List.replicate 5 .tick)).hist = 2 := by
  decide
example : startCount 0 (run (failEnv true 2) {} (.register 0 :: List.replicate 5 .tick)).hist = 6 := by
  decide
-- `tick_retries`: a waiting element with ttl 1
example : (run (failEnv false 2) {} [.register 0]).reg.map (startable (failEnv false 2)) = [true] := by
  decide

end Dtn7.Props.C16
