/-
C17 — all auxiliary wire formats round-trip and stay aligned on a stream; endpoint URI text and
endpoint structure determine each other; invalid field values are rejected.

Property theorems only; helper lemmas live in `Dtn7.Lemmas.{Wire,TcpclMsgs,BbcFrag,Decimal,EidText,WireCbor}`.
Every round trip has the exact-consumption form `dec (enc v ++ rest) = ok (v, rest)` under an explicit,
decidable `Canonical v`; stream alignment follows generically (`stream_aligned`).
-/
import Dtn7.Model.TcpclMsgs
import Dtn7.Model.BbcFrag
import Dtn7.Model.EidText
import Dtn7.Model.WireCbor
import Dtn7.Lemmas.TcpclMsgs
import Dtn7.Lemmas.BbcFrag
import Dtn7.Lemmas.EidText
import Dtn7.Lemmas.WireCbor
import Dtn7.Gen.C17

namespace Dtn7.Props.C17
open Dtn7.Cbor (Bytes beBytes)
open Dtn7.Wire

/-! ## Facts regenerated from the source (a change of any of them breaks the named theorem) -/

theorem gen_extraction_complete : Dtn7.Gen.C17.extractionFailures = [] := by decide

section
open Dtn7.TcpclMsgs
/-- Message type codes and the dispatch table of `msgs.ReadMessage` (`messages` map keys). -/
theorem gen_tcpcl_type_codes :
    Dtn7.Gen.C17.sessInit = SESS_INIT ∧ Dtn7.Gen.C17.sessTerm = SESS_TERM ∧
    Dtn7.Gen.C17.xferSegment = XFER_SEGMENT ∧ Dtn7.Gen.C17.xferAck = XFER_ACK ∧
    Dtn7.Gen.C17.xferRefuse = XFER_REFUSE ∧ Dtn7.Gen.C17.keepalive = KEEPALIVE ∧
    Dtn7.Gen.C17.msgReject = MSG_REJECT ∧
    Dtn7.Gen.C17.dispatchCodes =
      [XFER_SEGMENT, XFER_ACK, XFER_REFUSE, KEEPALIVE, SESS_TERM, MSG_REJECT, SESS_INIT, CONTACT] := by decide

theorem gen_tcpcl_flags :
    Dtn7.Gen.C17.contactCanTls = 1 ∧ Dtn7.Gen.C17.terminationReply = 1 ∧
    Dtn7.Gen.C17.segmentEnd = 1 ∧ Dtn7.Gen.C17.segmentStart = 2 := by decide

/-- Magic "dtn!" and version 4. -/
theorem gen_contact_head : Dtn7.Gen.C17.contactHead = contactHead.map UInt8.toNat := by decide

/-- The reason-code sets read off the `IsValid` / `String` switches are the model's, and the three
`Unmarshal` methods do call `IsValid` (widening a switch or dropping a call breaks this theorem). -/
theorem gen_reason_codes :
    Dtn7.Gen.C17.termCodes = termCodes ∧ Dtn7.Gen.C17.refuseCodes = refuseCodes ∧
    Dtn7.Gen.C17.rejectCodes = rejectCodes ∧
    Dtn7.Gen.C17.refuseIsValid = ["return trc.String() != \"INVALID\""] ∧
    Dtn7.Gen.C17.sessTermChecksCode = true ∧ Dtn7.Gen.C17.xferRefuseChecksCode = true ∧
    Dtn7.Gen.C17.rejectChecksCode = true := by decide
end

/-- The bit layout of the BBC fragment header and the `% 16` of the sequence numbers. -/
theorem gen_bbc_header :
    Dtn7.Gen.C17.fragmentIdentifierSize = Dtn7.Bbc.fragmentIdentifierSize ∧
    Dtn7.Gen.C17.newFragment =
      ["var identifier byte = 0x00", "identifier |= (sequenceNo & 0x1F) << 3", "if start", "  identifier |= 0x04",
       "if end", "  identifier |= 0x02", "if fail", "  identifier |= 0x01",
       "return Fragment{ transmissionId: transmissionId, identifier: identifier, Payload: payload, }"] ∧
    Dtn7.Gen.C17.fragSequenceNumber = ["return f.identifier >> 3 & 0x1F"] ∧
    Dtn7.Gen.C17.fragStartBit = ["return f.identifier&0x04 != 0"] ∧
    Dtn7.Gen.C17.fragEndBit = ["return f.identifier&0x02 != 0"] ∧
    Dtn7.Gen.C17.fragFailBit = ["return f.identifier&0x01 != 0"] ∧
    Dtn7.Gen.C17.nextSequenceNumber = ["return (seq + 1) % 16"] := by decide

/-- The three regular expressions the hand-written recognisers stand for, the scheme numbers and names.
`ipnRegexp` is the repaired one (no leading zeros, D30): the theorems below use `parseUri true`. -/
theorem gen_eid_grammar :
    Dtn7.Gen.C17.uriRegexp = "^([[:alnum:]]+):.+$" ∧
    Dtn7.Gen.C17.dtnSspRegexpUsed = "^//([\\w-._]+)/(.*)$" ∧
    Dtn7.Gen.C17.dtnRegexpFull = "^dtn:(none|//([\\w-._]+)/(.*))$" ∧
    Dtn7.Gen.C17.ipnRegexp = "^ipn:(0|[1-9]\\d*)\\.(0|[1-9]\\d*)$" ∧
    Dtn7.Gen.C17.dtnSchemeName = "dtn" ∧ Dtn7.Gen.C17.ipnSchemeName = "ipn" ∧ Dtn7.Gen.C17.dtnNoneSsp = "none" ∧
    Dtn7.Gen.C17.dtnSchemeNo = 1 ∧ Dtn7.Gen.C17.ipnSchemeNo = 2 ∧
    Dtn7.Gen.C17.ipnCheckValid =
      ["if e.Node < 1 || e.Service < 1", "  return fmt.Errorf(\"ipn's node and Service number must be >= 1\")",
       "return nil"] := by decide

theorem gen_cbor_codes :
    Dtn7.Gen.C17.adminRecordStatusReport = Dtn7.WireCbor.adminStatusReport ∧
    Dtn7.Gen.C17.claTypes = Dtn7.WireCbor.claTypes ∧ Dtn7.Gen.C17.announcementChecksType = true ∧
    Dtn7.Gen.C17.claCheckValid =
      ["if claType.String() == unknownClaTypeString", "  err = errors.New(unknownClaTypeString)", "return"] ∧
    Dtn7.Gen.C17.wamCodes = [Dtn7.WireCbor.wamStatus, Dtn7.WireCbor.wamRegister, Dtn7.WireCbor.wamBundle,
      Dtn7.WireCbor.wamSyscallRequest, Dtn7.WireCbor.wamSyscallResponse] ∧
    Dtn7.Gen.C17.wamStatus = 0 ∧ Dtn7.Gen.C17.wamRegister = 1 ∧ Dtn7.Gen.C17.wamBundle = 2 ∧
    Dtn7.Gen.C17.wamSyscallRequest = 3 ∧ Dtn7.Gen.C17.wamSyscallResponse = 4 := by decide

/-- "time present ⇔ asserted ∧ requested" is what `BundleStatusItem.MarshalCbor` writes. -/
theorem gen_status_item :
    Dtn7.Gen.C17.statusItemMarshal =
      ["var arrLen uint64 = 1", "if bsi.Asserted && bsi.StatusRequested", "  arrLen = 2",
       "if err := cboring.WriteArrayLength(arrLen, w); err != nil", "  return err",
       "if err := cboring.WriteBoolean(bsi.Asserted, w); err != nil", "  return err", "if arrLen == 2",
       "  if err := cboring.WriteUInt(uint64(bsi.Time), w); err != nil", "    return err", "return nil"] := by decide

/-! ## Generic: exact consumption ⇒ stream alignment -/

/-- If a decoder consumes exactly the bytes its encoder wrote, then reading values until the stream is
exhausted returns exactly the values written, in order — for ANY format. The per-format instances follow. -/
theorem stream_aligned {α} (enc : α → Bytes) (dec : Bytes → Except Err (α × Bytes)) (C : α → Prop)
    (rt : ∀ v rest, C v → dec (enc v ++ rest) = .ok (v, rest)) (ne : ∀ v, C v → enc v ≠ [])
    (vs : List α) (hC : ∀ v ∈ vs, C v) : decMany dec (vs.flatMap enc) = .ok vs :=
  Dtn7.Wire.Lemmas.decMany_flatMap enc dec C rt ne vs hC

/-! ## TCPCLv4 contact header and messages -/
section
open Dtn7.TcpclMsgs

/-- **Round trip through `ReadMessage`** for every canonical value of all eight kinds, with the
unconsumed rest untouched. -/
theorem tcpcl_roundtrip (m : Msg) (rest : Bytes) (hc : Canonical m) :
    readMessage (enc m ++ rest) = .ok (m, rest) :=
  Lemmas.readMessage_enc m rest hc

/-- **Alignment**: any sequence of canonical messages written to one stream is read back identically. -/
theorem tcpcl_stream_aligned (ms : List Msg) (hc : ∀ m ∈ ms, Canonical m) :
    decMany readMessage (ms.flatMap enc) = .ok ms :=
  stream_aligned enc readMessage Canonical Lemmas.readMessage_enc (fun m _ => Lemmas.enc_ne_nil m) ms hc

/-- The enumerated reason codes of RFC 9174 as ranges (Spec side). -/
def specTerm (c : UInt8) : Bool := c.toNat ≤ 5
def specRefuse (c : UInt8) : Bool := c.toNat ≤ 6
def specReject (c : UInt8) : Bool := 1 ≤ c.toNat && c.toNat ≤ 3

/-- The code tables READ FROM THE SOURCE are exactly the enumerated codes — all 256 byte values. -/
theorem gen_reason_code_tables_exact : ∀ b : BitVec 8,
    Dtn7.Gen.C17.termCodes.contains (UInt8.ofBitVec b).toNat = specTerm (UInt8.ofBitVec b) ∧
    Dtn7.Gen.C17.refuseCodes.contains (UInt8.ofBitVec b).toNat = specRefuse (UInt8.ofBitVec b) ∧
    Dtn7.Gen.C17.rejectCodes.contains (UInt8.ofBitVec b).toNat = specReject (UInt8.ofBitVec b) := by
  decide +kernel

theorem valid_tables_exact : ∀ b : BitVec 8,
    termValid (UInt8.ofBitVec b) = specTerm (UInt8.ofBitVec b) ∧
    refuseValid (UInt8.ofBitVec b) = specRefuse (UInt8.ofBitVec b) ∧
    rejectValid (UInt8.ofBitVec b) = specReject (UInt8.ofBitVec b) := by
  decide +kernel

/-- **reason_codes_exact**: a SESS_TERM / XFER_REFUSE / MSG_REJECT is accepted iff its code byte is one of
the enumerated codes, whatever the other fields and whatever follows. -/
theorem reason_codes_exact_sess_term (f c : UInt8) (rest : Bytes) :
    accepts (readMessage (u8 SESS_TERM :: f :: c :: rest)) = specTerm c := by
  rw [Lemmas.sessTerm_accepts]; exact (valid_tables_exact c.toBitVec).1

theorem reason_codes_exact_xfer_refuse (c : UInt8) (tid : Nat) (rest : Bytes) :
    accepts (readMessage (u8 XFER_REFUSE :: c :: (beBytes 8 tid ++ rest))) = specRefuse c := by
  rw [Lemmas.xferRefuse_accepts]; exact (valid_tables_exact c.toBitVec).2.1

theorem reason_codes_exact_msg_reject (c h : UInt8) (rest : Bytes) :
    accepts (readMessage (u8 MSG_REJECT :: c :: h :: rest)) = specReject c := by
  rw [Lemmas.reject_accepts]; exact (valid_tables_exact c.toBitVec).2.2

/-- **magic / version**: of six available bytes the first five must be exactly "dtn!" 4 … -/
theorem contact_magic_version (d rest : Bytes) (hd : d.length = 6) :
    accepts (decContact (d ++ rest)) = decide (d.take 5 = [0x64, 0x74, 0x6E, 0x21, 0x04]) :=
  Lemmas.contact_accepts d rest hd

/-- … and a type byte that is none of the eight registered ones is rejected. -/
theorem unknown_type_rejected (b : UInt8) (rest : Bytes)
    (h : ¬ [SESS_INIT, SESS_TERM, XFER_SEGMENT, XFER_ACK, XFER_REFUSE, KEEPALIVE, MSG_REJECT, CONTACT].contains b.toNat) :
    readMessage (b :: rest) = .error .unknownType :=
  Lemmas.unknown_type b rest h

/-- Why `Canonical` asks for a valid code: an invalid one is written by `Marshal` but never read back. -/
theorem tcpcl_noncanonical_witness : readMessage (enc (.sessTerm 0 6)) = .error .badCode := by decide

example : Canonical (.sessInit 65535 (2 ^ 64 - 1) 0 [1, 2, 3]) := by decide
example : Canonical (.xferSegment 3 7 []) := by decide
example : readMessage (enc (.xferRefuse 6 9) ++ [1, 2]) = .ok (.xferRefuse 6 9, [1, 2]) := by decide
end

/-! ## BBC fragment header -/
section
open Dtn7.Bbc

/-- Parsing the bytes of a fragment returns the fragment (a fragment is a datagram: the rest is payload). -/
theorem frag_roundtrip (f : Frag) : parseFrag f.bytes = .ok f := Lemmas.parse_bytes f

/-- **Header fields**, all 256 sequence-number arguments × 8 flag combinations × any id and payload:
the accessors return the number's low five bits (the number itself below 32 — the code only uses 0..15)
and exactly the three flags. -/
theorem frag_header_fields (tid seq : UInt8) (s e f : Bool) (p : Bytes) :
    let fr := mkFrag tid seq s e f p
    fr.tid = tid ∧ fr.seq = seq &&& 0x1F ∧ fr.start = s ∧ fr.fin = e ∧ fr.fail = f ∧ fr.payload = p := by
  have := Lemmas.ident_fields seq s e f
  exact ⟨rfl, this.1, this.2.1, this.2.2.1, this.2.2.2, rfl⟩

theorem frag_header_seq (tid seq : UInt8) (s e f : Bool) (p : Bytes) (h : seq.toNat < 32) :
    (mkFrag tid seq s e f p).seq = seq := by
  rw [(frag_header_fields tid seq s e f p).2.1]
  exact Lemmas.and_1F_of_lt seq.toBitVec h

/-- No identifier byte is ambiguous or unused: every byte is the header of the fragment it describes. -/
theorem frag_header_surjective (fr : Frag) : mkFrag fr.tid fr.seq fr.start fr.fin fr.fail fr.payload = fr := by
  cases fr with
  | mk t i p =>
    simp only [mkFrag, Frag.seq, Frag.start, Frag.fin, Frag.fail]
    rw [Lemmas.ident_surjective_bv i.toBitVec]

/-- Sequence numbers stay below 16 and advance by one modulo 16. -/
theorem next_seq_mod16 (s : UInt8) : (nextSeq s).toNat < 16 ∧ (nextSeq s).toNat = (s.toNat + 1) % 256 % 16 :=
  Lemmas.nextSeq_lt_bv s.toBitVec

/-! The header functions of the model ARE the code's: `Dtn7.Gen.C17.Go.*` is produced on every run by the
Go→Lean translator (`extract/golean.go`) from `pkg/cla/bbc/transmission_fragment.go`; the comparison runs
over all 256 identifier bytes / sequence numbers and all flag combinations (kernel `decide`). -/
theorem go_bbc_header_is_model :
    (∀ b : BitVec 8, ∀ s e f : Bool,
      (Dtn7.Gen.C17.Go.NewFragment 0 (UInt8.ofBitVec b) s e f).identifier = mkIdent (UInt8.ofBitVec b) s e f) ∧
    (∀ b : BitVec 8,
      Dtn7.Gen.C17.Go.Fragment.SequenceNumber ⟨0, UInt8.ofBitVec b⟩ = Frag.seq ⟨0, UInt8.ofBitVec b, []⟩ ∧
      Dtn7.Gen.C17.Go.Fragment.StartBit ⟨0, UInt8.ofBitVec b⟩ = Frag.start ⟨0, UInt8.ofBitVec b, []⟩ ∧
      Dtn7.Gen.C17.Go.Fragment.EndBit ⟨0, UInt8.ofBitVec b⟩ = Frag.fin ⟨0, UInt8.ofBitVec b, []⟩ ∧
      Dtn7.Gen.C17.Go.Fragment.FailBit ⟨0, UInt8.ofBitVec b⟩ = Frag.fail ⟨0, UInt8.ofBitVec b, []⟩ ∧
      (Dtn7.Gen.C17.Go.Fragment.ReportFailure ⟨7, UInt8.ofBitVec b⟩).identifier =
        (Frag.reportFailure ⟨7, UInt8.ofBitVec b, []⟩).ident ∧
      Dtn7.Gen.C17.Go.nextSequenceNumber (UInt8.ofBitVec b) = nextSeq (UInt8.ofBitVec b) ∧
      Dtn7.Gen.C17.Go.nextTransmissionId (UInt8.ofBitVec b) = nextTid (UInt8.ofBitVec b)) := by
  constructor <;> decide

/-- Stated on the translated code itself: what `NewFragment` packs, the accessors read back, for every
sequence number below 32 and every flag combination. -/
theorem go_bbc_header_roundtrip :
    ∀ b : BitVec 8, b.toNat < 32 → ∀ s e f : Bool,
      let fr := Dtn7.Gen.C17.Go.NewFragment 9 (UInt8.ofBitVec b) s e f
      fr.TransmissionID = 9 ∧ fr.SequenceNumber = UInt8.ofBitVec b ∧ fr.StartBit = s ∧ fr.EndBit = e ∧ fr.FailBit = f := by
  decide

example : (mkFrag 7 15 true false false [1]).bytes = [7, 0x7C, 1] := by decide
end

/-! ## Endpoint IDs: URI text ↔ structure -/
section
open Dtn7.EidText

/-- **print → parse**: every valid endpoint is recovered from the text it prints as. -/
theorem eid_print_parse (e : Eid) (hv : Valid e) : parseUri true (printUri e) = .ok e :=
  Lemmas.parse_print true e hv

/-- **parse → print**: an accepted text is exactly the text of the endpoint it denotes, and that endpoint
is valid. Unconditional for the repaired parser (D30 fixed: no leading zeros in ipn numbers). -/
theorem eid_parse_print (s : Bytes) (e : Eid) (h : parseUri true s = .ok e) : printUri e = s ∧ Valid e :=
  Lemmas.print_parse s e h

/-- Hence text and structure determine each other: two accepted texts for one endpoint are equal. -/
theorem eid_text_unique (s₁ s₂ : Bytes) (e : Eid) (h₁ : parseUri true s₁ = .ok e) (h₂ : parseUri true s₂ = .ok e) :
    s₁ = s₂ :=
  Lemmas.parse_injective s₁ s₂ e h₁ h₂

/-- The parser before the repair (`\d+`) violates this: "ipn:01.1" is accepted and denotes the endpoint that
prints as "ipn:1.1" (D30; the print → parse direction held for it too: `Lemmas.parse_print false`). -/
theorem eid_lenient_parser_witness :
    parseUri false [105, 112, 110, 58, 48, 49, 46, 49] = .ok (.ipn 1 1) ∧
    printUri (.ipn 1 1) = [105, 112, 110, 58, 49, 46, 49] ∧
    parseUri true [105, 112, 110, 58, 48, 49, 46, 49] = .error .badEid := by decide

/-- **Rejections** (all for any continuation): unknown scheme … -/
theorem eid_rejects_unknown_scheme (scheme ssp : Bytes) (ha : scheme.all isAlnum = true)
    (h1 : scheme ≠ sDtn) (h2 : scheme ≠ sIpn) : parseUri true (scheme ++ cColon :: ssp) = .error .badEid :=
  Lemmas.reject_unknown_scheme true scheme ssp ha h1 h2

/-- … a line feed anywhere after the scheme (so also in a demux) … -/
theorem eid_rejects_newline (scheme ssp : Bytes) (ha : scheme.all isAlnum = true) (hnl : (10 : UInt8) ∈ ssp) :
    parseUri true (scheme ++ cColon :: ssp) = .error .badEid :=
  Lemmas.reject_newline true scheme ssp ha hnl

/-- … an empty node name … -/
theorem eid_rejects_empty_node (demux : Bytes) :
    parseUri true (sDtn ++ [cColon, cSlash, cSlash, cSlash] ++ demux) = .error .badEid :=
  Lemmas.reject_empty_node true demux

/-- … ipn numbers that are 0 or do not fit 64 bits. -/
theorem eid_rejects_ipn_range (n s : Nat) (h : n = 0 ∨ s = 0 ∨ 2 ^ 64 ≤ n ∨ 2 ^ 64 ≤ s) :
    parseUri true (printUri (.ipn n s)) = .error .badEid :=
  Lemmas.reject_ipn_zero_or_big true n s h

/-- **CBOR form** round trip with exact consumption. -/
theorem eid_cbor_roundtrip (e : Eid) (rest : Bytes) (hc : CborCanonical e) :
    decEid (encEid e ++ rest) = .ok (e, rest) :=
  Dtn7.WireCbor.Lemmas.decEid_encEid e rest hc

theorem eid_cbor_stream_aligned (es : List Eid) (hc : ∀ e ∈ es, CborCanonical e) :
    decMany decEid (es.flatMap encEid) = .ok es :=
  stream_aligned encEid decEid CborCanonical Dtn7.WireCbor.Lemmas.decEid_encEid
    (fun e _ => Dtn7.WireCbor.Lemmas.encEid_ne_nil e) es hc

/-- Observation (mirrored, not judged: D6 territory): the CBOR decoder does not validate — an ipn endpoint with
number 0 is accepted (and cannot be re-marshalled), and any unsigned integer in the dtn position means dtn:none. -/
theorem eid_cbor_unvalidated_witness :
    decEid [0x82, 2, 0x82, 0, 0] = .ok (.ipn 0 0, []) ∧ checkValid (.ipn 0 0) = false ∧
    decEid [0x82, 1, 5] = .ok (.none, []) := by decide

/-- `MarshalCbor` (which refuses what `CheckValid` refuses) accepts every valid endpoint. -/
theorem eid_marshal_accepts_valid (e : Eid) (hv : Valid e) : checkValid e = true :=
  Lemmas.checkValid_of_valid e hv

example : Valid (.dtn [110] [97, 47, 98]) := by decide
example : Valid (.ipn 1 (2 ^ 64 - 1)) := by decide
example : parseUri true [100, 116, 110, 58, 47, 47, 110, 47, 120] = .ok (.dtn [110] [120]) := by decide
example : CborCanonical (.dtn [110] []) := by decide
end

/-! ## CBOR formats of bpv7, discovery and the WebSocket agent -/
section
open Dtn7.WireCbor

theorem timestamp_roundtrip (t : Ts) (rest : Bytes) (hc : TsCanonical t) : decTs (encTs t ++ rest) = .ok (t, rest) :=
  Lemmas.decTs_encTs t rest hc

theorem timestamp_stream_aligned (ts : List Ts) (hc : ∀ t ∈ ts, TsCanonical t) :
    decMany decTs (ts.flatMap encTs) = .ok ts :=
  stream_aligned encTs decTs TsCanonical Lemmas.decTs_encTs (fun t _ => Lemmas.encTs_ne_nil t) ts hc

/-- The bundle ID is decoded with the fragment flag the enclosing structure announces. -/
theorem bundle_id_roundtrip (b : BundleId) (rest : Bytes) (hc : BundleIdCanonical b) :
    decBundleId b.isFrag (encBundleId b ++ rest) = .ok (b, rest) :=
  Lemmas.decBundleId_enc b rest hc

theorem status_item_roundtrip (i : StatusItem) (rest : Bytes) (hc : ItemCanonical i) :
    decItem (encItem i ++ rest) = .ok (i, rest) :=
  Lemmas.decItem_encItem i rest hc

/-- Why `ItemCanonical`: a requested-but-not-asserted item, or a time on an item without request, is written
without the time and comes back different. -/
theorem status_item_noncanonical_witness :
    decItem (encItem ⟨false, 5, true⟩) = .ok (⟨false, 0, false⟩, []) ∧
    decItem (encItem ⟨true, 5, false⟩) = .ok (⟨true, 0, false⟩, []) := by decide

theorem status_report_roundtrip (s : StatusReport) (rest : Bytes) (hc : ReportCanonical s) :
    decReport (encReport s ++ rest) = .ok (s, rest) :=
  Lemmas.decReport_encReport s rest hc

theorem admin_record_roundtrip (s : StatusReport) (rest : Bytes) (hc : ReportCanonical s) :
    decAdmin (encAdmin s ++ rest) = .ok (s, rest) :=
  Lemmas.decAdmin_encAdmin s rest hc

theorem admin_record_stream_aligned (ss : List StatusReport) (hc : ∀ s ∈ ss, ReportCanonical s) :
    decMany decAdmin (ss.flatMap encAdmin) = .ok ss :=
  stream_aligned encAdmin decAdmin ReportCanonical Lemmas.decAdmin_encAdmin (fun s _ => Lemmas.encAdmin_ne_nil s) ss hc

theorem announcement_roundtrip (a : Announcement) (rest : Bytes) (hc : AnnCanonical a) :
    decAnn (encAnn a ++ rest) = .ok (a, rest) :=
  Lemmas.decAnn_encAnn a rest hc

/-- A whole discovery packet. -/
theorem announcements_roundtrip (as : List Announcement) (rest : Bytes) (hc : ∀ a ∈ as, AnnCanonical a)
    (hl : as.length < 2 ^ 64) : decAnns (encAnns as ++ rest) = .ok (as, rest) :=
  Lemmas.decAnns_encAnns as rest hc hl

theorem wam_roundtrip (w : Wam) (rest : Bytes) (hc : WamCanonical w) : decWam (encWam w ++ rest) = .ok (w, rest) :=
  Lemmas.decWam_encWam w rest hc

theorem wam_stream_aligned (ws : List Wam) (hc : ∀ w ∈ ws, WamCanonical w) :
    decMany decWam (ws.flatMap encWam) = .ok ws :=
  stream_aligned encWam decWam WamCanonical Lemmas.decWam_encWam (fun w _ => Lemmas.encWam_ne_nil w) ws hc

example : ReportCanonical ⟨[⟨true, 7, true⟩, ⟨false, 0, false⟩], 1, ⟨.ipn 1 2, ⟨3, 4⟩, true, 5, 6⟩⟩ := by decide
example : AnnCanonical ⟨10, .dtn [110] [], 4556⟩ := by decide
example : decAnns (encAnns [⟨10, .none, 1⟩, ⟨20, .ipn 1 1, 2⟩] ++ [9]) = .ok ([⟨10, .none, 1⟩, ⟨20, .ipn 1 1, 2⟩], [9]) := by
  decide
example : WamCanonical (.syscallResponse [1] [2, 3]) := by decide
end

end Dtn7.Props.C17
