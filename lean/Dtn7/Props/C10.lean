/-
C10 — reassembly accepts any covering set of fragments and nothing else; never panics.
Property theorems only; helper lemmas live in `Dtn7.Lemmas.Reassemble` / `Dtn7.Lemmas.FragReasm`.
-/
import Dtn7.Model.Fragment
import Dtn7.Model.Reassemble
import Dtn7.Lemmas.Reassemble
import Dtn7.Lemmas.FragReasm
import Dtn7.Gen.C10

namespace Dtn7.Props.C10
open Dtn7.Frag

/-! ### Facts regenerated from the source on every run -/

theorem gen_extraction_complete : Dtn7.Gen.C10.extractionFailures = [] := by decide

/-- The variant of the code the theorems speak about: the running end index only grows and the merge
skips covered fragments (D3); the store keeps the longer fragment of a known offset. -/
theorem gen_code_variant :
    Dtn7.Gen.C10.maxEnd = true ∧ Dtn7.Gen.C10.mergeSkipsCovered = true ∧ Dtn7.Gen.C10.keepLonger = true ∧
    Dtn7.Gen.C10.flagIsFragment = flagIsFragment := by decide

set_option maxRecDepth 20000 in
/-- `prepareReassembly`: the guards in source order, the comparator of the sort, the two assignments
to the running end index. -/
theorem gen_prepare :
    Dtn7.Gen.C10.prepareConds =
      ["if len(bs) == 0", "range bs", "if !b.PrimaryBlock.BundleControlFlags.Has(IsFragment)",
       "if fragOff := b.PrimaryBlock.FragmentOffset; fragOff > lastIndex",
       "if payloadBlock, err := b.PayloadBlock(); err != nil",
       "if fragEnd := fragOff + uint64(len(payloadBlock.Value.(*PayloadBlock).Data())); fragEnd > lastIndex",
       "if total := bs[0].PrimaryBlock.TotalDataLength; total != lastIndex"] ∧
    Dtn7.Gen.C10.prepareSortLess = ["bs[i].PrimaryBlock.FragmentOffset < bs[j].PrimaryBlock.FragmentOffset"] ∧
    Dtn7.Gen.C10.prepareLastIndex = ["lastIndex := uint64(0)", "lastIndex = fragEnd"] := by decide

set_option maxRecDepth 20000 in
/-- `mergeFragmentPayload`: guards, the slice expression, the running end index. -/
theorem gen_merge :
    Dtn7.Gen.C10.mergeConds =
      ["range bs", "if fragPayloadBlock, err = b.PayloadBlock(); err != nil",
       "if fragStartIndex+len(fragPayloadData) <= lastIndex"] ∧
    Dtn7.Gen.C10.mergeData = ["data = append(data, fragPayloadData[lastIndex-fragStartIndex:]...)"] ∧
    Dtn7.Gen.C10.mergeLastIndex = ["lastIndex := 0", "lastIndex = fragStartIndex + len(fragPayloadData)"] := by
  decide

set_option maxRecDepth 20000 in
/-- `ReassembleFragments` = prepare, copy the blocks of `bs[0]`, merge; `IsBundleReassemblable` = prepare;
the store's `IsComplete` / `Load` call exactly these on the parts. -/
theorem gen_entry_points :
    Dtn7.Gen.C10.reassembleConds =
      ["if err = prepareReassembly(bs); err != nil", "range bs[0].CanonicalBlocks",
       "if cb.TypeCode() == ExtBlockTypePayloadBlock",
       "if payload, payloadErr := mergeFragmentPayload(bs); payloadErr != nil", "if pb0Err != nil"] ∧
    Dtn7.Gen.C10.isReassemblable = ["return prepareReassembly(bs) == nil"] ∧
    Dtn7.Gen.C10.itemIsComplete =
      ["if !bi.Fragmented", "  return true", "parts, err := bi.bundleParts()",
       "return err == nil && bpv7.IsBundleReassemblable(parts)"] ∧
    Dtn7.Gen.C10.itemLoadCalls = ["len", "bi.Parts[].Load", "bi.bundleParts", "bpv7.ReassembleFragments"] := by decide

/-! ### Property theorems (model = the code after the repairs: `maxEnd = true`) -/

/-- **Reassemblable ⇔ covering**, for every non-empty collection of fragments of one bundle (flag set,
one total) — duplicates, overlaps and containment included — and for *every* arrangement `s` of it that
is sorted by offset (whatever order the unstable `sort.Slice` leaves equal offsets in). -/
theorem reassemble_iff_covers_sorted (fs s : List RFrag) (total : Nat) (hne : fs ≠ [])
    (hf : ∀ f ∈ fs, f.isFrag = true ∧ f.total = total) (hperm : s.Perm fs) (hs : SortedOff s) :
    checkSorted true s = .ok () ↔ Covers fs total := by
  have hsne : s ≠ [] := by
    intro e; subst e
    have := hperm.length_eq
    cases fs with
    | nil => exact hne rfl
    | cons a b => simp at this
  rw [← covers_perm_iff]
  · exact Lemmas.checkSorted_iff s total hsne hs (fun f h => hf f (hperm.mem_iff.mp h))
  · exact hperm
where
  covers_perm_iff {s fs : List RFrag} {t : Nat} (hp : s.Perm fs) : Covers s t ↔ Covers fs t :=
    Lemmas.covers_perm hp t

/-- **Reassemblable ⇔ covering**, with the model's own sort: for every multiset in every order. -/
theorem reassemble_iff_covers (fs : List RFrag) (total : Nat) (hne : fs ≠ [])
    (hf : ∀ f ∈ fs, f.isFrag = true ∧ f.total = total) :
    isReassemblable true fs = true ↔ Covers fs total := by
  have h := reassemble_iff_covers_sorted fs (sortOff fs) total hne hf (Lemmas.perm_sortOff fs)
    (Lemmas.sorted_sortOff fs)
  unfold isReassemblable prepareReassembly
  rw [← h]
  cases checkSorted true (sortOff fs) <;> simp

/-- **Exactness**: a covering collection of genuine fragments of a bundle with payload `p` (every
fragment's bytes are `p`'s slice at its offset), in every order, reassembles to exactly `p` and to the
extension blocks `B` that the offset-0 fragments carry. -/
theorem reassemble_exact (p : List UInt8) (B : List Nat) (fs s : List RFrag) (hne : fs ≠ [])
    (hf : ∀ f ∈ fs, FragOf p f) (hc : Covers fs p.length) (hb : ∀ f ∈ fs, f.off = 0 → f.blocks = B)
    (hperm : s.Perm fs) (hs : SortedOff s) : reassembleSorted true s = .ok p B := by
  have hsne : s ≠ [] := by
    intro e; subst e
    have := hperm.length_eq
    cases fs with
    | nil => exact hne rfl
    | cons a b => simp at this
  exact Lemmas.reassembleSorted_exact p B s hsne hs (fun f h => hf f (hperm.mem_iff.mp h))
    ((Lemmas.covers_perm hperm _).mpr hc) (fun f h => hb f (hperm.mem_iff.mp h))

/-- **Never data that differs from the original**: whatever genuine fragments are given (covering or
not), a successful reassembly returns the original payload. -/
theorem reassemble_never_wrong (p : List UInt8) (fs : List RFrag) (hf : ∀ f ∈ fs, FragOf p f)
    (q : List UInt8) (B : List Nat) (h : reassemble true fs = .ok q B) : q = p :=
  Lemmas.reassembleSorted_sound p (sortOff fs)
    (fun f hm => hf f ((Lemmas.perm_sortOff fs).mem_iff.mp hm)) q B h

/-- **Never a panic**: on *any* input (genuine fragments or not, any order) no slice expression of the
merge goes out of range — the model's slicing is a checked operation and `panic` is its failure value. -/
theorem reassemble_total (fs : List RFrag) : reassemble true fs ≠ .panic :=
  Lemmas.reassembleSorted_no_panic (sortOff fs)

/-- … and likewise for every sorted arrangement an unstable sort may produce. -/
theorem reassemble_total_sorted (s : List RFrag) : reassembleSorted true s ≠ .panic :=
  Lemmas.reassembleSorted_no_panic s

/-- **Fragments of a fragment keep offsets relative to the original payload and the original total**
(D2; the fragmentation model of C09): cutting the fragment `[off, off + n)` of `p` again yields genuine
fragments of `p`. -/
theorem refragment_absolute (x : In) (p : List UInt8) (fs : List Frag) (hfr : x.isFragment = true)
    (hp : x.payload = (p.drop x.off).take x.payload.length) (hin : x.off + x.payload.length ≤ p.length)
    (ht : x.total = p.length) (h : fragment Cfg.fixed x = .frags fs) : ∀ f ∈ fs, FragOf p f.toR := by
  have hb : base Cfg.fixed x = x.off := by simp [base, hfr, Cfg.fixed]
  have htt : tot Cfg.fixed x = p.length := by simp [tot, hfr, Cfg.fixed, ht]
  intro f hf
  exact (Lemmas.fragment_fragOf x p fs (by rw [hb]; exact hp) (by rw [hb]; exact hin) htt h f hf).1

/-- **The store's completeness test**: the parts the store holds after the fragments were pushed in
any order (per (offset, total) the longest one) are complete exactly when the *pushed* fragments cover
the payload. -/
theorem store_complete_iff_covers (fs : List RFrag) (total : Nat) (hne : fs ≠ [])
    (hf : ∀ f ∈ fs, f.isFrag = true ∧ f.total = total) :
    storeIsComplete true true fs = true ↔ Covers fs total := by
  have hsub : ∀ f ∈ storeParts true fs, f ∈ fs := by
    have : ∀ (l acc : List RFrag), ∀ f ∈ l.foldl (storePush true) acc, f ∈ acc ++ l := by
      intro l
      induction l with
      | nil => intro acc f h; simpa using h
      | cons a as ih =>
        intro acc f h
        have := ih _ f h
        rcases List.mem_append.mp this with h1 | h1
        · have := Lemmas.storePush_sub true acc a f h1
          rcases List.mem_append.mp this with h2 | h2
          · simp [h2]
          · simp at h2; simp [h2]
        · simp [h1]
    intro f h
    simpa using this fs [] f h
  have hdom := Lemmas.storeParts_dom fs []
  simp only [List.nil_append] at hdom
  unfold storeIsComplete
  rw [reassemble_iff_covers (storeParts true fs) total (Lemmas.storeParts_ne_nil true fs hne)
    (fun f h => hf f (hsub f h))]
  exact ⟨fun h => Lemmas.covers_of_dom total hdom.2 hdom.1 h, fun h => Lemmas.covers_of_dom total hdom.1 hdom.2 h⟩

/-! ### The code before the repairs: witnesses -/

def frag (off len total : Nat) : RFrag := ⟨true, off, total, List.replicate len 0, []⟩

/-- D3, false negative: `[0,4) [1,2) [4,6)` covers `[0,6)`, yet the unrepaired sweep (end index
overwritten by the contained fragment) reports a gap. -/
theorem old_reassemble_iff_covers_witness :
    Covers [frag 0 4 6, frag 1 1 6, frag 4 2 6] 6 ∧
      isReassemblable false [frag 0 4 6, frag 1 1 6, frag 4 2 6] = false := by decide

/-- D3, panic: `[0,10) [2,5) [5,10)` passes the unrepaired sweep and the merge then slices the
3-byte fragment at index 8. -/
theorem old_reassemble_total_witness :
    reassemble false [frag 0 10 10, frag 2 3 10, frag 5 5 10] = .panic := by decide

/-- The store before the repair: `[0,5)` arrives first, the complete `[0,15)` is dropped. -/
theorem old_store_witness :
    Covers [frag 0 5 15, frag 0 15 15] 15 ∧ storeIsComplete false true [frag 0 5 15, frag 0 15 15] = false := by
  decide

/-! ### Non-vacuity -/

example : isReassemblable true [frag 4 2 6, frag 1 1 6, frag 0 4 6] = true := by decide
example : Covers [frag 4 2 6, frag 1 1 6, frag 0 4 6] 6 := by decide
example : ¬ Covers [frag 4 2 6, frag 0 3 6] 6 ∧ isReassemblable true [frag 4 2 6, frag 0 3 6] = false := by decide
example : reassemble true [⟨true, 2, 4, [3, 4], []⟩, ⟨true, 0, 4, [1, 2, 3], [7, 10]⟩, ⟨true, 1, 4, [2], [7]⟩] =
    .ok [1, 2, 3, 4] [7, 10] := by decide
example : FragOf [1, 2, 3, 4] ⟨true, 1, 4, [2, 3], []⟩ := by decide
example : storeIsComplete true true [frag 0 5 15, frag 0 15 15] = true := by decide
example : reassemble true [frag 0 10 10, frag 2 3 10, frag 5 5 10] = .ok (List.replicate 10 0) [] := by decide

end Dtn7.Props.C10
