/-
C06 — forwarded bundles are faithful copies and respect hop limit and lifetime.
Property theorems only; helper lemmas live in `Dtn7.Lemmas.Forward`.

Setting of every theorem: one bundle `acc` accepted by node `node`; `run` = its reception at
`first = (residence ns, DTN clock ms)` followed by any number of retries `evs` (each with its own
residence time and clock reading), the convergence layer outcomes being arbitrary (a failed send
changes nothing but the bookkeeping of the routing algorithm). `(run …).1[n]? = some (some s)` reads
"the n-th run offered `s` to the convergence senders".
-/
import Dtn7.Model.Forward
import Dtn7.Lemmas.Forward
import Dtn7.Gen.C06

namespace Dtn7.Props.C06
open Dtn7.Forward

/-! ## The tie: facts regenerated from the Go source on every run -/

theorem gen_extraction_ok : Dtn7.Gen.C06.extractionFailures = [] := by decide

/-- Block type codes and block processing control flags hard-coded in the model. -/
theorem gen_constants :
    Dtn7.Gen.C06.typePayload = 1 ∧ Dtn7.Gen.C06.typePreviousNode = 6 ∧ Dtn7.Gen.C06.typeBundleAge = 7 ∧
    Dtn7.Gen.C06.typeHopCount = 10 ∧ Dtn7.Gen.C06.typeBinarySpray = 192 ∧ Dtn7.Gen.C06.typeDTLSR = 193 ∧
    Dtn7.Gen.C06.typeProphet = 194 ∧
    Dtn7.Gen.C06.flagStatusReportBlock = 2 ^ 1 ∧ Dtn7.Gen.C06.flagDeleteBundle = 2 ^ 2 ∧
    Dtn7.Gen.C06.flagRemoveBlock = 2 ^ 4 ∧
    builtinTypes = [Dtn7.Gen.C06.typePayload, Dtn7.Gen.C06.typePreviousNode,
      Dtn7.Gen.C06.typeBundleAge, Dtn7.Gen.C06.typeHopCount] := by decide

/-- The four block types every node registers (`GetExtensionBlockManager`). -/
theorem gen_builtin_blocks :
    Dtn7.Gen.C06.builtinBlocks = ["NewPayloadBlock", "NewPreviousNodeBlock", "NewBundleAgeBlock", "NewHopCountBlock"] := by
  decide

/-- Step order of `Core.forward` (`transform`, then the sends, then the hop count reset; the store
is never written with the modified bundle). -/
theorem gen_forward_steps :
    Dtn7.Gen.C06.forwardSteps =
      ["Increment", "bundleDeletion", "IsLifetimeExceeded", "bundleDeletion", "UpdateBundleAge", "bundleDeletion",
       "NewPreviousNodeBlock", "AddExtensionBlock", "NewPreviousNodeBlock",
       "senderForDestination", "SenderForBundle", "Send", "Wait", "Decrement"] := by decide

/-- The deletion is guarded by `Increment`'s result (`hopIncrement … .2`). -/
theorem gen_forward_hop_guard :
    Dtn7.Gen.C06.forwardHopLines = ["exceeded := hc.Increment()", "if exceeded", "hc.Decrement()"] := by decide

theorem gen_forward_age_guard :
    Dtn7.Gen.C06.forwardAgeLines =
      ["if bp.MustBundle().IsLifetimeExceeded()",
       "if age, err := bp.UpdateBundleAge(); err == nil",
       "if age >= bp.MustBundle().PrimaryBlock.Lifetime"] := by decide

/-- `hopIncrement Cfg.fixed`, `hopIsExceeded`, `hopDecrement`. -/
theorem gen_hop_methods :
    Dtn7.Gen.C06.hopIncrement =
      ["if hcb.Count == math.MaxUint8", "  return true", "hcb.Count++", "return hcb.IsExceeded()"] ∧
    Dtn7.Gen.C06.hopIsExceeded = ["return hcb.Count > hcb.Limit"] ∧
    Dtn7.Gen.C06.hopDecrement = ["hcb.Count--"] := by decide

/-- `ageDelta Cfg.fixed`: the residence time enters in milliseconds; `stepAge` adds it in `uint64`. -/
theorem gen_update_bundle_age :
    Dtn7.Gen.C06.updateBundleAge =
      ["bndl, err := descriptor.Bundle()", "if err != nil", "  return 0, err",
       "ageBlock, err := bndl.ExtensionBlock(bpv7.ExtBlockTypeBundleAgeBlock)", "if err != nil",
       "  return 0, fmt.Errorf(\"no bundle age block exists\")",
       "age := ageBlock.Value.(*bpv7.BundleAgeBlock)",
       "return age.Increment(uint64(time.Since(descriptor.Timestamp).Milliseconds())), nil"] ∧
    Dtn7.Gen.C06.ageIncrement =
      ["newBabVal := uint64(*bab) + offset", "*bab = BundleAgeBlock(newBabVal)", "return newBabVal"] := by decide

set_option maxRecDepth 8192 in
/-- `isLifetimeExceeded`. -/
theorem gen_is_lifetime_exceeded :
    Dtn7.Gen.C06.isLifetimeExceeded =
      ["if b.PrimaryBlock.CreationTimestamp.IsZeroTime()",
       "  if bab, err := b.ExtensionBlock(ExtBlockTypeBundleAgeBlock); err != nil",
       "    return true", "  else",
       "    return bab.Value.(*BundleAgeBlock).Age() > b.PrimaryBlock.Lifetime",
       "maxTimestamp := b.PrimaryBlock.CreationTimestamp.DtnTime().Time().Add( time.Duration(b.PrimaryBlock.Lifetime) * time.Millisecond)",
       "return time.Now().After(maxTimestamp)"] := by decide

/-- `addExtensionBlock` / `freeNum` / `blkLess` / `mapFirst` (first block of a type). -/
theorem gen_add_extension_block :
    Dtn7.Gen.C06.addExtensionBlock =
      ["var blockNumbers []uint64", "for i := 0; i < len(b.CanonicalBlocks); i++",
       "  blockNumbers = append(blockNumbers, b.CanonicalBlocks[i].BlockNumber)",
       "var blockNumber uint64 = 1", "if block.Value.BlockTypeCode() != ExtBlockTypePayloadBlock",
       "  blockNumber = 2", "for", "  flag := true", "  for _, no := range blockNumbers",
       "    if blockNumber == no", "      flag = false", "      break", "  if flag", "    break", "  else",
       "    blockNumber += 1", "block.BlockNumber = blockNumber",
       "b.CanonicalBlocks = append(b.CanonicalBlocks, block)", "b.sortBlocks()"] ∧
    Dtn7.Gen.C06.blockNumberLess =
      ["if cbns[i].BlockNumber == ExtBlockTypePayloadBlock", "  return false",
       "else if cbns[j].BlockNumber == ExtBlockTypePayloadBlock", "  return true", "else",
       "  return cbns[i].BlockNumber < cbns[j].BlockNumber"] ∧
    Dtn7.Gen.C06.extensionBlock =
      ["for i := 0; i < len(b.CanonicalBlocks); i++", "  cb := &b.CanonicalBlocks[i]",
       "  if cb.TypeCode() == blockType", "    return cb, nil",
       "return nil, fmt.Errorf(\"no CanonicalBlock with block type %d was found in Bundle\", blockType)"] := by decide

/-- `recvBlocks`: last to first; known ⇒ skip; report, delete bundle, remove block in this order;
the stored bundle is replaced before dispatching (`Cfg.fixed.persistRemoval`). -/
theorem gen_receive :
    Dtn7.Gen.C06.receiveFlagLines =
      ["var blockRemoved = false",
       "for i := len(bp.MustBundle().CanonicalBlocks) - 1; i >= 0; i--",
       "if bpv7.GetExtensionBlockManager().IsKnown(cb.TypeCode())",
       "if cb.BlockControlFlags.Has(bpv7.StatusReportBlock)",
       "if cb.BlockControlFlags.Has(bpv7.DeleteBundle)",
       "if cb.BlockControlFlags.Has(bpv7.RemoveBlock)",
       "blockRemoved = true",
       "if blockRemoved"] ∧
    Dtn7.Gen.C06.receiveSteps = ["IsKnown", "bundleDeletion", "ReplaceBundle", "NotifyNewBundle", "dispatching"] ∧
    Dtn7.Gen.C06.persistRemoval = Cfg.fixed.persistRemoval := by decide

/-- Every retry builds its descriptor from the bundle id only, i.e. reloads the stored bundle. -/
theorem gen_retry_from_store :
    Dtn7.Gen.C06.checkPendingSteps = ["QueryPending", "dispatching", "NewBundleDescriptor"] := by decide

/-! ## The property -/

/-- What `CheckValid` guarantees of an accepted bundle and the theorems use: at most one block of
each of the three rewritten types. -/
def AtMostOne (acc : Bundle) : Prop :=
  (acc.blocks.filter isHop).length ≤ 1 ∧ (acc.blocks.filter isAge).length ≤ 1 ∧
    (acc.blocks.filter isPrev).length ≤ 1

/-- The `uint64` age counter does not wrap during this history (≈ 585 million years). -/
def NoWrap (acc : Bundle) (times : List (Nat × Nat)) : Prop :=
  ∀ a, firstAge acc.blocks = some a → ∀ t ∈ times, a + t.1 / 1000000 < 2 ^ 64

/-- **Faithful copy** (all clauses of the first sentence at once, in the form the driver evaluates
on the implementation's outputs): whatever the n-th run hands to a convergence sender satisfies
`FaithfulCopy` with respect to the accepted bundle, with the exact residence time of that run. -/
theorem faithful_copy (known owned : List Nat) (node : Bytes) (acc : Bundle) (first : Nat × Nat)
    (evs : List (Nat × Nat)) (hv : AtMostOne acc) (hw : NoWrap acc (first :: evs))
    (n : Nat) (s : Bundle) (h : (run Cfg.fixed known node acc first evs).1[n]? = some (some s)) :
    ∃ (el now : Nat), (first :: evs)[n]? = some (el, now) ∧ FaithfulCopy known owned node acc s el el := by
  obtain ⟨P, el, now, hP, hn, ht⟩ := Lemmas.run_spec known node acc first evs n s h
  refine ⟨el, now, hn, ?_⟩
  have hmem : (el, now) ∈ first :: evs := List.mem_of_getElem? hn
  have fHop := Lemmas.processed_filter known acc P hP isHop (Lemmas.known_isHop known)
  have fAge := Lemmas.processed_filter known acc P hP isAge (Lemmas.known_isAge known)
  have fPrev := Lemmas.processed_filter known acc P hP isPrev (Lemmas.known_isPrev known)
  have fPay := Lemmas.processed_filter known acc P hP isPayload (Lemmas.known_isPayload known)
  refine ⟨?_, ?_, ?_, ?_, ?_, ?_⟩
  · rw [Lemmas.transform_primary _ node P el now s ht, Lemmas.processed_primary known acc P hP]
  · have := Lemmas.transform_filter_perm _ node P el now s isPayload
      (fun x hx => by
        simp only [isSpecial, Bool.or_eq_true] at hx
        rcases hx with (hx | hx) | hx
        · exact (Lemmas.isHop_not_others x hx).2.2
        · exact (Lemmas.isAge_not_others x hx).2.2
        · exact (Lemmas.isPrev_not_others x hx).2.2) ht
    rw [fPay] at this
    exact this
  · have := Lemmas.transform_filter_perm _ node P el now s
      (fun b => !isSpecial b && !owned.contains b.type) (fun x hx => by simp [hx]) ht
    have e : P.blocks.filter (fun b => !isSpecial b && !owned.contains b.type) =
        (plain owned acc.blocks).filter (fun b => !removable known b) := by
      rw [Lemmas.processed_some known acc P hP]
      simp only [plain, List.filter_filter]
      apply List.filter_congr
      intro x _
      exact Bool.and_comm _ _
    rw [e] at this
    exact this
  · rw [← fHop]
    exact Lemmas.transform_hop node P el now s ht (by rw [fHop]; exact hv.1)
  · rw [← fAge]
    exact Lemmas.transform_age node P el now s ht (by rw [fAge]; exact hv.2.1)
      (fun a ha => hw a (by rw [← Lemmas.processed_firstAge known acc P hP]; exact ha) (el, now) hmem)
  · rw [← fPrev]
    exact Lemmas.transform_prev node P el now s ht (by rw [fPrev]; exact hv.2.2)

/-- **Primary block and payload are identical** to what was accepted (the primary block's bytes;
the payload block with its number, flags and CRC type). -/
theorem primary_and_payload_identical (known : List Nat) (node : Bytes) (acc : Bundle) (first : Nat × Nat)
    (evs : List (Nat × Nat)) (hv : AtMostOne acc) (hw : NoWrap acc (first :: evs))
    (n : Nat) (s : Bundle) (h : (run Cfg.fixed known node acc first evs).1[n]? = some (some s)) :
    s.primary.raw = acc.primary.raw ∧ (s.blocks.filter isPayload).Perm (acc.blocks.filter isPayload) := by
  obtain ⟨_, _, _, f⟩ := faithful_copy known [] node acc first evs hv hw n s h
  exact ⟨by rw [f.primary], f.payload⟩

/-- **Other blocks unchanged**: the blocks other than hop count / bundle age / previous node / the
routing algorithm's own (`owned`) leave the node exactly as accepted — none changed, added or
dropped — except that unsupported blocks flagged for removal are gone. (As a multiset: appending a
previous-node block re-sorts the list by block number.) -/
theorem other_blocks_unchanged (known owned : List Nat) (node : Bytes) (acc : Bundle) (first : Nat × Nat)
    (evs : List (Nat × Nat)) (hv : AtMostOne acc) (hw : NoWrap acc (first :: evs))
    (n : Nat) (s : Bundle) (h : (run Cfg.fixed known node acc first evs).1[n]? = some (some s)) :
    (plain owned s.blocks).Perm ((plain owned acc.blocks).filter (fun b => !removable known b)) := by
  obtain ⟨_, _, _, f⟩ := faithful_copy known owned node acc first evs hv hw n s h
  exact f.others

/-- **Hop count exactly one higher, in every run** (first transmission and n-th retry alike: each
retry starts from the stored bundle), block number, flags, CRC type and limit unchanged. -/
theorem hop_plus_one (known : List Nat) (node : Bytes) (acc : Bundle) (first : Nat × Nat)
    (evs : List (Nat × Nat)) (hv : AtMostOne acc) (hw : NoWrap acc (first :: evs))
    (a : Block) (l c : UInt8) (ha : acc.blocks.filter isHop = [a]) (hval : a.value = .hop l c)
    (n : Nat) (s : Bundle) (h : (run Cfg.fixed known node acc first evs).1[n]? = some (some s)) :
    ∃ c' : UInt8, s.blocks.filter isHop = [⟨a.num, a.flags, a.crc, .hop l c'⟩] ∧ c'.toNat = c.toNat + 1 := by
  obtain ⟨_, _, _, f⟩ := faithful_copy known [] node acc first evs hv hw n s h
  have := f.hop
  rw [ha] at this
  obtain ⟨c', h1, h2, _⟩ := Lemmas.hopOk_elim a _ l c hval this
  exact ⟨c', h1, h2⟩

/-- No hop count block is invented. -/
theorem hop_none (known : List Nat) (node : Bytes) (acc : Bundle) (first : Nat × Nat)
    (evs : List (Nat × Nat)) (hv : AtMostOne acc) (hw : NoWrap acc (first :: evs))
    (ha : acc.blocks.filter isHop = [])
    (n : Nat) (s : Bundle) (h : (run Cfg.fixed known node acc first evs).1[n]? = some (some s)) :
    s.blocks.filter isHop = [] := by
  obtain ⟨_, _, _, f⟩ := faithful_copy known [] node acc first evs hv hw n s h
  have := f.hop
  rw [ha] at this
  exact Lemmas.hopOk_nil_elim _ this

/-- **The `uint8` lemma behind both hop theorems, over the whole 0..255 × 0..255 square**: the
guard `forward` uses is true exactly when `count + 1 > limit` in ℕ, and when it is false the stored
byte is `count + 1` without wrap-around. -/
theorem hop_guard_exact (l c : UInt8) :
    ((hopIncrement Cfg.fixed l c).2 = true ↔ c.toNat + 1 > l.toNat) ∧
    ((hopIncrement Cfg.fixed l c).2 = false →
      (hopIncrement Cfg.fixed l c).1.toNat = c.toNat + 1 ∧ c.toNat + 1 ≤ l.toNat) :=
  ⟨Lemmas.hopIncrement_exceeded_iff l c, Lemmas.hopIncrement_ok l c⟩

/-! ### The hop-count arithmetic of the model IS the code's

`Dtn7.Gen.C06.Go.HopCountBlock.{IsExceeded,Increment,Decrement}` are produced on every run by the
Go→Lean translator (`extract/golean.go`) from `pkg/bpv7/extension_block_hop_count.go`; the theorems
below are therefore re-checked against what the code says now, for every `uint8` pair. -/

open Dtn7.Gen.C06.Go in
/-- The translated `Increment` is the model's `hopIncrement` (the repaired variant). -/
theorem go_increment_is_model (l c : UInt8) :
    HopCountBlock.Increment ⟨l, c⟩ =
      (⟨l, (hopIncrement Cfg.fixed l c).1⟩, (hopIncrement Cfg.fixed l c).2) := by
  unfold HopCountBlock.Increment HopCountBlock.IsExceeded hopIncrement
  by_cases h : c = 255
  · simp [h, Cfg.fixed]
  · simp [h, Cfg.fixed]

open Dtn7.Gen.C06.Go in
/-- The translated `IsExceeded` and `Decrement` are the model's. -/
theorem go_isExceeded_decrement_are_model (l c : UInt8) :
    HopCountBlock.IsExceeded ⟨l, c⟩ = hopIsExceeded l c ∧
    HopCountBlock.Decrement ⟨l, c⟩ = ⟨l, hopDecrement c⟩ := by
  constructor <;> rfl

open Dtn7.Gen.C06.Go in
/-- **Stated on the translated code itself**: over the whole 0..255 × 0..255 square `Increment`
reports "exceeded" exactly when `count + 1 > limit` in ℕ, never wraps, and otherwise stores
`count + 1`; the limit is untouched. -/
theorem go_increment_exact (l c : UInt8) :
    ((HopCountBlock.Increment ⟨l, c⟩).2 = true ↔ c.toNat + 1 > l.toNat) ∧
    ((HopCountBlock.Increment ⟨l, c⟩).2 = false →
      (HopCountBlock.Increment ⟨l, c⟩).1.Count.toNat = c.toNat + 1 ∧ c.toNat + 1 ≤ l.toNat) ∧
    (HopCountBlock.Increment ⟨l, c⟩).1.Limit = l := by
  rw [go_increment_is_model]
  exact ⟨(hop_guard_exact l c).1, (hop_guard_exact l c).2, rfl⟩

/-- **A transmitted hop count never exceeds its limit.** -/
theorem hop_never_exceeds (known : List Nat) (node : Bytes) (acc : Bundle) (first : Nat × Nat)
    (evs : List (Nat × Nat)) (hv : AtMostOne acc) (hw : NoWrap acc (first :: evs))
    (n : Nat) (s : Bundle) (h : (run Cfg.fixed known node acc first evs).1[n]? = some (some s))
    (l' c' : UInt8) (hs : firstHop s.blocks = some (l', c')) : c'.toNat ≤ l'.toNat := by
  obtain ⟨_, _, _, f⟩ := faithful_copy known [] node acc first evs hv hw n s h
  have hh := f.hop
  rw [Lemmas.firstHop_filter] at hs
  cases hb : acc.blocks.filter isHop with
  | nil =>
    rw [hb] at hh
    rw [Lemmas.hopOk_nil_elim _ hh] at hs
    cases hs
  | cons a t =>
    cases t with
    | cons y t' => have := hv.1; rw [hb] at this; simp at this
    | nil =>
      rw [hb] at hh
      obtain ⟨l, c, hval⟩ := (Lemmas.isHop_iff a).mp (Lemmas.head_of_filter hb)
      obtain ⟨c'', h1, _, h3⟩ := Lemmas.hopOk_elim a _ l c hval hh
      rw [h1] at hs
      simp at hs
      obtain ⟨rfl, rfl⟩ := hs
      exact h3

/-- **Exceeded ⇒ never transmitted and dropped**: if `count + 1 > limit` (any of the 65 536 pairs),
no run offers the bundle to a convergence sender and the store does not hold it afterwards. -/
theorem exceeded_dropped (known : List Nat) (node : Bytes) (acc : Bundle) (first : Nat × Nat)
    (evs : List (Nat × Nat)) (l c : UInt8) (hf : firstHop acc.blocks = some (l, c))
    (hx : c.toNat + 1 > l.toNat) :
    (run Cfg.fixed known node acc first evs).1 = (first :: evs).map (fun _ => none) ∧
    (run Cfg.fixed known node acc first evs).2 = none := by
  have hr : receive Cfg.fixed known node acc first.1 first.2 = (none, none) := by
    unfold receive
    cases hP : processed known acc with
    | none => rfl
    | some P =>
      have := Lemmas.transform_hop_refuse node P first.1 first.2 l c
        (by rw [Lemmas.processed_firstHop known acc P hP]; exact hf) hx
      simp [forward, this]
  unfold run
  rw [hr]
  obtain ⟨h1, h2⟩ := Lemmas.retries_none Cfg.fixed node evs
  simp [h1, h2]

/-- **Bundle age grows by the residence time in milliseconds**: `sent.age = received.age +
elapsed / 10⁶` with `elapsed` the nanoseconds since reception at the moment of that run. -/
theorem age_by_residence (known : List Nat) (node : Bytes) (acc : Bundle) (first : Nat × Nat)
    (evs : List (Nat × Nat)) (hv : AtMostOne acc) (hw : NoWrap acc (first :: evs))
    (a : Block) (x : Nat) (ha : acc.blocks.filter isAge = [a]) (hval : a.value = .age x)
    (n : Nat) (s : Bundle) (h : (run Cfg.fixed known node acc first evs).1[n]? = some (some s)) :
    ∃ (el now : Nat), (first :: evs)[n]? = some (el, now) ∧
      s.blocks.filter isAge = [⟨a.num, a.flags, a.crc, .age (x + el / 1000000)⟩] := by
  obtain ⟨el, now, hn, f⟩ := faithful_copy known [] node acc first evs hv hw n s h
  have := f.age
  rw [ha] at this
  obtain ⟨y, h1, h2, h3⟩ := Lemmas.ageOk_elim el el a _ x hval this
  have : y = x + el / 1000000 := by omega
  subst this
  exact ⟨el, now, hn, h1⟩

/-- **The previous-node block names this node** — exactly one such block leaves the node; a
received one is overwritten in place (same number, flags, CRC type). -/
theorem prev_node_is_self (known : List Nat) (node : Bytes) (acc : Bundle) (first : Nat × Nat)
    (evs : List (Nat × Nat)) (hv : AtMostOne acc) (hw : NoWrap acc (first :: evs))
    (n : Nat) (s : Bundle) (h : (run Cfg.fixed known node acc first evs).1[n]? = some (some s)) :
    (∃ p, s.blocks.filter isPrev = [p] ∧ p.value = .prevNode node) ∧
    (∀ a, acc.blocks.filter isPrev = [a] →
      s.blocks.filter isPrev = [⟨a.num, a.flags, a.crc, .prevNode node⟩]) := by
  obtain ⟨_, _, _, f⟩ := faithful_copy known [] node acc first evs hv hw n s h
  refine ⟨Lemmas.prevOk_elim node _ _ _ f.prev, ?_⟩
  intro a ha
  have := f.prev
  rw [ha] at this
  exact Lemmas.prevOk_replace_elim node _ a _ this

/-- **Block numbers stay pairwise different** (the structural part of "parses as a valid bundle"
that forwarding could break: the appended previous-node block gets a number no other block uses). -/
theorem sent_block_numbers_distinct (known : List Nat) (node : Bytes) (acc : Bundle) (first : Nat × Nat)
    (evs : List (Nat × Nat)) (hn : (acc.blocks.map (·.num)).Nodup)
    (n : Nat) (s : Bundle) (h : (run Cfg.fixed known node acc first evs).1[n]? = some (some s)) :
    (s.blocks.map (·.num)).Nodup := by
  obtain ⟨P, el, now, hP, _, ht⟩ := Lemmas.run_spec known node acc first evs n s h
  exact Lemmas.transform_nodup _ node P el now s ht (Lemmas.processed_nodup known acc P hP hn)

/-- **The in-memory bundle is handed back as received**: after the sends `forward` decrements the
hop count again, so the shared `*HopCountBlock` shows the received count (not observable on the
wire — every retry reloads the stored bytes — but on the caller's bundle object). -/
theorem hop_reset_restores (node : Bytes) (b : Bundle) (el now : Nat) (s : Bundle) (l c : UInt8)
    (h : transform Cfg.fixed node b el now = .ok s) (h1 : (b.blocks.filter isHop).length ≤ 1)
    (hf : firstHop b.blocks = some (l, c)) : firstHop (afterSend s).blocks = some (l, c) :=
  Lemmas.afterSend_restores node b el now s l c h h1 hf

/-- **Expired ⇒ never transmitted**: in a run at clock `now` after residence `el`, a bundle whose
lifetime has run out — by creation time, or by age (received age + residence) when the creation
time is zero — is not offered to any convergence sender. -/
theorem expired_never_sent (known : List Nat) (node : Bytes) (acc : Bundle) (first : Nat × Nat)
    (evs : List (Nat × Nat)) (hw : NoWrap acc (first :: evs)) (n el now : Nat)
    (hn : (first :: evs)[n]? = some (el, now))
    (hexp : expiredByCreation acc now = true ∨ expiredByAge acc el = true) (s : Bundle) :
    (run Cfg.fixed known node acc first evs).1[n]? ≠ some (some s) := by
  intro h
  obtain ⟨P, el', now', hP, hn', ht⟩ := Lemmas.run_spec known node acc first evs n s h
  rw [hn] at hn'
  cases hn'
  have hprim := Lemmas.processed_primary known acc P hP
  have hage := Lemmas.processed_firstAge known acc P hP
  obtain ⟨h1, h2⟩ := Lemmas.transform_not_expired node P el now s ht
  rw [hprim] at h1 h2
  rcases hexp with hc | ha
  · simp only [expiredByCreation, Bool.and_eq_true, bne_iff_ne, ne_eq, decide_eq_true_eq] at hc
    have := h1 hc.1
    omega
  · simp only [expiredByAge, Bool.and_eq_true, beq_iff_eq] at ha
    obtain ⟨hz, hm⟩ := ha
    cases hfa : firstAge acc.blocks with
    | none => rw [hfa] at hm; cases hm
    | some a =>
      rw [hfa] at hm
      simp only [decide_eq_true_eq] at hm
      have hlt := Lemmas.transform_age_lt node P el now s a ht (by rw [hage]; exact hfa)
        (hw a hfa (el, now) (List.mem_of_getElem? hn))
      rw [hprim] at hlt
      omega

/-- **Expired on reception ⇒ dropped at once**: nothing is ever transmitted and the store does not
hold the bundle. -/
theorem expired_on_reception_dropped (known : List Nat) (node : Bytes) (acc : Bundle) (first : Nat × Nat)
    (evs : List (Nat × Nat)) (hw : NoWrap acc [first])
    (hexp : expiredByCreation acc first.2 = true ∨ expiredByAge acc first.1 = true) :
    (run Cfg.fixed known node acc first evs).1 = (first :: evs).map (fun _ => none) ∧
    (run Cfg.fixed known node acc first evs).2 = none := by
  have hr : receive Cfg.fixed known node acc first.1 first.2 = (none, none) := by
    unfold receive
    cases hP : processed known acc with
    | none => rfl
    | some P =>
      simp only
      unfold forward
      cases ht : transform Cfg.fixed node P first.1 first.2 with
      | error e => rfl
      | ok s =>
        exfalso
        have h0 : (run Cfg.fixed known node acc first []).1[0]? = some (some s) := by
          simp [run, receive, hP, forward, ht]
        exact expired_never_sent known node acc first [] hw 0 first.1 first.2 (by simp) hexp s h0
  unfold run
  rw [hr]
  obtain ⟨h1, h2⟩ := Lemmas.retries_none Cfg.fixed node evs
  simp [h1, h2]

/-- **Expired by age at a retry ⇒ dropped by that retry.** (`P` is what the store holds.) -/
theorem expired_by_age_retry_dropped (node : Bytes) (P : Bundle) (el now : Nat) (a : Nat)
    (hz : P.primary.created = 0) (hfa : firstAge P.blocks = some a) (hstored : a ≤ P.primary.lifetime)
    (hexp : a + el / 1000000 > P.primary.lifetime) (hw : a + el / 1000000 < 2 ^ 64) :
    retry Cfg.fixed node (some P) el now = (none, none) := by
  have hl : loadOk P now = true := by
    simp [loadOk, isLifetimeExceeded, hz, hfa]
    omega
  unfold retry
  simp only [hl, if_true]
  unfold forward
  cases ht : transform Cfg.fixed node P el now with
  | error e => rfl
  | ok s =>
    exfalso
    have := Lemmas.transform_age_lt node P el now s a ht hfa hw
    omega

/-- **Expired by creation time at a retry**: the stored bytes no longer pass `ParseBundle`'s validity
check, the retry sends nothing and leaves the item to the store's expiry sweep
(`Store.DeleteExpired`, index `Expires = creation + lifetime`, now in the past). This is the one
case where "dropped from the store" is not done by `forward` itself. -/
theorem expired_by_creation_retry_left_to_sweep (node : Bytes) (P : Bundle) (el now : Nat)
    (hc : P.primary.created ≠ 0) (hexp : now > P.primary.created + P.primary.lifetime) :
    retry Cfg.fixed node (some P) el now = (none, some P) := by
  have hl : loadOk P now = false := by
    simp [loadOk, isLifetimeExceeded, hc]
    omega
  simp [retry, hl]

/-! ## Witnesses for the behaviour before the `fix:` commits (`Cfg.original`) -/

def wNode : Bytes := [1]
def wPrimary : Primary := ⟨[0x89], 1000, 3600000, 0⟩
def wBundle (bs : List Block) : Bundle := ⟨wPrimary, bs⟩

/-- D19: 5 ms of residence added 5000 to the millisecond counter. -/
theorem age_microseconds_witness :
    (match transform { Cfg.fixed with ageInMs := false } wNode
        (wBundle [⟨2, 0, 0, .age 1⟩, ⟨1, 0, 0, .payload []⟩]) 5000000 2000 with
     | .ok s => firstAge s.blocks
     | .error _ => none) = some 5001 := by decide

/-- D20: count 255 with limit 255 wrapped to 0 and was transmitted. -/
theorem hop_wrap_witness :
    (match transform { Cfg.fixed with hopSaturates := false } wNode
        (wBundle [⟨2, 0, 0, .hop 255 255⟩, ⟨1, 0, 0, .payload []⟩]) 0 2000 with
     | .ok s => firstHop s.blocks
     | .error _ => none) = some (255, 0) := by decide

/-- D21: the unsupported block flagged for removal (type 200, flags 0x10) is absent from the first
transmission and present again in the retry, because the stored bytes still contain it. -/
theorem removed_block_retransmitted_witness :
    (run { Cfg.fixed with persistRemoval := false } [] wNode
        (wBundle [⟨2, 16, 0, .other 200 [7]⟩, ⟨1, 0, 0, .payload []⟩]) (0, 2000) [(0, 2000)]).1.map
      (fun o => o.map (fun s => s.blocks.map (·.type))) = [some [6, 1], some [200, 6, 1]] := by decide

/-! ## Non-vacuity -/

def exAcc : Bundle :=
  wBundle [⟨2, 0, 1, .hop 10 3⟩, ⟨3, 1, 0, .age 100⟩, ⟨5, 16, 0, .other 200 [7]⟩, ⟨7, 0, 2, .other 42 [1, 2]⟩,
    ⟨1, 0, 2, .payload [9, 9]⟩]

example : AtMostOne exAcc := by unfold AtMostOne; decide
example : (run Cfg.fixed [] wNode exAcc (2000000, 2000) [(7000000, 2100), (12000000, 2200)]).1.map
    (fun o => o.map (fun s => (firstHop s.blocks, firstAge s.blocks, s.blocks.map (·.type)))) =
    [some (some (10, 4), some 102, [10, 7, 6, 42, 1]), some (some (10, 4), some 107, [10, 7, 6, 42, 1]),
     some (some (10, 4), some 112, [10, 7, 6, 42, 1])] := by decide
example : hopWouldExceed (wBundle [⟨2, 0, 0, .hop 255 255⟩]) = true := by decide
example : (run Cfg.fixed [] wNode (wBundle [⟨2, 0, 0, .hop 255 255⟩, ⟨1, 0, 0, .payload []⟩]) (0, 2000) [(0, 2000)]) =
    ([none, none], none) := by decide
example : expiredByCreation exAcc 3601001 = true := by decide
example : expiredByAge ⟨⟨[], 0, 500, 0⟩, [⟨2, 0, 0, .age 100⟩]⟩ 401000000 = true := by decide

end Dtn7.Props.C06
