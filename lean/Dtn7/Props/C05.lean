/-
C05 — store-carry-forward: an accepted bundle is never silently lost.
Property theorems only; the proofs live in `Dtn7.Lemmas.Node*`.

The statements are about the executable model `Dtn7.Node.step` (pkg/routing/processing.go and the
routing algorithms, see `Dtn7.Model.Node`) and conclude the Spec predicates of `Dtn7.Model.NodeSpec` —
the very predicates the driver `drv_c05` evaluates on the implementation's own observations.
`trace env (init c now) h` is the run of history `h` from the empty node; `env` is the environment
(outcome of every `Send`, iteration order of the CLA manager, PRoPHET/DTLSR routing oracle) and is
universally quantified everywhere, as are the routing algorithm (`c.algo`, `c.mule`), the number of peers
and the history — EVERY list of events, without any domain hypothesis. `Cur c` says that the variant
flags of the model are those of the code as it is (`gen_variant`).
-/
import Dtn7.Model.Node
import Dtn7.Model.NodeSpec
import Dtn7.Model.NodeSched
import Dtn7.Lemmas.NodeC05
import Dtn7.Lemmas.NodeDirect
import Dtn7.Lemmas.NodeSched
import Dtn7.Lemmas.NodeSkip
import Dtn7.Lemmas.NodeFull
import Dtn7.Lemmas.NodeFullDirect
import Dtn7.Gen.C05
import Dtn7.Lemmas.NodeReenable

namespace Dtn7.Props.C05
open Dtn7.Node

/-! ## The tie to the source: expectations about the regenerated facts -/

/-- `a` occurs in `l` as a (not necessarily contiguous) subsequence. -/
def isSubseq : List String → List String → Bool
  | [], _ => true
  | _ :: _, [] => false
  | a :: as, b :: bs => if a == b then isSubseq as bs else isSubseq (a :: as) bs

theorem gen_no_extraction_failure : Dtn7.Gen.C05.extractionFailures = [] := by decide

/-- The code variant the theorems below are about (`Cfg.seqFirst`, `skipStored`, `expiryNow`, `dtlsrFail`,
`holdFix`): `SendBundle` lets the IdKeeper assign the sequence number before it creates the descriptor (D17
repaired, /repo 9fa781b; `transmit` no longer touches the IdKeeper) and skips the numbers of bundles that
are still stored (/repo 43cf7bc); `calcExpirationDate` counts from now for clock-less bundles (D22
repaired); DTLSR records failures; `dispatching` keeps a refused bundle contraindicated. The driver reads
the same facts. -/
theorem gen_variant :
    Dtn7.Gen.C05.seqAssignedFirst = true ∧ Dtn7.Gen.C05.sendBundleSkipsStored = true ∧
    Dtn7.Gen.C05.transmitAssignsSeq = false ∧
    Dtn7.Gen.C05.expiryCountsFromNow = true ∧ Dtn7.Gen.C05.dtlsrReportsFailure = true ∧
    Dtn7.Gen.C05.dispatchingHoldsRefused = true := by decide

/-- The gate of epidemic routing (`Dtn7.Node.dispatchingAllowed`, `epiLocal`, `epiDirect`; `Cfg.gateDirect`):
a bundle for this node passes; a bundle whose destination — the stored `routing/epidemic/destination` — is
a directly connected peer passes (the Core serves it itself); only then the sent list decides, and a refused
bundle is marked pending. `NotifyNewBundle` (`epiNotify`) writes the destination property when it is absent,
from the bundle's primary block, before it looks at the previous node. -/
theorem gen_epidemic_gate :
    Dtn7.Gen.C05.epidemicGateServesDirect = true ∧
    Dtn7.Gen.C05.epidemicGateSkeleton =
      ["bi, biErr := er.c.store.QueryId(bp.Id)",
       "if biErr != nil",
       "  return true",
       "else if dst, ok := bi.Properties[\"routing/epidemic/destination\"]; ok",
       "  if er.c.HasEndpoint(dst.(bpv7.EndpointID))",
       "    return true",
       "  if len(er.c.senderForDestination(dst.(bpv7.EndpointID))) > 0",
       "    return true",
       "css, _ := er.clasForBundle(bp, false)",
       "if len(css) == 0",
       "  bi.Pending = true",
       "  if err := er.c.store.Update(bi); err != nil",
       "return len(css) > 0"] ∧
    isSubseq
      ["bi, biErr := er.c.store.QueryId(bp.Id)",
       "bndl := bp.MustBundle()",
       "if _, ok := bi.Properties[\"routing/epidemic/destination\"]; !ok",
       "  bi.Properties[\"routing/epidemic/destination\"] = bndl.PrimaryBlock.Destination",
       "  if err := er.c.store.Update(bi); err != nil",
       "if pnBlock, err := bndl.ExtensionBlock(bpv7.ExtBlockTypePreviousNodeBlock); err == nil",
       "bi.Properties[\"routing/epidemic/sent\"] = append(sentEids, prevNode)"]
      Dtn7.Gen.C05.epidemicNotifySkeleton = true := by
  decide

set_option maxRecDepth 16384 in
/-- `SendBundle` and `IdKeeper.updateUnless` (`Dtn7.Node.sendBundle`, `assignSeq`, `idkUpdate`, `idkSkip`):
the first statement assigns the number; the "is this ID stored" question goes to the store; the loop that
takes the next number while the ID is taken sits inside the IdKeeper's lock bracket. -/
theorem gen_send_bundle :
    Dtn7.Gen.C05.sendBundleSkeleton =
      ["c.idKeeper.updateUnless(bndl, func(bid bpv7.BundleID) bool { _, err := c.store.QueryId(bid.Scrub()) return err == nil })",
       "if c.signPriv != nil && bndl.IsAdministrativeRecord()",
       "  c.sendBundleAttachSignature(bndl)",
       "bp := NewBundleDescriptorFromBundle(*bndl, c.store)",
       "c.routing.NotifyNewBundle(bp)",
       "c.transmit(bp)"] ∧
    Dtn7.Gen.C05.updateUnlessSkeleton =
      ["var tpl = newIdTuple(bndl)",
       "idk.mutex.Lock()",
       "if state, ok := idk.data[tpl]; ok",
       "  idk.data[tpl] = state + 1",
       "else",
       "  idk.data[tpl] = 0",
       "idk.used[tpl] = bpv7.DtnTimeNow()",
       "bndl.PrimaryBlock.CreationTimestamp[1] = idk.data[tpl]",
       "for ; taken != nil && taken(bndl.ID());",
       "  idk.data[tpl] = idk.data[tpl] + 1",
       "  bndl.PrimaryBlock.CreationTimestamp[1] = idk.data[tpl]",
       "idk.mutex.Unlock()",
       "if idk.autoClean",
       "  idk.clean()"] := by decide

/-- Call order of the pipeline as `Dtn7.Node.sendBundle / transmit / receive / forward` mirror it. -/
theorem gen_call_order :
    isSubseq ["c.idKeeper.updateUnless", "c.store.QueryId", "NewBundleDescriptorFromBundle", "c.routing.NotifyNewBundle",
        "c.transmit"]
      Dtn7.Gen.C05.sendBundleCalls = true ∧
    isSubseq ["bp.AddConstraint", "bp.Sync", "c.HasEndpoint", "c.bundleDeletion", "c.dispatching"]
      Dtn7.Gen.C05.transmitCalls = true ∧
    Dtn7.Gen.C05.transmitCalls.contains "c.idKeeper.update" = false ∧
    isSubseq ["bp.AddConstraint", "bp.Sync", "c.bundleDeletion", "c.routing.NotifyNewBundle", "c.dispatching"]
      Dtn7.Gen.C05.receiveCalls = true ∧
    isSubseq ["c.routing.DispatchingAllowed", "bp.Bundle", "c.HasEndpoint", "c.localDelivery", "c.forward"]
      Dtn7.Gen.C05.dispatchingCalls = true ∧
    isSubseq ["bp.AddConstraint", "bp.RemoveConstraint", "bp.Sync", "hc.Increment", "c.bundleDeletion",
        "bp.MustBundle().IsLifetimeExceeded", "c.bundleDeletion", "bp.UpdateBundleAge", "c.bundleDeletion",
        "c.senderForDestination", "c.routing.SenderForBundle", "node.Send", "c.routing.ReportFailure", "wg.Wait",
        "bp.PurgeConstraints", "bp.Sync", "c.bundleContraindicated", "c.bundleContraindicated"]
      Dtn7.Gen.C05.forwardCalls = true ∧
    Dtn7.Gen.C05.contraindicatedCalls = ["bp.AddConstraint", "bp.Sync"] ∧
    isSubseq ["bp.PurgeConstraints", "bp.Sync"] Dtn7.Gen.C05.deletionCalls = true ∧
    Dtn7.Gen.C05.checkPendingCalls = ["c.store.QueryPending", "c.dispatching", "NewBundleDescriptor"] ∧
    isSubseq ["bp.AddConstraint", "bp.Sync", "c.agentManager.Deliver", "bp.PurgeConstraints", "bp.Sync"]
      Dtn7.Gen.C05.localDeliveryCalls = true := by decide

set_option maxRecDepth 16384 in
/-- `BundleDescriptor.Sync`: unknown ⇒ push; no constraints ⇒ delete; else
`Pending = ¬ReassemblyPending ∧ (ForwardPending ∨ Contraindicated)` (`Dtn7.Node.sync`, `Cons.pendingRule`). -/
theorem gen_sync_rule :
    Dtn7.Gen.C05.syncSkeleton =
      ["if !descriptor.store.KnowsBundle(descriptor.Id.Scrub())",
       "  return descriptor.store.Push(*descriptor.bndl)",
       "else if bi, err := descriptor.store.QueryId(descriptor.Id.Scrub()); err != nil",
       "  return err",
       "else if len(descriptor.Constraints) == 0",
       "  return descriptor.store.Delete(descriptor.Id)",
       "else",
       "  bi.Pending = !descriptor.HasConstraint(ReassemblyPending_) && (descriptor.HasConstraint(ForwardPending) || descriptor.HasConstraint(Contraindicated))",
       "  bi.Properties[\"bundlepack/receiver\"] = descriptor.Receiver",
       "  bi.Properties[\"bundlepack/timestamp\"] = descriptor.Timestamp",
       "  bi.Properties[\"bundlepack/constraints\"] = descriptor.Constraints",
       "  updateErr := descriptor.store.Update(bi)",
       "  if updateErr != nil",
       "  return updateErr"] ∧
    Dtn7.Gen.C05.purgeSkeleton =
      ["for c := range descriptor.Constraints", "  if c != LocalEndpoint", "    descriptor.RemoveConstraint(c)"] ∧
    Dtn7.Gen.C05.contraindicatedSkeleton = ["bp.AddConstraint(Contraindicated)", "_ = bp.Sync()"] ∧
    Dtn7.Gen.C05.checkPendingSkeleton =
      ["if bis, err := c.store.QueryPending(); err != nil", "else", "  for _, bi := range bis",
       "    c.dispatching(NewBundleDescriptor(bi.BId, c.store))"] := by decide

/-- `Core.dispatching` (`Dtn7.Node.dispatching` with `holdFix`). -/
theorem gen_dispatching :
    Dtn7.Gen.C05.dispatchingSkeleton =
      ["if !c.routing.DispatchingAllowed(bp)", "  c.bundleContraindicated(bp)", "  return",
       "bndl, err := bp.Bundle()", "if err != nil", "  return",
       "if c.HasEndpoint(bndl.PrimaryBlock.Destination)", "  c.localDelivery(bp)", "else", "  c.forward(bp)"] := by
  decide

set_option maxRecDepth 16384 in
/-- `calcExpirationDate` (`Dtn7.Node.calcExpires` with `expiryNow`): creation time zero ⇒ now + (lifetime −
age), else creation time + lifetime. -/
theorem gen_expiry :
    Dtn7.Gen.C05.calcExpirationSkeleton =
      ["lifetime := time.Duration(b.PrimaryBlock.Lifetime) * time.Millisecond",
       "if b.PrimaryBlock.CreationTimestamp.IsZeroTime()",
       "  var age time.Duration",
       "  if bab, err := b.ExtensionBlock(bpv7.ExtBlockTypeBundleAgeBlock); err == nil",
       "    age = time.Duration(bab.Value.(*bpv7.BundleAgeBlock).Age()) * time.Millisecond",
       "  if age > lifetime",
       "    age = lifetime",
       "  return time.Now().Add(lifetime - age)",
       "return b.PrimaryBlock.CreationTimestamp.DtnTime().Time().Add(lifetime)"] := by decide

/-- `DeleteExpired` compares `Expires` with the current time and deletes what it finds. -/
theorem gen_delete_expired :
    isSubseq ["s.bh.Find", "badgerhold.Where().Lt", "time.Now", "s.Delete"] Dtn7.Gen.C05.deleteExpiredCalls = true := by
  decide

/-- The per-peer goroutine of `forward`: `Send`, on error `ReportFailure` (`Dtn7.Node.sendAll`,
`Dtn7.NodeSched`), and the lock discipline of the failure reports: every store access of
`ReportFailure` happens while the mutex is held (`locked = true` in `Dtn7.NodeSched.step`). -/
theorem gen_failure_reports :
    Dtn7.Gen.C05.forwardGoroutine =
      ["if err := node.Send(*bp.MustBundle()); err != nil", "  c.routing.ReportFailure(bp, node)", "else",
       "  once.Do(func() { bundleSent = true })", "wg.Done()"] ∧
    Dtn7.Gen.C05.epidemicReportFailureAccess = ["QueryId:L", "Update:L"] ∧
    Dtn7.Gen.C05.prophetReportFailureAccess = ["QueryId:L", "Update:L"] ∧
    Dtn7.Gen.C05.dtlsrReportFailureAccess = ["QueryId:L", "Update:L"] := by decide

/-! ## The property -/

/-- The variant flags the regenerated facts select (`gen_variant`) are exactly `Cur`. -/
theorem cur_of_gen (c : Cfg)
    (h1 : c.seqFirst = Dtn7.Gen.C05.seqAssignedFirst) (h2 : c.skipStored = Dtn7.Gen.C05.sendBundleSkipsStored)
    (h3 : c.expiryNow = Dtn7.Gen.C05.expiryCountsFromNow) (h4 : c.holdFix = Dtn7.Gen.C05.dispatchingHoldsRefused) :
    Cur c := by
  have g := gen_variant
  exact ⟨by rw [h1]; exact g.1, by rw [h2]; exact g.2.1, by rw [h4]; exact g.2.2.2.2.2, by rw [h3]; exact g.2.2.2.1⟩

/-- **Retention** (`retained_until_sent`, FULL STRENGTH). For the code as it is, for every routing algorithm
(and the sensor-mule wrapper), every environment — every outcome of every `Send`, every iteration order of
the CLA manager, every routing oracle —, every number of peers and EVERY history of {submit, receive,
peer up, peer down, retry tick, clean tick, restart} — any bundles, in particular any number of
submissions with one source and creation time (same millisecond, zero creation time), submissions of a
bundle the node also received, restarts anywhere —: after every event, every bundle that was accepted for
forwarding (submitted with a source of this node, or received under an ID the node did not hold;
destination not this node), whose lifetime has not ended, that is not refused for cause (hop limit,
unknown block demanding deletion) and of which no copy was handed successfully to a convergence layer
yet, is in the store — a submitted bundle under the ID the node assigned to it, this very bundle — and
marked pending. -/
theorem retained_until_sent (c : Cfg) (hc : Cur c) (env : Env) (now : Nat) (h : List Event) :
    firstFail retainedFail c (SpecSt.init now) 0 ((trace env (init c now) h).map obsOf) = none :=
  retained_run_full c hc env h _ _ 0 (rinvF_init c now)

/-- What `Cur` is needed for — the code before the D17 repair (`seqFirst = false`): two submissions with one
source, creation time and sequence number 0 share a store key; the second bundle is sent from memory to
the peers that happen to be there and is never stored. -/
theorem same_ms_lost_witness :
    let c : Cfg := { self := 1, algo := .epidemic, mule := false, sensorNodes := [], sprayL := 3, bcast := ⟨999, 0⟩,
                     seqFirst := false, skipStored := false, expiryNow := true, dtlsrFail := true, holdFix := true }
    let env : Env := { sendOk := fun _ _ _ => true, prefer := fun _ _ => [], cand := fun _ _ => false }
    let b1 : Bundle := { tag := 1, src := ⟨1, 0⟩, ts := 900, seq := 0, dst := ⟨5, 0⟩, prev := none, lifetime := 3600,
                         hop := none, age := none, delBlock := false, bsCopies := none }
    let b2 : Bundle := { b1 with tag := 2, dst := ⟨6, 0⟩ }
    firstFail retainedFail c (SpecSt.init 1000) 0
      ((trace env (init c 1000) [.submit b1, .submit b2]).map obsOf) = some (1, "retained-lost-same-id-submit") := by
  decide

/-- … and the same history is fine once the sequence number is assigned first (the model of the repaired
`SendBundle`). -/
theorem same_ms_not_lost_example :
    let c : Cfg := { self := 1, algo := .epidemic, mule := false, sensorNodes := [], sprayL := 3, bcast := ⟨999, 0⟩,
                     seqFirst := true, skipStored := false, expiryNow := true, dtlsrFail := true, holdFix := true }
    let env : Env := { sendOk := fun _ _ _ => true, prefer := fun _ _ => [], cand := fun _ _ => false }
    let b1 : Bundle := { tag := 1, src := ⟨1, 0⟩, ts := 900, seq := 0, dst := ⟨5, 0⟩, prev := none, lifetime := 3600,
                         hop := none, age := none, delBlock := false, bsCopies := none }
    let b2 : Bundle := { b1 with tag := 2, dst := ⟨6, 0⟩ }
    firstFail retainedFail c (SpecSt.init 1000) 0
      ((trace env (init c 1000) [.submit b1, .submit b2, .retryTick]).map obsOf) = none := by
  decide

/-- The code before the repair of `Core.dispatching` (`holdFix = false`): the third reception of a bundle
that waits under epidemic routing clears its pending flag — it is never retried again. -/
theorem hold_witness :
    let c : Cfg := { self := 1, algo := .epidemic, mule := false, sensorNodes := [], sprayL := 3, bcast := ⟨999, 0⟩,
                     seqFirst := false, skipStored := false, expiryNow := true, dtlsrFail := true, holdFix := false }
    let env : Env := { sendOk := fun _ _ _ => true, prefer := fun _ _ => [], cand := fun _ _ => false }
    let b : Bundle := { tag := 2, src := ⟨7, 0⟩, ts := 900, seq := 0, dst := ⟨5, 0⟩, prev := some ⟨2, 0⟩,
                        lifetime := 3600, hop := none, age := none, delBlock := false, bsCopies := none }
    firstFail retainedFail c (SpecSt.init 1000) 0
      ((trace env (init c 1000) [.receive b none, .receive b none, .receive b none]).map obsOf)
      = some (2, "retained-not-pending") := by
  decide

/-- **Direct delivery** (`direct_when_connected`, every history, FULL STRENGTH). For the code as it is — the
gate of epidemic routing lets a bundle through whose destination is a connected peer (`gen_epidemic_gate`) —
for every algorithm, environment and history: after `peerUp` and after `retryTick` every waiting bundle whose
destination node is a connected peer was handed to every CLA of that peer. The proof needs the invariant that
every stored item carries `routing/epidemic/destination` = the destination of the stored bundle
(`Dtn7.Node.epiOk_step`), which holds because `SendBundle` files a bundle under a free ID. -/
theorem direct_when_connected (c : Cfg) (hc : Cur c) (hg : c.gateDirect = Dtn7.Gen.C05.epidemicGateServesDirect)
    (env : Env) (now : Nat) (h : List Event) :
    firstFail directFail c (SpecSt.init now) 0 ((trace env (init c now) h).map obsOf) = none :=
  (clauses_run c hc env h _ _ 0 (rinvF_init c now) (fun _ _ _ hget => by cases hget)).2.2
    (by rw [hg]; exact gen_epidemic_gate.1)

/-- The gate before the repair (`gateDirect = false`): the closed gate was the ONLY way a waiting bundle
could miss its connected destination (`direct-not-sent` proper never happens, for any variant of the gate) … -/
theorem direct_when_connected_partial (c : Cfg) (hc : Cur c) (env : Env) (now : Nat) (h : List Event) (j : Nat) :
    firstFail directFail c (SpecSt.init now) 0 ((trace env (init c now) h).map obsOf)
      ≠ some (j, "direct-not-sent") :=
  (clauses_run c hc env h _ _ 0 (rinvF_init c now) (fun _ _ _ hget => by cases hget)).2.1 j

/-- … and it did happen: a bundle that came from its destination was not dispatched while only that peer was
connected (the code before the repair of the gate; reproduced against the real code before the repair). -/
theorem direct_gate_witness :
    let c : Cfg := { self := 1, algo := .epidemic, mule := false, sensorNodes := [], sprayL := 3, bcast := ⟨999, 0⟩,
                     seqFirst := true, skipStored := true, expiryNow := true, dtlsrFail := true, holdFix := true,
                     gateDirect := false }
    let env : Env := { sendOk := fun _ _ _ => true, prefer := fun _ _ => [], cand := fun _ _ => false }
    let b : Bundle := { tag := 2, src := ⟨7, 0⟩, ts := 900, seq := 0, dst := ⟨2, 1⟩, prev := some ⟨2, 0⟩,
                        lifetime := 3600, hop := none, age := none, delBlock := false, bsCopies := none }
    firstFail directFail c (SpecSt.init 1000) 0
      ((trace env (init c 1000) [.receive b none, .peerUp ⟨1, ⟨2, 0⟩⟩]).map obsOf)
      = some (1, "direct-not-sent-all-peers-in-sent-list") := by
  decide

/-- The same history with the repaired gate: the bundle is handed to its destination, and leaves the store. -/
theorem direct_gate_repaired_example :
    let c : Cfg := { self := 1, algo := .epidemic, mule := false, sensorNodes := [], sprayL := 3, bcast := ⟨999, 0⟩,
                     seqFirst := true, skipStored := true, expiryNow := true, dtlsrFail := true, holdFix := true,
                     gateDirect := true }
    let env : Env := { sendOk := fun _ _ _ => true, prefer := fun _ _ => [], cand := fun _ _ => false }
    let b : Bundle := { tag := 2, src := ⟨7, 0⟩, ts := 900, seq := 0, dst := ⟨2, 1⟩, prev := some ⟨2, 0⟩,
                        lifetime := 3600, hop := none, age := none, delBlock := false, bsCopies := none }
    (trace env (init c 1000) [.receive b none, .peerUp ⟨1, ⟨2, 0⟩⟩]).map (fun x => x.2.1)
      = [[], [.sent ⟨1, ⟨2, 0⟩⟩ b true, .deleted b.key]] := by
  decide

/-- **Epidemic flooding** (`epidemic_floods`, every history) and the store part of **restart survival**:
under plain epidemic routing, after `peerUp p` every waiting bundle whose sent list does not contain `p`
(and whose destination is not connected) was handed to `p`; a restart leaves the store as it was. -/
theorem epidemic_floods (c : Cfg) (hc : Cur c) (env : Env) (now : Nat) (h : List Event) :
    firstFail (fun c s o => (floodFail c s o).orElse fun _ => restartFail s o) c (SpecSt.init now) 0
      ((trace env (init c now) h).map obsOf) = none :=
  (clauses_run c hc env h _ _ 0 (rinvF_init c now) (fun _ _ _ hget => by cases hget)).1

/-- **Across restarts** (`survives_restart`): the statements above are about all histories, in particular
those with restarts anywhere; a restart keeps the store and drops what lives in memory (IdKeeper, spray
bookkeeping, peers). -/
theorem survives_restart (c : Cfg) (hc : Cur c) (env : Env) (now : Nat) (h₁ h₂ : List Event) :
    firstFail retainedFail c (SpecSt.init now) 0
      ((trace env (init c now) (h₁ ++ [.restart] ++ h₂)).map obsOf) = none ∧
    firstFail (fun c s o => (floodFail c s o).orElse fun _ => restartFail s o) c (SpecSt.init now) 0
      ((trace env (init c now) (h₁ ++ [.restart] ++ h₂)).map obsOf) = none :=
  ⟨retained_until_sent c hc env now _, epidemic_floods c hc env now _⟩

theorem restart_keeps_store (env : Env) (n : Node) :
    (step env n .restart).1.store = n.store ∧ (step env n .restart).1.peers = [] ∧
    (step env n .restart).1.spray = [] ∧ (step env n .restart).1.idk = [] := ⟨rfl, rfl, rfl, rfl⟩

/-- **Clock-less bundles** (`zero_time_not_swept`): `retained_until_sent` covers bundles with
creation time 0 and an age block (their lifetime is counted from the reception); the expiry the store
computes does not end before it. -/
theorem zero_time_not_swept (c : Cfg) (hexp : c.expiryNow = true) (t at_ : Nat) (b : Bundle)
    (hlife : lifetimeOk t at_ b = true) : ¬ calcExpires c at_ b < t :=
  calcExpires_ok c hexp t at_ b hlife

/-- The original `calcExpirationDate` (`expiryNow = false`, D22): the first `clean_store` run deletes a
clock-less bundle whose lifetime has days to go. -/
theorem zero_time_swept_witness :
    let c : Cfg := { self := 1, algo := .epidemic, mule := false, sensorNodes := [], sprayL := 3, bcast := ⟨999, 0⟩,
                     seqFirst := false, skipStored := false, expiryNow := false, dtlsrFail := true, holdFix := true }
    let env : Env := { sendOk := fun _ _ _ => true, prefer := fun _ _ => [], cand := fun _ _ => false }
    let b : Bundle := { tag := 1, src := ⟨7, 0⟩, ts := 0, seq := 0, dst := ⟨5, 0⟩, prev := none, lifetime := 604800000,
                        hop := none, age := some 1000, delBlock := false, bsCopies := none }
    firstFail retainedFail c (SpecSt.init 1000000000) 0
      ((trace env (init c 1000000000) [.receive b none, .cleanTick 1000000000]).map obsOf)
      = some (1, "retained-lost-zero-time-clean") := by
  decide

/-- **Every submission, in every state** (`submit_retained_any_state`): for the code as it is (sequence
number first, stored numbers skipped, refused dispatching holds the bundle) and EVERY node state — any
store, any IdKeeper state, in particular the empty IdKeeper after a restart while bundles numbered before
the restart still wait — a submitted bundle (source of this node, destination elsewhere, not refused
for cause) is, after `SendBundle`, either handed successfully to a convergence layer or in the store under
the ID the node assigned to it, marked pending, with the expiry of its lifetime. This is the step of
`retained_until_sent` for a submission, stated for an arbitrary state (also one no history reaches). -/
theorem submit_retained_any_state (env : Env) (b : Bundle) (n : Node) (hfix : n.cfg.holdFix = true)
    (hseq : n.cfg.seqFirst = true) (hskip : n.cfg.skipStored = true)
    (hsrc : hasEndpoint n.cfg b.src = true) (hf : forwardable n.now b) (hdst : hasEndpoint n.cfg b.dst = false) :
    OkSent (sendBundle env b n).2 (assignSeq b n).1 ∨
      Holds (sendBundle env b n).1 (assignSeq b n).1 (calcExpires n.cfg n.now (assignSeq b n).1) :=
  sendBundle_kept_any env b n hfix hseq hskip hsrc hf hdst

/-- **The ID the node assigns is free** (`assigned_id_is_free`): for every store and every IdKeeper state
the loop of `SendBundle`/`IdKeeper.updateUnless` ends — within `store.length + 1` rounds — at a sequence
number whose bundle ID is not in the store; only the sequence number of the bundle and the IdKeeper
change. -/
theorem assigned_id_is_free (b : Bundle) (n : Node) (hskip : n.cfg.skipStored = true) :
    (∃ q, (assignSeq b n).1 = { b with seq := q }) ∧ (∃ x, (assignSeq b n).2 = n.setIdk x) ∧
    n.store.get (assignSeq b n).1.key = none :=
  assignSeq_free b n hskip

/-- The code before /repo 43cf7bc (`skipStored = false`): a clock-less application submits a bundle that
has to wait, the node restarts (the IdKeeper starts from 0 again), the application submits another
bundle: it gets the ID of the first one, is never stored, and is lost. -/
theorem restart_same_id_lost_witness :
    let c : Cfg := { self := 1, algo := .epidemic, mule := false, sensorNodes := [], sprayL := 3, bcast := ⟨999, 0⟩,
                     seqFirst := true, skipStored := false, expiryNow := true, dtlsrFail := true, holdFix := true }
    let env : Env := { sendOk := fun _ _ _ => true, prefer := fun _ _ => [], cand := fun _ _ => false }
    let b1 : Bundle := { tag := 1, src := ⟨1, 0⟩, ts := 0, seq := 0, dst := ⟨5, 0⟩, prev := none, lifetime := 3600000,
                         hop := none, age := some 0, delBlock := false, bsCopies := none }
    let b2 : Bundle := { b1 with tag := 2, dst := ⟨6, 0⟩ }
    firstFail retainedFail c (SpecSt.init 1000) 0
      ((trace env (init c 1000) [.submit b1, .restart, .submit b2]).map obsOf)
      = some (2, "retained-lost-same-id-submit") := by
  decide

/-- … and with the repaired code both bundles wait in the store, under the numbers 0 and 1. -/
theorem restart_same_id_kept_example :
    let c : Cfg := { self := 1, algo := .epidemic, mule := false, sensorNodes := [], sprayL := 3, bcast := ⟨999, 0⟩,
                     seqFirst := true, skipStored := true, expiryNow := true, dtlsrFail := true, holdFix := true }
    let env : Env := { sendOk := fun _ _ _ => true, prefer := fun _ _ => [], cand := fun _ _ => false }
    let b1 : Bundle := { tag := 1, src := ⟨1, 0⟩, ts := 0, seq := 0, dst := ⟨5, 0⟩, prev := none, lifetime := 3600000,
                         hop := none, age := some 0, delBlock := false, bsCopies := none }
    let b2 : Bundle := { b1 with tag := 2, dst := ⟨6, 0⟩ }
    let tr := (trace env (init c 1000) [.submit b1, .restart, .submit b2, .retryTick]).map obsOf
    firstFail retainedFail c (SpecSt.init 1000) 0 tr = none ∧
    (tr.map fun o => o.view.items.map fun i => (i.key.seq, i.bundle.tag, i.pending))
      = [[(0, 1, true)], [(0, 1, true)], [(0, 1, true), (1, 2, true)], [(0, 1, true), (1, 2, true)]] := by
  decide

/-- **Known finding: a number that left the store before a restart is handed out again.** (C14, class `same-id-on-wire-…-number-of-a-bundle-delivered-before-the-restart`.) With the code as it is:
b0 waits (#0), the destination of b1 connects, b1 (#1) is delivered and deleted, the peer leaves, b2 waits
(#2), the node restarts, b3 is submitted and gets #1 — the number b1 left the node with — and when a peer
appears, b3 leaves under the ID of b1. -/
theorem wire_id_reused_after_restart_witness :
    let c : Cfg := { self := 1, algo := .epidemic, mule := false, sensorNodes := [], sprayL := 3, bcast := ⟨999, 0⟩,
                     seqFirst := true, skipStored := true, expiryNow := true, dtlsrFail := true, holdFix := true }
    let env : Env := { sendOk := fun _ _ _ => true, prefer := fun _ _ => [], cand := fun _ _ => false }
    let b0 : Bundle := { tag := 10, src := ⟨1, 0⟩, ts := 0, seq := 0, dst := ⟨9, 0⟩, prev := none,
                         lifetime := 3600000, hop := none, age := some 0, delBlock := false, bsCopies := none }
    let b1 : Bundle := { b0 with tag := 11, dst := ⟨2, 5⟩ }
    let b2 : Bundle := { b0 with tag := 12 }
    let b3 : Bundle := { b0 with tag := 13 }
    let tr := trace env (init c 1000)
      [.submit b0, .peerUp ⟨1, ⟨2, 0⟩⟩, .submit b1, .peerDown 1, .submit b2, .restart, .submit b3, .peerUp ⟨2, ⟨3, 0⟩⟩]
    -- (tag, sequence number) of every transmission, in order
    (tr.flatMap fun t => t.2.1.filterMap fun o => match o with
      | .sent _ b _ => some (b.tag, b.seq) | _ => none)
      = [(10, 0), (11, 1), (10, 0), (12, 2), (13, 1)] := by
  decide

/-- **Marked for retry while a transmission is in progress** (`pending_while_transmitting`, the crash-point
part of the property): when `forward` starts to transmit a stored bundle, the stored record is marked
pending, and it stays so whichever of the per-peer goroutines (`Send`; on failure `ReportFailure`) have
run so far, in whatever order (`ps` is an arbitrary list of peers, the environment's answers are
arbitrary). A process that is stopped or dies inside a `Send` finds the bundle pending at its next start
(`restart_keeps_store`). The driver judges the same on the implementation's record read inside `Send`
(`MID` lines). -/
theorem pending_while_transmitting (env : Env) (d : Desc) (b : Bundle) (n : Node) (it : Item)
    (hg : n.store.get d.key = some it) (hrp : d.cons.rp = false) (ps : List Peer) :
    ∃ it', (sendAll env (forwardMidDesc env d b n) b ps (forwardMid env d b n)).1.store.get d.key = some it' ∧
      it'.pending = true ∧ it'.bundle = it.bundle ∧ it'.expires = it.expires :=
  pending_while_sending env d b n it hg hrp ps

/-- **A peer that appears while another run of the pending-bundles job is busy** (`direct_during_another_run`):
`checkPendingBundles` is a function of the state it finds. In EVERY well-formed state — in particular one
in which another `forward` has synced its bundle and some of its per-peer goroutines have run
(`sendAll … (forwardMid …)`) — a waiting bundle whose destination node is connected is handed to that peer
(under epidemic routing: when the gate lets it through — the item names its destination, as every stored item
does at event boundaries, `epiOk_step`, or some connected peer is not in its sent list). The driver judges the same on the
implementation with one run blocked inside a `Send` (`OVL` lines). -/
theorem direct_during_another_run (env env' : Env) (d : Desc) (b : Bundle) (n : Node) (w : WF n)
    (hbk : ∀ b', d.bndl = some b' → b'.key = d.key) (ps : List Peer)
    (hn : (n.peers.map (·.addr)).Nodup) (k : Key) (it : Item) (c : Cfg) (hc : n.cfg = c) (p : Peer) :
    let m := (sendAll env (forwardMidDesc env d b n) b ps (forwardMid env d b n)).1
    m.store.get k = some it → isWaiting c m.now (itemView (k, it)) = true → p ∈ m.peers →
    p.eid.sameNode it.bundle.dst = true →
    (m.cfg.algo ≠ .epidemic ∨ (m.cfg.gateDirect = true ∧ it.rt.epiDst = some it.bundle.dst) ∨
      ∃ q ∈ m.peers, it.rt.sentE.contains q.eid = false) →
    sentIn (checkPending env' m).2 p.addr it.bundle.tag = true := by
  intro m hg hw hp hs hgate
  -- the state in the middle of the other run is well-formed and has the same peers and configuration
  have hD : ∀ b', ({ d with cons := { d.cons with fp := true, dp := false } } : Desc).bndl = some b' →
      b'.key = ({ d with cons := { d.cons with fp := true, dp := false } } : Desc).key := hbk
  have k1 := sync_kstep { d with cons := { d.cons with fp := true, dp := false } } n hD
  have k2 := (selectSenders_rt env { d with cons := { d.cons with fp := true, dp := false } } b
    (sync { d with cons := { d.cons with fp := true, dp := false } } n)).kstep
  have k3 := (sendAll_rt env (forwardMidDesc env d b n) b ps (forwardMid env d b n)).kstep
  have wm : WF m := k3.wf (k2.wf (k1.wf w))
  have hpe : m.peers = n.peers := by
    have e3 := k3.only.env.peers
    have e2 := k2.only.env.peers
    have e1 := k1.only.env.peers
    exact e3.trans (e2.trans e1)
  have hce : m.cfg = n.cfg := (k3.only.env.cfg).trans ((k2.only.env.cfg).trans k1.only.env.cfg)
  exact checkPending_direct env' m wm (by rw [hpe]; exact hn) k it hg c (hce.trans hc) hw p hp hs hgate

/-- **A peer whose transmission failed is offered the bundle again** (`failed_peer_leaves_sent_list`, epidemic
routing, one `forward`, any number of chosen peers, any outcomes): after the per-peer transmissions every peer
whose `Send` failed is out of the bundle's sent list — also when other transmissions of the same attempt
succeeded —, every other entry is still there and nothing was added. So the next `peerUp`/retry offers the
bundle to exactly the peers that do not have it (`epidemic_floods` reads the list). The driver judges the same
on the implementation after every event (`c05FailX`). -/
theorem failed_peer_leaves_sent_list (env : Env) (d : Desc) (b : Bundle) (ps : List Peer) (n : Node) (it : Item)
    (ha : n.cfg.algo = .epidemic) (hg : n.store.get d.key = some it) (hn : it.rt.sentE.Nodup) :
    ∃ it', (sendAll env d b ps n).1.store.get d.key = some it' ∧ it'.rt.sentE.Nodup ∧
      (∀ p, Output.sent p b false ∈ (sendAll env d b ps n).2.1 → p.eid ∉ it'.rt.sentE) ∧
      (∀ e ∈ it.rt.sentE, (∀ p, Output.sent p b false ∈ (sendAll env d b ps n).2.1 → p.eid ≠ e) → e ∈ it'.rt.sentE) ∧
      (∀ e ∈ it'.rt.sentE, e ∈ it.rt.sentE) :=
  sendAll_failed_unlisted env d b ps n it ha hg hn

/-- Not vacuous: peers 2.0 (succeeds) and 3.0 (fails) were both entered by `filterCLAs`; afterwards 3.0 is out. -/
example :
    let c : Cfg := { self := 1, algo := .epidemic, mule := false, sensorNodes := [], sprayL := 3, bcast := ⟨999, 0⟩,
                     seqFirst := true, skipStored := true, expiryNow := true, dtlsrFail := true, holdFix := true,
                     gateDirect := true }
    let env : Env := { sendOk := fun a _ _ => a == 1, prefer := fun _ _ => [], cand := fun _ _ => false }
    let b : Bundle := { tag := 1, src := ⟨1, 0⟩, ts := 900, seq := 0, dst := ⟨5, 0⟩, prev := none, lifetime := 3600,
                        hop := none, age := none, delBlock := false, bsCopies := none }
    let n := (run env (init c 1000) [.peerUp ⟨1, ⟨2, 0⟩⟩, .peerUp ⟨2, ⟨3, 0⟩⟩, .submit b])
    (n.store.get ⟨⟨1, 0⟩, 900, 0⟩).map (·.rt.sentE) = some [⟨2, 0⟩] := by
  decide

/-- **Concurrent failures** (`concurrent_failures_both_recorded`): with the mutex, for every number of
failing transmissions and EVERY schedule of the failure reports' micro-steps: once all reports are done,
no failed peer is left in the sent list and nothing else was removed. -/
theorem concurrent_failures_both_recorded (sent failed : List Eid) (h0 : sent.Nodup) (σ : List Nat)
    (hd : NodeSched.allDone (NodeSched.run true (NodeSched.start true sent failed) σ) = true) :
    (∀ e ∈ failed, e ∉ (NodeSched.run true (NodeSched.start true sent failed) σ).sent) ∧
    (∀ x ∈ sent, x ∉ failed → x ∈ (NodeSched.run true (NodeSched.start true sent failed) σ).sent) :=
  NodeSched.locked_all_recorded sent failed h0 σ hd

/-- Without the mutex (the original code, D25) the schedule read₁ read₂ write₁ write₂ loses the first
removal: peer `2.0` stays in the sent list although its transmission failed. -/
theorem concurrent_failures_lost_witness :
    let s := NodeSched.run false (NodeSched.start false [⟨9, 0⟩, ⟨2, 0⟩, ⟨3, 0⟩] [⟨2, 0⟩, ⟨3, 0⟩]) [0, 1, 0, 1]
    NodeSched.allDone s = true ∧ s.sent = [⟨9, 0⟩, ⟨2, 0⟩] := by
  decide

/-! ## Non-vacuity -/

private def ex_b1 : Bundle :=
  { tag := 1, src := ⟨1, 0⟩, ts := 900, seq := 0, dst := ⟨5, 0⟩, prev := none, lifetime := 3600,
    hop := none, age := none, delBlock := false, bsCopies := none }
private def ex_b2 : Bundle :=
  { tag := 2, src := ⟨7, 0⟩, ts := 0, seq := 0, dst := ⟨3, 1⟩, prev := some ⟨2, 0⟩, lifetime := 604800000,
    hop := some (8, 2), age := some 1000, delBlock := false, bsCopies := none }

/-- `Cur` is satisfiable: the configuration the driver builds from the regenerated facts. -/
private def ex_cfg : Cfg :=
  { self := 1, algo := .epidemic, mule := false, sensorNodes := [], sprayL := 3, bcast := ⟨999, 0⟩,
    seqFirst := true, skipStored := true, expiryNow := true, dtlsrFail := true, holdFix := true }
example : Cur ex_cfg := ⟨rfl, rfl, rfl, rfl⟩

/-- Obligations exist (the clauses are not vacuous): in this history — submissions, receptions (twice the
same ID), peers, a failure-prone environment, ticks and a restart — after the second event two bundles
wait, pending, and the direct delivery to node 3 happens when it connects. -/
example :
    let c : Cfg := { self := 1, algo := .epidemic, mule := false, sensorNodes := [], sprayL := 3, bcast := ⟨999, 0⟩,
                     seqFirst := false, skipStored := false, expiryNow := true, dtlsrFail := true, holdFix := true }
    let env : Env := { sendOk := fun a _ n => a == 2 && n == 1, prefer := fun _ _ => [], cand := fun _ _ => false }
    let tr := (trace env (init c 1000) [.submit ex_b1, .receive ex_b2 none, .receive ex_b2 none,
      .peerUp ⟨1, ⟨2, 0⟩⟩, .retryTick, .cleanTick 2000, .restart, .peerUp ⟨2, ⟨3, 0⟩⟩, .retryTick]).map obsOf
    (tr.map fun o => (o.view.items.map fun i => (i.bundle.tag, i.pending), o.outs.length))
      = [([(1, true)], 0), ([(1, true), (2, true)], 0), ([(1, true), (2, true)], 0),
         ([(1, true), (2, true)], 1), ([(1, true), (2, true)], 1), ([(1, true), (2, true)], 0),
         ([(1, true), (2, true)], 0), ([(1, true), (2, true)], 2), ([(1, true)], 3)] := by
  decide

/-- The hypotheses of `submit_retained_any_state` hold in a state reached by a restart with a waiting
bundle of the same source and creation time, and the assigned number is 1. -/
example :
    let c : Cfg := { self := 1, algo := .epidemic, mule := false, sensorNodes := [], sprayL := 3, bcast := ⟨999, 0⟩,
                     seqFirst := true, skipStored := true, expiryNow := true, dtlsrFail := true, holdFix := true }
    let env : Env := { sendOk := fun _ _ _ => true, prefer := fun _ _ => [], cand := fun _ _ => false }
    let n := run env (init c 1000) [.submit ex_b1, .restart]
    n.cfg.holdFix = true ∧ n.cfg.seqFirst = true ∧ n.cfg.skipStored = true ∧ hasEndpoint n.cfg ex_b1.src = true ∧
    hopExceeded ex_b1 = false ∧ lifetimeExceeded n.now ex_b1 = false ∧ ageExpired ex_b1 = false ∧
    hasEndpoint n.cfg ex_b1.dst = false ∧ (assignSeq ex_b1 n).1.seq = 1 ∧ n.idk = [] ∧ n.store.length = 1 := by
  decide

/-- `pending_while_transmitting` is not vacuous: a waiting bundle, a peer appears, and in the middle of the
retry (after one failing `Send`) the record is pending. -/
example :
    let c : Cfg := { self := 1, algo := .epidemic, mule := false, sensorNodes := [], sprayL := 3, bcast := ⟨999, 0⟩,
                     seqFirst := true, skipStored := true, expiryNow := true, dtlsrFail := true, holdFix := true }
    let env : Env := { sendOk := fun _ _ _ => false, prefer := fun _ _ => [], cand := fun _ _ => false }
    let n := run env (init c 1000) [.submit ex_b1, .peerUp ⟨1, ⟨2, 0⟩⟩]
    let d := newDesc n ex_b1.key
    (n.store.get d.key).isSome = true ∧ d.cons.rp = false ∧
    ((sendAll env (forwardMidDesc env d ex_b1 n) ex_b1 [⟨1, ⟨2, 0⟩⟩] (forwardMid env d ex_b1 n)).1.store.get d.key).map
      (fun i => (i.pending, i.rt.sentE)) = some (true, []) := by
  decide

example : lifetimeOk 2000 1000 ex_b2 = true := by decide
example : NodeSched.allDone (NodeSched.run true (NodeSched.start true [⟨2, 0⟩, ⟨3, 0⟩] [⟨2, 0⟩, ⟨3, 0⟩])
    [0, 1, 0, 0, 1, 0, 1, 1, 1, 1]) = true := by decide

end Dtn7.Props.C05
