/-
C13 — a bundle is never sent back to where it came from, nor twice to the same peer.
Property theorems only; the proofs live in `Dtn7.Lemmas.NodeC13` (choice / bookkeeping functions of every
algorithm for any number of peers) and `Dtn7.Lemmas.NodeBook` (the invariants along every history).
The Spec predicates are the ones the driver `drv_c13` evaluates on the implementation's observations.
-/
import Dtn7.Model.Node
import Dtn7.Model.NodeSpec
import Dtn7.Lemmas.NodeC13
import Dtn7.Lemmas.NodeBook
import Dtn7.Lemmas.NodeDup
import Dtn7.Lemmas.NodeBookAny
import Dtn7.Lemmas.NodeDupAny
import Dtn7.Gen.C13

namespace Dtn7.Props.C13
open Dtn7.Node

/-! ## The tie to the source -/

def isSubseq : List String → List String → Bool
  | [], _ => true
  | _ :: _, [] => false
  | a :: as, b :: bs => if a == b then isSubseq as bs else isSubseq (a :: as) bs

theorem gen_no_extraction_failure : Dtn7.Gen.C13.extractionFailures = [] := by decide

/-- The code variant (see `Dtn7.Props.C05.gen_variant`). -/
theorem gen_variant :
    Dtn7.Gen.C13.seqAssignedFirst = true ∧ Dtn7.Gen.C13.sendBundleSkipsStored = true ∧
    Dtn7.Gen.C13.expiryCountsFromNow = true ∧
    Dtn7.Gen.C13.dtlsrReportsFailure = true ∧ Dtn7.Gen.C13.dispatchingHoldsRefused = true := by decide

set_option maxRecDepth 16384 in
/-- `filterCLAs` compares endpoint IDs with `==` (Go struct equality, `Eid` equality in the model — not
`SameNode`), skips listed peers and appends the chosen ones (`Dtn7.Node.filterCLAs`). -/
theorem gen_filterCLAs :
    Dtn7.Gen.C13.filterCLAsSkeleton =
      ["filtered = make([]cla.ConvergenceSender, 0)",
       "sentEids, ok := bundleItem.Properties[\"routing/\"+algorithm+\"/sent\"].([]bpv7.EndpointID)",
       "if !ok", "  sentEids = make([]bpv7.EndpointID, 0)",
       "for _, cs := range clas", "  skip := false", "  for _, eid := range sentEids",
       "    if cs.GetPeerEndpointID() == eid", "      skip = true", "      break",
       "  if !skip", "    filtered = append(filtered, cs)",
       "    sentEids = append(sentEids, cs.GetPeerEndpointID())", "return"] := by decide

/-- `forward` asks `senderForDestination` first and the algorithm only if nobody is found; the per-peer
goroutine reports a failed `Send` to the algorithm. -/
theorem gen_forward :
    isSubseq ["c.senderForDestination", "c.routing.SenderForBundle", "node.Send", "c.routing.ReportFailure", "wg.Wait"]
      Dtn7.Gen.C13.forwardCalls = true ∧
    Dtn7.Gen.C13.forwardGoroutine =
      ["if err := node.Send(*bp.MustBundle()); err != nil", "  c.routing.ReportFailure(bp, node)", "else",
       "  once.Do(func() { bundleSent = true })", "wg.Done()"] := by decide

/-- Epidemic routing: `NotifyNewBundle` reads the item, records the previous node and writes the item;
`clasForBundle` = `QueryId · filterCLAs(Sender()) · Update`. -/
theorem gen_epidemic :
    isSubseq ["er.c.store.QueryId", "bndl.ExtensionBlock", "pnBlock.Value.Endpoint", "append", "er.c.store.Update"]
      Dtn7.Gen.C13.epidemicNotifyCalls = true ∧
    Dtn7.Gen.C13.epidemicClasCalls = ["er.c.store.QueryId", "filterCLAs", "er.c.claManager.Sender", "er.c.store.Update"] := by
  decide

set_option maxRecDepth 16384 in
/-- `ReportFailure` of epidemic routing removes the first occurrence of the failed sender's endpoint ID,
inside the mutex (`Dtn7.Node.reportFailure`, `eraseFirst`); the schedule point of the harness sits between
the read and the write-back. -/
theorem gen_epidemic_failure :
    Dtn7.Gen.C13.epidemicFailureSkeleton =
      ["er.failureMutex.Lock()", "defer er.failureMutex.Unlock()", "bi, biErr := er.c.store.QueryId(bp.Id)",
       "if biErr != nil", "  return",
       "sentEids, ok := bi.Properties[\"routing/epidemic/sent\"].([]bpv7.EndpointID)",
       "if !ok", "  sentEids = make([]bpv7.EndpointID, 0)",
       "verifPoint(\"epidemic.ReportFailure.read\")",
       "for i := 0; i < len(sentEids); i++", "  if sentEids[i] == sender.GetPeerEndpointID()",
       "    sentEids = append(sentEids[:i], sentEids[i+1:]...)", "    break",
       "bi.Properties[\"routing/epidemic/sent\"] = sentEids",
       "if err := er.c.store.Update(bi); err != nil"] ∧
    Dtn7.Gen.C13.epidemicReportFailureAccess = ["QueryId:L", "Update:L"] ∧
    Dtn7.Gen.C13.prophetReportFailureAccess = ["QueryId:L", "Update:L"] ∧
    Dtn7.Gen.C13.dtlsrReportFailureAccess = ["QueryId:L", "Update:L"] := by decide

set_option maxRecDepth 16384 in
/-- Spray-and-wait: the originator gets `Multiplicity` copies and an empty sent list, a relayed bundle one
copy and its previous node (binary spray: the copies of its block, or — without a block — the full budget
for a bundle of this node and one copy plus the previous node for a foreign one); a failure removes the first occurrence of the peer from the sent list and, only
then, gives a copy back (under one lock). -/
theorem gen_spray :
    Dtn7.Gen.C13.sprayNotifySkeleton =
      ["if sw.c.HasEndpoint(bp.MustBundle().PrimaryBlock.SourceNode)",
       "  metadata := sprayMetaData{ sent: make([]bpv7.EndpointID, 0), remainingCopies: sw.l, }",
       "  sw.dataMutex.Lock()", "  sw.bundleData[bp.Id] = metadata", "  sw.dataMutex.Unlock()",
       "else",
       "  metadata := sprayMetaData{ sent: make([]bpv7.EndpointID, 0), remainingCopies: 1, }",
       "  if pnBlock, err := bp.MustBundle().ExtensionBlock(bpv7.ExtBlockTypePreviousNodeBlock); err == nil",
       "    metadata.sent = append(metadata.sent, pnBlock.Value.(*bpv7.PreviousNodeBlock).Endpoint())",
       "  sw.dataMutex.Lock()", "  sw.bundleData[bp.Id] = metadata", "  sw.dataMutex.Unlock()"] ∧
    Dtn7.Gen.C13.binaryNotifySkeleton =
      ["if metadataBlock, err := bp.MustBundle().ExtensionBlock(bpv7.ExtBlockTypeBinarySprayBlock); err == nil",
       "  binarySprayBlock := metadataBlock.Value.(*bpv7.BinarySprayBlock)",
       "  metadata := sprayMetaData{ sent: make([]bpv7.EndpointID, 0), remainingCopies: binarySprayBlock.RemainingCopies(), }",
       "  if pnBlock, err := bp.MustBundle().ExtensionBlock(bpv7.ExtBlockTypePreviousNodeBlock); err == nil",
       "    metadata.sent = append(metadata.sent, pnBlock.Value.(*bpv7.PreviousNodeBlock).Endpoint())",
       "  bs.dataMutex.Lock()", "  bs.bundleData[bp.Id] = metadata", "  bs.dataMutex.Unlock()",
       "else if bs.c.HasEndpoint(bp.MustBundle().PrimaryBlock.SourceNode)",
       "  metadata := sprayMetaData{ sent: make([]bpv7.EndpointID, 0), remainingCopies: bs.l, }",
       "  bs.dataMutex.Lock()", "  bs.bundleData[bp.Id] = metadata", "  bs.dataMutex.Unlock()",
       "else",
       "  metadata := sprayMetaData{ sent: make([]bpv7.EndpointID, 0), remainingCopies: 1, }",
       "  if pnBlock, err := bp.MustBundle().ExtensionBlock(bpv7.ExtBlockTypePreviousNodeBlock); err == nil",
       "    metadata.sent = append(metadata.sent, pnBlock.Value.(*bpv7.PreviousNodeBlock).Endpoint())",
       "  bs.dataMutex.Lock()", "  bs.bundleData[bp.Id] = metadata", "  bs.dataMutex.Unlock()"] ∧
    Dtn7.Gen.C13.sprayFailureSkeleton =
      ["sw.dataMutex.Lock()", "defer sw.dataMutex.Unlock()", "metadata, ok := sw.bundleData[bp.Id]",
       "if !ok", "  return", "verifPoint(\"SprayAndWait.ReportFailure:read\")",
       "for i := 0; i < len(metadata.sent); i++",
       "  if metadata.sent[i] == sender.GetPeerEndpointID()",
       "    metadata.sent = append(metadata.sent[:i], metadata.sent[i+1:]...)",
       "    metadata.remainingCopies = metadata.remainingCopies + 1", "    break",
       "sw.bundleData[bp.Id] = metadata", "verifPoint(\"SprayAndWait.ReportFailure:written\")"] := by decide

set_option maxRecDepth 16384 in
/-- The sensor-mule wrapper (`Dtn7.Node.muleFilter`, `muleDrops`). -/
theorem gen_mule :
    Dtn7.Gen.C13.muleSendersSkeleton =
      ["sender, delete = snm.algorithm.SenderForBundle(bp)",
       "for i := len(sender) - 1; i >= 0; i--",
       "  if !snm.sensorNode.MatchString(sender[i].GetPeerEndpointID().String())", "    continue",
       "  if !sender[i].GetPeerEndpointID().SameNode(bp.Receiver)",
       "    snm.algorithm.ReportFailure(bp, sender[i])",
       "    sender = append(sender[:i], sender[i+1:]...)", "    continue",
       "if delete && len(sender) == 0", "  delete = false", "return"] := by decide

/-! ## Along every history -/

/-- The variant flags the regenerated facts select are `Cur` (as in `Dtn7.Props.C05.cur_of_gen`). -/
theorem cur_of_gen (c : Cfg)
    (h1 : c.seqFirst = Dtn7.Gen.C13.seqAssignedFirst) (h2 : c.skipStored = Dtn7.Gen.C13.sendBundleSkipsStored)
    (h3 : c.expiryNow = Dtn7.Gen.C13.expiryCountsFromNow) (h4 : c.holdFix = Dtn7.Gen.C13.dispatchingHoldsRefused) :
    Cur c := by
  have g := gen_variant
  exact ⟨by rw [h1]; exact g.1, by rw [h2]; exact g.2.1, by rw [h4]; exact g.2.2.2.2, by rw [h3]; exact g.2.2.1⟩

/-- **`never_to_prev_node`** (FULL STRENGTH over histories): for the code as it is, for every routing algorithm
(and the sensor-mule wrapper), every environment, every number of peers and EVERY history — any IDs, any
number of submissions with one source and creation time, resubmissions, restarts anywhere — whose bundles
satisfy `Bundles13` (applications attach no previous-node block; a relayed bundle that names a previous node
satisfies `seedsPrev`: spray — not a bundle of this node; binary spray — carries the BinarySprayBlock or is
not a bundle of this node): no algorithm-chosen transmission goes to the node named in the bundle's
previous-node block. No hypothesis about IDs is left: `SendBundle` files under a free ID
(`assignSeq_free`). -/
theorem never_to_prev_node (c : Cfg) (hc : Cur c) (env : Env) (now : Nat)
    (h : List Event) (hb : Bundles13 c h) :
    firstFail (fun c _ o => returnFail c o) c (SpecSt.init now) 0 ((trace env (init c now) h).map obsOf) = none :=
  prev_run_any c hc env h _ _ 0 hb (rinvF_init c now) (prevInv_init c now)

/-- The same for every variant of the code (also the ones before the repairs of `SendBundle`), on the histories
of `Domain13` (C05's old `Domain` — submissions with pairwise different (source, time), disjoint from the
receptions — plus `Bundles13`). -/
theorem never_to_prev_node_any_variant (c : Cfg) (env : Env) (now : Nat)
    (h : List Event) (hdom : Domain13 c h) :
    firstFail (fun c _ o => returnFail c o) c (SpecSt.init now) 0 ((trace env (init c now) h).map obsOf) = none :=
  prev_run c env h [] _ _ 0 (by simpa using hdom) (rinv_init c now) (prevInv_init c now)

/-- **`never_twice`** (FULL STRENGTH over histories): for the code as it is, for every routing algorithm (and the
sensor-mule wrapper), every environment, every number of peers and EVERY history whose tags tell bundles apart
(`Tags`: two bundles of the history with one tag have one source and creation time — the tag is how the Spec
and the send log name a bundle; any IDs, same-millisecond and resubmitted bundles, restarts anywhere): no
algorithm-chosen transmission of a bundle goes to a peer that already got this bundle (this tag and sequence
number) successfully by the algorithm's choice while the node holds the bundle (`okSent` forgets a bundle
when it leaves the store). The invariant: every remembered success is in the bundle's sent list, the
provenance of the stored bundles up to the sequence number the node assigned (`ProvO`), every stored item
has a retention constraint, every remembered success names a stored item. -/
theorem never_twice (c : Cfg) (hc : Cur c) (env : Env) (now : Nat)
    (h : List Event) (htags : Tags h) :
    firstFail dupFail c (SpecSt.init now) 0 ((trace env (init c now) h).map obsOf) = none :=
  dupO_run c hc env h [] _ _ 0 (by simpa using htags) (rinvF_init c now) (dinvO_init c now)

/-- The same for every variant of the code with `dispatching` repaired, on the histories of `Domain13t`. -/
theorem never_twice_any_variant (c : Cfg) (hfix : c.holdFix = true) (env : Env) (now : Nat)
    (h : List Event) (hdom : Domain13t c h) :
    firstFail dupFail c (SpecSt.init now) 0 ((trace env (init c now) h).map obsOf) = none :=
  dup_run c hfix env h [] _ _ 0 (by simpa using hdom) (rinv_init c now) (dinv_init c now)

/-- The hypotheses are satisfiable by a history the old domain excluded: two submissions of one bundle (one
source, one creation time, one tag), a reception, a restart. -/
example :
    let b : Bundle := { tag := 1, src := ⟨1, 0⟩, ts := 900, seq := 0, dst := ⟨5, 0⟩, prev := none, lifetime := 3600,
                        hop := none, age := none, delBlock := false, bsCopies := none }
    let r : Bundle := { b with tag := 2, src := ⟨7, 0⟩, prev := some ⟨2, 0⟩, bsCopies := some 2 }
    Tags [.submit b, .submit b, .receive r none, .restart, .submit b] ∧
    (∀ c : Cfg, c.self = 1 → Bundles13 c [.submit b, .submit b, .receive r none, .restart, .submit b]) := by
  intro b r
  constructor
  · intro x y hx hy ht
    simp only [evBundle, submitted, received, List.mem_cons, List.not_mem_nil, or_false, List.filterMap_cons,
      List.filterMap_nil] at hx hy
    rcases hx with (hx | hx | hx) | hx <;> rcases hy with (hy | hy | hy) | hy <;> subst hx <;> subst hy <;>
      first | exact ⟨rfl, rfl⟩ | (simp [b, r] at ht)
  · intro c hself
    refine ⟨?_, ?_⟩
    · intro x hx
      simp only [submitted, List.filterMap_cons, List.filterMap_nil, List.mem_cons, List.not_mem_nil, or_false] at hx
      rcases hx with hx | hx | hx <;> subst hx <;> rfl
    · intro x hx
      simp only [received, List.filterMap_cons, List.filterMap_nil, List.mem_cons, List.not_mem_nil, or_false] at hx
      subst hx
      left
      unfold seedsPrev
      cases c.algo <;> simp [r, b, hasEndpoint, hself]

/-- **`never_twice`, the inductive step** (every algorithm, any peers): let `E` be any set of endpoint IDs
that are booked for the bundle (in its sent list) and are not its destination's node — e.g. the peers that
got the bundle successfully before. Then one `forward`
(1) hands the bundle to no peer of `E` by the algorithm's choice,
(2) leaves every member of `E` booked, and
(3) books every peer whose transmission succeeded now.
So the set "previous node + peers served successfully" only grows while the bundle is in the store, and
its members are never chosen again; a member leaves the sent list only by a failure report for exactly
that peer (`failure_reenables_exactly_fn`). -/
theorem never_twice_step (env : Env) (d : Desc) (b : Bundle) (n : Node) (it : Item)
    (hg : n.store.get d.key = some it) (hrep : replicates n.cfg b = true) (E : Eid → Prop)
    (hE : MustStay E b n d.key) :
    (∀ p ok, Output.sent p b ok ∈ (forward env d b n).2 → p.eid.sameNode b.dst = false → ¬ E p.eid) ∧
    (∀ e, E e → Booked (forward env d b n).1 d.key e) ∧
    (∀ p, Output.sent p b true ∈ (forward env d b n).2 → p.eid.sameNode b.dst = false →
      Booked (forward env d b n).1 d.key p.eid) :=
  ⟨(forward_book env d b n it hg hrep E hE).1, (forward_book env d b n it hg hrep E hE).2,
   forward_ok_booked env d b n it hg hrep⟩

/-! ## The choice of every algorithm, for any number of peers -/

/-- **The algorithm never picks a peer that is in the bundle's sent list, and books every peer it picks**
(epidemic, spray, binary spray, PRoPHET, DTLSR broadcast; `n.peers` arbitrary): `sentL` is the list the
algorithm keeps for the bundle. -/
theorem choice_not_listed (env : Env) (d : Desc) (b : Bundle) (n : Node) (hrep : replicates n.cfg b = true) :
    (∀ p ∈ (innerSenders env d b n).1, (sentL n d.key).contains p.eid = false) ∧
    sentL (innerSenders env d b n).2.2.2 d.key = sentL n d.key ++ (innerSenders env d b n).1.map (·.eid) :=
  innerSenders_spec env d b n hrep

/-- **A failure report re-enables exactly that peer** (function level): the first occurrence of the
peer's endpoint ID leaves the list, every other entry stays, nothing is added. -/
theorem failure_reenables_exactly_fn (d : Desc) (p : Peer) (n : Node) :
    sentL (reportFailure d p n) d.key =
      (if rfActive d n then eraseFirst p.eid (sentL n d.key) else sentL n d.key) ∧
    ∀ e, (e ∈ sentL (reportFailure d p n) d.key → e ∈ sentL n d.key) ∧
      (e ∈ sentL n d.key → e ≠ p.eid → e ∈ sentL (reportFailure d p n) d.key) :=
  ⟨reportFailure_sentL d p n, reportFailure_others d p n⟩

/-- A peer the algorithm has just picked and whose transmission failed is out of the list again: it
occurs once (it was not listed before, `choice_not_listed`). -/
theorem failed_choice_is_removed (e : Eid) (l₁ l₂ : List Eid) (h1 : e ∉ l₁) (h2 : e ∉ l₂) :
    e ∉ eraseFirst e (l₁ ++ e :: l₂) :=
  not_mem_eraseFirst_append e l₁ l₂ h1 h2

/-- **`mule_filter_sound`**: the sensor-mule wrapper only removes senders (sensor nodes the bundle was
not received from) and hands every removed sender back to the wrapped algorithm as a failure. -/
theorem mule_filter_sound (d : Desc) (ps : List Peer) (n : Node) :
    (muleFilter d ps n).1 = ps.filter (fun p => !muleDrops n.cfg d p) ∧
    (muleFilter d ps n).2 = (ps.filter (fun p => muleDrops n.cfg d p)).foldr (fun p m => reportFailure d p m) n :=
  muleFilter_sound d ps n

/-- **`spray_restart_silent`**: a restart drops the spray bookkeeping, and without it the spray variants
choose nobody (the safe direction). -/
theorem spray_restart_silent (env env' : Env) (d : Desc) (b : Bundle) (n : Node)
    (ha : n.cfg.algo = .spray ∨ n.cfg.algo = .binarySpray) :
    (innerSenders env' d b (step env n .restart).1).1 = [] :=
  spray_silent env' d b _ ha rfl

/-- **`sent_list_survives_restart`**: the lists kept in the store are untouched by a restart. -/
theorem sent_list_survives_restart (env : Env) (n : Node) (k : Key)
    (ha : n.cfg.algo = .epidemic ∨ n.cfg.algo = .prophet ∨ n.cfg.algo = .dtlsr) :
    sentL (step env n .restart).1 k = sentL n k := by
  rcases ha with ha | ha | ha <;> simp [sentL, step, stepCore, ha]

/-- The spray budget: with `c` copies at most `c − 1` peers are picked, one copy each. -/
theorem spray_budget (m : SprayMeta) (ps : List Peer) :
    (sprayPick m ps).1.length + 1 ≤ max m.copies 1 ∧
    (sprayPick m ps).2.copies + (sprayPick m ps).1.length = m.copies :=
  sprayPick_budget m ps

/-- The original `DTLSR.ReportFailure` (`dtlsrFail = false`) was empty: the failed peer stays listed. -/
theorem dtlsr_failure_witness :
    let c : Cfg := { self := 1, algo := .dtlsr, mule := false, sensorNodes := [], sprayL := 3, bcast := ⟨999, 0⟩,
                     seqFirst := false, skipStored := false, expiryNow := true, dtlsrFail := false, holdFix := true }
    let env : Env := { sendOk := fun _ _ _ => false, prefer := fun _ _ => [], cand := fun _ _ => false }
    let b : Bundle := { tag := 1, src := ⟨7, 0⟩, ts := 900, seq := 0, dst := ⟨999, 0⟩, prev := none, lifetime := 3600,
                        hop := none, age := none, delBlock := false, bsCopies := none }
    firstFail reenableFail c (SpecSt.init 1000) 0
      ((trace env (init c 1000) [.peerUp ⟨1, ⟨2, 0⟩⟩, .receive b none]).map obsOf)
      = some (1, "c13-failed-peer-still-listed-dtlsr") := by
  decide

/-- Binary spray, relayed bundle WITHOUT a BinarySprayBlock (e.g. from a node running another algorithm): the
repaired `BinarySpray.NotifyNewBundle` (/repo f4a58d8) gives it a single copy and remembers where it came
from — it is not sent back, and not sprayed at all. (Before the repair it was treated as originated here
and went straight back to its previous node: class `c13-to-prev-node-binary-spray-without-block`, fixed.) -/
theorem binary_no_block_not_returned_example :
    let c : Cfg := { self := 1, algo := .binarySpray, mule := false, sensorNodes := [], sprayL := 4, bcast := ⟨999, 0⟩,
                     seqFirst := true, skipStored := true, expiryNow := true, dtlsrFail := true, holdFix := true }
    let env : Env := { sendOk := fun _ _ _ => true, prefer := fun _ _ => [], cand := fun _ _ => false }
    let b : Bundle := { tag := 1, src := ⟨7, 0⟩, ts := 900, seq := 0, dst := ⟨9, 0⟩, prev := some ⟨2, 0⟩, lifetime := 3600,
                        hop := none, age := none, delBlock := false, bsCopies := none }
    let tr := (trace env (init c 1000) [.peerUp ⟨1, ⟨2, 0⟩⟩, .receive b none, .peerUp ⟨2, ⟨3, 0⟩⟩, .retryTick]).map obsOf
    firstFail (fun c _ o => returnFail c o) c (SpecSt.init 1000) 0 tr = none ∧
    tr.map (fun o => o.outs.length) = [0, 0, 0, 0] ∧
    (tr.getLast?.map fun o => o.view.spray.map fun km => (km.2.copies, km.2.sent)) = some [(1, [⟨2, 0⟩])] := by
  decide

/-! ## Non-vacuity -/

example : Domain13
    { self := 1, algo := .spray, mule := true, sensorNodes := [2], sprayL := 3, bcast := ⟨999, 0⟩,
      seqFirst := false, skipStored := false, expiryNow := true, dtlsrFail := true, holdFix := true }
    [.peerUp ⟨1, ⟨2, 0⟩⟩,
     .receive { tag := 1, src := ⟨7, 0⟩, ts := 900, seq := 0, dst := ⟨9, 0⟩, prev := some ⟨2, 0⟩, lifetime := 3600,
                hop := none, age := none, delBlock := false, bsCopies := none } none,
     .submit { tag := 3, src := ⟨1, 0⟩, ts := 901, seq := 0, dst := ⟨9, 0⟩, prev := none, lifetime := 3600,
               hop := none, age := none, delBlock := false, bsCopies := none },
     .retryTick, .restart] :=
  ⟨⟨by decide, by decide, by decide⟩, by decide, by
    intro b hb
    simp only [received, List.mem_cons, List.not_mem_nil, or_false] at hb
    subst hb
    left
    simp [seedsPrev, hasEndpoint]⟩

private def ex_r : Bundle :=
  { tag := 1, src := ⟨7, 0⟩, ts := 900, seq := 0, dst := ⟨9, 0⟩, prev := some ⟨2, 0⟩, lifetime := 3600,
    hop := none, age := none, delBlock := false, bsCopies := none }
private def ex_s : Bundle :=
  { tag := 3, src := ⟨1, 0⟩, ts := 901, seq := 0, dst := ⟨9, 0⟩, prev := none, lifetime := 3600,
    hop := none, age := none, delBlock := false, bsCopies := none }

/-- … and the tag condition of `Domain13t` is satisfiable as well (different bundles, different tags). -/
example : ∀ a ∈ [ex_r, ex_s], ∀ b ∈ [ex_r, ex_s], a.tag = b.tag → a = b := by decide

example :
    let c : Cfg := { self := 1, algo := .epidemic, mule := false, sensorNodes := [], sprayL := 3, bcast := ⟨999, 0⟩,
                     seqFirst := false, skipStored := false, expiryNow := true, dtlsrFail := true, holdFix := true }
    let env : Env := { sendOk := fun a _ _ => a == 2, prefer := fun _ _ => [], cand := fun _ _ => false }
    let b : Bundle := { tag := 1, src := ⟨7, 0⟩, ts := 900, seq := 0, dst := ⟨9, 0⟩, prev := some ⟨2, 0⟩, lifetime := 3600,
                        hop := none, age := none, delBlock := false, bsCopies := none }
    let tr := (trace env (init c 1000) [.peerUp ⟨1, ⟨2, 0⟩⟩, .peerUp ⟨2, ⟨3, 0⟩⟩, .peerUp ⟨3, ⟨4, 0⟩⟩,
      .receive b none, .retryTick]).map obsOf
    -- received from node 2: offered to 3 (ok) and 4 (fails), never to 2; 4 is offered again, 3 is not
    tr.map (fun o => (chosen c o.outs).map fun pbk => (pbk.1.addr, pbk.2.2))
      = [[], [], [], [(2, true), (3, false)], [(3, false)]] := by
  decide

end Dtn7.Props.C13
