/-
C08 — the bundle store behaves like a durable map and survives restarts and crashes.
Property theorems only; helper lemmas live in `Dtn7.Lemmas.Store*`.

Reading guide. `parse` is the bundle parser (property C01), of which only `WF parse b` — "a reader at
the start of `b`'s encoding returns `b`, whatever follows" — is used for pushed bundles.
`Inv' parse s` is the invariant of every reachable state *including* states left by a process kill
(the index is a map, every index entry's files exist and parse to that entry's parts; unreferenced
files are allowed); `Inv parse s` additionally has no unreferenced file (states reached without a
kill). `abs parse s` is what a reader sees: `Id ↦ Record` with the bytes read back per part.
-/
import Dtn7.Model.Store
import Dtn7.Lemmas.StoreSpec
import Dtn7.Gen.C08

namespace Dtn7.Props.C08
open Dtn7.Store Dtn7.Store.Lemmas

/-! ### The tie: facts regenerated from `pkg/storage/*.go` that the model relies on -/

theorem gen_no_failures : Dtn7.Gen.C08.extractionFailures = [] := by decide

/-- Micro-step order (codes: 1 Lock, 2 deferred Unlock, 3 QueryId, 4 storeBundle, 5 bh.Insert,
6 bh.Update, 7 deleteBundle, 8 bh.Delete, 9 bh.Find, 11 Store.Delete, 12 os.Remove, 13 os.OpenFile,
14 WriteBundle, 15 os.Open, 16 ParseBundle, 20 BundlePart.Load, 21 fragmentPayloadLen,
22 replaceBundle, 23 os.Rename, 24 f.Close): `Push` = query; write file; insert | load the stored
fragment; compare payload lengths; replaceBundle | write file; update — `Delete` = query; index
delete; file removals — `ReplaceBundle` = query; replaceBundle — `replaceBundle` = open the
temporary file; write; close; (remove it on error); rename — as in `Dtn7.Store.plan`. -/
theorem gen_step_order :
    Dtn7.Gen.C08.pushOrder = [1, 2, 3, 4, 5, 20, 21, 21, 22, 4, 6] ∧
    Dtn7.Gen.C08.replaceOpOrder = [3, 22] ∧
    Dtn7.Gen.C08.replaceFileOrder = [13, 14, 24, 24, 12, 23] ∧
    Dtn7.Gen.C08.updateOrder = [1, 2, 6] ∧
    Dtn7.Gen.C08.deleteOrder = [1, 2, 3, 8, 7] ∧
    Dtn7.Gen.C08.deleteExpiredOrder = [9, 11] ∧
    Dtn7.Gen.C08.storeBundleOrder = [13, 14] ∧
    Dtn7.Gen.C08.deleteBundleOrder = [12] ∧
    Dtn7.Gen.C08.partLoadOrder = [15, 16] ∧
    Dtn7.Gen.C08.queryIdOrder = [10] ∧ Dtn7.Gen.C08.queryPendingOrder = [9] ∧
    Dtn7.Gen.C08.knowsBundleOrder = [3] := by decide

/-- Lock discipline: `Push`, `Update`, `Delete` start with `mutex.Lock(); defer mutex.Unlock()`, have
no other lock operation and no `go` statement, so each of their index accesses (function·100 + call
code) is made while the mutex is held: the critical sections are atomic w.r.t. each other, which is
what `tstep true` models. -/
theorem gen_locks :
    Dtn7.Gen.C08.lockTable =
      [(103, true), (105, true), (106, true), (206, true), (303, true), (308, true), (403, false)] ∧
    ∀ a ∈ Dtn7.Gen.C08.lockTable, a.1 / 100 ≠ 4 → a.2 = true := by decide

/-- `ReplaceBundle` (function 4) takes no lock. Its only index access is the read `QueryId` (403);
it writes no index entry (no code 5, 6, 8 in `replaceOpOrder`); what it changes is one part file,
through `replaceBundle`: temporary file (created/truncated, written, closed), then `os.Rename` —
the atomic step `renameTmp` of the model. So it cannot disturb the read-modify-write of `Parts`
that the mutex protects; concurrent `ReplaceBundle`/`Push`-replacements of the *same* part share the
temporary file name (not modelled: the property's schedules are concurrent pushes of *different*
fragments). -/
theorem gen_replace_unlocked :
    (403, false) ∈ Dtn7.Gen.C08.lockTable ∧
    (∀ c ∈ Dtn7.Gen.C08.replaceOpOrder, c ≠ 5 ∧ c ≠ 6 ∧ c ≠ 8) ∧
    Dtn7.Gen.C08.replaceTruncatesTmp = true ∧ Dtn7.Gen.C08.replaceWritesTmpThenRenames = true ∧
    Dtn7.Gen.C08.replaceOpMatchesOffsetTotal = true ∧ Dtn7.Gen.C08.pushReplacesIfLonger = true := by
  decide

/-- Part files are created if missing and written from offset 0 without truncation (`overwrite`). -/
theorem gen_open_flags :
    Dtn7.Gen.C08.storeCreates = true ∧ Dtn7.Gen.C08.storeWriteOnly = true ∧
    Dtn7.Gen.C08.storeTruncates = false ∧ Dtn7.Gen.C08.storeAppends = false ∧
    Dtn7.Gen.C08.storeExclusive = false := by decide

/-- Index key = scrubbed id; file name = SHA-256 of the full id string; part carries offset/total;
new items are not pending; de-duplication compares offset and total; the two queries. -/
theorem gen_naming_guards :
    Dtn7.Gen.C08.keyIsScrubbedId = true ∧ Dtn7.Gen.C08.queryScrubs = true ∧
    Dtn7.Gen.C08.fileNameFromFullId = true ∧ Dtn7.Gen.C08.fileNameIsSha256OfIdString = true ∧
    Dtn7.Gen.C08.partCarriesOffsetTotal = true ∧ Dtn7.Gen.C08.newItemNotPending = true ∧
    Dtn7.Gen.C08.newItemFragmentedFlag = true ∧ Dtn7.Gen.C08.dedupByOffsetAndTotal = true ∧
    Dtn7.Gen.C08.pushAppendsPart = true ∧ Dtn7.Gen.C08.pushUpdatesStoredItem = true ∧
    Dtn7.Gen.C08.pushInsertsNewItem = true ∧ Dtn7.Gen.C08.pendingQuery = true ∧
    Dtn7.Gen.C08.expiredQuery = true ∧ Dtn7.Gen.C08.knowsIsNotNotFound = true ∧
    Dtn7.Gen.C08.updateWritesGivenItem = true ∧ Dtn7.Gen.C08.loadDirectIfUnfragmented = true ∧
    Dtn7.Gen.C08.completeIfUnfragmented = true := by decide

/-- The control skeletons of the three mutating functions (logging removed). -/
theorem gen_update_skeleton : Dtn7.Gen.C08.updateSkeleton =
    ["s.mutex.Lock()", "defer s.mutex.Unlock()", "return s.bh.Update(bi.Id, bi)"] := by decide

theorem gen_delete_skeleton : Dtn7.Gen.C08.deleteSkeleton =
    ["s.mutex.Lock()",
     "defer s.mutex.Unlock()",
     "if bi, err := s.QueryId(bid); err == nil",
     "  verifPoint(\"delete:before-index\")",
     "  if err := s.bh.Delete(bi.Id, BundleItem{}); err != nil",
     "    return err",
     "  for _, bp := range bi.Parts",
     "    verifPoint(\"delete:before-remove\")",
     "    if err := bp.deleteBundle(); err != nil",
     "    verifPoint(\"delete:file-removed\")",
     "return nil"] := by decide

theorem gen_replace_skeletons :
    Dtn7.Gen.C08.replaceOpSkeleton =
      ["bid := b.ID()",
       "bi, err := s.QueryId(bid)",
       "if err != nil",
       "  return err",
       "for _, part := range bi.Parts",
       "  if part.FragmentOffset == bid.FragmentOffset && part.TotalDataLength == bid.TotalDataLength",
       "    return part.replaceBundle(b)",
       "return fmt.Errorf(\"store has no part for bundle %v\", bid)"] ∧
    Dtn7.Gen.C08.replaceFileSkeleton =
      ["tmpFilename := bp.Filename + \".tmp\"",
       "f, err := os.OpenFile(tmpFilename, os.O_WRONLY|os.O_CREATE|os.O_TRUNC, 0600)",
       "if err != nil",
       "  return err",
       "if err = b.WriteBundle(f); err != nil",
       "  _ = f.Close()",
       "else",
       "  err = f.Close()",
       "if err != nil",
       "  _ = os.Remove(tmpFilename)",
       "  return err",
       "verifPoint(\"replace:tmp-written\")",
       "return os.Rename(tmpFilename, bp.Filename)"] := by decide

theorem gen_push_skeleton : Dtn7.Gen.C08.pushSkeleton =
    ["s.mutex.Lock()",
     "defer s.mutex.Unlock()",
     "bi := newBundleItem(b, s.bundleDir)",
     "if biStore, err := s.QueryId(b.ID()); err != nil",
     "  if err := bi.Parts[0].storeBundle(b); err != nil",
     "    return err",
     "  verifPoint(\"push:new:file-written\")",
     "  return s.bh.Insert(bi.Id, bi)",
     "else if bi.Fragmented",
     "  if !biStore.Fragmented",
     "    return nil",
     "  knownFragment := false",
     "  compPart := bi.Parts[0]",
     "  for _, part := range biStore.Parts",
     "    if part.FragmentOffset == compPart.FragmentOffset && part.TotalDataLength == compPart.TotalDataLength",
     "      knownFragment = true",
     "      break",
     "  if knownFragment",
     "    if stored, err := compPart.Load(); err == nil && fragmentPayloadLen(stored) >= fragmentPayloadLen(b)",
     "      return nil",
     "    return compPart.replaceBundle(b)",
     "  else",
     "    if err := compPart.storeBundle(b); err != nil",
     "      return err",
     "    verifPoint(\"push:frag:file-written\")",
     "    biStore.Parts = append(biStore.Parts, compPart)",
     "    return s.bh.Update(biStore.Id, biStore)",
     "else",
     "  return nil"] := by decide

/-! ### Example data for the non-vacuity `example`s and the witnesses -/

def idA : Id := ⟨1, 1000, 0⟩
def idB : Id := ⟨2, 1000, 0⟩
/-- a whole bundle -/
def bA : Bundle := ⟨idA, none, 10, 5000, [0xA0, 1, 2, 3]⟩
/-- three fragments of a 30-byte payload and a fragment contained in the first two -/
def f0 : Bundle := ⟨idB, some (0, 30), 10, 9000, [0xB0, 7]⟩
def f1 : Bundle := ⟨idB, some (10, 30), 10, 9000, [0xB1, 8, 8]⟩
def f2 : Bundle := ⟨idB, some (20, 30), 10, 9000, [0xB2, 9]⟩
/-- a longer fragment with the offset and total of `f0` (made for a larger MTU) -/
def f0L : Bundle := ⟨idB, some (0, 30), 20, 9000, [0xB3, 7, 7]⟩
/-- `bA` after a block was removed (what `Core.receive` hands to `ReplaceBundle`) -/
def bA2 : Bundle := ⟨idA, none, 10, 5000, [0xA1, 1]⟩

/-- A parser for the example bundles: the first byte identifies the bundle, the rest is ignored. -/
def exParse : Bytes → Option Bundle
  | 0xA0 :: 1 :: 2 :: 3 :: _ => some bA
  | 0xB0 :: 7 :: _ => some f0
  | 0xB1 :: 8 :: 8 :: _ => some f1
  | 0xB2 :: 9 :: _ => some f2
  | 0xB3 :: 7 :: 7 :: _ => some f0L
  | 0xA1 :: 1 :: _ => some bA2
  | _ => none

theorem wf_bA : WF exParse bA := ⟨fun _ => rfl, fun o t h => by cases h <;> decide⟩
theorem wf_f0 : WF exParse f0 := ⟨fun _ => rfl, fun o t h => by cases h <;> decide⟩
theorem wf_f1 : WF exParse f1 := ⟨fun _ => rfl, fun o t h => by cases h <;> decide⟩
theorem wf_f2 : WF exParse f2 := ⟨fun _ => rfl, fun o t h => by cases h <;> decide⟩
theorem wf_f0L : WF exParse f0L := ⟨fun _ => rfl, fun o t h => by cases h <;> decide⟩
theorem wf_bA2 : WF exParse bA2 := ⟨fun _ => rfl, fun o t h => by cases h⟩

def exHistory : List Cmd :=
  [.op (.push bA), .op (.push f0), .op (.push f2), .op (.update idA true 7000 [("k", "v")]), .reopen]

theorem exHistory_wf : ∀ c ∈ exHistory, CmdWF exParse c := by
  intro c hc
  simp only [exHistory, List.mem_cons, List.not_mem_nil, or_false] at hc
  rcases hc with h | h | h | h | h <;> subst h
  · exact wf_bA
  · exact wf_f0
  · exact wf_f2
  · trivial
  · trivial

/-- The state after the example history (two records, three files). -/
def exState : State := run exParse State.empty exHistory

section
variable (parse : Bytes → Option Bundle)

/-! ### Durable map -/

/-- **Refinement.** Every command maps the visible content exactly as the reference map does, and
keeps the invariant. -/
theorem refines (s : State) (h : Inv' parse s) (c : Cmd) (hw : CmdWF parse c) :
    abs parse (step parse s c) = specStep (abs parse s) c ∧ Inv' parse (step parse s c) :=
  ⟨(step_refines parse h c hw).2, (step_refines parse h c hw).1⟩

/-- Over whole histories from the empty store (no process kill: also no unreferenced file). -/
theorem run_refines (cs : List Cmd) (hw : ∀ c ∈ cs, CmdWF parse c) :
    abs parse (run parse State.empty cs) = specRun [] cs ∧ Inv parse (run parse State.empty cs) :=
  ⟨(Lemmas.run_refines parse (inv'_empty parse) cs hw).2, inv_run parse (inv_empty parse) cs hw⟩

example : abs exParse exState = specRun [] exHistory := (run_refines exParse exHistory exHistory_wf).1
example : (abs exParse exState).length = 2 := by decide

/-- **Reads agree with the reference map**, in any state (the queries read the index only):
lookup by id, the pending query, `KnowsBundle`. -/
theorem reads_agree (s : State) :
    (∀ id, (queryId s id).map (absItem parse s) = get id (abs parse s)) ∧
    (queryPending s).map (fun e => (e.1, absItem parse s e.2)) =
      (abs parse s).filter (fun e => e.2.pending) ∧
    (∀ id, knows s id = (get id (abs parse s)).isSome) := by
  refine ⟨fun id => (get_abs parse s id).symm, ?_, fun id => ?_⟩
  · simp only [queryPending, abs, List.filter_map]; rfl
  · simp [knows, queryId, get_abs]

/-- **Read-back is byte-identical.** After any history from the empty store, every part of every
record returned by a lookup reads back as a bundle that was given to the store (`Push` or
`ReplaceBundle`) with this id, offset and total — with exactly the given bytes. (Which one it is
when several were given is fixed by `run_refines`: the reference map keeps the bytes of the push
that created the part until a longer fragment with the same offset and total, or a `ReplaceBundle`,
replaces them.) -/
theorem read_back (cs : List Cmd) (hw : ∀ c ∈ cs, CmdWF parse c) (id : Id) (it : Item) (p : Part)
    (hq : queryId (run parse State.empty cs) id = some it) (hp : p ∈ it.parts) :
    ∃ b, Given cs b ∧ b.id = id ∧ fragKey b = (p.off, p.total) ∧
      (loadPart parse (run parse State.empty cs) p).map (·.bytes) = some b.bytes := by
  obtain ⟨habs, _⟩ := run_refines parse cs hw
  have hmem : (id, absItem parse (run parse State.empty cs) it) ∈ specRun [] cs := by
    rw [← habs]
    exact List.mem_map.mpr ⟨(id, it), get_some_mem hq, rfl⟩
  have := specOk_run cs _ hmem
    ((p.off, p.total), (loadPart parse (run parse State.empty cs) p).map (fun b => (b.payLen, b.bytes)))
    (List.mem_map.mpr ⟨p, hp, rfl⟩)
  obtain ⟨b, hb, hid, hk, hv⟩ := this
  refine ⟨b, hb, hid, hk, ?_⟩
  simp only [content] at hv
  cases hl : loadPart parse (run parse State.empty cs) p with
  | none => rw [hl] at hv; cases hv
  | some x =>
    rw [hl] at hv
    simp only [Option.map_some, Option.some.injEq, Prod.mk.injEq] at hv
    simp [hv.2]

example : ∃ it, queryId exState idB = some it ∧ it.parts.length = 2 := ⟨_, rfl, rfl⟩

/-- An operation touches the record of its own id only. -/
theorem other_records_untouched (s : State) (h : Inv' parse s) (op : Op) (hw : OpWF parse op)
    (id : Id) (hid : id ≠ target op) :
    get id (abs parse (exec parse s op)) = get id (abs parse s) := by
  rw [(exec_refines parse h op hw).2]; exact spec_frame _ op id hid

/-- Deleted means gone; an expiry sweep removes exactly the expired records. -/
theorem delete_gone (s : State) (h : Inv' parse s) (id : Id) : queryId (exec parse s (.delete id)) id = none := by
  have := (exec_refines parse h (.delete id) trivial).2
  have hg : get id (abs parse (exec parse s (.delete id))) = none := by rw [this]; exact spec_delete_gone _ id
  rw [get_abs] at hg
  simpa [queryId] using hg

/-- … and stays gone: an `Update` that writes back an item read before the record was removed (deleted after
delivery, or swept by the expiry job while `ReportFailure`/`Sync` held their copy) changes nothing — it does
not bring the record back. (`Store.Update` is `badgerhold.Update`, which refuses an unknown key:
`gen_update_skeleton`; the harness writes such stale items back, `staleupdate` lines.) -/
theorem stale_update_is_noop (s : State) (id : Id) (hgone : queryId s id = none) (pending : Bool) (expires : Nat)
    (props : Props) : exec parse s (.update id pending expires props) = s := by
  unfold queryId at hgone
  simp [exec, plan, hgone, runSteps]

theorem deleted_then_stale_update_gone (s : State) (h : Inv' parse s) (id : Id) (pending : Bool) (expires : Nat)
    (props : Props) :
    queryId (exec parse (exec parse s (.delete id)) (.update id pending expires props)) id = none := by
  have hg := delete_gone (parse := parse) s h id
  rw [stale_update_is_noop (parse := parse) _ id hg]
  exact hg

theorem sweep_exact (s : State) (h : Inv' parse s) (now : Nat) (id : Id) :
    get id (abs parse (sweep parse s now)) =
      (get id (abs parse s)).filter (fun r => !decide (r.expires < now)) := by
  rw [(sweep_refines parse h now).2]
  exact spec_sweep_get _ (by rw [keys_abs]; exact h.1) now id

/-- Closing and reopening changes nothing. -/
theorem reopen_id (s : State) : step parse s .reopen = s ∧ abs parse (reopen s) = abs parse s := ⟨rfl, rfl⟩

/-! ### Fragments -/

/-- **Fragments are collected in one record, each distinct fragment once.** After a push of a
fragment whose bundle has no record yet or a fragment record: the index has one entry for the id
(`Inv'`: keys without duplicates), the entry holds the fragment's (offset, total) exactly once, and
that part reads back as a fragment of this bundle with this offset and total. -/
theorem fragments_collected (s : State) (h : Inv' parse s) (b : Bundle) (hwf : WF parse b)
    (hfr : b.frag.isSome = true) (hrec : ∀ it, queryId s b.id = some it → it.fragmented = true) :
    (keys (exec parse s (.push b)).index).Nodup ∧
    ∃ it, queryId (exec parse s (.push b)) b.id = some it ∧
      (it.parts.map (fun p => (p.off, p.total))).count (fragKey b) = 1 ∧
      ∃ p ∈ it.parts, (p.off, p.total) = fragKey b ∧
        ∃ b', loadPart parse (exec parse s (.push b)) p = some b' ∧ b'.id = b.id ∧ b'.frag = b.frag :=
  ⟨(exec_refines parse h (.push b) hwf).1.1, Lemmas.fragments_collected parse h hwf hfr hrec⟩

example : (queryId (exec exParse exState (.push f1)) idB).map (·.parts.length) = some 3 := by decide
example : (queryId (exec exParse (exec exParse exState (.push f1)) (.push f1)) idB).map (·.parts.length) = some 3 := by
  decide

/-- **The longer of two fragments with the same offset and total is kept.** A pushed fragment whose
offset and total are already stored replaces the stored one's bytes exactly when the stored one
does not read back with a payload at least as long; the index (and so the number of parts) is
unchanged either way. -/
theorem same_offset_longer_wins (s : State) (h : Inv' parse s) (b : Bundle) (hwf : WF parse b)
    (it : Item) (hq : queryId s b.id = some it) (hk : pushKnown b it = true) :
    (exec parse s (.push b)).index = s.index ∧
    abs parse (exec parse s (.push b)) =
      if keepsStored parse s b then abs parse s
      else put b.id { absItem parse s it with
        parts := setPart (fragKey b) (content b) (absItem parse s it).parts } (abs parse s) := by
  have hc : pushCond b it = false := by
    cases hc : pushCond b it with
    | false => rfl
    | true => rw [pushCond_known_excl b it hc] at hk; cases hk
  refine ⟨exec_push_index_same parse s b it hq hc, ?_⟩
  simp only [exec, plan_push_known parse s b it hq hk]
  cases hks : keepsStored parse s b with
  | true => rfl
  | false =>
    show abs parse (runSteps s (replaceSteps _ _)) = put _ _ _
    rw [run_replaceSteps]
    exact (replaced_ok parse h it b hwf hq (known_flag hk).1).2

/-- `f0L` (20 bytes from offset 0) replaces the stored `f0` (10 bytes from offset 0); `f0` pushed
afterwards is ignored; the record keeps two parts. -/
example : (queryId (exec exParse exState (.push f0L)) idB).map
      (fun it => it.parts.map (loadPart exParse (exec exParse exState (.push f0L)))) =
    some [some f0L, some f2] := by decide
example : exec exParse (exec exParse exState (.push f0L)) (.push f0) = exec exParse exState (.push f0L) := by
  decide
/-- … and with `f0L` the two stored fragments `[0,20)`, `[20,30)` cover the payload. -/
example : (queryId (exec exParse exState (.push f0L)) idB).map
    (isComplete exParse true (exec exParse exState (.push f0L))) = some true := by decide
/-- `ReplaceBundle` swaps the bytes of the stored whole bundle, nothing else. -/
example : (abs exParse (exec exParse exState (.replace bA2))) =
    specStep (abs exParse exState) (.op (.replace bA2)) := by decide
example : (queryId (exec exParse exState (.replace bA2)) idA).map
      (fun it => it.parts.map (loadPart exParse (exec exParse exState (.replace bA2)))) =
    some [some bA2] := by decide
/-- Killed between the temporary file and the rename: the old bytes are still what reads back. -/
example : abs exParse (crash exParse 1 exState (.push f0L)) = abs exParse exState ∧
    (get (tmpOf (partOf f0L).name) (crash exParse 1 exState (.push f0L)).files).isSome = true := by decide

/-- **Complete exactly when the fragments cover the payload** (the sweep of `prepareReassembly`
with the end index maximised, i.e. with the repair of D3): for a stored fragment record whose parts
share one total length `T`, `IsComplete` holds iff the loaded fragments' intervals
(offset, payload length) cover `[0, T)` and none reaches beyond `T`. -/
theorem complete_iff_covers (s : State) (h : Inv' parse s) (id : Id) (it : Item)
    (hq : queryId s id = some it) (hf : it.fragmented = true) (T : Nat)
    (hT : ∀ p ∈ it.parts, p.total = T) :
    ∃ bs, loadParts parse s it.parts = some bs ∧ (∀ b ∈ bs, b.id = id) ∧
      bs.map fragKey = it.parts.map (fun p => (p.off, p.total)) ∧
      (isComplete parse true s it = true ↔ Covers (bs.map ivOf) T) :=
  Lemmas.complete_iff_covers parse (h.2 id it hq) hf T hT

/-- The loop as it is without the repair of D3 (end index overwritten) computes the same on every
offset-sorted interval list in which no fragment is contained in another one. -/
theorem complete_nomax_partial (ivs : List (Nat × Nat)) (h : noContained ivs = true) :
    sweepEnd false 0 ivs = sweepEnd true 0 ivs :=
  sweep_nomax_eq ivs 0 (incEnds_of_noContained ivs 0 (fun _ _ => Nat.zero_le _) h)

/-- … and this is the witness that it differs otherwise: `[0,20)`, `[5,10)`, `[20,30)`. -/
theorem complete_nomax_witness :
    sweepEnd false 0 [(0, 20), (5, 5), (20, 10)] = none ∧
    sweepEnd true 0 [(0, 20), (5, 5), (20, 10)] = some 30 := by decide

/-- An unfragmented item is complete and (after the repair of D24) loadable. -/
theorem whole_complete_loadable (s : State) (h : Inv' parse s) (id : Id) (it : Item)
    (hq : queryId s id = some it) (hf : it.fragmented = false) (useMax : Bool) :
    isComplete parse useMax s it = true ∧ loadable parse useMax s it = true := by
  have ok := h.2 id it hq
  obtain ⟨p, hp⟩ := ok.whole hf
  obtain ⟨b, hb, _⟩ := ok.readable p (by rw [hp]; simp)
  exact ⟨by simp [isComplete, hf], by simp [loadable, hf, hp, hb]⟩

/-- D24 witness: `BundleItem.Load` as it was (always through `ReassembleFragments`) fails for the
stored whole bundle of the example, which `IsComplete` reports complete. -/
theorem load_d24_witness :
    (queryId exState idA).map (fun it => (isComplete exParse true exState it, loadableD24 exParse true exState it,
      loadable exParse true exState it)) = some (true, false, true) := by decide

example : (queryId (exec exParse exState (.push f1)) idB).map (isComplete exParse true (exec exParse exState (.push f1))) =
    some true := by decide
example : (queryId exState idB).map (isComplete exParse true exState) = some false := by decide

/-! ### Process kill inside an operation -/

/-- **Crash safety.** Kill the process after any number `k` of micro-steps of any operation, in any
state that satisfies `Inv'`. Then
* the state still satisfies `Inv'` (every index entry readable) — so by `refines` every later
  command behaves exactly like the reference map, and by `no_stuck` none of its steps fails;
* the visible content is the one before the operation or the one after it, nothing in between
  (so every record other than the operation's target is untouched, and the target is intact in
  its old or its new form). -/
theorem crash_safe (s : State) (h : Inv' parse s) (op : Op) (hw : OpWF parse op) (k : Nat) :
    Inv' parse (crash parse k s op) ∧
    (abs parse (crash parse k s op) = abs parse s ∨
      abs parse (crash parse k s op) = specStep (abs parse s) (.op op)) ∧
    (∀ id, id ≠ target op → get id (abs parse (crash parse k s op)) = get id (abs parse s)) := by
  obtain ⟨hi, hc⟩ := crash_cases parse h op hw k
  have hex := (exec_refines parse h op hw).2
  refine ⟨hi, hc.imp id (fun e => e.trans hex), ?_⟩
  intro id hid
  rcases hc with e | e
  · rw [e]
  · rw [e, hex]; exact spec_frame _ op id hid

/-- After a crash every later history runs exactly as on the reference map started from the
surviving content: acknowledged records stay intact and readable, later operations on the same id
work. -/
theorem crash_then_run (s : State) (h : Inv' parse s) (op : Op) (hw : OpWF parse op) (k : Nat)
    (cs : List Cmd) (hcs : ∀ c ∈ cs, CmdWF parse c) :
    abs parse (run parse (crash parse k s op) cs) = specRun (abs parse (crash parse k s op)) cs ∧
    Inv' parse (run parse (crash parse k s op) cs) :=
  ⟨(Lemmas.run_refines parse (crash_safe parse s h op hw k).1 cs hcs).2,
   (Lemmas.run_refines parse (crash_safe parse s h op hw k).1 cs hcs).1⟩

/-- A kill inside an expiry sweep (`DeleteExpired` = one `Delete` per expired record): after `j`
complete deletes and `k` micro-steps of the next one the state satisfies `Inv'` and every record
that is not expired is untouched. -/
theorem crash_in_sweep (s : State) (h : Inv' parse s) (now j k : Nat) (id : Id)
    (hid : (expiredIds s now)[j]? = some id) :
    let s1 := ((expiredIds s now).take j).foldl (fun s id => exec parse s (.delete id)) s
    Inv' parse (crash parse k s1 (.delete id)) ∧
    ∀ x, x ∉ expiredIds s now →
      get x (abs parse (crash parse k s1 (.delete id))) = get x (abs parse s) := by
  intro s1
  obtain ⟨h1, a1⟩ := deleteMany parse h ((expiredIds s now).take j)
  obtain ⟨hc, _, hframe⟩ := crash_safe parse s1 h1 (.delete id) trivial k
  refine ⟨hc, fun x hx => ?_⟩
  have hne : x ≠ id := fun e => hx (e ▸ List.mem_of_getElem? hid)
  rw [hframe x hne, a1]
  have hx' : x ∉ (expiredIds s now).take j := fun hm => hx (List.mem_of_mem_take hm)
  generalize (expiredIds s now).take j = ids at hx'
  generalize abs parse s = m
  induction ids generalizing m with
  | nil => rfl
  | cons i r ih =>
    simp only [List.mem_cons, not_or] at hx'
    simp only [List.foldl_cons]
    rw [ih hx'.2, get_del_ne i x m (fun e => hx'.1 e.symm)]

example : (expiredIds exState 8000)[0]? = some idA := by decide

/-- **No stuck state**: in every `Inv'` state every micro-step of every operation succeeds (no
`ErrKeyExists`, no `ErrNotFound`, no missing file). -/
theorem no_stuck (s : State) (h : Inv' parse s) (op : Op) : stepsOk s (plan parse s op) = true :=
  Lemmas.no_stuck parse h op

/-- What survives at each crash point of `Push` that adds a part (points `push:new:file-written`,
`push:frag:file-written` = after micro-step 1): the index is unchanged, the part file exists. -/
theorem crash_push_file_written (s : State) (b : Bundle)
    (hadd : ∀ it, queryId s b.id = some it → pushCond b it = true) :
    crash parse 1 s (.push b) = ⟨s.index, writtenFiles s b⟩ := by
  cases hg : get b.id s.index with
  | none => exact crash1_push_new parse s b hg
  | some it => exact crash1_push_frag parse s b it hg (hadd it hg)

/-- … and of a `Push` that replaces a shorter stored fragment, or of `ReplaceBundle` (point
`replace:tmp-written` = after micro-step 1): index and part files are unchanged, the temporary file
`<name>.tmp` exists (nothing reads it; the next replacement truncates it). -/
theorem crash_replace_tmp_written (s : State) (op : Op) (n : Name) (d : Bytes)
    (hp : plan parse s op = replaceSteps n d) :
    crash parse 1 s op = ⟨s.index, put (tmpOf n) d s.files⟩ :=
  crash_replaceSteps parse s n d op hp

/-- What survives at each crash point of `Delete` (`delete:before-index` = 0 steps;
`delete:before-remove` n / `delete:file-removed` n = 1 + removed files): the index entry is gone and
exactly the first `k` part files are removed. -/
theorem crash_delete_point (s : State) (id : Id) (it : Item) (hq : queryId s id = some it) (k : Nat) :
    crash parse (k + 1) s (.delete id) = ⟨del id s.index, removeAll ((it.parts.take k).map (·.name)) s.files⟩ :=
  crash_delete_some parse s id it hq k

/-- D31 witness (the order the tree had: part files first, index entry last). Kill after the first
file removal: the record is still returned by the lookup, none of its parts can be read by any
parser, and a later push of the same bundle is ignored (no micro-step), i.e. acknowledged and lost. -/
theorem delete_files_first_witness :
    let s' := runSteps exState ((planDeleteFilesFirst exState idA).take 1)
    (queryId s' idA).isSome = true ∧
    (∀ prs : Bytes → Option Bundle, ∀ it, queryId s' idA = some it → ∀ p ∈ it.parts, loadPart prs s' p = none) ∧
    plan exParse s' (.push bA) = [] := by
  refine ⟨by decide, ?_, by decide⟩
  intro prs it hq p hp
  have : it = ⟨true, 7000, false, [partOf bA], [("k", "v")]⟩ := by
    have h2 : queryId (runSteps exState ((planDeleteFilesFirst exState idA).take 1)) idA =
        some ⟨true, 7000, false, [partOf bA], [("k", "v")]⟩ := by decide
    rw [h2] at hq; injection hq with hq; exact hq.symm
  subst this
  simp only [List.mem_singleton] at hp
  subst hp
  have : get (partOf bA).name (runSteps exState ((planDeleteFilesFirst exState idA).take 1)).files = none := by
    decide
  simp [loadPart, this]

/-- With the repaired order the same kill leaves no trace of the record. -/
example : queryId (crash exParse 1 exState (.delete idA)) idA = none := by decide
example : (plan exParse (crash exParse 1 exState (.delete idA)) (.push bA)).length = 2 := by decide

/-! ### Concurrent pushes -/

/-- **Concurrent fragments.** Two `Push` calls for different fragments of one bundle (no record
yet, or a fragment record that has neither), executed under the store mutex in *any* schedule in
which both return: both parts are recorded in the bundle's record and read back byte-identical. -/
theorem concurrent_fragments (s : State) (h : Inv' parse s) (b1 b2 : Bundle)
    (hw1 : WF parse b1) (hw2 : WF parse b2) (hid : b1.id = b2.id) (hk : fragKey b1 ≠ fragKey b2)
    (hf1 : b1.frag.isSome = true) (hf2 : b2.frag.isSome = true)
    (hfresh : ∀ r, get b1.id (abs parse s) = some r → r.fragmented = true ∧
      ∀ p ∈ r.parts, p.1 ≠ fragKey b1 ∧ p.1 ≠ fragKey b2)
    (sched : List Bool) (hfin : (runSched parse true b1 b2 s sched).finished = true) :
    ∃ r, get b1.id (abs parse (runSched parse true b1 b2 s sched).st) = some r ∧
      (fragKey b1, content b1) ∈ r.parts ∧ (fragKey b2, content b2) ∈ r.parts :=
  Lemmas.concurrent_fragments parse h b1 b2 hw1 hw2 hid hk hf1 hf2 hfresh sched hfin

/-- Every finished schedule under the mutex ends in the state of one of the two sequential orders. -/
theorem concurrent_serialisable (s : State) (b1 b2 : Bundle) (sched : List Bool)
    (hfin : (runSched parse true b1 b2 s sched).finished = true) :
    (runSched parse true b1 b2 s sched).st = exec parse (exec parse s (.push b1)) (.push b2) ∨
    (runSched parse true b1 b2 s sched).st = exec parse (exec parse s (.push b2)) (.push b1) :=
  locked_serial parse b1 b2 s sched hfin

end

/-- The schedule used below: thread 1 reads and writes its file, thread 2 runs to completion, then
thread 1 writes the index. -/
def lostUpdateSchedule : List Bool := [false, false, true, true, true, true, false, false]

/-- D23 witness (`Push` as it was, without the mutex): with the record holding fragment `f0`, both
pushes return, but the record has lost `f2` — its file is on disk, unreferenced. -/
theorem concurrent_unlocked_witness :
    let c := runSched exParse false f1 f2 (exec exParse State.empty (.push f0)) lostUpdateSchedule
    c.finished = true ∧
    (queryId c.st idB).map (fun it => it.parts.map (fun p => (p.off, p.total))) = some [(0, 30), (10, 30)] ∧
    (get (partOf f2).name c.st.files).isSome = true := by decide

/-- The same schedule under the mutex: thread 2 is blocked until thread 1 is done; both recorded. -/
example :
    let c := runSched exParse true f1 f2 (exec exParse State.empty (.push f0)) (lostUpdateSchedule ++ [true, true, true, true])
    c.finished = true ∧
    (queryId c.st idB).map (fun it => it.parts.map (fun p => (p.off, p.total))) =
      some [(0, 30), (10, 30), (20, 30)] := by decide

example : ∃ r, get idB (abs exParse (runSched exParse true f1 f2 (exec exParse State.empty (.push f0))
      (lostUpdateSchedule ++ [true, true, true, true])).st) = some r ∧
    (fragKey f1, content f1) ∈ r.parts ∧ (fragKey f2, content f2) ∈ r.parts :=
  concurrent_fragments exParse _
    ((exec_refines exParse (inv'_empty exParse) (.push f0) wf_f0).1) f1 f2 wf_f1 wf_f2 rfl (by decide)
    rfl rfl (by decide) _ (by decide)

end Dtn7.Props.C08
