/-
C09 — fragmentation respects the size limit and is exactly invertible.
Property theorems only; helper lemmas live in `Dtn7.Lemmas.Fragment` / `Dtn7.Lemmas.FragReasm`.

The model (`Dtn7.Model.Fragment`) is abstract over serialised sizes: the bundle codec is C01's business.
What ties the sizes to the real serialiser is (a) the hypotheses of `size_bound`, stated explicitly and
evaluated by the driver on the numbers the harness measures on every real bundle, and (b) the driver's
comparison of the model's fragment sizes with the sizes of the fragments the real code returned.
-/
import Dtn7.Model.Fragment
import Dtn7.Model.Reassemble
import Dtn7.Lemmas.Fragment
import Dtn7.Lemmas.FragReasm
import Dtn7.Model.FragmentBundle
import Dtn7.Lemmas.FragmentBundle
import Dtn7.Gen.C09

namespace Dtn7.Props.C09
open Dtn7.Frag

/-! ### Facts regenerated from the source on every run -/

theorem gen_extraction_complete : Dtn7.Gen.C09.extractionFailures = [] := by decide

/-- Flag bits, block type codes, the CRC type the estimate prices with, `cborOverhead`. -/
theorem gen_constants :
    Dtn7.Gen.C09.flagIsFragment = flagIsFragment ∧ Dtn7.Gen.C09.flagMustNotFragment = flagMustNotFragment ∧
    Dtn7.Gen.C09.flagReplicate = flagReplicate ∧ Dtn7.Gen.C09.typeBundleAge = typeBundleAge ∧
    Dtn7.Gen.C09.typePayload = 1 ∧ Dtn7.Gen.C09.crc32 = 2 ∧ Dtn7.Gen.C09.cborOverhead = cborOverhead := by
  decide

/-- The variant of the code the theorems speak about (`Cfg.fixed`): the fits-test precedes the estimate
and replaces the single-fragment shortcut (D1), offsets are absolute (D2), blocks are not renumbered (D4). -/
theorem gen_code_variant :
    Dtn7.Gen.C09.precheck = Cfg.fixed.precheck ∧ Dtn7.Gen.C09.mustNotFragmentFirst = true ∧
    Dtn7.Gen.C09.fragmentPrimaryBlockArgs = ["b.PrimaryBlock, fragmentOffset + i, totalDataLength"] ∧
    Dtn7.Gen.C09.fragmentRenumbers = false ∧ Dtn7.Gen.C09.reassembleRenumbers = false := by decide

set_option maxRecDepth 20000 in
/-- Every guard of `Bundle.Fragment`, in source order (comparison operators included). -/
theorem gen_fragment_guards : Dtn7.Gen.C09.fragmentConds =
    ["if b.PrimaryBlock.BundleControlFlags.Has(MustNotFragmented)",
     "if err = b.MarshalCbor(buff); err != nil",
     "if buff.Len() <= mtu",
     "if payloadBlock, err = b.PayloadBlock(); err != nil",
     "if b.PrimaryBlock.HasFragmentation()",
     "if extFirstOverhead, extOtherOverhead, err = fragmentExtensionBlocksLen(b, mtu); err != nil",
     "for i := 0; i < payloadBlockLen;",
     "if fragPrimaryBlock, primaryOverhead, err = fragmentPrimaryBlock(b.PrimaryBlock, fragmentOffset+i, totalDataLength); err != nil",
     "if i == 0",
     "if overhead >= mtu",
     "range b.CanonicalBlocks",
     "if cb.TypeCode() == ExtBlockTypePayloadBlock",
     "if i > 0 && !cb.BlockControlFlags.Has(ReplicateBlock)",
     "if err = fragBundle.CheckValid(); err != nil",
     "if len(bs) == 0"] := by decide

/-- The arithmetic of the loop: overhead, capacity, step. -/
theorem gen_fragment_arith :
    Dtn7.Gen.C09.fragmentOverhead =
      ["overhead := cborOverhead + primaryOverhead", "overhead += extFirstOverhead", "overhead += extOtherOverhead"] ∧
    Dtn7.Gen.C09.fragmentCapacity = ["fragPayloadBlockLen := mtu - overhead"] ∧
    Dtn7.Gen.C09.fragmentLoopStep = ["i := 0", "i += fragPayloadBlockLen"] := by decide

set_option maxRecDepth 20000 in
/-- `fragmentExtensionBlocksLen`: guards, the byte-string head priced for `mtu`, the two sums. -/
theorem gen_extlen :
    Dtn7.Gen.C09.extLenConds =
      ["range b.CanonicalBlocks", "if cb.TypeCode() == ExtBlockTypePayloadBlock",
       "if err = cb.MarshalCbor(buff); err != nil", "if cb.BlockControlFlags.Has(ReplicateBlock)",
       "if cb.TypeCode() == ExtBlockTypePayloadBlock",
       "if err = cboring.WriteByteStringLen(uint64(mtu), buff); err != nil"] ∧
    Dtn7.Gen.C09.extLenHeadArg = ["uint64(mtu), buff"] ∧
    Dtn7.Gen.C09.extLenFirst = ["first += cbLen", "first += buff.Len() - 1"] ∧
    Dtn7.Gen.C09.extLenOthers = ["others += cbLen", "others += cbLen + buff.Len() - 1"] ∧
    Dtn7.Gen.C09.extLenCrc = ["nil"] := by decide

/-! ### Property theorems (model = the code after the repairs, `Cfg.fixed`) -/

/-- **Offsets partition the payload.** For every payload, every limit and every block mix — whatever the
per-fragment capacities turn out to be — the fragments' (offset, length) pairs tile
`[base, base + |payload|)` in order without gap or overlap, where `base` is 0 or, for an input that is
itself a fragment, that fragment's offset. (Holds for both variants of the code.) -/
theorem fragment_offsets_partition (c : Cfg) (x : In) (fs : List Frag) (h : fragment c x = .frags fs) :
    partitions (base c x) (base c x + x.payload.length) (fs.map fun f => (f.off, f.data.length)) = true := by
  have := Lemmas.loop_partition c x _ _ _ _ _ (Lemmas.fragment_frags c x fs h) (by omega)
  simpa using this

/-- **Size bound.** If no extension block serialises longer than the estimate prices it (the estimate
uses CRC-32 for every block) and the same holds for the empty payload block, every fragment serialises
to at most `mtu` bytes. `Lemmas.headLen_mono` carries the byte-string head: the chunk is shorter than
`mtu`, so its head is not wider than the head priced for `mtu`. -/
theorem size_bound (c : Cfg) (x : In) (fs : List Frag)
    (hblk : ∀ b ∈ x.blocks, b.actual ≤ b.priced) (hpl : x.pl.actual0 ≤ x.pl.priced)
    (h : fragment c x = .frags fs) : ∀ f ∈ fs, fragSize x f ≤ x.mtu := by
  intro f hf
  obtain ⟨j, _, _, hov, _, rfl⟩ := Lemmas.loop_mem c x _ _ _ _ _ (Lemmas.fragment_frags c x fs h) f hf
  exact Lemmas.fragSize_le c x j hblk hpl hov

/-- A bundle returned as itself does fit. -/
theorem self_fits (x : In) (h : fragment Cfg.fixed x = .self) : x.size ≤ x.mtu := by
  unfold fragment at h
  split at h; · simp at h
  split at h
  · rename_i hfit; simpa [Cfg.fixed] using hfit
  · split at h
    · simp at h
    · simp only [Cfg.fixed, if_true] at h; split at h <;> simp at h

/-- **Never an empty list** (D1). -/
theorem never_empty (x : In) : fragment Cfg.fixed x ≠ .frags [] := by
  unfold fragment
  split; · simp
  split; · simp
  split
  · simp
  · rename_i fs _
    simp only [Cfg.fixed, if_true]
    cases fs <;> simp

/-- **A bundle that already fits is returned as itself** — also with an empty payload (D1). -/
theorem fits_returns_self (x : In) (hm : x.mustNotFragment = false) (hfit : x.size ≤ x.mtu) :
    fragment Cfg.fixed x = .self := by
  simp [fragment, hm, Cfg.fixed, hfit]

/-- **A must-not-fragment bundle is refused.** -/
theorem must_not_fragment_refused (c : Cfg) (x : In) (hm : x.mustNotFragment = true) :
    fragment c x = .error .mustNotFragment := by
  simp [fragment, hm]

/-- **Everything the Spec demands of the fragments**, for the model's output as the driver observes it
(`Frag.obs`): size ≤ mtu, fragment flag, identity, total, offsets, blocks of the first and of every
fragment, payload slices. Hypotheses: the pricing assumption of `size_bound` and one block per type
code (`Bundle.CheckValid`). -/
theorem fragment_ok (x : In) (fs : List Frag)
    (hblk : ∀ b ∈ x.blocks, b.actual ≤ b.priced) (hpl : x.pl.actual0 ≤ x.pl.priced)
    (hty : (x.blocks.map (·.type)).Nodup)
    (h : fragment Cfg.fixed x = .frags fs) :
    FragmentsOk x (base Cfg.fixed x) (tot Cfg.fixed x) (fs.map (Frag.obs x)) := by
  have hloop := Lemmas.fragment_frags _ _ _ h
  have hmem := Lemmas.loop_mem Cfg.fixed x _ _ _ _ _ hloop
  have hsub : ∀ j, ((carried x j).map (·.type)).Sublist (x.blocks.map (·.type)) := by
    intro j
    unfold carried
    split
    · exact List.Sublist.refl _
    · exact List.Sublist.map _ List.filter_sublist
  refine ⟨?_, ?_, ?_, ?_, ?_, ?_, ?_, ?_, ?_, ?_, ?_⟩
  · intro e
    have : fs = [] := by simpa using e
    exact never_empty x (this ▸ h)
  · intro o ho
    obtain ⟨f, hf, rfl⟩ := List.mem_map.mp ho
    exact size_bound _ x fs hblk hpl h f hf
  · intro o ho
    obtain ⟨f, _, rfl⟩ := List.mem_map.mp ho
    rfl
  · intro o ho
    obtain ⟨f, _, rfl⟩ := List.mem_map.mp ho
    rfl
  · intro o ho
    obtain ⟨f, _, rfl⟩ := List.mem_map.mp ho
    rfl
  · intro o ho
    obtain ⟨f, hf, rfl⟩ := List.mem_map.mp ho
    obtain ⟨j, _, _, _, _, rfl⟩ := hmem f hf
    rfl
  · have := fragment_offsets_partition _ x fs h
    simpa [List.map_map, Function.comp_def, Frag.obs] using this
  · intro o ho
    cases fs with
    | nil => simp at ho
    | cons f fs =>
      simp only [List.map_cons, List.head?_cons, Option.some.injEq] at ho
      subst ho
      have := (Lemmas.loop_head _ _ _ _ _ _ _ hloop).2
      simp [Frag.obs, this]
  · intro o ho b hb hr
    obtain ⟨f, hf, rfl⟩ := List.mem_map.mp ho
    obtain ⟨j, _, _, _, _, rfl⟩ := hmem f hf
    simp only [Frag.obs, List.mem_map]
    refine ⟨b, ?_, rfl⟩
    unfold carried
    split
    · exact hb
    · exact List.mem_filter.mpr ⟨hb, hr⟩
  · intro o ho
    obtain ⟨f, hf, rfl⟩ := List.mem_map.mp ho
    obtain ⟨j, _, _, _, _, rfl⟩ := hmem f hf
    exact ⟨rfl, List.Nodup.sublist (hsub j) hty, fun t ht => (hsub j).subset ht⟩
  · intro o ho
    obtain ⟨f, hf, rfl⟩ := List.mem_map.mp ho
    obtain ⟨j, _, _, _, _, rfl⟩ := hmem f hf
    refine ⟨rfl, ?_⟩
    simp only [Frag.obs, slice, Nat.add_sub_cancel_left]
    exact Lemmas.take_length_self _ _

/-- The executable classifier the driver applies to the implementation's fragments accepts exactly the
lists that satisfy the Spec. -/
theorem spec_classifier_exact (x : In) (start total : Nat) (fs : List Obs) :
    fragmentsFail x start total fs = none ↔ FragmentsOk x start total fs :=
  Lemmas.fragmentsFail_none_iff x start total fs

/-- **Fragments of a fragment keep absolute offsets and the original total** (D2): if the input is the
fragment `[off, off + n)` of a payload `p` with total `|p|`, every fragment cut from it is a genuine
fragment of `p` (flag, total `|p|`, bytes = `p`'s slice at its own offset) inside `[off, off + n)`. -/
theorem refragment_absolute (x : In) (p : List UInt8) (fs : List Frag) (hfr : x.isFragment = true)
    (hp : x.payload = (p.drop x.off).take x.payload.length) (hin : x.off + x.payload.length ≤ p.length)
    (ht : x.total = p.length) (h : fragment Cfg.fixed x = .frags fs) :
    ∀ f ∈ fs, FragOf p f.toR ∧ x.off ≤ f.off ∧ f.off + f.data.length ≤ x.off + x.payload.length := by
  have hb : base Cfg.fixed x = x.off := by simp [base, hfr, Cfg.fixed]
  have htt : tot Cfg.fixed x = p.length := by simp [tot, hfr, Cfg.fixed, ht]
  intro f hf
  have := Lemmas.fragment_fragOf x p fs (by rw [hb]; exact hp) (by rw [hb]; exact hin) htt h f hf
  rw [hb] at this
  exact ⟨this.1, this.2.1, this.2.2.1⟩

/-- **Reassembly inverts fragmentation** (model level; the byte-identity of the re-serialised bundle is
judged by the driver on the real code's output): the fragments of an unfragmented bundle, in any order
(any arrangement sorted by offset that an unstable sort may produce), reassemble to the original payload
and extension blocks. -/
theorem reassemble_inverts (x : In) (fs : List Frag) (hnf : x.isFragment = false)
    (h : fragment Cfg.fixed x = .frags fs) (s : List RFrag) (hperm : s.Perm (fs.map Frag.toR))
    (hs : SortedOff s) : reassembleSorted true s = .ok x.payload (x.blocks.map (·.type)) :=
  Lemmas.fragment_reassemble x fs hnf h s hperm hs

/-- … in particular with the model's own sort, for every permutation `π` of the fragments. -/
theorem reassemble_inverts_any_order (x : In) (fs : List Frag) (hnf : x.isFragment = false)
    (h : fragment Cfg.fixed x = .frags fs) (π : List RFrag) (hperm : π.Perm (fs.map Frag.toR)) :
    reassemble true π = .ok x.payload (x.blocks.map (·.type)) :=
  Lemmas.fragment_reassemble x fs hnf h _ ((Lemmas.perm_sortOff π).trans hperm) (Lemmas.sorted_sortOff π)

/-! ### Composition with the bundle codec model: the size bound in real terms, without hypotheses

`inOf b mtu` is the abstract input of a real bundle: every number is computed with the codec model's own
encoders exactly as the Go code computes it (blocks re-encoded with CRC type 2, the payload block with
an empty payload, the fragment primary block, the serialised bundle). `realFragment` is the bundle the
loop of `Bundle.Fragment` assembles (`Bundle.fragmentOf`). -/

open Dtn7.Bundle in
/-- **The pricing hypotheses of `size_bound` hold for every bundle that can be serialised at all**
(CRC types 0, 1, 2): re-encoding a block with CRC-32 never shortens it — the CRC field grows from 0/3
to 5 bytes, everything else is unchanged — and the same for the payload block with an empty payload. -/
theorem pricing_holds (b : Bundle) (mtu : Nat) (hs : b.serializable = true) :
    (∀ k ∈ (inOf b mtu).blocks, k.actual ≤ k.priced) ∧ (inOf b mtu).pl.actual0 ≤ (inOf b mtu).pl.priced := by
  have hk : ∀ c ∈ b.blocks, crcKnown c.crcT = true := by
    intro c hc
    simp only [Bundle.serializable, Bool.and_eq_true, List.all_eq_true] at hs
    have := hs.2 c hc
    simp only [Canonical.serializable, Bool.and_eq_true] at this
    exact this.2
  constructor
  · intro k hkm
    simp only [inOf, List.mem_map, List.mem_filter] at hkm
    obtain ⟨c, ⟨hc, _⟩, rfl⟩ := hkm
    exact Lemmas.actual_le_priced c (hk c hc)
  · simp only [inOf]
    cases hp : payloadBlock? b with
    | none => simp
    | some p =>
      have hm : p ∈ b.blocks := List.mem_of_find?_eq_some hp
      exact Lemmas.actual_le_priced { p with value := .payload [] } (hk p hm)

open Dtn7.Bundle in
/-- **Every fragment fits, in real terms**: for every serialisable bundle `b` of the codec model and
every limit, if `Bundle.Fragment` (either variant of the code) returns fragments, each of them — the
real bundle with fragment primary block, the blocks carried and the payload slice — serialises with the
real encoders to at most `mtu` bytes. No pricing hypothesis is left: `fragSize` of the abstract model
is proved equal to the real serialised length (`Lemmas.fragSize_eq_real`). -/
theorem fragments_fit_mtu (c : Frag.Cfg) (b : Bundle) (mtu : Nat) (hs : b.serializable = true)
    (fs : List Frag) (h : fragment c (inOf b mtu) = .frags fs) :
    ∀ f ∈ fs, (serializeRaw (realFragment c b mtu f)).length ≤ mtu := by
  intro f hf
  obtain ⟨hblk, hpl⟩ := pricing_holds b mtu hs
  have hsz := size_bound c (inOf b mtu) fs hblk hpl h f hf
  have hloop := Lemmas.fragment_frags c _ fs h
  obtain ⟨j, _, hj, _, _, rfl⟩ := Lemmas.loop_mem c _ _ _ _ _ _ hloop f hf
  cases hp : payloadBlock? b with
  | none =>
    have : (inOf b mtu).payload = [] := by simp [inOf, hp]
    rw [this] at hj
    simp at hj
  | some p =>
    have he := Lemmas.fragSize_eq_real c b mtu j
      ((inOf b mtu).payload.drop j |>.take ((inOf b mtu).mtu - overheadAt c (inOf b mtu) (extLen (inOf b mtu)).1 (extLen (inOf b mtu)).2 j))
      p hp
    have hfirst : (base c (inOf b mtu) + j == base c (inOf b mtu)) = decide (j = 0) := by
      by_cases h0 : j = 0 <;> simp [h0]
    simp only [realFragment, hfirst]
    rw [← he]
    exact hsz

/-- **A bundle returned as itself fits, in real terms.** -/
theorem self_fits_real (b : Dtn7.Bundle.Bundle) (mtu : Nat) (h : fragment Cfg.fixed (inOf b mtu) = .self) :
    (Dtn7.Bundle.serializeRaw b).length ≤ mtu :=
  self_fits (inOf b mtu) h

/-- … and a serialisable bundle that fits and may be fragmented is returned as itself. -/
theorem fits_returns_self_real (b : Dtn7.Bundle.Bundle) (mtu : Nat) (bs : List UInt8)
    (hser : Dtn7.Bundle.serialize b = .ok bs) (hfit : bs.length ≤ mtu)
    (hm : (inOf b mtu).mustNotFragment = false) : fragment Cfg.fixed (inOf b mtu) = .self := by
  apply fits_returns_self _ hm
  unfold Dtn7.Bundle.serialize at hser
  split at hser
  · simp only [Except.ok.injEq] at hser
    subst hser
    exact hfit
  · simp at hser

/-- Non-vacuity: a real bundle (replicated hop count block without CRC, 12 payload bytes, CRC-32 on the primary and
payload block) that is cut into real fragments, each within the limit. -/
example :
    let b : Dtn7.Bundle.Bundle := ⟨⟨7, 0, 2, .ipn 2 1, .ipn 1 1, .ipn 1 1, 700000000000, 0, 3600000, 0, 0⟩,
      [⟨2, 1, 0, .hop 10 3⟩, ⟨1, 0, 2, .payload [1, 2, 3, 4, 5, 6, 7, 8, 9, 10, 11, 12]⟩]⟩
    (match fragment Cfg.fixed (inOf b 73) with
      | .frags fs => fs.map fun f => ((Dtn7.Bundle.serializeRaw (realFragment Cfg.fixed b 73 f)).length, f.off, f.data.length)
      | _ => []) = [(67, 0, 3), (67, 3, 3), (67, 6, 3), (67, 9, 3)] ∧
    b.serializable = true ∧ (Dtn7.Bundle.serializeRaw b).length = 74 := by decide

/-! ### The code before the repairs (`Cfg.old`): witnesses of D1 and D2 -/

/-- A 70-byte bundle (10 payload bytes, no extension block) and the limit 70. -/
def wFits : In :=
  { mtu := 70, flags := 0, off := 0, total := 0, zeroTime := false, pbase := 52, size := 70,
    pl := ⟨false, 11, 6⟩, blocks := [], payload := [1, 2, 3, 4, 5, 6, 7, 8, 9, 10] }

/-- D1: the unrepaired code splits it into five fragments although it fits … -/
theorem old_fits_but_split_witness :
    (match fragment Cfg.old wFits with | .frags fs => fs.length | _ => 0) = 5 := by decide

/-- … the repaired code returns it as itself. -/
example : fragment Cfg.fixed wFits = .self := by decide

/-- D1: an empty payload yields the empty list. -/
theorem old_empty_payload_witness : fragment Cfg.old { wFits with payload := [], size := 60 } = .frags [] := by
  decide

/-- D2: the fragment `[20, 30)` of a 50-byte payload, cut again, restarts at offset 0 with total 10. -/
theorem old_refragment_witness :
    (match fragment Cfg.old { wFits with flags := 1, off := 20, total := 50, mtu := 72, size := 80 } with
      | .frags (f :: _) => (f.off, f.total) | _ => (99, 99)) = (0, 10) := by decide

example : (match fragment Cfg.fixed { wFits with flags := 1, off := 20, total := 50, mtu := 72, size := 80 } with
      | .frags (f :: _) => (f.off, f.total) | _ => (99, 99)) = (20, 50) := by decide

/-! ### Non-vacuity: concrete instances of the hypotheses -/

/-- hop-count block (not replicated) and a replicated block, payload of 12 bytes, limit 84. -/
def wBlocks : In :=
  { mtu := 84, flags := 0, off := 0, total := 0, zeroTime := false, pbase := 35, size := 98,
    pl := ⟨false, 11, 9⟩, blocks := [⟨2, 7, true, 14, 12⟩, ⟨3, 10, false, 15, 15⟩],
    payload := [1, 2, 3, 4, 5, 6, 7, 8, 9, 10, 11, 12] }

example : (match fragment Cfg.fixed wBlocks with | .frags fs => fs.map (fun f => (f.off, f.data.length)) | _ => []) =
    [(0, 4), (4, 8)] := by decide
example : (∀ b ∈ wBlocks.blocks, b.actual ≤ b.priced) ∧ wBlocks.pl.actual0 ≤ wBlocks.pl.priced ∧
    (wBlocks.blocks.map (·.type)).Nodup := by decide
example : fragment Cfg.fixed { wBlocks with mtu := 98 } = .self := by decide
example : fragment Cfg.fixed { wBlocks with mtu := 60 } = .error .overhead := by decide
example : fragment Cfg.fixed { wBlocks with flags := 4 } = .error .mustNotFragment := by decide
example : fragment Cfg.fixed { wBlocks with payload := [], size := 86, mtu := 60 } = .error .emptyResult := by decide
/-- zero creation time and an age block that is not replicated: the second fragment is invalid. -/
example : fragment Cfg.fixed { wBlocks with zeroTime := true, blocks := [⟨2, 7, false, 14, 12⟩], size := 83, mtu := 70 } =
    .error .invalid := by decide

end Dtn7.Props.C09
