/-
C12 — MTCP and the broadcast connector (BBC) deliver exactly what was sent or report failure.

Property theorems only; helper lemmas live in `Dtn7.Lemmas.{Mtcp,Bbc,BbcFrag}`.
-/
import Dtn7.Model.Mtcp
import Dtn7.Model.Bbc
import Dtn7.Lemmas.Mtcp
import Dtn7.Lemmas.MtcpBundles
import Dtn7.Lemmas.Bbc
import Dtn7.Gen.C12

namespace Dtn7.Props.C12
open Dtn7.Cbor (Bytes)

/-! ## Facts regenerated from the source -/

theorem gen_extraction_complete : Dtn7.Gen.C12.extractionFailures = [] := by decide

/-- The sender: `mtu − 2` payload bytes per fragment, START on the first call, the number advanced before use,
END when the rest fits. -/
theorem gen_bbc_sender :
    Dtn7.Gen.C12.fragmentIdentifierSize = Dtn7.Bbc.fragmentIdentifierSize ∧
    Dtn7.Gen.C12.nextSequenceNumber = ["return (seq + 1) % 16"] ∧
    Dtn7.Gen.C12.newPlainOutgoingTransmission =
      ["var fin = false", "if len(payload) == 0", "  fin = true",
       "t = &OutgoingTransmission{ Transmission: Transmission{ TransmissionID: transmissionID, Payload: payload, finished: fin, }, mtu: mtu - fragmentIdentifierSize, start: true, nextSegmentNo: 0, }",
       "return"] ∧
    Dtn7.Gen.C12.writeFragment =
      ["if t.IsFinished()", "  err = fmt.Errorf(\"Transmission was already marked as finished\")", "  return",
       "var nextPayload []byte", "if len(t.Payload) <= t.mtu", "  nextPayload = t.Payload", "  t.Payload = nil",
       "  t.finished = true", "else", "  nextPayload = t.Payload[:t.mtu]", "  t.Payload = t.Payload[t.mtu:]",
       "t.nextSegmentNo = nextSequenceNumber(t.nextSegmentNo)",
       "f = NewFragment(t.TransmissionID, t.nextSegmentNo, t.start, t.finished, false, nextPayload)",
       "t.start = false", "finished = t.IsFinished()", "return"] := ⟨rfl, rfl, rfl, rfl⟩

/-- The receiver: START required for a new entry, number = previous + 1 mod 16, no second START, END finishes;
any error deletes the entry and broadcasts `ReportFailure`; a finished entry is decoded, reported, deleted. -/
theorem gen_bbc_receiver :
    Dtn7.Gen.C12.newIncomingTransmission =
      ["if !f.StartBit()", "  err = fmt.Errorf(\"Fragment has no start bit\")", "  return",
       "t = &IncomingTransmission{ Transmission: Transmission{ TransmissionID: f.TransmissionID(), Payload: f.Payload, finished: f.EndBit(), }, prevSequenceNo: f.SequenceNumber(), }",
       "return"] ∧
    Dtn7.Gen.C12.readFragment =
      ["if t.IsFinished()", "  err = fmt.Errorf(\"Transmission was already marked as finished\")", "  return",
       "if f.TransmissionID() != t.TransmissionID",
       "  err = fmt.Errorf(\"transmission ID mismatches: Fragment got %x, expected %x\", f.TransmissionID(), t.TransmissionID)",
       "  return",
       "if expected := nextSequenceNumber(t.prevSequenceNo); f.SequenceNumber() != expected",
       "  err = fmt.Errorf(\"expected sequence number of %x, got %x\", expected, f.SequenceNumber())", "  return",
       "if f.StartBit()", "  err = fmt.Errorf(\"Fragment has start bit, but previous data was already read\")", "  return",
       "t.Payload = append(t.Payload, f.Payload...)", "t.finished = f.EndBit()", "t.prevSequenceNo = f.SequenceNumber()",
       "finished = t.IsFinished()", "return"] ∧
    Dtn7.Gen.C12.handleIncomingFragment =
      ["var ( logger = log.WithField(\"bbc\", c.Address()) transmission *IncomingTransmission known bool )",
       "defer func", "  if err == nil", "    return", "  c.fragmentOut <- frag.ReportFailure()",
       "if frag.FailBit()", "  c.failTransmission <- frag.TransmissionID()", "  return",
       "if transmission, known = c.transmissions[frag.TransmissionID()]; !known",
       "  transmission, err = c.handleIncomingNewTransmission(frag)", "else",
       "  err = c.handleIncomingKnownTransmission(frag, transmission)", "if err != nil", "  return",
       "if transmission.IsFinished()", "  var bndl bpv7.Bundle",
       "  if bndl, err = transmission.Bundle(); err == nil",
       "    c.reportChan <- cla.NewConvergenceReceivedBundle(c, bpv7.DtnNone(), &bndl)", "  else",
       "  delete(c.transmissions, transmission.TransmissionID)", "return"] ∧
    Dtn7.Gen.C12.handleIncomingNewTransmission =
      ["if trans, err = NewIncomingTransmission(frag); err == nil", "  c.transmissions[trans.TransmissionID] = trans",
       "return"] ∧
    Dtn7.Gen.C12.handleIncomingKnownTransmission =
      ["if _, err = trans.ReadFragment(frag); err != nil", "  delete(c.transmissions, trans.TransmissionID)", "return"] ∧
    Dtn7.Gen.C12.reportFailure =
      ["return NewFragment(f.TransmissionID(), f.SequenceNumber(), false, false, true, []byte{})"] :=
  ⟨rfl, rfl, rfl, rfl, rfl, rfl⟩

/-- MTCP: `Send` writes head, bundle, flushes, then the zero-length probe; the server loop reads a head, skips 0,
otherwise parses one bundle from the stream. -/
theorem gen_mtcp :
    Dtn7.Gen.C12.clientSendCalls =
      ["func", "recover", "func", "cla.NewConvergencePeerDisappeared", "client.GetPeerEndpointID", "client.mutex.Lock",
       "client.mutex.Unlock", "bufio.NewWriter", "new", "cboring.Marshal", "cboring.WriteByteStringLen", "uint64",
       "buff.Len", "buff.WriteTo", "connWriter.Flush", "cboring.WriteByteStringLen"] ∧
    Dtn7.Gen.C12.handleSender =
      ["defer func", "  _ = conn.Close()", "  if r := recover(); r != nil", "connReader := bufio.NewReader(conn)", "for",
       "  if n, err := cboring.ReadByteStringLen(connReader); err != nil", "    if err != io.EOF", "    return",
       "  else if n == 0", "    continue", "  bndl := new(bpv7.Bundle)",
       "  if err := cboring.Unmarshal(bndl, connReader); err != nil", "    return", "  else",
       "    serv.reportChan <- cla.NewConvergenceReceivedBundle(serv, serv.endpointID, bndl)"] := ⟨rfl, rfl⟩

/-- `Send`: five I/O steps, the first failing one is returned; the deferred function reports `PeerDisappeared`
exactly when the returned error is non-nil. -/
theorem gen_mtcp_send :
    Dtn7.Gen.C12.clientSend =
      ["defer func", "  if r := recover(); r != nil", "    err = fmt.Errorf(\"MTCPClient.Send: %v\", r)",
       "defer func", "  if err != nil",
       "    client.reportChan <- cla.NewConvergencePeerDisappeared(client, client.GetPeerEndpointID())",
       "client.mutex.Lock()", "defer client.mutex.Unlock()", "connWriter := bufio.NewWriter(client.conn)",
       "buff := new(bytes.Buffer)", "if cborErr := cboring.Marshal(&bndl, buff); cborErr != nil", "  err = cborErr",
       "  return", "if bsErr := cboring.WriteByteStringLen(uint64(buff.Len()), connWriter); bsErr != nil",
       "  err = bsErr", "  return", "if _, plErr := buff.WriteTo(connWriter); plErr != nil", "  err = plErr", "  return",
       "if flushErr := connWriter.Flush(); flushErr != nil", "  err = flushErr", "  return",
       "if probeErr := cboring.WriteByteStringLen(0, client.conn); probeErr != nil", "  err = probeErr", "  return",
       "return"] := rfl

/-! ## MTCP -/
section
open Dtn7.Mtcp Dtn7.Wire

/-- **Send on a broken connection**: whichever of the five steps fails — in particular any write the operating
system refuses — `Send` returns an error AND reports the peer as gone; it returns nil only if every step,
including the final probe write, succeeded. (WHETHER a write on a connection the peer has closed fails is
decided by TCP, not by this code: D32, observed by the harness, not provable here.) -/
theorem mtcp_send_error_reports_gone (ios : List Bool) :
    (send ios).peerDisappeared = (send ios).err ∧
    ((send ios).err = false ↔ ∃ rest, ios = true :: true :: true :: true :: true :: rest) := by
  refine ⟨rfl, ?_⟩
  rcases ios with _ | ⟨a, _ | ⟨b, _ | ⟨c, _ | ⟨d, _ | ⟨e, rest⟩⟩⟩⟩⟩
  · simp [send, sendSteps]
  · cases a <;> simp [send, sendSteps]
  · cases a <;> cases b <;> simp [send, sendSteps]
  · cases a <;> cases b <;> cases c <;> simp [send, sendSteps]
  · cases a <;> cases b <;> cases c <;> cases d <;> simp [send, sendSteps]
  · cases a <;> cases b <;> cases c <;> cases d <;> cases e <;> simp [send, sendSteps]

example : send [true, true, true, true, true] = ⟨false, false, 5⟩ := by decide
example : send [true, true, true, true, false] = ⟨true, true, 4⟩ := by decide
example : send [true, true, false] = ⟨true, true, 2⟩ := by decide

/-- The keep-alive / probe byte is the head of the empty byte string. -/
theorem mtcp_keepalive_is_empty_bytestring : keepalive = Dtn7.Cbor.encHead Dtn7.Cbor.majBytes 0 := by decide

/-- **mtcp_stream**: whatever frames and keep-alives are interleaved on one connection, the server reports
exactly the bundles, in order, and ends cleanly — given a bundle codec with the exact-consumption property
(C01's theorem), non-empty encodings shorter than 2^64. -/
theorem mtcp_stream {B} (c : Codec B) (hg : Lemmas.Good c) (items : List (Item B)) :
    server c (items.flatMap (encItem c)) = (bundlesOf items, .eof) :=
  Lemmas.server_stream c hg items

theorem bundlesOf_perm {B} {a b : List (Item B)} (h : a.Perm b) : (bundlesOf a).Perm (bundlesOf b) := by
  induction h with
  | nil => exact List.Perm.nil
  | cons x _ ih => cases x <;> simp only [bundlesOf] <;> first | exact ih | exact ih.cons _
  | swap x y l =>
    cases x <;> cases y <;> simp only [bundlesOf] <;>
      first | exact List.Perm.refl _ | exact List.Perm.swap _ _ _
  | trans _ _ ih1 ih2 => exact ih1.trans ih2

/-- **Concurrent senders on one client** (`mtcp_concurrent_senders`): `Send` and the keep-alive ticker write a
frame / a keep-alive while holding the client's mutex (`gen_mtcp_send`: Lock before the first write, the deferred
Unlock after the probe), so what several goroutines put on the wire is SOME interleaving `merged` of whole
items. Whatever that interleaving is, the server reports exactly the bundles sent — each one once, as sent, the
order being that of the interleaving — and ends cleanly. (`concsend` lines judge the same on the implementation.) -/
theorem mtcp_concurrent_senders {B} (c : Codec B) (hg : Lemmas.Good c) (perSender : List (List (Item B)))
    (merged : List (Item B)) (hm : merged.Perm perSender.flatten) :
    (server c (merged.flatMap (encItem c))).1.Perm (bundlesOf perSender.flatten) ∧
    (server c (merged.flatMap (encItem c))).2 = .eof := by
  rw [mtcp_stream c hg merged]
  exact ⟨bundlesOf_perm hm, rfl⟩

/-- **mtcp_prefix**: a connection cut after ANY number of bytes yields a prefix of the sent bundles — never a
different bundle — provided a truncated encoding is not itself a bundle (self-delimiting codec). -/
theorem mtcp_prefix {B} (c : Codec B) (hg : Lemmas.Good c)
    (hcut : ∀ b k, k < (c.enc b).length → ∀ x, c.parse ((c.enc b).take k) ≠ .ok x)
    (items : List (Item B)) (k : Nat) :
    (server c ((items.flatMap (encItem c)).take k)).1 <+: bundlesOf items :=
  Lemmas.server_prefix c hg hcut items k

/-! ### … composed with the real bundle codec (C01): no abstract codec hypothesis left -/

/-- **mtcp_stream_bundles**: for every list of bundles that the wire can carry (`Encodable`), that are valid at
the receiver's clock and whose encoding is shorter than 2^64 bytes, and for EVERY interleaving with keep-alives,
the server loop — reading heads and handing the stream to the real `Bundle.UnmarshalCbor` model — reports
exactly those bundles, in order, and ends cleanly. (`cfg.strict`: the repaired decoder, as pinned by C01's facts.) -/
theorem mtcp_stream_bundles (cfg : Dtn7.Bundle.Cfg) (hs : cfg.strict = true) (now : Nat)
    (items : List (Item Dtn7.Bundle.Bundle)) (hP : ∀ b ∈ bundlesOf items, Bundles.Sendable cfg now b) :
    server (Bundles.codec cfg now) (items.flatMap (encItem (Bundles.codec cfg now))) = (bundlesOf items, .eof) :=
  Lemmas.server_stream_on (Bundles.codec cfg now) (Bundles.codec_good cfg hs now) items hP

/-- **mtcp_prefix_bundles**: a connection cut after ANY number of bytes yields a prefix of the sent bundles — never a
different bundle. No hypothesis about the codec is left: "a strict prefix of a bundle's encoding is not accepted as
a bundle" is `bundle_truncated_rejected` below (C01's exact consumption + extension stability of the real parser,
`Dtn7.Lemmas.BundleStable`). -/
theorem mtcp_prefix_bundles (cfg : Dtn7.Bundle.Cfg) (hs : cfg.strict = true) (now : Nat)
    (items : List (Item Dtn7.Bundle.Bundle)) (hP : ∀ b ∈ bundlesOf items, Bundles.Sendable cfg now b) (k : Nat) :
    (server (Bundles.codec cfg now) ((items.flatMap (encItem (Bundles.codec cfg now))).take k)).1 <+: bundlesOf items :=
  Lemmas.server_prefix_on (Bundles.codec cfg now) (Bundles.codec_good cfg hs now)
    (fun b hb k hk x hx => Bundles.parse_truncated cfg hs now b hb k hk x ((Bundles.codec_parse_ok cfg now _ x).mp hx))
    items hP k

/-- No strict prefix of a sendable bundle's serialisation is accepted by `Bundle.UnmarshalCbor`. -/
theorem bundle_truncated_rejected (cfg : Dtn7.Bundle.Cfg) (hs : cfg.strict = true) (now : Nat)
    (b : Dtn7.Bundle.Bundle) (hb : Bundles.Sendable cfg now b) (k : Nat)
    (hk : k < (Dtn7.Bundle.serializeRaw b).length) (x : Dtn7.Bundle.Bundle × Bytes) :
    Dtn7.Bundle.parse cfg now ((Dtn7.Bundle.serializeRaw b).take k) ≠ .ok x :=
  Bundles.parse_truncated cfg hs now b hb k hk x

/-- What the real parser accepts on a byte string it accepts, with the same bundle, when more bytes follow. -/
theorem bundle_parse_extension_stable (cfg : Dtn7.Bundle.Cfg) (now : Nat) (p : Bytes) (b : Dtn7.Bundle.Bundle)
    (r t : Bytes) (h : Dtn7.Bundle.parse cfg now p = .ok (b, r)) :
    Dtn7.Bundle.parse cfg now (p ++ t) = .ok (b, r ++ t) :=
  Dtn7.Bundle.Stable.parse_stable cfg now p b r t h

/-- Non-vacuity of `Sendable` (the example bundle of C01: a fragment with ipn source, five blocks, CRC-16/32). -/
example : Bundles.Sendable {} 800000000000
    ⟨⟨7, 1 + 2 ^ 17, 1, .dtn [110, 49] [97, 47, 98], .ipn 23 42, .none, 799999990000, 7, 3600000, 256, 70000⟩,
     [⟨2, 1, 2, .prevNode (.dtn [103, 119] [])⟩, ⟨3, 0, 1, .hop 30 30⟩, ⟨4, 16, 0, .age 65536⟩,
      ⟨9, 0, 2, .generic 4000000000 [1, 2, 3]⟩, ⟨1, 0, 2, .payload [104, 105]⟩]⟩ := by
  decide +kernel

/-- Non-vacuity: a toy codec (one byte `b` encoded as `[b]`) satisfies the hypotheses … -/
def toyCodec : Codec UInt8 :=
  { enc := fun b => [b], parse := fun bs => match bs with | [] => .error .eof | b :: r => .ok (b, r) }

theorem toy_good : Lemmas.Good toyCodec :=
  Lemmas.Good.mk' (fun _ _ => rfl) (fun _ => by simp [toyCodec]) (fun _ => by simp [toyCodec])

example : server toyCodec ([Item.keepalive, .bundle 7, .keepalive, .keepalive, .bundle 9].flatMap (encItem toyCodec)) =
    ([7, 9], .eof) := by decide
example : (server toyCodec (([Item.bundle 7, .bundle 9].flatMap (encItem toyCodec)).take 3)).1 = [7] := by decide
end

/-! ## BBC -/
section
open Dtn7.Bbc

/-- **bbc_train_ok**: for a modem MTU ≥ 3 and a non-empty payload, no fragment exceeds the MTU, numbers are
1, 2, …, 15, 0, 1, …, START exactly on the first, END exactly on the last, and the pieces concatenate to the payload. -/
theorem bbc_train_ok (tid : UInt8) (mtu : Nat) (payload : Bytes) (hm : 3 ≤ mtu) (hp : payload ≠ []) :
    TrainOk tid mtu payload (train tid mtu payload) :=
  Lemmas.train_ok tid mtu payload hm hp

/-- **bbc_roundtrip**: ANY train meeting the Spec (so in particular the sender's), fed in order to a
connector without an entry for the id, is delivered exactly once, silently, and leaves no entry. -/
theorem bbc_roundtrip (decodes : Bytes → Bool) (tid : UInt8) (mtu : Nat) (payload : Bytes) (t : List Frag)
    (ht : TrainOk tid mtu payload t) (hd : decodes payload = true) :
    runSt decodes none t = (none, [.deliver tid payload]) := by
  obtain ⟨h1, _, h3, h4⟩ := ht
  have := Lemmas.run_whole decodes tid t h1 h3
  rw [Lemmas.pick_range, h4] at this
  rw [this]
  simp [Lemmas.endOut, hd]

/-- **bbc_safe**: whatever selection of the train's fragments arrives — drops, duplications, reorderings — as long
as consecutive arrivals are less than 16 positions away from being consecutive, everything the receiver
delivers is the identical payload. -/
theorem bbc_safe (decodes : Bytes → Bool) (tid : UInt8) (mtu : Nat) (payload : Bytes) (t : List Frag)
    (ht : TrainOk tid mtu payload t) (is : List Nat) (hin : ∀ j ∈ is, j < t.length) (hw : windowOk is = true) :
    ∀ o ∈ run decodes none (pick t is), o.isDeliver = true → o = .deliver tid payload := by
  obtain ⟨_, _, h3, h4⟩ := ht
  rw [← h4]
  exact Lemmas.safe decodes tid t h3 is hin hw

/-- **bbc_single_fault_signalled** (partial: D29). A single drop, duplication or adjacent swap makes the receiver
broadcast a failure fragment — EXCEPT the two classes `Fault.silent`: the END fragment (or the only fragment) is
lost; the only fragment of a one-fragment transmission is duplicated. -/
theorem bbc_single_fault_signalled_partial (decodes : Bytes → Bool) (tid : UInt8) (mtu : Nat) (payload : Bytes)
    (t : List Frag) (ht : TrainOk tid mtu payload t) (fault : Fault) (hv : fault.valid t.length)
    (hsil : ¬ fault.silent t.length) :
    ∃ o ∈ run decodes none (pick t (fault.apply t.length)), o.isFailFrag = true :=
  Lemmas.single_fault_signalled decodes tid t ht.1 ht.2.2.1 fault hv hsil

/-- D29, first class: the END fragment of a three-fragment train is lost — nothing at all comes out (no delivery,
no failure fragment) … -/
theorem drop_end_silent_witness :
    run (fun _ => true) none (pick (train 7 3 [1, 2, 3]) ((Fault.drop 2).apply 3)) = [] := by decide

/-- … and the stale entry then makes the NEXT transmission with that id fail although it arrives intact. -/
theorem drop_end_poisons_next_witness :
    (run (fun _ => true) none (pick (train 7 3 [1, 2, 3]) ((Fault.drop 2).apply 3) ++ train 7 3 [4, 5])).any
      Out.isFailFrag = true := by decide

/-- D29, second class: a one-fragment transmission received twice is delivered twice, silently. -/
theorem dup_single_redelivered_witness :
    run (fun _ => true) none (pick (train 7 5 [1, 2, 3]) ((Fault.dup 0).apply 1)) =
      [.deliver 7 [1, 2, 3], .deliver 7 [1, 2, 3]] := by decide

/-- Why "fewer than sixteen": exactly 16 consecutive fragments missing goes unnoticed by the receiver
(only the bundle's own checksums can catch it). -/
theorem sixteen_missing_witness :
    run (fun _ => true) none
        (pick (train 7 3 (List.replicate 19 5)) ([0] ++ List.range' 17 2)) =
      [.deliver 7 [5, 5, 5]] := by decide

/-- **bbc_concurrent**: for EVERY interleaving of fragments of different transmissions, what the connector
emits for id `k` is what a receiver that only saw id `k`'s fragments emits. -/
theorem bbc_concurrent (decodes : Bytes → Bool) (k : UInt8) (fs : List Frag) (tab : Table) :
    (runTable decodes tab fs).filter (·.tid == k) = run decodes (tab.get k) (fs.filter (·.tid == k)) :=
  Lemmas.runTable_project decodes k fs tab

/-- Safety and concurrency together: in ANY stream of fragments of any transmissions in which the fragments
carrying id `tid` are a selection of one well-formed train (consecutive arrivals less than 16 positions apart),
everything an initially empty connector delivers under that id is the train's payload. -/
theorem bbc_safe_concurrent (decodes : Bytes → Bool) (tid : UInt8) (mtu : Nat) (payload : Bytes) (t : List Frag)
    (ht : TrainOk tid mtu payload t) (is : List Nat) (hin : ∀ j ∈ is, j < t.length) (hw : windowOk is = true)
    (fs : List Frag) (hsel : fs.filter (·.tid == tid) = pick t is) :
    ∀ o ∈ runTable decodes [] fs, o.tid = tid → o.isDeliver = true → o = .deliver tid payload := by
  intro o ho htid hdel
  have hmem : o ∈ (runTable decodes [] fs).filter (·.tid == tid) := by
    simp [List.mem_filter, ho, htid]
  rw [bbc_concurrent decodes tid fs [], hsel] at hmem
  exact bbc_safe decodes tid mtu payload t ht is hin hw o hmem hdel

example : TrainOk 7 4 [1, 2, 3, 4, 5] (train 7 4 [1, 2, 3, 4, 5]) := by decide
example : (train 7 4 [1, 2, 3, 4, 5]).map (·.bytes) = [[7, 0x0C, 1, 2], [7, 0x10, 3, 4], [7, 0x1A, 5]] := by decide
example : windowOk ((Fault.swap 1).apply 4) = true := by decide
example : (Fault.drop 1).valid 3 ∧ ¬ (Fault.drop 1).silent 3 := by decide
end

end Dtn7.Props.C12
