/-
C18 — spray-and-wait never exceeds, and never leaks, its copy budget.
Property theorems only; helper lemmas live in `Dtn7.Lemmas.Spray`, the model and the Spec predicates
(`Budget`, `Conservation`, `FailureReturnsCopy`, `SingleCopyWaits`, `BinarySplit`) in
`Dtn7.Model.Spray`.

Reading guide. A history is a list of events (`submit`, `receive k prev`, `peerUp`, `peerDown`,
`tick`, `restart`, `loopback k prev` = the bundle is received again while it is still in the store:
the node's own bundle looped back by a peer, or a relayed bundle arriving a second time); every event that forwards the bundle carries the environment's choices `Env`:
the order in which the CLA manager lists its senders, the set of peers whose `Send` fails, and the
schedule `σ` of the concurrent `ReportFailure` goroutines (a list of thread indices; a blocked or
finished thread that is scheduled stutters, so *every* list is a schedule and every interleaving of
the goroutines is one of them). All theorems quantify over all of these. `Params` = `{}` is the code
after the three `fix:` commits; the witnesses at the end run the model of the code before them.
-/
import Dtn7.Model.Spray
import Dtn7.Lemmas.Spray
import Dtn7.Gen.C18

namespace Dtn7.Props.C18
open Dtn7.Spray Dtn7.Spray.Lemmas

/-! ### Facts regenerated from the source (extract/c18.go) -/

theorem gen_extraction_complete : Dtn7.Gen.C18.extractionFailures = [] := by decide

/-- `ReportFailure` of both algorithms: `Lock` · read `bundleData[id]` · write it back · `Unlock`
(deferred) — exactly the micro-step program of the model. -/
theorem gen_report_failure_locks :
    Dtn7.Gen.C18.reportFailureOpsSprayAndWait = (rfProgram true).map Op.name ∧
    Dtn7.Gen.C18.reportFailureOpsBinarySpray = (rfProgram true).map Op.name := by decide

/-- The give-back happens only inside `if metadata.sent[i] == sender.GetPeerEndpointID()`, one copy
for spray-and-wait … -/
theorem gen_report_failure_spray :
    Dtn7.Gen.C18.reportFailureSkeletonSprayAndWait =
      ["sw.dataMutex.Lock()",
       "defer sw.dataMutex.Unlock()",
       "metadata, ok := sw.bundleData[bp.Id]",
       "if !ok",
       "  return",
       "for i := 0; i < len(metadata.sent); i++",
       "  if metadata.sent[i] == sender.GetPeerEndpointID()",
       "    metadata.sent = append(metadata.sent[:i], metadata.sent[i+1:]...)",
       "    metadata.remainingCopies = metadata.remainingCopies + 1",
       "    break",
       "sw.bundleData[bp.Id] = metadata"] := by decide

/-- … and the value of the failed bundle's BinarySprayBlock for binary spray (no report at all if
the bundle carries no such block). -/
theorem gen_report_failure_binary :
    Dtn7.Gen.C18.reportFailureSkeletonBinarySpray =
      ["metadataBlock, err := bp.MustBundle().ExtensionBlock(bpv7.ExtBlockTypeBinarySprayBlock)",
       "if err != nil",
       "  return",
       "binarySprayBlock := metadataBlock.Value.(*bpv7.BinarySprayBlock)",
       "bs.dataMutex.Lock()",
       "defer bs.dataMutex.Unlock()",
       "metadata, ok := bs.bundleData[bp.Id]",
       "if !ok",
       "  return",
       "for i := 0; i < len(metadata.sent); i++",
       "  if metadata.sent[i] == sender.GetPeerEndpointID()",
       "    metadata.sent = append(metadata.sent[:i], metadata.sent[i+1:]...)",
       "    metadata.remainingCopies = metadata.remainingCopies + binarySprayBlock.RemainingCopies()",
       "    break",
       "bs.bundleData[bp.Id] = metadata"] := by decide

/-- `SenderForBundle` of both algorithms has the same bracket: its read-modify-write of the bundle's
metadata is one atomic `Action.pick` of the model. -/
theorem gen_sender_for_bundle_locks :
    Dtn7.Gen.C18.senderForBundleOpsSprayAndWait = (rfProgram true).map Op.name ∧
    Dtn7.Gen.C18.senderForBundleOpsBinarySpray = (rfProgram true).map Op.name := by decide

/-- `SprayAndWait.SenderForBundle`: nothing below two copies (before and inside the loop), peers in
`sent` are skipped, a selected peer is appended to `sent` and costs one copy. -/
theorem gen_sender_for_bundle_spray :
    Dtn7.Gen.C18.senderForBundleSkeletonSprayAndWait =
      ["sw.dataMutex.Lock()",
       "defer sw.dataMutex.Unlock()",
       "metadata, ok := sw.bundleData[bp.Id]",
       "if !ok",
       "  return",
       "if metadata.remainingCopies < 2",
       "  return nil, false",
       "for _, cs := range sw.c.claManager.Sender()",
       "  if metadata.remainingCopies < 2",
       "    break",
       "  var skip = false",
       "  for _, eid := range metadata.sent",
       "    if cs.GetPeerEndpointID() == eid",
       "      skip = true",
       "      break",
       "  if !skip",
       "    css = append(css, cs)",
       "    metadata.sent = append(metadata.sent, cs.GetPeerEndpointID())",
       "    metadata.remainingCopies = metadata.remainingCopies - 1",
       "sw.bundleData[bp.Id] = metadata",
       "del = false",
       "return"] := by decide

/-- `BinarySpray.SenderForBundle`: nothing below two copies, the first peer not in `sent` is appended
to `sent` and gets `remainingCopies / 2` copies, which are subtracted and written into the bundle's
BinarySprayBlock (existing or new); one peer per call. -/
theorem gen_sender_for_bundle_binary :
    Dtn7.Gen.C18.senderForBundleSkeletonBinarySpray =
      ["bs.dataMutex.Lock()",
       "defer bs.dataMutex.Unlock()",
       "metadata, ok := bs.bundleData[bp.Id]",
       "if !ok",
       "  return",
       "if metadata.remainingCopies < 2",
       "  return nil, false",
       "for _, cs := range bs.c.claManager.Sender()",
       "  var skip = false",
       "  for _, eid := range metadata.sent",
       "    if cs.GetPeerEndpointID() == eid",
       "      skip = true",
       "      break",
       "  if !skip",
       "    css = append(css, cs)",
       "    metadata.sent = append(metadata.sent, cs.GetPeerEndpointID())",
       "    sendCopies := metadata.remainingCopies / 2",
       "    metadata.remainingCopies = metadata.remainingCopies - sendCopies",
       "    if metadataBlock, err := bp.MustBundle().ExtensionBlock(bpv7.ExtBlockTypeBinarySprayBlock); err == nil",
       "      binarySprayBlock := metadataBlock.Value.(*bpv7.BinarySprayBlock)",
       "      binarySprayBlock.SetCopies(sendCopies)",
       "    else",
       "      metadataBlock := bpv7.NewBinarySprayBlock(sendCopies)",
       "      bp.MustBundle().AddExtensionBlock(bpv7.NewCanonicalBlock(0, 0, metadataBlock))",
       "    break",
       "bs.bundleData[bp.Id] = metadata",
       "del = false",
       "return"] := by decide

/-- `NotifyNewBundle`: `L` copies for a bundle originated here and one for a relayed bundle
(spray-and-wait, decided by the source endpoint); the announced copies if there is a
BinarySprayBlock and `L` otherwise (binary spray). `L` is `SprayConfig.Multiplicity`, which has no
default in the code (the sample configuration shows 10). -/
theorem gen_notify :
    Dtn7.Gen.C18.notifyCopiesSprayAndWait = ["sw.l", "1"] ∧
    Dtn7.Gen.C18.notifyConditionsSprayAndWait =
      ["sw.c.HasEndpoint(bp.MustBundle().PrimaryBlock.SourceNode)"] ∧
    Dtn7.Gen.C18.notifyCopiesBinarySpray = ["binarySprayBlock.RemainingCopies()", "bs.l", "1"] ∧
    Dtn7.Gen.C18.notifyConditionsBinarySpray =
      ["metadataBlock, err := bp.MustBundle().ExtensionBlock(bpv7.ExtBlockTypeBinarySprayBlock); err == nil",
       "bs.c.HasEndpoint(bp.MustBundle().PrimaryBlock.SourceNode)"] ∧
    Dtn7.Gen.C18.multiplicitySourceSprayAndWait = ["config.Multiplicity"] ∧
    Dtn7.Gen.C18.multiplicitySourceBinarySpray = ["config.Multiplicity"] ∧
    Dtn7.Gen.C18.multiplicityHasCodeDefault = false ∧
    Dtn7.Gen.C18.sampleMultiplicity = 10 ∧
    Dtn7.Gen.C18.binarySprayBlockType = 192 := by decide

/-- The remaining accesses to `bundleData`: `NotifyNewBundle` stores the fresh entry under `Lock` (one
of its two resp. three branches), `GarbageCollect` runs `cleanupMetaData` under `Lock`. No access outside the mutex. -/
theorem gen_other_locks :
    Dtn7.Gen.C18.notifyOpsSprayAndWait = ["lock", "write", "unlock", "lock", "write", "unlock"] ∧
    Dtn7.Gen.C18.notifyOpsBinarySpray =
      ["lock", "write", "unlock", "lock", "write", "unlock", "lock", "write", "unlock"] ∧
    Dtn7.Gen.C18.garbageCollectCallsSprayAndWait =
      ["sw.dataMutex.Lock", "cleanupMetaData", "sw.dataMutex.Unlock"] ∧
    Dtn7.Gen.C18.garbageCollectCallsBinarySpray =
      ["bs.dataMutex.Lock", "cleanupMetaData", "bs.dataMutex.Unlock"] := by decide

/-- `Core.receive`: the test "the descriptor loaded from the store already has constraints ⇒ known
bundle ⇒ return" comes before `NotifyNewBundle` (the first two entries); a duplicate reception never
reaches the algorithm. -/
theorem gen_receive_known_first :
    Dtn7.Gen.C18.receiveOrder.take 2 = ["if len(bp.Constraints) > 0", "  return"] ∧
    Dtn7.Gen.C18.receiveOrder.getLast? = some "c.routing.NotifyNewBundle(bp)" := by decide

/-- `Core.forward`: direct delivery first, the algorithm only if there is no sender for the
destination; every failed `Send` is reported; `checkPendingBundles` re-dispatches pending bundles. -/
theorem gen_forward :
    Dtn7.Gen.C18.forwardSenders =
      ["var deleteAfterwards = true",
       "nodes = c.senderForDestination(bp.MustBundle().PrimaryBlock.Destination)",
       "if nodes == nil",
       "  nodes, deleteAfterwards = c.routing.SenderForBundle(bp)",
       "    if err := node.Send(*bp.MustBundle()); err != nil",
       "      c.routing.ReportFailure(bp, node)",
       "  if deleteAfterwards"] ∧
    Dtn7.Gen.C18.checkPendingCalls = ["c.store.QueryPending", "c.dispatching", "NewBundleDescriptor"] := by
  decide

/-! ### Concurrent failure reports -/

/-- **Every schedule of the concurrent `ReportFailure` calls is linearizable**: whatever the
interleaving `σ` of their lock / read / write-back / unlock steps, the metadata afterwards is what
some of the reports, applied one after the other, produce; once all goroutines have returned these
are *all* reports (in some order). No update is lost. -/
theorem failure_reports_linearizable (a : Algo) (md : Option Meta) (reports : List (Peer × Nat))
    (σ : List Nat) :
    ∃ order : List (Peer × Nat),
      (reportFailures {} a md reports σ).1.md = giveBackAll {} a md order ∧
      (∀ k ∈ order, k ∈ reports) ∧
      (allDone (rfProgram true) (reportFailures {} a md reports σ).2 = true → md.isSome →
        order.Perm reports) :=
  reportFailures_linearizable a md reports σ

/-- **Overlapping `forward` runs** (the cron job's retry and the one triggered by a new peer work on
the same bundle): any number of concurrent `SenderForBundle` and `ReportFailure` calls, any schedule
`σ` — the metadata afterwards is that of a *sequential* execution of some of the calls (all of them
once every goroutine has returned), and each call was computed from the state its predecessor in
that execution left behind (`Chained`), so the senders it selected are the ones it selects there. -/
theorem metadata_updates_linearizable (a : Algo) (md : Option Meta) (acts : List Action) (σ : List Nat) :
    ∃ order : List (Action × Meta),
      (concurrentUpdates {} a md acts σ).1.md = applyAll {} a md (order.map (·.1)) ∧
      Chained {} a md order ∧
      (∀ k ∈ order.map (·.1), k ∈ acts) ∧
      (allDone (rfProgram true) (concurrentUpdates {} a md acts σ).2 = true → md.isSome →
        (order.map (·.1)).Perm acts) :=
  updates_linearizable a md acts σ

/-- … hence spray-and-wait's conservation law survives every interleaving of them: copies kept +
peers recorded in `sent` is unchanged, the last copy is never handed out. -/
theorem spray_conservation_overlapping_runs (acts : List Action)
    (h : ∀ k ∈ acts, match k with | .giveBack _ g => g = 1 | .pick _ => True) (m : Meta)
    (σ : List Nat) :
    ∃ m', (concurrentUpdates {} .spray (some m) acts σ).1.md = some m' ∧
      m'.remaining + m'.sent.length = m.remaining + m.sent.length ∧
      (1 ≤ m.remaining → 1 ≤ m'.remaining) :=
  spray_concurrent_conserves acts (fun k hk => by
    have := h k hk
    cases k <;> simp_all [SprayAction]) m σ

/-! ### Spray-and-wait, bundle originated here -/

/-- A node before the bundle enters it: arbitrary configuration `L`, destination, connected peers,
left-over metadata; nothing stored, nothing sent. -/
def FreshSpray (s : Node) : Prop := s.algo = .spray ∧ s.stored = false ∧ s.log = []

/-- The bundle enters the node once: no other `submit`, and no `receive` of it once it has left the
store again. Duplicate receptions while it is stored (`loopback`) are ordinary events of the history. -/
def NoEntry (evs : List Event) : Prop := ∀ ev ∈ evs, ev.isEntry = false

/-- **Conservation** (∀ L, peers, histories, schedules — complete or not): copies kept plus
transmissions outstanding or successful (`sent`) are exactly `L`; every successful relay is in `sent`;
at least one copy is kept. -/
theorem spray_conservation (s : Node) (hs : FreshSpray s) (pre rest : List Event) (e : Env)
    (hpre : NoEntry pre) (hrest : NoEntry rest) (m : Meta)
    (hm : (run {} s (pre ++ .submit e :: rest)).md = some m) :
    m.remaining + m.sent.length = s.l ∧
    ((relayed s.dest (run {} s (pre ++ .submit e :: rest)).log).map (·.peer)).Sublist m.sent ∧
    (1 ≤ s.l → 1 ≤ m.remaining) := by
  have h := (spray_run_inv s hs.1 ⟨hs.2.1, hs.2.2⟩ pre rest e hpre hrest).md m hm
  have hc := run_config {} s (pre ++ .submit e :: rest)
  rw [hc.2.1, hc.2.2] at h
  exact h

/-- **Budget**: successful transmissions to peers other than the destination never exceed `L − 1`,
whatever the order of peer appearances, retries, failures, restarts and failure-report schedules. -/
theorem spray_budget (s : Node) (hs : FreshSpray s) (pre rest : List Event) (e : Env)
    (hpre : NoEntry pre) (hrest : NoEntry rest) :
    Budget s.l s.dest (run {} s (pre ++ .submit e :: rest)).log := by
  have h := (spray_run_inv s hs.1 ⟨hs.2.1, hs.2.2⟩ pre rest e hpre hrest).budget
  have hc := run_config {} s (pre ++ .submit e :: rest)
  rw [hc.2.1, hc.2.2] at h
  exact h

/-- **Conservation on the observations**: when the failure reports of every forwarding step have
finished (`wg.Wait()`), copies kept + successful relays = `L` — nothing leaked, nothing minted. -/
theorem spray_conservation_quiescent (s : Node) (hs : FreshSpray s) (pre rest : List Event) (e : Env)
    (hpre : NoEntry pre) (hrest : NoEntry rest)
    (hc : runComplete {} s (pre ++ .submit e :: rest) = true) (m : Meta)
    (hm : (run {} s (pre ++ .submit e :: rest)).md = some m) :
    Conservation s.l s.dest (run {} s (pre ++ .submit e :: rest)).log m.remaining := by
  have h1 := spray_conservation s hs pre rest e hpre hrest m hm
  have h2 : s.dest ∉ m.sent ∧
      m.sent.length = (relayed s.dest (run {} s (pre ++ .submit e :: rest)).log).length := by
    have := (spray_run_qinv s hs.1 ⟨hs.2.1, hs.2.2⟩ pre rest e hpre hrest hc) m hm
    rw [(run_config fixed s (pre ++ .submit e :: rest)).2.2] at this
    exact this
  unfold Conservation
  omega

/-- **A failed transmission gives its copy back — also when several failures are reported at
once**: one forwarding step from any state (metadata `m`, destination not in `sent`), any number of
failing peers, any complete schedule of their reports: the count drops by exactly the number of
*successful* relays of the step. -/
theorem failure_returns_copy (s : Node) (e : Env) (ha : s.algo = .spray) (hst : s.stored = true)
    (m : Meta) (hm : s.md = some m) (hd : s.dest ∉ m.sent)
    (hc : forwardComplete {} s e = true) :
    ∃ m', (forward {} s e).md = some m' ∧
      FailureReturnsCopy s.dest m.remaining (forwardSends s e) m'.remaining := by
  obtain ⟨m', h1, _, h3, _⟩ := forward_spray_exact s e ha hst m hm hd hc
  exact ⟨m', h1, h3⟩

/-! ### Binary spray -/

/-- **Split**: a transmission to a non-destination peer out of `r` copies announces `⌊r/2⌋` in the
bundle's BinarySprayBlock; after a success announced + kept = `r`, after a failure the count is `r`
again (`BinarySplit`); it only happens with `r ≥ 2` and to one peer per forwarding step. -/
theorem binary_split (s : Node) (e : Env) (ha : s.algo = .binary) (hst : s.stored = true)
    (m : Meta) (hm : s.md = some m) (hd : s.dest ∉ m.sent)
    (hc : forwardComplete {} s e = true) :
    ∃ m', (forward {} s e).md = some m' ∧
      ∀ x ∈ forwardSends s e, x.peer ≠ s.dest →
        2 ≤ m.remaining ∧ BinarySplit m.remaining x m'.remaining ∧ forwardSends s e = [x] := by
  obtain ⟨m', h1, _, h3, _⟩ := forward_binary_exact s e ha hst m hm hd hc
  exact ⟨m', h1, fun x hx hne => ⟨(h3 x hx hne).1, (h3 x hx hne).2.1, (h3 x hx hne).2.2.2⟩⟩

/-- **A failed transmission restores the sender's state**: count and `sent` list are as before. -/
theorem binary_failure_restores (s : Node) (e : Env) (ha : s.algo = .binary) (hst : s.stored = true)
    (m : Meta) (hm : s.md = some m) (hd : s.dest ∉ m.sent)
    (hc : forwardComplete {} s e = true)
    (x : Send) (hx : x ∈ forwardSends s e) (hne : x.peer ≠ s.dest) (hfail : x.ok = false) :
    (forward {} s e).md = some m := by
  obtain ⟨m', h1, _, h3, _⟩ := forward_binary_exact s e ha hst m hm hd hc
  rw [h1, (h3 x hx hne).2.2.1 hfail]

/-- A step without a relay (direct delivery — successful or failed —, nobody eligible, fewer than two
copies) leaves the count alone: a failed direct delivery neither mints nor burns copies. -/
theorem binary_no_relay_keeps_count (s : Node) (e : Env) (ha : s.algo = .binary)
    (hst : s.stored = true) (m : Meta) (hm : s.md = some m) (hd : s.dest ∉ m.sent)
    (hc : forwardComplete {} s e = true) (hall : ∀ x ∈ forwardSends s e, x.peer = s.dest) :
    (forward {} s e).md = some m := by
  obtain ⟨m', h1, _, _, h4⟩ := forward_binary_exact s e ha hst m hm hd hc
  rw [h1, h4 hall]

/-- **A node holding a single copy only ever transmits to the destination itself** (either
algorithm; every history without a new entry of the bundle, every schedule, including restarts
after which there is no metadata at all) — and its count never grows. -/
theorem binary_single_copy_waits (s : Node) (evs : List Event) (hne : NoEntry evs)
    (h : ∀ m, s.md = some m → m.remaining < 2 ∧ s.dest ∉ m.sent) :
    (∀ x ∈ (run {} s evs).log, x ∈ s.log ∨ x.peer = s.dest) ∧
    (∀ m, (run {} s evs).md = some m → m.remaining < 2) :=
  waits_run s evs hne h

/-- … in particular a bundle received with an announced count below two (binary spray), or any
relayed bundle under spray-and-wait, provided it did not arrive from its own destination. -/
theorem relay_single_copy_waits (s : Node) (hf : s.stored = false ∧ s.log = []) (k : Option Nat)
    (prev : Option Peer) (e : Env) (rest : List Event) (hrest : NoEntry rest)
    (hk : (notify s.algo s.l ⟨false, k, prev⟩).remaining < 2) (hprev : prev ≠ some s.dest) :
    ∀ x ∈ (run {} s (.receive k prev e :: rest)).log, x.peer = s.dest := by
  have hsent : s.dest ∉ (notify s.algo s.l ⟨false, k, prev⟩).sent := by
    intro hmem
    apply hprev
    cases ha : s.algo <;> cases k <;> cases prev <;> simp_all [notify]
  -- the forwarding step of the receive event itself
  have hstep := forward_waits
    { s with md := some (notify s.algo s.l ⟨false, k, prev⟩), stored := true, bblock := k } e
    (fun m hm => by simp only [Option.some.injEq] at hm; subst hm; exact ⟨hk, hsent⟩)
  have hstep_eq : step {} s (.receive k prev e) =
      forward {} { s with md := some (notify s.algo s.l ⟨false, k, prev⟩), stored := true, bblock := k } e := rfl
  have hdest : (step {} s (.receive k prev e)).dest = s.dest := (step_config {} s _).2.2
  have hlog1 : ∀ x ∈ (step {} s (.receive k prev e)).log, x.peer = s.dest := by
    intro x hx
    rw [hstep_eq, forward_log] at hx
    rcases List.mem_append.mp hx with hx | hx
    · rw [show ({ s with md := some (notify s.algo s.l ⟨false, k, prev⟩), stored := true,
                          bblock := k } : Node).log = s.log from rfl, hf.2] at hx
      cases hx
    · exact hstep.2 x hx
  have hw := waits_run (step {} s (.receive k prev e)) rest hrest (fun m hm => by
    rw [hstep_eq, hstep.1] at hm
    simp only [Option.some.injEq] at hm
    subst hm
    rw [hdest]; exact ⟨hk, hsent⟩)
  intro x hx
  rw [run_cons] at hx
  rcases hw.1 x hx with h1 | h1
  · exact hlog1 x h1
  · rw [h1, hdest]

/-! ### Non-vacuity: concrete histories satisfying the hypotheses -/

/-- L = 3, destination 0, peers 1..3. -/
def exNode : Node := { algo := .spray, l := 3, dest := 0 }
def exEnv (fails : List Peer) (k : Nat) : Env :=
  { order := [3, 2, 1, 0], fails := fails, sched := seqSched 4 k ++ seqSched 4 k }
def exHistory : List Event :=
  [.peerUp 1 (exEnv [] 0), .peerUp 2 (exEnv [] 0), .submit (exEnv [1, 2] 2), .tick (exEnv [2] 1),
   .loopback none (some 1), .restart, .peerUp 3 (exEnv [] 0), .loopback (some 7) (some 3),
   .peerUp 0 (exEnv [0] 1), .tick (exEnv [] 0)]

example : FreshSpray exNode := ⟨rfl, rfl, rfl⟩
example : runComplete {} exNode exHistory = true := by decide
example : (run {} exNode exHistory).log.length = 6 := by decide
example : Budget 3 0 (run {} exNode exHistory).log := by decide
/-- Both failure reports of the `submit` step interleaved as R₁R₂W₁W₂ is attempted (thread 1 is
blocked by the lock and stutters), then both finish: two copies come back. -/
example : (forward {} { exNode with md := some ⟨[], 3⟩, stored := true, conn := [1, 2] }
    { order := [1, 2], fails := [1, 2], sched := [0, 0, 1, 1, 0, 0, 1, 1, 1, 1] }).md = some ⟨[], 3⟩ := by
  decide
example : forwardComplete {} { exNode with md := some ⟨[], 3⟩, stored := true, conn := [1, 2] }
    { order := [1, 2], fails := [1, 2], sched := [0, 0, 1, 1, 0, 0, 1, 1, 1, 1] } = true := by decide
/-- Binary spray: 5 copies, peer 1 gets ⌊5/2⌋ = 2, then (3 kept) peer 2 gets 1 but fails: 3 again. -/
def exBinary : Node := { algo := .binary, l := 5, dest := 0 }
example : (run {} exBinary [.peerUp 1 (exEnv [] 0), .submit (exEnv [] 0), .peerUp 2 (exEnv [2] 1)]).log
    = [⟨1, true, some 2⟩, ⟨2, false, some 1⟩] := by decide
example : (run {} exBinary [.peerUp 1 (exEnv [] 0), .submit (exEnv [] 0), .peerUp 2 (exEnv [2] 1)]).md
    = some ⟨[1], 3⟩ := by decide
example : (run {} exBinary [.receive (some 1) (some 2) (exEnv [] 0), .peerUp 1 (exEnv [] 0),
    .peerUp 0 (exEnv [] 0)]).log = [⟨0, true, some 1⟩] := by decide

/-! ### Witnesses: the behaviour of the code before the `fix:` commits (model parameters) -/

/-- D26a — read under `RLock`, write back under a separate `Lock`: with the interleaving
R₁ R₂ W₁ W₂ of two failure reports one of the two copies is lost (2 instead of 3), although both
goroutines have finished. -/
theorem lost_update_witness :
    let r := reportFailures { atomicRF := false } .spray (some ⟨[1, 2], 1⟩) [(1, 1), (2, 1)]
      [0, 0, 0, 1, 1, 1, 0, 0, 0, 1, 1, 1]
    allDone (rfProgram false) r.2 = true ∧ r.1.md = some ⟨[1], 2⟩ := by decide

/-- The same schedule against the repaired program: the second goroutine is blocked until the first
has written back; nothing is lost. -/
theorem lost_update_repaired :
    (reportFailures {} .spray (some ⟨[1, 2], 1⟩) [(1, 1), (2, 1)]
      ([0, 0, 0, 1, 1, 1, 0, 0, 0, 1, 1, 1] ++ seqSched 4 2)).1.md = some ⟨[], 3⟩ := by decide

/-- D26c — `SenderForBundle` had the same pattern: two overlapping `forward` runs (L = 2, peers 1 and
2 listed in different orders) both read "2 copies, nobody served", both select a peer; the metadata
ends as `⟨[2], 1⟩`, peer 1 has been served as well and is not even recorded. With the lock held
across the call the second run sees one copy and selects nobody. -/
theorem overlapping_picks_witness :
    let r := concurrentUpdates { atomicRF := false } .spray (some ⟨[], 2⟩) [.pick [1, 2], .pick [2, 1]]
      [0, 0, 0, 1, 1, 1, 0, 0, 0, 1, 1, 1]
    allDone (rfProgram false) r.2 = true ∧ r.1.md = some ⟨[2], 1⟩ ∧
    r.1.order = [(.pick [1, 2], ⟨[], 2⟩), (.pick [2, 1], ⟨[], 2⟩)] ∧
    ¬ Chained { atomicRF := false } .spray (some ⟨[], 2⟩) r.1.order := by decide

theorem overlapping_picks_repaired :
    let r := concurrentUpdates {} .spray (some ⟨[], 2⟩) [.pick [1, 2], .pick [2, 1]]
      ([0, 0, 0, 1, 1, 1, 0, 0, 0, 1, 1, 1] ++ seqSched 4 2)
    r.1.md = some ⟨[1], 1⟩ ∧
    r.1.order = [(.pick [1, 2], ⟨[], 2⟩), (.pick [2, 1], ⟨[1], 1⟩)] := by decide

/-- D26b — a failed *direct* delivery also added a copy: L = 2, the destination is in reach but two
deliveries fail, it leaves, and three foreign peers end up with the bundle (budget L − 1 = 1). -/
def d26bHistory : List Event :=
  [.peerUp 0 (exEnv [] 0), .submit (exEnv [0] 1), .tick (exEnv [0] 1), .peerDown 0,
   .peerUp 1 (exEnv [] 0), .peerUp 2 (exEnv [] 0), .peerUp 3 (exEnv [] 0)]

theorem direct_failure_mints_copy_witness :
    ¬ Budget 2 0 (run { onlySent := false } { algo := .spray, l := 2, dest := 0 } d26bHistory).log ∧
    ((run { onlySent := false } { algo := .spray, l := 2, dest := 0 } d26bHistory).log.filter
      (fun x => x.ok && x.peer != 0)).map (·.peer) = [1, 2, 3] := by decide

theorem direct_failure_repaired :
    Budget 2 0 (run {} { algo := .spray, l := 2, dest := 0 } d26bHistory).log := by decide

/-- D27 — binary spray added the failed transmission's copies to the block of the discarded
in-memory bundle, not to `remainingCopies`: 4 copies, one failed transmission, 2 left and nobody has
the other 2. -/
theorem binary_leak_witness :
    (run { binaryRestores := false } { algo := .binary, l := 4, dest := 0 }
      [.peerUp 1 (exEnv [] 0), .submit (exEnv [1] 1)]).md = some ⟨[], 2⟩ := by decide

theorem binary_leak_repaired :
    (run {} { algo := .binary, l := 4, dest := 0 }
      [.peerUp 1 (exEnv [] 0), .submit (exEnv [1] 1)]).md = some ⟨[], 4⟩ := by decide

/-- Why `Core.receive` must return *before* `NotifyNewBundle` for a bundle it already knows
(fact `gen_receive_known_first`): were the algorithm notified again, the node's own bundle looped back
by peer 1 would refill the budget and forget who was served — L = 3: peers 1 and 2 are served, the
duplicate arrives, peers 1 (again), 3 and 4... four successful relays instead of at most two. -/
theorem renotify_refills_budget_witness :
    let s1 := run {} { algo := .spray, l := 3, dest := 0 }
      [.submit (exEnv [] 0), .peerUp 1 (exEnv [] 0), .peerUp 2 (exEnv [] 0)]
    let s2 := run {} (loopbackRenotify s1 true none (some 1)) [.tick (exEnv [] 0), .peerUp 3 (exEnv [] 0)]
    Budget 3 0 s1.log ∧ ¬ Budget 3 0 s2.log ∧
    (relayed 0 s2.log).map (·.peer) = [1, 2, 2, 1] := by decide

/-- The model's `loopback` is what the unchanged code does: nothing. -/
theorem loopback_is_noop (s : Node) (k : Option Nat) (prev : Option Peer) :
    step {} s (.loopback k prev) = s := rfl

/-- Why `relay_single_copy_waits` excludes a bundle that arrived from its own destination: the
previous node is recorded in `sent`, so a failed direct delivery to it is taken for a failed relay
and returns a copy — the relay then holds two copies and sprays one. (A node that is the bundle's
destination delivers it locally and never forwards it, so this needs a forged PreviousNodeBlock.) -/
theorem previous_node_is_destination_witness :
    (run {} { algo := .spray, l := 4, dest := 0 }
      [.peerUp 0 (exEnv [] 0), .receive none (some 0) (exEnv [0] 1), .peerDown 0,
       .peerUp 1 (exEnv [] 0)]).log = [⟨0, false, none⟩, ⟨1, true, none⟩] := by decide

end Dtn7.Props.C18
