/-
C19 — PRoPHET predictabilities stay probabilities and gate forwarding.
Property theorems only; helper lemmas live in `Dtn7.Lemmas.{Prophet,ProphetRat,ProphetF64,F64,SchedRW}`.

Every arithmetic theorem exists twice: `…_exact` on exact rationals and (unsuffixed) on the binary64
ROUNDING model (`fadd/fsub/fmul = rne ∘ exact`, values = integers in units of 2^-1074), which the
correspondence run compares bit for bit with Go's float64.
-/
import Dtn7.Model.Prophet
import Dtn7.Model.SchedRW
import Dtn7.Lemmas.Prophet
import Dtn7.Lemmas.ProphetRat
import Dtn7.Lemmas.ProphetF64
import Dtn7.Lemmas.F64
import Dtn7.Lemmas.SchedRW
import Dtn7.Gen.C19
import Mathlib.Tactic.NormNum

namespace Dtn7.Props.C19
open Dtn7 Dtn7.Prophet Dtn7.Lemmas.Prophet

/-! ## Facts regenerated from the Go source (extract/c19.go) -/

theorem gen_no_extraction_failures : Gen.C19.extractionFailures = [] := by decide

/-- The arithmetic of `encounter`, `agePred`, `transitivity` in the source: operands and operation
ORDER (reverse Polish, see `Dtn7.Prophet.evalRpn`), the configuration constant used, where `pOld`
and `peerPred` are read from. -/
theorem gen_arithmetic :
    Gen.C19.encounterRpn = [1, 0, 1, 11, 2, 12, 10] ∧ Gen.C19.encounterConst = "PInit" ∧
    Gen.C19.encounterPOld = "prophet.predictabilities[peer]" ∧
    Gen.C19.ageRpn = [1, 2, 12] ∧ Gen.C19.ageConst = "Gamma" ∧
    Gen.C19.agePOld = "prophet.predictabilities[peer]" ∧
    Gen.C19.transRpn = [1, 0, 1, 11, 3, 12, 4, 12, 2, 12, 10] ∧ Gen.C19.transConst = "Beta" ∧
    Gen.C19.transPOld = "prophet.predictabilities[otherPeer]" ∧
    Gen.C19.transPeerPred = "prophet.predictabilities[peer]" := by decide

/-- The model's formulas ARE the source's expressions (for every number type). -/
theorem encounter_expr_is_model {α : Type} (o : Ops α) (pOld c a b : α) :
    evalRpn o pOld c a b Gen.C19.encounterRpn [] = some (encounterVal o c pOld) := rfl
theorem age_expr_is_model {α : Type} (o : Ops α) (pOld c a b : α) :
    evalRpn o pOld c a b Gen.C19.ageRpn [] = some (ageVal o c pOld) := rfl
theorem trans_expr_is_model {α : Type} (o : Ops α) (pOld c a b : α) :
    evalRpn o pOld c a b Gen.C19.transRpn [] = some (transVal o c pOld a b) := rfl

/-- The bodies of the four small functions, statement by statement (logging removed). -/
theorem gen_skeletons :
    Gen.C19.encounterSkeleton =
      ["pOld := prophet.predictabilities[peer]",
       "pNew := pOld + ((1 - pOld) * prophet.config.PInit)",
       "prophet.predictabilities[peer] = pNew"] ∧
    Gen.C19.ageSkeleton =
      ["pOld := prophet.predictabilities[peer]",
       "pNew := pOld * prophet.config.Gamma",
       "prophet.predictabilities[peer] = pNew"] ∧
    Gen.C19.ageCronSkeleton =
      ["prophet.dataMutex.Lock()", "defer prophet.dataMutex.Unlock()",
       "for peer := range prophet.predictabilities", "  prophet.agePred(peer)"] ∧
    Gen.C19.transSkeleton =
      ["peerPredictabilities, present := prophet.peerPredictabilities[peer]",
       "if !present", "  return",
       "for otherPeer, otherPeerPred := range peerPredictabilities",
       "  peerPred := prophet.predictabilities[peer]",
       "  pOld := prophet.predictabilities[otherPeer]",
       "  pNew := pOld + ((1 - pOld) * peerPred * otherPeerPred * prophet.config.Beta)",
       "  prophet.predictabilities[otherPeer] = pNew"] := by decide

/-- `SenderForBundle`: the strict comparison and its operands; metadata bundles return `nil, true`
before the loop; `NotifyNewBundle` imports a vector only behind the "addressed to me" guard. -/
theorem gen_forwarding :
    Gen.C19.forwardCond = "peerPred > ownPred" ∧
    Gen.C19.forwardPeerPred = "prophet.peerPredictabilities[peerID][destination]" ∧
    Gen.C19.forwardOwnPred = "prophet.predictabilities[destination]" ∧
    Gen.C19.metadataReturnsNilTrue = true ∧
    Gen.C19.importGuard = "bp.MustBundle().PrimaryBlock.Destination != prophet.c.NodeId" ∧
    Gen.C19.prophetBlockType = 194 := by decide

/-- The documented default constants (cmd/dtnd/configuration.toml) are binary64 values in [0,1]. -/
theorem gen_defaults :
    Gen.C19.default_pinit = "0.75" ∧ Gen.C19.default_beta = "0.25" ∧ Gen.C19.default_gamma = "0.98" ∧
    (F64.ofBits Gen.C19.default_pinit_bits).map inUnit = some true ∧
    (F64.ofBits Gen.C19.default_beta_bits).map inUnit = some true ∧
    (F64.ofBits Gen.C19.default_gamma_bits).map inUnit = some true := by
  set_option exponentiation.threshold 3000 in
  set_option maxRecDepth 20000 in
  decide

/-! ### the lock table (F4) -/

/-- The entry points of `*Prophet` (methods not called by other methods of the type). -/
theorem gen_entry_methods :
    Gen.C19.entryMethods = ["DispatchingAllowed", "NotifyNewBundle", "ReportFailure",
      "ReportPeerAppeared", "ReportPeerDisappeared", "SenderForBundle", "ageCron"] := by decide

/-- The structured walk met no lock operation it could not follow (no Lock/Unlock inside a branch
that continues, no double acquisition, no unbalanced method). -/
theorem gen_lock_walk_clean : Gen.C19.lockWalkProblems = [] := by decide

/-- Every access to `predictabilities` / `peerPredictabilities`, with the state of `dataMutex`. -/
theorem gen_lock_table :
    Gen.C19.lockTable =
     [("NotifyNewBundle", "NotifyNewBundle", "peerPredictabilities", "read", "W"),
      ("NotifyNewBundle", "NotifyNewBundle", "peerPredictabilities", "write", "W"),
      ("NotifyNewBundle", "transitivity", "peerPredictabilities", "read", "W"),
      ("NotifyNewBundle", "transitivity", "predictabilities", "read", "W"),
      ("NotifyNewBundle", "transitivity", "predictabilities", "read", "W"),
      ("NotifyNewBundle", "transitivity", "predictabilities", "write", "W"),
      ("ReportPeerAppeared", "encounter", "predictabilities", "read", "W"),
      ("ReportPeerAppeared", "encounter", "predictabilities", "write", "W"),
      ("ReportPeerAppeared", "sendMetadata", "predictabilities", "read", "R"),
      ("ReportPeerAppeared", "sendMetadata", "predictabilities", "range", "R"),
      ("SenderForBundle", "SenderForBundle", "peerPredictabilities", "read", "R"),
      ("SenderForBundle", "SenderForBundle", "predictabilities", "read", "R"),
      ("ageCron", "ageCron", "predictabilities", "range", "W"),
      ("ageCron", "agePred", "predictabilities", "read", "W"),
      ("ageCron", "agePred", "predictabilities", "write", "W")] := by decide

/-- No unprotected entry: writes under W, reads under R or W, the maps are never handed out. -/
theorem gen_all_protected :
    ∀ a ∈ Gen.C19.lockTable,
      a.2.2.2.1 ≠ "escape" ∧ a.2.2.2.2 ≠ "none" ∧ (a.2.2.2.1 = "write" → a.2.2.2.2 = "W") := by decide

/-- The shapes of the entry methods, decoded from the extractor's trace codes. -/
def prophetMethods : List (List (SchedRW.Item Nat)) :=
  Gen.C19.traces.map fun t => SchedRW.decodeMethod t.2

theorem gen_trace_codes_known : ∀ t ∈ Gen.C19.traces, SchedRW.codesKnown t.2 = true := by decide

/-- Premise of `protected_imp_race_free` for both maps (0 = predictabilities,
1 = peerPredictabilities): every method obeys the lock discipline and is balanced. -/
theorem gen_methods_disciplined :
    ∀ ℓ ∈ [0, 1], ∀ m ∈ prophetMethods, SchedRW.shapeEnd ℓ .none m = some .none := by decide

/-- The tree before the `fix:` commit for D28 (`SenderForBundle` read both maps without the mutex,
`sendMetadata` handed the own map to the metadata block) does NOT satisfy that premise. -/
theorem d28_witness :
    let before : List (List Nat) := [[2, 10, 20, 3, 1, 30, 3], [11, 10]]
    ¬ (∀ ℓ ∈ [0, 1], ∀ c ∈ before, SchedRW.shapeEnd ℓ .none (SchedRW.decodeMethod c) = some .none) := by
  decide

/-! ## Concurrency -/

/-- **No concurrent map access.** Let any number of goroutines each run any sequence of calls of
`*Prophet`'s entry methods (peer appeared ‖ metadata received ‖ ageing ‖ SenderForBundle ‖ …, every
path through their branches and loops). Then in no state reachable under any feasible schedule of
the RW-mutex semantics is a write to one of the two maps about to happen together with another
access to the same map — the situation in which Go's runtime aborts with "concurrent map read and
map write". Follows from the extracted lock table by `protected_imp_race_free`. -/
theorem no_concurrent_map_access (progs : List (List (SchedRW.Step Nat)))
    (hp : ∀ p ∈ progs, SchedRW.ProgOf prophetMethods p) (σ : List Nat) (s' : SchedRW.State Nat)
    (h : SchedRW.exec (SchedRW.init progs) σ = some s') :
    ¬ SchedRW.Racy 0 s' ∧ ¬ SchedRW.Racy 1 s' :=
  ⟨Lemmas.SchedRW.methods_race_free 0 prophetMethods
      (gen_methods_disciplined 0 (by decide)) progs hp σ s' h,
   Lemmas.SchedRW.methods_race_free 1 prophetMethods
      (gen_methods_disciplined 1 (by decide)) progs hp σ s' h⟩

/-- The generic theorem it instantiates. -/
theorem protected_imp_race_free {L : Type} [DecidableEq L] (ℓ : L)
    (progs : List (List (SchedRW.Step L)))
    (hp : ∀ p ∈ progs, (SchedRW.wlEnd ℓ .none p).isSome = true) (σ : List Nat)
    (s' : SchedRW.State L) (h : SchedRW.exec (SchedRW.init progs) σ = some s') :
    ¬ SchedRW.Racy ℓ s' :=
  Lemmas.SchedRW.protected_imp_race_free ℓ progs hp σ s' h

/-- Without the discipline the semantics does exhibit the race: an unlocked reader (the old
`SenderForBundle`) next to `ageCron`. -/
theorem race_semantics_witness :
    ∃ s', SchedRW.exec (SchedRW.init [[.read 0], [.acqW, .write 0, .rel]]) [1] = some s' ∧
      SchedRW.Racy (0 : Nat) s' :=
  ⟨_, rfl, 1, 0, .write 0, .read 0, by decide, rfl, rfl, rfl, rfl⟩

/-! ## Range and monotonicity — exact rationals -/

/-- `0 ≤ v ≤ 1` -/
abbrev ProbQ := Lemmas.Prophet.ProbQ

/-- **Range invariant (exact).** Constants in [0,1], all received values in [0,1], a start state
within [0,1] (e.g. the empty one) ⇒ after every event sequence every held value is in [0,1]. -/
theorem range_inv_exact {κ : Type} [DecidableEq κ] (cfg : Cfg Rat) (hc : CfgDom ProbQ cfg)
    (evs : List (Ev κ Rat)) (hev : ∀ ev ∈ evs, EvDom ProbQ ev) (st : St κ Rat) (hs : StDom ProbQ st) :
    ∀ kv ∈ (run ratOps cfg st evs).own, 0 ≤ kv.2 ∧ kv.2 ≤ 1 :=
  (run_dom ratLaws cfg hc evs hev st hs).1

theorem encounter_mono_exact {κ : Type} [DecidableEq κ] (cfg : Cfg Rat) (hc : CfgDom ProbQ cfg)
    (st : St κ Rat) (hs : StDom ProbQ st) (peer k : κ) :
    mget 0 st.own k ≤ mget 0 (encounter ratOps cfg st peer).own k :=
  encounter_le ratLaws cfg hc st hs peer k

theorem ageing_antitone_exact {κ : Type} [DecidableEq κ] (cfg : Cfg Rat) (hc : CfgDom ProbQ cfg)
    (st : St κ Rat) (hs : StDom ProbQ st) (k : κ) :
    mget 0 (ageAll ratOps cfg st).own k ≤ mget 0 st.own k :=
  ageAll_le ratLaws cfg hc st hs k

theorem transitive_mono_exact {κ : Type} [DecidableEq κ] (cfg : Cfg Rat) (hc : CfgDom ProbQ cfg)
    (st : St κ Rat) (hs : StDom ProbQ st) (toMe : Bool) (peer : κ) (vec : List (κ × Rat))
    (hv : MapDom ProbQ vec) (k : κ) :
    mget 0 st.own k ≤ mget 0 (receiveVec ratOps cfg st toMe peer vec).own k :=
  receiveVec_le ratLaws cfg hc st hs toMe peer vec hv k

/-! ## The three facts about the concrete `rne` (unit 2^-1074, `x` extra fraction bits) -/

theorem rne_monotone (x : Nat) {k1 k2 : Nat} (h : k1 ≤ k2) : F64.rneNat x k1 ≤ F64.rneNat x k2 :=
  Lemmas.F64.rneNat_mono x h

theorem rne_exact_on_doubles (x f : Nat) (hf : F64.IsF64 f) : F64.rneNat x (f * 2 ^ x) = f :=
  Lemmas.F64.rneNat_exact x f hf

theorem rne_result_is_double (x k : Nat) : F64.IsF64 (F64.rneNat x k) := Lemmas.F64.rneNat_isF64 x k

/-- `p + rne((1 − p) · …)` rounds to at most 1: whatever `t ≤ rne(1 − p)` is added to `p ≤ 1`. -/
theorem rne_add_one_sub_le_one (p t : Nat) (hp : p ≤ 2 ^ 1074)
    (ht : t ≤ F64.rneNat 0 (2 ^ 1074 - p)) : F64.rneNat 0 (p + t) ≤ 2 ^ 1074 :=
  Lemmas.F64.add_one_sub_le_one p t hp ht

/-- The bound behind it is tight: 1 + 2⁻⁵³ still rounds to 1 (tie to even), one unit more does not. -/
theorem rne_tie_at_one :
    F64.rneNat 0 (2 ^ 1074 + 2 ^ 1021) = 2 ^ 1074 ∧
    F64.rneNat 0 (2 ^ 1074 + 2 ^ 1021 + 1) = 2 ^ 1074 + 2 ^ 1022 := by
  set_option exponentiation.threshold 3000 in
  set_option maxRecDepth 20000 in
  decide

/-! ## Range and monotonicity — binary64 rounding model -/

/-- `v` (units of 2^-1074) is a binary64 value in [0,1]. -/
abbrev ProbF := Lemmas.Prophet.ProbF

theorem probF_iff (v : Int) : ProbF v ↔ 0 ≤ v ∧ v ≤ F64.one ∧ F64.IsF64 v.toNat :=
  Lemmas.Prophet.probF_iff v

/-- **Range invariant (binary64).** Constants and received values binary64 numbers in [0,1], start
state within [0,1] ⇒ after EVERY event sequence (encounters, ageing ticks, received vectors in any
iteration order) every held value is in [0,1] — rounding never pushes a value out. -/
theorem range_inv {κ : Type} [DecidableEq κ] (cfg : Cfg Int) (hc : CfgDom ProbF cfg)
    (evs : List (Ev κ Int)) (hev : ∀ ev ∈ evs, EvDom ProbF ev) (st : St κ Int) (hs : StDom ProbF st) :
    ∀ kv ∈ (run f64Ops cfg st evs).own, 0 ≤ kv.2 ∧ kv.2 ≤ F64.one := by
  intro kv hkv
  have := (probF_iff kv.2).1 ((run_dom f64Laws cfg hc evs hev st hs).1 kv hkv)
  exact ⟨this.1, this.2.1⟩

/-- In particular from the empty tables a fresh node starts with. -/
theorem range_inv_from_start {κ : Type} [DecidableEq κ] (cfg : Cfg Int) (hc : CfgDom ProbF cfg)
    (evs : List (Ev κ Int)) (hev : ∀ ev ∈ evs, EvDom ProbF ev) :
    allInUnit (run f64Ops cfg ({} : St κ Int) evs).own = true := by
  have h0 : StDom ProbF ({} : St κ Int) :=
    ⟨fun _ h => absurd h List.not_mem_nil, fun _ h => absurd h List.not_mem_nil⟩
  have h := range_inv cfg hc evs hev {} h0
  simp only [allInUnit, List.all_eq_true, inUnit, Bool.and_eq_true, decide_eq_true_eq]
  exact h

/-- **An encounter never lowers a value** (any key). -/
theorem encounter_mono {κ : Type} [DecidableEq κ] (cfg : Cfg Int) (hc : CfgDom ProbF cfg)
    (st : St κ Int) (hs : StDom ProbF st) (peer k : κ) :
    mget 0 st.own k ≤ mget 0 (encounter f64Ops cfg st peer).own k :=
  encounter_le f64Laws cfg hc st hs peer k

/-- **Ageing never raises a value.** -/
theorem ageing_antitone {κ : Type} [DecidableEq κ] (cfg : Cfg Int) (hc : CfgDom ProbF cfg)
    (st : St κ Int) (hs : StDom ProbF st) (k : κ) :
    mget 0 (ageAll f64Ops cfg st).own k ≤ mget 0 st.own k :=
  ageAll_le f64Laws cfg hc st hs k

/-- **The transitive update never lowers a value**, whatever the iteration order of the vector. -/
theorem transitive_mono {κ : Type} [DecidableEq κ] (cfg : Cfg Int) (hc : CfgDom ProbF cfg)
    (st : St κ Int) (hs : StDom ProbF st) (toMe : Bool) (peer : κ) (vec : List (κ × Int))
    (hv : MapDom ProbF vec) (k : κ) :
    mget 0 st.own k ≤ mget 0 (receiveVec f64Ops cfg st toMe peer vec).own k :=
  receiveVec_le f64Laws cfg hc st hs toMe peer vec hv k

/-- A vector addressed to another node changes nothing. -/
theorem foreign_vector_ignored {κ α : Type} [DecidableEq κ] (o : Ops α) (cfg : Cfg α) (st : St κ α)
    (peer : κ) (vec : List (κ × α)) : receiveVec o cfg st false peer vec = st := rfl

/-! ## The forwarding decision -/

/-- **Forwarding rule.** A peer returned by `SenderForBundle` (any number type) is connected, was
not in the sent list, the bundle is no metadata bundle, and `own < peerPred` held. -/
theorem forward_rule {κ α : Type} [DecidableEq κ] (o : Ops α) (st : St κ α) (isMeta : Bool) (dest : κ)
    (conn sent : List κ) (p : κ) (h : p ∈ (senderForBundle o st isMeta dest conn sent).1) :
    isMeta = false ∧ p ∈ conn ∧
      o.lt (mget o.zero st.own dest) (peerPred o st p dest) = true ∧ p ∉ sent :=
  senderForBundle_mem o st isMeta dest conn sent p h

/-- On binary64: strictly greater. -/
theorem forward_rule_strict {κ : Type} [DecidableEq κ] (st : St κ Int) (isMeta : Bool) (dest : κ)
    (conn sent : List κ) (p : κ) (h : p ∈ (senderForBundle f64Ops st isMeta dest conn sent).1) :
    mget 0 st.own dest < peerPred f64Ops st p dest ∧ p ∉ sent := by
  have := forward_rule f64Ops st isMeta dest conn sent p h
  exact ⟨by simpa [f64Ops] using this.2.2.1, this.2.2.2⟩

/-- Ties are excluded … -/
theorem forward_excludes_ties {κ : Type} [DecidableEq κ] (st : St κ Int) (isMeta : Bool) (dest : κ)
    (conn sent : List κ) (p : κ) (heq : peerPred f64Ops st p dest = mget 0 st.own dest) :
    p ∉ (senderForBundle f64Ops st isMeta dest conn sent).1 := by
  intro h
  have := (forward_rule_strict st isMeta dest conn sent p h).1
  omega

/-- … and so are peers whose vector is unknown (their predictability reads as 0). -/
theorem forward_excludes_unknown_peers {κ : Type} [DecidableEq κ] (st : St κ Int) (isMeta : Bool)
    (dest : κ) (conn sent : List κ) (p : κ) (hun : lookupVec st.peers p = none)
    (hown : 0 ≤ mget 0 st.own dest) :
    p ∉ (senderForBundle f64Ops st isMeta dest conn sent).1 := by
  intro h
  have := (forward_rule_strict st isMeta dest conn sent p h).1
  simp only [peerPred, hun, f64Ops] at this
  omega

/-- **Metadata bundles are not forwarded by the rule** (and are flagged for deletion). -/
theorem metadata_not_forwarded {κ α : Type} [DecidableEq κ] (o : Ops α) (st : St κ α) (dest : κ)
    (conn sent : List κ) : senderForBundle o st true dest conn sent = ([], true) :=
  senderForBundle_meta o st dest conn sent

/-- What `Core.forward` offers a bundle to: the destination node itself (direct delivery) or peers
admitted by the rule. -/
theorem forward_targets {κ : Type} [DecidableEq κ] (st : St κ Int) (isMeta : Bool) (dest : κ)
    (conn sent : List κ) (p : κ) (h : p ∈ forwardTargets f64Ops st isMeta dest conn sent) :
    p = dest ∨ (isMeta = false ∧ mget 0 st.own dest < peerPred f64Ops st p dest ∧ p ∉ sent) := by
  rcases forwardTargets_mem f64Ops st isMeta dest conn sent p h with h | h
  · exact Or.inl h
  · exact Or.inr ⟨h.1, by simpa [f64Ops] using h.2.2.1, h.2.2.2⟩

/-! ## Non-vacuity -/

/-- 0.75, 0.25 and 1 as binary64 values in [0,1]. -/
example : ProbF (3 * 2 ^ 1072) :=
  ⟨3 * 2 ^ 1072, by simp, by unfold Lemmas.F64.oneN; omega, 3, 1072, by decide, rfl⟩
example : CfgDom ProbF (⟨F64.one, F64.one, 0⟩ : Cfg Int) :=
  ⟨Lemmas.Prophet.probF_one, Lemmas.Prophet.probF_one, Lemmas.Prophet.probF_zero⟩
example : CfgDom ProbQ (⟨3/4, 1/4, 49/50⟩ : Cfg Rat) := by
  refine ⟨⟨?_, ?_⟩, ⟨?_, ?_⟩, ⟨?_, ?_⟩⟩ <;> norm_num
example : EvDom ProbF (Ev.receive true (1 : Nat) [(2, F64.one), (3, 0)]) := by
  intro kv h
  simp only [List.mem_cons, List.mem_nil_iff, or_false] at h
  rcases h with rfl | rfl
  · exact Lemmas.Prophet.probF_one
  · exact Lemmas.Prophet.probF_zero
/-- the exact model computes: first encounter = PInit, second = PInit + (1−PInit)·PInit -/
example : (run ratOps ⟨3/4, 1/4, 49/50⟩ ({} : St Nat Rat) [.encounter 7, .encounter 7, .age]).own
    = [(7, 147/160)] := by
  simp only [run, List.foldl, step, encounter, ageAll, mget, mset, encounterVal, ageVal, ratOps,
    if_true, List.map]
  norm_num
/-- the decision model chooses exactly the strictly better, not yet served peer -/
example : senderForBundle f64Ops (⟨[(9, 5)], [(1, [(9, 6)]), (2, [(9, 5)]), (3, [(9, 7)])]⟩ : St Nat Int)
    false 9 [1, 2, 3, 4] [3] = ([1], false) := by decide
/-- a feasible schedule of two disciplined threads -/
example : (SchedRW.exec (SchedRW.init [[.acqR, .read (0 : Nat), .rel], [.acqW, .write 0, .rel]])
    [0, 0, 0, 1, 1, 1]).isSome = true := by decide
/-- a real call sequence is a `ProgOf prophetMethods` -/
example : ∃ m, m ∈ prophetMethods ∧ SchedRW.Path m [.acqW, .read 0, .read 0, .write 0, .rel] := by
  refine ⟨[.op .acqW, .anyOf [.read 0, .read 0, .write 0], .op .rel], by decide, ?_⟩
  exact .op (.any (as' := [.read 0, .read 0, .write 0]) (p := [.rel]) (by decide) (.op .nil))

end Dtn7.Props.C19
