/-
C11 — TCPCLv4 transfers deliver the exact bundle, and success means delivered.
Property theorems only; helper lemmas live in `Dtn7.Lemmas.Tcpcl`.
-/
import Dtn7.Model.Tcpcl
import Dtn7.Lemmas.Tcpcl
import Dtn7.Lemmas.TcpclDemux
import Dtn7.Gen.C11
import Dtn7.Model.Bundle
import Dtn7.Model.BundleSpec
import Dtn7.Lemmas.BundleTop

namespace Dtn7.Props.C11
open Dtn7.Tcpcl

/-- The model the theorems below speak about is the one the code selects: the extractor reports
whether `NextSegment` peeks the stream after a full read (`Gen.C11.lookahead`). -/
theorem gen_lookahead : Dtn7.Gen.C11.lookahead = true := by decide

/-- The flag bits, message codes, ack-channel behaviour the model depends on. -/
theorem gen_constants :
    Dtn7.Gen.C11.segmentEnd = 1 ∧ Dtn7.Gen.C11.segmentStart = 2 ∧
    Dtn7.Gen.C11.xferSegment = 1 ∧ Dtn7.Gen.C11.xferAck = 2 ∧ Dtn7.Gen.C11.xferRefuse = 3 ∧
    Dtn7.Gen.C11.maxSegmentMtu = 1048576 ∧
    Dtn7.Gen.C11.nextSegmentHead =
      ["if mtu == 0", "  err = fmt.Errorf(\"segment MTU must not be zero\")", "  return",
       "else if mtu > MaxSegmentMtu", "  mtu = MaxSegmentMtu"] := by decide

/-- **Sender**: for every non-empty encoding and every segment size ≥ 1 the emitted train has no
segment larger than the size, concatenates to the encoding, START exactly on the first and END
exactly on the last segment. -/
theorem segments_ok (data : Bytes) (m : Nat) (hm : 0 < m) (hd : data ≠ []) :
    SegmentsOk data m (segments true m data) :=
  Lemmas.segments_ok_lookahead data m hm hd

/-- The sender limits the segment size to `MaxSegmentMtu` whatever the peer declared: the train still
meets the Spec for the DECLARED size (segments are only smaller). -/
theorem segments_ok_capped (data : Bytes) (cap m : Nat) (hm : 0 < m) (hc : 0 < cap) (hd : data ≠ []) :
    SegmentsOk data m (segmentsCapped true cap m data) := by
  unfold segmentsCapped effMtu
  have hne : cap ≠ 0 := Nat.pos_iff_ne_zero.mp hc
  simp only [hne, ↓reduceIte]
  have h := segments_ok data (min m cap) (by omega) hd
  exact ⟨fun s hs => Nat.le_trans (h.1 s hs) (Nat.min_le_left m cap), h.2.1, h.2.2.1, h.2.2.2⟩

/-- The code without the look-ahead (the tree before the `fix:` commit for D12) satisfies the
statement only when the segment size does not divide the length … -/
theorem segments_ok_nolookahead_partial (data : Bytes) (m : Nat) (hm : 0 < m) (hd : data ≠ [])
    (hdiv : ¬ m ∣ data.length) : SegmentsOk data m (segments false m data) :=
  Lemmas.segments_ok_nolookahead data m hm hd hdiv

/-- … and this is the witness that it fails otherwise (two bytes, size 2: no END at all). -/
theorem segments_nolookahead_witness : ¬ SegmentsOk [1, 2] 2 (segments false 2 [1, 2]) := by
  decide

/-- **Receiver**: any train that meets the Spec (not only the model's) makes a fresh receiver hand
exactly the sent bytes to the bundle parser, once. -/
theorem receiver_exact (data : Bytes) (m : Nat) (segs : List Seg) (h : SegmentsOk data m segs) :
    (receive {} segs).2 = some data :=
  Lemmas.receive_of_ok data m segs h

/-- **transfer_delivers_bundle** — sender, receiver and the real bundle codec (C01) composed: for EVERY bundle the
wire can carry (`Encodable`) that is valid at the receiver's clock, and every peer-declared segment size `m ≥ 1`
(the sender additionally caps segments at `cap > 0`), feeding the sender's train for the bundle's serialisation
into a fresh receiver hands exactly those bytes to the bundle parser, and the parser (`Bundle.UnmarshalCbor`:
decode + `CheckValid`) returns the very bundle that was sent, with nothing left over. "The receiver hands up
exactly one bundle identical to the one sent." -/
theorem transfer_delivers_bundle (cfg : Dtn7.Bundle.Cfg) (hs : cfg.strict = true) (now : Nat)
    (b : Dtn7.Bundle.Bundle) (he : Dtn7.Bundle.Encodable cfg b)
    (hv : Dtn7.Bundle.checkValid cfg.strict now b = true) (cap m : Nat) (hm : 0 < m) (hc : 0 < cap) :
    Dtn7.Bundle.serialize b = .ok (Dtn7.Bundle.serializeRaw b) ∧
    (receive {} (segmentsCapped true cap m (Dtn7.Bundle.serializeRaw b))).2 = some (Dtn7.Bundle.serializeRaw b) ∧
    Dtn7.Bundle.parse cfg now (Dtn7.Bundle.serializeRaw b) = .ok (b, []) := by
  have hne : Dtn7.Bundle.serializeRaw b ≠ [] := by simp [Dtn7.Bundle.serializeRaw]
  obtain ⟨h1, h2⟩ := Dtn7.Bundle.Lemmas.parse_serialize cfg hs now b he hv []
  rw [List.append_nil] at h2
  exact ⟨h1, receiver_exact _ m _ (segments_ok_capped _ cap m hm hc hne), h2⟩

/-- Without an END nothing is ever handed up (why D12 matters). -/
theorem receiver_needs_end (segs : List Seg) (h : ∀ s ∈ segs, s.fin = false) :
    (receive {} segs).2 = none :=
  Lemmas.receive_no_end segs {} (by rfl) h

/-- **Send returns success only after the final acknowledgement**: `ok` implies that the sender
goroutine reported "all `l` bytes written" and an acknowledgement for exactly `l` bytes arrived
(or `l = 0`, impossible for a bundle), or an acknowledgement for 0 bytes arrived (impossible for an
honest receiver since every segment of a non-empty encoding is non-empty). -/
theorem send_ok_imp (evs : List Ev) (h : send evs = .ok) :
    (∃ l, Ev.allSent l ∈ evs ∧ (l = 0 ∨ Ev.ack l ∈ evs)) ∨ Ev.ack 0 ∈ evs :=
  Lemmas.send_ok_imp evs h

/-- **Success means delivered.** Let the receiver have obtained the first `k` segments of the
train so far (any `k`, the network decides) and let every acknowledgement that reached `Send` be
one the honest receiver emitted for those `k` segments. If `Send` returns success then the
receiver has handed exactly the sent bytes to the bundle parser — i.e. it got *all* segments
including the END one. (Cumulative acknowledgement lengths are strictly increasing because every
segment is non-empty, so the length-`L` acknowledgement can only stem from the last segment.) -/
theorem send_success_sound (data : Bytes) (m : Nat) (hm : 0 < m) (hd : data ≠ [])
    (k : Nat) (evs : List Ev)
    (honest : ∀ n, Ev.ack n ∈ evs →
      RxOut.ack n ∈ (receive {} ((segments true m data).take k)).1)
    (sender : ∀ l, Ev.allSent l ∈ evs → l = data.length)
    (h : send evs = .ok) :
    (receive {} ((segments true m data).take k)).2 = some data :=
  Lemmas.send_success_sound data m hm hd k evs honest sender h

/-- Refusal, a send error, or a timeout before success make `Send` fail. -/
theorem send_fails_on (evs₁ evs₂ : List Ev) (e : Ev)
    (he : e = .refuse ∨ e = .sendErr ∨ e = .timeout)
    (hpre : sendLoop 0 0 evs₁ = .blocked) :
    send (evs₁ ++ e :: evs₂) = .error :=
  Lemmas.send_fails_on evs₁ evs₂ e he 0 0 hpre

/-- No final acknowledgement ⇒ no success. -/
theorem send_no_final_ack (l : Nat) (hl : l ≠ 0) (evs : List Ev)
    (hs : ∀ k, Ev.allSent k ∈ evs → k = l) (hn : ∀ n, Ev.ack n ∈ evs → n ≠ l ∧ n ≠ 0) :
    send evs ≠ .ok := by
  intro h
  rcases send_ok_imp evs h with ⟨k, hk, h0 | hak⟩ | h0
  · exact hl (hs k hk ▸ h0)
  · exact (hn k hak).1 (hs k hk)
  · exact (hn 0 h0).2 rfl

/-- **Demultiplexing**: two transfers with different ids do not disturb each other — a step for
id `a` leaves the receiver state of every other id unchanged. -/
theorem demux_independent (tab : Table) (m : Msg) (tab' : Table) (d) (k : Nat) (hk : k ≠ m.tid)
    (h : demuxStep tab m = some (tab', d)) : tab'.get k = tab.get k :=
  Lemmas.demuxStep_other tab m tab' d k hk h

/-- **Concurrent transfers**: let `ms` be ANY interleaving of segment trains with pairwise
different transfer ids — for every id `k` the segments of `k` inside `ms` are either absent or a
train that meets the Spec for `data k` (for instance the sender's, by `segments_ok`). Then the
receiving manager hands up, for every such `k`, exactly one bundle, `data k`, and nothing else. -/
theorem demux_exact (data : Nat → Bytes) (m : Nat) (ms : List Msg)
    (h : ∀ k, Lemmas.proj k ms = [] ∨ SegmentsOk (data k) m (Lemmas.proj k ms))
    (k : Nat) (d : Bytes) :
    (demux [] ms).count (k, d) = if Lemmas.proj k ms ≠ [] ∧ d = data k then 1 else 0 :=
  Lemmas.demux_exact data ms [] (Lemmas.good_fresh data m ms h) k d

/-! Non-vacuity: concrete instances of the hypotheses. -/
example : SegmentsOk [1, 2, 3, 4, 5] 2 (segments true 2 [1, 2, 3, 4, 5]) := by decide
example : SegmentsOk [1, 2, 3, 4] 2 (segments true 2 [1, 2, 3, 4]) := by decide
example : demux [] [⟨1, ⟨true, false, [1]⟩⟩, ⟨2, ⟨true, false, [7]⟩⟩, ⟨1, ⟨false, true, [2]⟩⟩, ⟨2, ⟨false, true, [8]⟩⟩]
    = [(1, [1, 2]), (2, [7, 8])] := by decide
example : send [.ack 2, .ack 4, .allSent 4] = .ok := by decide
example : send [.ack 2, .allSent 4, .timeout] = .error := by decide
example : (receive {} (segments true 2 [1, 2, 3, 4])).1 = [.ack 2, .ack 4] := by decide

end Dtn7.Props.C11
