import Driver.Common
import Dtn7.Model.Node
import Dtn7.Model.NodeSpec

/-!
Line format shared by the C05 and C13 drivers (written by harness/overlay/pkg/routing/verif_node_test.go).
One history per line, blank-separated fields:

  <op> cfg=<self>,<algo>,<mule 0|1>,<sensor nodes n+n|->,<L>,<now>
       peers=<addr>:<node>.<svc>;…
       bundles=<tag>:<src n.s>:<ts>:<seq>:<dst n.s>:<prev n.s|->:<lifetime>:<hop l.c|->:<age|->:<del 0|1>:<bs n|->;…
       oracle=<addr>.<tag>.<pattern of 0/1, cyclic>;…|-        (missing pair = always ok)
       cand=<peer n.s>><dst n.s>;…|-                           (routing oracle of PRoPHET / DTLSR)
       ev=<event>~<log>~<items>~<spray>/…

  event  S<tag> | R<tag>[@<receiver n.s>] | U<addr> | D<addr> | T | C<now> | X
  log    -  or  <addr>.<tag>.<ok 0|1>.<seq>,…      the mock CLAs' send log of this event: CLA, bundle definition, answer,
                                                    sequence number on the wire (`panic` if the code panicked)
  items  -  or  <src n.s>.<ts>.<seq>|<tag>|<pending>|<constraints dfrcl|->|<receiver|->|<epidemic dst|->|<sentE e+e|->|<sentP>|<sentD>,…
  spray  -  or  <key>|<copies>|<sent e+e|->,…

The driver replays the events on the model (`Dtn7.Node.step`) with the environment described by the
line — the preference order of `Manager.Sender()` is taken from the implementation's own send log of the
event — compares outputs and store view after every event, and evaluates the Spec on the
implementation's observations.
-/
open Dtn7.Node Driver

namespace NodeLine

def splitNE (s : String) (sep : String) : List String := (s.splitOn sep).filter (· ≠ "")

def parseEid (s : String) : Option Eid :=
  match s.splitOn "." with
  | [a, b] => do some ⟨← a.toNat?, ← b.toNat?⟩
  | _ => none

def parseOptEid (s : String) : Option (Option Eid) :=
  if s == "-" then some none else (parseEid s).map some

def parseEids (s : String) : Option (List Eid) :=
  if s == "-" then some [] else (s.splitOn "+").mapM parseEid

def parseOptNat (s : String) : Option (Option Nat) :=
  if s == "-" then some none else s.toNat?.map some

def parseBundle (s : String) : Option Bundle :=
  match s.splitOn ":" with
  | [tag, src, ts, seq, dst, prev, life, hop, age, del, bs] => do
    let hop ← (if hop == "-" then some none else
      match hop.splitOn "." with
      | [l, c] => do some (some (← l.toNat?, ← c.toNat?))
      | _ => none)
    some { tag := ← tag.toNat?, src := ← parseEid src, ts := ← ts.toNat?, seq := ← seq.toNat?,
           dst := ← parseEid dst, prev := ← parseOptEid prev, lifetime := ← life.toNat?, hop := hop,
           age := ← parseOptNat age, delBlock := del == "1", bsCopies := ← parseOptNat bs }
  | _ => none

def parsePeer (s : String) : Option Peer :=
  match s.splitOn ":" with
  | [a, e] => do some ⟨← a.toNat?, ← parseEid e⟩
  | _ => none

def parseKey (s : String) : Option Key :=
  match s.splitOn "." with
  | [n, v, ts, seq] => do some ⟨⟨← n.toNat?, ← v.toNat?⟩, ← ts.toNat?, ← seq.toNat?⟩
  | _ => none

def parseCons (s : String) : Cons :=
  let has (c : Char) := s.toList.contains c
  ⟨has 'd', has 'f', has 'r', has 'c', has 'l'⟩

def parseItem (bundles : List Bundle) (s : String) : Option ItemView :=
  match s.splitOn "|" with
  | [key, tag, pend, cons, recv, edst, se, sp, sd] => do
    let t ← tag.toNat?
    some { key := ← parseKey key, bundle := ← bundles.find? (·.tag == t), pending := pend == "1", cons := parseCons cons,
           receiver := ← parseOptEid recv, epiDst := ← parseOptEid edst,
           sentE := ← parseEids se, sentP := ← parseEids sp, sentD := ← parseEids sd }
  | _ => none

def parseMeta (s : String) : Option (Key × SprayMeta) :=
  match s.splitOn "|" with
  | [key, copies, sent] => do some (← parseKey key, ⟨← parseEids sent, ← copies.toNat?⟩)
  | _ => none

def parseLog (bundles : List Bundle) (peers : List Peer) (s : String) : Option (List Output) :=
  if s == "-" then some [] else
  (s.splitOn ",").mapM fun e =>
    match e.splitOn "." with
    | [a, t, ok, seq] => do
      let a ← a.toNat?
      let t ← t.toNat?
      -- the concrete bundle on the wire: the definition with the sequence number the node assigned
      some (Output.sent (← peers.find? (·.addr == a)) { (← bundles.find? (·.tag == t)) with seq := ← seq.toNat? }
        (ok == "1"))
    | _ => none

structure Hist where
  op : String
  cfg : Cfg
  now : Nat
  peers : List Peer
  bundles : List Bundle
  oracle : List ((Nat × Nat) × List Bool)
  cand : List (Eid × Eid)
  obs : List Obs
  panicAt : Option Nat

def Hist.bundle (h : Hist) (tag : Nat) : Option Bundle := h.bundles.find? (·.tag == tag)

def parseAlgo : String → Option Algo
  | "epidemic" => some .epidemic
  | "spray" => some .spray
  | "binary_spray" => some .binarySpray
  | "prophet" => some .prophet
  | "dtlsr" => some .dtlsr
  | _ => none

def parseEvent (bundles : List Bundle) (peers : List Peer) (s : String) : Option Event :=
  let rest := (s.drop 1).toString
  if s.startsWith "S" then do
    let t ← rest.toNat?
    some (.submit (← bundles.find? (·.tag == t)))
  else if s.startsWith "R" then
    match rest.splitOn "@" with
    | [t] => do some (.receive (← bundles.find? (·.tag == (← t.toNat?))) none)
    | [t, r] => do some (.receive (← bundles.find? (·.tag == (← t.toNat?))) (some (← parseEid r)))
    | _ => none
  else if s.startsWith "U" then do
    let a ← rest.toNat?
    some (.peerUp (← peers.find? (·.addr == a)))
  else if s.startsWith "D" then do some (.peerDown (← rest.toNat?))
  else if s == "T" then some .retryTick
  else if s.startsWith "C" then do some (.cleanTick (← rest.toNat?))
  else if s == "X" then some .restart
  else none

def kv (fs : List String) (k : String) : Option String :=
  (fs.find? (·.startsWith (k ++ "="))).map (fun f => (f.drop (k.length + 1)).toString)

/-- The code variant the model mirrors (facts regenerated from the source). -/
structure Variant where
  seqFirst : Bool
  skipStored : Bool
  expiryNow : Bool
  dtlsrFail : Bool
  holdFix : Bool
  gateDirect : Bool

def parseHist (v : Variant) (line : String) : Option Hist := do
  let fs := fields line
  let op ← fs.head?
  let cfgS ← kv fs "cfg"
  let (self, algo, mule, sensors, l, now) ←
    (match cfgS.splitOn "," with
     | [self, algo, mule, sens, l, now] => do
       let sens ← (if sens == "-" then some [] else (sens.splitOn "+").mapM (·.toNat?))
       some (← self.toNat?, ← parseAlgo algo, mule == "1", sens, ← l.toNat?, ← now.toNat?)
     | _ => none)
  let peers ← (splitNE (← kv fs "peers") ";").mapM parsePeer
  let bundlesS ← kv fs "bundles"
  let bundles ← (if bundlesS == "-" then some [] else (splitNE bundlesS ";").mapM parseBundle)
  let oracleS ← kv fs "oracle"
  let oracle ← (if oracleS == "-" then some [] else
    (splitNE oracleS ";").mapM fun e =>
      match e.splitOn "." with
      | [a, t, pat] => do some ((← a.toNat?, ← t.toNat?), pat.toList.map (· == '1'))
      | _ => none)
  let candS ← kv fs "cand"
  let cand ← (if candS == "-" then some [] else
    (splitNE candS ";").mapM fun e =>
      match e.splitOn ">" with
      | [p, d] => do some (← parseEid p, ← parseEid d)
      | _ => none)
  let evS ← kv fs "ev"
  let cfg : Cfg := { self := self, algo := algo, mule := mule, sensorNodes := sensors, sprayL := l,
                     bcast := ⟨999, 0⟩, seqFirst := v.seqFirst, skipStored := v.skipStored, expiryNow := v.expiryNow,
                     dtlsrFail := v.dtlsrFail, holdFix := v.holdFix, gateDirect := v.gateDirect }
  let mut obs : List Obs := []
  let mut panicAt : Option Nat := none
  let mut i := 0
  for e in splitNE evS "/" do
    match e.splitOn "~" with
    | [ev, log, items, spray] =>
      let ev ← parseEvent bundles peers ev
      if log == "panic" then
        panicAt := some i
        obs := obs ++ [{ ev := ev, outs := [], view := ⟨[], []⟩ }]
      else
        let outs ← parseLog bundles peers log
        let items ← (if items == "-" then some [] else (items.splitOn ",").mapM (parseItem bundles))
        let spray ← (if spray == "-" then some [] else (spray.splitOn ",").mapM parseMeta)
        obs := obs ++ [{ ev := ev, outs := outs, view := ⟨items, spray⟩ }]
    | _ => none
    i := i + 1
  some { op := op, cfg := cfg, now := now, peers := peers, bundles := bundles, oracle := oracle,
         cand := cand, obs := obs, panicAt := panicAt }

/-! ## canonical forms for the comparison -/

def eidLt (a b : Eid) : Bool := a.node < b.node || (a.node == b.node && a.svc < b.svc)
def eidLe (a b : Eid) : Bool := a == b || eidLt a b
def keyLe (a b : Key) : Bool :=
  eidLt a.src b.src || (a.src == b.src && (a.ts < b.ts || (a.ts == b.ts && a.seq ≤ b.seq)))

def sortEids (l : List Eid) : List Eid := l.mergeSort eidLe

/-- Canonical form of an item for the comparison: sorted lists; of the stored bundle only the tag counts
(the model's copy may carry the sequence number assigned in memory). -/
def normItem (i : ItemView) : ItemView :=
  { i with sentE := sortEids i.sentE, sentP := sortEids i.sentP, sentD := sortEids i.sentD,
           bundle := { tag := i.bundle.tag, src := ⟨0, 0⟩, ts := 0, seq := 0, dst := ⟨0, 0⟩, prev := none,
                       lifetime := 0, hop := none, age := none, delBlock := false, bsCopies := none } }

def normView (v : View) : View :=
  { items := (v.items.map normItem).mergeSort (fun a b => keyLe a.key b.key)
    spray := (v.spray.map (fun km => (km.1, { km.2 with sent := sortEids km.2.sent }))).mergeSort
      (fun a b => keyLe a.1 b.1) }

def outKey : Output → Nat × Nat × Nat × Nat
  | .sent p b ok => (b.tag, p.addr, b.seq, if ok then 1 else 0)
  | .deleted _ => (0, 0, 0, 2)

def lexLe4 (x y : Nat × Nat × Nat × Nat) : Bool :=
  x.1 < y.1 || (x.1 == y.1 && (x.2.1 < y.2.1 || (x.2.1 == y.2.1 &&
    (x.2.2.1 < y.2.2.1 || (x.2.2.1 == y.2.2.1 && x.2.2.2 ≤ y.2.2.2)))))

/-- Canonical form of the sends of one event: (tag, CLA address, sequence number on the wire, outcome), sorted. -/
def normOuts (l : List Output) : List (Nat × Nat × Nat × Nat) :=
  ((l.filter (fun o => match o with | .sent .. => true | _ => false)).map outKey).mergeSort lexLe4

/-! ## rendering (for `diff` details) -/

def showEid (e : Eid) : String := s!"{e.node}.{e.svc}"
def showEids (l : List Eid) : String := if l.isEmpty then "-" else "+".intercalate (l.map showEid)
def showKey (k : Key) : String := s!"{showEid k.src}.{k.ts}.{k.seq}"
def showCons (c : Cons) : String :=
  let s := (if c.dp then "d" else "") ++ (if c.fp then "f" else "") ++ (if c.rp then "r" else "") ++
           (if c.ci then "c" else "") ++ (if c.le then "l" else "")
  if s == "" then "-" else s
def showOptEid : Option Eid → String
  | some e => showEid e
  | none => "-"
def showItem (i : ItemView) : String :=
  s!"{showKey i.key}|{i.bundle.tag}|{if i.pending then 1 else 0}|{showCons i.cons}|{showOptEid i.receiver}|{showOptEid i.epiDst}|{showEids i.sentE}|{showEids i.sentP}|{showEids i.sentD}"
def showView (v : View) : String :=
  (if v.items.isEmpty then "-" else ",".intercalate (v.items.map showItem)) ++ "~" ++
  (if v.spray.isEmpty then "-" else
    ",".intercalate (v.spray.map fun km => s!"{showKey km.1}|{km.2.copies}|{showEids km.2.sent}"))
def showOuts (l : List (Nat × Nat × Nat × Nat)) : String :=
  if l.isEmpty then "-" else ",".intercalate (l.map fun o => s!"{o.2.1}.{o.1}.{o.2.2.2}.{o.2.2.1}")
def showEvent : Event → String
  | .submit b => s!"S{b.tag}"
  | .receive b r => s!"R{b.tag}" ++ (match r with | some e => "@" ++ showEid e | none => "")
  | .peerUp p => s!"U{p.addr}"
  | .peerDown a => s!"D{a}"
  | .retryTick => "T"
  | .cleanTick t => s!"C{t}"
  | .restart => "X"

/-! ## environment of the line -/

/-- The CLA addresses the implementation handed the bundle with this ID to in event `evNo`. -/
def observedFor (h : Hist) (evNo : Nat) (k : Key) : List Nat :=
  match h.obs[evNo]? with
  | some o => o.outs.filterMap fun out =>
      match out with
      | .sent p b _ => if b.key == k then some p.addr else none
      | _ => none
  | none => []

/-- The environment of the line. The iteration order of `Manager.Sender()` (a `sync.Map`) is not
observable; the order used for the model while the bundle `k` is processed puts `lead k` first, then the
CLAs the implementation actually handed that bundle to in this event, then the rest. -/
def envOf (h : Hist) (lead : Key → List Nat) : Env :=
  { sendOk := fun addr tag n =>
      match h.oracle.find? (fun e => e.1 == (addr, tag)) with
      | some (_, pat) => if pat.isEmpty then true else pat.getD (n % pat.length) true
      | none => true
    prefer := fun evNo k => lead k ++ observedFor h evNo k
    cand := fun e b => h.cand.contains (e, b.dst) }

/-- Candidate orders for one bundle in one event. Only the sensor-mule wrapper over a spray variant needs
more than one: a sensor node the algorithm picked and the wrapper dropped again leaves no trace (its copy
and its list entry are given back), but it used up a slot of the copy budget; so "j sensor CLAs first"
for j = 0, 1, … are all possible. -/
def leads (h : Hist) : List (List Nat) :=
  let spray := h.cfg.algo == .spray || h.cfg.algo == .binarySpray
  if h.cfg.mule && spray then
    let sensors := (h.peers.filter (fun p => h.cfg.sensorNodes.contains p.eid.node)).map (·.addr)
    (List.range (sensors.length + 1)).map (fun j => sensors.take j) ++
      (List.range (sensors.length + 1)).map (fun j => sensors.reverse.take j)
  else [[]]

/-- The choice of a candidate order per bundle ID (index into `leads`; default 0). -/
abbrev Choice := List (Key × Nat)

def Choice.idx (c : Choice) (k : Key) : Nat := ((c.find? (fun e => e.1 == k)).map (·.2)).getD 0

def leadOf (h : Hist) (c : Choice) (k : Key) : List Nat := (leads h).getD (c.idx k) []

/-- What one event did to the bundle `k`: its sends, its item, its spray bookkeeping (canonical). -/
def projKey (k : Key) (outs : List Output) (v : View) :=
  (normOuts (outs.filter fun o => match o with | .sent _ b _ => b.key == k | _ => false),
   ((normView v).items.filter (fun i => i.key == k)),
   ((normView v).spray.filter (fun km => km.1 == k)))

/-- Compare one step of the model with the observation. -/
def stepDiff (h : Hist) (c : Choice) (n : Node) (i : Nat) (o : Obs) : Node × List Output × Option String :=
  let r := step (envOf h (leadOf h c)) n o.ev
  let mo := normOuts r.2
  let go_ := normOuts o.outs
  if mo != go_ then
    (r.1, r.2, some s!"ev={i}:{showEvent o.ev} sends model={showOuts mo} impl={showOuts go_}")
  else
    let mv := normView (viewOf r.1)
    let gv := normView o.view
    if mv != gv then
      (r.1, r.2, some s!"ev={i}:{showEvent o.ev} store model={showView mv} impl={showView gv}")
    else (r.1, r.2, none)

/-- Search for a choice of candidate orders that reproduces the observation of one event: the bundles of
an event are processed independently of each other (a step for one ID touches only that ID's item and
bookkeeping), so the first bundle whose projection differs gets its next candidate order; `fuel` bounds
the number of rounds (#bundles × #orders suffices). -/
def searchStep (h : Hist) (n : Node) (i : Nat) (o : Obs) (keys : List Key) :
    Nat → Choice → Node × Option String
  | 0, c => let t := stepDiff h c n i o; (t.1, t.2.2)
  | fuel + 1, c =>
    let t := stepDiff h c n i o
    match t.2.2 with
    | none => (t.1, none)
    | some d =>
      let bad := keys.find? fun k =>
        projKey k t.2.1 (viewOf t.1) != projKey k o.outs o.view && c.idx k + 1 < (leads h).length
      match bad with
      | none => (t.1, some d)
      | some k => searchStep h n i o keys fuel ((k, c.idx k + 1) :: c.filter (fun e => e.1 != k))

/-- Replay on the model; `none` = agreement, `some detail` = first disagreement. The state (store and
spray bookkeeping) is compared in full after every event, so the choice of orders that reproduces the
observation determines the continuation. -/
def replay (h : Hist) : Option String :=
  let rec go (n : Node) (i : Nat) : List Obs → Option String
    | [] => none
    | o :: os =>
      let keys := (n.store.keys ++ o.view.items.map (·.key) ++ o.view.spray.map (·.1)).eraseDups
      let r := searchStep h n i o keys (keys.length * (leads h).length + 1) []
      match r.2 with
      | none => go r.1 (i + 1) os
      | some d => some d
  go (init h.cfg h.now) 0 h.obs

/-- Judge one line with the given Spec clause set. -/
def judge (v : Variant) (spec : Cfg → SpecSt → Obs → Option String) (line : String) : String :=
  match parseHist v line with
  | none => "skip parse"
  | some h =>
    match h.panicAt with
    | some i => s!"specfail panic-in-event ev={i}"
    | none =>
      match firstFail spec h.cfg (SpecSt.init h.now) 0 h.obs with
      | some (i, cls) =>
        let ev := match h.obs[i]? with | some o => showEvent o.ev | none => "?"
        s!"specfail {cls} ev={i}:{ev}"
      | none =>
        match replay h with
        | some d => "diff " ++ d
        | none => "ok"

end NodeLine

namespace NodeLine

/-- `CONC.<algo> forced=<0|1> failed=<eid+eid> sent=<list after the event>`: both CLAs of one forward()
failed; with `forced=1` the harness held both failure reports between their read and their write-back.
Spec: no failed peer is left in the sent list. -/
def judgeConc (line : String) : String :=
  let fs := Driver.fields line
  match kv fs "failed", kv fs "sent" with
  | some f, some s =>
    match parseEids f, parseEids s with
    | some failed, some sent =>
      let algo := ((fs.head?.getD "").drop 5).toString
      if failed.any (fun e => sent.contains e) then s!"specfail concurrent-failures-lost-update-{algo} sent={s}"
      else "ok"
    | _, _ => "skip parse"
  | _, _ => "skip parse"

/-- `MID.<algo> scen=<A|B|C> during=<present|pending|constraints>,… after=<present|pending|constraints>`:
the persistent record of a bundle read INSIDE a convergence layer's `Send` (a transmission is in progress,
nothing has been reported yet) and after the failing `Send` returned. Spec (`Retained` at every moment, not
only between events — the crash-point part of the property): the record exists and is marked pending. -/
def judgeMid (line : String) : String :=
  let fs := Driver.fields line
  match kv fs "during", kv fs "after", kv fs "scen" with
  | some d, some a, some scen =>
    let bad (r : String) : Bool :=
      match r.splitOn "|" with
      | [p, pe, _] => p != "1" || pe != "1"
      | _ => true
    if d == "-" then "skip no-transmission-observed"
    else if (d.splitOn ",").any bad then s!"specfail retained-not-pending-while-transmission-in-progress scen={scen} during={d}"
    else if bad a then s!"specfail retained-not-pending-after-failed-transmission scen={scen} after={a}"
    else "ok"
  | _, _, _ => if line.endsWith "panic" then "specfail panic-in-event" else "skip parse"

/-- `OVL.<algo> blocked=… returned=… direct=… other=… panics=…`: a peer appeared while another run of the
pending-bundles job was blocked inside a `Send`. Spec (`SentToDestination`, `EpidemicFlood`): the call made
for the new peer returned, and by then the bundle waiting for that peer's node was handed to it (under
epidemic routing also the other waiting bundle, which that peer does not have). -/
def judgeOvl (line : String) : String :=
  let fs := Driver.fields line
  let algo := ((fs.head?.getD "").drop 4).toString
  match kv fs "blocked", kv fs "returned", kv fs "direct", kv fs "other", kv fs "panics" with
  | some b, some r, some d, some o, some p =>
    if p != "0" then "specfail panic-in-event"
    else if b != "1" then "skip first-run-not-blocked"
    else if r != "1" then s!"specfail peer-appearance-blocked-by-another-retry-run algo={algo}"
    else if d != "1" then s!"specfail direct-not-sent-while-another-retry-run-in-progress algo={algo}"
    else if algo == "epidemic" && o != "1" then s!"specfail flood-missing-while-another-retry-run-in-progress"
    else "ok"
  | _, _, _, _, _ => "skip parse"

end NodeLine
