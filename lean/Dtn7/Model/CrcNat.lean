/-
CRC-16/X-25 and CRC-32C (Castagnoli), table-free, bit-serial, reflected — the two checksums of
pkg/bpv7/crc.go (`howeyc/crc16` with the CCITT table, `hash/crc32` with the Castagnoli table).
Minimal and executable; the algebraic theory lives in `Model/CrcSpec.lean` (property C03).
-/
namespace Dtn7.CrcNat

/-- One reflected shift step: the low bit decides whether the polynomial is folded in. -/
@[inline] def bitStep (poly s : Nat) : Nat :=
  if s % 2 = 1 then (s / 2) ^^^ poly else s / 2

/-- Feed one byte (LSB first). -/
def byteStep (poly s : Nat) (b : UInt8) : Nat :=
  let s := s ^^^ b.toNat
  bitStep poly (bitStep poly (bitStep poly (bitStep poly
    (bitStep poly (bitStep poly (bitStep poly (bitStep poly s)))))))

def poly16 : Nat := 0x8408
def poly32c : Nat := 0x82F63B78

/-- CRC-16/X-25: init 0xFFFF, reflected 0x1021, final complement. -/
def crc16 (d : List UInt8) : Nat := (d.foldl (byteStep poly16) 0xFFFF) ^^^ 0xFFFF

/-- CRC-32C: init 0xFFFFFFFF, reflected 0x1EDC6F41, final complement. -/
def crc32c (d : List UInt8) : Nat := (d.foldl (byteStep poly32c) 0xFFFFFFFF) ^^^ 0xFFFFFFFF

/-- "123456789" -/
def checkInput : List UInt8 := [0x31, 0x32, 0x33, 0x34, 0x35, 0x36, 0x37, 0x38, 0x39]

end Dtn7.CrcNat
