/-
TCPCLv4 contact header and messages, byte for byte as
  pkg/cla/tcpclv4/internal/msgs/{contact_header,sess_init,sess_term,xfer_segment,xfer_ack,
                                 xfer_refuse,keepalive,reject,message}.go
marshal and unmarshal them. Core-only.

Fixed-width fields are `Nat`s (their width is part of `Canonical`); `Marshal` truncates exactly like
the Go conversions do (`uint16(len(NodeId))`), so the model also describes non-canonical values.
-/
import Dtn7.Model.Wire

namespace Dtn7.TcpclMsgs
open Dtn7.Cbor (Bytes beBytes beVal)
open Dtn7.Wire

/-! ### Constants (tied to the source by `Dtn7.Gen.C17`) -/

def SESS_INIT : Nat := 0x07
def SESS_TERM : Nat := 0x05
def XFER_SEGMENT : Nat := 0x01
def XFER_ACK : Nat := 0x02
def XFER_REFUSE : Nat := 0x03
def KEEPALIVE : Nat := 0x04
def MSG_REJECT : Nat := 0x06
/-- The contact header is registered under its first magic byte, ASCII 'd'. -/
def CONTACT : Nat := 0x64

/-- "dtn!" and the version 4. -/
def contactHead : Bytes := [0x64, 0x74, 0x6E, 0x21, 0x04]

/-- `SessionTerminationCode.IsValid`. -/
def termCodes : List Nat := [0, 1, 2, 3, 4, 5]
/-- `TransferRefusalCode.IsValid` (every code whose `String()` is not "INVALID"). -/
def refuseCodes : List Nat := [0, 1, 2, 3, 4, 5, 6]
/-- `MessageRejectionReason.IsValid`. -/
def rejectCodes : List Nat := [1, 2, 3]

def termValid (c : UInt8) : Bool := termCodes.contains c.toNat
def refuseValid (c : UInt8) : Bool := refuseCodes.contains c.toNat
def rejectValid (c : UInt8) : Bool := rejectCodes.contains c.toNat

/-! ### Values -/

inductive Msg where
  | contact (flags : UInt8)
  | sessInit (keepalive segMru transferMru : Nat) (nodeId : Bytes)
  | sessTerm (flags reason : UInt8)
  | xferSegment (flags : UInt8) (tid : Nat) (data : Bytes)
  | xferAck (flags : UInt8) (tid ackLen : Nat)
  | xferRefuse (reason : UInt8) (tid : Nat)
  | keepalive
  | reject (reason hdr : UInt8)
deriving Repr, DecidableEq

/-- The values for which the property demands a round trip: every field fits its wire width, the
node id is shorter than 2^16, reason codes are enumerated ones. -/
def Canonical : Msg → Prop
  | .contact _ => True
  | .sessInit k s t n => k < 2 ^ 16 ∧ s < 2 ^ 64 ∧ t < 2 ^ 64 ∧ n.length < 2 ^ 16
  | .sessTerm _ r => termValid r = true
  | .xferSegment _ tid d => tid < 2 ^ 64 ∧ d.length < 2 ^ 64
  | .xferAck _ tid l => tid < 2 ^ 64 ∧ l < 2 ^ 64
  | .xferRefuse r tid => refuseValid r = true ∧ tid < 2 ^ 64
  | .keepalive => True
  | .reject r _ => rejectValid r = true

instance (m : Msg) : Decidable (Canonical m) := by
  cases m <;> unfold Canonical <;> infer_instance

def canonicalB (m : Msg) : Bool := decide (Canonical m)

/-! ### Marshal -/

def u8 (n : Nat) : UInt8 := UInt8.ofNat n

def enc : Msg → Bytes
  | .contact f => contactHead ++ [f]
  | .sessInit k s t n =>
    u8 SESS_INIT :: (beBytes 2 k ++ beBytes 8 s ++ beBytes 8 t ++ beBytes 2 n.length ++ n ++ beBytes 4 0)
  | .sessTerm f r => [u8 SESS_TERM, f, r]
  | .xferSegment f tid d =>
    u8 XFER_SEGMENT :: f :: (beBytes 8 tid ++ beBytes 4 0 ++ beBytes 8 d.length ++ d)
  | .xferAck f tid l => u8 XFER_ACK :: f :: (beBytes 8 tid ++ beBytes 8 l)
  | .xferRefuse r tid => u8 XFER_REFUSE :: r :: beBytes 8 tid
  | .keepalive => [u8 KEEPALIVE]
  | .reject r h => [u8 MSG_REJECT, r, h]

/-! ### Unmarshal (each function sees the stream including the header byte, like the Go methods) -/

/-- `binary.Read(&messageHeader)` + comparison. -/
def expectHeader (code : Nat) (bs : Bytes) : Except Err Bytes :=
  match readU8 bs with
  | .error e => .error e
  | .ok (h, rest) => if h.toNat = code then .ok rest else .error .badHeader

def decContact (bs : Bytes) : Except Err (Msg × Bytes) :=
  match takeN 6 bs with
  | .error e => .error e
  | .ok (d, rest) =>
    if d.take 5 = contactHead then .ok (.contact (d.getD 5 0), rest) else .error .badMagic

/-- Skip an extension-items area of the announced length (`make` + `io.ReadFull`, content ignored). -/
def skipExt (len : Nat) (bs : Bytes) : Except Err Bytes :=
  if len = 0 then .ok bs else
  match takeN len bs with
  | .error e => .error e
  | .ok (_, rest) => .ok rest

def decSessInit (bs : Bytes) : Except Err (Msg × Bytes) :=
  match expectHeader SESS_INIT bs with
  | .error e => .error e
  | .ok r0 =>
  match readBE 2 r0 with
  | .error e => .error e
  | .ok (k, r1) =>
  match readBE 8 r1 with
  | .error e => .error e
  | .ok (s, r2) =>
  match readBE 8 r2 with
  | .error e => .error e
  | .ok (t, r3) =>
  match readBE 2 r3 with
  | .error e => .error e
  | .ok (nl, r4) =>
  match takeN nl r4 with
  | .error e => .error e
  | .ok (n, r5) =>
  match readBE 4 r5 with
  | .error e => .error e
  | .ok (el, r6) =>
  match skipExt el r6 with
  | .error e => .error e
  | .ok r7 => .ok (.sessInit k s t n, r7)

def decSessTerm (bs : Bytes) : Except Err (Msg × Bytes) :=
  match expectHeader SESS_TERM bs with
  | .error e => .error e
  | .ok r0 =>
  match readU8 r0 with
  | .error e => .error e
  | .ok (f, r1) =>
  match readU8 r1 with
  | .error e => .error e
  | .ok (c, r2) => if termValid c then .ok (.sessTerm f c, r2) else .error .badCode

def decXferSegment (bs : Bytes) : Except Err (Msg × Bytes) :=
  match expectHeader XFER_SEGMENT bs with
  | .error e => .error e
  | .ok r0 =>
  match readU8 r0 with
  | .error e => .error e
  | .ok (f, r1) =>
  match readBE 8 r1 with
  | .error e => .error e
  | .ok (tid, r2) =>
  match readBE 4 r2 with
  | .error e => .error e
  | .ok (el, r3) =>
  match skipExt el r3 with
  | .error e => .error e
  | .ok r4 =>
  match readBE 8 r4 with
  | .error e => .error e
  | .ok (dl, r5) =>
  if dl = 0 then .ok (.xferSegment f tid [], r5) else
  match takeN dl r5 with
  | .error e => .error e
  | .ok (d, r6) => .ok (.xferSegment f tid d, r6)

def decXferAck (bs : Bytes) : Except Err (Msg × Bytes) :=
  match expectHeader XFER_ACK bs with
  | .error e => .error e
  | .ok r0 =>
  -- binary.Read into the struct {Flags uint8; TransferId, AckLen uint64}: one 17-byte read
  match takeN 17 r0 with
  | .error e => .error e
  | .ok (d, rest) => .ok (.xferAck (d.getD 0 0) (beVal ((d.drop 1).take 8)) (beVal (d.drop 9)), rest)

def decXferRefuse (bs : Bytes) : Except Err (Msg × Bytes) :=
  match expectHeader XFER_REFUSE bs with
  | .error e => .error e
  | .ok r0 =>
  match takeN 9 r0 with
  | .error e => .error e
  | .ok (d, rest) =>
    let c := d.getD 0 0
    if refuseValid c then .ok (.xferRefuse c (beVal (d.drop 1)), rest) else .error .badCode

def decKeepalive (bs : Bytes) : Except Err (Msg × Bytes) :=
  match expectHeader KEEPALIVE bs with
  | .error e => .error e
  | .ok r0 => .ok (.keepalive, r0)

def decReject (bs : Bytes) : Except Err (Msg × Bytes) :=
  match expectHeader MSG_REJECT bs with
  | .error e => .error e
  | .ok r0 =>
  match takeN 2 r0 with
  | .error e => .error e
  | .ok (d, rest) =>
    let c := d.getD 0 0
    if rejectValid c then .ok (.reject c (d.getD 1 0), rest) else .error .badCode

/-- `msgs.ReadMessage`: dispatch on the first byte (which stays part of the stream handed to the
type's `Unmarshal`). -/
def readMessage : Bytes → Except Err (Msg × Bytes)
  | [] => .error .eof
  | b :: rest =>
    let bs := b :: rest
    if b.toNat = SESS_INIT then decSessInit bs
    else if b.toNat = SESS_TERM then decSessTerm bs
    else if b.toNat = XFER_SEGMENT then decXferSegment bs
    else if b.toNat = XFER_ACK then decXferAck bs
    else if b.toNat = XFER_REFUSE then decXferRefuse bs
    else if b.toNat = KEEPALIVE then decKeepalive bs
    else if b.toNat = MSG_REJECT then decReject bs
    else if b.toNat = CONTACT then decContact bs
    else .error .unknownType

end Dtn7.TcpclMsgs
