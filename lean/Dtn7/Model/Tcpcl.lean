/-
Model of TCPCLv4 bundle transfers
  pkg/cla/tcpclv4/internal/utils/transfer_out.go   (OutgoingTransfer.NextSegment)
  pkg/cla/tcpclv4/internal/utils/transfer_in.go    (IncomingTransfer.NextSegment / ToBundle)
  pkg/cla/tcpclv4/internal/utils/transfer_manager.go (handle demultiplexing, Send decision loop)

Core-only; used by the driver `drv_c11` and by `Dtn7.Props.C11`.
-/
namespace Dtn7.Tcpcl

abbrev Bytes := List UInt8

/-- One XFER_SEGMENT as far as the property is concerned. -/
structure Seg where
  start : Bool
  fin   : Bool
  data  : Bytes
deriving Repr, DecidableEq

/-- Outcome of one `OutgoingTransfer.NextSegment` call on the remaining stream.

`io.ReadFull(stream, buf[0:mtu])`:
* `mtu` bytes available          → full buffer, no error;
* `0 < n < mtu` bytes then EOF   → `io.ErrUnexpectedEOF`, the code sets END and truncates;
* `0` bytes then EOF             → `io.EOF`, returned to the caller as "transfer finished".
`peekEnd` is the look-ahead variant (the code after the D12 repair): after a full read the stream is
peeked and END is set when nothing is left. `lookahead = false` mirrors the code without it. -/
inductive Next where
  | seg (s : Seg) (rest : Bytes)
  | eof
deriving Repr, DecidableEq

def nextSegment (lookahead : Bool) (start : Bool) (rest : Bytes) (mtu : Nat) : Next :=
  if rest.length = 0 then .eof
  else if rest.length < mtu then .seg ⟨start, true, rest⟩ []
  else
    let r := rest.drop mtu
    .seg ⟨start, lookahead && r.length = 0, rest.take mtu⟩ r

/-- All segments of a transfer: the sender goroutine's loop in `TransferManager.Send`, i.e.
`nextSegment` iterated until `eof`. `fuel` bounds the number of iterations (every iteration with
`0 < mtu` consumes at least one byte, so `rest.length` iterations suffice). -/
def segmentsFuel (lookahead : Bool) (mtu : Nat) : Nat → Bool → Bytes → List Seg
  | 0, _, _ => []
  | fuel + 1, start, rest =>
    match nextSegment lookahead start rest mtu with
    | .eof => []
    | .seg s r => s :: segmentsFuel lookahead mtu fuel false r

def segments (lookahead : Bool) (mtu : Nat) (data : Bytes) : List Seg :=
  if 0 < mtu then segmentsFuel lookahead mtu data.length true data else []

/-- `NextSegment` limits the segment size to `MaxSegmentMtu` whatever the peer declared
(`cap = 0`: the code has no such limit). -/
def effMtu (cap mtu : Nat) : Nat := if cap = 0 then mtu else min mtu cap

/-- The train the sender emits for a peer-declared segment size `mtu`. -/
def segmentsCapped (lookahead : Bool) (cap mtu : Nat) (data : Bytes) : List Seg :=
  segments lookahead (effMtu cap mtu) data

/-! ### Spec (independent of the model): what the property demands of a segment train -/

def concatData : List Seg → Bytes
  | [] => []
  | s :: ss => s.data ++ concatData ss

/-- START exactly on the first element. -/
def startsOk : List Seg → Bool
  | [] => false
  | s :: ss => s.start && ss.all (fun t => !t.start)

/-- END exactly on the last element. -/
def endsOk : List Seg → Bool
  | [] => false
  | [s] => s.fin
  | s :: ss => !s.fin && endsOk ss

def SegmentsOk (data : Bytes) (m : Nat) (segs : List Seg) : Prop :=
  (∀ s ∈ segs, s.data.length ≤ m) ∧ concatData segs = data ∧ startsOk segs = true ∧ endsOk segs = true

instance (data : Bytes) (m : Nat) (segs : List Seg) : Decidable (SegmentsOk data m segs) := by
  unfold SegmentsOk; infer_instance

def segmentsOkB (data : Bytes) (m : Nat) (segs : List Seg) : Bool :=
  segs.all (fun s => s.data.length ≤ m) && concatData segs == data && startsOk segs && endsOk segs

/-- Which clause fails (for the `specfail` class). -/
def segmentsFail (data : Bytes) (m : Nat) (segs : List Seg) : Option String :=
  if segs.isEmpty then some "no-segment"
  else if !segs.all (fun s => s.data.length ≤ m) then some "segment-larger-than-mtu"
  else if concatData segs != data then some "concat-differs"
  else if !startsOk segs then some "start-flag"
  else if !endsOk segs then
    (if segs.all (fun s => !s.fin) then
      (if m ∣ data.length then some "no-end-flag-mtu-divides-length" else some "no-end-flag")
     else some "end-flag-misplaced")
  else none

/-! ### Receiver: `IncomingTransfer` -/

structure InT where
  fin : Bool := false
  buf : Bytes := []
deriving Repr, DecidableEq

inductive RxOut where
  | ack (len : Nat)
  | err
deriving Repr, DecidableEq

/-- `IncomingTransfer.NextSegment` (the transfer-id check is done by the demultiplexer). -/
def InT.next (t : InT) (s : Seg) : InT × RxOut :=
  if t.fin then (t, .err)
  else
    let t' : InT := { fin := s.fin, buf := t.buf ++ s.data }
    (t', .ack t'.buf.length)

/-- Feed a train into a fresh receiver: acks emitted, and the payload handed to the bundle
parser if (and when) END was seen. Segments after END are an error in the real code. -/
def receive : InT → List Seg → List RxOut × Option Bytes
  | t, [] => ([], if t.fin then some t.buf else none)
  | t, s :: ss =>
    let (t', o) := t.next s
    match o with
    | .err => ([.err], none)
    | .ack n =>
      if t'.fin then ([.ack n], some t'.buf)   -- handle(): ToBundle, delivered, entry deleted
      else
        let (os, r) := receive t' ss
        (.ack n :: os, r)

/-! ### Demultiplexer: `TransferManager.handle` for XFER_SEGMENT messages -/

structure Msg where
  tid : Nat
  seg : Seg
deriving Repr, DecidableEq

/-- Table of open incoming transfers (`inTransfers`), association list. -/
abbrev Table := List (Nat × InT)

def Table.get (t : Table) (k : Nat) : InT :=
  match t.find? (·.1 == k) with
  | some (_, v) => v
  | none => {}

def Table.set (t : Table) (k : Nat) (v : InT) : Table :=
  (k, v) :: t.filter (·.1 != k)

def Table.del (t : Table) (k : Nat) : Table := t.filter (·.1 != k)

/-- One step of `handle` on a data segment: delivered bundle bytes (if any). `none` = error exit. -/
def demuxStep (tab : Table) (m : Msg) : Option (Table × Option (Nat × Bytes)) :=
  let (t', o) := (tab.get m.tid).next m.seg
  match o with
  | .err => none
  | .ack _ => if t'.fin then some (tab.del m.tid, some (m.tid, t'.buf)) else some (tab.set m.tid t', none)

def demux : Table → List Msg → List (Nat × Bytes)
  | _, [] => []
  | tab, m :: ms =>
    match demuxStep tab m with
    | none => []
    | some (tab', d) =>
      match d with
      | some x => x :: demux tab' ms
      | none => demux tab' ms

/-! ### `TransferManager.Send` decision loop -/

inductive Ev where
  | allSent (l : Nat)     -- sender goroutine hit io.EOF after writing l bytes (lenChan)
  | ack (n : Nat)         -- XFER_ACK with acknowledged length n
  | refuse                -- XFER_REFUSE (any non-ack message on the feedback channel)
  | sendErr               -- errChan (read error / manager stopped)
  | timeout               -- 10 s without any event
deriving Repr, DecidableEq

inductive SendRes where
  | ok | error | blocked   -- blocked: event list exhausted, Send would still be waiting
deriving Repr, DecidableEq

def sendLoop : Nat → Nat → List Ev → SendRes
  | _, _, [] => .blocked
  | inLen, outLen, e :: es =>
    match e with
    | .sendErr => .error
    | .allSent l => if l = inLen then .ok else sendLoop inLen l es
    | .ack n => if outLen = n then .ok else sendLoop n outLen es
    | .refuse => .error
    | .timeout => .error

def send (evs : List Ev) : SendRes := sendLoop 0 0 evs

end Dtn7.Tcpcl
