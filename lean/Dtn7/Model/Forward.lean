/-
Model of bundle forwarding (C06)
  pkg/routing/processing.go            Core.receive (unknown blocks), Core.forward (first half + hop reset)
  pkg/routing/bundle_descriptor.go     UpdateBundleAge
  pkg/routing/core.go                  checkPendingBundles (every retry reloads the stored bundle)
  pkg/bpv7/extension_block_hop_count.go  Increment / IsExceeded / Decrement on uint8
  pkg/bpv7/bundle.go                   IsLifetimeExceeded, AddExtensionBlock, sortBlocks

Core-only; used by the driver `drv_c06` and by `Dtn7.Props.C06`.

The bundle is a *structural* view: the primary block is opaque (its bytes plus the three fields the
forwarding decision reads), a canonical block is number / flags / CRC type / typed value.  The hop
count uses the machine type `UInt8` on purpose: the property is about the 255 boundary.
-/
namespace Dtn7.Forward

abbrev Bytes := List UInt8

/-- Block-type specific data. Which constructor is used is decided by the block type code, exactly
as `ExtensionBlockManager.createBlock` does: 10, 7, 6, 1 are always registered. -/
inductive Value where
  | hop (limit count : UInt8)
  | age (ms : Nat)                 -- `BundleAgeBlock uint64`
  | prevNode (eid : Bytes)
  | payload (data : Bytes)
  | other (type : Nat) (data : Bytes)
deriving DecidableEq, Repr

def Value.type : Value → Nat
  | .hop _ _ => 10
  | .age _ => 7
  | .prevNode _ => 6
  | .payload _ => 1
  | .other t _ => t

structure Block where
  num   : Nat
  flags : Nat
  crc   : Nat
  value : Value
deriving DecidableEq, Repr

def Block.type (b : Block) : Nat := b.value.type

structure Primary where
  raw      : Bytes   -- serialised primary block (opaque)
  created  : Nat     -- creation time, DTN milliseconds; 0 = "no clock"
  lifetime : Nat     -- milliseconds
  flags    : Nat
deriving DecidableEq, Repr

structure Bundle where
  primary : Primary
  blocks  : List Block
deriving DecidableEq, Repr

/-- Which variant of the code is modelled (one switch per repaired defect; `fixed` is the tree the
extractor reports, `original` the tree before the `fix:` commits — kept for the witness theorems). -/
structure Cfg where
  ageInMs        : Bool   -- D19: `time.Since(ts).Milliseconds()` instead of `uint64(time.Since(ts))/1000`
  hopSaturates   : Bool   -- D20: `Increment` keeps 255 and reports "exceeded" instead of wrapping
  persistRemoval : Bool   -- D21: `receive` replaces the stored bundle after removing unknown blocks
deriving DecidableEq, Repr

def Cfg.fixed : Cfg := ⟨true, true, true⟩
def Cfg.original : Cfg := ⟨false, false, false⟩

/-! ### Block classes -/

def isHop (b : Block) : Bool := match b.value with | .hop _ _ => true | _ => false
def isAge (b : Block) : Bool := match b.value with | .age _ => true | _ => false
def isPrev (b : Block) : Bool := match b.value with | .prevNode _ => true | _ => false
def isPayload (b : Block) : Bool := match b.value with | .payload _ => true | _ => false
/-- hop count, bundle age, previous node: the blocks a forwarding node rewrites. -/
def isSpecial (b : Block) : Bool := isHop b || isAge b || isPrev b

/-- `ExtensionBlockManager.IsKnown`: the four built-in types plus whatever the active routing
algorithm registered. -/
def builtinTypes : List Nat := [1, 6, 7, 10]
def isKnown (known : List Nat) (t : Nat) : Bool := builtinTypes.contains t || known.contains t

/-- Block processing control flags. -/
def flagReport (f : Nat) : Bool := f.testBit 1    -- 0x02 StatusReportBlock
def flagDelete (f : Nat) : Bool := f.testBit 2    -- 0x04 DeleteBundle
def flagRemove (f : Nat) : Bool := f.testBit 4    -- 0x10 RemoveBlock

/-- Apply `f` to the first block satisfying `p` (`Bundle.ExtensionBlock` returns a pointer to the
first block of a type; the caller mutates it in place). -/
def mapFirst (p : Block → Bool) (f : Block → Block) : List Block → List Block
  | [] => []
  | b :: bs => if p b then f b :: bs else b :: mapFirst p f bs

def firstHop : List Block → Option (UInt8 × UInt8)
  | [] => none
  | b :: bs => match b.value with | .hop l c => some (l, c) | _ => firstHop bs

def firstAge : List Block → Option Nat
  | [] => none
  | b :: bs => match b.value with | .age a => some a | _ => firstAge bs

/-! ### Hop count block (`uint8` arithmetic) -/

/-- `HopCountBlock.Increment`: new count and the returned "exceeded". -/
def hopIncrement (cfg : Cfg) (limit count : UInt8) : UInt8 × Bool :=
  if cfg.hopSaturates && count == 255 then (count, true)
  else
    let c := count + 1
    (c, decide (c > limit))

def hopIsExceeded (limit count : UInt8) : Bool := decide (count > limit)
def hopDecrement (count : UInt8) : UInt8 := count - 1

def setHopCount (c : UInt8) (b : Block) : Block :=
  match b.value with | .hop l _ => { b with value := .hop l c } | _ => b
def setAge (a : Nat) (b : Block) : Block :=
  match b.value with | .age _ => { b with value := .age a } | _ => b
def setPrev (node : Bytes) (b : Block) : Block :=
  match b.value with | .prevNode _ => { b with value := .prevNode node } | _ => b

/-! ### `Bundle.AddExtensionBlock` -/

/-- Smallest number `≥ n` that is not used (the `for` loop of `AddExtensionBlock`). -/
def freeNumFuel : Nat → Nat → List Nat → Nat
  | 0, n, _ => n
  | fuel + 1, n, used => if used.contains n then freeNumFuel fuel (n + 1) used else n

def freeNum (start : Nat) (used : List Nat) : Nat := freeNumFuel (used.length + 1) start used

/-- `canonicalBlockNumberSort.Less`: ascending block numbers, number 1 (the payload) last. -/
def blkLess (a b : Block) : Bool :=
  if a.num == 1 then false else if b.num == 1 then true else decide (a.num < b.num)

def insertBlk (x : Block) : List Block → List Block
  | [] => [x]
  | y :: ys => if blkLess x y then x :: y :: ys else y :: insertBlk x ys

/-- `sort.Sort(canonicalBlockNumberSort(..))`. Go's sort is not stable; for pairwise different block
numbers (every valid bundle) the result is unique and equals this insertion sort. -/
def sortBlocks : List Block → List Block
  | [] => []
  | b :: bs => insertBlk b (sortBlocks bs)

def addExtensionBlock (bs : List Block) (b : Block) : List Block :=
  let start := if b.type == 1 then 1 else 2
  let n := freeNum start (bs.map (·.num))
  sortBlocks (bs ++ [{ b with num := n }])

/-! ### `Core.forward`, first half -/

inductive Refusal where
  | hopLimit      -- bundleDeletion(HopLimitExceeded)
  | lifetime      -- IsLifetimeExceeded ⇒ bundleDeletion(LifetimeExpired)
  | age           -- updated age ≥ lifetime ⇒ bundleDeletion(LifetimeExpired)
deriving DecidableEq, Repr

/-- `UpdateBundleAge`'s argument to `BundleAgeBlock.Increment`, from the residence time in ns. -/
def ageDelta (cfg : Cfg) (elapsedNs : Nat) : Nat :=
  if cfg.ageInMs then elapsedNs / 1000000 else elapsedNs / 1000

/-- `Bundle.IsLifetimeExceeded` at DTN time `now` (ms). -/
def isLifetimeExceeded (p : Primary) (bs : List Block) (now : Nat) : Bool :=
  if p.created == 0 then
    match firstAge bs with
    | none => true
    | some a => decide (a > p.lifetime)
  else decide (now > p.created + p.lifetime)

def stepHop (cfg : Cfg) (bs : List Block) : Except Refusal (List Block) :=
  match firstHop bs with
  | none => .ok bs
  | some (l, c) =>
    let r := hopIncrement cfg l c
    if r.2 then .error .hopLimit else .ok (mapFirst isHop (setHopCount r.1) bs)

def stepAge (cfg : Cfg) (lifetime : Nat) (elapsedNs : Nat) (bs : List Block) : Except Refusal (List Block) :=
  match firstAge bs with
  | none => .ok bs
  | some a =>
    let a' := (a + ageDelta cfg elapsedNs) % 2 ^ 64
    if a' ≥ lifetime then .error .age else .ok (mapFirst isAge (setAge a') bs)

def stepPrev (node : Bytes) (bs : List Block) : List Block :=
  if bs.any isPrev then mapFirst isPrev (setPrev node) bs
  else addExtensionBlock bs ⟨0, 0, 0, .prevNode node⟩

/-- What `forward` hands to every selected convergence sender, or why it deletes the bundle.
`elapsedNs` = `time.Since(descriptor.Timestamp)`, `now` = DTN time in ms. -/
def transform (cfg : Cfg) (node : Bytes) (b : Bundle) (elapsedNs now : Nat) : Except Refusal Bundle :=
  match stepHop cfg b.blocks with
  | .error e => .error e
  | .ok bs1 =>
    if isLifetimeExceeded b.primary bs1 now then .error .lifetime
    else
      match stepAge cfg b.primary.lifetime elapsedNs bs1 with
      | .error e => .error e
      | .ok bs2 => .ok { b with blocks := stepPrev node bs2 }

/-- After `wg.Wait()`: the hop count of the (shared) in-memory bundle is decremented again. -/
def afterSend (b : Bundle) : Bundle :=
  { b with blocks := match firstHop b.blocks with
      | none => b.blocks
      | some (_, c) => mapFirst isHop (setHopCount (hopDecrement c)) b.blocks }

/-! ### `Core.receive`: blocks of unknown type -/

/-- The loop runs from the last block to the first. Result: the remaining blocks (`none` = the
bundle is deleted) and the number of status reports requested. -/
def recvBlocks (known : List Nat) : List Block → Option (List Block) × Nat
  | [] => (some [], 0)
  | b :: rest =>
    match recvBlocks known rest with
    | (none, r) => (none, r)
    | (some rest', r) =>
      if isKnown known b.type then (some (b :: rest'), r)
      else
        let r' := if flagReport b.flags then r + 1 else r
        if flagDelete b.flags then (none, r')
        else if flagRemove b.flags then (some rest', r')
        else (some (b :: rest'), r')

/-! ### One bundle at one node: reception, then retries from the store

`store` is the serialised bundle in the store (`none` = not stored). `forward` never rewrites it:
the descriptor of a retry is created by `NewBundleDescriptor` without a bundle and loads the stored
bytes. Output of a run = the bundle offered to the convergence senders (`none` = nothing).
The bundle stays in the store after a transmission (epidemic-style `deleteAfterwards = false`; with
`true` there simply are no further runs). -/

def forward (cfg : Cfg) (node : Bytes) (mem : Bundle) (elapsedNs now : Nat) (store : Option Bundle) :
    Option Bundle × Option Bundle :=
  match transform cfg node mem elapsedNs now with
  | .ok s => (some s, store)
  | .error _ => (none, none)

/-- The processed in-memory bundle (`none` = deleted on reception). -/
def processed (known : List Nat) (acc : Bundle) : Option Bundle :=
  match (recvBlocks known acc.blocks).1 with
  | none => none
  | some bs => some { acc with blocks := bs }

def receive (cfg : Cfg) (known : List Nat) (node : Bytes) (acc : Bundle) (elapsedNs now : Nat) :
    Option Bundle × Option Bundle :=
  match processed known acc with
  | none => (none, none)
  | some mem => forward cfg node mem elapsedNs now (some (if cfg.persistRemoval then mem else acc))

/-- `ParseBundle` of the stored bytes ends in `CheckValid`, which contains `IsLifetimeExceeded`:
an expired stored bundle does not load, `dispatching` logs and returns. -/
def loadOk (b : Bundle) (now : Nat) : Bool := !isLifetimeExceeded b.primary b.blocks now

def retry (cfg : Cfg) (node : Bytes) (store : Option Bundle) (elapsedNs now : Nat) :
    Option Bundle × Option Bundle :=
  match store with
  | none => (none, none)
  | some st => if loadOk st now then forward cfg node st elapsedNs now (some st) else (none, some st)

def retries (cfg : Cfg) (node : Bytes) : Option Bundle → List (Nat × Nat) → List (Option Bundle) × Option Bundle
  | st, [] => ([], st)
  | st, (el, now) :: evs =>
    let r := retry cfg node st el now
    let rest := retries cfg node r.2 evs
    (r.1 :: rest.1, rest.2)

/-- Reception at `(el₀, now₀)` followed by retries: outputs of all runs and the final store. -/
def run (cfg : Cfg) (known : List Nat) (node : Bytes) (acc : Bundle) (first : Nat × Nat)
    (evs : List (Nat × Nat)) : List (Option Bundle) × Option Bundle :=
  let r := receive cfg known node acc first.1 first.2
  let rest := retries cfg node r.2 evs
  (r.1 :: rest.1, rest.2)

/-! ### Spec (independent of the model): what the property demands of a transmitted bundle -/

/-- Blocks the property requires to be passed on untouched: everything except hop count, bundle
age, previous node and the blocks owned by the active routing algorithm. -/
def plain (owned : List Nat) (bs : List Block) : List Block :=
  bs.filter (fun b => !isSpecial b && !owned.contains b.type)

/-- An unsupported block that asks to be removed. -/
def removable (known : List Nat) (b : Block) : Bool := !isKnown known b.type && flagRemove b.flags

def hopOk : List Block → List Block → Bool
  | [], [] => true
  | [a], [s] =>
    match a.value, s.value with
    | .hop l c, .hop l' c' =>
      s.num == a.num && s.flags == a.flags && s.crc == a.crc && l' == l &&
        c'.toNat == c.toNat + 1 && decide (c'.toNat ≤ l'.toNat)
    | _, _ => false
  | _, _ => false

/-- `elLo`/`elHi` bracket the residence time in nanoseconds; the block counts milliseconds. -/
def ageOk (elLo elHi : Nat) : List Block → List Block → Bool
  | [], [] => true
  | [a], [s] =>
    match a.value, s.value with
    | .age x, .age y =>
      s.num == a.num && s.flags == a.flags && s.crc == a.crc &&
        decide (x + elLo / 1000000 ≤ y) && decide (y ≤ x + elHi / 1000000)
    | _, _ => false
  | _, _ => false

/-- Exactly one previous-node block, naming this node; it keeps the place of the received one, or
is new with a number no other block of the transmitted bundle uses. -/
def prevOk (node : Bytes) (sentAll : List Block) : List Block → List Block → Bool
  | [], [s] => s.value == .prevNode node && (sentAll.filter (·.num == s.num)).length == 1
  | [a], [s] => s.value == .prevNode node && s.num == a.num && s.flags == a.flags && s.crc == a.crc
  | _, _ => false

structure FaithfulCopy (known owned : List Nat) (node : Bytes) (acc sent : Bundle) (elLo elHi : Nat) : Prop where
  primary : sent.primary = acc.primary
  payload : (sent.blocks.filter isPayload).Perm (acc.blocks.filter isPayload)
  others  : (plain owned sent.blocks).Perm ((plain owned acc.blocks).filter (fun b => !removable known b))
  hop     : hopOk (acc.blocks.filter isHop) (sent.blocks.filter isHop) = true
  age     : ageOk elLo elHi (acc.blocks.filter isAge) (sent.blocks.filter isAge) = true
  prev    : prevOk node sent.blocks (acc.blocks.filter isPrev) (sent.blocks.filter isPrev) = true

instance (known owned : List Nat) (node : Bytes) (acc sent : Bundle) (elLo elHi : Nat) :
    Decidable (FaithfulCopy known owned node acc sent elLo elHi) :=
  if h : sent.primary = acc.primary ∧
      (sent.blocks.filter isPayload).Perm (acc.blocks.filter isPayload) ∧
      (plain owned sent.blocks).Perm ((plain owned acc.blocks).filter (fun b => !removable known b)) ∧
      hopOk (acc.blocks.filter isHop) (sent.blocks.filter isHop) = true ∧
      ageOk elLo elHi (acc.blocks.filter isAge) (sent.blocks.filter isAge) = true ∧
      prevOk node sent.blocks (acc.blocks.filter isPrev) (sent.blocks.filter isPrev) = true
  then .isTrue ⟨h.1, h.2.1, h.2.2.1, h.2.2.2.1, h.2.2.2.2.1, h.2.2.2.2.2⟩
  else .isFalse (fun f => h ⟨f.primary, f.payload, f.others, f.hop, f.age, f.prev⟩)

/-- Which clause fails (for the `specfail` class), `none` = all hold. -/
def faithfulFail (known owned : List Nat) (node : Bytes) (acc sent : Bundle) (elLo elHi : Nat) : Option String :=
  if sent.primary != acc.primary then some "primary-block-differs"
  else if !(sent.blocks.filter isPayload).isPerm (acc.blocks.filter isPayload) then some "payload-block-differs"
  else if !(plain owned sent.blocks).isPerm ((plain owned acc.blocks).filter (fun b => !removable known b)) then
    (if ((plain owned sent.blocks).filter (removable known)).isEmpty then some "other-block-changed"
     else some "removable-unsupported-block-transmitted")
  else if !hopOk (acc.blocks.filter isHop) (sent.blocks.filter isHop) then
    (match firstHop acc.blocks with
     | some (_, c) => if c == 255 then some "hop-count-not-plus-one-at-255" else some "hop-count-not-plus-one"
     | none => some "hop-count-block-appeared")
  else if !ageOk elLo elHi (acc.blocks.filter isAge) (sent.blocks.filter isAge) then some "bundle-age-not-grown-by-residence-ms"
  else if !prevOk node sent.blocks (acc.blocks.filter isPrev) (sent.blocks.filter isPrev) then some "previous-node-block"
  else none

/-! The second sentence of the property: when a bundle must not be transmitted (and must go). -/

/-- The hop count would exceed its limit. -/
def hopWouldExceed (acc : Bundle) : Bool :=
  match firstHop acc.blocks with
  | none => false
  | some (l, c) => decide (c.toNat + 1 > l.toNat)

/-- Lifetime run out by creation time (`now` in DTN ms). -/
def expiredByCreation (acc : Bundle) (now : Nat) : Bool :=
  acc.primary.created != 0 && decide (now > acc.primary.created + acc.primary.lifetime)

/-- Lifetime run out by age, for a bundle without creation time; `elapsedNs` residence here. -/
def expiredByAge (acc : Bundle) (elapsedNs : Nat) : Bool :=
  acc.primary.created == 0 &&
    match firstAge acc.blocks with
    | none => false
    | some a => decide (a + elapsedNs / 1000000 > acc.primary.lifetime)

end Dtn7.Forward
