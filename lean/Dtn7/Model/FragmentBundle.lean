/-
Composition of the fragmentation model (`Dtn7.Model.Fragment`, abstract over sizes) with the bundle
codec model (`Dtn7.Model.Bundle`): the abstract input `In` that belongs to a real `Bundle` and a size
limit, with every number computed by the codec's own encoders the way the Go code computes it
  pkg/bpv7/fragmentation.go  fragmentExtensionBlocksLen (blocks re-marshalled with CRC type 2, the
                             payload block with an empty payload), fragmentPrimaryBlock (the fragment
                             primary block marshalled), Bundle.Fragment (the bundle marshalled once)
and the real bundle that a model fragment stands for (`Bundle.fragmentOf` of the codec model).
Core-only.
-/
import Dtn7.Model.Bundle
import Dtn7.Model.Fragment

namespace Dtn7.Frag
open Dtn7.Bundle (Bundle Canonical Primary encCanonRaw encPrimaryRaw serializeRaw fragmentOf has
  kReplicate tPayload crc32T bIsFragment encValueInner)

/-- An extension block as fragmentation sees it: `priced` is its length re-encoded with CRC-32
(`cb.CRCType = CRC32; cb.MarshalCbor(buff)`), `actual` its length as it is. -/
def blkOf (c : Canonical) : Blk :=
  { num := c.num, type := c.typeCode, rep := has c.flags kReplicate,
    priced := (encCanonRaw { c with crcT := crc32T }).length,
    actual := (encCanonRaw c).length }

/-- The payload block: priced with an empty payload and CRC-32, `actual0` with an empty payload and
its own CRC type. -/
def pblkOf (p : Canonical) : PBlk :=
  { rep := has p.flags kReplicate,
    priced := (encCanonRaw { p with crcT := crc32T, value := .payload [] }).length,
    actual0 := (encCanonRaw { p with value := .payload [] }).length }

/-- `b.PayloadBlock()`: the first block with type code 1. -/
def payloadBlock? (b : Bundle) : Option Canonical := b.blocks.find? (fun c => c.typeCode == tPayload)

def isExt (c : Canonical) : Bool := c.typeCode != tPayload

/-- The primary block `fragmentPrimaryBlock` builds: fragment flag set, the given offset and total. -/
def fragPrimary (p : Primary) (off total : Nat) : Primary :=
  { p with flags := p.flags ||| 2 ^ bIsFragment, fragOff := off, total := total }

/-- The abstract input of the fragmentation model for a real bundle and a limit. -/
def inOf (b : Bundle) (mtu : Nat) : In :=
  { mtu := mtu
    flags := b.primary.flags
    off := b.primary.fragOff
    total := b.primary.total
    zeroTime := b.primary.tsTime == 0
    pbase := (encPrimaryRaw (fragPrimary b.primary 0 0)).length - 2
    size := (serializeRaw b).length
    pl := match payloadBlock? b with
      | some p => pblkOf p
      | none => ⟨false, 0, 0⟩
    blocks := (b.blocks.filter isExt).map blkOf
    payload := match payloadBlock? b with
      | some p => encValueInner p.value
      | none => [] }

/-- The real bundle a model fragment stands for: what the loop of `Bundle.Fragment` assembles for the
slice `f.data` at offset `f.off` (the first fragment is the one at the base offset). -/
def realFragment (c : Cfg) (b : Bundle) (mtu : Nat) (f : Frag) : Bundle :=
  fragmentOf b (f.off == base c (inOf b mtu)) f.off f.total f.data

end Dtn7.Frag
