/-
BBC link fragments: the two-byte header of pkg/cla/bbc/transmission_fragment.go.

    byte 0: transmission id
    byte 1: sequence number (5 bits) << 3 | START 0x04 | END 0x02 | FAIL 0x01

A fragment is a datagram (a modem packet), not a stream element: everything after the two header
bytes is payload. Core-only.
-/
import Dtn7.Model.Wire

namespace Dtn7.Bbc
open Dtn7.Cbor (Bytes)
open Dtn7.Wire

structure Frag where
  tid     : UInt8
  ident   : UInt8
  payload : Bytes
deriving Repr, DecidableEq

def startBit : UInt8 := 0x04
def endBit : UInt8 := 0x02
def failBit : UInt8 := 0x01
def fragmentIdentifierSize : Nat := 2

/-- `NewFragment`. -/
def mkIdent (seq : UInt8) (start fin fail : Bool) : UInt8 :=
  ((seq &&& 0x1F) <<< 3) ||| (if start then startBit else 0) ||| (if fin then endBit else 0) |||
    (if fail then failBit else 0)

def mkFrag (tid seq : UInt8) (start fin fail : Bool) (payload : Bytes) : Frag :=
  ⟨tid, mkIdent seq start fin fail, payload⟩

def Frag.seq (f : Frag) : UInt8 := (f.ident >>> 3) &&& 0x1F
def Frag.start (f : Frag) : Bool := f.ident &&& startBit != 0
def Frag.fin (f : Frag) : Bool := f.ident &&& endBit != 0
def Frag.fail (f : Frag) : Bool := f.ident &&& failBit != 0

/-- `Fragment.Bytes`. -/
def Frag.bytes (f : Frag) : Bytes := f.tid :: f.ident :: f.payload

/-- `ParseFragment`. -/
def parseFrag : Bytes → Except Err Frag
  | t :: i :: p => .ok ⟨t, i, p⟩
  | _ => .error .eof

/-- `Fragment.ReportFailure`. -/
def Frag.reportFailure (f : Frag) : Frag := mkFrag f.tid f.seq false false true []

/-- `nextSequenceNumber`. -/
def nextSeq (s : UInt8) : UInt8 := (s + 1) % 16

/-- `nextTransmissionId` (wraps at 256). -/
def nextTid (t : UInt8) : UInt8 := t + 1

end Dtn7.Bbc
