/-
Spec side of C05 / C13: what the properties demand of an *observed* run of a node, independent of the
model in `Dtn7.Model.Node` (only its data types are shared).

An observation is, per event: the event, the sends the mock CLAs saw (`Output.sent peer bundle ok`) and a
view of the store afterwards (per item: key, the stored bundle, pending flag, constraints, the
per-algorithm sent lists) plus the in-memory spray bookkeeping.  The driver evaluates these predicates on
the observations written by the Go harness (the implementation's own behaviour); the theorems in
`Dtn7.Props.C05/C13` prove them for the model's own trace for every history and every environment.
-/
import Dtn7.Model.Node

namespace Dtn7.Node

structure ItemView where
  key : Key
  /-- the stored bundle -/
  bundle : Bundle
  pending : Bool
  cons : Cons
  receiver : Option Eid
  epiDst : Option Eid
  sentE : List Eid
  sentP : List Eid
  sentD : List Eid
deriving DecidableEq, Repr

structure View where
  items : List ItemView
  spray : List (Key × SprayMeta)
deriving DecidableEq, Repr

def View.get (v : View) (k : Key) : Option ItemView := v.items.find? (fun i => i.key == k)

/-- One observed step. -/
structure Obs where
  ev : Event
  outs : List Output
  view : View
deriving DecidableEq, Repr

def itemView (kv : Key × Item) : ItemView :=
  { key := kv.1, bundle := kv.2.bundle, pending := kv.2.pending, cons := kv.2.cons,
    receiver := kv.2.receiver, epiDst := kv.2.rt.epiDst,
    sentE := kv.2.rt.sentE, sentP := kv.2.rt.sentP, sentD := kv.2.rt.sentD }

/-- The view of a model state. -/
def viewOf (n : Node) : View := { items := n.store.map itemView, spray := n.spray }

def obsOf (t : Event × List Output × Node) : Obs := { ev := t.1, outs := t.2.1, view := viewOf t.2.2 }

/-! ## Which bundles carry an obligation -/

/-- The lifetime of `b`, accepted at time `at_`, has not ended at time `now`. -/
def lifetimeOk (now at_ : Nat) (b : Bundle) : Bool :=
  (if b.ts == 0 then b.age.isSome else decide (now ≤ b.ts + b.lifetime)) &&
  (match b.age with
   | some a => decide (a + (now - at_) < b.lifetime)
   | none => true)

/-- Refused for cause when forwarded: the hop limit would be exceeded. -/
def hopRefused (b : Bundle) : Bool :=
  match b.hop with
  | some (limit, count) => decide (limit < count + 1)
  | none => false

/-- The sent list the configured algorithm keeps in the store. -/
def ItemView.sent (a : Algo) (i : ItemView) : List Eid :=
  match a with
  | .epidemic => i.sentE
  | .prophet => i.sentP
  | .dtlsr => i.sentD
  | _ => []

def storeKept (a : Algo) : Bool :=
  match a with
  | .epidemic | .prophet | .dtlsr => true
  | _ => false

/-- An obligation of the retention clause. -/
structure Obl where
  b : Bundle
  /-- the ID under which the node holds the bundle: the bundle's own ID for a received bundle; for a
      submitted one the ID the node assigned to it (the node chooses the sequence number), read off the
      observation of the submission (`filedKey`) -/
  key : Key
  /-- submitted by a local application: the *very bundle* must be stored (the node owes it a sequence
      number of its own); received from a peer: some copy with this bundle ID must be stored -/
  strict : Bool
  acceptedAt : Nat
deriving DecidableEq, Repr

structure SpecSt where
  now : Nat
  /-- connected senders according to the events -/
  peers : List Peer
  obls : List Obl
  /-- (bundle tag, sequence number, peer endpoint): algorithm-chosen transmissions of a concrete bundle that
      succeeded while the node holds that bundle -/
  okSent : List (Nat × Nat × Eid)
  /-- the view after the previous event -/
  prev : View
deriving Repr

def SpecSt.init (now : Nat) : SpecSt := { now := now, peers := [], obls := [], okSent := [], prev := ⟨[], []⟩ }

/-- The connected senders after the event (what the CLA manager does, seen from outside). -/
def peersAfter (ps : List Peer) : Event → List Peer
  | .peerUp p => if ps.any (fun q => q.addr == p.addr) then ps else ps ++ [p]
  | .peerDown a => ps.filter (fun q => q.addr != a)
  | .restart => []
  | _ => ps

def nowAfter (now : Nat) : Event → Nat
  | .cleanTick t => t
  | _ => now

/-- Was the bundle with this tag handed to this CLA in the event? -/
def sentIn (outs : List Output) (addr tag : Nat) : Bool :=
  outs.any (fun o => match o with | .sent p b _ => p.addr == addr && b.tag == tag | _ => false)

/-- Was a copy of the obligation's bundle successfully handed to a convergence layer in this event? -/
def Obl.discharged (o : Obl) (outs : List Output) : Bool :=
  outs.any (fun x => match x with
    | .sent _ b ok => ok && b.key == o.key && (!o.strict || b.tag == o.b.tag)
    | _ => false)

/-- Is the obligation's bundle in the store (and which item)? A submitted bundle must be this very
bundle. -/
def Obl.item (o : Obl) (v : View) : Option ItemView :=
  match v.get o.key with
  | some i => if !o.strict || i.bundle.tag == o.b.tag then some i else none
  | none => none

/-- An ID of the bundle's (source, creation time) that did not exist before the event. -/
def isNewKey (prev : View) (b : Bundle) (k : Key) : Bool :=
  k.src == b.src && k.ts == b.ts && (prev.get k).isNone

/-- The new ID a transmission of the bundle `b` carries, if this output is one. -/
def newKeyOf (prev : View) (b : Bundle) : Output → Option Key
  | .sent _ b' _ => if b'.tag == b.tag && isNewKey prev b b'.key then some b'.key else none
  | .deleted _ => none

/-- A store item holding the bundle `b` under a new ID. -/
def isNewItem (prev : View) (b : Bundle) (i : ItemView) : Bool :=
  i.bundle.tag == b.tag && isNewKey prev b i.key

/-- The ID under which a submission was filed, read off its observation: an ID of the bundle's (source,
creation time) that did not exist before the event and that a transmission of this bundle in the event,
or else an item of the store after the event, carries. If there is neither (the bundle went nowhere), the
ID the application wrote. -/
def filedKey (prev : View) (o : Obs) (b : Bundle) : Key :=
  match o.outs.findSome? (newKeyOf prev b) with
  | some k => k
  | none =>
    match o.view.items.find? (isNewItem prev b) with
    | some i => i.key
    | none => b.key

/-- The new obligation an event creates: a bundle accepted for forwarding whose lifetime has not ended
and which is not refused for cause. -/
def newObl (c : Cfg) (s : SpecSt) (o : Obs) : Option Obl :=
  match o.ev with
  | .submit b =>
    if b.src.node == c.self && b.dst.node != c.self && lifetimeOk s.now s.now b && !hopRefused b
    then some { b := b, key := filedKey s.prev o b, strict := true, acceptedAt := s.now } else none
  | .receive b _ =>
    if b.dst.node != c.self && lifetimeOk s.now s.now b && !hopRefused b && !b.delBlock
       && (s.prev.get b.key).isNone
    then some { b := b, key := b.key, strict := false, acceptedAt := s.now } else none
  | _ => none

/-- The obligations alive after the event: old and new ones that were not discharged by a successful
transmission and whose lifetime has not ended. -/
def oblsAfter (c : Cfg) (s : SpecSt) (o : Obs) : List Obl :=
  (s.obls ++ (newObl c s o).toList).filter
    (fun ob => !ob.discharged o.outs && lifetimeOk (nowAfter s.now o.ev) ob.acceptedAt ob.b)

/-! ## C05 clauses -/

def isCleanTick : Event → Bool
  | .cleanTick _ => true
  | _ => false

/-- `Retained` for one obligation: in the store and marked for retry. The result names the failing
clause and input class. -/
def retainedFail1 (o : Obs) (ob : Obl) : Option String :=
  match ob.item o.view with
  | some i => if i.pending then none else some "retained-not-pending"
  | none =>
    -- another bundle sits under the ID of a submitted one, or another submission with that ID has just
    -- taken the stored copy with it
    if ob.strict && ((o.view.get ob.key).isSome ||
        (match o.ev with
         | .submit b' => b'.src == ob.key.src && b'.ts == ob.key.ts && b'.tag != ob.b.tag
         | _ => false))
    then some "retained-lost-same-id-submit"
    else if ob.b.ts == 0 && isCleanTick o.ev then some "retained-lost-zero-time-clean"
    else some "retained-lost"

/-- `Retained`: every live obligation is in the store and marked for retry. -/
def retainedFail (c : Cfg) (s : SpecSt) (o : Obs) : Option String :=
  (oblsAfter c s o).findSome? (retainedFail1 o)

/-- A bundle waiting in the store (the implementation's own store before the event) that is not
refusable now. The reception time of a stored clock-less bundle is not visible: only its age counts. -/
def isWaiting (c : Cfg) (now : Nat) (i : ItemView) : Bool :=
  i.pending && i.bundle.dst.node != c.self && !hopRefused i.bundle && lifetimeOk now now i.bundle

/-- `SentToDestination`: after `peerUp` / `retryTick` every waiting bundle whose destination node is a
connected peer was handed to every CLA of that peer. -/
def directFail (c : Cfg) (s : SpecSt) (o : Obs) : Option String :=
  let ps := peersAfter s.peers o.ev
  let now := nowAfter s.now o.ev
  match o.ev with
  | .peerUp _ | .retryTick =>
    s.prev.items.findSome? fun i =>
      if isWaiting c now i then
        ps.findSome? fun p =>
          if p.eid.sameNode i.bundle.dst && !sentIn o.outs p.addr i.bundle.tag then
            -- the epidemic gate: every connected sender is already in the sent list
            if c.algo == .epidemic && ps.all (fun q => i.sentE.contains q.eid)
            then some "direct-not-sent-all-peers-in-sent-list"
            else some "direct-not-sent"
          else none
      else none
  | _ => none

/-- `EpidemicFlood`: under (plain) epidemic routing, after `peerUp p` every waiting bundle whose sent list
does not contain `p` and whose destination is not connected was handed to `p`. -/
def floodFail (c : Cfg) (s : SpecSt) (o : Obs) : Option String :=
  if c.algo == .epidemic && !c.mule then
    match o.ev with
    | .peerUp p =>
      let ps := peersAfter s.peers o.ev
      let now := nowAfter s.now o.ev
      s.prev.items.findSome? fun i =>
        if isWaiting c now i
           && ps.any (fun q => q.addr == p.addr && q.eid == p.eid)
           && !i.sentE.contains p.eid
           && !ps.any (fun q => q.eid.sameNode i.bundle.dst)
           -- a second CLA to the same peer is legitimately skipped
           && !ps.any (fun q => q.eid == p.eid && q.addr != p.addr)
           && !sentIn o.outs p.addr i.bundle.tag
        then some "flood-missing" else none
    | _ => none
  else none

/-- `survives_restart` (store part): a restart leaves the store as it was. -/
def restartFail (s : SpecSt) (o : Obs) : Option String :=
  match o.ev with
  | .restart =>
    if o.view.items.length == s.prev.items.length && s.prev.items.all (fun i => o.view.items.contains i)
    then none else some "restart-changed-store"
  | _ => none

/-! ## C13 clauses -/

/-- Does the replication clause apply to this bundle under this algorithm? (DTLSR replicates only its
broadcast bundles; everything else goes to the single next hop of the routing table.) -/
def replicates (c : Cfg) (b : Bundle) : Bool :=
  match c.algo with
  | .dtlsr => b.dst == c.bcast
  | _ => true

/-- The algorithm-chosen transmissions of one event: (peer, bundle, outcome). A transmission to a CLA
whose peer is the destination node is direct delivery, which bypasses the algorithm. -/
def chosen (c : Cfg) (outs : List Output) : List (Peer × Bundle × Bool) :=
  outs.filterMap fun o =>
    match o with
    | .sent p b ok => if p.eid.sameNode b.dst || !replicates c b then none else some (p, b, ok)
    | _ => none

/-- `NoReturn`: never to the node named in the previous-node block. -/
def returnFail (c : Cfg) (o : Obs) : Option String :=
  (chosen c o.outs).findSome? fun pbk =>
    if pbk.2.1.prev == some pbk.1.eid then
      if c.algo == .binarySpray && pbk.2.1.bsCopies.isNone
      then some "c13-to-prev-node-binary-spray-without-block"
      else some "c13-to-prev-node"
    else none

/-- `NoDup`: not again to a peer that already got this very bundle (tag and sequence number: a second
submission of the same content is another bundle, filed under a number of its own) successfully while the
node holds it. -/
def dupFail (c : Cfg) (s : SpecSt) (o : Obs) : Option String :=
  (chosen c o.outs).findSome? fun pbk =>
    if s.okSent.contains (pbk.2.1.tag, pbk.2.1.seq, pbk.1.eid) then some "c13-sent-twice" else none

/-- The remembered successes after the event: forgotten when the bundle left the store. -/
def okSentAfter (c : Cfg) (s : SpecSt) (o : Obs) : List (Nat × Nat × Eid) :=
  let add := (chosen c o.outs).filterMap fun pbk =>
    if pbk.2.2 then some (pbk.2.1.tag, pbk.2.1.seq, pbk.1.eid) else none
  (s.okSent ++ add).filter fun te => o.view.items.any (fun i => i.bundle.tag == te.1 && i.key.seq == te.2.1)

/-- Does the event (re-)create the item of this key (a new acceptance of the bundle ID)? A submitted
bundle is filed under a sequence number the node chooses: a key of its (source, time) that did not exist
before the event (neither in the store nor in the spray bookkeeping) is its own. -/
def touchesKey (prev : View) (k : Key) : Event → Bool
  | .submit b =>
    b.key == k ||
      (b.src == k.src && b.ts == k.ts && (prev.get k).isNone && (lookupMeta prev.spray k).isNone)
  | .receive b _ => b.key == k
  | _ => false

/-- The bookkeeping of the configured algorithm for this key. -/
def sentOfView (c : Cfg) (v : View) (k : Key) : Option (List Eid) :=
  if storeKept c.algo then (v.get k).map (ItemView.sent c.algo)
  else (lookupMeta v.spray k).map (·.sent)

/-- `FailureReenablesExactly`: after the event, every peer whose transmission failed is out of the
bundle's sent list, every peer whose transmission succeeded is in it, and nothing else was dropped. -/
def reenableFail (c : Cfg) (s : SpecSt) (o : Obs) : Option String :=
  let ch := chosen c o.outs
  let r1 := ch.findSome? fun pbk =>
    match sentOfView c o.view pbk.2.1.key with
    | none => none
    | some l =>
      if pbk.2.2 then (if l.contains pbk.1.eid then none else some "c13-ok-peer-not-recorded")
      else if l.contains pbk.1.eid then
        (if c.algo == .dtlsr then some "c13-failed-peer-still-listed-dtlsr"
         else some "c13-failed-peer-still-listed")
      else none
  match r1 with
  | some f => some f
  | none =>
    -- entries of the previous list survive unless that peer's transmission failed in this event
    (s.prev.items.map (·.key)).findSome? fun k =>
      if touchesKey s.prev k o.ev then none else
      match sentOfView c s.prev k, sentOfView c o.view k with
      | some before, some after =>
        -- (any failed transmission counts, also a direct delivery: `forward` reports every failed `Send`)
        if before.all (fun e => after.contains e ||
            o.outs.any (fun | .sent p b ok => p.eid == e && b.key == k && !ok | _ => false))
        then none else some "c13-sent-list-lost-entry"
      | _, _ => none

/-- `spray_restart_silent`: without bookkeeping (lost by a restart) the spray variants choose nobody until
the bundle is announced again. -/
def sprayFail (c : Cfg) (s : SpecSt) (o : Obs) : Option String :=
  if storeKept c.algo then none else
  (chosen c o.outs).findSome? fun pbk =>
    if touchesKey s.prev pbk.2.1.key o.ev then none
    else if (lookupMeta s.prev.spray pbk.2.1.key).isNone then some "c13-spray-chose-without-bookkeeping"
    else none

/-! ## Running the Spec over an observed history -/

def specNext (c : Cfg) (s : SpecSt) (o : Obs) : SpecSt :=
  { now := nowAfter s.now o.ev
    peers := peersAfter s.peers o.ev
    obls := oblsAfter c s o
    okSent := okSentAfter c s o
    prev := o.view }

def c05Fail (c : Cfg) (s : SpecSt) (o : Obs) : Option String :=
  (retainedFail c s o).orElse fun _ =>
  (directFail c s o).orElse fun _ =>
  (floodFail c s o).orElse fun _ => restartFail s o

/-- C05 with the clause that makes "a peer that does not have it yet" observable: a peer whose transmission
FAILED does not have the bundle — under epidemic routing it must be out of the bundle's sent list after the
event (else it is never offered the bundle again), also when another transmission of the same attempt
succeeded (`FailureReenablesExactly` of C13, judged on C05's histories too). -/
def c05FailX (c : Cfg) (s : SpecSt) (o : Obs) : Option String :=
  (c05Fail c s o).orElse fun _ =>
    if c.algo == .epidemic then
      (reenableFail c s o).map fun cls => "flood-failed-peer-not-offered-again/" ++ cls
    else none

/-- `NoDup` inside one event: the algorithm does not pick two convergence senders of one peer (one endpoint ID)
for one bundle in one choice — the second one would be a second transmission to a peer that is being served. -/
def dupSameEventFail (c : Cfg) (o : Obs) : Option String :=
  let ch := chosen c o.outs
  let rec go : List (Peer × Bundle × Bool) → Option String
    | [] => none
    | x :: rest =>
      if rest.any (fun y => y.1.eid == x.1.eid && y.2.1.tag == x.2.1.tag && y.2.1.seq == x.2.1.seq &&
          y.1.addr != x.1.addr)
      then some "c13-sent-twice-same-event-two-senders-of-one-peer"
      else go rest
  go ch

def c13Fail (c : Cfg) (s : SpecSt) (o : Obs) : Option String :=
  (returnFail c o).orElse fun _ =>
  (dupFail c s o).orElse fun _ =>
  (dupSameEventFail c o).orElse fun _ =>
  (reenableFail c s o).orElse fun _ =>
  (sprayFail c s o).orElse fun _ => restartFail s o

/-- First failure of `f` along the observed history: (index of the event, class). -/
def firstFail (f : Cfg → SpecSt → Obs → Option String) (c : Cfg) : SpecSt → Nat → List Obs → Option (Nat × String)
  | _, _, [] => none
  | s, i, o :: os =>
    match f c s o with
    | some cls => some (i, cls)
    | none => firstFail f c (specNext c s o) (i + 1) os

end Dtn7.Node
