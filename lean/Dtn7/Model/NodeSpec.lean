/-
Spec side of C05 / C13: what the properties demand of an *observed* run of a node, independent of the
model in `Dtn7.Model.Node` (only its data types are shared).

An observation is, per event: the event, the sends the mock CLAs saw (`Output.sent addr tag ok`) and a
view of the store afterwards (per item: key, tag of the stored bundle, pending flag, constraints, the
per-algorithm sent lists) plus the in-memory spray bookkeeping.  The driver evaluates these predicates on
the observations written by the Go harness (the implementation's own behaviour); the theorems in
`Dtn7.Props.C05/C13` prove them for the model's own trace for every history and every environment.
-/
import Dtn7.Model.Node

namespace Dtn7.Node

structure ItemView where
  key : Key
  tag : Nat
  pending : Bool
  cons : Cons
  receiver : Option Eid
  epiDst : Option Eid
  sentE : List Eid
  sentP : List Eid
  sentD : List Eid
deriving DecidableEq, Repr

structure View where
  items : List ItemView
  spray : List (Key × SprayMeta)
deriving DecidableEq, Repr

def View.get (v : View) (k : Key) : Option ItemView := v.items.find? (fun i => i.key == k)

/-- One observed step. -/
structure Obs where
  ev : Event
  outs : List Output
  view : View
deriving DecidableEq, Repr

/-- What the Spec knows about the experiment besides the observations. -/
structure Ctx where
  cfg : Cfg
  /-- the bundles that occur in the history (tag ↦ definition) -/
  bundles : List Bundle
  /-- the convergence senders that occur in the history (address ↦ peer endpoint) -/
  peers : List Peer
deriving Repr

def Ctx.bundle (c : Ctx) (tag : Nat) : Option Bundle := c.bundles.find? (fun b => b.tag == tag)
def Ctx.peer (c : Ctx) (addr : Nat) : Option Peer := c.peers.find? (fun p => p.addr == addr)

/-- The view of a model state. -/
def viewOf (n : Node) : View :=
  { items := n.store.map (fun kv =>
      { key := kv.1, tag := kv.2.bundle.tag, pending := kv.2.pending, cons := kv.2.cons,
        receiver := kv.2.receiver, epiDst := kv.2.epiDst,
        sentE := kv.2.sentE, sentP := kv.2.sentP, sentD := kv.2.sentD })
    spray := n.spray }

def obsOf (t : Event × List Output × Node) : Obs := { ev := t.1, outs := t.2.1, view := viewOf t.2.2 }

/-! ## Which bundles carry an obligation -/

/-- The lifetime of `b`, accepted at time `at`, has not ended at time `now`. -/
def lifetimeOk (now at_ : Nat) (b : Bundle) : Bool :=
  (if b.ts == 0 then b.age.isSome else decide (now ≤ b.ts + b.lifetime)) &&
  (match b.age with
   | some a => decide (a + (now - at_) < b.lifetime)
   | none => true)

/-- Refused for cause when forwarded: the hop limit would be exceeded. -/
def hopRefused (b : Bundle) : Bool :=
  match b.hop with
  | some (limit, count) => decide (limit < count + 1)
  | none => false

/-- The sent list the configured algorithm keeps in the store. -/
def ItemView.sent (a : Algo) (i : ItemView) : List Eid :=
  match a with
  | .epidemic => i.sentE
  | .prophet => i.sentP
  | .dtlsr => i.sentD
  | _ => []

def storeKept (a : Algo) : Bool :=
  match a with
  | .epidemic | .prophet | .dtlsr => true
  | _ => false

/-- An obligation of the retention clause. -/
structure Obl where
  b : Bundle
  /-- submitted by a local application: the *very bundle* must be stored (the node owes it a sequence
      number of its own); received from a peer: some copy with this bundle ID must be stored -/
  strict : Bool
  acceptedAt : Nat
deriving DecidableEq, Repr

structure SpecSt where
  now : Nat
  /-- connected senders according to the events -/
  peers : List Peer
  obls : List Obl
  /-- (tag, peer endpoint): algorithm-chosen transmissions that succeeded while the node holds the bundle -/
  okSent : List (Nat × Eid)
  /-- the view after the previous event -/
  prev : View
deriving Repr

def SpecSt.init (now : Nat) : SpecSt := { now := now, peers := [], obls := [], okSent := [], prev := ⟨[], []⟩ }

/-- The connected senders after the event (what the CLA manager does, seen from outside). -/
def peersAfter (ps : List Peer) : Event → List Peer
  | .peerUp p => if ps.any (fun q => q.addr == p.addr) then ps else ps ++ [p]
  | .peerDown a => ps.filter (fun q => q.addr != a)
  | .restart => []
  | _ => ps

def nowAfter (now : Nat) : Event → Nat
  | .cleanTick t => t
  | _ => now

def sentIn (outs : List Output) (addr tag : Nat) : Bool :=
  outs.any (fun o => match o with | .sent a t _ => a == addr && t == tag | _ => false)

def sentOkIn (outs : List Output) (tag : Nat) : Bool :=
  outs.any (fun o => match o with | .sent _ t ok => t == tag && ok | _ => false)

/-- Tags of the universe that share the bundle ID of `b`. -/
def sameIdTags (c : Ctx) (b : Bundle) : List Nat :=
  (c.bundles.filter (fun x => x.key == b.key)).map (·.tag)

/-- Was a copy of the obligation's bundle successfully handed to a convergence layer in this event? -/
def Obl.discharged (c : Ctx) (o : Obl) (outs : List Output) : Bool :=
  if o.strict then sentOkIn outs o.b.tag else (sameIdTags c o.b).any (sentOkIn outs)

/-- Is the obligation's bundle in the store (and which item)? -/
def Obl.item (o : Obl) (v : View) : Option ItemView :=
  if o.strict then v.items.find? (fun i => i.tag == o.b.tag) else v.get o.b.key

/-- The new obligation an event creates: a bundle accepted for forwarding whose lifetime has not ended
and which is not refused for cause. -/
def newObl (c : Ctx) (s : SpecSt) : Event → Option Obl
  | .submit b =>
    if b.src.node == c.cfg.self && b.dst.node != c.cfg.self && lifetimeOk s.now s.now b && !hopRefused b
    then some { b := b, strict := true, acceptedAt := s.now } else none
  | .receive b _ =>
    if b.dst.node != c.cfg.self && lifetimeOk s.now s.now b && !hopRefused b && !b.delBlock
       && (s.prev.get b.key).isNone
    then some { b := b, strict := false, acceptedAt := s.now } else none
  | _ => none

/-- The obligations alive after the event: old and new ones that were not discharged by a successful
transmission and whose lifetime has not ended. -/
def oblsAfter (c : Ctx) (s : SpecSt) (o : Obs) : List Obl :=
  let now := nowAfter s.now o.ev
  (s.obls ++ (newObl c s o.ev).toList).filter
    (fun ob => !ob.discharged c o.outs && lifetimeOk now ob.acceptedAt ob.b)

/-! ## C05 clauses -/

/-- `Retained`: every live obligation is in the store and marked for retry. The result names the failing
clause and input class. -/
def retainedFail (c : Ctx) (s : SpecSt) (o : Obs) : Option String :=
  (oblsAfter c s o).findSome? fun ob =>
    match ob.item o.view with
    | some i => if i.pending then none else some "retained-not-pending"
    | none =>
      if ob.strict && (o.view.get ob.b.key).isSome then some "retained-lost-same-id-submit"
      else if ob.b.ts == 0 && (match o.ev with | .cleanTick _ => true | _ => false)
      then some "retained-lost-zero-time-clean"
      else some "retained-lost"

/-- Bundles waiting in the store before the event (the implementation's own store), not refusable now. -/
def waiting (c : Ctx) (s : SpecSt) (now : Nat) : List (ItemView × Bundle) :=
  s.prev.items.filterMap fun i =>
    match c.bundle i.tag with
    | some b =>
      if i.pending && b.dst.node != c.cfg.self && !hopRefused b
         -- the reception time of a stored clock-less bundle is not visible: only its age counts
         && lifetimeOk now now b
      then some (i, b) else none
    | none => none

/-- `SentToDestination`: after `peerUp` / `retryTick` every waiting bundle whose destination node is a
connected peer was handed to every CLA of that peer. -/
def directFail (c : Ctx) (s : SpecSt) (o : Obs) : Option String :=
  let ps := peersAfter s.peers o.ev
  let now := nowAfter s.now o.ev
  match o.ev with
  | .peerUp _ | .retryTick =>
    (waiting c s now).findSome? fun ib =>
      ps.findSome? fun p =>
        if p.eid.sameNode ib.2.dst && !sentIn o.outs p.addr ib.1.tag then
          -- the epidemic gate: every connected sender is already in the sent list
          if c.cfg.algo == .epidemic && ps.all (fun q => ib.1.sentE.contains q.eid)
          then some "direct-not-sent-all-peers-in-sent-list"
          else some "direct-not-sent"
        else none
  | _ => none

/-- `EpidemicFlood`: under (plain) epidemic routing, after `peerUp p` every waiting bundle whose sent list
does not contain `p` and whose destination is not connected was handed to `p`. -/
def floodFail (c : Ctx) (s : SpecSt) (o : Obs) : Option String :=
  if c.cfg.algo == .epidemic && !c.cfg.mule then
    match o.ev with
    | .peerUp p =>
      let ps := peersAfter s.peers o.ev
      let now := nowAfter s.now o.ev
      (waiting c s now).findSome? fun ib =>
        if ps.any (fun q => q.addr == p.addr && q.eid == p.eid)
           && !ib.1.sentE.contains p.eid
           && !ps.any (fun q => q.eid.sameNode ib.2.dst)
           -- a second CLA to the same peer is legitimately skipped
           && !ps.any (fun q => q.eid == p.eid && q.addr != p.addr)
           && !sentIn o.outs p.addr ib.1.tag
        then some "flood-missing" else none
    | _ => none
  else none

/-- `survives_restart` (store part): a restart leaves the store as it was. -/
def restartFail (s : SpecSt) (o : Obs) : Option String :=
  match o.ev with
  | .restart =>
    if o.view.items.length == s.prev.items.length && s.prev.items.all (fun i => o.view.items.contains i)
    then none else some "restart-changed-store"
  | _ => none

/-! ## C13 clauses -/

/-- Does the replication clause apply to this bundle under this algorithm? (DTLSR replicates only its
broadcast bundles; everything else goes to the single next hop of the routing table.) -/
def replicates (c : Ctx) (b : Bundle) : Bool :=
  match c.cfg.algo with
  | .dtlsr => b.dst == c.cfg.bcast
  | _ => true

/-- The algorithm-chosen transmissions of one event: (peer, bundle, outcome). A transmission to a CLA
whose peer is the destination node is direct delivery, which bypasses the algorithm. -/
def chosen (c : Ctx) (outs : List Output) : List (Peer × Bundle × Bool) :=
  outs.filterMap fun o =>
    match o with
    | .sent a t ok =>
      match c.peer a, c.bundle t with
      | some p, some b => if p.eid.sameNode b.dst || !replicates c b then none else some (p, b, ok)
      | _, _ => none
    | _ => none

/-- `NoReturn`: never to the node named in the previous-node block. -/
def returnFail (c : Ctx) (o : Obs) : Option String :=
  (chosen c o.outs).findSome? fun pbk =>
    if pbk.2.1.prev == some pbk.1.eid then
      if c.cfg.algo == .binarySpray && pbk.2.1.bsCopies.isNone
      then some "c13-to-prev-node-binary-spray-without-block"
      else some "c13-to-prev-node"
    else none

/-- A submission creates a new bundle (it is owed a sequence number of its own): what was remembered
about earlier transmissions under this tag does not concern it. -/
def okSentBefore (s : SpecSt) : Event → List (Nat × Eid)
  | .submit b => s.okSent.filter (fun te => te.1 != b.tag)
  | _ => s.okSent

/-- `NoDup`: not again to a peer that already got the bundle successfully while the node holds it. -/
def dupFail (c : Ctx) (s : SpecSt) (o : Obs) : Option String :=
  (chosen c o.outs).findSome? fun pbk =>
    if (okSentBefore s o.ev).contains (pbk.2.1.tag, pbk.1.eid) then some "c13-sent-twice" else none

/-- The remembered successes after the event: forgotten when the bundle left the store. -/
def okSentAfter (c : Ctx) (s : SpecSt) (o : Obs) : List (Nat × Eid) :=
  let add := (chosen c o.outs).filterMap fun pbk => if pbk.2.2 then some (pbk.2.1.tag, pbk.1.eid) else none
  (okSentBefore s o.ev ++ add).filter fun te =>
    match c.bundle te.1 with
    | some b => (o.view.get b.key).isSome
    | none => false

/-- Does the event (re-)create the item of this key (a new acceptance of the bundle ID)? -/
def touchesKey (k : Key) : Event → Bool
  | .submit b => b.key == k
  | .receive b _ => b.key == k
  | _ => false

/-- The bookkeeping of the configured algorithm for this key after the event. -/
def sentAfter (c : Ctx) (v : View) (k : Key) : Option (List Eid) :=
  if storeKept c.cfg.algo then (v.get k).map (ItemView.sent c.cfg.algo)
  else (lookupMeta v.spray k).map (·.sent)

/-- `FailureReenablesExactly`: after the event, every peer whose transmission failed is out of the
bundle's sent list, every peer whose transmission succeeded is in it, and nothing else was dropped. -/
def reenableFail (c : Ctx) (s : SpecSt) (o : Obs) : Option String :=
  let ch := chosen c o.outs
  let r1 := ch.findSome? fun pbk =>
    match sentAfter c o.view pbk.2.1.key with
    | none => none
    | some l =>
      if pbk.2.2 then (if l.contains pbk.1.eid then none else some "c13-ok-peer-not-recorded")
      else if l.contains pbk.1.eid then
        (if c.cfg.algo == .dtlsr then some "c13-failed-peer-still-listed-dtlsr"
         else some "c13-failed-peer-still-listed")
      else none
  match r1 with
  | some f => some f
  | none =>
    -- entries of the previous list survive unless that peer's transmission failed in this event
    let keys := (s.prev.items.map (·.key))
    keys.findSome? fun k =>
      if touchesKey k o.ev then none else
      match sentAfter c s.prev k, sentAfter c o.view k with
      | some before, some after =>
        if before.all (fun e => after.contains e ||
            ch.any (fun pbk => pbk.1.eid == e && pbk.2.1.key == k && !pbk.2.2))
        then none else some "c13-sent-list-lost-entry"
      | _, _ => none

/-- `spray_restart_silent`: after a restart the spray variants choose nobody until the bundle is
announced again. Checked as: the event right after a restart-induced loss sends nothing algorithm-chosen
for bundles without bookkeeping. -/
def sprayFail (c : Ctx) (s : SpecSt) (o : Obs) : Option String :=
  if storeKept c.cfg.algo then none else
  (chosen c o.outs).findSome? fun pbk =>
    if touchesKey pbk.2.1.key o.ev then none
    else if (lookupMeta s.prev.spray pbk.2.1.key).isNone then some "c13-spray-chose-without-bookkeeping"
    else none

/-! ## Running the Spec over an observed history -/

def specNext (c : Ctx) (s : SpecSt) (o : Obs) : SpecSt :=
  { now := nowAfter s.now o.ev
    peers := peersAfter s.peers o.ev
    obls := oblsAfter c s o
    okSent := okSentAfter c s o
    prev := o.view }

def c05Fail (c : Ctx) (s : SpecSt) (o : Obs) : Option String :=
  (retainedFail c s o).orElse fun _ =>
  (directFail c s o).orElse fun _ =>
  (floodFail c s o).orElse fun _ => restartFail s o

def c13Fail (c : Ctx) (s : SpecSt) (o : Obs) : Option String :=
  (returnFail c o).orElse fun _ =>
  (dupFail c s o).orElse fun _ =>
  (reenableFail c s o).orElse fun _ =>
  (sprayFail c s o).orElse fun _ => restartFail s o

/-- First failure of `f` along the observed history: (index of the event, class). -/
def firstFail (f : Ctx → SpecSt → Obs → Option String) (c : Ctx) : SpecSt → Nat → List Obs → Option (Nat × String)
  | _, _, [] => none
  | s, i, o :: os =>
    match f c s o with
    | some cls => some (i, cls)
    | none => firstFail f c (specNext c s o) (i + 1) os

end Dtn7.Node
