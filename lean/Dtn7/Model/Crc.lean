/-
C03 — model of the CRC handling of dtn7's bundle codec (what the Go code does, quirks included)

  pkg/bpv7/crc.go               calculateCRCBuff / emptyCRC
  pkg/bpv7/primary_block.go     PrimaryBlock.{MarshalCbor,UnmarshalCbor,SetCRCType}
  pkg/bpv7/canonical_block.go   CanonicalBlock.{MarshalCbor,UnmarshalCbor}
  pkg/bpv7/bundle.go            Bundle.UnmarshalCbor (block loop, break handling)

`hash/crc32` (Castagnoli) and `howeyc/crc16` (CCITT table, `Checksum` = init 0xFFFF, final
complement) are modelled by the bit-serial definitions of `Dtn7.Model.CrcSpec`; that identification is
checked by the differential stream (`crc` lines of the harness), not proved.

Only the parts of the parser that decide *where a block ends and what is fed to the CRC* are typed;
endpoint IDs and the creation timestamp are skipped as generic CBOR items and `CheckValid` is not
modelled, so the model's `accept` means "no CRC or framing reason to reject".
-/
import Dtn7.Model.CrcSpec

namespace Dtn7.Crc
open Dtn7.Cbor

deriving instance DecidableEq for Except

/-- Error classes of the model parser. -/
inductive PErr where
  | crc      -- "invalid CRC value"
  | other    -- every other error
  | brk      -- `cboring.FlagBreakCode` returned unwrapped (ends the block loop of the bundle)
deriving Repr, DecidableEq

/-- `calculateCRCBuff(buff, t)`: appends the empty CRC item to the buffer and returns the value for
the buffer's content (`none` = "unknown CRCType"). For `CRCNo` the appended item is the empty byte
string and the value is empty. -/
def crcCalc (t : Nat) (buf : Bytes) : Option Bytes :=
  if t = 0 then some []
  else crcField t (buf ++ encBytes (zeros (crcLen t)))

/-- Same, evaluated with the byte-wise fold (driver only). -/
def crcCalcFast (t : Nat) (buf : Bytes) : Option Bytes :=
  if t = 0 then some []
  else crcFieldFast t (buf ++ encBytes (zeros (crcLen t)))

theorem crcCalcFast_eq (t : Nat) (buf : Bytes) : crcCalcFast t buf = crcCalc t buf := by
  simp [crcCalcFast, crcCalc, crcFieldFast_eq]

/-- Map a head/byte-string error of an *unwrapped* `return err`. -/
def unwrapped : Err → PErr
  | .flagBreak => .brk
  | _ => .other

/-- Tail of both `UnmarshalCbor`s: `calculateCRCBuff`, then `ReadByteString`, then `bytes.Equal`.
`buf` is the content of the CRC buffer, `rest` the unread input. Returns the CRC value read and the
input after it. `cf` is a parameter so that the driver can plug in the fast evaluation. -/
def checkFieldWith (cf : Nat → Bytes → Option Bytes) (buf : Bytes) (t : Nat) (rest : Bytes) :
    Except PErr (Bytes × Bytes) :=
  match cf t buf with
  | none => .error .other
  | some c =>
    match decBytes rest with
    | .error e => .error (unwrapped e)
    | .ok (v, rest') => if c = v then .ok (v, rest') else .error .crc

def checkField := checkFieldWith crcCalc

/-- What the serialisers append for a block with CRC type `t ≠ 0`: the byte string with the
computed value. -/
def serializeField (t : Nat) (buf : Bytes) : Option Bytes :=
  match crcCalc t buf with
  | none => none
  | some c => some (encBytes c)

/-- `PrimaryBlock.SetCRCType`: created primary blocks always carry a CRC. -/
def setCrcTypePrimary (t : Nat) : Nat := if t = 0 then 2 else t

def dtnVersion : Nat := 7

/-- The bytes consumed between two parser positions. -/
def consumed (before after : Bytes) : Bytes := before.take (before.length - after.length)

def uintE (bs : Bytes) : Except PErr (Nat × Bytes) :=
  match decUInt bs with
  | .error _ => .error .other
  | .ok r => .ok r

def skipE (bs : Bytes) : Except PErr Bytes :=
  match skipItem (2 * bs.length + 2) bs with
  | none => .error .other
  | some r => .ok r

/-- `PrimaryBlock.UnmarshalCbor` up to the CRC item: everything is tee'd into the CRC buffer from
the array head on, incl. the checks added by the repairs of D5/D7 (array length vs. fragment flag, CRC
type known, array length vs. CRC type). Result: (array length, CRC type, unread input). Every error is wrapped by
`Bundle.UnmarshalCbor` ("PrimaryBlock failed"), so there is no `brk` here. -/
def primaryPre (bs : Bytes) : Except PErr (Nat × Nat × Bytes) := do
  let (n, r) ← match decArray bs with
    | .error _ => .error PErr.other
    | .ok r => .ok r
  if ¬ (8 ≤ n ∧ n ≤ 11) then .error .other else
  let (ver, r) ← uintE r
  if ver ≠ dtnVersion then .error .other else
  let (bcf, r) ← uintE r        -- bundle control flags
  -- the array length must agree with the fragment flag (bit 0)
  if decide (n = 10 ∨ n = 11) ≠ (bcf % 2 == 1) then .error .other else
  let (t, r) ← uintE r          -- CRC type
  -- `emptyCRC(t)` must know the type, and the CRC item is present iff the type is not 0
  if 2 < t then .error .other else
  if decide (n = 9 ∨ n = 11) ≠ (t != 0) then .error .other else
  let r ← skipE r               -- destination
  let r ← skipE r               -- source
  let r ← skipE r               -- report-to
  let r ← skipE r               -- creation timestamp
  let (_, r) ← uintE r          -- lifetime
  let r ← (if n = 10 ∨ n = 11 then do
      let (_, r) ← uintE r
      let (_, r) ← uintE r
      pure r
    else pure r)
  pure (n, t, r)

def parsePrimaryWith (cf : Nat → Bytes → Option Bytes) (bs : Bytes) : Except PErr Bytes :=
  match primaryPre bs with
  | .error _ => .error .other
  | .ok (n, t, r) =>
    if n = 9 ∨ n = 11 then
      match checkFieldWith cf (consumed bs r) t r with
      | .error .crc => .error .crc
      | .error _ => .error .other
      | .ok (_, r') => .ok r'
    else .ok r

def uintU (bs : Bytes) : Except PErr (Nat × Bytes) :=
  match decUInt bs with
  | .error e => .error (unwrapped e)
  | .ok r => .ok r

/-- `CanonicalBlock.UnmarshalCbor` up to the CRC item. Result: (array length, CRC type, input after
the array head, unread input). The four integer reads return their error unwrapped; the error of
`ReadBlock` is wrapped. -/
def canonicalPre (bs : Bytes) : Except PErr (Nat × Nat × Bytes × Bytes) := do
  let (n, r0) ← match decArray bs with
    | .error e => .error (unwrapped e)
    | .ok r => .ok r
  if n ≠ 5 ∧ n ≠ 6 then .error .other else
  let (_, r) ← uintU r0         -- block type
  let (_, r) ← uintU r          -- block number
  let (_, r) ← uintU r          -- block control flags
  let (t, r) ← uintU r          -- CRC type
  -- `emptyCRC(t)` must know the type, and the CRC item is present iff the type is not 0 (both errors
  -- are ordinary errors, not the break flag)
  if 2 < t then .error .other else
  if decide (n = 6) ≠ (t != 0) then .error .other else
  let r ← match decBytes r with -- block-type specific data: always one byte string
    | .error _ => .error PErr.other
    | .ok (_, r) => .ok r
  pure (n, t, r0, r)

/-- The CRC buffer of a canonical block: the array head is *replayed* (`WriteArrayLength(6)`, i.e. the
single byte 0x86, whatever width the received head had), the rest is tee'd. -/
def canonicalBuf (n : Nat) (r0 r : Bytes) : Bytes := encArray n ++ consumed r0 r

def parseCanonicalWith (cf : Nat → Bytes → Option Bytes) (bs : Bytes) : Except PErr Bytes :=
  match canonicalPre bs with
  | .error e => .error e
  | .ok (n, t, r0, r) =>
    if n = 6 then
      match checkFieldWith cf (canonicalBuf n r0 r) t r with
      | .error e => .error e
      | .ok (_, r') => .ok r'
    else .ok r

inductive Verdict where
  | accept            -- no CRC or framing reason to reject (`CheckValid` still to come)
  | crc (blk : Nat)   -- "invalid CRC value" in block number `blk` (0 = primary)
  | other
deriving Repr, DecidableEq

/-- The block loop of `Bundle.UnmarshalCbor`: any unwrapped break flag ends the bundle. -/
def canonicalLoop (cf : Nat → Bytes → Option Bytes) : Nat → Nat → Bytes → Verdict
  | 0, _, _ => .other
  | fuel + 1, k, bs =>
    match parseCanonicalWith cf bs with
    | .error .brk => .accept
    | .error .crc => .crc k
    | .error .other => .other
    | .ok r => canonicalLoop cf fuel (k + 1) r

def parseBundleWith (cf : Nat → Bytes → Option Bytes) (bs : Bytes) : Verdict :=
  match bs with
  | [] => .other
  | b :: t =>
    if b.toNat ≠ 0x9F then .other
    else
      match parsePrimaryWith cf t with
      | .error .crc => .crc 0
      | .error _ => .other
      | .ok r => canonicalLoop cf (r.length + 1) 1 r

def parsePrimary := parsePrimaryWith crcCalc
def parseCanonical := parseCanonicalWith crcCalc
def parseBundle := parseBundleWith crcCalc

end Dtn7.Crc
