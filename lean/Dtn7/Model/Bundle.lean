/-
Bundle wire codec and validation of pkg/bpv7:
  bundle.go           Bundle.MarshalCbor / UnmarshalCbor / CheckValid / IsLifetimeExceeded
  primary_block.go    PrimaryBlock.MarshalCbor / UnmarshalCbor / CheckValid
  canonical_block.go  CanonicalBlock.MarshalCbor / UnmarshalCbor / CheckValid
  extension_block*.go ExtensionBlockManager.WriteBlock / ReadBlock and the eight block types
  bundle_control_flags.go, block_control_flags.go, crc.go, time.go
Core-only, executable; used by the drivers `drv_c01`, `drv_c02` and by `Dtn7.Props.C01/C02`.

Conventions: pointer mutation becomes a returned value, `time.Now()` a parameter (`now`, DTN time
in milliseconds), the process-wide extension-block registry a parameter (`Cfg.extra`: which of the
routing/signature block types 192..195 are registered in addition to the four that package bpv7
registers itself), the cached `CRC` byte slices are not modelled (they are recomputed by every
marshal and never read otherwise).
-/
import Dtn7.Model.Cbor
import Dtn7.Model.CrcNat
import Dtn7.Model.Eid

namespace Dtn7.Bundle
open Dtn7.Cbor Dtn7.Eid Dtn7.CrcNat

/-! ### Constants (tied to the source by `Dtn7.Gen.C01` / `Dtn7.Gen.C02`) -/

def dtnVersion : Nat := 7

-- bundle processing control flags, as bit positions (`Has(f)` is `bcf & f != 0`, every `f` is 2^k)
def bIsFragment : Nat := 0
def bAdminRecord : Nat := 1
def bMustNotFragment : Nat := 2
def bAppAck : Nat := 5
def bStatusTime : Nat := 6
def bSrReception : Nat := 14
def bSrForward : Nat := 16
def bSrDelivery : Nat := 17
def bSrDeletion : Nat := 18

-- block processing control flags
def kReplicate : Nat := 0
def kStatusReport : Nat := 1
def kDeleteBundle : Nat := 2
def kRemoveBlock : Nat := 4

def tPayload : Nat := 1
def tPrevNode : Nat := 6
def tAge : Nat := 7
def tHop : Nat := 10
def tSpray : Nat := 192
def tDtlsr : Nat := 193
def tProphet : Nat := 194
def tSignature : Nat := 195

def crcNo : Nat := 0
def crc16T : Nat := 1
def crc32T : Nat := 2

def ed25519PublicKeySize : Nat := 32
def ed25519SignatureSize : Nat := 64

/-- `milliseconds1970To2k`. -/
def ms1970To2k : Int := 946684800000

@[inline] def has (flags bit : Nat) : Bool := flags.testBit bit

/-! ### Data -/

structure Primary where
  version  : Nat
  flags    : Nat
  crcT     : Nat
  dst      : Eid
  src      : Eid
  rpt      : Eid
  tsTime   : Nat
  tsSeq    : Nat
  lifetime : Nat
  fragOff  : Nat
  total    : Nat
deriving Repr, DecidableEq, Inhabited

/-- An entry list models a Go map in iteration order (keys pairwise different). -/
abbrev EidMap := List (Eid × Nat)

inductive BlockValue where
  | payload (d : Bytes)
  | prevNode (e : Eid)
  | age (ms : Nat)
  | hop (limit count : Nat)
  | spray (copies : Nat)
  | dtlsr (id : Eid) (ts : Nat) (peers : EidMap)
  | prophet (preds : EidMap)                 -- values are the 64 bits of the float64
  | signature (pk sg : Bytes)
  | generic (t : Nat) (d : Bytes)
deriving Repr, DecidableEq, Inhabited

def BlockValue.typeCode : BlockValue → Nat
  | .payload _ => tPayload
  | .prevNode _ => tPrevNode
  | .age _ => tAge
  | .hop _ _ => tHop
  | .spray _ => tSpray
  | .dtlsr _ _ _ => tDtlsr
  | .prophet _ => tProphet
  | .signature _ _ => tSignature
  | .generic t _ => t

structure Canonical where
  num   : Nat
  flags : Nat
  crcT  : Nat
  value : BlockValue
deriving Repr, DecidableEq, Inhabited

def Canonical.typeCode (c : Canonical) : Nat := c.value.typeCode

structure Bundle where
  primary : Primary
  blocks  : List Canonical
deriving Repr, DecidableEq, Inhabited

/-- What of the environment the codec depends on. `strict` = the source contains the repairs of
D5/D6/D7 (array length must agree with the CRC type and the fragment flag, CRC type must be known,
endpoint IDs inside DTLSR/PRoPHET blocks are validated); `Gen.C01.strict` reports it. -/
structure Cfg where
  extra  : List Nat := []
  strict : Bool := true
deriving Repr, DecidableEq

def Cfg.registered (cfg : Cfg) (t : Nat) : Bool :=
  t == tPayload || t == tPrevNode || t == tAge || t == tHop ||
  ((t == tSpray || t == tDtlsr || t == tProphet || t == tSignature) && cfg.extra.contains t)

/-! ### CRC field -/

def zeros (k : Nat) : Bytes := List.replicate k 0

/-- `calculateCRCBuff(buff, t)` where `body` is what the buffer holds: an empty CRC byte string of
the right size is appended, the checksum taken over everything, big-endian. Type 0 yields the empty
slice (and is only reached for malformed input), an unknown type is an error. -/
def crcValue (t : Nat) (body : Bytes) : Except Err Bytes :=
  if t = crcNo then .ok []
  else if t = crc16T then .ok (beBytes 2 (crc16 (body ++ encBytes (zeros 2))))
  else if t = crc32T then .ok (beBytes 4 (crc32c (body ++ encBytes (zeros 4))))
  else .error (.other 30)

/-! ### Serialisation -/

def encTimestamp (t s : Nat) : Bytes := encArray 2 ++ encUInt t ++ encUInt s

def encPairs (encV : Nat → Bytes) : EidMap → Bytes
  | [] => []
  | (e, v) :: rest => encEidRaw e ++ encV v ++ encPairs encV rest

def encFloatBits (n : Nat) : Bytes := encHead majSimple n

/-- The CBOR item (or raw data) that `WriteBlock` wraps into a byte string. -/
def encValueInner : BlockValue → Bytes
  | .payload d => d
  | .generic _ d => d
  | .prevNode e => encEidRaw e
  | .age ms => encUInt ms
  | .hop l c => encArray 2 ++ encUInt l ++ encUInt c
  | .spray n => encUInt n
  | .dtlsr id ts peers =>
      encArray 3 ++ encEidRaw id ++ encUInt ts ++ encHead majMap peers.length ++ encPairs encUInt peers
  | .prophet m => encHead majMap m.length ++ encPairs encFloatBits m
  | .signature pk sg => encArray 2 ++ encBytes pk ++ encBytes sg

/-- Endpoint IDs that `MarshalCbor` validates while writing a block value. -/
def BlockValue.eids : BlockValue → List Eid
  | .prevNode e => [e]
  | .dtlsr id _ peers => id :: peers.map (·.1)
  | .prophet m => m.map (·.1)
  | _ => []

def Primary.isFragment (p : Primary) : Bool := has p.flags bIsFragment
def Primary.hasCrc (p : Primary) : Bool := p.crcT != crcNo

def Primary.arrayLen (p : Primary) : Nat :=
  8 + (if p.isFragment then 2 else 0) + (if p.hasCrc then 1 else 0)

/-- Everything of the primary block up to (not including) the CRC field. Note that the constant
`dtnVersion` is written, not the struct's `Version` field. -/
def encPrimaryBody (p : Primary) : Bytes :=
  encArray p.arrayLen ++ encUInt dtnVersion ++ encUInt p.flags ++ encUInt p.crcT ++
  encEidRaw p.dst ++ encEidRaw p.src ++ encEidRaw p.rpt ++
  encTimestamp p.tsTime p.tsSeq ++ encUInt p.lifetime ++
  (if p.isFragment then encUInt p.fragOff ++ encUInt p.total else [])

/-- The CRC field appended to `body` for CRC type `t ∈ {1, 2}`; nothing for type 0. -/
def crcField (t : Nat) (body : Bytes) : Bytes :=
  if t = crcNo then []
  else match crcValue t body with
    | .ok v => encBytes v
    | .error _ => []

def encPrimaryRaw (p : Primary) : Bytes :=
  encPrimaryBody p ++ crcField p.crcT (encPrimaryBody p)

def Canonical.hasCrc (c : Canonical) : Bool := c.crcT != crcNo

def encCanonBody (c : Canonical) : Bytes :=
  encArray (if c.hasCrc then 6 else 5) ++ encUInt c.typeCode ++ encUInt c.num ++ encUInt c.flags ++
  encUInt c.crcT ++ encBytes (encValueInner c.value)

def encCanonRaw (c : Canonical) : Bytes :=
  encCanonBody c ++ crcField c.crcT (encCanonBody c)

def encBlocksRaw : List Canonical → Bytes
  | [] => []
  | c :: cs => encCanonRaw c ++ encBlocksRaw cs

def indefiniteArray : UInt8 := 0x9F
def breakCode : UInt8 := 0xFF

def serializeRaw (b : Bundle) : Bytes :=
  indefiniteArray :: (encPrimaryRaw b.primary ++ encBlocksRaw b.blocks ++ [breakCode])

def crcKnown (t : Nat) : Bool := t ≤ 2

/-- The conditions under which Go's marshalling returns an error: an endpoint ID that fails
`CheckValid` (the three of the primary block, previous node, DTLSR/PRoPHET keys) or a CRC type for
which `calculateCRCBuff` has no case. -/
def Primary.serializable (p : Primary) : Bool :=
  p.dst.valid && p.src.valid && p.rpt.valid && crcKnown p.crcT

def Canonical.serializable (c : Canonical) : Bool :=
  c.value.eids.all Eid.valid && crcKnown c.crcT

def Bundle.serializable (b : Bundle) : Bool :=
  b.primary.serializable && b.blocks.all Canonical.serializable

/-- `Bundle.MarshalCbor`. -/
def serialize (b : Bundle) : Except Err Bytes :=
  if b.serializable then .ok (serializeRaw b) else .error (.other 31)

/-! ### Validation (`CheckValid`) -/

def statusRequested (flags : Nat) : Bool :=
  has flags bSrReception || has flags bSrForward || has flags bSrDelivery || has flags bSrDeletion

/-- `BundleControlFlags.CheckValid`. -/
def bundleFlagsValid (flags : Nat) : Bool :=
  !(has flags bIsFragment && has flags bMustNotFragment) &&
  (!has flags bAdminRecord || !statusRequested flags)

/-- `PrimaryBlock.CheckValid`. -/
def Primary.checkValid (p : Primary) : Bool :=
  p.version == dtnVersion && bundleFlagsValid p.flags &&
  p.dst.valid && p.src.valid && p.rpt.valid &&
  (p.src != Eid.none || (has p.flags bMustNotFragment && !statusRequested p.flags))

/-- `ExtensionBlock.CheckValid` per type. With `strict` the map-valued routing blocks validate
their endpoint IDs (repair of D6). -/
def BlockValue.checkValid (strict : Bool) : BlockValue → Bool
  | .prevNode e => e.valid
  | .hop l c => decide (c ≤ l)
  | .signature pk sg => pk.length == ed25519PublicKeySize && sg.length == ed25519SignatureSize
  | .dtlsr id _ peers => !strict || (id.valid && peers.all (fun p => p.1.valid))
  | .prophet m => !strict || m.all (fun p => p.1.valid)
  | _ => true

/-- `CanonicalBlock.CheckValid`. -/
def Canonical.checkValid (strict : Bool) (c : Canonical) : Bool :=
  c.value.checkValid strict && (c.typeCode != tPayload || c.num == 1)

/-- The `map[uint64]bool` loops of `Bundle.CheckValid`: no value occurs twice. -/
def dupFree : List Nat → List Nat → Bool
  | _, [] => true
  | seen, x :: xs => !seen.contains x && dupFree (x :: seen) xs

def lastIsPayload : List Canonical → Bool
  | [] => false
  | [c] => c.typeCode == tPayload
  | _ :: cs => lastIsPayload cs

/-- `b.ExtensionBlock(ExtBlockTypeBundleAgeBlock)` followed by `.Value.(*BundleAgeBlock).Age()`:
the first block with type code 7. `none` also stands for the (unreachable by parsing) case of a
generic block carrying code 7, where Go's type assertion panics. -/
def findAge : List Canonical → Option Nat
  | [] => none
  | c :: cs => if c.typeCode = tAge then (match c.value with | .age ms => some ms | _ => none) else findAge cs

def hasType (t : Nat) (bs : List Canonical) : Bool := bs.any (fun c => c.typeCode == t)

/-- `int64(x)` of a `uint64`. -/
def toI64 (n : Nat) : Int :=
  if n % 2 ^ 64 < 2 ^ 63 then ((n % 2 ^ 64 : Nat) : Int) else ((n % 2 ^ 64 : Nat) : Int) - 2 ^ 64

/-- Wrap-around of `int64` arithmetic. -/
def wrapI64 (i : Int) : Int :=
  if i % 2 ^ 64 < 2 ^ 63 then i % 2 ^ 64 else i % 2 ^ 64 - 2 ^ 64

/-- `DtnTime(t).Time().Add(time.Duration(lifetime) * time.Millisecond)` in Unix nanoseconds,
including the wrap-around of the `int64` conversions and of the multiplication. -/
def expiryNs (tsTime lifetime : Nat) : Int :=
  wrapI64 (toI64 tsTime + ms1970To2k) * 1000000 + wrapI64 (toI64 lifetime * 1000000)

/-- `now` (DTN milliseconds) in Unix nanoseconds. -/
def nowNs (now : Nat) : Int := ((now : Int) + ms1970To2k) * 1000000

/-- `Bundle.IsLifetimeExceeded`. -/
def lifetimeExceeded (now : Nat) (b : Bundle) : Bool :=
  if b.primary.tsTime = 0 then
    match findAge b.blocks with
    | none => true
    | some a => decide (a > b.primary.lifetime)
  else decide (nowNs now > expiryNs b.primary.tsTime b.primary.lifetime)

/-- `Bundle.CheckValid` (every rule contributes an error; the bundle is valid iff there is none). -/
def checkValid (strict : Bool) (now : Nat) (b : Bundle) : Bool :=
  b.primary.checkValid &&
  b.blocks.all (Canonical.checkValid strict) &&
  !b.blocks.isEmpty &&
  (!(has b.primary.flags bAdminRecord || b.primary.src == Eid.none) ||
      b.blocks.all (fun c => !has c.flags kStatusReport)) &&
  dupFree [] (b.blocks.map Canonical.num) &&
  dupFree [] (b.blocks.map Canonical.typeCode) &&
  lastIsPayload b.blocks &&
  (!(b.primary.tsTime == 0) || hasType tAge b.blocks) &&
  !lifetimeExceeded now b


/-! ### Fragmentation: what a fragment is made of (sizes are the subject of C09) -/

/-- The bundle `Bundle.Fragment` assembles for one payload slice: the primary block with the fragment
flag, offset and total length; the extension blocks in their order with their numbers — all of
them in the first fragment, only the replicated ones in the others; the payload block (number,
flags, CRC type of the original) with the slice. -/
def fragmentOf (b : Bundle) (first : Bool) (off total : Nat) (slice : Bytes) : Bundle :=
  { primary := { b.primary with flags := b.primary.flags ||| 2 ^ bIsFragment, fragOff := off, total := total }
    blocks :=
      b.blocks.filter (fun c => c.typeCode != tPayload && (first || has c.flags kReplicate)) ++
      (match b.blocks.find? (fun c => c.typeCode == tPayload) with
       | some p => [{ p with value := .payload slice }]
       | none => []) }

/-- One iteration of the loop of `Bundle.Fragment`: the fragment is handed out only if
`fragBundle.CheckValid()` passes — in every iteration (`Gen.C02.fragmentChecksEveryFragment`). -/
def fragmentChecked (strict : Bool) (now : Nat) (b : Bundle) (first : Bool) (off total : Nat)
    (slice : Bytes) : Option Bundle :=
  if checkValid strict now (fragmentOf b first off total slice) then
    some (fragmentOf b first off total slice) else none

/-! ### Parsing -/

/-- `fmt.Errorf("…: %v", err)`: the identity of the inner error is lost (in particular it is no
longer `FlagBreakCode`). -/
def wrapErr {α : Type} (x : Except Err α) : Except Err α :=
  match x with
  | .ok a => .ok a
  | .error _ => .error (.other 40)

def decTimestamp (bs : Bytes) : Except Err ((Nat × Nat) × Bytes) :=
  bindP (decArray bs) fun l r =>
    if l ≠ 2 then .error (.other 41) else
    bindP (decUInt r) fun t r =>
    bindP (decUInt r) fun s r =>
      .ok ((t, s), r)

/-- Bytes of `bs` consumed when `r` is what is left. -/
def consumed (bs r : Bytes) : Bytes := bs.take (bs.length - r.length)

/-- The fields of `PrimaryBlock.UnmarshalCbor` up to (not including) the CRC: array length and block. -/
def decPrimaryFields (strict : Bool) (bs : Bytes) : Except Err ((Nat × Primary) × Bytes) :=
  bindP (decArray bs) fun bl r =>
    if bl < 8 ∨ 11 < bl then .error (.other 42) else
    bindP (decUInt r) fun ver r =>
    if ver ≠ dtnVersion then .error (.other 43) else
    bindP (decUInt r) fun flags r =>
    bindP (decUInt r) fun ct r =>
    if strict && (!crcKnown ct || (decide (bl = 10 ∨ bl = 11) != has flags bIsFragment) ||
        (decide (bl = 9 ∨ bl = 11) != (ct != crcNo))) then .error (.other 44) else
    bindP (decEid r) fun dst r =>
    bindP (decEid r) fun src r =>
    bindP (decEid r) fun rpt r =>
    bindP (decTimestamp r) fun ts r =>
    bindP (decUInt r) fun lt r =>
    bindP (if bl = 10 ∨ bl = 11 then
             bindP (decUInt r) fun off r => bindP (decUInt r) fun tot r => .ok ((off, tot), r)
           else .ok ((0, 0), r)) fun ft r =>
      .ok ((bl, ⟨dtnVersion, flags, ct, dst, src, rpt, ts.1, ts.2, lt, ft.1, ft.2⟩), r)

/-- `PrimaryBlock.UnmarshalCbor`. The CRC is computed over the bytes as received (tee reader). -/
def decPrimary (strict : Bool) (bs : Bytes) : Except Err (Primary × Bytes) :=
  bindP (decPrimaryFields strict bs) fun x r =>
    if x.1 = 9 ∨ x.1 = 11 then
      match crcValue x.2.crcT (consumed bs r) with
      | .error e => .error e
      | .ok cc =>
        bindP (decBytes r) fun cv r' =>
          if cc = cv then .ok (x.2, r') else .error (.other 45)
    else .ok (x.2, r)

/-- Insertion into a Go map (entry list with pairwise different keys): an existing key keeps its
place and gets the new value, a new key is appended. -/
def mapInsert : EidMap → Eid → Nat → EidMap
  | [], k, v => [(k, v)]
  | (k', v') :: rest, k, v => if k' = k then (k, v) :: rest else (k', v') :: mapInsert rest k v

/-- `n` (key, value) pairs; `n` comes from the wire, the loop ends at the first read error. -/
def decPairs (decV : Bytes → Except Err (Nat × Bytes)) : Nat → EidMap → Bytes → Except Err (EidMap × Bytes)
  | 0, m, bs => .ok (m, bs)
  | n + 1, m, bs =>
    bindP (decEid bs) fun k r =>
    bindP (decV r) fun v r =>
      decPairs decV n (mapInsert m k v) r

def decFloatBits (bs : Bytes) : Except Err (Nat × Bytes) := decExpect majSimple bs

def decHopField (bs : Bytes) : Except Err (Nat × Bytes) :=
  bindP (decUInt bs) fun x r => if x > 255 then .error (.other 46) else .ok (x, r)

/-- The typed value inside the byte string (`ReadBlock` hands the *content* of the byte string to
`UnmarshalBinary` / `UnmarshalCbor`; bytes after the first CBOR item are ignored). -/
def decValue (cfg : Cfg) (bt : Nat) (data : Bytes) : Except Err BlockValue :=
  if !cfg.registered bt then .ok (.generic bt data)
  else if bt = tPayload then .ok (.payload data)
  else if bt = tPrevNode then bindP (decEid data) fun e _ => .ok (.prevNode e)
  else if bt = tAge then bindP (decUInt data) fun n _ => .ok (.age n)
  else if bt = tHop then
    bindP (decArray data) fun l r =>
      if l ≠ 2 then .error (.other 47) else
      bindP (decHopField r) fun lim r =>
      bindP (decHopField r) fun cnt _ => .ok (.hop lim cnt)
  else if bt = tSpray then bindP (decUInt data) fun n _ => .ok (.spray n)
  else if bt = tDtlsr then
    bindP (decArray data) fun l r =>
      if l ≠ 3 then .error (.other 48) else
      bindP (decEid r) fun id r =>
      bindP (decUInt r) fun ts r =>
      bindP (decExpect majMap r) fun n r =>
      bindP (decPairs decUInt n [] r) fun peers _ => .ok (.dtlsr id ts peers)
  else if bt = tProphet then
    bindP (decExpect majMap data) fun n r =>
      bindP (decPairs decFloatBits n [] r) fun m _ => .ok (.prophet m)
  else if bt = tSignature then
    bindP (decArray data) fun l r =>
      if l ≠ 2 then .error (.other 49) else
      bindP (decBytes r) fun pk r =>
      bindP (decBytes r) fun sg _ => .ok (.signature pk sg)
  else .ok (.generic bt data)

/-- Outcome of `CanonicalBlock.UnmarshalCbor` as seen by the loop of `Bundle.UnmarshalCbor`. -/
inductive CanonRes where
  | block (c : Canonical) (rest : Bytes)
  | brk (rest : Bytes)          -- the error is `cboring.FlagBreakCode`: the loop ends
  | err (e : Err)
deriving Repr, DecidableEq

/-- A head read whose error is returned unwrapped: byte 0xFF at this position surfaces as
`FlagBreakCode` in `Bundle.UnmarshalCbor` and ends the bundle. -/
def rawHead (maj : Nat) (bs : Bytes) (k : Nat → Bytes → CanonRes) : CanonRes :=
  match decExpect maj bs with
  | .ok (n, r) => k n r
  | .error .flagBreak => .brk bs.tail
  | .error e => .err e

/-- The fields of `CanonicalBlock.UnmarshalCbor` between the array head and the CRC, in
continuation style (`k` receives the block and what is left). -/
def decCanonFields (cfg : Cfg) (bl : Nat) (r0 : Bytes) (k : Canonical → Bytes → CanonRes) : CanonRes :=
  rawHead majUInt r0 fun bt r =>
  rawHead majUInt r fun num r =>
  rawHead majUInt r fun flags r =>
  rawHead majUInt r fun ct r =>
  if cfg.strict && (!crcKnown ct || (decide (bl = 6) != (ct != crcNo))) then .err (.other 51) else
  match decBytes r with
  | .error _ => .err (.other 52)
  | .ok (data, r) =>
    match decValue cfg bt data with
    | .error _ => .err (.other 53)
    | .ok v => k ⟨num, flags, ct, v⟩ r

/-- `CanonicalBlock.UnmarshalCbor`. For a 6-element block the CRC is taken over a re-encoded array
head followed by the bytes as received. -/
def decCanon (cfg : Cfg) (bs : Bytes) : CanonRes :=
  rawHead majArray bs fun bl r0 =>
    if bl ≠ 5 ∧ bl ≠ 6 then .err (.other 50) else
    decCanonFields cfg bl r0 fun c r =>
      if bl = 6 then
        match crcValue c.crcT (encArray 6 ++ consumed r0 r) with
        | .error e => .err e
        | .ok cc =>
          rawHead majBytes r fun n r =>
            match readRaw n r with
            | .error e => .err e
            | .ok (cv, r') => if cc = cv then .block c r' else .err (.other 54)
      else .block c r

/-- The block loop of `Bundle.UnmarshalCbor`; every iteration consumes at least one byte. -/
def decBlocks (cfg : Cfg) : Nat → Bytes → Except Err (List Canonical × Bytes)
  | 0, _ => .error .eof
  | fuel + 1, bs =>
    match decCanon cfg bs with
    | .brk r => .ok ([], r)
    | .err e => .error e
    | .block c r =>
      match decBlocks cfg fuel r with
      | .error e => .error e
      | .ok (cs, r') => .ok (c :: cs, r')

/-- `Bundle.UnmarshalCbor` without the final `CheckValid`. -/
def parseRaw (cfg : Cfg) (bs : Bytes) : Except Err (Bundle × Bytes) :=
  match bs with
  | [] => .error .eof
  | b0 :: r =>
    if b0 ≠ indefiniteArray then .error (.other 55) else
    bindP (wrapErr (decPrimary cfg.strict r)) fun p r =>
    bindP (decBlocks cfg (r.length + 1) r) fun cs r =>
      .ok (⟨p, cs⟩, r)

/-- `ParseBundle` / `Bundle.UnmarshalCbor`: decode, then `CheckValid`. -/
def parse (cfg : Cfg) (now : Nat) (bs : Bytes) : Except Err (Bundle × Bytes) :=
  bindP (parseRaw cfg bs) fun b r =>
    if checkValid cfg.strict now b then .ok (b, r) else .error (.other 56)

end Dtn7.Bundle
