/-
Model of the status-report decision of the node core
  pkg/routing/core.go        (Core.HasEndpoint, Core.SendStatusReport)
  pkg/routing/processing.go  (the five report call sites: receive ×2, forward, localDelivery,
                              bundleDeletion; and the callers of bundleDeletion)
  pkg/bpv7/administrative_record_status_report.go (NewStatusReport, BundleStatusItem, StatusReport CBOR)
  pkg/bpv7/bundle.go         (Bundle.ID), pkg/bpv7/bundle_builder.go (the report bundle)

Core-only; used by the driver `drv_c15` and by `Dtn7.Props.C15`.
The second half of the file is the *Spec*: what property C15 demands of a report, phrased over the
subject bundle and a log of events that happened at the node, independent of the model.
-/
namespace Dtn7.Reports

abbrev Bytes := List UInt8

/-! ### Constants (tied to the source by `Dtn7.Gen.C15`, see `Props/C15.lean`) -/

/-- Bundle processing control flags (`pkg/bpv7/bundle_control_flags.go`). -/
def fIsFragment : Nat := 0x000001
def fAdmin : Nat := 0x000002
def fReqTime : Nat := 0x000040
def fReqReception : Nat := 0x004000
def fReqForward : Nat := 0x010000
def fReqDelivery : Nat := 0x020000
def fReqDeletion : Nat := 0x040000

/-- All four status-report request flags. -/
def fReqAll : Nat := 0x074000

/-- Block processing control flags (`pkg/bpv7/block_control_flags.go`). -/
def bfReport : Nat := 0x02
def bfDelete : Nat := 0x04
def bfRemove : Nat := 0x10

/-- `BundleControlFlags.Has` / `BlockControlFlags.Has`: `(bcf & flag) != 0`. -/
def has (flags flag : Nat) : Bool := (flags &&& flag) != 0

/-- `StatusInformationPos`. -/
def posReceived : Nat := 0
def posForwarded : Nat := 1
def posDelivered : Nat := 2
def posDeleted : Nat := 3
def maxPos : Nat := 4

/-- `StatusReportReason` codes used by the core. -/
def rNoInformation : Nat := 0
def rLifetimeExpired : Nat := 1
def rHopLimitExceeded : Nat := 9
def rBlockUnsupported : Nat := 11

/-- `Lifetime("60m")` of the report bundle, in milliseconds. -/
def reportLifetimeMs : Nat := 3600000

/-! ### Endpoints -/

/-- `bpv7.EndpointID` as far as the core's comparisons are concerned. -/
inductive Eid where
  | none
  | dtn (node : Bytes) (demux : Bytes)
  | ipn (node : Nat) (service : Nat)
deriving DecidableEq, Repr

/-- `SchemeName()`: 1 = "dtn" (dtn:none included), 2 = "ipn". -/
def Eid.scheme : Eid → Nat
  | .none => 1
  | .dtn _ _ => 1
  | .ipn _ _ => 2

/-- `Authority()`: "none" for dtn:none, the node name, the decimal node number. -/
def Eid.authority : Eid → Bytes
  | .none => [110, 111, 110, 101]
  | .dtn n _ => n
  | .ipn n _ => (Nat.toDigits 10 n).map (fun c => UInt8.ofNat c.toNat)

/-- `EndpointID.SameNode`: same scheme and same authority. -/
def sameNode (a b : Eid) : Bool := a.scheme == b.scheme && a.authority == b.authority

/-! ### Node and subject views -/

/-- What `Core.HasEndpoint` looks at. -/
structure Node where
  /-- `Core.NodeId` -/
  id : Eid
  /-- endpoints of the registered application agents (`AgentManager.HasEndpoint`: exact match) -/
  agents : List Eid := []
  /-- `cla.Manager.listenerIDs` (`Manager.HasEndpoint`: the authority strings are compared) -/
  listeners : List Eid := []
  /-- `GetEndpointID()` of the active `ConvergenceReceiver`s (`SameNode`) -/
  receivers : List Eid := []
deriving Repr

/-- `Core.HasEndpoint`. -/
def Node.hasEndpoint (n : Node) (e : Eid) : Bool :=
  sameNode n.id e ||
  n.agents.contains e ||
  n.listeners.any (fun a => a.authority == e.authority) ||
  n.receivers.any (fun r => sameNode r e)

/-- A bundle ID as it appears on the wire inside a status report (`BundleID.MarshalCbor`): the
fragment offset and total length are present exactly for fragments. -/
structure BundleId where
  source : Eid
  time : Nat
  seq : Nat
  frag : Option (Nat × Nat)
deriving DecidableEq, Repr

/-- The bundle a report is (or is not) generated about, together with what the descriptor knows. -/
structure Subject where
  /-- raw bundle processing control flags of the primary block -/
  flags : Nat
  source : Eid
  destination : Eid
  reportTo : Eid
  /-- creation timestamp -/
  time : Nat
  seq : Nat
  /-- `PrimaryBlock.FragmentOffset`, `TotalDataLength` -/
  fragOffset : Nat := 0
  totalLen : Nat := 0
  /-- block processing control flags of the canonical blocks whose type this node does not know,
  in the order of `Bundle.CanonicalBlocks` -/
  blocks : List Nat := []
  /-- `BundleDescriptor.Receiver` (`dtn:none` unless a convergence layer set it). On the retry path
  the descriptor is rebuilt from the store: the receiver then is the stored item's
  `bundlepack/receiver` property, which only a `Sync` with constraints writes — a bundle that was
  never dispatched after its reception comes back with `dtn:none`. -/
  receiver : Eid := .none
deriving Repr

def Subject.admin (s : Subject) : Bool := has s.flags fAdmin
def Subject.reqTime (s : Subject) : Bool := has s.flags fReqTime
def Subject.isFragment (s : Subject) : Bool := has s.flags fIsFragment

/-- `Bundle.ID()` followed by `BundleID.MarshalCbor`. -/
def Subject.id (s : Subject) : BundleId :=
  { source := s.source, time := s.time, seq := s.seq,
    frag := if s.isFragment then some (s.fragOffset, s.totalLen) else none }

/-! ### The report -/

/-- `BundleStatusItem` as serialised: `[asserted]` or `[asserted, time]`. -/
structure Item where
  asserted : Bool
  time : Option Nat
deriving DecidableEq, Repr

/-- A status report bundle: primary block fields and the decoded administrative record. -/
structure Report where
  /-- raw bundle processing control flags of the report bundle -/
  flags : Nat
  source : Eid
  destination : Eid
  reportTo : Eid
  lifetime : Nat
  items : List Item
  reason : Nat
  ref : BundleId
deriving DecidableEq, Repr

/-- One element of `NewStatusReport`'s loop. -/
def newItem (t : Option Nat) (p i : Nat) : Item :=
  if i = p then ⟨true, t⟩ else ⟨false, none⟩

/-- `NewStatusReport`: `maxStatusInformationPos` items, the one at `statusItem` asserted, with the
time exactly if the subject has `RequestStatusTime`. -/
def newItems (reqTime : Bool) (p now : Nat) : List Item :=
  let t := if reqTime then some now else none
  [newItem t p 0, newItem t p 1, newItem t p 2, newItem t p 3]

/-- Model variants. `reportOnlyOnSuccess = false` is `localDelivery` as it stands (the delivery
report is sent whatever `AgentManager.Deliver` returned, D16); `true` is the repaired code. The
variant of the current tree is read from the source (`Gen.C15.reportOnlyOnSuccess`). -/
structure Cfg where
  reportOnlyOnSuccess : Bool
deriving Repr, DecidableEq

/-- `aaEndpoint`: the descriptor's receiver, or the node ID if there is none. -/
def aaEndpoint (n : Node) (s : Subject) : Eid :=
  if s.receiver = Eid.none then n.id else s.receiver

/-- The guards of `SendStatusReport` taken together: a report about `s` can be produced at `n`. -/
def reportingAllowed (n : Node) (s : Subject) : Bool :=
  !s.admin && !n.hasEndpoint s.reportTo &&
  !(!n.hasEndpoint (aaEndpoint n s) && aaEndpoint n s != n.id)

/-- `Core.SendStatusReport`: both guards, the receiver/`aaEndpoint` logic, `NewStatusReport` and the
builder chain (`BundleCtrlFlags(AdministrativeRecordPayload)`, `Source(aaEndpoint)`,
`Destination(ReportTo)`, `Lifetime("60m")`; `Build` sets report-to := source). -/
def sendStatusReport (n : Node) (s : Subject) (status reason now : Nat) : Option Report :=
  -- Don't respond to other administrative records
  if s.admin then none
  -- Don't respond to ourself
  else if n.hasEndpoint s.reportTo then none
  else
    let aa := aaEndpoint n s
    if !n.hasEndpoint aa && aa != n.id then none
    else some
      { flags := fAdmin, source := aa, destination := s.reportTo, reportTo := aa,
        lifetime := reportLifetimeMs, items := newItems s.reqTime status now, reason := reason,
        ref := s.id }

/-! ### The call sites in `processing.go` -/

/-- What can happen to a bundle at the node, one entry per piece of code that may report. -/
inductive Outcome where
  /-- `receive`: a bundle with an unknown ID arrived -/
  | received
  /-- `receive`: a canonical block of a type unknown to this node, with its block flags -/
  | unknownBlock (flags : Nat)
  /-- `localDelivery`: `AgentManager.Deliver` handed the bundle to an application agent -/
  | deliveredAgent
  /-- `localDelivery`: the destination is an endpoint of this node but no agent took the bundle -/
  | noAgent
  /-- `forward`: at least one convergence layer accepted the bundle -/
  | forwarded
  /-- `forward`: every `Send` failed (or there was nobody to send to) -/
  | allFailed
  /-- `forward`: `IsLifetimeExceeded` / bundle age ≥ lifetime -/
  | lifetimeExpired
  /-- `forward`: hop count block exceeded after the increment -/
  | hopExceeded
  /-- `transmit`: the source is neither dtn:none nor an endpoint of this node -/
  | foreignSource
  /-- `dispatching`: the routing algorithm did not allow dispatching (nothing happens) -/
  | notDispatched
deriving DecidableEq, Repr

def toList (c : Bool) (r : Option Report) : List Report :=
  if c then r.toList else []

/-- `bundleDeletion`: report only with `StatusRequestDeletion`. -/
def bundleDeletion (n : Node) (s : Subject) (reason now : Nat) : List Report :=
  toList (has s.flags fReqDeletion) (sendStatusReport n s posDeleted reason now)

/-- The reports emitted for one outcome: the condition of each call site and its arguments. -/
def processOutcome (cfg : Cfg) (n : Node) (s : Subject) (now : Nat) : Outcome → List Report
  | .received =>
    toList (has s.flags fReqReception) (sendStatusReport n s posReceived rNoInformation now)
  | .unknownBlock f =>
    toList (has f bfReport) (sendStatusReport n s posReceived rBlockUnsupported now) ++
    (if has f bfDelete then bundleDeletion n s rBlockUnsupported now else [])
  | .deliveredAgent =>
    toList (has s.flags fReqDelivery) (sendStatusReport n s posDelivered rNoInformation now)
  | .noAgent =>
    if cfg.reportOnlyOnSuccess then []
    else toList (has s.flags fReqDelivery) (sendStatusReport n s posDelivered rNoInformation now)
  | .forwarded =>
    toList (has s.flags fReqForward) (sendStatusReport n s posForwarded rNoInformation now)
  | .allFailed => []
  | .lifetimeExpired => bundleDeletion n s rLifetimeExpired now
  | .hopExceeded => bundleDeletion n s rHopLimitExceeded now
  | .foreignSource => bundleDeletion n s rNoInformation now
  | .notDispatched => []

/-- How a bundle enters the core. -/
inductive Flow where
  /-- `receive` of an ID that already has retention constraints: returns at once -/
  | receiveKnown
  /-- `receive`: reception, then the unknown blocks from the last to the first, then `dispatching`
  (unless a block demanded the deletion of the bundle) with the given outcome -/
  | receive (dispatch : Outcome)
  /-- `SendBundle`/`transmit` with a foreign source -/
  | submitForeign
  /-- `SendBundle`/`transmit` → `dispatching` -/
  | submit (dispatch : Outcome)
  /-- `checkPendingBundles` → `dispatching` -/
  | retry (dispatch : Outcome)
deriving DecidableEq, Repr

/-- Outcomes `dispatching` can end in (`received`, `unknownBlock` belong to `receive` only,
`foreignSource` to `transmit` only). -/
def Outcome.isDispatch : Outcome → Bool
  | .received | .unknownBlock _ | .foreignSource => false
  | _ => true

def Flow.wellFormed : Flow → Bool
  | .receive d | .submit d | .retry d => d.isDispatch
  | _ => true

/-- The loop over the canonical blocks in `receive` (`bs` already in visiting order). -/
def blockOutcomes (dispatch : Outcome) : List Nat → List Outcome
  | [] => [dispatch]
  | f :: fs => .unknownBlock f :: (if has f bfDelete then [] else blockOutcomes dispatch fs)

/-- The outcomes a flow passes through, in program order. -/
def flowOutcomes (s : Subject) : Flow → List Outcome
  | .receiveKnown => []
  | .receive d => .received :: blockOutcomes d s.blocks.reverse
  | .submitForeign => [.foreignSource]
  | .submit d => [d]
  | .retry d => [d]

def flowReports (cfg : Cfg) (n : Node) (s : Subject) (now : Nat) (fl : Flow) : List Report :=
  (flowOutcomes s fl).flatMap (processOutcome cfg n s now)

/-- What the store's index keeps of a bundle's ID (`newBundleItem`: `BId: bid.Scrub()`): source and
creation timestamp, *without* the fragment offset and total length. -/
def storedId (s : Subject) : BundleId := { s.id with frag := none }

/-- The `Id` of the `BundleDescriptor` a flow works with. `receive` and `SendBundle` build it from
the bundle (`NewBundleDescriptorFromBundle`: `b.ID()`); `checkPendingBundles` rebuilds it from the
store (`NewBundleDescriptor(bi.BId, …)`), i.e. from the scrubbed ID — the bundle itself
(`descriptor.Bundle()`, loaded from the stored bytes) still is the subject `s` with all its fields.
`sendStatusReport` takes the reference from the bundle (`bndl.ID()`), never from the descriptor. -/
def descriptorId (s : Subject) : Flow → BundleId
  | .retry _ => storedId s
  | _ => s.id

/-- A report bundle seen as a subject when it re-enters some node (`receive` or `SendBundle`);
creation timestamp, unknown blocks and receiver are whatever the environment chooses. -/
def Report.asSubject (r : Report) (time seq : Nat) (blocks : List Nat) (receiver : Eid) : Subject :=
  { flags := r.flags, source := r.source, destination := r.destination, reportTo := r.reportTo,
    time := time, seq := seq, blocks := blocks, receiver := receiver }

/-! ### Histories (for the no-cascade theorem) -/

/-- One step of a history: some node processes some subject along some flow. -/
structure Step where
  node : Node
  subject : Subject
  now : Nat
  flow : Flow
deriving Repr

def Step.reports (cfg : Cfg) (e : Step) : List Report :=
  flowReports cfg e.node e.subject e.now e.flow

/-- All reports emitted along a history. -/
def runHistory (cfg : Cfg) (h : List Step) : List Report :=
  h.flatMap (Step.reports cfg)

/-- Number of (outcome-level) events of a history whose subject is not an administrative record. -/
def nonAdminEvents (h : List Step) : Nat :=
  (h.map fun e => if e.subject.admin then 0 else (flowOutcomes e.subject e.flow).length).sum

/-! ## Spec — independent of the model

Events are what an observer of the node can establish without looking at the report code: the
bundle was handed to `receive` with a new ID; it carries a block of a type the node does not know;
a convergence layer accepted it; an application agent got it; the node dropped it. -/

inductive Event where
  | received
  | unsupportedBlock (flags : Nat)
  | forwarded
  | delivered
  | deleted (reason : Nat)
deriving DecidableEq, Repr

/-- The events an outcome consists of (the meaning of the outcome names). -/
def eventsOf : Outcome → List Event
  | .received => [.received]
  | .unknownBlock f =>
    [.received, .unsupportedBlock f] ++ (if has f bfDelete then [.deleted rBlockUnsupported] else [])
  | .deliveredAgent => [.delivered]
  | .noAgent => []
  | .forwarded => [.forwarded]
  | .allFailed => []
  | .lifetimeExpired => [.deleted rLifetimeExpired]
  | .hopExceeded => [.deleted rHopLimitExceeded]
  | .foreignSource => [.deleted rNoInformation]
  | .notDispatched => []

def flowEvents (s : Subject) (fl : Flow) : List Event :=
  (flowOutcomes s fl).flatMap eventsOf

def isDeleted : Event → Bool
  | .deleted _ => true
  | _ => false

def blockWantsReport : Event → Bool
  | .unsupportedBlock f => has f bfReport
  | _ => false

/-- Did the event a status position stands for happen? -/
def happened (evs : List Event) (p : Nat) : Bool :=
  match p with
  | 0 => evs.contains .received
  | 1 => evs.contains .forwarded
  | 2 => evs.contains .delivered
  | 3 => evs.any isDeleted
  | _ => false

/-- Was a report about that position requested — by the bundle's flag or, for reception, by an
unsupported block's "report if unprocessable" flag? -/
def requested (s : Subject) (evs : List Event) (p : Nat) : Bool :=
  match p with
  | 0 => has s.flags fReqReception || evs.any blockWantsReport
  | 1 => has s.flags fReqForward
  | 2 => has s.flags fReqDelivery
  | 3 => has s.flags fReqDeletion
  | _ => false

/-- Positions of the asserted items. -/
def assertedAt : Nat → List Item → List Nat
  | _, [] => []
  | i, it :: rest => if it.asserted then i :: assertedAt (i + 1) rest else assertedAt (i + 1) rest

def assertedPositions (r : Report) : List Nat := assertedAt 0 r.items

/-- Every item carries a time exactly if it is asserted and the subject requested times. -/
def timesOk (reqTime : Bool) (items : List Item) : Bool :=
  items.all fun it => it.time.isSome == (it.asserted && reqTime)

/-- Number of events (received, unsupported block, forwarded, delivered, deleted) that happened to
non-administrative subjects along a history. -/
def nonAdminEventCount (h : List Step) : Nat :=
  (h.map fun e => if e.subject.admin then 0 else (flowEvents e.subject e.flow).length).sum

/-- The bundle ID without the fragment fields. -/
def BundleId.scrub (i : BundleId) : BundleId := { i with frag := none }

/-- **`ReportJustified`**: the report `r`, observed at a node where the events `evs` happened to the
subject `s`, is what property C15 allows. -/
structure ReportJustified (s : Subject) (evs : List Event) (r : Report) : Prop where
  /-- no report about an administrative record -/
  subjectNotAdmin : s.admin = false
  /-- the report is an administrative record … -/
  isAdmin : has r.flags fAdmin = true
  /-- … without report-request flags -/
  noRequestFlags : has r.flags fReqAll = false
  /-- addressed to the subject's report-to endpoint -/
  toReportTo : r.destination = s.reportTo
  /-- names the subject's exact ID, fragment offset and length included -/
  exactId : r.ref = s.id
  /-- times only if requested (and then on the asserted item) -/
  times : timesOk s.reqTime r.items = true
  /-- exactly one status is asserted, it happened, and it was requested -/
  truthful : ∃ p, assertedPositions r = [p] ∧ happened evs p = true ∧ requested s evs p = true

def posName : Nat → String
  | 0 => "received"
  | 1 => "forwarded"
  | 2 => "delivered"
  | 3 => "deleted"
  | _ => "unknown-status"

/-- The executable form used by the driver: `none` if justified, otherwise the class of the first
failing clause. -/
def reportJustifiedFail (s : Subject) (evs : List Event) (r : Report) : Option String :=
  if s.admin then some "report-about-administrative-record"
  else if !has r.flags fAdmin then some "report-is-not-an-administrative-record"
  else if has r.flags fReqAll then some "report-carries-request-flags"
  else if r.destination ≠ s.reportTo then some "report-not-addressed-to-report-to"
  else if r.ref ≠ s.id then
    (if r.ref.scrub = s.id.scrub then some "report-ref-not-exact-id-fragment-fields-differ"
     else some "report-ref-not-exact-id")
  else if !timesOk s.reqTime r.items then
    (if s.reqTime then some "report-time-missing-though-requested"
     else some "report-time-present-though-not-requested")
  else
    match assertedPositions r with
    | [] => some "report-asserts-nothing"
    | [p] =>
      if !happened evs p then some ("reported-" ++ posName p ++ "-did-not-happen")
      else if !requested s evs p then some ("reported-" ++ posName p ++ "-not-requested")
      else none
    | _ => some "report-asserts-several-statuses"

/-- **`NoReportToSelf`** at the level of one observation: if the subject's report-to endpoint is an
endpoint of the observed node (`self`, established by the observer), nothing may be reported. -/
def noReportToSelfFail (self : Bool) (reports : List Report) : Option String :=
  if self && !reports.isEmpty then some "report-to-own-endpoint" else none

/-- **`NoCascade`** at the level of one observation: `n` = number of *new* administrative records
that appeared after a report bundle was fed back into a node. -/
def noCascadeFail (n : Nat) : Option String :=
  if n ≠ 0 then some "report-triggered-a-report" else none

/-- **`ReportComplete`** (the converse; correspondence, not part of the property statement): every
status that happened and was requested is asserted by some report — provided the guards allow
reporting at all (`allowed`). -/
def missingReports (s : Subject) (evs : List Event) (allowed : Bool) (reports : List Report) : List Nat :=
  if !allowed then [] else
  [0, 1, 2, 3].filter fun p =>
    happened evs p && requested s evs p && !reports.any (fun r => assertedPositions r == [p])

end Dtn7.Reports
