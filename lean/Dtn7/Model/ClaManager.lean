/-
Model of dtn7's CLA manager (pkg/cla/manager.go, manager_elem.go) for property C16, and the Spec
predicates of C16 (section `Spec`, independent of the model: they only read observations).

What is mirrored
* `convergenceElem`  ↦ `Elem {conv, ttl, stop}`: `ttl < 0` is the encoding of "active"; `stop` is
  the state of the `stopSyn/stopAck` channel pair (`absent` = nil, `opened` = made by a successful
  `activate`, its `handler` goroutine is running, `closed` = closed by `deactivate`).
* `activate`/`deactivate`/`isActive`/`newConvergenceElement` statement by statement. Closing a nil
  or closed channel is an explicit `panic` outcome (`deactivate` returns `none`).
* `Manager.convs` (a `sync.Map` keyed by `Address()`) ↦ `reg : List Elem`, at most one element per
  address (an invariant, proved). Map iteration order is unspecified in Go; the model iterates in
  list order and every observation the Spec reads is per adapter, hence order independent.
* `registerConvergence`, `unregisterConvergence`, `Restart`, the three branches of `handler()`
  (retry ticker, `PeerDisappeared`, shutdown) and `Close` ↦ `register … close`.
* adapters are numbered; `Cfg` holds what the interface methods return (`Address`, sender and/or
  receiver, `IsPermanent`, `GetEndpointID`, `GetPeerEndpointID`); the answers of successive
  `Start()` calls come from `Env.script adapter callIndex`.
* every `Start()`/`Close()` call on an adapter and every operation is appended to `hist` (newest
  first) — the observation log the Spec speaks about.

`Env.fixed = false` is the code before the `fix:` commit for D13 (the ttl is decremented on every
retryable failure, also at 0).
-/
namespace Dtn7.ClaManager

/-- The answer of one `Convergence.Start()` call: `(nil, _)`, `(err, true)`, `(err, false)`. -/
inductive Ans | ok | failRetry | failNoRetry
  deriving DecidableEq, Repr

inductive Op
  | register (a : Nat) | unregister (a : Nat) | restart (a : Nat)
  | tick | peerDisappeared (a : Nat) | close
  deriving DecidableEq, Repr

/-- One entry of the observation log: an operation begins, `Start()` of adapter `a` answered `r`,
`Close()` of adapter `a` was called. -/
inductive Item | op (o : Op) | start (a : Nat) (r : Ans) | stop (a : Nat)
  deriving DecidableEq, Repr

/-- Newest entry first. -/
abbrev Hist := List Item

structure Cfg where
  addr : Nat
  sender : Bool
  receiver : Bool
  permanent : Bool
  eid : Nat
  peer : Nat
  deriving DecidableEq, Repr

structure Env where
  cfg : Nat → Cfg
  script : Nat → Nat → Ans
  /-- `Manager.queueTtl` -/
  budget : Nat
  /-- the D13 repair is present -/
  fixed : Bool := true

inductive Chan | absent | opened | closed
  deriving DecidableEq, Repr

structure Elem where
  conv : Nat
  ttl : Int
  stop : Chan
  deriving DecidableEq, Repr

/-- `isActive` -/
def Elem.active (e : Elem) : Bool := decide (e.ttl < 0)

/-- how often `Start()` of adapter `a` has been called -/
def startCount (a : Nat) : Hist → Nat
  | [] => 0
  | .start a' _ :: h => (if a' = a then 1 else 0) + startCount a h
  | _ :: h => startCount a h

structure ActRes where
  elem : Elem
  hist : Hist
  succ : Bool
  retry : Bool

/-- `convergenceElem.activate` -/
def activate (env : Env) (e : Elem) (h : Hist) : ActRes :=
  if e.ttl < 0 then ⟨e, h, false, false⟩
  else if e.ttl = 0 ∧ (env.cfg e.conv).permanent = false then ⟨e, h, false, false⟩
  else
    match env.script e.conv (startCount e.conv h) with
    | .ok => ⟨{ e with ttl := -1, stop := .opened }, .start e.conv .ok :: h, true, false⟩
    | .failRetry =>
      let ttl' := if env.fixed then (if 0 < e.ttl then e.ttl - 1 else e.ttl) else e.ttl - 1
      ⟨{ e with ttl := ttl' }, .start e.conv .failRetry :: h, false, true⟩
    | .failNoRetry => ⟨{ e with ttl := 0 }, .start e.conv .failNoRetry :: h, false, false⟩

/-- `convergenceElem.deactivate(queueTtl)`; `none` = run-time panic (close of a nil or closed
channel). -/
def deactivate (env : Env) (e : Elem) (h : Hist) : Option (Elem × Hist) :=
  if e.ttl < 0 then
    match e.stop with
    | .opened => some ({ e with ttl := env.budget, stop := .closed }, .stop e.conv :: h)
    | _ => none
  else some (e, h)

structure State where
  reg : List Elem := []
  hist : Hist := []
  /-- `Close` has been called (stopFlag set, handler gone) -/
  closed : Bool := false
  panicked : Bool := false

def addrOf (env : Env) (e : Elem) : Nat := (env.cfg e.conv).addr

def lookup (env : Env) (addr : Nat) (reg : List Elem) : Option Elem :=
  reg.find? (fun e => addrOf env e == addr)

def remove (env : Env) (addr : Nat) (reg : List Elem) : List Elem :=
  reg.filter (fun e => addrOf env e != addr)

def replace (env : Env) (e' : Elem) (reg : List Elem) : List Elem :=
  reg.map (fun e => if addrOf env e == addrOf env e' then e' else e)

/-- "this CLA is a sender to a registered receiver": `Receiver()` lists the active ones only. -/
def refused (env : Env) (reg : List Elem) (c : Nat) : Bool :=
  (env.cfg c).sender &&
    reg.any (fun r => r.active && (env.cfg r.conv).receiver && (env.cfg r.conv).eid == (env.cfg c).peer)

/-- `Register` → `registerConvergence` -/
def register (env : Env) (s : State) (a : Nat) : State :=
  if s.closed then s else
  match lookup env (env.cfg a).addr s.reg with
  | some e =>
    -- the OLD element (and its wrapped instance) is re-activated, `a` itself is ignored
    if e.ttl < 0 then s
    else if refused env s.reg e.conv then s
    else
      let r := activate env e s.hist
      { s with reg := replace env r.elem s.reg, hist := r.hist }
  | none =>
    if refused env s.reg a then s
    else
      let r := activate env ⟨a, env.budget, .absent⟩ s.hist
      if !r.succ && !r.retry then { s with hist := r.hist }
      else { s with reg := s.reg ++ [r.elem], hist := r.hist }

/-- `Unregister` → `unregisterConvergence` -/
def unregister (env : Env) (s : State) (a : Nat) : State :=
  match lookup env (env.cfg a).addr s.reg with
  | none => s
  | some e =>
    if e.conv ≠ a then s
    else
      match deactivate env e s.hist with
      | none => { s with panicked := true }
      | some (_, h) => { s with reg := remove env (env.cfg a).addr s.reg, hist := h }

/-- `Restart` -/
def restart (env : Env) (s : State) (a : Nat) : State :=
  let s₁ := unregister env s a
  if s₁.panicked then s₁ else register env s₁ a

/-- the retry pass of `handler()` over the elements -/
def tickList (env : Env) : List Elem → Hist → List Elem × Hist
  | [], h => ([], h)
  | e :: es, h =>
    if e.ttl < 0 then
      let r := tickList env es h
      (e :: r.1, r.2)
    else
      let res := activate env e h
      let r := tickList env es res.hist
      if !res.succ && !res.retry then r else (res.elem :: r.1, r.2)

def tick (env : Env) (s : State) : State :=
  if s.closed then s else
  let r := tickList env s.reg s.hist
  { s with reg := r.1, hist := r.2 }

/-- shutdown branch of `handler()`: `Unregister` every element -/
def closeAll (env : Env) : List Elem → Hist → Option Hist
  | [], h => some h
  | e :: es, h =>
    match deactivate env e h with
    | none => none
    | some (_, h') => closeAll env es h'

/-- `Close`: a second call closes the closed `stopSyn` channel. -/
def close (env : Env) (s : State) : State :=
  if s.closed then { s with panicked := true }
  else
    match closeAll env s.reg s.hist with
    | none => { s with closed := true, panicked := true }
    | some h => { s with reg := [], hist := h, closed := true }

def step (env : Env) (s : State) (o : Op) : State :=
  if s.panicked then s else
  let s := { s with hist := .op o :: s.hist }
  match o with
  | .register a => register env s a
  | .unregister a => unregister env s a
  | .restart a => restart env s a
  | .tick => tick env s
  | .peerDisappeared a => if s.closed then s else restart env s a
  | .close => close env s

def run (env : Env) (s : State) : List Op → State
  | [] => s
  | o :: os => run env (step env s o) os

/-! ### Observations -/

inductive Outcome | ok | panic | deadlock
  deriving DecidableEq, Repr

/-- What is visible after one operation: the log so far (it contains this operation's marker and
its `Start`/`Close` calls), `Sender()`, `Receiver()`, and whether the operation returned. -/
structure Obs where
  op : Op
  hist : Hist
  senders : List Nat
  receivers : List Nat
  outcome : Outcome

def sendersOf (env : Env) (s : State) : List Nat :=
  (s.reg.filter (fun e => e.active && (env.cfg e.conv).sender)).map (·.conv)

def receiversOf (env : Env) (s : State) : List Nat :=
  (s.reg.filter (fun e => e.active && (env.cfg e.conv).receiver)).map (·.conv)

def obsOf (env : Env) (o : Op) (s : State) : Obs :=
  if s.panicked then ⟨o, s.hist, [], [], .panic⟩
  else ⟨o, s.hist, sendersOf env s, receiversOf env s, .ok⟩

/-- The observations of a trace; it ends with the first panic. -/
def runObs (env : Env) (s : State) : List Op → List Obs
  | [] => []
  | o :: os =>
    let s' := step env s o
    obsOf env o s' :: (if s'.panicked then [] else runObs env s' os)

/-! ### Spec: predicates on observations only (no `Env.script`, no model state) -/
namespace Spec

/-- the most recent `Start` of `a` succeeded and `a` was not closed since -/
def running (a : Nat) : Hist → Bool
  | [] => false
  | .start a' r :: h => if a' = a then decide (r = .ok) else running a h
  | .stop a' :: h => if a' = a then false else running a h
  | .op _ :: h => running a h

/-- adapters with at least one `Start`/`Close` call -/
def adapters : Hist → List Nat
  | [] => []
  | .start a _ :: h => a :: adapters h
  | .stop a :: h => a :: adapters h
  | .op _ :: h => adapters h

/-- the log before the current operation -/
def prev : Hist → Hist
  | [] => []
  | .op _ :: h => h
  | _ :: h => prev h

/-- `Start` calls of `a` during the current operation -/
def startsInStep (a : Nat) : Hist → Nat
  | [] => 0
  | .op _ :: _ => 0
  | .start a' _ :: h => (if a' = a then 1 else 0) + startsInStep a h
  | .stop _ :: h => startsInStep a h

/-- **listed ⇔ started**: an adapter is listed by `Sender()` (`Receiver()`) exactly if it is a
sender (receiver) whose most recent start succeeded and which was not stopped since. -/
def activeIffStarted (cfg : Nat → Cfg) (o : Obs) : Bool :=
  (o.senders ++ o.receivers ++ adapters o.hist).all fun a =>
    (o.senders.contains a == (running a o.hist && (cfg a).sender)) &&
    (o.receivers.contains a == (running a o.hist && (cfg a).receiver))

/-- `Start` only on an adapter that is not running, `Close` only on a running one: every successful
start is closed at most once, nothing else is ever closed. -/
def discipline : Hist → Bool
  | [] => true
  | .start a _ :: h => !running a h && discipline h
  | .stop a :: h => running a h && discipline h
  | .op _ :: h => discipline h

def allStopped (h : Hist) : Bool := (adapters h).all fun a => !running a h

/-- successful `Start()` calls / `Close()` calls of adapter `a` -/
def okStarts (a : Nat) : Hist → Nat
  | [] => 0
  | .start a' r :: h => (if a' = a ∧ r = .ok then 1 else 0) + okStarts a h
  | _ :: h => okStarts a h

def stops (a : Nat) : Hist → Nat
  | [] => 0
  | .stop a' :: h => (if a' = a then 1 else 0) + stops a h
  | _ :: h => stops a h

/-- **close stops every started adapter exactly once** (with `discipline`) -/
def closeStops (o : Obs) : Bool :=
  !(o.op == .close) || allStopped o.hist

/-- the operation (re-)registers an adapter with `a`'s address -/
def registers (cfg : Nat → Cfg) (a : Nat) : Op → Bool
  | .register x => (cfg x).addr == (cfg a).addr
  | .restart x => (cfg x).addr == (cfg a).addr
  | .peerDisappeared x => (cfg x).addr == (cfg a).addr
  | _ => false

/-- start attempts a non-permanent adapter may still get: `b` from each (re-)registration of its
address, one less after each retryable failure, none after a success or a definitive failure. -/
def left (cfg : Nat → Cfg) (b : Nat) (a : Nat) : Hist → Nat
  | [] => 0
  | .op o :: h => if registers cfg a o then b else left cfg b a h
  | .start a' r :: h =>
    if a' = a then (match r with | .failRetry => left cfg b a h - 1 | _ => 0) else left cfg b a h
  | .stop _ :: h => left cfg b a h

def budgetOk (cfg : Nat → Cfg) (b : Nat) (a : Nat) : Hist → Bool
  | [] => true
  | .start a' _ :: h => (!(a' == a) || decide (0 < left cfg b a h)) && budgetOk cfg b a h
  | _ :: h => budgetOk cfg b a h

/-- **retry budget**: between two (re-)registrations of its address a non-permanent adapter is
started at most `b` times, and not again after `b` retryable failures, a success or a definitive
failure ("forgotten"). -/
def budgetRespected (cfg : Nat → Cfg) (b : Nat) (h : Hist) : Bool :=
  (adapters h).all fun a => (cfg a).permanent || budgetOk cfg b a h

/-- the operation takes adapter `a` (or the whole manager) down -/
def clears (a : Nat) : Op → Bool
  | .unregister x => x == a
  | .restart x => x == a
  | .peerDisappeared x => x == a
  | .close => true
  | _ => false

/-- adapter `a` waits for a retry: its last `Start` failed retryably and neither it nor the
manager was taken down since. -/
def pending (a : Nat) : Hist → Bool
  | [] => false
  | .op o :: h => !clears a o && pending a h
  | .start a' r :: h => if a' = a then decide (r = .failRetry) else pending a h
  | .stop a' :: h => if a' = a then false else pending a h

/-- **permanent adapters are retried for ever**: at every retry tick each waiting permanent adapter
is started exactly once. -/
def permanentRetried (cfg : Nat → Cfg) (o : Obs) : Bool :=
  !(o.op == .tick) ||
    (adapters (prev o.hist)).all fun a =>
      !((cfg a).permanent && pending a (prev o.hist)) || startsInStep a o.hist == 1

/-- `Close` calls of `a` during the current operation -/
def stopsInStep (a : Nat) : Hist → Nat
  | [] => 0
  | .op _ :: _ => 0
  | .stop a' :: h => (if a' = a then 1 else 0) + stopsInStep a h
  | .start _ _ :: h => stopsInStep a h

/-- `a` is a sender whose peer endpoint is the endpoint of another, running receiver (the manager
refuses to register such a sender) -/
def peerIsReceiver (cfg : Nat → Cfg) (a : Nat) (h : Hist) : Bool :=
  (cfg a).sender && (adapters h).any fun r =>
    r != a && running r h && (cfg r).receiver && (cfg r).eid == (cfg a).peer

/-- **a reported peer loss (or `Restart`) restarts a running adapter**: it is closed exactly once
and then started exactly once — not started only if it is refused as a sender to a registered
receiver, or if the budget is 0 and it is not permanent. -/
def restartRestarts (cfg : Nat → Cfg) (b : Nat) (o : Obs) : Bool :=
  match o.op with
  | .restart a | .peerDisappeared a =>
    !running a (prev o.hist) ||
      (stopsInStep a o.hist == 1 &&
        startsInStep a o.hist ==
          (if peerIsReceiver cfg a (prev o.hist) || (b == 0 && !(cfg a).permanent) then 0 else 1))
  | _ => true

/-- **no panic, no dead-lock**; calling `Close` a second time is outside the property. -/
def noPanic (o : Obs) : Bool :=
  match o.outcome with
  | .ok => true
  | .deadlock => false
  | .panic => o.op == .close && (prev o.hist).contains (.op .close)

/-- **one instance per address** is running at any time -/
def singleInstance (cfg : Nat → Cfg) (h : Hist) : Bool :=
  (adapters h).all fun a => (adapters h).all fun a' =>
    a == a' || !((cfg a).addr == (cfg a').addr) || !(running a h && running a' h)

/-- adapter `a` is registered: its address was (re-)registered and `a` was not taken down since
(`Unregister`, `Close`; `Restart` and a reported peer loss take it down and register it again) -/
def registeredIn (cfg : Nat → Cfg) (a : Nat) : Hist → Bool
  | [] => false
  | .op o :: h => registers cfg a o || (!clears a o && registeredIn cfg a h)
  | _ :: h => registeredIn cfg a h

/-- **an unregistered adapter is left alone**: the manager calls `Start` only on an adapter that is
registered at that moment — neither the retry ticker nor anything else revives an adapter after
`Unregister` or after the manager was closed. -/
def startedOnlyRegistered (cfg : Nat → Cfg) : Hist → Bool
  | [] => true
  | .start a _ :: h => registeredIn cfg a h && startedOnlyRegistered cfg h
  | _ :: h => startedOnlyRegistered cfg h

/-- All clauses for one observation. -/
def obsOk (cfg : Nat → Cfg) (b : Nat) (o : Obs) : Bool :=
  noPanic o &&
  (o.outcome != .ok ||
    (activeIffStarted cfg o && discipline o.hist && closeStops o && budgetRespected cfg b o.hist &&
      permanentRetried cfg o && singleInstance cfg o.hist && restartRestarts cfg b o))

end Spec

end Dtn7.ClaManager
