/-
Model of the node core (store-carry-forward) of dtn7
  pkg/routing/processing.go        SendBundle / transmit / receive / dispatching / forward /
                                   localDelivery / bundleContraindicated / bundleDeletion
  pkg/routing/bundle_descriptor.go NewBundleDescriptor(FromBundle) / Sync / PurgeConstraints
  pkg/routing/core.go              checkPendingBundles / senderForDestination / HasEndpoint / handler
  pkg/routing/algorithm.go         filterCLAs
  pkg/routing/algorithm_*.go       NotifyNewBundle / DispatchingAllowed / SenderForBundle / ReportFailure
                                   of epidemic, spray, binary_spray, prophet, dtlsr and the sensor-mule wrapper
  pkg/routing/id_keeper.go         IdKeeper.update
  pkg/storage/store.go             Push / Update / Delete / DeleteExpired / QueryPending
  pkg/storage/bundle_item.go       newBundleItem / calcExpirationDate

Bundles are abstract (bytes are other properties' business): identity (source, creation time, sequence
number), destination, previous node, lifetime, hop count block, age block, "unknown block that demands
deletion", binary-spray block.  `tag` names the concrete bundle (the harness puts it into the payload) so
that two different bundles with one ID can be told apart.

Environment: CLA send outcomes, the iteration order of `sync.Map.Range` in `cla.Manager.Sender()` and the
numeric routing decisions of PRoPHET / DTLSR (properties C19 / C20) are oracle arguments (`Env`).
Wall-clock time is the `now` field; it only advances with `cleanTick t`.

Core-only, executable; used by `drv_c05`, `drv_c13`, `Dtn7.Props.C05`, `Dtn7.Props.C13`.
-/
namespace Dtn7.Node

/-! ## Data -/

/-- An endpoint ID `dtn://<node>/<svc>`. `==` is Go's struct equality on `bpv7.EndpointID`
(what `filterCLAs` and the sent lists use); `sameNode` is `EndpointID.SameNode`. -/
structure Eid where
  node : Nat
  svc : Nat
deriving DecidableEq, Repr

def Eid.sameNode (a b : Eid) : Bool := a.node == b.node

/-- `bpv7.BundleID` of an unfragmented bundle = the store key (`BundleID.Scrub().String()`). -/
structure Key where
  src : Eid
  ts : Nat
  seq : Nat
deriving DecidableEq, Repr

structure Bundle where
  tag : Nat
  src : Eid
  /-- creation time in ms; `0` = source without a clock -/
  ts : Nat
  seq : Nat
  dst : Eid
  /-- previous node block -/
  prev : Option Eid
  lifetime : Nat
  /-- hop count block `(limit, count)` -/
  hop : Option (Nat × Nat)
  /-- bundle age block (ms) -/
  age : Option Nat
  /-- carries a block of unknown type whose flags demand deletion of the bundle -/
  delBlock : Bool
  /-- binary spray block (remaining copies) -/
  bsCopies : Option Nat
deriving DecidableEq, Repr

def Bundle.key (b : Bundle) : Key := ⟨b.src, b.ts, b.seq⟩

/-- Retention constraints (`constraint.go`), a set. -/
structure Cons where
  dp : Bool   -- DispatchPending
  fp : Bool   -- ForwardPending
  rp : Bool   -- ReassemblyPending_
  ci : Bool   -- Contraindicated
  le : Bool   -- LocalEndpoint
deriving DecidableEq, Repr

def Cons.empty : Cons := ⟨false, false, false, false, false⟩
def Cons.isEmpty (c : Cons) : Bool := !(c.dp || c.fp || c.rp || c.ci || c.le)
/-- `PurgeConstraints`: everything except LocalEndpoint. -/
def Cons.purge (c : Cons) : Cons := { Cons.empty with le := c.le }
/-- The pending rule of `BundleDescriptor.Sync`. -/
def Cons.pendingRule (c : Cons) : Bool := !c.rp && (c.fp || c.ci)

/-- The properties of a store item that belong to the routing algorithms. -/
structure Routing where
  /-- `Properties["routing/epidemic/destination"]` -/
  epiDst : Option Eid
  /-- `Properties["routing/epidemic/sent"]`, `…/prophet/sent`, `…/dtlsr/sent` -/
  sentE : List Eid
  sentP : List Eid
  sentD : List Eid
deriving DecidableEq, Repr

def Routing.empty : Routing := ⟨none, [], [], []⟩

/-- `storage.BundleItem` as far as routing uses it. -/
structure Item where
  /-- the bundle whose serialisation is in the part file -/
  bundle : Bundle
  pending : Bool
  expires : Nat
  /-- `Properties["bundlepack/constraints"]` (absent = empty) -/
  cons : Cons
  /-- `Properties["bundlepack/receiver"]` (absent / dtn:none = none) -/
  receiver : Option Eid
  rt : Routing
deriving DecidableEq, Repr

/-- The store index: an association list in insertion order. -/
abbrev Store := List (Key × Item)

def Store.get : Store → Key → Option Item
  | [], _ => none
  | (k', it) :: s, k => if k' = k then some it else Store.get s k

def Store.set : Store → Key → Item → Store
  | [], k, it => [(k, it)]
  | (k', it') :: s, k, it => if k' = k then (k, it) :: s else (k', it') :: Store.set s k it

def Store.erase : Store → Key → Store
  | [], _ => []
  | (k', it') :: s, k => if k' = k then Store.erase s k else (k', it') :: Store.erase s k

/-- A connected convergence sender: its address (unique per CLA) and the peer's endpoint ID. -/
structure Peer where
  addr : Nat
  eid : Eid
deriving DecidableEq, Repr

inductive Algo where
  | epidemic | spray | binarySpray | prophet | dtlsr
deriving DecidableEq, Repr

structure Cfg where
  /-- own node number (`Core.NodeId = dtn://<self>/`) -/
  self : Nat
  algo : Algo
  /-- wrapped into `SensorNetworkMuleRouting` -/
  mule : Bool
  /-- node numbers matched by the sensor-node regular expression -/
  sensorNodes : List Nat
  /-- `SprayConfig.Multiplicity` -/
  sprayL : Nat
  /-- DTLSR broadcast address -/
  bcast : Eid
  /-- code variant: `SendBundle` assigns the sequence number before it creates the descriptor
      (D17 repaired); `false` = `transmit` assigns it afterwards -/
  seqFirst : Bool
  /-- code variant: `SendBundle` skips sequence numbers whose bundle ID is still in the store
      (/repo b43260e; `false` = the number of the IdKeeper is used as it is). Only with `seqFirst`. -/
  skipStored : Bool
  /-- code variant: `calcExpirationDate` counts from reception when the creation time is zero
      (D22 repaired) -/
  expiryNow : Bool
  /-- code variant: `DTLSR.ReportFailure` removes the peer from the sent list of a broadcast bundle
      (`false` = the original empty function) -/
  dtlsrFail : Bool
  /-- code variant: `Core.dispatching` marks a bundle contraindicated when the routing algorithm does
      not allow its dispatching (`false` = the original code just returns) -/
  holdFix : Bool
  /-- code variant: the gate of epidemic routing lets a bundle through whose destination is a directly
      connected peer, whatever its sent list says (`false` = the original gate, which keeps a bundle that
      came from its own destination away from that destination) -/
  gateDirect : Bool := false
deriving DecidableEq, Repr

/-- `sprayMetaData` (in memory only). -/
structure SprayMeta where
  sent : List Eid
  copies : Nat
deriving DecidableEq, Repr

structure Node where
  cfg : Cfg
  store : Store
  /-- active convergence senders, in registration order -/
  peers : List Peer
  /-- `SprayAndWait.bundleData` / `BinarySpray.bundleData` -/
  spray : List (Key × SprayMeta)
  /-- `IdKeeper.data` -/
  idk : List ((Eid × Nat) × Nat)
  /-- environment bookkeeping: number of `Send` calls so far per (CLA address, bundle tag, sequence number),
      i.e. per CLA and concrete bundle on the wire -/
  attempts : List ((Nat × Nat × Nat) × Nat)
  now : Nat
  /-- number of events processed so far (index into `Env.prefer`) -/
  evNo : Nat
deriving DecidableEq, Repr

/-- The environment's choices. -/
structure Env where
  /-- answer of CLA `addr` to its `n`-th `Send` of one concrete bundle (tag and sequence number) made from the
      definition `tag` (the mock CLA's script) -/
  sendOk : Nat → Nat → Nat → Bool
  /-- iteration order of `Manager.Sender()` while the bundle with this key is processed in event
      number `evNo`: addresses listed here come first (in this order), the others follow -/
  prefer : Nat → Key → List Nat
  /-- PRoPHET: "the peer's predictability for the destination exceeds ours";
      DTLSR: "the routing table names this peer as next hop for the destination" -/
  cand : Eid → Bundle → Bool

inductive Event where
  | submit (b : Bundle)
  | receive (b : Bundle) (receiver : Option Eid)
  | peerUp (p : Peer)
  | peerDown (addr : Nat)
  | retryTick
  | cleanTick (now : Nat)
  | restart
deriving DecidableEq, Repr

inductive Output where
  /-- `ConvergenceSender.Send` of this CLA was called with this bundle and answered `ok` -/
  | sent (p : Peer) (b : Bundle) (ok : Bool)
  /-- the item with this key was in the store before the event and is not afterwards -/
  | deleted (k : Key)
deriving DecidableEq, Repr

/-- `BundleDescriptor`: the copies handed around in processing.go share the constraint map and the
bundle pointer, so one value threaded through the calls is faithful. -/
structure Desc where
  key : Key
  receiver : Option Eid
  cons : Cons
  /-- `descriptor.bndl` (nil until `Bundle()` loads it from the store) -/
  bndl : Option Bundle
deriving DecidableEq, Repr

/-! ## Small helpers -/

def eraseFirst (e : Eid) : List Eid → List Eid
  | [] => []
  | x :: xs => if x = e then xs else x :: eraseFirst e xs

def lookupNat {α} [DecidableEq α] : List (α × Nat) → α → Option Nat
  | [], _ => none
  | (a, n) :: l, x => if a = x then some n else lookupNat l x

def setNat {α} [DecidableEq α] : List (α × Nat) → α → Nat → List (α × Nat)
  | [], x, n => [(x, n)]
  | (a, m) :: l, x, n => if a = x then (x, n) :: l else (a, m) :: setNat l x n

def lookupMeta : List (Key × SprayMeta) → Key → Option SprayMeta
  | [], _ => none
  | (a, m) :: l, k => if a = k then some m else lookupMeta l k

def setMeta : List (Key × SprayMeta) → Key → SprayMeta → List (Key × SprayMeta)
  | [], k, m => [(k, m)]
  | (a, m') :: l, k, m => if a = k then (k, m) :: l else (a, m') :: setMeta l k m

/-- `Core.HasEndpoint` for a node without application agents, listeners and convergence receivers
(the configuration the harness builds): only the node's own ID. -/
def hasEndpoint (c : Cfg) (e : Eid) : Bool := e.node == c.self

def Node.setItem (n : Node) (k : Key) (it : Item) : Node := { n with store := n.store.set k it }

/-- `QueryId` · modify · `Update`: nothing happens when the item does not exist. -/
def modItem (k : Key) (f : Item → Item) (n : Node) : Node :=
  match n.store.get k with
  | none => n
  | some it => n.setItem k (f it)

/-- A read-modify-write that only touches the routing properties. -/
def modRt (k : Key) (f : Routing → Routing) (n : Node) : Node :=
  modItem k (fun it => { it with rt := f it.rt }) n

/-! ## storage -/

/-- `calcExpirationDate`. The original code adds the lifetime to the creation time even when that
is zero (DTN epoch, year 2000); the repaired code counts from now, minus the age already accumulated. -/
def calcExpires (c : Cfg) (now : Nat) (b : Bundle) : Nat :=
  if c.expiryNow && b.ts == 0 then now + (b.lifetime - b.age.getD 0) else b.ts + b.lifetime

def newItem (c : Cfg) (now : Nat) (b : Bundle) : Item :=
  { bundle := b, pending := false, expires := calcExpires c now b, cons := Cons.empty,
    receiver := none, rt := Routing.empty }

/-- `Store.Push` (unfragmented bundles): insert if the ID is unknown, else ignore. -/
def push (b : Bundle) (n : Node) : Node :=
  match n.store.get b.key with
  | none => n.setItem b.key (newItem n.cfg n.now b)
  | some _ => n

def Store.keys (s : Store) : List Key := s.map (·.1)

/-- `Store.DeleteExpired`: find the items with `Expires < now`, delete each. -/
def expiredKeys (s : Store) (now : Nat) : List Key :=
  s.keys.filter fun k =>
    match s.get k with
    | some it => decide (it.expires < now)
    | none => false

def deleteExpired (n : Node) : Node :=
  { n with store := (expiredKeys n.store n.now).foldl Store.erase n.store }

/-! ## BundleDescriptor -/

/-- `NewBundleDescriptor`. -/
def newDesc (n : Node) (k : Key) : Desc :=
  match n.store.get k with
  | some it => { key := k, receiver := it.receiver, cons := it.cons, bndl := none }
  | none => { key := k, receiver := none, cons := Cons.empty, bndl := none }

/-- `BundleDescriptor.Sync`. -/
def sync (d : Desc) (n : Node) : Node :=
  match n.store.get d.key with
  | none =>
    match d.bndl with
    | some b => push b n
    | none => n
  | some it =>
    if d.cons.isEmpty then { n with store := n.store.erase d.key }
    else n.setItem d.key { it with pending := d.cons.pendingRule, receiver := d.receiver, cons := d.cons }

/-- `NewBundleDescriptorFromBundle`. -/
def newDescFromBundle (b : Bundle) (n : Node) : Desc × Node :=
  let d := { newDesc n b.key with bndl := some b }
  (d, sync d n)

def Node.setIdk (n : Node) (x : List ((Eid × Nat) × Nat)) : Node := { n with idk := x }

/-- `IdKeeper.update`: first bundle of a (source, time) pair gets 0, the next ones 1, 2, … -/
def idkUpdate (b : Bundle) (n : Node) : Bundle × Node :=
  let s := match lookupNat n.idk (b.src, b.ts) with
    | some v => v + 1
    | none => 0
  ({ b with seq := s }, n.setIdk (setNat n.idk (b.src, b.ts) s))

/-- The loop of `SendBundle`: while a bundle with this ID is in the store, take the next number of the
IdKeeper. `fuel` bounds the number of rounds; `n.store.length + 1` rounds always reach a free number
(`Dtn7.Node.idkSkip_fresh`), so the bound is never hit. -/
def idkSkip : Nat → Bundle → Node → Bundle × Node
  | 0, b, n => (b, n)
  | fuel + 1, b, n =>
    if (n.store.get b.key).isSome then
      let bn := idkUpdate b n
      idkSkip fuel bn.1 bn.2
    else (b, n)

/-- The first statements of `SendBundle`: `c.idKeeper.update(bndl)` and the loop over stored IDs. -/
def assignSeq (b : Bundle) (n : Node) : Bundle × Node :=
  let bn := idkUpdate b n
  if n.cfg.skipStored then idkSkip (n.store.length + 1) bn.1 bn.2 else bn

/-! ## Routing algorithms -/

/-- `Manager.Sender()` in the order the environment picked for this bundle in this event. -/
def arrange (pref : List Nat) (peers : List Peer) : List Peer :=
  let pref := pref.eraseDups
  pref.filterMap (fun a => peers.find? (fun p => p.addr == a)) ++
    peers.filter (fun p => !pref.contains p.addr)

def senders (env : Env) (n : Node) (k : Key) : List Peer :=
  arrange (env.prefer n.evNo k) n.peers

/-- `filterCLAs`: the senders whose endpoint ID is not in the sent list, and the extended list. -/
def filterCLAs : List Eid → List Peer → List Peer × List Eid
  | sent, [] => ([], sent)
  | sent, p :: ps =>
    if sent.contains p.eid then filterCLAs sent ps
    else
      let r := filterCLAs (sent ++ [p.eid]) ps
      (p :: r.1, r.2)

def isSensor (c : Cfg) (e : Eid) : Bool := c.sensorNodes.contains e.node

/-- `EpidemicRouting.NotifyNewBundle` on the routing properties. -/
def epiNotify (b : Bundle) (r : Routing) : Routing :=
  let r1 := if r.epiDst.isNone then { r with epiDst := some b.dst } else r
  match b.prev with
  | none => r1
  | some p => if r1.sentE.contains p then r1 else { r1 with sentE := r1.sentE ++ [p] }

/-- `NotifyNewBundle` of the configured algorithm for the descriptor key `k` and the in-memory bundle `b`. -/
def notifyNew (k : Key) (b : Bundle) (n : Node) : Node :=
  match n.cfg.algo with
  | .epidemic => modRt k (epiNotify b) n
  | .spray =>
    let m : SprayMeta :=
      if hasEndpoint n.cfg b.src then { sent := [], copies := n.cfg.sprayL }
      else { sent := b.prev.toList, copies := 1 }
    { n with spray := setMeta n.spray k m }
  | .binarySpray =>
    let m : SprayMeta :=
      match b.bsCopies with
      | some c => { sent := b.prev.toList, copies := c }
      | none =>
        -- without a block: originated here ⇒ the full multiplicity; a foreign bundle ⇒ one copy, previous node
        -- remembered (/repo: "binary spray: a relayed bundle without metadata block …")
        if hasEndpoint n.cfg b.src then { sent := [], copies := n.cfg.sprayL }
        else { sent := b.prev.toList, copies := 1 }
    { n with spray := setMeta n.spray k m }
  | .prophet =>
    match b.prev with
    | none => n
    | some p => modRt k (fun r => if r.sentP.contains p then r else { r with sentP := r.sentP ++ [p] }) n
  | .dtlsr =>
    match b.prev with
    | none => n
    | some p => modRt k (fun r => { r with sentD := r.sentD ++ [p] }) n

/-- `routing/epidemic/destination` names an endpoint of this node. -/
def epiLocal (c : Cfg) (it : Item) : Bool :=
  match it.rt.epiDst with
  | some e => hasEndpoint c e
  | none => false

/-- `len(c.senderForDestination(dst)) > 0` for the stored `routing/epidemic/destination`. -/
def epiDirect (n : Node) (it : Item) : Bool :=
  match it.rt.epiDst with
  | some e => n.peers.any (fun p => p.eid.sameNode e)
  | none => false

/-- `DispatchingAllowed`. Epidemic: allowed iff the bundle is for this node, (`gateDirect`) its destination
is a connected peer, or some connected sender is not in the sent list; when it says no it marks the item
pending itself. All others: always. -/
def dispatchingAllowed (env : Env) (d : Desc) (n : Node) : Bool × Node :=
  match n.cfg.algo with
  | .epidemic =>
    match n.store.get d.key with
    | none => (true, n)
    | some it =>
      if epiLocal n.cfg it then (true, n)
      else if n.cfg.gateDirect && epiDirect n it then (true, n)
      else if (filterCLAs it.rt.sentE (senders env n d.key)).1.isEmpty
      then (false, modItem d.key (fun it => { it with pending := true }) n)
      else (true, n)
  | _ => (true, n)

/-- The loop of `SprayAndWait.SenderForBundle`. -/
def sprayPick : SprayMeta → List Peer → List Peer × SprayMeta
  | m, [] => ([], m)
  | m, p :: ps =>
    if m.copies < 2 then ([], m)
    else if m.sent.contains p.eid then sprayPick m ps
    else
      let r := sprayPick { sent := m.sent ++ [p.eid], copies := m.copies - 1 } ps
      (p :: r.1, r.2)

/-- `ReportFailure` of the underlying algorithm. -/
def reportFailure (d : Desc) (p : Peer) (n : Node) : Node :=
  match n.cfg.algo with
  | .epidemic => modRt d.key (fun r => { r with sentE := eraseFirst p.eid r.sentE }) n
  | .spray =>
    match lookupMeta n.spray d.key with
    | none => n
    | some m =>
      -- only a peer found in the sent list (one chosen by `SenderForBundle`) gives its copy back
      let m' : SprayMeta :=
        { sent := eraseFirst p.eid m.sent, copies := if m.sent.contains p.eid then m.copies + 1 else m.copies }
      { n with spray := setMeta n.spray d.key m' }
  | .binarySpray =>
    match d.bndl.bind (·.bsCopies) with
    | none => n
    | some back =>
      match lookupMeta n.spray d.key with
      | none => n
      | some m =>
        -- the copies written into the bundle's block for this peer are taken back
        let m' : SprayMeta :=
          { sent := eraseFirst p.eid m.sent, copies := if m.sent.contains p.eid then m.copies + back else m.copies }
        { n with spray := setMeta n.spray d.key m' }
  | .prophet => modRt d.key (fun r => { r with sentP := eraseFirst p.eid r.sentP }) n
  | .dtlsr =>
    if n.cfg.dtlsrFail && (match d.bndl with | some b => decide (b.dst = n.cfg.bcast) | none => false) then
      modRt d.key (fun r => { r with sentD := eraseFirst p.eid r.sentD }) n
    else n

/-- `SenderForBundle` of the underlying algorithm: the chosen senders, the delete-afterwards flag,
the descriptor (binary spray writes its block into the in-memory bundle) and the new state. -/
def innerSenders (env : Env) (d : Desc) (b : Bundle) (n : Node) : List Peer × Bool × Desc × Node :=
  let all := senders env n d.key
  match n.cfg.algo with
  | .epidemic =>
    match n.store.get d.key with
    | none => ([], false, d, n)
    | some it =>
      let r := filterCLAs it.rt.sentE all
      (r.1, false, d, modRt d.key (fun rt => { rt with sentE := r.2 }) n)
  | .spray =>
    match lookupMeta n.spray d.key with
    | none => ([], false, d, n)
    | some m =>
      if m.copies < 2 then ([], false, d, n)
      else
        let r := sprayPick m all
        (r.1, false, d, { n with spray := setMeta n.spray d.key r.2 })
  | .binarySpray =>
    match lookupMeta n.spray d.key with
    | none => ([], false, d, n)
    | some m =>
      if m.copies < 2 then ([], false, d, n)
      else
        match all.find? (fun p => !m.sent.contains p.eid) with
        | none => ([], false, d, { n with spray := setMeta n.spray d.key m })
        | some p =>
          let sendCopies := m.copies / 2
          let m' : SprayMeta := { sent := m.sent ++ [p.eid], copies := m.copies - sendCopies }
          ([p], false, { d with bndl := some { b with bsCopies := some sendCopies } },
            { n with spray := setMeta n.spray d.key m' })
  | .prophet =>
    match n.store.get d.key with
    | none => ([], false, d, n)
    | some it =>
      let r := filterCLAs it.rt.sentP (all.filter (fun p => env.cand p.eid b))
      if r.1.isEmpty then ([], false, d, n)
      else (r.1, false, d, modRt d.key (fun rt => { rt with sentP := r.2 }) n)
  | .dtlsr =>
    if b.dst = n.cfg.bcast then
      match n.store.get d.key with
      | none => ([], false, d, n)
      | some it =>
        let r := filterCLAs it.rt.sentD all
        (r.1, false, d, modRt d.key (fun rt => { rt with sentD := r.2 }) n)
    else
      match all.find? (fun p => env.cand p.eid b) with
      | some p => ([p], true, d, n)
      | none => ([], false, d, n)

/-- The sensor-mule wrapper excludes a sender: a sensor node that the bundle was not received from. -/
def muleDrops (c : Cfg) (d : Desc) (p : Peer) : Bool :=
  isSensor c p.eid &&
    !(match d.receiver with
      | some e => p.eid.sameNode e
      | none => false)

/-- The filter loop of `SensorNetworkMuleRouting.SenderForBundle` (it walks the slice from the end):
every excluded sender is reported as a failure to the underlying algorithm. Returns the kept senders
and the state. -/
def muleFilter (d : Desc) : List Peer → Node → List Peer × Node
  | [], n => ([], n)
  | p :: ps, n =>
    let r := muleFilter d ps n
    if muleDrops n.cfg d p then (r.1, reportFailure d p r.2)
    else (p :: r.1, r.2)

/-- `c.routing.SenderForBundle`. -/
def sendersFor (env : Env) (d : Desc) (b : Bundle) (n : Node) : List Peer × Bool × Desc × Node :=
  let r := innerSenders env d b n
  if n.cfg.mule then
    let f := muleFilter r.2.2.1 r.1 r.2.2.2
    (f.1, r.2.1 && !f.1.isEmpty, r.2.2.1, f.2)
  else r

/-! ## processing.go -/

def bundleDeletion (d : Desc) (n : Node) : Node := sync { d with cons := d.cons.purge } n

def bundleContraindicated (d : Desc) (n : Node) : Node :=
  sync { d with cons := { d.cons with ci := true } } n

/-- `localDelivery` on a node without application agents: `Deliver` fails, the LocalEndpoint
constraint stays. -/
def localDelivery (d : Desc) (n : Node) : Node :=
  let d1 := { d with cons := { d.cons with le := true } }
  let n1 := sync d1 n
  sync { d1 with cons := d1.cons.purge } n1

def hopExceeded (b : Bundle) : Bool :=
  match b.hop with
  | some (limit, count) => decide (limit < count + 1)
  | none => false

/-- `Bundle.IsLifetimeExceeded`. -/
def lifetimeExceeded (now : Nat) (b : Bundle) : Bool :=
  if b.ts == 0 then
    match b.age with
    | none => true
    | some a => decide (b.lifetime < a)
  else decide (b.ts + b.lifetime < now)

/-- `UpdateBundleAge` followed by `age >= Lifetime` (the time spent on this node is taken as 0). -/
def ageExpired (b : Bundle) : Bool :=
  match b.age with
  | some a => decide (b.lifetime ≤ a)
  | none => false

def attemptNo (n : Node) (addr tag seq : Nat) : Nat := (lookupNat n.attempts (addr, tag, seq)).getD 0

/-- The per-sender goroutines of `forward`, run one after the other:
`Send`; on failure `routing.ReportFailure`. Returns the state, the outputs and `bundleSent`. -/
def sendAll (env : Env) (d : Desc) (b : Bundle) : List Peer → Node → Node × List Output × Bool
  | [], n => (n, [], false)
  | p :: ps, n =>
    let k := attemptNo n p.addr b.tag b.seq
    let ok := env.sendOk p.addr b.tag k
    let n1 := { n with attempts := setNat n.attempts (p.addr, b.tag, b.seq) (k + 1) }
    let n2 := if ok then n1 else reportFailure d p n1
    let r := sendAll env d b ps n2
    (r.1, Output.sent p b ok :: r.2.1, ok || r.2.2)

/-- The second half of `Core.forward`: transmit to the selected senders, then purge (delete) or mark
contraindicated. `r` = (senders, delete-afterwards, descriptor, state). -/
def forwardSend (env : Env) (b : Bundle) (r : List Peer × Bool × Desc × Node) : Node × List Output :=
  -- (the bundle handed to the CLAs is `r.2.2.1.bndl`: `b` with the hop count, previous node, age and spray
  -- blocks rewritten — the bytes are other properties' business; the outputs name the bundle `b`)
  let s := sendAll env r.2.2.1 b r.1 r.2.2.2
  if s.2.2 && r.2.1 then (sync { r.2.2.1 with cons := r.2.2.1.cons.purge } s.1, s.2.1)
  else (bundleContraindicated r.2.2.1 s.1, s.2.1)

/-- Direct delivery (`senderForDestination`) if a sender of the destination node is connected, else the
algorithm's choice. -/
def selectSenders (env : Env) (d : Desc) (b : Bundle) (n : Node) : List Peer × Bool × Desc × Node :=
  let direct := (senders env n d.key).filter (fun p => p.eid.sameNode b.dst)
  if direct.isEmpty then sendersFor env d b n else (direct, true, d, n)

/-- `Core.forward`. -/
def forward (env : Env) (d : Desc) (b : Bundle) (n : Node) : Node × List Output :=
  let d := { d with cons := { d.cons with fp := true, dp := false } }
  let n := sync d n
  if hopExceeded b then (bundleDeletion d n, [])
  else if lifetimeExceeded n.now b then (bundleDeletion d n, [])
  else if ageExpired b then (bundleDeletion d n, [])
  else forwardSend env b (selectSenders env d b n)

/-- `BundlePart.Load`: parsing ends with `CheckValid`, which refuses a bundle whose lifetime is over or
whose hop count exceeds its limit. -/
def loadable (now : Nat) (b : Bundle) : Bool :=
  !lifetimeExceeded now b &&
  (match b.hop with
   | some (limit, count) => !decide (limit < count)
   | none => true)

/-- `BundleDescriptor.Bundle`: the in-memory bundle, else the stored one. -/
def Desc.bundle (d : Desc) (n : Node) : Option Bundle :=
  match d.bndl with
  | some b => some b
  | none =>
    match n.store.get d.key with
    | some it => if loadable n.now it.bundle then some it.bundle else none
    | none => none

/-- `Core.dispatching`. -/
def dispatching (env : Env) (d : Desc) (n : Node) : Node × List Output :=
  let a := dispatchingAllowed env d n
  if !a.1 then ((if n.cfg.holdFix then bundleContraindicated d a.2 else a.2), [])
  else
    let n := a.2
    match d.bundle n with
    | none => (n, [])
    | some b =>
      let d := { d with bndl := some b }
      if hasEndpoint n.cfg b.dst then (localDelivery d n, [])
      else forward env d b n

/-- `Core.transmit`. -/
def transmit (env : Env) (d : Desc) (b : Bundle) (n : Node) : Node × List Output :=
  let bn := if n.cfg.seqFirst then (b, n) else idkUpdate b n
  let b := bn.1
  let d := { d with bndl := some b, cons := { d.cons with dp := true } }
  let n := sync d bn.2
  if !hasEndpoint n.cfg b.src then (bundleDeletion d n, [])
  else dispatching env d n

/-- `Core.SendBundle`. -/
def sendBundle (env : Env) (b : Bundle) (n : Node) : Node × List Output :=
  let bn := if n.cfg.seqFirst then assignSeq b n else (b, n)
  let dn := newDescFromBundle bn.1 bn.2
  let n := notifyNew dn.1.key bn.1 dn.2
  transmit env dn.1 bn.1 n

/-- The `cla.ReceivedBundle` case of `Core.handler` followed by `Core.receive`. -/
def receive (env : Env) (b : Bundle) (receiver : Option Eid) (n : Node) : Node × List Output :=
  let dn := newDescFromBundle b n
  let d := { dn.1 with receiver := receiver }
  let n := sync d dn.2
  if !d.cons.isEmpty then (n, [])
  else
    let d := { d with cons := { d.cons with dp := true } }
    let n := sync d n
    if b.delBlock then (bundleDeletion d n, [])
    else dispatching env d (notifyNew d.key b n)

/-- `Store.QueryPending`. -/
def pendingKeys (s : Store) : List Key :=
  s.keys.filter fun k =>
    match s.get k with
    | some it => it.pending
    | none => false

def dispatchKeys (env : Env) : List Key → Node → Node × List Output
  | [], n => (n, [])
  | k :: ks, n =>
    let r := dispatching env (newDesc n k) n
    let r' := dispatchKeys env ks r.1
    (r'.1, r.2 ++ r'.2)

/-- `Core.checkPendingBundles`. -/
def checkPending (env : Env) (n : Node) : Node × List Output :=
  dispatchKeys env (pendingKeys n.store) n

/-- Keys present before and absent afterwards. -/
def deletedKeys (before after : Store) : List Output :=
  (before.filter (fun kv => (after.get kv.1).isNone)).map (fun kv => Output.deleted kv.1)

def stepCore (env : Env) (n : Node) : Event → Node × List Output
  | .submit b => sendBundle env b n
  | .receive b r => receive env b r n
  | .peerUp p =>
    let n1 := if n.peers.any (fun q => q.addr == p.addr) then n else { n with peers := n.peers ++ [p] }
    checkPending env n1
  | .peerDown a => ({ n with peers := n.peers.filter (fun q => q.addr != a) }, [])
  | .retryTick => checkPending env n
  | .cleanTick t => (deleteExpired { n with now := t }, [])
  | .restart => ({ n with peers := [], spray := [], idk := [] }, [])

/-- One event. -/
def step (env : Env) (n : Node) (e : Event) : Node × List Output :=
  let r := stepCore env n e
  ({ r.1 with evNo := n.evNo + 1 }, r.2 ++ deletedKeys n.store r.1.store)

def init (c : Cfg) (now : Nat) : Node :=
  { cfg := c, store := [], peers := [], spray := [], idk := [], attempts := [], now := now, evNo := 0 }

/-- The state after a history. -/
def run (env : Env) (n : Node) : List Event → Node
  | [] => n
  | e :: es => run env (step env n e).1 es

/-- The history with the outputs and the state after every event. -/
def trace (env : Env) (n : Node) : List Event → List (Event × List Output × Node)
  | [] => []
  | e :: es =>
    let r := step env n e
    (e, r.2, r.1) :: trace env r.1 es

end Dtn7.Node
