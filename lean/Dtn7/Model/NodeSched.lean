/-
Interleavings of the per-peer failure reports of one `Core.forward` (pkg/routing/processing.go): one
goroutine per chosen sender does `Send`; on error `routing.ReportFailure`, which for epidemic / PRoPHET
(/ DTLSR broadcast) routing is

    [Lock]  bi := store.QueryId(id)  ·  remove the peer from bi's sent list  ·  store.Update(bi)  [Unlock]

A thread is the sequence of micro-steps `acq · read · write · rel` (`locked = true`, the repaired code) or
`read · write` (`locked = false`, the original code). A schedule is a list of thread indices: the named
thread performs its next micro-step if it is enabled (`acq` is enabled only while nobody holds the lock),
otherwise nothing happens. Every merge of the threads' steps is such a schedule.
-/
import Dtn7.Model.Node

namespace Dtn7.NodeSched
open Dtn7.Node

inductive Pc where
  | acq | read | write | rel | done
deriving DecidableEq, Repr

structure Thread where
  pc : Pc
  /-- the peer whose transmission failed -/
  eid : Eid
  /-- the sent list this thread read -/
  loc : List Eid
deriving DecidableEq, Repr

structure St where
  /-- the sent list in the store item -/
  sent : List Eid
  /-- holder of the mutex -/
  lock : Option Nat
  threads : List Thread
deriving DecidableEq, Repr

def St.setThread (s : St) (i : Nat) (t : Thread) : St := { s with threads := s.threads.set i t }

/-- Thread `i` performs its next micro-step (if it has one and it is enabled). -/
def step (locked : Bool) (s : St) (i : Nat) : St :=
  match s.threads[i]? with
  | none => s
  | some t =>
    match t.pc with
    | .acq =>
      match s.lock with
      | none => { (s.setThread i { t with pc := .read }) with lock := some i }
      | some _ => s
    | .read => s.setThread i { t with pc := .write, loc := s.sent }
    | .write =>
      { (s.setThread i { t with pc := if locked then .rel else .done }) with sent := eraseFirst t.eid t.loc }
    | .rel => { (s.setThread i { t with pc := .done }) with lock := none }
    | .done => s

def run (locked : Bool) (s : St) (σ : List Nat) : St := σ.foldl (step locked) s

/-- One thread per failed peer. -/
def start (locked : Bool) (sent : List Eid) (failed : List Eid) : St :=
  { sent := sent, lock := none,
    threads := failed.map fun e => { pc := if locked then .acq else .read, eid := e, loc := [] } }

def allDone (s : St) : Bool := s.threads.all (fun t => t.pc == .done)

end Dtn7.NodeSched
