/-
IEEE-754 binary64 arithmetic on exact values (core-only, executable, no `Float`).

A finite double is an integer multiple of 2^-1074 (the smallest subnormal) — so a finite binary64
value `v` is represented EXACTLY by the integer `n` with `v = n · 2^-1074` ("units").  The set of
doubles is then  F = { ± m · 2^q | m < 2^53, q : Nat }  (bounded above by the overflow threshold
2^1024 = 2^2098 units, which the PRoPHET computations never approach: everything stays in [0, 1]).

Sums and differences of doubles are again integers in units of 2^-1074; the product of two doubles
is an integer in units of 2^-2148.  `rneNat x k` rounds the exact value `k · 2^-(1074+x)` to the
nearest double, ties to even, honouring the subnormal range (the quantum never drops below
2^-1074), and returns it in units of 2^-1074.  `fadd`, `fsub`, `fmul` are `rne ∘ exact operation`,
which is what IEEE-754 prescribes and what Go does on amd64 (no fused multiply-add).

Conversions `ofBits`/`toBits` connect to `math.Float64bits`, so the correspondence run compares the
model with the implementation bit for bit.

Domain limits (documented, not hidden): NaN, ±Inf and −0 have no representation (`ofBits = none`);
a result ≥ 2^1024 is not turned into +Inf (`toBits = none` there).
-/
namespace Dtn7.F64

/-- Number of fraction bits of the unit: a value `n : Int` denotes `n · 2^-1074`. -/
def unitBits : Nat := 1074

/-- The double 1.0 in units of 2^-1074. -/
def one : Int := 2 ^ 1074

/-- Number of binary digits of `n` (0 for 0). -/
def bitLen (n : Nat) : Nat := if n = 0 then 0 else Nat.log2 n + 1

/-- `k / 2^s` rounded to the nearest integer, ties to even. -/
def roundShift (k s : Nat) : Nat :=
  let n := k / 2 ^ s
  let r := k % 2 ^ s
  if 2 * r > 2 ^ s ∨ (2 * r = 2 ^ s ∧ n % 2 = 1) then n + 1 else n

/-- The shift (number of discarded low bits) binary64 applies to the exact value `k · 2^-(1074+x)`:
53 significant bits, but never a quantum below 2^-1074. -/
def shiftOf (x k : Nat) : Nat := max (bitLen k - 53) x

/-- Round-to-nearest-even of the exact non-negative value `k · 2^-(1074+x)` to binary64;
result in units of 2^-1074. -/
def rneNat (x k : Nat) : Nat :=
  roundShift k (shiftOf x k) * 2 ^ (shiftOf x k - x)

/-- Round-to-nearest-even of the exact value `k · 2^-(1074+x)` (sign-symmetric). -/
def rne (x : Nat) (k : Int) : Int :=
  if k < 0 then -((rneNat x k.natAbs : Nat) : Int) else ((rneNat x k.natAbs : Nat) : Int)

/-- binary64 addition. -/
def fadd (a b : Int) : Int := rne 0 (a + b)
/-- binary64 subtraction. -/
def fsub (a b : Int) : Int := rne 0 (a - b)
/-- binary64 multiplication (the exact product is in units of 2^-2148). -/
def fmul (a b : Int) : Int := rne 1074 (a * b)

/-- `n` units of 2^-1074 is a (non-negative, finite, overflow ignored) binary64 value. -/
def IsF64 (n : Nat) : Prop := ∃ m q : Nat, m < 2 ^ 53 ∧ n = m * 2 ^ q

/-- Executable version of `IsF64` (used by the driver on the implementation's values). -/
def isF64 (n : Nat) : Bool := n % 2 ^ (bitLen n - 53) == 0

/-- Decode a `math.Float64bits` pattern. NaN, ±Inf, −0 → `none`. -/
def ofBits (b : Nat) : Option Int :=
  let sign := b / 2 ^ 63 % 2
  let e := b / 2 ^ 52 % 2 ^ 11
  let f := b % 2 ^ 52
  if b ≥ 2 ^ 64 ∨ e = 2047 ∨ (sign = 1 ∧ e = 0 ∧ f = 0) then none
  else
    let mag : Nat := if e = 0 then f else (2 ^ 52 + f) * 2 ^ (e - 1)
    some (if sign = 1 then -(mag : Int) else (mag : Int))

/-- Encode as a `math.Float64bits` pattern; `none` if the value is not a finite double. -/
def toBits (v : Int) : Option Nat :=
  let n := v.natAbs
  let s : Nat := if v < 0 then 2 ^ 63 else 0
  let l := bitLen n
  if l ≤ 52 then some (s + n)
  else
    let e := l - 52
    if e > 2046 ∨ n % 2 ^ (e - 1) ≠ 0 then none
    else some (s + e * 2 ^ 52 + (n / 2 ^ (e - 1) - 2 ^ 52))

end Dtn7.F64
