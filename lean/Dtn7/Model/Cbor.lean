/-
CBOR heads as read and written by github.com/dtn7/cboring v0.1.5 (`ReadMajors` / `WriteMajors`,
`ReadRawBytes`, `ReadByteString`, `ReadTextString`). Core-only.

Major types are numbered 0..7 (the library's constants are `major * 32`).
-/
namespace Dtn7.Cbor

abbrev Bytes := List UInt8

inductive Err where
  | eof            -- io.EOF / io.ErrUnexpectedEOF
  | flagIndef      -- cboring.FlagIndefiniteArray (byte 0x9F)
  | flagBreak      -- cboring.FlagBreakCode (byte 0xFF)
  | badAdds        -- additional information 28..31
  | wrongMajor     -- ReadExpectMajors mismatch
  | tooLong        -- ReadRawBytes: length > math.MaxInt32
  | other (tag : Nat)
deriving Repr, DecidableEq

def majUInt : Nat := 0
def majBytes : Nat := 2
def majText : Nat := 3
def majArray : Nat := 4
def majMap : Nat := 5
def majSimple : Nat := 7

/-- `k` bytes, big endian, of `n` (the low `8k` bits). -/
def beBytes : Nat → Nat → Bytes
  | 0, _ => []
  | k + 1, n => UInt8.ofNat (n / 256 ^ k % 256) :: beBytes k n

def beVal (bs : Bytes) : Nat := bs.foldl (fun a b => a * 256 + b.toNat) 0

/-- `WriteMajors` for `n < 2^64`. -/
def encHead (maj : Nat) (n : Nat) : Bytes :=
  if n < 24 then [UInt8.ofNat (maj * 32 + n)]
  else if n < 2 ^ 8 then UInt8.ofNat (maj * 32 + 24) :: beBytes 1 n
  else if n < 2 ^ 16 then UInt8.ofNat (maj * 32 + 25) :: beBytes 2 n
  else if n < 2 ^ 32 then UInt8.ofNat (maj * 32 + 26) :: beBytes 4 n
  else UInt8.ofNat (maj * 32 + 27) :: beBytes 8 n

/-- Length of the head written for argument `n`. -/
def headLen (n : Nat) : Nat :=
  if n < 24 then 1 else if n < 2 ^ 8 then 2 else if n < 2 ^ 16 then 3 else if n < 2 ^ 32 then 5 else 9

/-- `ReadMajors`: major, argument and the unconsumed rest. Every width is accepted (also
non-shortest encodings); 0x9F and 0xFF are reported as flags before the major type is looked at. -/
def decHead : Bytes → Except Err (Nat × Nat × Bytes)
  | [] => .error .eof
  | b :: rest =>
    if b.toNat = 0x9F then .error .flagIndef
    else if b.toNat = 0xFF then .error .flagBreak
    else
      let maj := b.toNat / 32
      let adds := b.toNat % 32
      if adds ≤ 23 then .ok (maj, adds, rest)
      else if adds ≤ 27 then
        let l := 2 ^ (adds - 24)
        if rest.length < l then .error .eof
        else .ok (maj, beVal (rest.take l), rest.drop l)
      else .error .badAdds

/-- `ReadExpectMajors`. -/
def decExpect (maj : Nat) (bs : Bytes) : Except Err (Nat × Bytes) :=
  match decHead bs with
  | .error e => .error e
  | .ok (m, n, rest) => if m = maj then .ok (n, rest) else .error .wrongMajor

def maxInt32 : Nat := 2 ^ 31 - 1

/-- `ReadRawBytes l` (both branches return the same value; they differ in allocation only). -/
def readRaw (l : Nat) (bs : Bytes) : Except Err (Bytes × Bytes) :=
  if l > maxInt32 then .error .tooLong
  else if bs.length < l then .error .eof
  else .ok (bs.take l, bs.drop l)

/-- Allocation requested by `ReadRawBytes l` before any byte is read: `l` if `l ≤ 1 MiB`,
otherwise the buffer grows with the bytes that actually arrive. -/
def readRawPrealloc (l : Nat) : Nat := if l > maxInt32 then 0 else if l ≤ 1024 * 1024 then l else 0

def encBytes (d : Bytes) : Bytes := encHead majBytes d.length ++ d
def encText (d : Bytes) : Bytes := encHead majText d.length ++ d

def decBytes (bs : Bytes) : Except Err (Bytes × Bytes) :=
  match decExpect majBytes bs with
  | .error e => .error e
  | .ok (n, rest) => readRaw n rest

def decText (bs : Bytes) : Except Err (Bytes × Bytes) :=
  match decExpect majText bs with
  | .error e => .error e
  | .ok (n, rest) => readRaw n rest

def encUInt (n : Nat) : Bytes := encHead majUInt n
def decUInt (bs : Bytes) : Except Err (Nat × Bytes) := decExpect majUInt bs
def encArray (n : Nat) : Bytes := encHead majArray n
def decArray (bs : Bytes) : Except Err (Nat × Bytes) := decExpect majArray bs

end Dtn7.Cbor
